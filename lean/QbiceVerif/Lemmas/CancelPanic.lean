import QbiceVerif.Model.CancelLts

/-!
# C05 — an executor panic reaches the caller

After `panic t` the task is in `caught`; from there the only events of `t` are `resume t` (one frame
unwound: its lock guard and its undo are dropped, the caller frame catches and resumes in turn) and
`cancel t`; other tasks' events never touch `t`.  So the task can only end with the outcome `panicked`
(the panic has propagated out of the outermost frame) or `cancelled` (the caller itself dropped the
future) — never `returned`.
-/

namespace QbiceVerif.CancelLts

set_option linter.unusedSimpArgs false

def taskOf : Ev → Tid
  | .spawn t _ _ _ | .call t _ | .hit t | .waitC t | .waitB t | .wake t | .lock t | .gEnter t | .batchNew t
  | .write t | .submit t | .finish t | .panic t | .resume t | .bpLock t | .bpUp t | .cancel t
  | .sStart t | .sBump t | .sAcquire t | .sWrite t _ | .sCommit t | .sFinish t => t

theorem cancelTask_other (s : State) (t : Tid) (T : Task) (t' : Tid) (h : t' ≠ t) :
    (cancelTask s t T).tasks t' = s.tasks t' ∧ (cancelTask s t T).outcome t' = s.outcome t' := by
  unfold cancelTask
  split
  · split <;> (try cases T.batch) <;> simp [endTask, setTask, dropBatch, upd, h] <;> (split <;> simp [upd, h])
  · split
    · simp [endTask, upd, h]; split <;> simp [upd, h]
    · split
      · simp [upd, h]
      · cases T.batch <;> simp [endTask, dropBatch, upd, h] <;> (split <;> simp [upd, h])

/-- events of other tasks leave a task and what its caller observed alone -/
theorem step_other {s s' : State} {e : Ev} {t : Tid} (h : step s e = some s') (hne : taskOf e ≠ t) :
    s'.tasks t = s.tasks t ∧ s'.outcome t = s.outcome t := by
  have hne' : t ≠ taskOf e := fun x => hne x.symm
  cases e <;> simp only [taskOf] at hne' <;> simp only [step] at h <;> (repeat' split at h) <;>
    first
    | (cases h; done)
    | (injection h with h; subst h
       first
       | exact cancelTask_other _ _ _ _ hne'
       | (simp [setTask, endTask, upd, hne']; done)
       | (simp [setTask, endTask, upd, hne']; split <;> simp [upd, hne']))

end QbiceVerif.CancelLts

namespace QbiceVerif.CancelLts

set_option linter.unusedSimpArgs false

theorem panic_to_caught {s s' : State} {t : Tid} (h : step s (.panic t) = some s') :
    ∃ T, s.tasks t = some T ∧ T.pc = .locked ∧ s'.tasks t = some { T with pc := .caught } ∧ s'.outcome t = s.outcome t := by
  simp only [step] at h
  cases hT : s.tasks t with
  | none => simp [hT] at h
  | some T =>
    simp only [hT] at h
    split at h
    · next hc => cases h; exact ⟨T, rfl, hc, by simp [setTask, upd], rfl⟩
    · cases h

/-- a task whose executor panicked can only unwind or be dropped -/
theorem caught_events {s s' : State} {e : Ev} {t : Tid} {T : Task} (hT : s.tasks t = some T) (hpc : T.pc = .caught)
    (h : step s e = some s') (he : taskOf e = t) : e = .resume t ∨ e = .cancel t := by
  cases e <;> simp only [taskOf] at he <;> subst he <;> simp only [step, hT] at h <;>
    first
    | (left; rfl)
    | (right; rfl)
    | (exfalso; revert h; simp [hpc]; done)
    | (exfalso; repeat' split at h; all_goals (first | (cases h; done) | (simp_all; done)))

/-- a finished task (its caller has an outcome) never moves again -/
theorem step_dead {s : State} {e : Ev} {t : Tid} (hT : s.tasks t = none) (ho : s.outcome t ≠ none) (he : taskOf e = t) :
    step s e = none := by
  cases e <;> simp only [taskOf] at he <;> subst he <;> simp [step, hT, ho]

theorem resume_effect {s s' : State} {t : Tid} {T : Task} (hT : s.tasks t = some T) (hd : T.detached = false)
    (h : step s (.resume t) = some s') :
    (s'.tasks t = none ∧ s'.outcome t = some .panicked) ∨
    (∃ T', s'.tasks t = some T' ∧ T'.pc = .caught ∧ T'.detached = false ∧ T'.frames.length < T.frames.length ∧ s'.outcome t = s.outcome t) := by
  simp only [step, hT] at h
  cases hF : T.frames with
  | nil => simp [hF] at h
  | cons top rest =>
    simp only [hF] at h
    split at h
    · cases rest with
      | nil => simp only at h; cases h; left; simp [endTask, upd, hd]
      | cons r rs => simp only at h; cases h; right; exact ⟨{ T with frames := r :: rs, pc := .caught }, by simp [upd], rfl, hd, by simp [hF], rfl⟩
    · cases h

theorem cancel_effect_caught {s s' : State} {t : Tid} {T : Task} (hT : s.tasks t = some T) (hpc : T.pc = .caught)
    (h : step s (.cancel t) = some s') : s'.tasks t = none ∧ s'.outcome t = some .cancelled := by
  simp only [step, hT] at h
  split at h
  · next hd =>
    cases h
    unfold cancelTask
    simp only [hpc, Pc.isSession, Pc.guarded]
    cases hF : T.frames with
    | nil => simp [endTask, upd, hd]
    | cons top rest => cases T.batch <;> simp [endTask, dropBatch, upd, hd]
  · cases h

/-- what can have become of a task whose executor panicked -/
def Unwinding (s : State) (t : Tid) : Prop :=
  (∃ T, s.tasks t = some T ∧ T.pc = .caught ∧ T.detached = false ∧ s.outcome t = none) ∨
  (s.tasks t = none ∧ (s.outcome t = some .panicked ∨ s.outcome t = some .cancelled))

theorem unwinding_step {s s' : State} {e : Ev} {t : Tid} (hu : Unwinding s t) (h : step s e = some s') : Unwinding s' t := by
  by_cases he : taskOf e = t
  · rcases hu with ⟨T, hT, hpc, hd, ho⟩ | ⟨hT, ho⟩
    · rcases caught_events hT hpc h he with rfl | rfl
      · rcases resume_effect hT hd h with ⟨a, b⟩ | ⟨T', a, b, c, _, d⟩
        · exact Or.inr ⟨a, Or.inl b⟩
        · exact Or.inl ⟨T', a, b, c, by rw [d]; exact ho⟩
      · obtain ⟨a, b⟩ := cancel_effect_caught hT hpc h
        exact Or.inr ⟨a, Or.inr b⟩
    · have : step s e = none := step_dead hT (by rcases ho with ho | ho <;> rw [ho] <;> simp) he
      rw [this] at h; cases h
  · obtain ⟨a, b⟩ := step_other h he
    rcases hu with ⟨T, hT, hpc, hd, ho⟩ | ⟨hT, ho⟩
    · exact Or.inl ⟨T, by rw [a]; exact hT, hpc, hd, by rw [b]; exact ho⟩
    · exact Or.inr ⟨by rw [a]; exact hT, by rw [b]; exact ho⟩

theorem unwinding_run {s s' : State} {es : List Ev} {t : Tid} (hu : Unwinding s t) (h : run s es = some s') : Unwinding s' t := by
  induction es generalizing s with
  | nil => simp [run] at h; subst h; exact hu
  | cons e es ih =>
    simp only [run] at h
    cases hs : step s e with
    | none => simp [hs] at h
    | some s1 => simp only [hs] at h; exact ih (unwinding_step hu hs) h

/-- the same when the caller does not drop the future itself: the only outcome is `panicked` -/
def UnwindingNC (s : State) (t : Tid) : Prop :=
  (∃ T, s.tasks t = some T ∧ T.pc = .caught ∧ T.detached = false ∧ s.outcome t = none) ∨
  (s.tasks t = none ∧ s.outcome t = some .panicked)

theorem unwindingNC_run {s s' : State} {es : List Ev} {t : Tid} (hu : UnwindingNC s t) (hnc : Ev.cancel t ∉ es)
    (h : run s es = some s') : UnwindingNC s' t := by
  induction es generalizing s with
  | nil => simp [run] at h; subst h; exact hu
  | cons e es ih =>
    simp only [run] at h
    cases hs : step s e with
    | none => simp [hs] at h
    | some s1 =>
      simp only [hs] at h
      refine ih ?_ (fun hm => hnc (List.mem_cons_of_mem _ hm)) h
      by_cases he : taskOf e = t
      · rcases hu with ⟨T, hT, hpc, hd, ho⟩ | ⟨hT, ho⟩
        · rcases caught_events hT hpc hs he with rfl | rfl
          · rcases resume_effect hT hd hs with ⟨a, b⟩ | ⟨T', a, b, c, _, d⟩
            · exact Or.inr ⟨a, b⟩
            · exact Or.inl ⟨T', a, b, c, by rw [d]; exact ho⟩
          · exact absurd List.mem_cons_self hnc
        · have : step s e = none := step_dead hT (by rw [ho]; simp) he
          rw [this] at hs; cases hs
      · obtain ⟨a, b⟩ := step_other hs he
        rcases hu with ⟨T, hT, hpc, hd, ho⟩ | ⟨hT, ho⟩
        · exact Or.inl ⟨T, by rw [a]; exact hT, hpc, hd, by rw [b]; exact ho⟩
        · exact Or.inr ⟨by rw [a]; exact hT, by rw [b]; exact ho⟩

end QbiceVerif.CancelLts

namespace QbiceVerif.CancelLts

theorem reachable_of_run {cfg : Cfg} {s0 s : State} {es : List Ev} (h0 : Reachable cfg s0) (h : run s0 es = some s) :
    Reachable cfg s := by
  induction es generalizing s0 with
  | nil => simp [run] at h; subst h; exact h0
  | cons e es ih =>
    simp only [run] at h
    cases hs : step s0 e with
    | none => simp [hs] at h
    | some s1 => simp only [hs] at h; exact ih (Reachable.step e h0 hs) h

theorem run_other {s0 s : State} {es : List Ev} {t : Tid} (hall : ∀ e ∈ es, taskOf e ≠ t) (h : run s0 es = some s) :
    s.tasks t = s0.tasks t := by
  induction es generalizing s0 with
  | nil => simp [run] at h; subst h; rfl
  | cons e es ih =>
    simp only [run] at h
    cases hs : step s0 e with
    | none => simp [hs] at h
    | some s1 =>
      simp only [hs] at h
      rw [ih (fun e' he' => hall e' (List.mem_cons_of_mem _ he')) h]
      exact (step_other hs (hall e List.mem_cons_self)).1

end QbiceVerif.CancelLts
