import QbiceVerif.Model.EngineLts

/-! Safety invariants of the `CT` (computing table) LTS, preserved by every event. -/

namespace QbiceVerif.Lts.CT

/-- `a` was published before `b` (the log is newest first) -/
def PublishedBefore (a b : Nat) (log : List Nat) : Prop := ∃ l1 l2, log = l1 ++ b :: l2 ∧ a ∈ l2

theorem PublishedBefore.cons {a b : Nat} {log : List Nat} (c : Nat) (h : PublishedBefore a b log) :
    PublishedBefore a b (c :: log) := by
  obtain ⟨l1, l2, rfl, hm⟩ := h
  exact ⟨c :: l1, l2, rfl, hm⟩

theorem PublishedBefore.head {a b : Nat} {log : List Nat} (h : a ∈ log) : PublishedBefore a b (b :: log) :=
  ⟨[], log, rfl, h⟩

structure Inv (s : State) : Prop where
  /-- tasks beyond `n` do not exist yet -/
  bound : ∀ i, s.n ≤ i → s.task i = {}
  /-- a table entry belongs to a task that is between its `entry_sync` insertion and its `remove_sync` -/
  tableOwner : ∀ k o, s.table k = some o → (s.task o).key = k ∧ (s.task o).pc.isOwner = true
  /-- …and such a task's entry is in the table -/
  ownerTable : ∀ i, (s.task i).pc.isOwner = true → s.table (s.task i).key = some i
  /-- a `Notified` future that was not completed yet was created on the entry that is still in the
  table, or whose owner is about to call `notify_waiters` -/
  waitReg : ∀ j o, (s.task j).pc.waitingOn = some o → (s.task j).woken = false →
    (s.task o).key = (s.task j).key ∧
      (s.table (s.task j).key = some o ∨ (s.task o).pc = .notify ∨ (s.task o).pc = .notifyA)
  doneVerified : ∀ i, ((s.task i).pc = .remove ∨ (s.task i).pc = .notify) → s.verified (s.task i).key = true
  /-- the cached miss of a snapshot is still true while the snapshot's shared lock is held -/
  guardAUnverified : ∀ i, (s.task i).pc = .guardA → s.verified (s.task i).key = false
  /-- the exclusive query lock excludes the shared holders -/
  publishExcl : ∀ i j, (s.task i).pc = .publish → (s.task j).key = (s.task i).key → (s.task j).pc.holdsShared = false
  /-- nested requests go to smaller keys (acyclic program) -/
  parentKey : ∀ j p, (s.task j).parent = some p → (s.task j).key < (s.task p).key
  /-- the publish log lists exactly the verified keys, once each -/
  logSpec : (s.log.map Prod.fst).Nodup ∧ ∀ k, k ∈ s.log.map Prod.fst ↔ s.verified k = true
  /-- an owner that has not published yet has an unverified key -/
  ownerUnverified : ∀ i, ((s.task i).pc = .wantX ∨ (s.task i).pc = .publish ∨ ∃ b, (s.task i).pc = .exec b) →
    s.verified (s.task i).key = false
  /-- a request only returns a published key -/
  doneReal : ∀ i, i < s.n → (s.task i).pc = .done → s.verified (s.task i).key = true
  parentReal : ∀ j p, (s.task j).parent = some p → j < s.n
  /-- user requests are never cancelled -/
  rootsAlive : ∀ i, (s.task i).parent = none →
    (s.task i).pc ≠ .gone ∧ (s.task i).pc ≠ .removeA ∧ (s.task i).pc ≠ .notifyA
  /-- the executor has returned only after all its nested requests ended -/
  ownerChildrenDone : ∀ i j, ((s.task i).pc = .wantX ∨ (s.task i).pc = .publish) → (s.task j).parent = some i →
    (s.task j).pc.ended = true
  publishedChildren : ∀ i j, ((s.task i).key, i) ∈ s.log → (s.task j).parent = some i → (s.task j).pc.ended = true
  /-- the execution that published a key had been handed only keys published before -/
  depOrder : ∀ i j, (s.task j).parent = some i → (s.task j).pc = .done → ((s.task i).key, i) ∈ s.log →
    PublishedBefore (s.task j).key (s.task i).key (s.log.map Prod.fst)

theorem noneWith_spec {s : State} {k : Nat} {p : Pc → Bool} (h : s.noneWith k p = true) :
    ∀ j, j < s.n → (s.task j).key = k → p (s.task j).pc = false := by
  intro j hj hk
  simp only [State.noneWith, List.all_eq_true, List.mem_range] at h
  have := h j hj
  simp [hk] at this
  exact this

theorem noneWith_intro {s : State} {k : Nat} {p : Pc → Bool}
    (h : ∀ j, j < s.n → (s.task j).key = k → p (s.task j).pc = false) : s.noneWith k p = true := by
  simp only [State.noneWith, List.all_eq_true, List.mem_range]
  intro j hj
  by_cases hk : (s.task j).key = k
  · simp [hk, h j hj hk]
  · simp [hk]

theorem childrenDone_spec {s : State} {i : Nat} (h : s.childrenDone i = true) :
    ∀ j, j < s.n → (s.task j).parent = some i → (s.task j).pc.ended = true := by
  intro j hj hp
  simp only [State.childrenDone, List.all_eq_true, List.mem_range] at h
  have := h j hj
  simp [hp] at this
  exact this

theorem childrenDone_intro {s : State} {i : Nat}
    (h : ∀ j, j < s.n → (s.task j).parent = some i → (s.task j).pc.ended = true) : s.childrenDone i = true := by
  simp only [State.childrenDone, List.all_eq_true, List.mem_range]
  intro j hj
  by_cases hp : (s.task j).parent = some i
  · simp [hp, h j hj hp]
  · simp [hp]

theorem inv_init (roots : List Nat) (B : Nat) : Inv (init roots B) := by
  constructor <;> simp only [init] <;> intros <;> (try split at *) <;>
    simp_all [Pc.isOwner, Pc.waitingOn, Pc.holdsShared, Pc.ended]
  all_goals (first | omega | skip)
  all_goals (rename_i h; first | (have := List.getElem?_eq_none_iff.mpr h; simp_all) | skip)

macro "ct_close" : tactic =>
  `(tactic| (constructor <;> simp only [State.setTask] <;> grind [Pc.isOwner, Pc.waitingOn, Pc.holdsShared, Pc.ended, Pc.cancelsChildren]))

theorem inv_loopHead {s s' : State} {i : Nat} (hi : Inv s) (h : step s (.loopHead i) = some s') : Inv s' := by
  simp only [step] at h
  split at h
  · rename_i hc
    obtain ⟨hlt, hpc⟩ := hc
    obtain ⟨h1,h2,h3,h4,h6,h7,h8,h9,h11,h12,h13,h14,h15,h16,h17,h18⟩ := hi
    split at h <;> cases h <;> ct_close
  · cases h

theorem inv_wake {s s' : State} {i : Nat} (hi : Inv s) (h : step s (.wake i) = some s') : Inv s' := by
  simp only [step] at h
  split at h
  · rename_i hc
    obtain ⟨hlt, hpc⟩ := hc
    obtain ⟨h1,h2,h3,h4,h6,h7,h8,h9,h11,h12,h13,h14,h15,h16,h17,h18⟩ := hi
    split at h <;> cases h <;> ct_close
  · cases h

theorem inv_snap {s s' : State} {i : Nat} (hi : Inv s) (h : step s (.snap i) = some s') : Inv s' := by
  simp only [step] at h
  split at h
  · rename_i hc
    obtain ⟨hlt, hnw⟩ := hc
    have hnw' := noneWith_spec hnw
    obtain ⟨h1,h2,h3,h4,h6,h7,h8,h9,h11,h12,h13,h14,h15,h16,h17,h18⟩ := hi
    have hall : ∀ j, (s.task j).key = (s.task i).key → (s.task j).pc ≠ .publish := by
      intro j hk hp
      by_cases hj : j < s.n
      · have := hnw' j hj hk; simp [hp] at this
      · have := h1 j (Nat.le_of_not_lt hj); rw [this] at hp; cases hp
    split at h <;> cases h <;> ct_close
  · cases h

theorem inv_fast {s s' : State} {i : Nat} (hi : Inv s) (h : step s (.fast i) = some s') : Inv s' := by
  simp only [step] at h
  split at h
  · rename_i hc
    obtain ⟨hlt, hpc⟩ := hc
    obtain ⟨h1,h2,h3,h4,h6,h7,h8,h9,h11,h12,h13,h14,h15,h16,h17,h18⟩ := hi
    split at h <;> cases h <;> ct_close
  · cases h

theorem inv_tfcRelease {s s' : State} {i : Nat} (hi : Inv s) (h : step s (.tfcRelease i) = some s') : Inv s' := by
  simp only [step] at h
  split at h
  · rename_i hc
    obtain ⟨hlt, hpc⟩ := hc
    obtain ⟨h1,h2,h3,h4,h6,h7,h8,h9,h11,h12,h13,h14,h15,h16,h17,h18⟩ := hi
    cases h; ct_close
  · cases h

theorem inv_tryInsert {s s' : State} {i : Nat} (hi : Inv s) (h : step s (.tryInsert i) = some s') : Inv s' := by
  simp only [step] at h
  split at h
  · rename_i hc
    obtain ⟨hlt, hpc⟩ := hc
    obtain ⟨h1,h2,h3,h4,h6,h7,h8,h9,h11,h12,h13,h14,h15,h16,h17,h18⟩ := hi
    split at h
    · cases h; ct_close
    · rename_i hnb
      have hunv : s.verified (s.task i).key = false := by grind
      split at h
      · cases h; ct_close
      · cases h; ct_close
  · cases h

theorem inv_call {s s' : State} {i d : Nat} (hi : Inv s) (h : step s (.call i d) = some s') : Inv s' := by
  simp only [step] at h
  split at h
  · rename_i hc
    obtain ⟨hlt, hd⟩ := hc
    obtain ⟨h1,h2,h3,h4,h6,h7,h8,h9,h11,h12,h13,h14,h15,h16,h17,h18⟩ := hi
    have hn := h1 s.n (Nat.le_refl _)
    split at h
    · cases h; ct_close
    · cases h
  · cases h

theorem inv_execDone {s s' : State} {i : Nat} (hi : Inv s) (h : step s (.execDone i) = some s') : Inv s' := by
  simp only [step] at h
  split at h
  · rename_i hc
    obtain ⟨hlt, hcd⟩ := hc
    have hcd' := childrenDone_spec hcd
    obtain ⟨h1,h2,h3,h4,h6,h7,h8,h9,h11,h12,h13,h14,h15,h16,h17,h18⟩ := hi
    split at h
    · cases h; ct_close
    · cases h
  · cases h

theorem inv_lockX {s s' : State} {i : Nat} (hi : Inv s) (h : step s (.lockX i) = some s') : Inv s' := by
  simp only [step] at h
  split at h
  · rename_i hc
    obtain ⟨hlt, hpc, hnw⟩ := hc
    have hnw' := noneWith_spec hnw
    obtain ⟨h1,h2,h3,h4,h6,h7,h8,h9,h11,h12,h13,h14,h15,h16,h17,h18⟩ := hi
    have hall : ∀ j, (s.task j).key = (s.task i).key → (s.task j).pc.holdsShared = false ∧ (s.task j).pc ≠ .publish := by
      intro j hk
      by_cases hj : j < s.n
      · have := hnw' j hj hk
        simp only [Bool.or_eq_false_iff] at this
        refine ⟨this.1, ?_⟩
        intro hp; rw [hp] at this; simp at this
      · have := h1 j (Nat.le_of_not_lt hj); rw [this]; simp [Pc.holdsShared]
    cases h; ct_close
  · cases h

theorem inv_publish {s s' : State} {i : Nat} (hi : Inv s) (h : step s (.publish i) = some s') : Inv s' := by
  simp only [step] at h
  split at h
  · rename_i hc
    obtain ⟨hlt, hpc⟩ := hc
    obtain ⟨h1,h2,h3,h4,h6,h7,h8,h9,h11,h12,h13,h14,h15,h16,h17,h18⟩ := hi
    have hunv : s.verified (s.task i).key = false := h12 i (Or.inr (Or.inl hpc))
    have hnl : (s.task i).key ∉ s.log.map Prod.fst := by
      intro hm; have := (h11.2 _).1 hm; rw [hunv] at this; cases this
    have hkey : ∀ x, (if x = i then ({ s.task i with pc := .remove } : Task) else s.task x).key = (s.task x).key := by
      intro x; split <;> simp_all
    have hpar : ∀ x, (if x = i then ({ s.task i with pc := .remove } : Task) else s.task x).parent = (s.task x).parent := by
      intro x; split <;> simp_all
    cases h
    constructor <;> simp only [State.setTask]
    case logSpec =>
      simp only [List.map_cons]
      refine ⟨List.nodup_cons.2 ⟨hnl, h11.1⟩, ?_⟩
      intro k
      by_cases hk : k = (s.task i).key
      · simp [hk]
      · simp [hk, h11.2 k]
    case publishedChildren =>
      intro i' j hm hp
      rw [hkey] at hm; rw [hpar] at hp
      have hj : j ≠ i := by
        intro hji; subst hji
        have := h9 j i' hp
        by_cases hii : i' = j
        · subst hii; omega
        · have h16' := h16
          simp only [List.mem_cons, Prod.mk.injEq] at hm
          rcases hm with ⟨_, rfl⟩ | hm
          · exact hii rfl
          · have hv : s.verified (s.task i').key = true := (h11.2 _).1 (List.mem_map.2 ⟨_, hm, rfl⟩)
            have := h17 i' j hm hp
            rw [hpc] at this; simp [Pc.ended] at this
      simp only [hj, if_false]
      simp only [List.mem_cons, Prod.mk.injEq] at hm
      rcases hm with ⟨_, rfl⟩ | hm
      · exact h16 i' j (Or.inr hpc) hp
      · exact h17 i' j hm hp
    case depOrder =>
      intro i' j hp hd hm
      rw [hpar] at hp
      rw [hkey] at hm ⊢
      rw [hkey]
      have hjd : (s.task j).pc = .done := by
        by_cases hji : j = i
        · subst hji; simp at hd
        · simpa [hji] using hd
      simp only [List.map_cons]
      simp only [List.mem_cons, Prod.mk.injEq] at hm
      rcases hm with ⟨hk, rfl⟩ | hm
      · have hjn := h14 j i' hp
        have hvj := h13 j hjn hjd
        exact PublishedBefore.head ((h11.2 _).2 hvj)
      · exact (h18 i' j hp hjd hm).cons _
    all_goals grind [Pc.isOwner, Pc.waitingOn, Pc.holdsShared, Pc.ended, Pc.cancelsChildren]
  · cases h

theorem inv_remove {s s' : State} {i : Nat} (hi : Inv s) (h : step s (.remove i) = some s') : Inv s' := by
  simp only [step] at h
  split at h
  · rename_i hc
    obtain ⟨hlt, hpc⟩ := hc
    obtain ⟨h1,h2,h3,h4,h6,h7,h8,h9,h11,h12,h13,h14,h15,h16,h17,h18⟩ := hi
    cases h; ct_close
  · cases h

theorem inv_notify {s s' : State} {i : Nat} (hi : Inv s) (h : step s (.notify i) = some s') : Inv s' := by
  simp only [step] at h
  split at h
  · rename_i hc
    obtain ⟨hlt, hpc⟩ := hc
    obtain ⟨h1,h2,h3,h4,h6,h7,h8,h9,h11,h12,h13,h14,h15,h16,h17,h18⟩ := hi
    cases h
    constructor <;> grind [Pc.isOwner, Pc.waitingOn, Pc.holdsShared, Pc.ended, Pc.cancelsChildren]
  · cases h

end QbiceVerif.Lts.CT
