/-
Lemmas for C08 on the extended core model `Qbice.CoreFw`, part 2: the store images of the upper
layers — repair of the transitive firewall callees, backward projection (each re-executed projection
publishes its batch, then `done_backward_projection` publishes the cleared flag), the
`BackwardProjectionPropagation`, `RepairFirewall` and user callers.
-/
import QbiceVerif.Lemmas.EnginePersistCoreFw2
namespace Qbice.CoreFw
open Qbice.Core (Prog Err Write SetRes Sat)

/-- images published by requests for a list of keys, one after the other -/
def imagesEach (q : Q) (I : Key → St → List St) : List Key → St → List St
  | [], _ => []
  | c :: rest, s => I c s ++ (match q c s with
      | .error _ => []
      | .ok (_, s1) => imagesEach q I rest s1)

/-- `invoke_backward_projections` + `done_backward_projection` (the last image) -/
def imagesBack (qb : Q) (IB : Key → St → List St) (p : Program) (k : Key) (s : St) : List St :=
  imagesEach qb IB (projsAbove p s k) s ++ (match backProject qb p k s with
    | .ok s' => [s']
    | .error _ => [])

/-- the request proper of a `BackwardProjectionPropagation` caller (since the F13 repair: the request
    of a pedantic query caller) -/
def firstB (p : Program) (k : Key) (s : St) : Except Err (Val × St) :=
  queryQ p (fuelFor p) true k s

theorem queryB_eq (p : Program) (fuel : Nat) (k : Key) (s : St) :
    queryB p (fuel + 1) k s =
      match firstB p k s with
      | .error e => .error e
      | .ok (v, s1) =>
        if hasPending s1 k then
          match backProject (queryB p fuel) p k s1 with
          | .error e => .error e
          | .ok s2 => .ok (v, s2)
        else .ok (v, s1) := rfl

def imagesB (p : Program) : Nat → Key → St → List St
  | 0, _, _ => []
  | fuel + 1, k, s =>
    imagesQ p (fuelFor p) true k s ++
    (match firstB p k s with
     | .ok (_, s1) => if hasPending s1 k then imagesBack (queryB p fuel) (imagesB p fuel) p k s1 else []
     | .error _ => [])

def imagesTfc (qf : Q) (IF : Key → St → List St) (k : Key) (s : St) : List St :=
  match s.nodes k with
  | none => []
  | some n => if n.lastVerified = s.epoch then [] else imagesEach qf IF n.tfc s

def imagesF (p : Program) : Nat → Key → St → List St
  | 0, _, _ => []
  | fuel + 1, k, s =>
    imagesTfc (queryF p fuel) (imagesF p fuel) k s ++
    (match repairTfc (queryF p fuel) k s with
     | .error _ => []
     | .ok s1 =>
       imagesQ p (fuelFor p) false k s1 ++
       (match queryQ p (fuelFor p) false k s1 with
        | .error _ => []
        | .ok (_, s2) =>
          if hasPending s2 k then imagesBack (queryB p (fuelFor p)) (imagesB p (fuelFor p)) p k s2 else []))

/-- the store images between the logical write batches of a request by the user -/
def imagesU (p : Program) (fuel : Nat) (k : Key) (s : St) : List St :=
  imagesTfc (queryF p fuel) (imagesF p fuel) k s ++
  (match repairTfc (queryF p fuel) k s with
   | .error _ => []
   | .ok s1 => imagesQ p fuel false k s1)

-- ------------------------------------------------------------------ every image is sound

theorem imagesEach_ok {p : Program} {q : Q} {I : Key → St → List St} {P : Key → St → Prop}
    {R : St → St → Prop}
    (hq : ∀ d s, Inv p s → P d s → Sat (q d s) (fun r => UPost p d s r ∧ R s r.2))
    (hI : ∀ d s, Inv p s → P d s → ∀ t, t ∈ I d s → ImgOK p s t)
    (hP : ∀ d s s', P d s → Inv p s → Inv p s' → Frame p s s' → R s s' → P d s') :
    ∀ (ks : List Key) (s : St), (∀ f, f ∈ ks → P f s) → Inv p s →
      ∀ t, t ∈ imagesEach q I ks s → ImgOK p s t := by
  intro ks
  induction ks with
  | nil => intro s _ _ t ht; simp [imagesEach] at ht
  | cons c rest ih =>
    intro s hb inv t ht
    simp only [imagesEach, List.mem_append] at ht
    cases ht with
    | inl ht => exact hI c s inv (hb c (List.mem_cons_self ..)) t ht
    | inr ht =>
      have hqc := hq c s inv (hb c (List.mem_cons_self ..))
      cases hr : q c s with
      | error e => rw [hr] at ht; simp at ht
      | ok r =>
        obtain ⟨v, s1⟩ := r
        rw [hr] at ht hqc
        obtain ⟨⟨i1, f1, _⟩, r1⟩ := hqc
        simp only at i1 f1 r1 ht
        exact (ih s1 (fun f hf => hP f s s1 (hb f (List.mem_cons_of_mem _ hf)) inv i1 f1 r1) i1 t ht).trans f1

theorem imagesBack_ok {p : Program} {qb : Q} {IB : Key → St → List St} {k : Key} {s : St} (inv : Inv p s)
    {nk : Node} (hk : s.nodes k = some nk) (hv : nk.lastVerified = s.epoch) (hpk : nk.pendingBP = true)
    (hq : ∀ c s', k < c → Inv p s' → PreB s' c → Sat (qb c s') (BPost p c s'))
    (hI : ∀ c s', k < c → Inv p s' → PreB s' c → ∀ t, t ∈ IB c s' → ImgOK p s' t) :
    ∀ t, t ∈ imagesBack qb IB p k s → ImgOK p s t := by
  intro t ht
  simp only [imagesBack, List.mem_append] at ht
  cases ht with
  | inr ht =>
    have hbp := backProject_spec (qb := qb) inv hk hv hpk hq
    cases hr : backProject qb p k s with
    | error e => rw [hr] at ht; simp at ht
    | ok s' =>
      rw [hr] at ht hbp
      simp only [List.mem_singleton] at ht
      subst ht
      exact ⟨hbp.1, hbp.2.1⟩
  | inl ht =>
    refine imagesEach_ok
      (P := fun c s' => k < c ∧ PreB s' c)
      (R := NoClearBelow (k + 1)) ?_ ?_ ?_ (projsAbove p s k) s ?_ inv t ht
    · intro c s' i hP
      refine (hq c s' hP.1 i hP.2).mono ?_
      rintro r ⟨hu, hnc, _⟩
      exact ⟨hu, hnc.mono (by have := hP.1; komega)⟩
    · intro c s' i hP
      exact hI c s' hP.1 i hP.2
    · rintro c s1 s2 ⟨hlt, n, hn, hkp⟩ i1 i2 f12 _
      refine ⟨hlt, ?_⟩
      cases f12.same_or_verified c with
      | inr v =>
        obtain ⟨n2, h2, _⟩ := v
        obtain ⟨d1, hp1, hk1, _⟩ := i1.kind c n hn
        obtain ⟨d2, hp2, hk2, _⟩ := i2.kind c n2 h2
        rw [hp1] at hp2; cases hp2
        exact ⟨n2, h2, by rw [← hk2, hk1]; exact hkp⟩
      | inl e => exact ⟨n, by rw [e]; exact hn, hkp⟩
    · intro c hc
      obtain ⟨hlt, n, o, hn, hkp, hm⟩ := mem_projsAbove.1 hc
      exact ⟨(inv.down c n hn k o hm).1, n, hn, hkp⟩

theorem imagesQ_badKey {p : Program} {s : St} (inv : Inv p s) {k : Key} (hk : p.length ≤ k) (fuel : Nat)
    (ped : Bool) : imagesQ p fuel ped k s = [] := by
  cases fuel with
  | zero => rfl
  | succ f =>
    have hp : p[k]? = none := List.getElem?_eq_none hk
    have hn : s.nodes k = none := by
      cases h : s.nodes k with
      | none => rfl
      | some n => obtain ⟨d, hd, _⟩ := inv.kind k n h; rw [hp] at hd; cases hd
    simp [imagesQ, hn, hp]

theorem imagesQ_fuelFor_ok {p : Program} (wf : WF p) (sh : Shape p) (ped : Bool) (k : Key) {s : St}
    (inv : Inv p s) : ∀ t, t ∈ imagesQ p (fuelFor p) ped k s → ImgOK p s t := by
  intro t ht
  by_cases hk : k < p.length
  · exact imagesQ_ok wf sh (fuelFor p) ped k (by simp [fuelFor]; komega) s inv t ht
  · rw [imagesQ_badKey inv (by komega)] at ht; simp at ht

/-- the request proper of the `BackwardProjectionPropagation` caller (first half of `queryB_spec`) -/
theorem firstB_spec {p : Program} (wf : WF p) (sh : Shape p) {c : Key} {s : St}
    (inv : Inv p s) : Sat (firstB p c s) (QPost p c s) :=
  queryQ_fuelFor wf sh true c inv

theorem imagesB_ok {p : Program} (wf : WF p) (sh : Shape p) :
    ∀ fuel c s, p.length ≤ c + fuel → Inv p s → PreB s c → ∀ t, t ∈ imagesB p fuel c s → ImgOK p s t := by
  intro fuel
  induction fuel with
  | zero => intro c s _ _ _ t ht; simp [imagesB] at ht
  | succ fuel ih =>
    intro c s hf inv _ t ht
    have hfirst := firstB_spec wf sh (c := c) inv
    simp only [imagesB, List.mem_append] at ht
    cases ht with
    | inl ht => exact imagesQ_fuelFor_ok wf sh true c inv t ht
    | inr ht =>
      cases hr : firstB p c s with
      | error e => rw [hr] at ht; simp at ht
      | ok r =>
        obtain ⟨v, s1⟩ := r
        rw [hr] at ht hfirst
        obtain ⟨i1, f1, t1, c1, n1, hn1, hv1, hver1⟩ := hfirst
        simp only at i1 f1 t1 c1 hn1 hv1 hver1 ht
        split at ht
        · rename_i hpend
          exact (imagesBack_ok i1 hn1 hver1 (by simpa [hasPending, hn1] using hpend)
            (fun c' s' hlt' i' pre => queryB_spec wf sh fuel c' s' (by komega) i' pre)
            (fun c' s' hlt' i' pre => ih c' s' (by komega) i' pre) t ht).trans f1
        · simp at ht

theorem imagesTfc_ok {p : Program} {qf : Q} {IF : Key → St → List St} {k : Key}
    (hq : ∀ d, d < k → ∀ s, Inv p s → Sat (qf d s) (UPost p d s))
    (hI : ∀ d, d < k → ∀ s, Inv p s → ∀ t, t ∈ IF d s → ImgOK p s t) {s : St} (inv : Inv p s) :
    ∀ t, t ∈ imagesTfc qf IF k s → ImgOK p s t := by
  intro t ht
  simp only [imagesTfc] at ht
  cases hn : s.nodes k with
  | none => rw [hn] at ht; simp at ht
  | some n =>
    rw [hn] at ht
    simp only at ht
    split at ht
    · simp at ht
    · exact imagesEach_ok (P := fun d _ => d < k) (R := fun _ _ => True)
        (fun d s' i h => (hq d h s' i).mono (fun r hr => ⟨hr, trivial⟩))
        (fun d s' i h => hI d h s' i) (fun d _ _ h _ _ _ _ => h) n.tfc s
        (fun f hf => inv.tfcDown k n hn f hf) inv t ht

theorem imagesF_ok {p : Program} (wf : WF p) (sh : Shape p) :
    ∀ fuel k, k < fuel → ∀ s, Inv p s → ∀ t, t ∈ imagesF p fuel k s → ImgOK p s t := by
  intro fuel
  induction fuel with
  | zero => intro k hk; cases hk
  | succ fuel ih =>
    intro k hk s inv t ht
    have hqf : ∀ d, d < k → ∀ s', Inv p s' → Sat (queryF p fuel d s') (UPost p d s') :=
      fun d hd s' inv' => queryF_spec wf sh fuel d (by komega) s' inv'
    simp only [imagesF, List.mem_append] at ht
    cases ht with
    | inl ht => exact imagesTfc_ok hqf (fun d hd s' inv' => ih d (by komega) s' inv') inv t ht
    | inr ht =>
      have hrt := repairTfc_spec (qf := queryF p fuel) (k := k) hqf inv
      cases hr : repairTfc (queryF p fuel) k s with
      | error e => rw [hr] at ht; simp at ht
      | ok s1 =>
        rw [hr] at ht hrt
        obtain ⟨i1, f1⟩ := hrt
        simp only [List.mem_append] at ht
        cases ht with
        | inl ht => exact (imagesQ_fuelFor_ok wf sh false k i1 t ht).trans f1
        | inr ht =>
          have hqq := queryQ_fuelFor wf sh false k i1
          cases hr2 : queryQ p (fuelFor p) false k s1 with
          | error e => rw [hr2] at ht; simp at ht
          | ok r =>
            obtain ⟨v, s2⟩ := r
            rw [hr2] at ht hqq
            obtain ⟨i2, f2, _, c2, n2, hn2, hv2, hver2⟩ := hqq
            simp only at i2 f2 c2 hn2 hv2 hver2 ht
            split at ht
            · rename_i hpend
              exact (imagesBack_ok (qb := queryB p (fuelFor p)) (IB := imagesB p (fuelFor p)) i2 hn2 hver2
                (by simpa [hasPending, hn2] using hpend)
                (fun c s' _ i' hpre => queryB_spec wf sh (fuelFor p) c s' (by simp [fuelFor]; komega) i' hpre)
                (fun c s' _ i' hpre => imagesB_ok wf sh (fuelFor p) c s' (by simp [fuelFor]; komega) i' hpre) t ht).trans (f1.trans f2)
            · simp at ht

/-- every store image between two logical write batches of a request by the user satisfies the
    engine invariant and has the timestamp, inputs, external values and world of its start -/
theorem imagesU_ok {p : Program} (wf : WF p) (sh : Shape p) {fuel k : Nat} (hk : k < fuel)
    {s : St} (inv : Inv p s) : ∀ t, t ∈ imagesU p fuel k s → ImgOK p s t := by
  intro t ht
  have hqf : ∀ d, d < k → ∀ s', Inv p s' → Sat (queryF p fuel d s') (UPost p d s') :=
    fun d hd s' inv' => queryF_spec wf sh fuel d (by komega) s' inv'
  simp only [imagesU, List.mem_append] at ht
  cases ht with
  | inl ht => exact imagesTfc_ok hqf (fun d hd s' inv' => imagesF_ok wf sh fuel d (by komega) s' inv') inv t ht
  | inr ht =>
    have hrt := repairTfc_spec (qf := queryF p fuel) (k := k) hqf inv
    cases hr : repairTfc (queryF p fuel) k s with
    | error e => rw [hr] at ht; simp at ht
    | ok s1 =>
      rw [hr] at ht hrt
      exact (imagesQ_ok wf sh fuel false k hk s1 hrt.1 t ht).trans hrt.2

end Qbice.CoreFw
