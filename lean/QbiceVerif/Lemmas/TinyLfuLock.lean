/-
The lock table over the TinyLFU model (property C16): every live reference points at the lock
instance the table currently stores for its key, so a second request for the key gets the same one.
-/
import QbiceVerif.Lemmas.TinyLfuStep
import QbiceVerif.Lemmas.TinyLfuPolicy

namespace QbiceVerif.TinyLfu

variable {σ : Type}

structure LInv (t : LockTable σ) : Prop where
  /-- a live reference points at the instance stored for its key -/
  stored : ∀ q id, (q, id) ∈ t.handles → sGet t.cache.core.st q = some id
  /-- every live reference holds one pin of its instance -/
  counted : ∀ id, (t.handles.map Prod.snd).count id ≤ t.cache.pins.count id

theorem linv_init (sk : σ) : LInv (LockTable.init sk) := by
  refine ⟨?_, ?_⟩ <;> simp [LockTable.init]

theorem LInv.pinned {t : LockTable σ} (hi : LInv t) {q id : Nat} (h : (q, id) ∈ t.handles) : id ∈ t.cache.pins := by
  have h1 : id ∈ t.handles.map Prod.snd := List.mem_map.mpr ⟨(q, id), h, rfl⟩
  have h2 := List.count_pos_iff.mpr h1
  have h3 := hi.counted id
  exact List.count_pos_iff.mp (by omega)

/-- a call that does not write `q'` keeps every entry whose value-token is pinned after it -/
theorem step_keeps {cfg : Cfg σ} {c c' : Cache σ} {op : Op} {r : Ret} {log : List (Nat × Bool)} {k v : Nat}
    (htok : ∀ k v, cfg.tok k v = v)
    (h : step cfg c op = .ok (c', r, log)) (hk : sGet c.core.st k = some v) (hw : ¬ op.writes k)
    (hp : v ∈ c'.pins) : sGet c'.core.st k = some v := by
  obtain ⟨he, _, _, _⟩ := step_spec h
  have hk' : sGet (access cfg c.clearLog op).1.core.st k = some v := by rw [access_frame cfg _ hw]; exact hk
  exact he.keep k v hk' (by rw [htok]; exact hp)

theorem step_get_pins {cfg : Cfg σ} {c c' : Cache σ} {q : Nat} {r : Ret} {log : List (Nat × Bool)}
    (h : step cfg c (.get q) = .ok (c', r, log)) : c'.pins = c.pins := by
  obtain ⟨_, hp, _, _⟩ := step_spec h
  rw [hp]; simp only [access]; split <;> rfl

theorem step_ins_pins {cfg : Cfg σ} {c c' : Cache σ} {q v : Nat} {r : Ret} {log : List (Nat × Bool)}
    (h : step cfg c (.ins q v) = .ok (c', r, log)) : c'.pins = c.pins := by
  obtain ⟨_, hp, _, _⟩ := step_spec h
  rw [hp]; simp only [access]; split <;> rfl

theorem step_ins_vacant {cfg : Cfg σ} {c c2 : Cache σ} {q v : Nat} {r2 : Ret} {log2 : List (Nat × Bool)}
    (htok : ∀ k v, cfg.tok k v = v) (hq : sGet c.core.st q = none)
    (hst : step cfg c (.ins q v) = .ok (c2, r2, log2)) :
    r2 = .inserted ∧ c2.pins = c.pins ∧ (v ∈ c.pins → sGet c2.core.st q = some v) := by
  obtain ⟨he, hp, hr, _⟩ := step_spec hst
  have hq' : sGet c.clearLog.core.st q = none := hq
  have hp' : c2.pins = c.pins := by rw [hp]; simp only [access, hq']; rfl
  refine ⟨by rw [hr]; simp only [access, hq'], hp', ?_⟩
  intro hv
  apply he.keep q v
  · simp only [access, hq']; simp [sGet]
  · rw [htok, hp']; exact hv

theorem acquire_linv {cfg : Cfg σ} {t t' : LockTable σ} {q id : Nat} (htok : ∀ k v, cfg.tok k v = v)
    (h : acquire cfg t q = .ok (t', id)) (hi : LInv t) : LInv t' := by
  unfold acquire at h
  split at h
  · -- fast path
    rename_i sid hs
    split at h
    · cases h
    · rename_i c r log hstep
      cases h
      have hpins := step_get_pins hstep
      simp only [] at hpins
      have hnw : ∀ k, ¬ (Op.get q).writes k := fun _ h => h
      refine ⟨?_, ?_⟩
      · intro q' id' hm
        simp only [List.mem_cons, Prod.mk.injEq] at hm
        rcases hm with ⟨rfl, rfl⟩ | hm
        · exact step_keeps htok hstep hs (hnw _) (by rw [hpins]; simp)
        · exact step_keeps htok hstep (hi.stored q' id' hm) (hnw _)
            (by rw [hpins]; exact List.mem_cons_of_mem _ (hi.pinned hm))
      · intro i
        have := hi.counted i
        simp only [hpins, List.map_cons, List.count_cons]; omega
  · -- slow path: nothing stored for `q`
    rename_i hs
    split at h
    · cases h
    · rename_i c1 r1 log1 hstep1
      have hp1 := step_get_pins hstep1
      have hnw : ∀ k, ¬ (Op.get q).writes k := fun _ h => h
      have hq1 : sGet c1.core.st q = none := by
        cases hg : sGet c1.core.st q with
        | none => rfl
        | some w =>
          obtain ⟨he, _, _, _⟩ := step_spec hstep1
          have := he.sub q w hg
          rw [access_frame cfg _ (hnw q)] at this
          have hs' : sGet t.cache.clearLog.core.st q = none := hs
          rw [hs'] at this; cases this
      have keep1 : ∀ q' id', (q', id') ∈ t.handles → sGet c1.core.st q' = some id' := fun q' id' hm =>
        step_keeps htok hstep1 (hi.stored q' id' hm) (hnw _) (by rw [hp1]; exact hi.pinned hm)
      have hne : ∀ q' id', (q', id') ∈ t.handles → q ≠ q' := by
        intro q' id' hm e; subst e; have := hi.stored q id' hm; rw [hs] at this; cases this
      split at h
      · cases h
      · -- `Occupied` cannot happen: nothing is stored for `q` after the `get`
        rename_i c2 w log2 hstep2
        have := (step_ins_vacant htok (c := { c1 with pins := t.next :: c1.pins }) hq1 hstep2).1
        cases this
      · rename_i c2 r2 log2 hnot hstep2
        cases h
        obtain ⟨_, hp2, hv2⟩ := step_ins_vacant htok (c := { c1 with pins := t.next :: c1.pins }) hq1 hstep2
        simp only [] at hp2 hv2
        refine ⟨?_, ?_⟩
        · intro q' id' hm
          simp only [List.mem_cons, Prod.mk.injEq] at hm
          rcases hm with ⟨rfl, rfl⟩ | hm
          · exact hv2 (by simp)
          · have hnw : ¬ (Op.ins q t.next).writes q' := hne q' id' hm
            exact step_keeps htok hstep2 (keep1 q' id' hm) hnw
              (by rw [hp2, hp1]; exact List.mem_cons_of_mem _ (hi.pinned hm))
        · intro i
          have := hi.counted i
          simp only [hp2, hp1, List.map_cons, List.count_cons]; omega

theorem release_linv {t : LockTable σ} (q id : Nat) (hi : LInv t) : LInv (release t q id) := by
  unfold release
  split
  · rename_i hm
    refine ⟨?_, ?_⟩
    · intro q' id' h; exact hi.stored q' id' (List.mem_of_mem_erase h)
    · intro i
      have hperm : (t.handles.map Prod.snd).Perm (id :: (t.handles.erase (q, id)).map Prod.snd) :=
        (List.perm_cons_erase hm).map Prod.snd
      have h1 := hperm.count_eq i
      have h2 := hi.counted i
      have hp := hi.pinned hm
      have h3 := count_erase_add t.cache.pins i id hp
      simp only [List.count_cons, beq_iff_eq] at h1
      simp only []
      omega
  · exact hi

theorem lrun_linv {cfg : Cfg σ} {ops : List LOp} {t t' : LockTable σ} (htok : ∀ k v, cfg.tok k v = v)
    (h : lrun cfg t ops = .ok t') (hi : LInv t) : LInv t' := by
  induction ops generalizing t with
  | nil => simp [lrun] at h; cases h; exact hi
  | cons op ops ih =>
    cases op with
    | acq q =>
      simp only [lrun] at h
      split at h
      · rename_i t1 id ha; exact ih h (acquire_linv htok ha hi)
      · cases h
    | rel q id =>
      simp only [lrun] at h
      exact ih h (release_linv q id hi)

/-- while a reference `(q, id)` is alive, `get_lock_instance(q)` returns `id` -/
theorem acquire_same {cfg : Cfg σ} {t t' : LockTable σ} {q id id' : Nat} (_htok : ∀ k v, cfg.tok k v = v)
    (hi : LInv t) (hh : (q, id) ∈ t.handles) (ha : acquire cfg t q = .ok (t', id')) : id' = id := by
  have hs := hi.stored q id hh
  unfold acquire at ha
  rw [hs] at ha
  simp only [] at ha
  split at ha
  · cases ha
  · cases ha; rfl

end QbiceVerif.TinyLfu
