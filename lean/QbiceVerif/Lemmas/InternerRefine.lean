/-
The LTS refines the atomic specification `aStep` (the one the trace validator replays): every event
of every reachable state is either invisible from outside or is exactly one atomic call of the
specification with the same answer.
-/
import QbiceVerif.Lemmas.InternerProps

namespace QbiceVerif.Interner

theorem set_same {α : Type} (l : List α) (t : Nat) (x : α) (h : l[t]? = some x) : l.set t x = l := by
  apply List.ext_getElem?
  intro i
  rw [List.getElem?_set]
  by_cases e : t = i
  · subst e
    have : t < l.length := by
      rcases Nat.lt_or_ge t l.length with h' | h'
      · exact h'
      · rw [List.getElem?_eq_none h'] at h; cases h
    rw [List.getElem?_eq_getElem this] at h
    simp only [Option.some.injEq] at h
    simp [this, h]
  · simp [e]

theorem abs_held_get {s : State} {t : Nat} {tk : Task} (ht : s.tasks[t]? = some tk) :
    s.abs.held[t]? = some tk.userHandles := by
  simp [State.abs, ht]

theorem abs_after {s : State} {t : Nat} {tk' : Task} (tb : Slot → Option Nat) (al : List Val) :
    (State.abs ⟨s.tasks.set t tk', tb, al⟩) = ⟨s.abs.held.set t tk'.userHandles, al⟩ := by
  simp [State.abs, List.map_set]

theorem abs_stutter {s : State} {t : Nat} {tk tk' : Task} (ht : s.tasks[t]? = some tk)
    (tb : Slot → Option Nat) (h : tk'.userHandles = tk.userHandles) :
    (State.abs ⟨s.tasks.set t tk', tb, s.allocs⟩) = s.abs := by
  rw [abs_after, h, set_same _ _ _ (abs_held_get ht)]
  rfl

theorem mem_abs_flatten {s : State} {a : Nat} : a ∈ s.abs.held.flatten ↔ UserLive s a := by
  simp only [State.abs, List.mem_flatten, List.mem_map]
  constructor
  · rintro ⟨l, ⟨tk, htk, rfl⟩, ha⟩
    obtain ⟨i, hi, rfl⟩ := List.getElem_of_mem htk
    exact ⟨i, _, List.getElem?_eq_getElem hi, ha⟩
  · rintro ⟨t, tk, ht, ha⟩
    exact ⟨_, ⟨tk, List.mem_of_getElem? ht, rfl⟩, ha⟩

theorem current_inv {c : Cfg} {s : State} {k : Slot} {b : Nat} (h : s.abs.current c k = some b) :
    UserLive s b ∧ ∃ w, s.allocs[b]? = some w ∧ c.slot w = k := by
  unfold AState.current at h
  have hm := List.mem_of_find?_eq_some h
  have hp := List.find?_some h
  refine ⟨mem_abs_flatten.1 hm, ?_⟩
  simp only [State.abs] at hp
  split at hp
  · rename_i v hv; exact ⟨v, hv, by simpa using hp⟩
  · cases hp

theorem current_some {c : Cfg} {s : State} (hI : Inv c s) {k : Slot} {a : Nat} {w : Val}
    (hu : UserLive s a) (hw : s.allocs[a]? = some w) (hk : c.slot w = k) : s.abs.current c k = some a := by
  cases hc : s.abs.current c k with
  | some b =>
    obtain ⟨hub, w', hw', hk'⟩ := current_inv hc
    obtain ⟨v1, h1, h2⟩ := hI.canon a (userLive_live hu)
    obtain ⟨v2, h3, h4⟩ := hI.canon b (userLive_live hub)
    rw [hw] at h1; cases h1
    rw [hw'] at h3; cases h3
    rw [hk] at h2; rw [hk'] at h4
    rw [h2] at h4; cases h4; rfl
  | none =>
    exfalso
    unfold AState.current at hc
    rw [List.find?_eq_none] at hc
    have := hc a (mem_abs_flatten.2 hu)
    simp [State.abs, hw, hk] at this

theorem current_none {c : Cfg} {s : State} {k : Slot}
    (h : ∀ b w, UserLive s b → s.allocs[b]? = some w → c.slot w ≠ k) : s.abs.current c k = none := by
  cases hc : s.abs.current c k with
  | none => rfl
  | some b =>
    obtain ⟨hub, w, hw, hk⟩ := current_inv hc
    exact absurd hk (h b w hub hw)

/-- the probe done while holding any guard of the slot's lock sees exactly the user-visible state -/
theorem probe_current {c : Cfg} {s : State} (hI : Inv c s) {t : Nat} {tk : Task}
    (ht : s.tasks[t]? = some tk) {k : Slot}
    (hl : Pc.rlock c tk.pc = some (c.lockOf k) ∨ Pc.wlock c tk.pc = some (c.lockOf k))
    (hnv : ∀ l k' a, tk.pc ≠ .vTemp l k' a) : s.abs.current c k = s.probe k := by
  have key : ∀ a, s.probe k = some a → UserLive s a ∧ ∃ w, s.allocs[a]? = some w ∧ c.slot w = k := by
    intro a h
    obtain ⟨h1, h2⟩ := probe_some h
    refine ⟨?_, hI.tableWF k a h1⟩
    obtain ⟨t2, tk2, ht2, ha2⟩ := h2
    rcases handles_user_or_temp ha2 with hu | ⟨l, k', hpc⟩
    · exact ⟨t2, tk2, ht2, hu⟩
    · exfalso
      have hok := hI.pcOk t2 tk2 ht2
      rw [hpc] at hok
      obtain ⟨hlk, w, hw1, hw2⟩ := hok
      obtain ⟨w', hw1', hw2'⟩ := hI.tableWF k a h1
      rw [hw1] at hw1'; cases hw1'
      have hk : k' = k := by rw [← hw2, hw2']
      subst hk
      have hne : t2 ≠ t := by
        intro e; subst e
        rw [ht] at ht2; cases ht2
        exact hnv _ _ _ hpc
      have hex := hI.excl t2 t tk2 tk l hne ht2 ht (by rw [hpc]; rfl)
      rcases hl with hl | hl
      · exact hex.2 (by rw [hl, hlk])
      · exact hex.1 (by rw [hl, hlk])
  cases hp : s.probe k with
  | some a =>
    obtain ⟨hu, w, hw, hk⟩ := key a hp
    exact current_some hI hu hw hk
  | none =>
    apply current_none
    intro b w hub hw hk
    obtain ⟨v, hv1, hv2⟩ := hI.canon b (userLive_live hub)
    rw [hw] at hv1; cases hv1
    rw [hk] at hv2
    have := probe_none hp b hv2
    exact this (userLive_live hub)

/-- what one event looks like from outside -/
def LinStep (c : Cfg) (s s' : State) (e : Ev) : Prop :=
  s'.abs = s.abs ∨
  (e = .spawn ∧ aStep c s.abs .spawn = some (s'.abs, none)) ∨
  (∃ t a v x tk', e = .act t a ∧ s'.tasks[t]? = some tk' ∧
      (tk'.pc = .iRdHit v x ∨ tk'.pc = .iWrHit v x ∨ tk'.pc = .iWrNew v x) ∧
      aStep c s.abs (.intern t v) = some (s'.abs, some x)) ∨
  (∃ t k r tk', e = .act t .probe ∧ s'.tasks[t]? = some tk' ∧ tk'.pc = .gDone k r ∧
      aStep c s.abs (.get t k) = some (s'.abs, r)) ∨
  (∃ t i, e = .act t (.clone i) ∧ aStep c s.abs (.clone t i) = some (s'.abs, none)) ∨
  (∃ t i, e = .act t (.drop i) ∧ aStep c s.abs (.drop t i) = some (s'.abs, none))

theorem addHandle_abs {s : State} {t : Nat} {tk : Task} (ht : s.tasks[t]? = some tk) (a : Nat) :
    addHandle s.abs.held t a = s.abs.held.set t (tk.userHandles ++ [a]) := by
  unfold addHandle
  have : s.abs.held.getD t [] = tk.userHandles := by
    rw [List.getD_eq_getElem?_getD, abs_held_get ht]; rfl
  rw [this]

theorem lt_abs_len {s : State} {t : Nat} {tk : Task} (ht : s.tasks[t]? = some tk) : t < s.abs.held.length := by
  simp only [State.abs, List.length_map]
  rcases Nat.lt_or_ge t s.tasks.length with h' | h'
  · exact h'
  · rw [List.getElem?_eq_none h'] at ht; cases ht


theorem refines_atomic_inv {c : Cfg} {s s' : State} {e : Ev} (hI : Inv c s) (hs : step c s e = some s') :
    LinStep c s s' e := by
  cases e with
  | spawn =>
    simp only [step, Option.some.injEq] at hs
    subst hs
    refine Or.inr (Or.inl ⟨rfl, ?_⟩)
    simp [aStep, State.abs, Task.userHandles, Pc.userHandles, Pc.handles]
  | act t x =>
    obtain ⟨tk, tk', ht, hact, hts⟩ := step_act_inv hs
    obtain ⟨tasks', tb, al⟩ := s'
    simp only at hts
    subst hts
    have hr : ActR c s tk x tk' tb al := act_rel hact
    have hlt := lt_abs_len ht
    have hpcok := hI.pcOk t tk ht
    clear hs hact
    cases hr
    case probeIHit v a hv hp =>
      refine Or.inr (Or.inr (Or.inl ⟨t, _, v, a, { tk with pc := .iRdHit v a }, rfl, by rw [tasks_after ht]; simp, Or.inl rfl, ?_⟩))
      have hc : s.abs.current c (c.slot v) = some a := by
        rw [probe_current hI ht (Or.inl (by rw [hv]; rfl)) (by rw [hv]; intros; simp), hp]
      simp only [aStep, hlt, if_true, hc, abs_after, addHandle_abs ht]
      simp [Task.userHandles, Pc.userHandles, Pc.handles, hv, State.abs]
    case recheckHit v a hv hp =>
      refine Or.inr (Or.inr (Or.inl ⟨t, _, v, a, { tk with pc := .iWrHit v a }, rfl, by rw [tasks_after ht]; simp, Or.inr (Or.inl rfl), ?_⟩))
      have hc : s.abs.current c (c.slot v) = some a := by
        rw [probe_current hI ht (Or.inr (by rw [hv]; rfl)) (by rw [hv]; intros; simp), hp]
      simp only [aStep, hlt, if_true, hc, abs_after, addHandle_abs ht]
      simp [Task.userHandles, Pc.userHandles, Pc.handles, hv, State.abs]
    case allocStore v hv =>
      refine Or.inr (Or.inr (Or.inl ⟨t, _, v, s.allocs.length, { tk with pc := .iWrNew v s.allocs.length }, rfl, by rw [tasks_after ht]; simp, Or.inr (Or.inr rfl), ?_⟩))
      rw [hv] at hpcok
      have hc : s.abs.current c (c.slot v) = none := by
        apply current_none
        intro b w hub hw hk
        obtain ⟨w', h1, h2⟩ := hI.canon b (userLive_live hub)
        rw [hw] at h1; cases h1
        rw [hk] at h2
        exact hpcok b h2 (userLive_live hub)
      simp only [aStep, hlt, if_true, hc, abs_after, addHandle_abs ht]
      simp [Task.userHandles, Pc.userHandles, Pc.handles, hv, State.abs]
    case probeGHit k a hv hp =>
      refine Or.inr (Or.inr (Or.inr (Or.inl ⟨t, k, some a, { tk with pc := .gDone k (some a) }, rfl, by rw [tasks_after ht]; simp, rfl, ?_⟩)))
      have hc : s.abs.current c k = some a := by
        rw [probe_current hI ht (Or.inl (by rw [hv]; rfl)) (by rw [hv]; intros; simp), hp]
      simp only [aStep, hlt, if_true, hc, abs_after, addHandle_abs ht]
      simp [Task.userHandles, Pc.userHandles, Pc.handles, hv, State.abs]
    case probeGMiss k hv hp =>
      refine Or.inr (Or.inr (Or.inr (Or.inl ⟨t, k, none, { tk with pc := .gDone k none }, rfl, by rw [tasks_after ht]; simp, rfl, ?_⟩)))
      have hc : s.abs.current c k = none := by
        rw [probe_current hI ht (Or.inl (by rw [hv]; rfl)) (by rw [hv]; intros; simp), hp]
      simp only [aStep, hlt, if_true, hc]
      rw [abs_stutter (tk' := { tk with pc := .gDone k none }) ht s.table
        (by simp [Task.userHandles, Pc.userHandles, Pc.handles, hv])]
    case clone i a hv hi =>
      refine Or.inr (Or.inr (Or.inr (Or.inr (Or.inl ⟨t, i, rfl, ?_⟩))))
      have hh : tk.userHandles = tk.held := by simp [Task.userHandles, Pc.userHandles, Pc.handles, hv]
      simp only [aStep, abs_held_get ht, hh, hi, abs_after, addHandle_abs ht]
      simp [Task.userHandles, Pc.userHandles, Pc.handles, hv, State.abs]
    case drop i hv hi =>
      refine Or.inr (Or.inr (Or.inr (Or.inr (Or.inr ⟨t, i, rfl, ?_⟩))))
      have hh : tk.userHandles = tk.held := by simp [Task.userHandles, Pc.userHandles, Pc.handles, hv]
      simp only [aStep, abs_held_get ht, hh, hi, if_true, abs_after]
      simp [Task.userHandles, Pc.userHandles, Pc.handles, hv, State.abs]
    all_goals
      exact Or.inl (abs_stutter ht _ (by simp_all [Task.userHandles, Pc.userHandles, Pc.handles]))

theorem refines_atomic_reachable {c : Cfg} {s s' : State} {e : Ev} (hr : Reachable c s)
    (hs : step c s e = some s') : LinStep c s s' e :=
  refines_atomic_inv (inv_reachable hr) hs


/-- a sequence of atomic calls -/
def aRun (c : Cfg) : AState → List AOp → Option AState
  | a, [] => some a
  | a, o :: os => match aStep c a o with
    | some (a', _) => aRun c a' os
    | none => none

theorem aRun_snoc {c : Cfg} {a a' a'' : AState} {os : List AOp} {o : AOp} {r : Option Nat}
    (h1 : aRun c a os = some a') (h2 : aStep c a' o = some (a'', r)) : aRun c a (os ++ [o]) = some a'' := by
  induction os generalizing a with
  | nil => simp only [aRun, Option.some.injEq] at h1; subst h1; simp [aRun, h2]
  | cons x xs ih =>
    simp only [aRun, List.cons_append] at h1 ⊢
    split at h1
    · exact ih h1
    · cases h1

/-- every reachable state of the LTS looks, from outside, like the result of some sequence of atomic calls -/
theorem reachable_abs {c : Cfg} {s : State} (hr : Reachable c s) :
    ∃ os, aRun c AState.init os = some s.abs := by
  induction hr with
  | init => exact ⟨[], rfl⟩
  | step e hr hs ih =>
    obtain ⟨os, hos⟩ := ih
    rcases refines_atomic_reachable hr hs with h | ⟨_, h⟩ | ⟨t, a, v, x, tk', _, _, _, h⟩ | ⟨t, k, r, tk', _, _, _, h⟩ |
      ⟨t, i, _, h⟩ | ⟨t, i, _, h⟩
    · exact ⟨os, by rw [h]; exact hos⟩
    · exact ⟨_, aRun_snoc hos h⟩
    · exact ⟨_, aRun_snoc hos h⟩
    · exact ⟨_, aRun_snoc hos h⟩
    · exact ⟨_, aRun_snoc hos h⟩
    · exact ⟨_, aRun_snoc hos h⟩

end QbiceVerif.Interner
