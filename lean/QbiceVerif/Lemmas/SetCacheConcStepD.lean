/-
`SetCacheConc`: the step `stage` (record the operation in the task's batch, append it to the staging log) under
the usage assumption `orderedElem`, and the invariant along every ordered schedule.
-/
import QbiceVerif.Lemmas.SetCacheConcStepC

namespace QbiceVerif.SetCacheConc
open QbiceVerif.SetCache

attribute [local simp] setTask

theorem ordered_spec {s : State} {t x e : Nat} {u0 : Task} (h0 : s.tasks[t]? = some u0) (he : u0.openB = some e)
    (h : orderedElem s t x = true) :
    (∀ (j : Nat) (u' : Task), s.tasks[j]? = some u' → j ≠ t → u'.pc.writing ≠ some x) ∧
    (∀ B ∈ s.bat, B.epoch = e ∨ lastOf B.ops x = none ∨ B.epoch < e) := by
  simp only [orderedElem, h0, he, Bool.and_eq_true, List.all_eq_true] at h
  obtain ⟨h1, h2⟩ := h
  constructor
  · intro j u' hj hne hw
    have hlt : j < s.tasks.length := by
      rcases Nat.lt_or_ge j s.tasks.length with h | h
      · exact h
      · rw [List.getElem?_eq_none h] at hj; cases hj
    have := h1 j (List.mem_range.mpr hlt)
    simp [hj, hne, hw] at this
  · intro B hB
    have := h2 B hB
    simp only [Bool.or_eq_true, beq_iff_eq, Bool.not_eq_true', decide_eq_true_eq] at this
    rcases this with (h | h) | h
    · exact Or.inl h
    · refine Or.inr (Or.inl ?_)
      cases hl : lastOf B.ops x with
      | none => rfl
      | some v =>
          have : lastOn B.ops x = true := (lastOn_iff _ _).mpr (by rw [hl]; simp)
          rw [this] at h; cases h
    · exact Or.inr (Or.inr h)

theorem note_allowed {u : Task} {x0 x : Nat} {v : Prop} (h : allowed u x v) : allowed (noteWrite x0 u) x v := by
  refine ⟨fun hm => h.1 ?_, fun hv => ?_⟩
  · simp only [noteWrite, mem_sremove] at hm; exact hm.1
  · simp only [noteWrite, mem_sinsert]; exact Or.inr (h.2 hv)

theorem note_any (u : Task) (x0 : Nat) (v : Prop) : allowed (noteWrite x0 u) x0 v := by
  refine ⟨fun hm => ?_, fun _ => ?_⟩
  · simp [noteWrite, mem_sremove] at hm
  · simp [noteWrite, mem_sinsert]

theorem step_stage {s s' : State} {t x0 : Nat} {ins0 : Bool} {out} (I : Inv s)
    (hord : orderedElem s t x0 = true) (h : fire s (.stage t x0 ins0) = some (s', out)) : Inv s' := by
  simp only [fire] at h
  split at h
  · rename_i e sn mu ma h0
    cases h
    have St := I.store
    obtain ⟨g1, g2⟩ := ordered_spec h0 rfl hord
    obtain ⟨Be, hBe, hBee, _⟩ := I.openOk t _ e h0 rfl
    let upd : CBatch → CBatch := fun B => if B.epoch = e then { B with ops := B.ops ++ [(x0, ins0)] } else B
    let u1 : Task := ⟨.staged x0 ins0, some e, sn, mu, ma⟩
    have hue : ∀ B, (upd B).epoch = B.epoch := by intro B; simp only [upd]; split <;> rfl
    have hus : ∀ B, (upd B).submitted = B.submitted := by intro B; simp only [upd]; split <;> rfl
    have hul : ∀ B y, lastOf (upd B).ops y = if B.epoch = e ∧ y = x0 then some ins0 else lastOf B.ops y := by
      intro B y
      simp only [upd]
      by_cases hb : B.epoch = e
      · simp only [hb, if_true, true_and, lastOf_concat]
      · simp [hb]
    have hulne : ∀ B y, y ≠ x0 → lastOf (upd B).ops y = lastOf B.ops y := by
      intro B y hy; rw [hul]; simp [hy]
    have hulmono : ∀ B y, lastOf B.ops y ≠ none → lastOf (upd B).ops y ≠ none := by
      intro B y hy; rw [hul]; split <;> simp [hy]
    have hmemB : ∀ B', B' ∈ s.bat.map upd ↔ ∃ B ∈ s.bat, upd B = B' := fun B' => List.mem_map
    have htr : ∀ y, y ∈ applyTo s.truth x0 ins0 ↔ (if y = x0 then ins0 = true else y ∈ s.truth) := fun y => mem_applyTo _ _ y _
    have hget : ∀ t', ((s.tasks.set t u1).map (noteWrite x0))[t']? =
        (if t' = t then some u1 else s.tasks[t']?).map (noteWrite x0) := by
      intro t'; rw [List.getElem?_map, set_get u1 h0]
    have hcases : ∀ (t' : Nat) (u'' : Task), ((s.tasks.set t u1).map (noteWrite x0))[t']? = some u'' →
        (t' = t ∧ u'' = noteWrite x0 u1) ∨ (t' ≠ t ∧ ∃ u', s.tasks[t']? = some u' ∧ u'' = noteWrite x0 u') := by
      intro t' u'' h1
      rw [hget] at h1
      split at h1
      · simp at h1; exact Or.inl ⟨by assumption, h1.symm⟩
      · rename_i hne
        cases h2 : s.tasks[t']? with
        | none => rw [h2] at h1; cases h1
        | some u' => rw [h2] at h1; simp at h1; exact Or.inr ⟨hne, u', rfl, h1.symm⟩
    have hfwd : ∀ (t' : Nat) (u' : Task), s.tasks[t']? = some u' → t' ≠ t →
        ((s.tasks.set t u1).map (noteWrite x0))[t']? = some (noteWrite x0 u') := by
      intro t' u' h1 hne; rw [hget]; simp [hne, h1]
    have hself : ((s.tasks.set t u1).map (noteWrite x0))[t]? = some (noteWrite x0 u1) := by rw [hget]; simp
    have hliftP : ∀ (P : Task → Prop), (∀ u, P u → P (noteWrite x0 u)) → ¬ P ⟨.idle, some e, sn, mu, ma⟩ →
        (∃ (t' : Nat) (u' : Task), s.tasks[t']? = some u' ∧ P u') →
        ∃ (t' : Nat) (u' : Task), ((s.tasks.set t u1).map (noteWrite x0))[t']? = some u' ∧ P u' := by
      intro P hP hn ⟨t', u', h1, h2⟩
      by_cases ht : t' = t
      · subst ht; rw [h0] at h1; cases h1; exact absurd h2 hn
      · exact ⟨t', _, hfwd t' u' h1 ht, hP u' h2⟩
    have hinfl : ∀ y, y ≠ x0 → y ∈ inflight { s with
        bat := s.bat.map upd, log := s.log ++ [⟨ins0, x0, e⟩], truth := applyTo s.truth x0 ins0,
        tasks := (s.tasks.set t u1).map (noteWrite x0) } → y ∈ inflight s := by
      intro y hy hin
      obtain ⟨t', u'', h1, h2⟩ := mem_inflight.mp hin
      rcases hcases t' u'' h1 with ⟨_, rfl⟩ | ⟨hne, u', h3, rfl⟩
      · simp [noteWrite, u1, Pc.writing] at h2; exact absurd h2.symm hy
      · exact mem_inflight.mpr ⟨t', u', h3, h2⟩
    refine ⟨?_, ?_, ?_, ?_, ?_, I.curOk, ?_, ?_, ?_⟩
    · -- store side
      refine ⟨St.eLe, ?_, ?_, St.nLt, ?_, ?_, ?_, ?_, ?_, ?_⟩
      · intro B' hB'
        obtain ⟨B, hB, rfl⟩ := (hmemB B').mp hB'
        rw [hue]; exact St.eRange B hB
      · show (s.bat.map upd).Pairwise _
        rw [List.pairwise_map]
        exact St.eNodup.imp (fun h => by rw [hue, hue]; exact h)
      · intro op hop
        rcases List.mem_append.mp hop with hop | hop
        · rcases St.logSrc op hop with h1 | ⟨B, hB, h1, h2⟩
          · exact Or.inl h1
          · exact Or.inr ⟨upd B, (hmemB _).mpr ⟨B, hB, rfl⟩, by rw [hue]; exact h1, hulmono B _ h2⟩
        · simp at hop; subst hop
          exact Or.inr ⟨upd Be, (hmemB _).mpr ⟨Be, hBe, rfl⟩, by rw [hue]; exact hBee, by rw [hul]; simp [hBee]⟩
      · intro B' hB' y hne
        obtain ⟨B, hB, rfl⟩ := (hmemB B').mp hB'
        rw [hul] at hne; rw [hue]
        split at hne
        · rename_i hc
          exact ⟨⟨ins0, x0, e⟩, by simp, hc.2.symm, hc.1.symm⟩
        · obtain ⟨op, hop, h1, h2⟩ := St.batLog B hB y hne
          exact ⟨op, List.mem_append_left _ hop, h1, h2⟩
      · intro y
        show MonoL (onX (s.log ++ [⟨ins0, x0, e⟩]) y)
        simp only [onX, List.filter_append, MonoL, List.pairwise_append]
        refine ⟨St.mono y, List.Pairwise.sublist List.filter_sublist (by simp), ?_⟩
        intro a ha b hb
        simp only [List.mem_filter, decide_eq_true_eq] at ha hb
        obtain ⟨hb1, hb2⟩ := hb
        simp at hb1; subst hb1
        simp only at hb2 ⊢
        rcases St.logSrc a ha.1 with h1 | ⟨B, hB, h1, h2⟩
        · have := (St.eRange Be hBe).1; omega
        · rw [ha.2, ← hb2] at h2
          rcases g2 B hB with h3 | h3 | h3
          · omega
          · exact absurd h3 h2
          · omega
      · intro y b hl
        rw [lastOf_pairs_concat] at hl
        rw [htr]
        by_cases hy : y = x0
        · simp only [hy, if_true] at hl ⊢
          simp at hl; simp [hl]
        · simp only [hy, if_false] at hl ⊢
          exact St.logT y b hl
      · intro B' hB' y v hv hmax
        obtain ⟨B, hB, rfl⟩ := (hmemB B').mp hB'
        rw [htr]
        by_cases hy : y = x0
        · subst hy
          simp only [if_true]
          by_cases hb : B.epoch = e
          · rw [hul] at hv; simp [hb] at hv; simp [hv]
          · exfalso
            rw [hul] at hv; simp [hb] at hv
            have h1 := hmax (upd Be) ((hmemB _).mpr ⟨Be, hBe, rfl⟩) (by rw [hul]; simp [hBee])
            rw [hue, hue] at h1
            rcases g2 B hB with h3 | h3 | h3
            · exact hb h3
            · rw [h3] at hv; cases hv
            · omega
        · simp only [hy, if_false]
          rw [hulne B y hy] at hv
          refine St.batT B hB y v hv (fun B2 hB2 hne => ?_)
          have := hmax (upd B2) ((hmemB _).mpr ⟨B2, hB2, rfl⟩) (by rw [hulne B2 y hy]; exact hne)
          rw [hue, hue] at this; exact this
      · intro y hy
        have hyx : y ≠ x0 := by
          intro hyx; subst hyx
          have := hy (upd Be) ((hmemB _).mpr ⟨Be, hBe, rfl⟩)
          rw [hul] at this; simp [hBee] at this
        rw [htr]; simp only [hyx, if_false]
        refine St.dbT y (fun B hB => ?_)
        have := hy (upd B) ((hmemB _).mpr ⟨B, hB, rfl⟩)
        rw [hulne B y hyx] at this; exact this
    · -- openOk
      intro t' u'' e' h1 h2
      have key : ∀ (t2 : Nat) (u2 : Task), s.tasks[t2]? = some u2 → u2.openB = some e' →
          ∃ B ∈ s.bat.map upd, B.epoch = e' ∧ B.submitted = false := by
        intro t2 u2 h3 h4
        obtain ⟨B, hB, h5, h6⟩ := I.openOk t2 u2 e' h3 h4
        exact ⟨upd B, (hmemB _).mpr ⟨B, hB, rfl⟩, by rw [hue]; exact h5, by rw [hus]; exact h6⟩
      rcases hcases t' u'' h1 with ⟨_, rfl⟩ | ⟨hne, u', h3, rfl⟩
      · exact key t _ h0 h2
      · exact key t' u' h3 h2
    · -- oUniq
      intro t1 t2 a b e' h1 h2 w1 w2
      rcases hcases t1 a h1 with ⟨e1, rfl⟩ | ⟨n1, a', h3, rfl⟩ <;> rcases hcases t2 b h2 with ⟨e2, rfl⟩ | ⟨n2, b', h4, rfl⟩
      · omega
      · rw [e1]; exact I.oUniq t t2 _ b' e' h0 h4 w1 w2
      · rw [e2]; exact I.oUniq t1 t a' _ e' h3 h0 w1 w2
      · exact I.oUniq t1 t2 a' b' e' h3 h4 w1 w2
    · -- wUniq
      intro t1 t2 a b y h1 h2 w1 w2
      rcases hcases t1 a h1 with ⟨e1, rfl⟩ | ⟨n1, a', h3, rfl⟩ <;> rcases hcases t2 b h2 with ⟨e2, rfl⟩ | ⟨n2, b', h4, rfl⟩
      · omega
      · simp [noteWrite, u1, Pc.writing] at w1; subst w1
        exact absurd w2 (g1 t2 b' h4 n2)
      · simp [noteWrite, u1, Pc.writing] at w2; subst w2
        exact absurd w1 (g1 t1 a' h3 n1)
      · exact I.wUniq t1 t2 a' b' y h3 h4 w1 w2
    · -- wT
      intro t' u'' h1
      rcases hcases t' u'' h1 with ⟨_, rfl⟩ | ⟨hne, u', h3, rfl⟩
      · simp only [noteWrite, u1]
        rw [htr]; simp
      · have hw := I.wT t' u' h3
        have hg := g1 t' u' h3 hne
        simp only [noteWrite]
        cases hpc : u'.pc <;> simp only [hpc] at hw hg ⊢ <;> try trivial
        all_goals (simp [Pc.writing] at hg; rw [htr]; simp [hg, hw])
    · -- refOk
      intro t' u'' h1
      rcases hcases t' u'' h1 with ⟨_, rfl⟩ | ⟨hne, u', h3, rfl⟩
      · simp [noteWrite, u1]
      · exact I.refOk t' u' h3
    · -- curT
      intro i S y hc hS hne
      simp only at hc hS hne ⊢
      by_cases hy : y = x0
      · subst hy
        exact ⟨t, _, hself, by simp [noteWrite, u1, Pc.pend]⟩
      · rw [htr] at hne; simp only [hy, if_false] at hne
        exact hliftP (fun u => u.pc.pend y i) (fun u h => h) (by simp [Pc.pend]) (I.curT i S y hc hS hne)
    · -- readers
      intro t' u'' h1
      rcases hcases t' u'' h1 with ⟨_, rfl⟩ | ⟨hne, u', h3, rfl⟩
      · have hr0 := I.rd t _ h0
        exact RInv_notReading (by simpa [noteWrite, u1] using hr0.1) (by simp [noteWrite, u1, Pc.reading])
      · obtain ⟨hseen, hrd0, hpc⟩ := I.rd t' u' h3
        have hallow : ∀ y (v : Prop), allowed u' y v → allowed (noteWrite x0 u') y v := fun y v h => note_allowed h
        have hR1 : ∀ snp y, R1 s u' snp y → R1 { s with
            bat := s.bat.map upd, log := s.log ++ [⟨ins0, x0, e⟩], truth := applyTo s.truth x0 ins0,
            tasks := (s.tasks.set t u1).map (noteWrite x0) } (noteWrite x0 u') snp y := by
          intro snp y ⟨a, b, c⟩
          refine ⟨fun ha => ?_, fun hrm => ?_, fun ha hrm => ?_⟩
          · simp only [noteWrite, mem_sinsert]; exact Or.inr (a ha)
          · simp only [noteWrite, mem_sremove]; exact fun h => b hrm h.1
          · obtain ⟨c1, c2⟩ := c ha hrm
            refine ⟨note_allowed c1, fun B' hB' v hv => ?_⟩
            obtain ⟨B, hB, rfl⟩ := (hmemB B').mp hB'
            by_cases hy : y = x0
            · subst hy; exact note_any _ _ _
            · rw [hulne B y hy] at hv; exact note_allowed (c2 B hB v hv)
        have hR3 : ∀ snp sc y, R3 s u' snp sc y → R3 { s with
            bat := s.bat.map upd, log := s.log ++ [⟨ins0, x0, e⟩], truth := applyTo s.truth x0 ins0,
            tasks := (s.tasks.set t u1).map (noteWrite x0) } (noteWrite x0 u') snp sc y := by
          intro snp sc y h3' hg hne'
          simp only at hg hne' ⊢
          by_cases hy : y = x0
          · subst hy
            exact ⟨t, _, hself, by simp [noteWrite, u1, Pc.stagedOn]⟩
          · rw [htr] at hne'; simp only [hy, if_false] at hne'
            exact hliftP (fun u => u.pc.stagedOn y) (fun u h => h) (by simp [Pc.stagedOn]) (h3' hg hne')
        have hR3b : ∀ snp y, R3b s u' snp y → R3b { s with
            bat := s.bat.map upd, log := s.log ++ [⟨ins0, x0, e⟩], truth := applyTo s.truth x0 ins0,
            tasks := (s.tasks.set t u1).map (noteWrite x0) } (noteWrite x0 u') snp y := by
          intro snp y h3' hg ha hrm B' hB' hne'
          simp only at hg ⊢
          obtain ⟨B, hB, rfl⟩ := (hmemB B').mp hB'
          rw [hue]
          by_cases hy : y = x0
          · subst hy
            by_cases hb : B.epoch = e
            · exact ⟨t, _, hself, by simp [noteWrite, u1, Pc.stagedOn], by simp [noteWrite, u1, hb]⟩
            · rw [hul] at hne'; simp [hb] at hne'
              obtain ⟨t2, u2, h4, h5, _⟩ := h3' hg ha hrm B hB hne'
              by_cases ht2 : t2 = t
              · subst ht2; rw [h0] at h4; cases h4; simp [Pc.stagedOn] at h5
              · exact absurd (stagedOn_writing h5) (g1 t2 u2 h4 ht2)
          · rw [hulne B y hy] at hne'
            exact hliftP (fun u => u.pc.stagedOn y ∧ u.openB = some B.epoch) (fun u h => h)
              (by simp [Pc.stagedOn]) (h3' hg ha hrm B hB hne')
        refine ⟨hseen, fun hr y => ?_, ?_⟩
        · have hb := hrd0 hr y
          by_cases hy : y = x0
          · subst hy
            refine ⟨note_any _ _ _, fun _ => ?_⟩
            simp [noteWrite, mem_sremove, mem_sinsert]
          · refine ⟨?_, fun hin => ?_⟩
            · have : y ∈ applyTo s.truth x0 ins0 ↔ y ∈ s.truth := by rw [htr]; simp [hy]
              exact (allowed_congr this).mpr (note_allowed hb.1)
            · have := hb.2 (hinfl y hy hin)
              simp only [noteWrite, mem_sremove, mem_sinsert]
              exact ⟨fun h => this.1 h.1, Or.inr this.2⟩
        · show match (noteWrite x0 u').pc with
            | .snapped sn => _ | .missed sn => _ | .scanned sn sc => _ | .got i sn sp => _ | _ => True
          have hpceq : (noteWrite x0 u').pc = u'.pc := rfl
          rw [hpceq]
          cases hpcc : u'.pc with
          | snapped snp =>
              rw [hpcc] at hpc; simp only at hpc ⊢
              exact ⟨hpc.1, fun y => ⟨hR1 snp y (hpc.2 y).1, hR3 snp _ y (hpc.2 y).2.1, hR3b snp y (hpc.2 y).2.2⟩⟩
          | missed snp =>
              rw [hpcc] at hpc; simp only at hpc ⊢
              exact ⟨hpc.1, fun y => ⟨hR1 snp y (hpc.2 y).1, hR3 snp _ y (hpc.2 y).2.1, hR3b snp y (hpc.2 y).2.2⟩⟩
          | scanned snp sc =>
              rw [hpcc] at hpc; simp only at hpc ⊢
              exact ⟨hpc.1, fun y => ⟨hR1 snp y (hpc.2 y).1, note_allowed (hpc.2 y).2.1, hR3 snp sc y (hpc.2 y).2.2⟩⟩
          | got i snp sp =>
              rw [hpcc] at hpc; simp only at hpc ⊢
              refine ⟨hpc.1, fun y => ⟨hR1 snp y (hpc.2 y).1, ?_⟩⟩
              have := (hpc.2 y).2
              cases sp with
              | some p => exact note_allowed this
              | none => exact fun S hS => note_allowed (this S hS)
          | _ => trivial
  · cases h

end QbiceVerif.SetCacheConc
