/-
Concrete programs and histories used by the non-vacuity examples of C01 / C03 for the extended core
model: a diamond with a firewall and a projection (`exD`), the "dependency switches between two
equal-valued firewalls" shape of finding F1b (`exA`), a firewall-only diamond (`exF`, inside the
fragment the theorems are proved for), and the projection shapes of finding F1c (`exC`, `exC2`).
-/
import QbiceVerif.Lemmas.EngineCoreFw12
namespace Qbice.CoreFw
open Qbice.Core (Prog Err Write SetRes Op OpOut)

/-- the state reached by a history (the initial state if it fails) -/
def stateAfter (p : Program) (ops : List Op) : St :=
  match runOps p ops {} with
  | .ok (_, s) => s
  | .error _ => {}

theorem NoProj.over {p : Program} (np : NoProj p) : NoProjOverProj p :=
  fun k d hp hk => absurd hk (np k d hp)

theorem ProgAll.mono {P Q : Key → Prop} (h : ∀ x, P x → Q x) : ∀ {prog : Prog}, ProgAll P prog → ProgAll Q prog := by
  intro prog
  induction prog with
  | ret v => intro _; trivial
  | ask d cont ih => rintro ⟨hd, hc⟩; exact ⟨h d hd, fun v => ih v (hc v)⟩
  | askAll ks cont ih => rintro ⟨hd, hc⟩; exact ⟨fun d hm => h d (hd d hm), fun vs => ih vs (hc vs)⟩

/-- class A ⊆ `Shape`: no projection reads a projection -/
theorem NoProjOverProj.shape {p : Program} (pa : NoProjOverProj p) : Shape p :=
  fun k d hp hk => ProgAll.mono (fun _ h => Or.inl h) (pa k d hp hk)

/-- class B ⊆ `Shape`: every projection is static -/
theorem StaticProj.shape {p : Program} (wf : WF p) (sp : StaticProj p) : Shape p := by
  intro k d hp hk
  refine ProgAll.mono ?_ ((wf k d hp (by rw [hk]; decide) (by rw [hk]; decide)).2 hk)
  intro x hx
  rcases hx with h | h
  · exact Or.inl h
  · refine Or.inr ⟨h, ?_⟩
    simp only [kindOf] at h
    cases hpx : p[x]? with
    | none => rw [hpx] at h; cases h
    | some dx =>
      rw [hpx] at h
      obtain ⟨ks, hks⟩ := sp x dx hpx (by simpa using h)
      exact ⟨dx, ks, hpx, hks⟩

theorem stateAfter_inv {p : Program} (wf : WF p) (sh : Shape p) (ops : List Op) :
    Inv p (stateAfter p ops) := by
  have h := runOps_spec wf sh ops {} (Inv.init p)
  unfold stateAfter
  cases hr : runOps p ops {} with
  | error e => exact Inv.init p
  | ok r => rw [hr] at h; exact h.2

/-- keys 0, 1: inputs; 2: firewall, `0` if input 0 is `0`, else `1`; 3: PROJECTION `10 * fw`;
    4: normal `fw + input 1`; 5: normal `pj + key 4` — a diamond below key 5 -/
def exD : Program :=
  [ { kind := .input, prog := .ret 0 }, { kind := .input, prog := .ret 0 },
    { kind := .firewall, prog := .ask 0 fun a => .ret (if a = 0 then 0 else 1) },
    { kind := .projection, prog := .ask 2 fun f => .ret (f * 10) },
    { kind := .normal, prog := .ask 2 fun f => .ask 1 fun b => .ret (f + b) },
    { kind := .normal, prog := .ask 3 fun x => .ask 4 fun y => .ret (x + y) } ]

/-- the same diamond with a normal node in place of the projection -/
def exF : Program :=
  [ { kind := .input, prog := .ret 0 }, { kind := .input, prog := .ret 0 },
    { kind := .firewall, prog := .ask 0 fun a => .ret (if a = 0 then 0 else 1) },
    { kind := .normal, prog := .ask 2 fun f => .ret (f * 10) },
    { kind := .normal, prog := .ask 2 fun f => .ask 1 fun b => .ret (f + b) },
    { kind := .normal, prog := .ask 3 fun x => .ask 4 fun y => .ret (x + y) } ]

/-- session 2 is absorbed by the firewall (input 0: 1 → 2, firewall stays 1); session 3 changes it
    (input 0: 2 → 0, firewall 1 → 0) -/
def exDOps : List Op :=
  [ .sess [.set 0 1, .set 1 5], .round [5], .sess [.set 0 2], .round [5], .sess [.set 0 0], .round [5] ]

/-- keys 0 (selector), 1, 2: inputs; 3, 4: firewalls over inputs 1, 2; 5: reads firewall 3 if the
    selector is 0, else firewall 4; 6: reads 5 -/
def exA : Program :=
  [ { kind := .input, prog := .ret 0 }, { kind := .input, prog := .ret 0 }, { kind := .input, prog := .ret 0 },
    { kind := .firewall, prog := .ask 1 fun a => .ret a },
    { kind := .firewall, prog := .ask 2 fun a => .ret a },
    { kind := .normal, prog := .ask 0 fun c => if c = 0 then .ask 3 (fun a => .ret a) else .ask 4 (fun a => .ret a) },
    { kind := .normal, prog := .ask 5 fun a => .ret a } ]

/-- the dependency of key 5 switches from firewall 3 to the equal-valued firewall 4 while only key 5
    is queried (key 6 keeps its old firewall set); then firewall 4 changes -/
def exAOps : List Op :=
  [ .sess [.set 0 0, .set 1 7, .set 2 7], .round [6], .sess [.set 0 1], .round [5],
    .sess [.set 2 8], .round [6] ]

/-- finding F1c: 0, 1 inputs; 2, 3 firewalls over them; 4: PROJECTION, reads firewall 3 only if
    firewall 2 is `1`, else returns 5; 5, 6: normal chain above it -/
def exC : Program :=
  [ { kind := .input, prog := .ret 0 }, { kind := .input, prog := .ret 0 },
    { kind := .firewall, prog := .ask 0 fun a => .ret a },
    { kind := .firewall, prog := .ask 1 fun a => .ret a },
    { kind := .projection, prog := .ask 2 fun a => if a = 1 then .ask 3 (fun b => .ret b) else .ret 5 },
    { kind := .normal, prog := .ask 4 fun a => .ret a },
    { kind := .normal, prog := .ask 5 fun a => .ret a } ]

def exCOps : List Op :=
  [ .sess [.set 0 0, .set 1 5], .round [6], .sess [.set 0 1], .round [6], .sess [.set 1 6], .round [6] ]

theorem below_ret (k : Nat) (v : Val) : (Prog.ret v).Below k := trivial

theorem exF_noProj : NoProj exF := by
  intro k d h
  match k, h with
  | 0, h | 1, h | 2, h | 3, h | 4, h | 5, h => simp [exF] at h; subst h; simp
  | n + 6, h => simp [exF] at h

theorem exF_wf : WF exF := by
  intro k d h hi he
  match k, h with
  | 0, h => simp [exF] at h; subst h; simp at hi
  | 1, h => simp [exF] at h; subst h; simp at hi
  | 2, h => simp [exF] at h; subst h; exact ⟨⟨by decide, fun _ => trivial⟩, fun h => by cases h⟩
  | 3, h => simp [exF] at h; subst h; exact ⟨⟨by decide, fun _ => trivial⟩, fun h => by cases h⟩
  | 4, h =>
    simp [exF] at h; subst h
    exact ⟨⟨by decide, fun _ => ⟨by decide, fun _ => trivial⟩⟩, fun h => by cases h⟩
  | 5, h =>
    simp [exF] at h; subst h
    exact ⟨⟨by decide, fun _ => ⟨by decide, fun _ => trivial⟩⟩, fun h => by cases h⟩
  | n + 6, h => simp [exF] at h

theorem exA_noProj : NoProj exA := by
  intro k d h
  match k, h with
  | 0, h | 1, h | 2, h | 3, h | 4, h | 5, h | 6, h => simp [exA] at h; subst h; simp
  | n + 7, h => simp [exA] at h

theorem exA_wf : WF exA := by
  intro k d h hi he
  match k, h with
  | 0, h => simp [exA] at h; subst h; simp at hi
  | 1, h => simp [exA] at h; subst h; simp at hi
  | 2, h => simp [exA] at h; subst h; simp at hi
  | 3, h => simp [exA] at h; subst h; exact ⟨⟨by decide, fun _ => trivial⟩, fun h => by cases h⟩
  | 4, h => simp [exA] at h; subst h; exact ⟨⟨by decide, fun _ => trivial⟩, fun h => by cases h⟩
  | 5, h =>
    simp [exA] at h; subst h
    refine ⟨⟨by decide, fun c => ?_⟩, fun h => by cases h⟩
    show Prog.Below 5 (if c = 0 then _ else _)
    split
    · exact ⟨by decide, fun _ => trivial⟩
    · exact ⟨by decide, fun _ => trivial⟩
  | 6, h => simp [exA] at h; subst h; exact ⟨⟨by decide, fun _ => trivial⟩, fun h => by cases h⟩
  | n + 7, h => simp [exA] at h

theorem exD_wf : WF exD := by
  intro k d h hi he
  match k, h with
  | 0, h => simp [exD] at h; subst h; simp at hi
  | 1, h => simp [exD] at h; subst h; simp at hi
  | 2, h => simp [exD] at h; subst h; exact ⟨⟨by decide, fun _ => trivial⟩, fun h => by cases h⟩
  | 3, h =>
    simp [exD] at h; subst h
    exact ⟨⟨by decide, fun _ => trivial⟩, fun _ => ⟨Or.inl (by decide), fun _ => trivial⟩⟩
  | 4, h =>
    simp [exD] at h; subst h
    exact ⟨⟨by decide, fun _ => ⟨by decide, fun _ => trivial⟩⟩, fun h => by cases h⟩
  | 5, h =>
    simp [exD] at h; subst h
    exact ⟨⟨by decide, fun _ => ⟨by decide, fun _ => trivial⟩⟩, fun h => by cases h⟩
  | n + 6, h => simp [exD] at h

theorem exC_wf : WF exC := by
  intro k d h hi he
  match k, h with
  | 0, h => simp [exC] at h; subst h; simp at hi
  | 1, h => simp [exC] at h; subst h; simp at hi
  | 2, h => simp [exC] at h; subst h; exact ⟨⟨by decide, fun _ => trivial⟩, fun h => by cases h⟩
  | 3, h => simp [exC] at h; subst h; exact ⟨⟨by decide, fun _ => trivial⟩, fun h => by cases h⟩
  | 4, h =>
    simp [exC] at h; subst h
    refine ⟨⟨by decide, fun c => ?_⟩, fun _ => ⟨Or.inl (by decide), fun c => ?_⟩⟩
    · show Prog.Below 4 (if c = 1 then _ else _)
      split
      · exact ⟨by decide, fun _ => trivial⟩
      · trivial
    · show ProgAll _ (if c = 1 then _ else _)
      split
      · exact ⟨Or.inl (by decide), fun _ => trivial⟩
      · trivial
  | 5, h => simp [exC] at h; subst h; exact ⟨⟨by decide, fun _ => trivial⟩, fun h => by cases h⟩
  | 6, h => simp [exC] at h; subst h; exact ⟨⟨by decide, fun _ => trivial⟩, fun h => by cases h⟩
  | n + 7, h => simp [exC] at h

/-- `exF` after the first session and round -/
def exFT : St := stateAfter exF [.sess [.set 0 1, .set 1 5], .round [5]]
/-- … and after a session that the firewall absorbs -/
def exFS : St := stateAfter exF [.sess [.set 0 1, .set 1 5], .round [5], .sess [.set 0 2]]
/-- … or after a session that changes the firewall -/
def exFU : St := stateAfter exF [.sess [.set 0 1, .set 1 5], .round [5], .sess [.set 0 0]]

theorem exFT_inv : Inv exF exFT := stateAfter_inv exF_wf exF_noProj.over.shape _
theorem exFS_inv : Inv exF exFS := stateAfter_inv exF_wf exF_noProj.over.shape _
theorem exFU_inv : Inv exF exFU := stateAfter_inv exF_wf exF_noProj.over.shape _

/-- `exA` after the dependency of key 5 switched to firewall 4 and firewall 4's input changed -/
def exAS : St := stateAfter exA [.sess [.set 0 0, .set 1 7, .set 2 7], .round [6], .sess [.set 0 1], .round [5],
  .sess [.set 2 8]]
theorem exAS_inv : Inv exA exAS := stateAfter_inv exA_wf exA_noProj.over.shape _

theorem exD_pf : NoProjOverProj exD := by
  intro k d h hk
  match k, h with
  | 0, h | 1, h | 2, h | 4, h | 5, h => simp [exD] at h; subst h; simp at hk
  | 3, h => simp [exD] at h; subst h; exact ⟨by decide, fun _ => trivial⟩
  | n + 6, h => simp [exD] at h

theorem exC_pf : NoProjOverProj exC := by
  intro k d h hk
  match k, h with
  | 0, h | 1, h | 2, h | 3, h | 5, h | 6, h => simp [exC] at h; subst h; simp at hk
  | 4, h =>
    simp [exC] at h; subst h
    refine ⟨by decide, fun c => ?_⟩
    show ProgAll _ (if c = 1 then _ else _)
    split
    · exact ⟨by decide, fun _ => trivial⟩
    · trivial
  | n + 7, h => simp [exC] at h

/-- `exD` (firewall + projection diamond) after a session that changes the firewall -/
def exDU : St := stateAfter exD [.sess [.set 0 1, .set 1 5], .round [5], .sess [.set 0 0]]
theorem exDU_inv : Inv exD exDU := stateAfter_inv exD_wf exD_pf.shape _

/-- `exC` before the last round of the F1c history -/
def exCS : St := stateAfter exC [.sess [.set 0 0, .set 1 5], .round [6], .sess [.set 0 1], .round [6], .sess [.set 1 6]]
theorem exCS_inv : Inv exC exCS := stateAfter_inv exC_wf exC_pf.shape _

-- ------------------------------------------------------------------ class B: static projection chains

/-- key 0: input; 1: firewall over it; 2, 3, 4: a CHAIN OF PROJECTIONS — 2 reads the firewall, 3 reads 2,
    4 reads 3 and the firewall in one unordered group; 5: normal, reads 4.  Every projection has a
    value-independent read sequence. -/
def exS : Program :=
  [ { kind := .input, prog := .ret 0 },
    { kind := .firewall, prog := .ask 0 fun a => .ret (if a = 3 then 1 else a) },
    { kind := .projection, prog := .ask 1 fun a => .ret (a + 1) },
    { kind := .projection, prog := .ask 2 fun a => .ret (a * 2) },
    { kind := .projection, prog := .askAll [3, 1] fun vs => .ret (vs.foldl (· + ·) 0) },
    { kind := .normal, prog := .ask 4 fun a => .ret a } ]

/-- the firewall changes (1 → 2), is absorbed (input 2 → 2), changes back by another route (input 3
    gives firewall value 1) -/
def exSOps : List Op :=
  [ .sess [.set 0 1], .round [5], .sess [.set 0 2], .round [5], .sess [.set 0 2], .round [5],
    .sess [.set 0 3], .round [5, 3] ]

theorem exS_wf : WF exS := by
  intro k d h hi he
  match k, h with
  | 0, h => simp [exS] at h; subst h; simp at hi
  | 1, h => simp [exS] at h; subst h; exact ⟨⟨by decide, fun _ => trivial⟩, fun h => by cases h⟩
  | 2, h =>
    simp [exS] at h; subst h
    exact ⟨⟨by decide, fun _ => trivial⟩, fun _ => ⟨Or.inl (by decide), fun _ => trivial⟩⟩
  | 3, h =>
    simp [exS] at h; subst h
    exact ⟨⟨by decide, fun _ => trivial⟩, fun _ => ⟨Or.inr (by decide), fun _ => trivial⟩⟩
  | 4, h =>
    simp [exS] at h; subst h
    refine ⟨⟨fun d hd => ?_, fun _ => trivial⟩, fun _ => ⟨fun d hd => ?_, fun _ => trivial⟩⟩
    · simp at hd; rcases hd with rfl | rfl <;> decide
    · simp at hd; rcases hd with rfl | rfl
      · exact Or.inr (by decide)
      · exact Or.inl (by decide)
  | 5, h => simp [exS] at h; subst h; exact ⟨⟨by decide, fun _ => trivial⟩, fun h => by cases h⟩
  | n + 6, h => simp [exS] at h

theorem exS_static : StaticProj exS := by
  intro k d h hk
  match k, h with
  | 0, h | 1, h | 5, h => simp [exS] at h; subst h; simp at hk
  | 2, h => simp [exS] at h; subst h; exact ⟨[1], [], rfl, fun _ => rfl⟩
  | 3, h => simp [exS] at h; subst h; exact ⟨[2], [], rfl, fun _ => rfl⟩
  | 4, h => simp [exS] at h; subst h; exact ⟨[3, 1], [], rfl, fun _ => rfl⟩
  | n + 6, h => simp [exS] at h

/-- `exS` is NOT in class A: projection 3 reads projection 2 -/
theorem exS_not_classA : ¬ NoProjOverProj exS := by
  intro h
  have := h 3 { kind := .projection, prog := .ask 2 fun a => .ret (a * 2) } (by simp [exS]) rfl
  have h2 : kindOf exS 2 = some Kind.firewall := this.1
  simp [kindOf, exS] at h2

/-- `exS` after the first round and the session that changes the firewall -/
def exSU : St := stateAfter exS [.sess [.set 0 1], .round [5], .sess [.set 0 2]]
theorem exSU_inv : Inv exS exSU := stateAfter_inv exS_wf (exS_static.shape exS_wf) _

-- ------------------------------------------------------------------ a dynamic projection on top of a static chain

/-- `exS` with a DYNAMIC projection on top: key 4 reads the firewall and then, depending on its value,
    the static projection 3 or the static projection 2.  Neither class A nor class B. -/
def exT : Program :=
  [ { kind := .input, prog := .ret 0 },
    { kind := .firewall, prog := .ask 0 fun a => .ret (if a = 3 then 1 else a) },
    { kind := .projection, prog := .ask 1 fun a => .ret (a + 1) },
    { kind := .projection, prog := .ask 2 fun a => .ret (a * 2) },
    { kind := .projection, prog := .ask 1 fun a => if a = 1 then .ask 3 (fun b => .ret b) else .ask 2 (fun b => .ret b) },
    { kind := .normal, prog := .ask 4 fun a => .ret a } ]

theorem exT_wf : WF exT := by
  intro k d h hi he
  match k, h with
  | 0, h => simp [exT] at h; subst h; simp at hi
  | 1, h => simp [exT] at h; subst h; exact ⟨⟨by decide, fun _ => trivial⟩, fun h => by cases h⟩
  | 2, h =>
    simp [exT] at h; subst h
    exact ⟨⟨by decide, fun _ => trivial⟩, fun _ => ⟨Or.inl (by decide), fun _ => trivial⟩⟩
  | 3, h =>
    simp [exT] at h; subst h
    exact ⟨⟨by decide, fun _ => trivial⟩, fun _ => ⟨Or.inr (by decide), fun _ => trivial⟩⟩
  | 4, h =>
    simp [exT] at h; subst h
    refine ⟨⟨by decide, fun c => ?_⟩, fun _ => ⟨Or.inl (by decide), fun c => ?_⟩⟩
    · show Prog.Below 4 (if c = 1 then _ else _)
      split <;> exact ⟨by decide, fun _ => trivial⟩
    · show ProgAll _ (if c = 1 then _ else _)
      split <;> exact ⟨Or.inr (by decide), fun _ => trivial⟩
  | 5, h => simp [exT] at h; subst h; exact ⟨⟨by decide, fun _ => trivial⟩, fun h => by cases h⟩
  | n + 6, h => simp [exT] at h

theorem exT_static2 : IsStaticKey exT 2 := ⟨_, [1], rfl, [], rfl, fun _ => rfl⟩
theorem exT_static3 : IsStaticKey exT 3 := ⟨_, [2], rfl, [], rfl, fun _ => rfl⟩

theorem exT_shape : Shape exT := by
  intro k d h hk
  match k, h with
  | 0, h | 1, h | 5, h => simp [exT] at h; subst h; simp at hk
  | 2, h => simp [exT] at h; subst h; exact ⟨Or.inl (by decide), fun _ => trivial⟩
  | 3, h => simp [exT] at h; subst h; exact ⟨Or.inr ⟨by decide, exT_static2⟩, fun _ => trivial⟩
  | 4, h =>
    simp [exT] at h; subst h
    refine ⟨Or.inl (by decide), fun c => ?_⟩
    show ProgAll _ (if c = 1 then _ else _)
    split
    · exact ⟨Or.inr ⟨by decide, exT_static3⟩, fun _ => trivial⟩
    · exact ⟨Or.inr ⟨by decide, exT_static2⟩, fun _ => trivial⟩
  | n + 6, h => simp [exT] at h

/-- `exT` is in neither of the two smaller classes -/
theorem exT_not_classA : ¬ NoProjOverProj exT := by
  intro h
  have := h 3 { kind := .projection, prog := .ask 2 fun a => .ret (a * 2) } (by simp [exT]) rfl
  have h2 : kindOf exT 2 = some Kind.firewall := this.1
  simp [kindOf, exT] at h2

theorem exT_not_classB : ¬ StaticProj exT := by
  intro h
  obtain ⟨ks, rest, _, hst⟩ := h 4 _ (by simp [exT]; rfl) rfl
  obtain ⟨r1, e1, _⟩ := hst 1
  obtain ⟨r0, e0, _⟩ := hst 0
  rw [e1] at e0
  cases e0

def exTOps : List Op :=
  [ .sess [.set 0 1], .round [5], .sess [.set 0 2], .round [5], .sess [.set 0 2], .round [5],
    .sess [.set 0 3], .round [5, 3] ]

/-- `exT` after the first round and the session that changes the firewall -/
def exTU : St := stateAfter exT [.sess [.set 0 1], .round [5], .sess [.set 0 2]]
theorem exTU_inv : Inv exT exTU := stateAfter_inv exT_wf exT_shape _

end Qbice.CoreFw
