/-
Read-prefix determinism of executors, for the extended core engine model (a building block of the
projection-over-projection proof; see the comment at `C01_full_statement` in `Props/C01.lean`).

`readKeys val prog` is the sequence of keys an executor asks when key `d` has value `val d`.
* `readKeys_prefix` (pure): two value assignments that agree on all but the last key of a prefix of the
  read sequence produce that same prefix — in particular the first dependency whose value differs is
  still read.
* `runProg_readKeys`: an execution in the engine records exactly the first occurrences of
  `readKeys (curVal p s) prog`, `curVal p s` being the from-scratch values of the epoch: PROVED from
  the soundness of the requests below the key, not assumed.
* `exec_rereads_first_changed`: two executions of the same executor in states whose from-scratch values
  agree on the keys read before `g`: the second one records `g` as well.
-/
import QbiceVerif.Lemmas.EngineCoreFw9
namespace Qbice.CoreFw
open Qbice.Core (Prog Err Write SetRes allVals evalProg applyWorld Sat TraceOK)

/-- the keys an executor asks, in order, when the value of key `d` is `val d` -/
def readKeys (val : Key → Val) : Prog → List Key
  | .ret _ => []
  | .ask d cont => d :: readKeys val (cont (val d))
  | .askAll ks cont => ks ++ readKeys val (cont (ks.map val))

theorem mem_dropLast_of_cons {α : Type} {a : α} {l : List α} (h : l ≠ []) : a ∈ (a :: l).dropLast := by
  cases l with
  | nil => exact absurd rfl h
  | cons b r => simp [List.dropLast]

theorem dropLast_cons_subset {α : Type} {a x : α} {l : List α} (h : x ∈ l.dropLast) :
    x ∈ (a :: l).dropLast := by
  cases l with
  | nil => simp at h
  | cons b r => simp only [List.dropLast_cons₂, List.mem_cons]; exact Or.inr h

/-- read-prefix determinism: the values of all but the last key of a prefix determine the prefix -/
theorem readKeys_prefix {v1 v2 : Key → Val} :
    ∀ (prog : Prog) (pre : List Key), pre <+: readKeys v1 prog →
      (∀ d, d ∈ pre.dropLast → v1 d = v2 d) → pre <+: readKeys v2 prog := by
  intro prog
  induction prog with
  | ret v =>
    intro pre h _
    simpa [readKeys] using h
  | ask d cont ih =>
    intro pre h hag
    cases pre with
    | nil => exact List.nil_prefix
    | cons d' pre' =>
      simp only [readKeys] at h ⊢
      rw [List.cons_prefix_cons] at h ⊢
      obtain ⟨rfl, h'⟩ := h
      refine ⟨rfl, ?_⟩
      by_cases hne : pre' = []
      · subst hne; exact List.nil_prefix
      · have hd : v1 d' = v2 d' := hag d' (mem_dropLast_of_cons hne)
        rw [← hd]
        exact ih (v1 d') pre' h' (fun x hx => hag x (dropLast_cons_subset hx))
  | askAll ks cont ih =>
    intro pre h hag
    simp only [readKeys] at h ⊢
    -- either the prefix ends inside the group, or it contains the whole group
    by_cases hlen : pre.length ≤ ks.length
    · have : pre <+: ks := List.prefix_of_prefix_length_le h (List.prefix_append ks _) hlen
      exact this.trans (List.prefix_append ks _)
    · -- pre = ks ++ pre', pre' a non-empty prefix of the rest
      obtain ⟨t, ht⟩ := h
      have hks : ks <+: pre := by
        have h1 : ks <+: pre ++ t := by rw [ht]; exact List.prefix_append ks _
        exact List.prefix_of_prefix_length_le h1 (List.prefix_append pre t) (by omega)
      obtain ⟨pre', rfl⟩ := hks
      have hpre' : pre' <+: readKeys v1 (cont (ks.map v1)) := by
        refine ⟨t, ?_⟩
        rw [List.append_assoc] at ht
        exact List.append_cancel_left ht
      have hne : pre' ≠ [] := by
        intro e; subst e; simp at hlen
      have hall : ∀ d, d ∈ ks → v1 d = v2 d := by
        intro d hd
        apply hag
        rw [List.dropLast_append_of_ne_nil hne]
        exact List.mem_append_left _ hd
      have hmap : ks.map v1 = ks.map v2 := List.map_congr_left hall
      rw [← hmap]
      rw [List.prefix_append_right_inj]
      apply ih (ks.map v1) pre' hpre'
      intro d hd
      apply hag
      rw [List.dropLast_append_of_ne_nil hne]
      exact List.mem_append_right _ hd

/-- the from-scratch values of the epoch of `s` (0 where undefined) -/
def curVal (p : Program) (s : St) (d : Key) : Val := (cur p s d).getD 0

theorem curVal_frame {p : Program} {s s' : St} (f : Frame p s s') : curVal p s' = curVal p s := by
  funext d; simp [curVal, f.cur]

theorem recordKeys_append (a b acc : List Key) :
    recordKeys (a ++ b) acc = recordKeys b (recordKeys a acc) := by
  simp [recordKeys, List.foldl_append]

theorem askMany_readKeys {p : Program} {q : Q} {k : Key} (hq : QSpec p q k) :
    ∀ (ks : List Key) (a : Acc) (s : St), (∀ d, d ∈ ks → d < k) → Inv p s → AccOK p k s a →
      Sat (askMany q ks a s) (fun r =>
        r.1 = ks.map (curVal p s) ∧ r.2.1.deps.map (·.1) = recordKeys ks (a.deps.map (·.1))) := by
  intro ks
  induction ks with
  | nil => intro a s _ _ _; simp only [askMany]; exact ⟨rfl, rfl⟩
  | cons d rest ih =>
    intro a s hb inv hacc
    have hd : d < k := hb d (List.mem_cons_self ..)
    have hqd := hq d hd s inv
    simp only [askMany]
    cases hr : q d s with
    | error e => rw [hr] at hqd; simpa [Sat] using hqd
    | ok r =>
      obtain ⟨v, s1⟩ := r
      rw [hr] at hqd
      obtain ⟨i1, f1, t1, c1, nd, hnd, hvd, hver⟩ := hqd
      simp only at i1 f1 t1 c1 hnd hvd hver ⊢
      obtain ⟨hacc2, _, _⟩ := observe_spec i1 (hacc.frame inv f1) hd (by rw [f1.cur]; exact c1) hnd hvd hver
      have hb' : ∀ d', d' ∈ rest → d' < k := fun d' hm => hb d' (List.mem_cons_of_mem _ hm)
      have hrest := ih (observe s1 a d v) s1 hb' i1 hacc2
      cases hr2 : askMany q rest (observe s1 a d v) s1 with
      | error e => rw [hr2] at hrest; simpa [Sat] using hrest
      | ok r2 =>
        obtain ⟨vs, a2, s2⟩ := r2
        rw [hr2] at hrest
        obtain ⟨h1, h2⟩ := hrest
        simp only at h1 h2 ⊢
        refine ⟨?_, ?_⟩
        · rw [h1, curVal_frame f1]
          simp [curVal, c1]
        · rw [h2, observe_keys_eq]; rfl

/-- an execution records exactly the first occurrences of the read sequence under the from-scratch
    values of the epoch -/
theorem runProg_readKeys {p : Program} {q : Q} {k : Key} (hq : QSpec p q k) :
    ∀ (prog : Prog) (a : Acc) (s : St), prog.Below k → Inv p s → AccOK p k s a →
      Sat (runProg q prog a s) (fun r =>
        r.2.1.deps.map (·.1) = recordKeys (readKeys (curVal p s) prog) (a.deps.map (·.1))) := by
  intro prog
  induction prog with
  | ret v => intro a s _ _ _; simp only [runProg]; rfl
  | ask d cont ih =>
    intro a s hb inv hacc
    obtain ⟨hd, hc⟩ := hb
    have hqd := hq d hd s inv
    simp only [runProg]
    cases hr : q d s with
    | error e => rw [hr] at hqd; simpa [Sat] using hqd
    | ok r =>
      obtain ⟨v, s1⟩ := r
      rw [hr] at hqd
      obtain ⟨i1, f1, t1, c1, nd, hnd, hvd, hver⟩ := hqd
      simp only at i1 f1 t1 c1 hnd hvd hver ⊢
      obtain ⟨hacc2, _, _⟩ := observe_spec i1 (hacc.frame inv f1) hd (by rw [f1.cur]; exact c1) hnd hvd hver
      refine (ih v (observe s1 a d v) s1 (hc v) i1 hacc2).mono ?_
      rintro ⟨v', a2, s2⟩ h
      simp only at h ⊢
      have hv : curVal p s d = v := by simp [curVal, c1]
      rw [h, observe_keys_eq, curVal_frame f1]
      simp only [readKeys, hv]
      rfl
  | askAll ks cont ih =>
    intro a s hb inv hacc
    obtain ⟨hd, hc⟩ := hb
    have hall := askMany_readKeys hq ks a s hd inv hacc
    have hallS := askMany_spec hq ks a s hd inv hacc
    simp only [runProg]
    cases hr : askMany q ks a s with
    | error e => rw [hr] at hall; simpa [Sat] using hall
    | ok r =>
      obtain ⟨vs, a1, s1⟩ := r
      rw [hr] at hall hallS
      obtain ⟨g1, g2⟩ := hall
      obtain ⟨i1, f1, _, a1ok, _⟩ := hallS
      simp only at g1 g2 i1 f1 a1ok ⊢
      refine (ih vs a1 s1 (hc vs) i1 a1ok).mono ?_
      rintro ⟨v', a2, s2⟩ h
      simp only at h ⊢
      rw [h, g2, curVal_frame f1]
      simp only [readKeys, g1]
      rw [recordKeys_append]

/-- the recorded keys of an execution of the executor of `k` -/
theorem execute_readKeys {p : Program} (wf : WF p) {q : Q} {k : Key} (hq : QSpec p q k) {d : NodeDef}
    (hp : p[k]? = some d) (hki : d.kind ≠ .input) (hke : d.kind ≠ .external) {s : St} (inv : Inv p s)
    {v : Val} {s' : St} (h : execute q k d s = .ok (v, s')) :
    ∃ n, s'.nodes k = some n ∧ ∀ g, g ∈ n.deps.map (·.1) ↔ g ∈ readKeys (curVal p s) d.prog := by
  have hrk := runProg_readKeys hq d.prog {} s (wf k d hp hki hke).1 inv (AccOK.nil p k s)
  unfold execute at h
  cases hr : runProg q d.prog {} s with
  | error e => rw [hr] at h; cases h
  | ok r =>
    obtain ⟨v1, a, s1⟩ := r
    rw [hr] at h hrk
    simp only at h hrk
    cases h
    refine ⟨{ kind := d.kind, lastVerified := s1.epoch, value := v, deps := a.deps, seen := a.seen,
              tfc := a.tfc,
              pendingBP := valueChanged s1 k v || projTfcChanged s1 k a.tfc || hasPending s1 k },
      by simp [install, setNode], ?_⟩
    intro g
    show g ∈ a.deps.map (·.1) ↔ _
    have hrk' : a.deps.map (·.1) = recordKeys (readKeys (curVal p s) d.prog) [] := hrk
    rw [hrk']
    simp [mem_recordKeys]

/-- read-prefix determinism of the executors of the model: if the executor of `k`, run in `s`, reads the
    keys `pre` and then `g`, and the from-scratch values of `s'` agree with those of `s` on `pre`, then a
    run in `s'` records `g` as well (the first dependency whose value changed is read again) -/
theorem exec_rereads_first_changed {p : Program} (wf : WF p) {q : Q} {k : Key} (hq : QSpec p q k)
    {d : NodeDef} (hp : p[k]? = some d) (hki : d.kind ≠ .input) (hke : d.kind ≠ .external)
    {s s' : St} (inv' : Inv p s') {pre : List Key} {g : Key}
    (hpre : pre ++ [g] <+: readKeys (curVal p s) d.prog)
    (hag : ∀ x, x ∈ pre → curVal p s x = curVal p s' x)
    {v : Val} {s'' : St} (h : execute q k d s' = .ok (v, s'')) :
    ∃ n, s''.nodes k = some n ∧ ∃ o, (g, o) ∈ n.deps := by
  obtain ⟨n, hn, hmem⟩ := execute_readKeys wf hq hp hki hke inv' h
  have hp2 : pre ++ [g] <+: readKeys (curVal p s') d.prog :=
    readKeys_prefix d.prog (pre ++ [g]) hpre (by
      intro x hx
      rw [List.dropLast_concat] at hx
      exact hag x hx)
  have hg : g ∈ n.deps.map (·.1) := (hmem g).2 (hp2.subset (by simp))
  rw [List.mem_map] at hg
  obtain ⟨⟨g', o⟩, hm, rfl⟩ := hg
  exact ⟨n, hn, o, hm⟩

end Qbice.CoreFw
