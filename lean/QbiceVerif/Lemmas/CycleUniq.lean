/-
Order independence of the fresh cycle evaluation, abstract part.

A finished evaluation is described without reference to the traversal that produced it (`Sol`): every
computed key has a level and a table of values of strictly lower level; an unmarked key's value is
its executor over its table; a marked key has its default and a successor `Nxt` of the same level:
its executor, fed from its table, gets values for a while and then asks for the successor, and
following successors leads back to the key (the marked keys of one level form the cycle that was
detected).  `sol_unique`: two such descriptions of the same program agree on every key both contain —
value, mark and successor.  The proof never looks at a traversal.
-/
import QbiceVerif.Lemmas.CycleInv
namespace Qbice.Cycle

/-- the executor, fed from `tbl`, gets values for a while and then asks for `t` -/
inductive Reaches (tbl : Key → Option Val) : Prog → Key → Prop
  | here (t : Key) (cont : Val → Prog) : Reaches tbl (.ask t cont) t
  | step (k : Key) (cont : Val → Prog) (v : Val) (t : Key) :
      tbl k = some v → Reaches tbl (cont v) t → Reaches tbl (.ask k cont) t

/-- two tables never give different values for a key -/
def Agree (t1 t2 : Key → Option Val) : Prop := ∀ x v1 v2, t1 x = some v1 → t2 x = some v2 → v1 = v2

theorem Agree.symm {t1 t2 : Key → Option Val} (h : Agree t1 t2) : Agree t2 t1 :=
  fun x v1 v2 h1 h2 => (h x v2 v1 h2 h1).symm

theorem evalWith_agree {t1 t2 : Key → Option Val} (ag : Agree t1 t2) :
    ∀ (prog : Prog) (a b : Val), evalWith t1 prog = some a → evalWith t2 prog = some b → a = b := by
  intro prog
  induction prog with
  | ret v =>
    intro a b h1 h2
    simp only [evalWith, Option.some.injEq] at h1 h2
    rw [← h1, ← h2]
  | ask k cont ih =>
    intro a b h1 h2
    simp only [evalWith] at h1 h2
    cases e1 : t1 k with
    | none => rw [e1] at h1; simp at h1
    | some v1 =>
      cases e2 : t2 k with
      | none => rw [e2] at h2; simp at h2
      | some v2 =>
        rw [e1] at h1; rw [e2] at h2
        have := ag k v1 v2 e1 e2
        subst this
        exact ih v1 a b h1 h2

/-- an executor that runs to completion over `t1` has a value for the key at which it stops over `t2` -/
theorem reaches_of_eval {t1 t2 : Key → Option Val} (ag : Agree t1 t2) {prog : Prog} {t : Key}
    (r : Reaches t2 prog t) : ∀ a, evalWith t1 prog = some a → ∃ v, t1 t = some v := by
  induction r with
  | here t cont =>
    intro a h
    simp only [evalWith] at h
    cases e : t1 t with
    | none => rw [e] at h; simp at h
    | some v => exact ⟨v, rfl⟩
  | step k cont v t hk _ ih =>
    intro a h
    simp only [evalWith] at h
    cases e : t1 k with
    | none => rw [e] at h; simp at h
    | some v1 =>
      rw [e] at h
      have := ag k v1 v e hk
      subst this
      exact ih a h

/-- two runs of one executor that stop: at the same key, or one has a value where the other stops -/
theorem reaches_two {t1 t2 : Key → Option Val} (ag : Agree t1 t2) {prog : Prog} {a : Key}
    (r1 : Reaches t1 prog a) : ∀ {b : Key}, Reaches t2 prog b →
      a = b ∨ (∃ v, t2 a = some v) ∨ (∃ v, t1 b = some v) := by
  induction r1 with
  | here t cont =>
    intro b r2
    cases r2 with
    | here => exact Or.inl rfl
    | step _ _ v _ hk _ => exact Or.inr (Or.inl ⟨v, hk⟩)
  | step k cont v t hk _ ih =>
    intro b r2
    cases r2 with
    | here => exact Or.inr (Or.inr ⟨v, hk⟩)
    | step _ _ v2 _ hk2 r2' =>
      have := ag k v v2 hk hk2
      subst this
      exact ih r2'

theorem Reaches.mono {t1 t2 : Key → Option Val} (h : ∀ x v, t1 x = some v → t2 x = some v) {prog : Prog}
    {t : Key} (r : Reaches t1 prog t) : Reaches t2 prog t := by
  induction r with
  | here t cont => exact .here t cont
  | step k cont v t hk _ ih => exact .step k cont v t (h k v hk) ih

/-- a traversal-independent description of a finished evaluation -/
structure Sol (p : Program) (V : Key → Option Val) (tbl : Key → Key → Option Val) (lvl : Key → Nat)
    (M : Key → Bool) (Nxt : Key → Key → Prop) : Prop where
  tblOK : ∀ k v, V k = some v → ∀ x w, tbl k x = some w → V x = some w ∧ lvl x < lvl k
  plain : ∀ k v, V k = some v → M k = false → evalWith (tbl k) (progOf p k) = some v
  marked : ∀ k v, V k = some v → M k = true → v = dfltOf p k ∧ ∃ y, Nxt k y
  nxt : ∀ k v y, V k = some v → Nxt k y →
    M k = true ∧ Reaches (tbl k) (progOf p k) y ∧ (∃ w, V y = some w) ∧ M y = true ∧ lvl y = lvl k ∧
      Path Nxt y k

section
variable {p : Program}
variable {V1 V2 : Key → Option Val} {tbl1 tbl2 : Key → Key → Option Val} {lvl1 lvl2 : Key → Nat}
variable {M1 M2 : Key → Bool} {N1 N2 : Key → Key → Prop}

/-- **Uniqueness.**  Two descriptions agree wherever both are defined. -/
theorem sol_unique (S1 : Sol p V1 tbl1 lvl1 M1 N1) (S2 : Sol p V2 tbl2 lvl2 M2 N2) :
    ∀ (n : Nat) (k : Key) (v1 v2 : Val), lvl1 k = n → V1 k = some v1 → V2 k = some v2 →
      v1 = v2 ∧ M1 k = M2 k ∧ (∀ y, N1 k y ↔ N2 k y) := by
  intro n
  induction n using Nat.strongRecOn with
  | ind n ih =>
    -- tables of keys of level `n` agree with every table of the other description
    have agree : ∀ x a x' b, V1 x = some a → lvl1 x = n → V2 x' = some b → Agree (tbl1 x) (tbl2 x') := by
      intro x a x' b hx hl hx' y w1 w2 h1 h2
      obtain ⟨hy1, hlt⟩ := S1.tblOK x a hx y w1 h1
      obtain ⟨hy2, _⟩ := S2.tblOK x' b hx' y w2 h2
      rw [hl] at hlt
      exact (ih (lvl1 y) hlt y w1 w2 rfl hy1 hy2).1
    -- a cycle of lower level is the same cycle in the other description: it cannot contain a key
    -- of level `n`
    have low : ∀ t z a b, V1 t = some a → V2 t = some b → M1 t = true → lvl1 t < n → Path N2 t z →
        lvl1 z < n := by
      intro t z a b ht1 ht2 hm hlt pth
      let G : Key → Prop := fun x =>
        (∃ a, V1 x = some a) ∧ (∃ b, V2 x = some b) ∧ M1 x = true ∧ lvl1 x = lvl1 t
      have hG : ∀ x y, G x → N2 x y → G y := by
        rintro x y ⟨⟨a', ha'⟩, ⟨b', hb'⟩, hmx, hlx⟩ hxy
        have hlx' : lvl1 x < n := by rw [hlx]; exact hlt
        have hN1 : N1 x y := ((ih (lvl1 x) hlx' x a' b' rfl ha' hb').2.2 y).2 hxy
        obtain ⟨_, _, hy1, hmy, hly, _⟩ := S1.nxt x a' y ha' hN1
        obtain ⟨_, _, hy2, _, _, _⟩ := S2.nxt x b' y hb' hxy
        exact ⟨hy1, hy2, hmy, by rw [hly, hlx]⟩
      have := pth.closed (S := G) hG ⟨⟨a, ht1⟩, ⟨b, ht2⟩, hm, rfl⟩
      rw [this.2.2.2]; exact hlt
    intro k v1 v2 hl h1 h2
    cases hM1 : M1 k with
    | false =>
      have ev1 := S1.plain k v1 h1 hM1
      have noN1 : ∀ y, ¬ N1 k y := by
        intro y hy
        have := (S1.nxt k v1 y h1 hy).1
        rw [hM1] at this; cases this
      cases hM2 : M2 k with
      | false =>
        have ev2 := S2.plain k v2 h2 hM2
        refine ⟨evalWith_agree (agree k v1 k v2 h1 hl h2) _ v1 v2 ev1 ev2, rfl, ?_⟩
        intro y
        constructor
        · intro hy; exact absurd hy (noN1 y)
        · intro hy
          have := (S2.nxt k v2 y h2 hy).1
          rw [hM2] at this; cases this
      | true =>
        exfalso
        obtain ⟨_, y2, hN2⟩ := S2.marked k v2 h2 hM2
        obtain ⟨_, r2, ⟨w2, hw2⟩, hMy2, _, pth2⟩ := S2.nxt k v2 y2 h2 hN2
        obtain ⟨a, ha⟩ := reaches_of_eval (agree k v1 k v2 h1 hl h2) r2 v1 ev1
        obtain ⟨hy1, hlt⟩ := S1.tblOK k v1 h1 y2 a ha
        rw [hl] at hlt
        have hm1 : M1 y2 = true := by
          rw [(ih (lvl1 y2) hlt y2 a w2 rfl hy1 hw2).2.1]; exact hMy2
        have := low y2 k a w2 hy1 hw2 hm1 hlt pth2
        omega
    | true =>
      obtain ⟨hv1, y0, hN0⟩ := S1.marked k v1 h1 hM1
      -- what the other description says about a read of a member of this cycle
      have edge : ∀ x a b y, V1 x = some a → lvl1 x = n → V2 x = some b → N1 x y →
          (∃ c, V2 y = some c) ∧ ((M2 x = true ∧ N2 x y) ∨ lvl2 y < lvl2 x) := by
        intro x a b y hx hlx hx2 hN
        obtain ⟨_, r1, _, _, _, _⟩ := S1.nxt x a y hx hN
        have ag := agree x a x b hx hlx hx2
        cases hm2 : M2 x with
        | false =>
          have ev2 := S2.plain x b hx2 hm2
          obtain ⟨c, hc⟩ := reaches_of_eval ag.symm r1 b ev2
          obtain ⟨hy2, hlt⟩ := S2.tblOK x b hx2 y c hc
          exact ⟨⟨c, hy2⟩, Or.inr hlt⟩
        | true =>
          obtain ⟨_, y2, hN2⟩ := S2.marked x b hx2 hm2
          obtain ⟨_, r2, ⟨w2, hw2⟩, hMy2, _, pth2⟩ := S2.nxt x b y2 hx2 hN2
          rcases reaches_two ag r1 r2 with e | ⟨c, hc⟩ | ⟨c, hc⟩
          · subst e
            exact ⟨⟨w2, hw2⟩, Or.inl ⟨rfl, hN2⟩⟩
          · obtain ⟨hy2, hlt⟩ := S2.tblOK x b hx2 y c hc
            exact ⟨⟨c, hy2⟩, Or.inr hlt⟩
          · exfalso
            obtain ⟨hy1, hlt⟩ := S1.tblOK x a hx y2 c hc
            rw [hlx] at hlt
            have hm1 : M1 y2 = true := by
              rw [(ih (lvl1 y2) hlt y2 c w2 rfl hy1 hw2).2.1]; exact hMy2
            have := low y2 x c w2 hy1 hw2 hm1 hlt pth2
            omega
      -- along the cycle the level in the other description never increases
      have walk : ∀ y z c, V1 y = some c → lvl1 y = n → (∃ b, V2 y = some b) → Path N1 y z →
          lvl2 z ≤ lvl2 y := by
        intro y z c hy hly hy2 pth
        let S : Key → Prop := fun x =>
          (∃ a, V1 x = some a) ∧ lvl1 x = n ∧ (∃ b, V2 x = some b) ∧ lvl2 x ≤ lvl2 y
        have hS : ∀ x x', S x → N1 x x' → S x' := by
          rintro x x' ⟨⟨a, ha⟩, hlx, ⟨b, hb⟩, hle⟩ hN
          obtain ⟨_, _, hx'1, _, hlx', _⟩ := S1.nxt x a x' ha hN
          obtain ⟨hx'2, hcase⟩ := edge x a b x' ha hlx hb hN
          refine ⟨hx'1, by rw [hlx', hlx], hx'2, ?_⟩
          rcases hcase with ⟨_, hN2⟩ | hlt
          · have := (S2.nxt x b x' hb hN2).2.2.2.2.1
            omega
          · omega
        exact (pth.closed (S := S) hS ⟨⟨c, hy⟩, hly, hy2, Nat.le_refl _⟩).2.2.2
      have fwd : ∀ y, N1 k y → M2 k = true ∧ N2 k y := by
        intro y hN
        obtain ⟨_, _, ⟨c, hc⟩, _, hly, pth⟩ := S1.nxt k v1 y h1 hN
        obtain ⟨hy2, hcase⟩ := edge k v1 v2 y h1 hl h2 hN
        rcases hcase with h | hlt
        · exact h
        · exfalso
          have := walk y k c hc (by rw [hly, hl]) hy2 pth
          omega
      obtain ⟨hM2, hN20⟩ := fwd y0 hN0
      obtain ⟨hv2, _⟩ := S2.marked k v2 h2 hM2
      refine ⟨by rw [hv1, hv2], hM2.symm, ?_⟩
      intro y
      constructor
      · intro hy; exact (fwd y hy).2
      · intro hy
        obtain ⟨_, r1, _, _, _, _⟩ := S1.nxt k v1 y0 h1 hN0
        obtain ⟨_, r2, ⟨w2, hw2⟩, hMy2, _, pth2⟩ := S2.nxt k v2 y h2 hy
        rcases reaches_two (agree k v1 k v2 h1 hl h2) r1 r2 with e | ⟨c, hc⟩ | ⟨c, hc⟩
        · rw [← e]; exact hN0
        · exfalso
          have hlt := (S2.tblOK k v2 h2 y0 c hc).2
          have := (S2.nxt k v2 y0 h2 hN20).2.2.2.2.1
          omega
        · exfalso
          obtain ⟨hy1, hlt⟩ := S1.tblOK k v1 h1 y c hc
          rw [hl] at hlt
          have hm1 : M1 y = true := by
            rw [(ih (lvl1 y) hlt y c w2 rfl hy1 hw2).2.1]; exact hMy2
          have := low y k c w2 hy1 hw2 hm1 hlt pth2
          omega
end

end Qbice.Cycle
