import QbiceVerif.Lemmas.PhaseInvBase

/-!
# C04 — the invariant of the repaired opening order (`lockFirst = true`), executor-independent part

Epochs (`openE`, `sessE`, `actE`), stamps and released sessions against the current epoch
(`doneLe`, `doneLt*`, `verLe`, `verLt*`), the stored inputs against the released sessions
(`inpNone`, `inpSome`) and the dirty batch (`batch`).
-/

namespace QbiceVerif.Phase

/-! ## the engine -/

theorem query_spec (c : Cfg) (inp : Inputs) (nodes : Key → Option Node) (e : Nat) (k k' : Key)
    (n' : Node) (h : (query c inp nodes e k).2 k' = some n') :
    nodes k' = some n' ∨
      (k' = k ∧ n'.ver = e ∧ n'.dirty = false ∧
        ((n'.val, n'.reads) = c.exec k inp ∨
          ∃ n, nodes k = some n ∧ n.dirty = false ∧ n'.val = n.val ∧ n'.reads = n.reads)) := by
  unfold query at h
  split at h
  · next hn =>
    simp only [upd_apply] at h
    split at h
    · next hk => right; cases h; simp [hk]
    · left; exact h
  · next n hn =>
    split at h
    · left; exact h
    · split at h
      · simp only [upd_apply] at h
        split at h
        · next hk => right; cases h; simp [hk]
        · left; exact h
      · next hd =>
        simp only [upd_apply] at h
        split at h
        · next hk =>
          right; cases h
          refine ⟨hk, rfl, by simpa using hd, Or.inr ⟨n, hn, by simpa using hd, rfl, rfl⟩⟩
        · left; exact h

theorem query_val (c : Cfg) (inp : Inputs) (nodes : Key → Option Node) (e : Nat) (k : Key) :
    (query c inp nodes e k).1 = (c.exec k inp).1 ∨
      ∃ n, nodes k = some n ∧ (query c inp nodes e k).1 = n.val ∧ (n.ver = e ∨ n.dirty = false) := by
  unfold query
  split
  · left; rfl
  · next n hn =>
    split
    · next hv => right; exact ⟨n, hn, rfl, Or.inl hv⟩
    · split
      · left; rfl
      · next hd => right; exact ⟨n, hn, rfl, Or.inr (by simpa using hd)⟩

theorem markDirty_spec (nodes : Key → Option Node) (b : List Key) (k : Key) (n' : Node)
    (h : markDirty nodes b k = some n') :
    ∃ n, nodes k = some n ∧ n'.ver = n.ver ∧ n'.val = n.val ∧ n'.reads = n.reads ∧
      (n'.dirty = false → n.dirty = false ∧ ∀ r, r ∈ n.reads → r ∉ b) := by
  unfold markDirty at h
  simp only [Option.map_eq_some_iff] at h
  obtain ⟨n, hn, h⟩ := h
  refine ⟨n, hn, ?_⟩
  split at h
  · subst h; simp
  · next hany =>
    subst h
    refine ⟨rfl, rfl, rfl, fun hd => ⟨hd, ?_⟩⟩
    intro r hr hb
    apply hany
    simp only [List.any_eq_true]
    exact ⟨r, hr, by simpa using hb⟩

/-! ## the invariant -/

structure InvFix (s : State) : Prop where
  openE : ∀ t i e sets kind, (s.tasks t).pc = .wOpen i e sets kind → 4 ≤ i → e = s.epoch
  sessE : ∀ σ, s.sess = some σ → σ.epoch = s.epoch
  actE : ∀ t e ks, (s.tasks t).pc = .rActive e ks → e = s.epoch
  doneLe : ∀ d, d ∈ s.done → d.1 ≤ s.epoch
  doneLtS : ∀ σ, s.sess = some σ → ∀ d, d ∈ s.done → d.1 < s.epoch
  doneLtO : ∀ t i e sets kind, (s.tasks t).pc = .wOpen i e sets kind → 4 ≤ i → ∀ d, d ∈ s.done → d.1 < s.epoch
  verLe : ∀ k n, s.nodes k = some n → n.ver ≤ s.epoch
  verLtS : ∀ σ, s.sess = some σ → ∀ k n, s.nodes k = some n → n.ver < s.epoch
  verLtO : ∀ t i e sets kind, (s.tasks t).pc = .wOpen i e sets kind → 4 ≤ i → ∀ k n, s.nodes k = some n → n.ver < s.epoch
  inpNone : s.sess = none → s.inputs = fullInputs s.base s.done
  inpSome : ∀ σ, s.sess = some σ →
    σ.base = fullInputs s.base s.done ∧ s.inputs = applyWrites σ.base σ.writes
  batch : ∀ σ, s.sess = some σ → ∀ key, s.inputs key ≠ σ.base key → key ∈ σ.batch

/-- only the lock changes -/
theorem invFix_lock {s : State} (inv : InvFix s) (l : Lock) :
    InvFix ⟨s.epoch, l, s.tasks, s.inputs, s.nodes, s.sess, s.done, s.base⟩ :=
  ⟨inv.openE, inv.sessE, inv.actE, inv.doneLe, inv.doneLtS, inv.doneLtO, inv.verLe, inv.verLtS,
    inv.verLtO, inv.inpNone, inv.inpSome, inv.batch⟩

/-- a task changes its pc (to one that is not past the bump) and the lock changes -/
theorem invFix_setPc {s : State} (inv : InvFix s) (t : Tid) (x : Task) (l : Lock)
    (h1 : ∀ i e sets kind, x.pc = .wOpen i e sets kind → i < 4)
    (h2 : ∀ e ks, x.pc = .rActive e ks → e = s.epoch) :
    InvFix ⟨s.epoch, l, upd s.tasks t x, s.inputs, s.nodes, s.sess, s.done, s.base⟩ := by
  constructor <;> grind [upd_apply, InvFix, Pc.openIdx]


/-- while a tracked engine is alive nothing is bumped-and-unreleased -/
theorem reader_quiet {c : Cfg} {s : State} (ib : InvBase c s) (hlf : c.lockFirst = true) (t : Tid)
    (ht : t ∈ s.lock.readers) :
    s.sess = none ∧ ∀ t' i e sets kind, (s.tasks t').pc = .wOpen i e sets kind → i < 2 := by
  refine ⟨(ib.reader_excl t ht).2, ?_⟩
  intro t' i e sets kind h
  by_cases hi : 2 ≤ i
  · have := (ib.open_holds hlf t' i e sets kind h hi).2.2
    rw [this] at ht; cases ht
  · omega

theorem invFix_rQueryD {c : Cfg} {s : State} (ib : InvBase c s) (hlf : c.lockFirst = true)
    (inv : InvFix s) (t : Tid) (e : Nat) (k : Key) (ks : List (Bool × Key))
    (hpc : (s.tasks t).pc = .rActive e ((false, k) :: ks)) :
    InvFix ⟨s.epoch, s.lock, upd s.tasks t ⟨.rActive e ks, (s.tasks t).script⟩, s.inputs,
      (query c s.inputs s.nodes e k).2, s.sess, s.done, s.base⟩ := by
  have he := inv.actE t e _ hpc
  obtain ⟨hsn, hlow⟩ := reader_quiet ib hlf t (ib.heldA t e _ hpc)
  have hq := query_spec c s.inputs s.nodes e k
  constructor <;> grind [upd_apply, InvFix]

/-- the steps of `input_session()` before the bump, and the request for the lock -/
theorem invFix_openLow {s : State} (inv : InvFix s) (t : Tid) (l : Lock) (j e : Nat)
    (sets : List (Key × Val)) (kind : CommitKind) (rest : List Op) (hj : j < 4) :
    InvFix ⟨s.epoch, l, upd s.tasks t ⟨.wOpen j e sets kind, rest⟩, s.inputs, s.nodes, s.sess, s.done,
      s.base⟩ := by
  apply invFix_setPc inv
  · intro i e' sets' kind' h; cases h; exact hj
  · intro e' ks h; cases h

theorem invFix_bump {c : Cfg} {s : State} (ib : InvBase c s) (hlf : c.lockFirst = true)
    (inv : InvFix s) (t : Tid) (e0 : Nat) (sets : List (Key × Val)) (kind : CommitKind)
    (rest : List Op) (hpc : (s.tasks t).pc = .wOpen 3 e0 sets kind) :
    InvFix ⟨s.epoch + 1, s.lock, upd s.tasks t ⟨.wOpen 4 (s.epoch + 1) sets kind, rest⟩, s.inputs,
      s.nodes, s.sess, s.done, s.base⟩ := by
  obtain ⟨hw, hsn, hrd⟩ := ib.open_holds hlf t 3 e0 sets kind hpc (by omega)
  have huniq : ∀ t' i e sets kind, (s.tasks t').pc = .wOpen i e sets kind → 2 ≤ i → t' = t := by
    intro t' i e sets kind h hi
    have := (ib.open_holds hlf t' i e sets kind h hi).1
    rw [hw] at this; cases this; rfl
  have hnor : ∀ t' e ks, (s.tasks t').pc ≠ .rActive e ks := by
    intro t' e ks h
    have := ib.heldA t' e ks h
    rw [hrd] at this; cases this
  constructor <;> grind [upd_apply, InvFix]

theorem invFix_stage {c : Cfg} {s : State} (ib : InvBase c s) (hlf : c.lockFirst = true)
    (inv : InvFix s) (t : Tid) (e0 : Nat) (sets : List (Key × Val)) (kind : CommitKind)
    (rest : List Op) (hpc : (s.tasks t).pc = .wOpen 4 e0 sets kind) :
    InvFix ⟨s.epoch, s.lock, upd s.tasks t ⟨.wActive sets kind, rest⟩, s.inputs, s.nodes,
      some { owner := t, epoch := e0, pc := .active, batch := [], writes := [], base := s.inputs },
      s.done, s.base⟩ := by
  obtain ⟨hw, hsn, hrd⟩ := ib.open_holds hlf t 4 e0 sets kind hpc (by omega)
  have he := inv.openE t 4 e0 sets kind hpc (by omega)
  have hd := inv.doneLtO t 4 e0 sets kind hpc (by omega)
  have hv := inv.verLtO t 4 e0 sets kind hpc (by omega)
  have hi := inv.inpNone hsn
  constructor
  case batch => intro σ h key hne; cases h; exact absurd rfl hne
  all_goals grind [upd_apply, InvFix, applyWrites_nil]

theorem invFix_wSet {s : State} (inv : InvFix s) (t : Tid) (x : Task) (k : Key) (v : Val) (σ : Sess)
    (hs : s.sess = some σ) (hx1 : ∀ i e sets kind, x.pc ≠ .wOpen i e sets kind)
    (hx2 : ∀ e ks, x.pc ≠ .rActive e ks) :
    InvFix ⟨s.epoch, s.lock, upd s.tasks t x, upd s.inputs k v, s.nodes,
      some { σ with batch := if s.inputs k = v then σ.batch else k :: σ.batch,
                    writes := σ.writes ++ [(k, v)] },
      s.done, s.base⟩ := by
  obtain ⟨hb, hi⟩ := inv.inpSome σ hs
  have hbatch := inv.batch σ hs
  constructor
  case batch =>
    intro σ' h key hne
    cases h
    simp only [upd_apply] at hne
    show key ∈ if s.inputs k = v then σ.batch else k :: σ.batch
    grind
  all_goals grind [upd_apply, InvFix, applyWrites_snoc]

/-- the session only changes its pc; a task changes its pc to a non-opening, non-tracked one -/
theorem invFix_sessPc {s : State} (inv : InvFix s) (t : Tid) (x : Task) (σ : Sess) (p : SPc)
    (nodes : Key → Option Node)
    (hs : s.sess = some σ) (hx1 : ∀ i e sets kind, x.pc ≠ .wOpen i e sets kind)
    (hx2 : ∀ e ks, x.pc ≠ .rActive e ks)
    (hn : ∀ k n', nodes k = some n' → ∃ n, s.nodes k = some n ∧ n'.ver = n.ver) :
    InvFix ⟨s.epoch, s.lock, upd s.tasks t x, s.inputs, nodes, some { σ with pc := p }, s.done,
      s.base⟩ := by
  obtain ⟨hb, hi⟩ := inv.inpSome σ hs
  have hbatch := inv.batch σ hs
  constructor
  case batch => intro σ' h; cases h; exact hbatch
  all_goals grind [upd_apply, InvFix]

theorem invFix_cRel {c : Cfg} {s : State} (ib : InvBase c s) (hlf : c.lockFirst = true)
    (inv : InvFix s) (σ : Sess) (hs : s.sess = some σ) (l : Lock) :
    InvFix ⟨s.epoch, l, s.tasks, s.inputs, s.nodes, none, s.done ++ [(σ.epoch, σ.writes)], s.base⟩ := by
  obtain ⟨hb, hi⟩ := inv.inpSome σ hs
  have he := inv.sessE σ hs
  have hno : ∀ t i e sets kind, (s.tasks t).pc = .wOpen i e sets kind → i < 2 := by
    intro t i e sets kind h
    by_cases hi : 2 ≤ i
    · have := (ib.open_holds hlf t i e sets kind h hi).2.1
      rw [hs] at this; cases this
    · omega
  constructor <;> grind [InvFix, fullInputs_snoc]


theorem invFix_sessPc' {s : State} (inv : InvFix s) (σ : Sess) (p : SPc)
    (nodes : Key → Option Node) (hs : s.sess = some σ)
    (hn : ∀ k n', nodes k = some n' → ∃ n, s.nodes k = some n ∧ n'.ver = n.ver) :
    InvFix ⟨s.epoch, s.lock, s.tasks, s.inputs, nodes, some { σ with pc := p }, s.done, s.base⟩ := by
  obtain ⟨hb, hi⟩ := inv.inpSome σ hs
  have hbatch := inv.batch σ hs
  constructor
  case batch => intro σ' h; cases h; exact hbatch
  all_goals grind [InvFix]

theorem openPos_pos {x : Task} {i e0 : Nat} {sets : List (Key × Val)} {kind : CommitKind}
    {rest : List Op} (h : openPos x = some (i, e0, sets, kind, rest)) (hi : i ≠ 0) :
    x.pc = .wOpen i e0 sets kind := by
  rcases openPos_eq _ _ _ _ _ _ h with h | h
  · exact absurd h.2.2.1 hi
  · exact h.1

theorem InvFix.step {c : Cfg} {s s' : State} {ev : Ev} (ib : InvBase c s) (hlf : c.lockFirst = true)
    (inv : InvFix s) (h : StepR c s ev s') : InvFix s' := by
  cases h with
  | rReq t ks rest hpc hsc =>
    refine invFix_setPc inv t _ _ ?_ ?_
    · intro _ _ _ _ h; cases h
    · intro _ _ h; cases h
  | grantR t hw hwr => exact invFix_lock inv _
  | grantW t hw hrd hwr => exact invFix_lock inv _
  | rAcq t ks hpc hmem hw =>
    refine invFix_setPc inv t _ _ ?_ ?_
    · intro _ _ _ _ h; cases h
    · intro _ _ h; cases h
  | rSample t ks hpc =>
    refine invFix_setPc inv t _ _ ?_ ?_
    · intro _ _ _ _ h; cases h
    · intro _ _ h; cases h; rfl
  | rQueryIn t e k ks hpc =>
    refine invFix_setPc inv t _ _ ?_ ?_
    · intro _ _ _ _ h; cases h
    · intro _ _ h; cases h; exact inv.actE t _ _ hpc
  | rQueryD t e k ks hpc => exact invFix_rQueryD ib hlf inv t e k ks hpc
  | rRel t e hpc =>
    refine invFix_setPc inv t _ _ ?_ ?_
    · intro _ _ _ _ h; cases h
    · intro _ _ h; cases h
  | wStep t st e i e0 sets kind rest hpos hord hside =>
    rw [hlf] at hord
    rcases openOrder_true i st hord with ⟨hi, hst⟩ | ⟨hi, hst⟩ | ⟨hi, hst⟩ | ⟨hi, hst⟩ | ⟨hi, hst⟩ <;>
      subst hi <;> subst hst
    · exact invFix_openLow inv t _ 1 e0 sets kind rest (by omega)
    · exact invFix_openLow inv t _ 2 e0 sets kind rest (by omega)
    · exact invFix_openLow inv t _ 3 e0 sets kind rest (by omega)
    · have he : e = s.epoch + 1 := hside
      subst he
      exact invFix_bump ib hlf inv t e0 sets kind rest (openPos_pos hpos (by omega))
    · exact invFix_stage ib hlf inv t e0 sets kind rest (openPos_pos hpos (by omega))
  | wSet t k v sets kind σ hpc hs ho hp =>
    refine invFix_wSet inv t _ k v σ hs ?_ ?_
    · intro _ _ _ _ h; cases h
    · intro _ _ h; cases h
  | wCommit t σ hpc hs ho hp =>
    refine invFix_sessPc inv t _ σ _ _ hs ?_ ?_ ?_
    · intro _ _ _ _ h; cases h
    · intro _ _ h; cases h
    · intro k n h; exact ⟨n, h, rfl⟩
  | wDrop t σ hpc hs ho hp =>
    refine invFix_sessPc inv t _ σ _ _ hs ?_ ?_ ?_
    · intro _ _ _ _ h; cases h
    · intro _ _ h; cases h
    · intro k n h; exact ⟨n, h, rfl⟩
  | cPropagate t σ hs ho hp =>
    refine invFix_sessPc' inv σ _ _ hs ?_
    intro k n' h
    obtain ⟨n, hn, hv, _⟩ := markDirty_spec _ _ _ _ h
    exact ⟨n, hn, hv⟩
  | cSubmit t σ hs ho hp =>
    refine invFix_sessPc' inv σ _ _ hs ?_
    intro k n h; exact ⟨n, h, rfl⟩
  | cRel t σ hs ho hp => exact invFix_cRel ib hlf inv σ hs _
  | wDone t hpc =>
    refine invFix_setPc inv t _ _ ?_ ?_
    · intro _ _ _ _ h; cases h
    · intro _ _ h; cases h

theorem InvFix.init (e0 : Nat) (inp : Inputs) (scripts : List (List Op)) :
    InvFix (init e0 inp scripts) := by
  constructor <;> simp [Phase.init, fullInputs]

theorem invFix_of_reachable {c : Cfg} {e0 : Nat} {inp : Inputs} {scripts : List (List Op)} {s : State}
    (hlf : c.lockFirst = true) (h : Reachable c (init e0 inp scripts) s) : InvBase c s ∧ InvFix s := by
  induction h with
  | init => exact ⟨InvBase.init c e0 inp scripts, InvFix.init e0 inp scripts⟩
  | step e _ hs ih =>
    have hr := stepR_of_step hs
    exact ⟨ih.1.step hr, ih.2.step ih.1 hlf hr⟩

end QbiceVerif.Phase
