/-
C13: the located collision event, flattened.  `Val.Located v t w st` carries the path; here its plain reading:
there ARE a hash-ordered collection `c₁` occurring inside `v` and a hash-ordered collection `c₂` occurring inside
`w`, of one entry type and one length, and a hasher state `st'`, such that the entry streams of `c₁` and `c₂`
(hashed from `st'`) are different multisets with equal sub-hash sums mod 2^128.
-/
import QbiceVerif.Lemmas.HashLocated

namespace QbiceVerif.Hash

mutual
/-- `Val.Sub c v`: the value `c` occurs inside `v` (at any depth, `v` itself included) -/
inductive Val.Sub (c : Val) : Val → Prop
  | refl : Val.Sub c c
  | some {v : Val} : Val.Sub c v → Val.Sub c (.some v)
  | ok {v : Val} : Val.Sub c v → Val.Sub c (.ok v)
  | err {v : Val} : Val.Sub c v → Val.Sub c (.err v)
  | wrap {v : Val} : Val.Sub c v → Val.Sub c (.wrap v)
  | list {vs : ValList} : ValList.SubAny c vs → Val.Sub c (.list vs)
  | tuple {vs : ValList} : ValList.SubAny c vs → Val.Sub c (.tuple vs)
  | variant {i : Nat} {vs : ValList} : ValList.SubAny c vs → Val.Sub c (.variant i vs)
inductive ValList.SubAny (c : Val) : ValList → Prop
  | head {v : Val} {vs : ValList} : Val.Sub c v → ValList.SubAny c (.cons v vs)
  | tail {v : Val} {vs : ValList} : ValList.SubAny c vs → ValList.SubAny c (.cons v vs)
end

theorem ValList.SubAny_of_mem {c : Val} : ∀ (ws : ValList) {w : Val}, w ∈ ws.toList → Val.Sub c w →
    ValList.SubAny c ws
  | .nil, _, hm, _ => by simp [ValList.toList] at hm
  | .cons x xs, w, hm, hs => by
    simp only [ValList.toList, List.mem_cons] at hm
    rcases hm with rfl | hm
    · exact .head hs
    · exact .tail (ValList.SubAny_of_mem xs hm hs)

section
variable {σ : Type} (absorb : σ → Bytes → σ) (finish : σ → Nat)

/-- the flattened event: a pair of hash-ordered collections, one inside `v`, one inside `w`, that collide -/
def CollisionInside (v w : Val) : Prop :=
  ∃ (t' : Ty) (c₁ c₂ : ValList) (st' : σ),
    Val.Sub (.list c₁) v ∧ Val.Sub (.list c₂) w ∧ c₁.length = c₂.length ∧
    SumCollision absorb finish st' (entryStreams absorb finish t' c₁ st') (entryStreams absorb finish t' c₂ st')

/-- the flattened event for two lists of siblings -/
def CollisionInsideAny (vs ws : ValList) : Prop :=
  ∃ (t' : Ty) (c₁ c₂ : ValList) (st' : σ),
    ValList.SubAny (.list c₁) vs ∧ ValList.SubAny (.list c₂) ws ∧ c₁.length = c₂.length ∧
    SumCollision absorb finish st' (entryStreams absorb finish t' c₁ st') (entryStreams absorb finish t' c₂ st')

theorem CollisionInside.map {v w v' w' : Val} (f : ∀ c, Val.Sub c v → Val.Sub c v')
    (g : ∀ c, Val.Sub c w → Val.Sub c w') : CollisionInside absorb finish v w → CollisionInside absorb finish v' w'
  | ⟨t', c₁, c₂, st', h1, h2, hl, hc⟩ => ⟨t', c₁, c₂, st', f _ h1, g _ h2, hl, hc⟩

theorem CollisionInsideAny.up {vs ws : ValList} {v' w' : Val} (f : ∀ c, ValList.SubAny c vs → Val.Sub c v')
    (g : ∀ c, ValList.SubAny c ws → Val.Sub c w') :
    CollisionInsideAny absorb finish vs ws → CollisionInside absorb finish v' w'
  | ⟨t', c₁, c₂, st', h1, h2, hl, hc⟩ => ⟨t', c₁, c₂, st', f _ h1, g _ h2, hl, hc⟩

mutual
theorem located_inside : ∀ (v : Val) (t : Ty) (w : Val) (st : σ),
    Val.Located absorb finish v t w st → CollisionInside absorb finish v w
  | .int _, _, _, _, h => by simp [Val.Located] at h
  | .bool _, _, _, _, h => by simp [Val.Located] at h
  | .char _, _, _, _, h => by simp [Val.Located] at h
  | .f32 _, _, _, _, h => by simp [Val.Located] at h
  | .f64 _, _, _, _, h => by simp [Val.Located] at h
  | .unit, _, _, _, h => by simp [Val.Located] at h
  | .str _, _, _, _, h => by simp [Val.Located] at h
  | .none, _, _, _, h => by simp [Val.Located] at h
  | .some v, t, w, st, h => by
    cases t <;> try (simp [Val.Located] at h; done)
    cases w <;> simp only [Val.Located] at h
    exact (located_inside v _ _ _ h).map absorb finish (fun _ => .some) (fun _ => .some)
  | .ok v, t, w, st, h => by
    cases t <;> try (simp [Val.Located] at h; done)
    cases w <;> simp only [Val.Located] at h
    exact (located_inside v _ _ _ h).map absorb finish (fun _ => .ok) (fun _ => .ok)
  | .err v, t, w, st, h => by
    cases t <;> try (simp [Val.Located] at h; done)
    cases w <;> simp only [Val.Located] at h
    exact (located_inside v _ _ _ h).map absorb finish (fun _ => .err) (fun _ => .err)
  | .wrap v, t, w, st, h => by
    cases t <;> try (simp [Val.Located] at h; done)
    cases w <;> simp only [Val.Located] at h
    exact (located_inside v _ _ _ h).map absorb finish (fun _ => .wrap) (fun _ => .wrap)
  | .tuple vs, t, w, st, h => by
    cases t <;> try (simp [Val.Located] at h; done)
    cases w <;> simp only [Val.Located] at h
    exact (locatedFields_inside vs _ _ _ h).up absorb finish (fun _ => .tuple) (fun _ => .tuple)
  | .list vs, t, w, st, h => by
    cases t with
    | seq t' =>
      cases w <;> simp only [Val.Located] at h
      exact (locatedAll_inside vs _ _ _ h.2).up absorb finish (fun _ => .list) (fun _ => .list)
    | array n t' =>
      cases w <;> simp only [Val.Located] at h
      exact (locatedAll_inside vs _ _ _ h.2).up absorb finish (fun _ => .list) (fun _ => .list)
    | uset t' =>
      cases w <;> simp only [Val.Located] at h
      rcases h with ⟨hl, hc | he⟩
      · exact ⟨_, _, _, _, .refl, .refl, hl, hc⟩
      · exact (locatedEntry_inside vs _ _ _ he).up absorb finish (fun _ => .list) (fun _ => .list)
    | umap k' v' =>
      cases w <;> simp only [Val.Located] at h
      rcases h with ⟨hl, hc | he⟩
      · exact ⟨_, _, _, _, .refl, .refl, hl, hc⟩
      · exact (locatedEntry_inside vs _ _ _ he).up absorb finish (fun _ => .list) (fun _ => .list)
    | _ => simp [Val.Located] at h
  | .variant i fs, t, w, st, h => by
    cases t <;> try (simp [Val.Located] at h; done)
    cases w <;> simp only [Val.Located] at h
    rename_i dw vars j gs
    obtain ⟨_, h⟩ := h
    cases hg : vars.get? i with
    | none => simp [hg] at h
    | some p =>
      obtain ⟨d, fts⟩ := p
      simp only [hg] at h
      exact (locatedFields_inside fs _ _ _ h).up absorb finish (fun _ => .variant) (fun _ => .variant)

theorem locatedAll_inside : ∀ (vs : ValList) (t : Ty) (ws : ValList) (st : σ),
    ValList.LocatedAll absorb finish vs t ws st → CollisionInsideAny absorb finish vs ws
  | .nil, _, _, _, h => by simp [ValList.LocatedAll] at h
  | .cons v vs, t, .nil, _, h => by simp [ValList.LocatedAll] at h
  | .cons v vs, t, .cons w ws, st, h => by
    simp only [ValList.LocatedAll] at h
    rcases h with h | ⟨_, h⟩
    · obtain ⟨t', c₁, c₂, st', h1, h2, hl, hc⟩ := located_inside v _ _ _ h
      exact ⟨t', c₁, c₂, st', .head h1, .head h2, hl, hc⟩
    · obtain ⟨t', c₁, c₂, st', h1, h2, hl, hc⟩ := locatedAll_inside vs _ _ _ h
      exact ⟨t', c₁, c₂, st', .tail h1, .tail h2, hl, hc⟩

theorem locatedFields_inside : ∀ (vs : ValList) (ts : TyList) (ws : ValList) (st : σ),
    ValList.LocatedFields absorb finish vs ts ws st → CollisionInsideAny absorb finish vs ws
  | .nil, _, _, _, h => by simp [ValList.LocatedFields] at h
  | .cons v vs, .nil, _, _, h => by simp [ValList.LocatedFields] at h
  | .cons v vs, .cons t ts, .nil, _, h => by simp [ValList.LocatedFields] at h
  | .cons v vs, .cons t ts, .cons w ws, st, h => by
    simp only [ValList.LocatedFields] at h
    rcases h with h | ⟨_, h⟩
    · obtain ⟨t', c₁, c₂, st', h1, h2, hl, hc⟩ := located_inside v _ _ _ h
      exact ⟨t', c₁, c₂, st', .head h1, .head h2, hl, hc⟩
    · obtain ⟨t', c₁, c₂, st', h1, h2, hl, hc⟩ := locatedFields_inside vs _ _ _ h
      exact ⟨t', c₁, c₂, st', .tail h1, .tail h2, hl, hc⟩

theorem locatedEntry_inside : ∀ (vs : ValList) (t : Ty) (ws : ValList) (st : σ),
    ValList.LocatedEntry absorb finish vs t ws st → CollisionInsideAny absorb finish vs ws
  | .nil, _, _, _, h => by simp [ValList.LocatedEntry] at h
  | .cons v vs, t, ws, st, h => by
    simp only [ValList.LocatedEntry] at h
    rcases h with ⟨w, hm, _, h⟩ | h
    · obtain ⟨t', c₁, c₂, st', h1, h2, hl, hc⟩ := located_inside v _ _ _ h
      exact ⟨t', c₁, c₂, st', .head h1, ValList.SubAny_of_mem ws hm h2, hl, hc⟩
    · obtain ⟨t', c₁, c₂, st', h1, h2, hl, hc⟩ := locatedEntry_inside vs _ _ _ h
      exact ⟨t', c₁, c₂, st', .tail h1, h2, hl, hc⟩
end

end

end QbiceVerif.Hash
