/-
Basic lemmas for the concurrent set-cache model `SetCacheConc`: the staging snapshot (sort by epoch, last
operation wins) computed per element, membership in what a fetch builds and in what the iterators yield.
-/
import QbiceVerif.Model.SetCacheConc
import QbiceVerif.Lemmas.CacheSet

namespace QbiceVerif.SetCacheConc
open QbiceVerif.SetCache

/-- the operations on `x`, in log order -/
def onX (l : List LogOp) (x : Nat) : List LogOp := l.filter (fun o => decide (o.x = x))

/-- epochs do not decrease along the list -/
def MonoL (l : List LogOp) : Prop := l.Pairwise (fun a b => a.epoch ≤ b.epoch)

theorem lastOf_pairs_onX (l : List LogOp) (x : Nat) : lastOf (pairs l) x = lastOf (pairs (onX l x)) x := by
  induction l with
  | nil => rfl
  | cons o rest ih =>
      simp only [onX, pairs] at ih
      by_cases h : o.x = x
      · have hf : onX (o :: rest) x = o :: onX rest x := by simp [onX, h]
        rw [hf]
        simp only [onX, pairs, List.map_cons, lastOf, ih]
      · have hf : onX (o :: rest) x = onX rest x := by simp [onX, h]
        rw [hf]
        simp only [onX, pairs, List.map_cons, lastOf, ← ih]
        cases lastOf (List.map (fun op => (op.x, op.ins)) rest) x <;> simp [h]

theorem mono_split (L : List LogOp) (k : Nat) (h : MonoL L) :
    L.filter (fun b => decide (b.epoch ≤ k)) ++ L.filter (fun b => decide (k < b.epoch)) = L := by
  induction L with
  | nil => rfl
  | cons b rest ih =>
      have hr : MonoL rest := (List.pairwise_cons.mp h).2
      have hb := (List.pairwise_cons.mp h).1
      by_cases hk : b.epoch ≤ k
      · have : ¬ k < b.epoch := by omega
        simp [List.filter_cons, hk, this]
        exact ih hr
      · have hk' : k < b.epoch := by omega
        have h1 : rest.filter (fun b => decide (b.epoch ≤ k)) = [] := by
          apply List.filter_eq_nil_iff.mpr
          intro a ha
          have := hb a ha
          simp; omega
        have h2 : rest.filter (fun b => decide (k < b.epoch)) = rest := by
          apply List.filter_eq_self.mpr
          intro a ha
          have := hb a ha
          simp; omega
        simp [List.filter_cons, hk, hk', h1, h2]

theorem onX_sortStep (acc : List LogOp) (a : LogOp) (x : Nat) :
    onX (sortStep acc a) x =
      (onX acc x).filter (fun b => decide (b.epoch ≤ a.epoch)) ++ (if a.x = x then [a] else []) ++
        (onX acc x).filter (fun b => decide (a.epoch < b.epoch)) := by
  simp only [onX, sortStep, List.filter_append, List.filter_cons, List.filter_filter]
  by_cases h : a.x = x
  · simp [h, Bool.and_comm]
  · simp [h, Bool.and_comm]

theorem onX_foldl_sortStep (l acc : List LogOp) (x : Nat) (h : MonoL (onX acc x ++ onX l x)) :
    onX (l.foldl sortStep acc) x = onX acc x ++ onX l x := by
  induction l generalizing acc with
  | nil => simp [onX]
  | cons a rest ih =>
      simp only [List.foldl_cons]
      by_cases hx : a.x = x
      · have hcons : onX (a :: rest) x = a :: onX rest x := by simp [onX, List.filter_cons, hx]
        rw [hcons] at h
        have hacc : MonoL (onX acc x) := (List.pairwise_append.mp h).1
        have hle : ∀ b ∈ onX acc x, b.epoch ≤ a.epoch := fun b hb =>
          (List.pairwise_append.mp h).2.2 b hb a (List.mem_cons_self)
        have hstep : onX (sortStep acc a) x = onX acc x ++ [a] := by
          rw [onX_sortStep]
          have h1 : (onX acc x).filter (fun b => decide (b.epoch ≤ a.epoch)) = onX acc x :=
            List.filter_eq_self.mpr (fun b hb => by simp [hle b hb])
          have h2 : (onX acc x).filter (fun b => decide (a.epoch < b.epoch)) = [] :=
            List.filter_eq_nil_iff.mpr (fun b hb => by have := hle b hb; simp; omega)
          simp [h1, h2, hx]
        rw [ih (sortStep acc a) (by rw [hstep]; simpa using h), hstep, hcons]
        simp
      · have hcons : onX (a :: rest) x = onX rest x := by simp [onX, List.filter_cons, hx]
        rw [hcons] at h
        have hacc : MonoL (onX acc x) := (List.pairwise_append.mp h).1
        have hstep : onX (sortStep acc a) x = onX acc x := by
          rw [onX_sortStep]
          simp only [hx, if_false, List.append_nil]
          exact mono_split _ _ hacc
        rw [ih (sortStep acc a) (by rw [hstep]; exact h), hstep, hcons]

theorem onX_sortLog (l : List LogOp) (x : Nat) (h : MonoL (onX l x)) : onX (sortLog l) x = onX l x := by
  have := onX_foldl_sortStep l [] x (by simpa [onX] using h)
  simpa [sortLog, onX] using this

/-- the staging snapshot, element by element: the last operation on the element in the log decides -/
theorem snapshot_spec (log : List LogOp) (x : Nat) (h : MonoL (onX log x)) :
    (x ∈ (snapshotOf log).added ↔ lastOf (pairs log) x = some true) ∧
    (x ∈ (snapshotOf log).removed ↔ lastOf (pairs log) x = some false) := by
  have hl : lastOf (pairs (sortLog log)) x = lastOf (pairs log) x := by
    rw [lastOf_pairs_onX, onX_sortLog log x h, ← lastOf_pairs_onX]
  have := mem_snapshot_fixed (sortLog log) ⟨[], []⟩ x
  unfold snapshotOf
  rw [hl] at this
  cases hh : lastOf (pairs log) x with
  | none => simp [hh] at this; simp [this]
  | some b => simp [hh] at this; cases b <;> simp_all

/-- membership in the set as seen through a store image and a staging snapshot -/
def ov (sc : List Nat) (sn : Snapshot) (x : Nat) : Prop := x ∈ sn.added ∨ (x ∈ sc ∧ x ∉ sn.removed)

def snapOk (sn : Snapshot) : Prop := ∀ x, x ∈ sn.added → x ∉ sn.removed

theorem mem_streamIter (db : List Nat) (sn : Snapshot) (x : Nat) : x ∈ streamIter db sn ↔ ov db sn x := by
  simp [streamIter, ov]; grind

theorem mem_spillOut (sc : List Nat) (k : Nat) (sn : Snapshot) (x : Nat) :
    x ∈ spillOut (sc.take k) (sc.drop k) sn ↔ ov sc sn x := by
  have hdb : x ∈ sc ↔ x ∈ sc.take k ∨ x ∈ sc.drop k := by
    rw [← List.mem_append, List.take_append_drop]
  simp [spillOut, ov, hdb]; grind

theorem mem_built (sc : List Nat) (sn : Snapshot) (hs : snapOk sn) (x : Nat) :
    x ∈ sn.removed.foldl (fun acc y => sremove y acc) (sn.added.foldl (fun acc y => sinsert y acc) sc) ↔ ov sc sn x := by
  rw [mem_foldl_sremove, mem_foldl_sinsert]
  have := hs x
  simp only [ov]; grind

theorem mem_applyTo (S : List Nat) (x y : Nat) (ins : Bool) :
    y ∈ applyTo S x ins ↔ (if y = x then ins = true else y ∈ S) := by
  unfold applyTo
  cases ins <;> simp [mem_sinsert, mem_sremove] <;> grind

theorem lastOn_iff (ops : List (Nat × Bool)) (x : Nat) : lastOn ops x = true ↔ lastOf ops x ≠ none := by
  rw [lastOf_ne_none_iff]
  simp [lastOn]

end QbiceVerif.SetCacheConc
