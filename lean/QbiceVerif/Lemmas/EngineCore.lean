/-
Lemmas about the core engine model, part 1: definitions of the invariant, the from-scratch
reference (`cur`, on the committed inputs `inputsOf` and the external values `extOf` = pinned value
of an external key computed so far (`pinsOf`), value of its executor on the current world
otherwise), `Settled`, `Frame`, and their basic theory.
-/
import QbiceVerif.Model.EngineCore
namespace Qbice.Core

/-- `omega` that sees through the `Key := Nat` abbreviation -/
macro "komega" : tactic => `(tactic| ((try unfold Key at *); omega))

/-- the committed inputs of a state -/
def inputsOf (s : St) (k : Key) : Option Val :=
  match s.nodes k with
  | some n => if n.kind = .input then some n.value else none
  | none => none

/-- the external keys computed so far, with the value their executor returned at the first demand /
    the last refresh -/
def pinsOf (s : St) (k : Key) : Option Val :=
  match s.nodes k with
  | some n => if n.kind = .external then some n.value else none
  | none => none

/-- reference value of the external keys: the pinned value of a key computed so far, what the
    executor returns on the world `w` for a key never demanded -/
def extRef (p : Program) (pins : Key → Option Val) (w : Key → Val) (k : Key) : Option Val :=
  match pins k with
  | some v => some v
  | none =>
    match p[k]? with
    | some d => some (d.ext w)
    | none => none

/-- the external values of a state: "the world as of first demand / last refresh" -/
def extOf (p : Program) (s : St) : Key → Option Val := extRef p (pinsOf s) s.world

/-- from-scratch value of `k` on the committed inputs and external values of `s` -/
def cur (p : Program) (s : St) (k : Key) : Option Val :=
  evalSpec p (inputsOf s) (extOf p s) (k + 1) k

/-- Hoare-style result predicate: an `ok` result satisfies `P`, an error is never `outOfFuel` -/
def Sat {α : Type} (r : Except Err α) (P : α → Prop) : Prop :=
  match r with
  | .ok a => P a
  | .error e => e ≠ .outOfFuel

theorem Sat.ok {α : Type} {r : Except Err α} {P : α → Prop} {a : α} (h : Sat r P) (e : r = .ok a) : P a := by
  subst e; exact h

theorem Sat.not_oof {α : Type} {r : Except Err α} {P : α → Prop} (h : Sat r P) : r ≠ .error .outOfFuel := by
  intro e; subst e; exact h rfl

theorem Sat.mono {α : Type} {r : Except Err α} {P Q : α → Prop} (h : Sat r P) (i : ∀ a, P a → Q a) : Sat r Q := by
  cases r with
  | ok a => exact i a h
  | error e => exact h

/-- a recorded trace determines the result of the executor -/
def TraceOK (prog : Prog) (deps : List (Key × Val)) (v : Val) : Prop :=
  ∀ rec : Key → Option Val, (∀ d o, (d, o) ∈ deps → rec d = some o) → evalProg rec prog = some v

/-- `k` has a node all of whose recorded edges are clean, with current observations, recursively -/
inductive Settled (s : St) : Key → Prop
  | mk (k : Key) (n : Node) : s.nodes k = some n →
      (∀ d o, (d, o) ∈ n.deps → s.dirty k d = false) →
      (∀ d o, (d, o) ∈ n.deps → ∃ nd, s.nodes d = some nd ∧ nd.value = o) →
      (∀ d o, (d, o) ∈ n.deps → Settled s d) → Settled s k

def Verified (s : St) (x : Key) : Prop := ∃ n, s.nodes x = some n ∧ n.lastVerified = s.epoch

/-- an execution of `x` from state `s` is justified: never computed, or a recorded dependency has
    a different from-scratch value now -/
def Just (p : Program) (s : St) (x : Key) : Prop :=
  ¬ Verified s x ∧
    (s.nodes x = none ∨ ∃ n d o, s.nodes x = some n ∧ (d, o) ∈ n.deps ∧ cur p s d ≠ some o)

structure Inv (p : Program) (s : St) : Prop where
  kind : ∀ k n, s.nodes k = some n →
    ∃ d, p[k]? = some d ∧ d.kind = n.kind ∧ (n.kind ≠ .normal → n.deps = [])
  down : ∀ k n, s.nodes k = some n → ∀ d o, (d, o) ∈ n.deps → d < k
  nodup : ∀ k n, s.nodes k = some n → (n.deps.map (·.1)).Nodup
  trace : ∀ k n d, s.nodes k = some n → p[k]? = some d → n.kind = .normal →
    TraceOK d.prog n.deps n.value
  stamp : ∀ k n, s.nodes k = some n → n.lastVerified ≤ s.epoch
  verified_clean : ∀ k n, s.nodes k = some n → n.lastVerified = s.epoch →
    ∀ d o, (d, o) ∈ n.deps → s.dirty k d = false
  clean_settled : ∀ k n, s.nodes k = some n → ∀ d o, (d, o) ∈ n.deps → s.dirty k d = false →
    (∃ nd, s.nodes d = some nd ∧ nd.value = o) ∧ Settled s d

structure Frame (p : Program) (s s' : St) : Prop where
  epoch : s'.epoch = s.epoch
  dirty : ∀ a b, s'.dirty a b = true → s.dirty a b = true
  inputs : inputsOf s' = inputsOf s
  ext : extOf p s' = extOf p s
  world : s'.world = s.world
  keep : ∀ x n, Settled s x → s.nodes x = some n →
    ∃ n', s'.nodes x = some n' ∧ n'.value = n.value ∧ n'.deps = n.deps
  same_or_verified : ∀ x, s'.nodes x = s.nodes x ∨ Verified s' x
  log : ∃ new, s'.log = s.log ++ new ∧ new.Nodup ∧ (∀ x, x ∈ new → Just p s x ∧ Verified s' x) ∧
    ∀ x, s.nodes x = none → s'.nodes x ≠ none → x ∈ new

def Touches (b : Nat) (s s' : St) : Prop :=
  ∀ x, b ≤ x → s'.nodes x = s.nodes x ∧ ∀ y, s'.dirty x y = s.dirty x y

-- ------------------------------------------------------------------ the specification

theorem allVals_congr (r₁ r₂ : Key → Option Val) (ks : List Key) (h : ∀ k, k ∈ ks → r₁ k = r₂ k) :
    allVals r₁ ks = allVals r₂ ks := by
  induction ks with
  | nil => rfl
  | cons d rest ih =>
    simp only [allVals, h d (List.mem_cons_self ..),
      ih (fun k hk => h k (List.mem_cons_of_mem _ hk))]

theorem evalProg_congr_below (r₁ r₂ : Key → Option Val) (b : Nat) (h : ∀ k, k < b → r₁ k = r₂ k)
    (prog : Prog) (hb : prog.Below b) : evalProg r₁ prog = evalProg r₂ prog := by
  induction prog with
  | ret v => rfl
  | ask d cont ih =>
    obtain ⟨hd, hc⟩ := hb
    simp only [evalProg, h d hd]
    cases r₂ d with
    | none => rfl
    | some v => exact ih v (hc v)
  | askAll ks cont ih =>
    obtain ⟨hd, hc⟩ := hb
    simp only [evalProg, allVals_congr r₁ r₂ ks (fun k hk => h k (hd k hk))]
    cases allVals r₂ ks with
    | none => rfl
    | some vs => exact ih vs (hc vs)

theorem evalSpec_fuel_stable {p : Program} (wf : WF p) (i e : Key → Option Val) :
    ∀ k f, k + 1 ≤ f → evalSpec p i e f k = evalSpec p i e (k + 1) k := by
  intro k
  induction k using Nat.strongRecOn with
  | _ k ih =>
    intro f hf
    obtain ⟨f', rfl⟩ : ∃ f', f = f' + 1 := ⟨f - 1, by omega⟩
    simp only [evalSpec]
    cases hp : p[k]? with
    | none => rfl
    | some d =>
      simp only
      cases hi : d.kind with
      | input => rfl
      | external => rfl
      | normal =>
        simp only
        apply evalProg_congr_below _ _ k _ _ (wf k d hp hi)
        intro j hj
        rw [ih j hj f' (by omega), ih j hj k (by omega)]

theorem cur_congr {p : Program} {s s' : St} (h : inputsOf s' = inputsOf s)
    (he : extOf p s' = extOf p s) : cur p s' = cur p s := by
  funext k; simp [cur, h, he]

-- ------------------------------------------------------------------ Settled

theorem Settled.node {s : St} {k : Key} (h : Settled s k) : ∃ n, s.nodes k = some n := by
  cases h with
  | mk _ n hn _ _ _ => exact ⟨n, hn⟩

theorem Settled.transfer {s s' : St} {x : Key} (h : Settled s x)
    (hn : ∀ y n, Settled s y → s.nodes y = some n →
      ∃ n', s'.nodes y = some n' ∧ n'.value = n.value ∧ n'.deps = n.deps)
    (hd : ∀ y d, Settled s y → s'.dirty y d = true → s.dirty y d = true) : Settled s' x := by
  induction h with
  | mk k n hk hclean hval hsub ih =>
    have hs : Settled s k := Settled.mk k n hk hclean hval hsub
    obtain ⟨n', hn', hv', hd'⟩ := hn k n hs hk
    refine Settled.mk k n' hn' ?_ ?_ ?_
    · intro d o hm
      rw [hd'] at hm
      have := hclean d o hm
      cases hx : s'.dirty k d with
      | false => rfl
      | true => rw [hd k d hs hx] at this; cases this
    · intro d o hm
      rw [hd'] at hm
      obtain ⟨nd, hnd, hvd⟩ := hval d o hm
      obtain ⟨nd', hnd', hvd', _⟩ := hn d nd (hsub d o hm) hnd
      exact ⟨nd', hnd', by rw [hvd', hvd]⟩
    · intro d o hm
      rw [hd'] at hm
      exact ih d o hm

theorem verified_settled {p : Program} {s : St} (inv : Inv p s) {k : Key} {n : Node}
    (hn : s.nodes k = some n) (hv : n.lastVerified = s.epoch) : Settled s k := by
  refine Settled.mk k n hn (inv.verified_clean k n hn hv) ?_ ?_
  · intro d o hm
    exact (inv.clean_settled k n hn d o hm (inv.verified_clean k n hn hv d o hm)).1
  · intro d o hm
    exact (inv.clean_settled k n hn d o hm (inv.verified_clean k n hn hv d o hm)).2

theorem settled_correct {p : Program} (wf : WF p) {s : St} (inv : Inv p s) {k : Key}
    (h : Settled s k) : ∃ n, s.nodes k = some n ∧ cur p s k = some n.value := by
  induction h with
  | mk k n hk hclean hval hsub ih =>
    refine ⟨n, hk, ?_⟩
    obtain ⟨d, hp, hki, hnd⟩ := inv.kind k n hk
    simp only [cur, evalSpec, hp]
    cases hi : n.kind with
    | input =>
      rw [hi] at hki
      simp [hki, inputsOf, hk, hi]
    | external =>
      rw [hi] at hki
      simp [hki, extOf, extRef, pinsOf, hk, hi]
    | normal =>
      rw [hi] at hki
      simp only [hki]
      apply inv.trace k n d hk hp hi
      intro d' o hm
      obtain ⟨nd, hnd, hcur⟩ := ih d' o hm
      obtain ⟨nd', hnd', hv'⟩ := hval d' o hm
      rw [hnd] at hnd'; cases hnd'
      have hlt : d' < k := inv.down k n hk d' o hm
      rw [evalSpec_fuel_stable wf _ _ d' k hlt]
      rw [← hv']; exact hcur

theorem just_not_settled {p : Program} (wf : WF p) {s : St} (inv : Inv p s) {k : Key}
    (h : Just p s k) : ¬ Settled s k := by
  intro hs
  obtain ⟨_, h | ⟨n, d, o, hn, hm, hne⟩⟩ := h
  · obtain ⟨n, hn⟩ := hs.node; rw [h] at hn; cases hn
  · cases hs with
    | mk _ n' hn' hclean hval hsub =>
      rw [hn] at hn'; cases hn'
      obtain ⟨nd, hnd, hv⟩ := hval d o hm
      obtain ⟨nd', hnd', hc⟩ := settled_correct wf inv (hsub d o hm)
      rw [hnd] at hnd'; cases hnd'
      exact hne (by rw [hc, hv])

-- ------------------------------------------------------------------ Verified / Just / Frame

/-- the `log` clause of `Frame` for a step that executes nothing and creates no node -/
theorem Frame.log_nil {p : Program} {s s' : St} (hl : s'.log = s.log)
    (hn : ∀ x, s.nodes x = none → s'.nodes x = none) :
    ∃ new, s'.log = s.log ++ new ∧ new.Nodup ∧ (∀ x, x ∈ new → Just p s x ∧ Verified s' x) ∧
      ∀ x, s.nodes x = none → s'.nodes x ≠ none → x ∈ new :=
  ⟨[], by simp [hl], by simp, fun _ h => (by cases h), fun x h h' => absurd (hn x h) h'⟩

theorem Frame.refl (p : Program) (s : St) : Frame p s s where
  epoch := rfl
  dirty := fun _ _ h => h
  inputs := rfl
  ext := rfl
  world := rfl
  keep := fun _ n _ h => ⟨n, h, rfl, rfl⟩
  same_or_verified := fun _ => Or.inl rfl
  log := ⟨[], by simp, by simp, fun _ h => (by cases h), fun _ h h' => absurd h h'⟩

theorem Frame.settled {p : Program} {s s' : St} (f : Frame p s s') {x : Key} (h : Settled s x) :
    Settled s' x :=
  h.transfer (fun y n hy hn => f.keep y n hy hn) (fun y d _ hd => f.dirty y d hd)

theorem Frame.clean {p : Program} {s s' : St} (f : Frame p s s') {a b : Key}
    (h : s.dirty a b = false) : s'.dirty a b = false := by
  cases hx : s'.dirty a b with
  | false => rfl
  | true => rw [f.dirty a b hx] at h; cases h

theorem Frame.verified {p : Program} {s s' : St} (f : Frame p s s') {x : Key} (h : Verified s x) :
    Verified s' x := by
  cases f.same_or_verified x with
  | inl e =>
    obtain ⟨n, hn, hv⟩ := h
    exact ⟨n, by rw [e, hn], by rw [hv, f.epoch]⟩
  | inr v => exact v

theorem Frame.cur {p : Program} {s s' : St} (f : Frame p s s') : cur p s' = cur p s :=
  cur_congr f.inputs f.ext

theorem Frame.just {p : Program} {s s' : St} (f : Frame p s s') {x : Key} (h : Just p s' x) :
    Just p s x := by
  obtain ⟨hnv, h⟩ := h
  have e : s'.nodes x = s.nodes x := by
    cases f.same_or_verified x with
    | inl e => exact e
    | inr v => exact absurd v hnv
  refine ⟨fun hv => hnv (f.verified hv), ?_⟩
  rw [e, f.cur] at h
  exact h

theorem Frame.trans {p : Program} {s s' s'' : St} (f : Frame p s s') (g : Frame p s' s'') :
    Frame p s s'' where
  epoch := by rw [g.epoch, f.epoch]
  dirty := fun a b h => f.dirty a b (g.dirty a b h)
  inputs := by rw [g.inputs, f.inputs]
  ext := by rw [g.ext, f.ext]
  world := by rw [g.world, f.world]
  keep := by
    intro x n hs hn
    obtain ⟨n', hn', hv', hd'⟩ := f.keep x n hs hn
    obtain ⟨n'', hn'', hv'', hd''⟩ := g.keep x n' (f.settled hs) hn'
    exact ⟨n'', hn'', by rw [hv'', hv'], by rw [hd'', hd']⟩
  same_or_verified := by
    intro x
    cases g.same_or_verified x with
    | inr v => exact Or.inr v
    | inl e =>
      cases f.same_or_verified x with
      | inl e' => exact Or.inl (by rw [e, e'])
      | inr v => exact Or.inr (g.verified v)
  log := by
    obtain ⟨n1, h1, nd1, j1, b1⟩ := f.log
    obtain ⟨n2, h2, nd2, j2, b2⟩ := g.log
    refine ⟨n1 ++ n2, by rw [h2, h1, List.append_assoc], ?_, ?_, ?_⟩
    · rw [List.nodup_append]
      refine ⟨nd1, nd2, ?_⟩
      intro a ha b hb hab
      subst hab
      exact (j2 a hb).1.1 (j1 a ha).2
    · intro x hx
      rw [List.mem_append] at hx
      cases hx with
      | inl hx => exact ⟨(j1 x hx).1, g.verified (j1 x hx).2⟩
      | inr hx => exact ⟨f.just (j2 x hx).1, (j2 x hx).2⟩
    · intro x hx hx''
      rw [List.mem_append]
      cases hx' : s'.nodes x with
      | none => exact Or.inr (b2 x hx' hx'')
      | some n' => exact Or.inl (b1 x hx (by rw [hx']; simp))

theorem Touches.refl (b : Nat) (s : St) : Touches b s s := fun _ _ => ⟨rfl, fun _ => rfl⟩

theorem Touches.trans {b : Nat} {s s' s'' : St} (f : Touches b s s') (g : Touches b s' s'') :
    Touches b s s'' := by
  intro x hx
  obtain ⟨f1, f2⟩ := f x hx
  obtain ⟨g1, g2⟩ := g x hx
  exact ⟨by rw [g1, f1], fun y => by rw [g2, f2]⟩

theorem Touches.mono {b b' : Nat} {s s' : St} (f : Touches b s s') (h : b ≤ b') : Touches b' s s' :=
  fun x hx => f x (Nat.le_trans h hx)

end Qbice.Core
