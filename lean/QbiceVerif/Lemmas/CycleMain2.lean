/-
The main induction (continued): `queryFor` meets its specification for every fuel that covers the
remaining depth.
-/
import QbiceVerif.Lemmas.CycleMain
namespace Qbice.Cycle

theorem finish_post {p : Program} {st st3 : St} {k : Key} {caller : Option Key} {v : Val}
    (hinv3 : Inv p st3) (hsh : shape st3.stack = shape (regTop k st.stack))
    (hco : CallerOK caller st.stack) (hext : ∃ new, st3.memo = new ++ st.memo)
    (hval : valOf st3.memo k = some v) (hinv23 : Inv2 p st3) :
    Post p st k (finish caller v st3) st3 := by
  cases caller with
  | none =>
    cases hst : st.stack with
    | cons t r => rw [hst] at hco; exact absurd hco (by simp [CallerOK])
    | nil =>
      rw [hst] at hsh
      have hnil : st3.stack = [] := by
        cases h3 : st3.stack with
        | nil => rfl
        | cons _ _ => rw [h3] at hsh; simp [shape, regTop] at hsh
      have hfin : finish none v st3 = .value v := by simp [finish, inSccOf]
      rw [hfin]
      refine ⟨hinv3, hext, by rw [hst]; exact hsh, ?_, ?_, hinv23⟩
      · intro v' hv'
        injection hv' with hv'; subst hv'
        exact ⟨by rw [hnil]; intro f hf; simp at hf, hval⟩
      · intro h; cases h
  | some c =>
    cases hst : st.stack with
    | nil => rw [hst] at hco; exact absurd hco (by simp [CallerOK])
    | cons top r =>
      rw [hst] at hco hsh
      simp only [CallerOK] at hco
      simp only [regTop] at hsh
      obtain ⟨t, r', hs3, htk, _, _⟩ := shape_cons_inv hsh
      simp only at htk
      have hfind : findFrame c st3.stack = some t := by
        rw [hs3]; simp [findFrame, htk, hco]
      cases hm : t.inScc with
      | true =>
        have hfin : finish (some c) v st3 = .cyclic := by simp [finish, inSccOf, hfind, hm]
        rw [hfin]
        refine ⟨hinv3, hext, by rw [hst]; exact hsh, ?_, ?_, hinv23⟩
        · intro v' hv'; cases hv'
        · intro _; exact ⟨t, r', hs3, hm⟩
      | false =>
        have hfin : finish (some c) v st3 = .value v := by simp [finish, inSccOf, hfind, hm]
        rw [hfin]
        refine ⟨hinv3, hext, by rw [hst]; exact hsh, ?_, ?_, hinv23⟩
        · intro v' hv'
          injection hv' with hv'; subst hv'
          have := hinv3.marks
          rw [hs3] at this ⊢
          exact ⟨this.noMarks_of_head hm, hval⟩
        · intro h; cases h

theorem getElem?_of_lt {p : Program} {k : Key} (h : k < p.length) : ∃ nd, p[k]? = some nd :=
  ⟨p[k], List.getElem?_eq_getElem h⟩

theorem afterExit_spec (p : Program) (wf : WFProgram p) (fuel : Nat)
    (IH : ∀ k caller st, Inv p st → Inv2 p st → NoMarks st.stack → CallerOK caller st.stack → k < p.length →
      (∀ top r, st.stack = top :: r → MayAsk (progOf p top.key) k) →
      (∀ top r, st.stack = top :: r → Reaches (valOf st.memo) (progOf p top.key) k) →
      p.length + 1 ≤ fuel + st.stack.length →
      ∃ r st', queryFor p fuel k caller st = .ok (r, st') ∧ Post p st k r st')
    (k : Key) (caller : Option Key) (st : St) (hinv : Inv p st) (hinv2 : Inv2 p st) (nm : NoMarks st.stack)
    (hco : CallerOK caller st.stack) (hk : k < p.length)
    (hask : ∀ top r, st.stack = top :: r → MayAsk (progOf p top.key) k)
    (hreach : ∀ top r, st.stack = top :: r → Reaches (valOf st.memo) (progOf p top.key) k)
    (hfuel : p.length + 1 ≤ (fuel + 1) + st.stack.length) (hks : k ∉ keys st.stack) :
    ∃ r st', afterExit p fuel k caller { st with stack := regTop k st.stack } = .ok (r, st') ∧
      Post p st k r st' := by
  cases hfd : findDone k st.memo with
  | some d =>
    have hdm := findDone_some hfd
    have hkm : k ∈ mkeys st.memo := by rw [← hdm.2]; exact mem_mkeys_of_mem hdm.1
    have hinv' : Inv p { st with stack := regTop k st.stack } := by
      cases hst : st.stack with
      | nil =>
        have : ({ st with stack := regTop k [] } : St) = st := by
          cases st; simp only [regTop]; simp at hst; rw [hst]
        rw [this]; exact hinv
      | cons top r =>
        rw [← hst]
        exact inv_reg_hit hinv nm hst hkm (hask top r hst)
    have hEq : afterExit p fuel k caller { st with stack := regTop k st.stack }
        = .ok (finish caller d.val { st with stack := regTop k st.stack }, { st with stack := regTop k st.stack }) := by
      simp only [afterExit, hfd]
    exact ⟨_, _, hEq, finish_post (st := st) hinv' rfl hco ⟨[], rfl⟩ (by simp [valOf, hfd]) (inv2_reg hinv2 k)⟩
  | none =>
    have hkm : k ∉ mkeys st.memo := findDone_none_iff.1 hfd
    obtain ⟨nd, hnd⟩ := getElem?_of_lt hk
    obtain ⟨hinv1, nm1⟩ := inv_push hinv nm hks hkm hk hask
    have hinv21 := inv2_push hinv2 nm hreach
    have hsub : ∀ x, MayAsk nd.prog x → MayAsk (progOf p k) x := by
      intro x hx; rw [progOf_eq hnd]; exact hx
    obtain ⟨ran, st2, top', rest', new, hrun, hinv2', hinv22, hnew, hs2, htk, hrest, _, hdone, habort⟩ :=
      runProg_spec p fuel k (fun k' st' a a2 b c d e e2 f => IH k' (some k) st' a a2 b c d e e2 f) nd.prog (wf k nd hnd) hsub
        { st with stack := { key := k, callees := [], inScc := false } :: regTop k st.stack }
        { key := k, callees := [], inScc := false } (regTop k st.stack) hinv1 hinv21 nm1 rfl rfl
        (fun tbl _ t rr => by rw [progOf_eq hnd]; exact rr)
        (by simp only [List.length_cons, length_regTop]; omega)
    simp only at hnew
    have hfind : findFrame k st2.stack = some top' := by rw [hs2]; simp [findFrame, htk]
    have hfilter : st2.stack.filter (fun g => g.key != k) = rest' := by
      rw [hs2, ← htk]
      exact filter_head_key (by rw [← hs2]; exact hinv2'.nodup_keys)
    cases hm : top'.inScc with
    | true =>
      let d : Done := { key := k, val := nd.dflt, marked := true, reads := top'.callees }
      have hinv3 : Inv p { stack := rest', memo := d :: st2.memo } :=
        inv_pop hinv2' hs2 d htk.symm rfl hm.symm (fun _ => (dfltOf_eq hnd).symm) (fun h => by cases h)
      have hinv23 : Inv2 p { stack := rest', memo := d :: st2.memo } :=
        inv2_pop hinv22 hinv2' hs2 d htk.symm hm.symm (fun _ => (dfltOf_eq hnd).symm) (fun h => by cases h)
      have hEq : afterExit p fuel k caller { st with stack := regTop k st.stack }
          = .ok (finish caller nd.dflt { stack := rest', memo := d :: st2.memo }, { stack := rest', memo := d :: st2.memo }) := by
        simp only [afterExit, hfd, hnd, hrun, hfind, hm, if_true, hfilter, d]
      exact ⟨_, _, hEq, finish_post (st := st) hinv3 hrest hco ⟨d :: new, by simp [hnew]⟩ (by simp [valOf, findDone, d]) hinv23⟩
    | false =>
      cases ran with
      | aborted => rw [habort rfl] at hm; cases hm
      | done v =>
        obtain ⟨_, hev, hasks⟩ := hdone v rfl
        let d : Done := { key := k, val := v, marked := false, reads := top'.callees }
        have hinv3 : Inv p { stack := rest', memo := d :: st2.memo } :=
          inv_pop hinv2' hs2 d htk.symm rfl hm.symm (fun h => by cases h)
            (fun _ => ⟨by rw [progOf_eq hnd]; exact hev, by rw [progOf_eq hnd]; exact hasks⟩)
        have hinv23 : Inv2 p { stack := rest', memo := d :: st2.memo } :=
          inv2_pop hinv22 hinv2' hs2 d htk.symm hm.symm (fun h => by cases h)
            (fun _ => by rw [progOf_eq hnd]; exact hev)
        have hEq : afterExit p fuel k caller { st with stack := regTop k st.stack }
            = .ok (finish caller v { stack := rest', memo := d :: st2.memo }, { stack := rest', memo := d :: st2.memo }) := by
          simp only [afterExit, hfd, hnd, hrun, hfind, hm, Bool.false_eq_true, if_false, hfilter, d]
        exact ⟨_, _, hEq, finish_post (st := st) hinv3 hrest hco ⟨d :: new, by simp [hnew]⟩ (by simp [valOf, findDone, d]) hinv23⟩

/-- **Main lemma.**  From a state that satisfies the invariant and carries no marks, with the caller
    on top of the stack, `queryFor` succeeds with any fuel covering the remaining depth. -/
theorem queryFor_spec (p : Program) (wf : WFProgram p) : ∀ (fuel : Nat) (k : Key) (caller : Option Key) (st : St),
    Inv p st → Inv2 p st → NoMarks st.stack → CallerOK caller st.stack → k < p.length →
    (∀ top r, st.stack = top :: r → MayAsk (progOf p top.key) k) →
    (∀ top r, st.stack = top :: r → Reaches (valOf st.memo) (progOf p top.key) k) →
    p.length + 1 ≤ fuel + st.stack.length →
    ∃ r st', queryFor p fuel k caller st = .ok (r, st') ∧ Post p st k r st' := by
  intro fuel
  induction fuel with
  | zero =>
    intro k caller st hinv _ _ _ _ _ _ hfuel
    have := hinv.stack_length_le
    omega
  | succ fuel ih =>
    intro k caller st hinv hinv2 nm hco hk hask hreach hfuel
    rw [queryFor_succ]
    cases caller with
    | none =>
      cases hst : st.stack with
      | cons t r => rw [hst] at hco; exact absurd hco (by simp [CallerOK])
      | nil =>
        have hreg : ({ st with stack := regTop k st.stack } : St) = st := by
          cases st; simp at hst; simp [hst, regTop]
        have hks : k ∉ keys st.stack := by rw [hst]; simp [keys]
        have hff : findFrame k st.stack = none := findFrame_none_iff.2 hks
        obtain ⟨r, st', h1, h2⟩ := afterExit_spec p wf fuel ih k none st hinv hinv2 nm hco hk hask hreach hfuel hks
        rw [hreg] at h1
        refine ⟨r, st', ?_, h2⟩
        dsimp only
        rw [hff]
        exact h1
    | some c =>
      cases hst : st.stack with
      | nil => rw [hst] at hco; exact absurd hco (by simp [CallerOK])
      | cons top r =>
        have hck : top.key = c := by rw [hst] at hco; exact hco
        have hreg : register c k (top :: r) = regTop k st.stack := by
          rw [hst, ← hck]
          exact register_eq_regTop k (by rw [← hst]; exact hinv.nodup_keys)
        dsimp only
        rw [hreg]
        cases hff : findFrame k (regTop k st.stack) with
        | none =>
          have hks : k ∉ keys st.stack := by
            rw [← keys_regTop k]; exact findFrame_none_iff.1 hff
          simp only
          exact afterExit_spec p wf fuel ih k (some c) st hinv hinv2 nm hco hk hask hreach hfuel hks
        | some f0 =>
          have hks : k ∈ keys st.stack := by
            rw [← keys_regTop k, ← findFrame_isSome_iff, hff]; rfl
          obtain ⟨s', hcc, hinv', hsh, hhead⟩ := inv_mark hinv nm hst hks (hask top r hst)
          have hinv2' := inv2_mark hinv2 hinv nm hst hks (hreach top r hst) s' hcc
          rw [hck] at hcc hinv' hsh hhead hinv2'
          simp only [hcc]
          refine ⟨.cyclic, _, rfl, hinv', ⟨[], rfl⟩, hsh, ?_, fun _ => hhead, hinv2'⟩
          intro v hv; cases hv

end Qbice.Cycle
