/-
Slice 4 of the generated universe (Gen/TypeIdTable.lean): every type has an id and the id keys
ascend strictly from `sliceBound4` to below `sliceBound5`.  A finite table, proved whole by kernel
evaluation; one module per slice so that lake checks the slices in parallel.
-/
import QbiceVerif.Gen.TypeIdTable

namespace QbiceVerif.TypeId
open Gen

theorem slice4_ok : sliceCheck ctorTable sliceBound4 slice4 = some sliceBound5 := by
  decide +kernel

end QbiceVerif.TypeId
