/-
Lemmas about the core engine model, part 2: elementary state updates preserve the invariant;
specifications of `repairDeps`, `runProg`, `execute`, and the main induction for `query`.
-/
import QbiceVerif.Lemmas.EngineCore
namespace Qbice.Core

-- ------------------------------------------------------------------ small list facts

theorem keys_nodup_unique {l : List (Key × Val)} (h : (l.map (·.1)).Nodup) {d : Key} {o o' : Val}
    (h1 : (d, o) ∈ l) (h2 : (d, o') ∈ l) : o = o' := by
  induction l with
  | nil => cases h1
  | cons e rest ih =>
    simp only [List.map_cons, List.nodup_cons, List.mem_map, not_exists, not_and] at h
    obtain ⟨hne, hnd⟩ := h
    simp only [List.mem_cons] at h1 h2
    cases h1 with
    | inl e1 =>
      cases h2 with
      | inl e2 => rw [← e1] at e2; cases e2; rfl
      | inr m2 => subst e1; exact absurd rfl (hne (d, o') m2)
    | inr m1 =>
      cases h2 with
      | inl e2 => subst e2; exact absurd rfl (hne (d, o) m1)
      | inr m2 => exact ih hnd m1 m2

theorem any_key_iff (l : List (Key × Val)) (d : Key) :
    l.any (fun e => e.1 == d) = true ↔ ∃ o, (d, o) ∈ l := by
  simp only [List.any_eq_true, beq_iff_eq]
  constructor
  · rintro ⟨⟨a, b⟩, hm, rfl⟩; exact ⟨b, hm⟩
  · rintro ⟨o, hm⟩; exact ⟨(d, o), hm, rfl⟩

-- ------------------------------------------------------------------ elementary updates

theorem Settled.shrink {s s' : St} {x : Key} (h : Settled s x) (hn : s'.nodes = s.nodes)
    (hd : ∀ a b, s'.dirty a b = true → s.dirty a b = true) : Settled s' x :=
  h.transfer (fun y n _ h => ⟨n, by rw [hn]; exact h, rfl, rfl⟩) (fun y d _ h => hd y d h)

theorem Inv.clearDirty {p : Program} {s : St} (inv : Inv p s) {k d : Key} {n nd : Node} {o : Val}
    (hk : s.nodes k = some n) (hm : (d, o) ∈ n.deps) (hd : s.nodes d = some nd) (hv : nd.value = o)
    (hs : Settled s d) : Inv p (clearDirty s k d) := by
  have sh : ∀ x, Settled s x → Settled (Qbice.Core.clearDirty s k d) x := by
    intro x hx
    apply hx.shrink (s' := Qbice.Core.clearDirty s k d) rfl
    intro a b
    simp only [Qbice.Core.clearDirty]
    split
    · intro h; cases h
    · exact id
  refine ⟨inv.kind, inv.down, inv.nodup, inv.trace, inv.stamp, ?_, ?_⟩
  · intro x nx hx hvx d' o' hm'
    have := inv.verified_clean x nx hx hvx d' o' hm'
    simp only [Qbice.Core.clearDirty]
    split
    · rfl
    · exact this
  · intro x nx hx d' o' hm' hcl
    simp only [Qbice.Core.clearDirty] at hcl
    by_cases hc : x = k ∧ d' = d
    · obtain ⟨rfl, rfl⟩ := hc
      have hx' : s.nodes x = some nx := hx
      rw [hk] at hx'; cases hx'
      have : o = o' := keys_nodup_unique (inv.nodup x n hk) hm hm'
      subst this
      exact ⟨⟨nd, hd, hv⟩, sh _ hs⟩
    · rw [if_neg hc] at hcl
      obtain ⟨h1, h2⟩ := inv.clean_settled x nx hx d' o' hm' hcl
      exact ⟨h1, sh _ h2⟩

theorem Frame.clearDirty (p : Program) (s : St) (k d : Key) : Frame p s (clearDirty s k d) where
  epoch := rfl
  dirty := by
    intro a b
    simp only [Qbice.Core.clearDirty]
    split
    · intro h; cases h
    · exact id
  inputs := rfl
  ext := rfl
  world := rfl
  keep := fun _ n _ h => ⟨n, h, rfl, rfl⟩
  same_or_verified := fun _ => Or.inl rfl
  log := Frame.log_nil rfl (fun _ h => h)

theorem Inv.stamp' {p : Program} {s : St} (inv : Inv p s) {k : Key} {n : Node}
    (hk : s.nodes k = some n) (hc : ∀ d o, (d, o) ∈ n.deps → s.dirty k d = false) :
    Inv p (setNode s k { n with lastVerified := s.epoch }) := by
  have sh : ∀ x, Settled s x → Settled (setNode s k { n with lastVerified := s.epoch }) x := by
    intro x hx
    apply hx.transfer
    · intro y ny _ hy
      simp only [setNode]
      by_cases e : y = k
      · subst e; rw [hk] at hy; cases hy; exact ⟨_, if_pos rfl, rfl, rfl⟩
      · exact ⟨ny, by rw [if_neg e]; exact hy, rfl, rfl⟩
    · intro y d _ h; exact h
  have nodeAt : ∀ x nx, (setNode s k { n with lastVerified := s.epoch }).nodes x = some nx →
      ∃ nx0, s.nodes x = some nx0 ∧ nx.value = nx0.value ∧ nx.deps = nx0.deps ∧
        nx.kind = nx0.kind ∧ (x ≠ k → nx = nx0) ∧ (x = k → nx.lastVerified = s.epoch) := by
    intro x nx hx
    simp only [setNode] at hx
    by_cases e : x = k
    · subst e; rw [if_pos rfl] at hx; cases hx
      exact ⟨n, hk, rfl, rfl, rfl, fun h => absurd rfl h, fun _ => rfl⟩
    · rw [if_neg e] at hx
      exact ⟨nx, hx, rfl, rfl, rfl, fun _ => rfl, fun h => absurd h e⟩
  constructor
  · intro x nx hx
    obtain ⟨nx0, h0, hv, hd, hi, _, _⟩ := nodeAt x nx hx
    rw [hi, hd]; exact inv.kind x nx0 h0
  · intro x nx hx
    obtain ⟨nx0, h0, hv, hd, hi, _, _⟩ := nodeAt x nx hx
    rw [hd]; exact inv.down x nx0 h0
  · intro x nx hx
    obtain ⟨nx0, h0, hv, hd, hi, _, _⟩ := nodeAt x nx hx
    rw [hd]; exact inv.nodup x nx0 h0
  · intro x nx d hx
    obtain ⟨nx0, h0, hv, hd, hi, _, _⟩ := nodeAt x nx hx
    rw [hd, hv, hi]; exact inv.trace x nx0 d h0
  · intro x nx hx
    obtain ⟨nx0, h0, hv, hd, hi, hne, he⟩ := nodeAt x nx hx
    by_cases e : x = k
    · rw [he e]; exact Nat.le_refl _
    · rw [hne e]; exact inv.stamp x nx0 h0
  · intro x nx hx hvx d o hm
    obtain ⟨nx0, h0, hv, hd, hi, hne, he⟩ := nodeAt x nx hx
    by_cases e : x = k
    · subst e; rw [hk] at h0; cases h0; rw [hd] at hm; exact hc d o hm
    · rw [hne e] at hvx hm; exact inv.verified_clean x nx0 h0 hvx d o hm
  · intro x nx hx d o hm hcl
    obtain ⟨nx0, h0, hv, hd, hi, hne, he⟩ := nodeAt x nx hx
    rw [hd] at hm
    obtain ⟨⟨nd, hnd, hvd⟩, hs⟩ := inv.clean_settled x nx0 h0 d o hm hcl
    refine ⟨?_, sh _ hs⟩
    simp only [setNode]
    by_cases e : d = k
    · subst e; rw [hk] at hnd; cases hnd; exact ⟨_, if_pos rfl, hvd⟩
    · exact ⟨nd, by rw [if_neg e]; exact hnd, hvd⟩

theorem Frame.stamp' (p : Program) {s : St} {k : Key} {n : Node} (hk : s.nodes k = some n) :
    Frame p s (setNode s k { n with lastVerified := s.epoch }) where
  epoch := rfl
  dirty := fun _ _ h => h
  inputs := by
    funext x
    simp only [inputsOf, setNode]
    by_cases e : x = k
    · subst e; rw [if_pos rfl, hk]
    · rw [if_neg e]
  ext := by
    have : pinsOf (setNode s k { n with lastVerified := s.epoch }) = pinsOf s := by
      funext x
      simp only [pinsOf, setNode]
      by_cases e : x = k
      · subst e; rw [if_pos rfl, hk]
      · rw [if_neg e]
    simp only [extOf, this]
    rfl
  world := rfl
  keep := by
    intro y ny _ hy
    simp only [setNode]
    by_cases e : y = k
    · subst e; rw [hk] at hy; cases hy; exact ⟨_, if_pos rfl, rfl, rfl⟩
    · exact ⟨ny, by rw [if_neg e]; exact hy, rfl, rfl⟩
  same_or_verified := by
    intro x
    by_cases e : x = k
    · subst e; exact Or.inr ⟨{ n with lastVerified := s.epoch }, by simp [setNode], rfl⟩
    · exact Or.inl (by simp [setNode, e])
  log := Frame.log_nil rfl (fun x h => by
    simp only [setNode]
    by_cases e : x = k
    · subst e; rw [hk] at h; cases h
    · rw [if_neg e]; exact h)

theorem Touches.stamp' (s : St) (k : Key) (n : Node) : Touches (k + 1) s (setNode s k n) := by
  intro x hx
  refine ⟨?_, fun _ => rfl⟩
  simp only [setNode]
  rw [if_neg (by komega)]

-- ------------------------------------------------------------------ specs

/-- post-condition of a query for `k` started in `s` -/
def QPost (p : Program) (k : Key) (s : St) (r : Val × St) : Prop :=
  Inv p r.2 ∧ Frame p s r.2 ∧ Touches (k + 1) s r.2 ∧ cur p s k = some r.1 ∧
    ∃ n, r.2.nodes k = some n ∧ n.value = r.1 ∧ n.lastVerified = r.2.epoch

/-- the recursive-call parameter behaves like a sound query on all keys below `b` -/
def QSpec (p : Program) (q : Q) (b : Nat) : Prop :=
  ∀ d, d < b → ∀ s, Inv p s → Sat (q d s) (QPost p d s)

theorem repairDeps_spec {p : Program} {q : Q} {k : Key} (hq : QSpec p q k) {n : Node} :
    ∀ (deps : List (Key × Val)) (s : St), Inv p s → s.nodes k = some n →
      (∀ e, e ∈ deps → e ∈ n.deps) →
      Sat (repairDeps q k deps s) (fun r =>
        Inv p r.2 ∧ Frame p s r.2 ∧ Touches (k + 1) s r.2 ∧ r.2.nodes k = some n ∧
        (r.1 = false → ∀ d o, (d, o) ∈ deps → r.2.dirty k d = false) ∧
        (r.1 = true → ∃ d o, (d, o) ∈ deps ∧ cur p s d ≠ some o)) := by
  intro deps
  induction deps with
  | nil =>
    intro s inv hk _
    simp only [repairDeps]
    exact ⟨inv, Frame.refl p s, Touches.refl _ s, hk, fun _ _ _ h => (by cases h), fun h => (by cases h)⟩
  | cons e rest ih =>
    intro s inv hk hsub
    obtain ⟨d, o⟩ := e
    have hm : (d, o) ∈ n.deps := hsub _ (List.mem_cons_self ..)
    have hsub' : ∀ e, e ∈ rest → e ∈ n.deps := fun e he => hsub e (List.mem_cons_of_mem _ he)
    simp only [repairDeps]
    split
    · rename_i hcl
      refine (ih s inv hk hsub').mono ?_
      rintro ⟨b, s1⟩ ⟨i1, f1, t1, k1, hf, ht⟩
      refine ⟨i1, f1, t1, k1, ?_, ?_⟩
      · intro hb d' o' hm'
        simp only [List.mem_cons] at hm'
        cases hm' with
        | inl e =>
          have ⟨e1, _⟩ := Prod.mk.inj e
          rw [e1]; exact f1.clean hcl
        | inr hm' => exact hf hb d' o' hm'
      · intro hb
        obtain ⟨d', o', hm', hne⟩ := ht hb
        exact ⟨d', o', List.mem_cons_of_mem _ hm', hne⟩
    · have hdk : d < k := inv.down k n hk d o hm
      have hqd := hq d hdk s inv
      cases hr : q d s with
      | error e => rw [hr] at hqd; simpa [Sat] using hqd
      | ok r =>
        obtain ⟨v, s1⟩ := r
        rw [hr] at hqd
        obtain ⟨i1, f1, t1, c1, nd, hnd, hvd, hver⟩ := hqd
        simp only at i1 f1 t1 c1 hnd hvd hver
        have k1 : s1.nodes k = some n := by rw [(t1 k (by komega)).1]; exact hk
        simp only
        split
        · rename_i hne
          refine ⟨i1, f1, t1.mono (by komega), k1, fun h => (by cases h), fun _ => ?_⟩
          exact ⟨d, o, List.mem_cons_self .., by rw [c1]; simpa using hne⟩
        · rename_i heq
          have heq : v = o := by simpa using heq
          subst heq
          have i2 : Inv p (clearDirty s1 k d) :=
            i1.clearDirty k1 hm hnd hvd (verified_settled i1 hnd hver)
          have f2 : Frame p s (clearDirty s1 k d) := f1.trans (Frame.clearDirty p s1 k d)
          have t2 : Touches (k + 1) s (clearDirty s1 k d) := by
            intro x hx
            obtain ⟨a, b⟩ := t1 x (by komega)
            refine ⟨a, fun y => ?_⟩
            simp only [clearDirty]
            rw [if_neg (by komega)]; exact b y
          refine (ih (clearDirty s1 k d) i2 k1 hsub').mono ?_
          rintro ⟨b, s3⟩ ⟨i3, f3, t3, k3, hf, ht⟩
          refine ⟨i3, f2.trans f3, t2.trans t3, k3, ?_, ?_⟩
          · intro hb d' o' hm'
            simp only [List.mem_cons] at hm'
            cases hm' with
            | inl e =>
              have ⟨e1, _⟩ := Prod.mk.inj e
              rw [e1]; exact f3.clean (by simp [clearDirty])
            | inr hm' => exact hf hb d' o' hm'
          · intro hb
            obtain ⟨d', o', hm', hne⟩ := ht hb
            refine ⟨d', o', List.mem_cons_of_mem _ hm', ?_⟩
            rw [← f2.cur]; exact hne

end Qbice.Core
