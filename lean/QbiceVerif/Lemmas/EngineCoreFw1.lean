/-
Lemmas about the extended core engine model (`Qbice.CoreFw`, all five kinds), part 1: the
from-scratch reference (`cur`), the structural predicates `Solid` (consistent all the way down, every
firewall in the cone verified in this epoch) and `NGood` (consistent down to the firewall boundary,
with current transitive-firewall-callee fingerprints), the invariant `Inv`, `Frame`, and their basic
theory.

The invariant (for programs of `Shape`: a projection reads firewalls and static projections only):
* `solid`  (I1)  verified in this epoch ⇒ `Solid`;
* `clean`  (I2/I3, marking) a clean recorded edge `(x, y)` ⇒ the observed value is the stored one,
  and for a normal callee the fingerprint seen is the callee's current set and the callee is `NGood`
  (what dirty propagation maintains: it marks upward from every changed key through normal nodes);
* `seenSub` (I4) the caller's set contains every firewall callee and every fingerprint seen — together
  with `clean` this is frontier accuracy over clean edges, and it is what the observation refresh of
  the clean path (`f1q`) maintains;
* the trust rule (`f1p`) is not part of the invariant: `clean_trusted` *derives* "clean edge ∧ frontier
  of the callee settled ⇒ observation current ∧ callee `Solid`".
-/
import QbiceVerif.Model.EngineCore
import QbiceVerif.Lemmas.EngineCore2
namespace Qbice.CoreFw
open Qbice.Core (Prog Err Write SetRes allVals evalProg applyWorld Sat TraceOK)

/-- `omega` that sees through the `Key := Nat` abbreviation -/
macro "komega" : tactic => `(tactic| ((try unfold Key at *); omega))

def inputsOf (s : St) (k : Key) : Option Val :=
  match s.nodes k with
  | some n => if n.kind = .input then some n.value else none
  | none => none

def pinsOf (s : St) (k : Key) : Option Val :=
  match s.nodes k with
  | some n => if n.kind = .external then some n.value else none
  | none => none

def extRef (p : Program) (pins : Key → Option Val) (w : Key → Val) (k : Key) : Option Val :=
  match pins k with
  | some v => some v
  | none =>
    match p[k]? with
    | some d => some (d.ext w)
    | none => none

def extOf (p : Program) (s : St) : Key → Option Val := extRef p (pinsOf s) s.world

/-- from-scratch value of `k` on the committed inputs and external values of `s` -/
def cur (p : Program) (s : St) (k : Key) : Option Val :=
  evalSpec p (inputsOf s) (extOf p s) (k + 1) k

def Verified (s : St) (x : Key) : Prop := ∃ n, s.nodes x = some n ∧ n.lastVerified = s.epoch

/-- consistent all the way down, fingerprints of non-firewall callees current, every firewall in the
    cone verified in this epoch, every projection in the cone verified in this epoch or without a
    callee whose backward projection is pending (such a projection is never re-executed) -/
inductive Solid (s : St) : Key → Prop
  | mk (k : Key) (n : Node) : s.nodes k = some n →
      (n.kind = .firewall → n.lastVerified = s.epoch) →
      (n.kind = .projection →
        n.lastVerified = s.epoch ∨ ∀ d o, (d, o) ∈ n.deps → hasPending s d = false) →
      (∀ d o, (d, o) ∈ n.deps →
        ∃ nd, s.nodes d = some nd ∧ nd.value = o ∧ (nd.kind ≠ .firewall → nd.tfc = n.seen d)) →
      (∀ d o, (d, o) ∈ n.deps → Solid s d) → Solid s k

/-- consistent down to the firewall boundary, fingerprints of normal callees current -/
inductive NGood (s : St) : Key → Prop
  | mk (k : Key) (n : Node) : s.nodes k = some n →
      (∀ d o, (d, o) ∈ n.deps →
        ∃ nd, s.nodes d = some nd ∧ nd.value = o ∧ (nd.kind ≠ .firewall → nd.tfc = n.seen d)) →
      (∀ d o nd, (d, o) ∈ n.deps → s.nodes d = some nd → nd.kind = .normal → NGood s d) → NGood s k

/-- an execution of `x` from state `s` is justified: never computed, or a recorded dependency has
    a different from-scratch value now -/
def Just (p : Program) (s : St) (x : Key) : Prop :=
  ¬ Verified s x ∧
    (s.nodes x = none ∨ ∃ n d o, s.nodes x = some n ∧ (d, o) ∈ n.deps ∧ cur p s d ≠ some o)

/-- the recorded keys of a run that reads `ks` in order (first occurrences) -/
def recordKeys (ks : List Key) (acc : List Key) : List Key :=
  ks.foldl (fun acc d => if acc.contains d then acc else acc ++ [d]) acc

/-- the firewall set accumulated by a run that reads `ks` in order, `fr d` being the contribution of `d` -/
def foldTfc (fr : Key → List Key) (ks : List Key) (acc : List Key) : List Key :=
  ks.foldl (fun acc d => Qbice.Engine.unionSorted (fr d) acc) acc

structure Inv (p : Program) (s : St) : Prop where
  kind : ∀ k n, s.nodes k = some n →
    ∃ d, p[k]? = some d ∧ d.kind = n.kind ∧
      (n.kind = .input ∨ n.kind = .external → n.deps = [] ∧ n.tfc = [])
  /-- a projection has recorded firewalls and STATIC projections only (`Shape`) -/
  pjKinds : ∀ k n, s.nodes k = some n → n.kind = .projection →
    ∀ d o nd, (d, o) ∈ n.deps → s.nodes d = some nd →
      nd.kind = .firewall ∨ (nd.kind = .projection ∧ IsStaticKey p d)
  /-- the recorded keys and the firewall set of a static projection are those of its read sequence -/
  pjStat : ∀ k n d ks, s.nodes k = some n → p[k]? = some d → n.kind = .projection →
    ProgStatic d.prog ks → n.deps.map (·.1) = recordKeys ks [] ∧ n.tfc = foldTfc (front s) ks []
  /-- the fingerprint seen of a static projection callee is its (never changing) set -/
  pjSeen : ∀ x n g o ng, s.nodes x = some n → (g, o) ∈ n.deps → s.nodes g = some ng →
    ng.kind = .projection → IsStaticKey p g → n.seen g = ng.tfc
  /-- a static projection with a pending backward projection has a callee with one -/
  pjCause : ∀ g ng, s.nodes g = some ng → ng.kind = .projection → IsStaticKey p g →
    ng.pendingBP = true → ∃ c o, (c, o) ∈ ng.deps ∧ hasPending s c = true
  /-- I7: a recorded callee of a projection whose stored value is not the observed one has a pending
      backward projection -/
  pjBroken : ∀ k n, s.nodes k = some n → n.kind = .projection →
    ∀ d o nd, (d, o) ∈ n.deps → s.nodes d = some nd → nd.value ≠ o → nd.pendingBP = true
  down : ∀ k n, s.nodes k = some n → ∀ d o, (d, o) ∈ n.deps → d < k ∧ ∃ nd, s.nodes d = some nd
  tfcDown : ∀ k n, s.nodes k = some n → ∀ f, f ∈ n.tfc → f < k
  nodup : ∀ k n, s.nodes k = some n → (n.deps.map (·.1)).Nodup
  trace : ∀ k n d, s.nodes k = some n → p[k]? = some d → n.kind ≠ .input → n.kind ≠ .external →
    TraceOK d.prog n.deps n.value
  stamp : ∀ k n, s.nodes k = some n → n.lastVerified ≤ s.epoch
  seenSub : ∀ k n, s.nodes k = some n → ∀ d o nd, (d, o) ∈ n.deps → s.nodes d = some nd →
    (nd.kind = .firewall → d ∈ n.tfc) ∧
      (nd.kind = .normal ∨ nd.kind = .projection → ∀ f, f ∈ n.seen d → f ∈ n.tfc)
  solid : ∀ k n, s.nodes k = some n → n.lastVerified = s.epoch → Solid s k
  clean : ∀ x n, s.nodes x = some n → ∀ y o, (y, o) ∈ n.deps → s.dirty x y = false →
    ∃ ny, s.nodes y = some ny ∧ ny.value = o ∧ (ny.kind ≠ .firewall → ny.tfc = n.seen y) ∧ (ny.kind = .normal → NGood s y)

structure Frame (p : Program) (s s' : St) : Prop where
  epoch : s'.epoch = s.epoch
  inputs : inputsOf s' = inputsOf s
  ext : extOf p s' = extOf p s
  world : s'.world = s.world
  keep : ∀ x n, Solid s x → s.nodes x = some n →
    ∃ n', s'.nodes x = some n' ∧ n'.value = n.value ∧ n'.deps = n.deps ∧ n'.tfc = n.tfc ∧
      n'.seen = n.seen ∧ n'.kind = n.kind ∧ (n'.pendingBP = true → n.pendingBP = true)
  /-- a node verified in this epoch keeps its data -/
  vkeep : ∀ x n, s.nodes x = some n → n.lastVerified = s.epoch →
    ∃ n', s'.nodes x = some n' ∧ n'.value = n.value ∧ n'.tfc = n.tfc
  /-- a backward projection becomes pending only with a changed value or firewall set -/
  pend : ∀ x n', s'.nodes x = some n' → n'.pendingBP = true →
    ∃ n, s.nodes x = some n ∧ (n.pendingBP = true ∨ n'.value ≠ n.value ∨ n'.tfc ≠ n.tfc)
  same_or_verified : ∀ x, s'.nodes x = s.nodes x ∨ Verified s' x
  log : ∃ new, s'.log = s.log ++ new ∧ new.Nodup ∧
    (∀ x, x ∈ new → Just p s x ∧ Verified s' x) ∧
    ∀ x, s.nodes x = none → s'.nodes x ≠ none → x ∈ new

/-- keys `≥ b` keep their node, and no pending backward projection is cleared (the requests of query
    callers never perform one) -/
def Touches (b : Nat) (s s' : St) : Prop :=
  (∀ x, b ≤ x → s'.nodes x = s.nodes x) ∧
    ∀ x n, s.nodes x = some n → n.pendingBP = true → ∃ n', s'.nodes x = some n' ∧ n'.pendingBP = true

-- ------------------------------------------------------------------ the specification

theorem evalSpec_fuel_stable {p : Program} (wf : WF p) (i e : Key → Option Val) :
    ∀ k f, k + 1 ≤ f → evalSpec p i e f k = evalSpec p i e (k + 1) k := by
  intro k
  induction k using Nat.strongRecOn with
  | _ k ih =>
    intro f hf
    obtain ⟨f', rfl⟩ : ∃ f', f = f' + 1 := ⟨f - 1, by omega⟩
    have key : ∀ d : NodeDef, p[k]? = some d → d.kind ≠ .input → d.kind ≠ .external →
        evalProg (evalSpec p i e f') d.prog = evalProg (evalSpec p i e k) d.prog := by
      intro d hp h1 h2
      apply Qbice.Core.evalProg_congr_below _ _ k _ _ (wf k d hp h1 h2).1
      intro j hj
      rw [ih j hj f' (by omega), ih j hj k (by omega)]
    simp only [evalSpec]
    cases hp : p[k]? with
    | none => rfl
    | some d =>
      simp only
      cases hi : d.kind with
      | input => rfl
      | external => rfl
      | normal => exact key d hp (by rw [hi]; decide) (by rw [hi]; decide)
      | firewall => exact key d hp (by rw [hi]; decide) (by rw [hi]; decide)
      | projection => exact key d hp (by rw [hi]; decide) (by rw [hi]; decide)

theorem cur_congr {p : Program} {s s' : St} (h : inputsOf s' = inputsOf s)
    (he : extOf p s' = extOf p s) : cur p s' = cur p s := by
  funext k; simp [cur, h, he]

/-- the from-scratch value of an executor key is its executor on the from-scratch values below -/
theorem cur_exec {p : Program} (wf : WF p) {s : St} {k : Key} {d : NodeDef} (hp : p[k]? = some d)
    (h1 : d.kind ≠ .input) (h2 : d.kind ≠ .external) {deps : List (Key × Val)} {v : Val}
    (tr : TraceOK d.prog deps v) (hd : ∀ d' o, (d', o) ∈ deps → d' < k ∧ cur p s d' = some o) :
    cur p s k = some v := by
  have : cur p s k = evalProg (evalSpec p (inputsOf s) (extOf p s) k) d.prog := by
    simp only [cur, evalSpec, hp]
  rw [this]
  apply tr
  intro d' o hm
  obtain ⟨hlt, hc⟩ := hd d' o hm
  rw [evalSpec_fuel_stable wf _ _ d' k hlt]
  exact hc

-- ------------------------------------------------------------------ Solid / NGood

theorem Solid.node {s : St} {k : Key} (h : Solid s k) : ∃ n, s.nodes k = some n := by
  cases h with
  | mk _ n hn _ _ _ _ => exact ⟨n, hn⟩

/-- a node without recorded dependencies that is neither a firewall nor a projection is `Solid` -/
theorem Solid.leaf {s : St} {k : Key} {n : Node} (hn : s.nodes k = some n) (hd : n.deps = [])
    (hf : n.kind = .firewall → n.lastVerified = s.epoch) : Solid s k :=
  Solid.mk k n hn hf (fun _ => Or.inr (fun d o hm => by rw [hd] at hm; cases hm))
    (fun d o hm => by rw [hd] at hm; cases hm) (fun d o hm => by rw [hd] at hm; cases hm)

theorem Solid.nGood {s : St} {k : Key} (h : Solid s k) : NGood s k := by
  induction h with
  | mk k n hn _ _ hval _ ih => exact NGood.mk k n hn hval (fun d o _ hm _ _ => ih d o hm)

theorem hasPending_of_node {s : St} {d : Key} {nd : Node} (h : s.nodes d = some nd) :
    hasPending s d = nd.pendingBP := by simp [hasPending, h]

/-- transfer of `Solid` along a state change that keeps the recorded data of solid nodes, the
    verification of solid nodes, and sets no pending flag on them -/
theorem Solid.transfer {s s' : St} {x : Key} (h : Solid s x)
    (hn : ∀ y n, Solid s y → s.nodes y = some n →
      ∃ n', s'.nodes y = some n' ∧ n'.value = n.value ∧ n'.deps = n.deps ∧ n'.tfc = n.tfc ∧
        n'.seen = n.seen ∧ n'.kind = n.kind ∧ (n.lastVerified = s.epoch → n'.lastVerified = s'.epoch) ∧
        (n'.pendingBP = true → n.pendingBP = true)) :
    Solid s' x := by
  induction h with
  | mk k n hk hfw hq hval hsub ih =>
    have hs : Solid s k := Solid.mk k n hk hfw hq hval hsub
    obtain ⟨n', hn', hv', hd', ht', hse', hki', hver', _⟩ := hn k n hs hk
    refine Solid.mk k n' hn' (fun hf => hver' (hfw (by rw [← hki']; exact hf))) ?_ ?_ ?_
    · intro hp
      rcases hq (by rw [← hki']; exact hp) with h | h
      · exact Or.inl (hver' h)
      · refine Or.inr ?_
        intro d o hm
        rw [hd'] at hm
        obtain ⟨nd, hnd, _, _⟩ := hval d o hm
        obtain ⟨nd', hnd', _, _, _, _, _, _, hpe⟩ := hn d nd (hsub d o hm) hnd
        have h0 := h d o hm
        rw [hasPending_of_node hnd] at h0
        rw [hasPending_of_node hnd']
        cases hx : nd'.pendingBP with
        | false => rfl
        | true => rw [hpe hx] at h0; cases h0
    · intro d o hm
      rw [hd'] at hm
      obtain ⟨nd, hnd, hvd, hacc⟩ := hval d o hm
      obtain ⟨nd', hnd', hvd', _, htd', _, hkd', _⟩ := hn d nd (hsub d o hm) hnd
      exact ⟨nd', hnd', by rw [hvd', hvd], fun hk => by rw [htd', hse']; exact hacc (by rw [← hkd']; exact hk)⟩
    · intro d o hm
      rw [hd'] at hm
      exact ih d o hm

theorem verified_solid {p : Program} {s : St} (inv : Inv p s) {k : Key} {n : Node}
    (hn : s.nodes k = some n) (hv : n.lastVerified = s.epoch) : Solid s k := inv.solid k n hn hv

theorem solid_correct {p : Program} (wf : WF p) {s : St} (inv : Inv p s) {k : Key}
    (h : Solid s k) : ∃ n, s.nodes k = some n ∧ cur p s k = some n.value := by
  induction h with
  | mk k n hk _ _ hval hsub ih =>
    refine ⟨n, hk, ?_⟩
    obtain ⟨d, hp, hki, hnd⟩ := inv.kind k n hk
    by_cases hi : n.kind = .input
    · simp only [cur, evalSpec, hp, hki, hi]
      simp [inputsOf, hk, hi]
    · by_cases he : n.kind = .external
      · simp only [cur, evalSpec, hp, hki, he]
        simp [extOf, extRef, pinsOf, hk, he]
      · apply cur_exec wf hp (by rw [hki]; exact hi) (by rw [hki]; exact he) (inv.trace k n d hk hp hi he)
        intro d' o hm
        obtain ⟨nd, hnd, hcur⟩ := ih d' o hm
        obtain ⟨nd', hnd', hv', _⟩ := hval d' o hm
        rw [hnd] at hnd'; cases hnd'
        exact ⟨(inv.down k n hk d' o hm).1, by rw [← hv']; exact hcur⟩

/-- a recorded dependency whose stored value differs from the observation: the node is not `NGood` -/
theorem not_nGood_of_broken {s : St} {k : Key} {n : Node} (hn : s.nodes k = some n) {d : Key} {o : Val}
    (hm : (d, o) ∈ n.deps) {nd : Node} (hnd : s.nodes d = some nd) (hne : nd.value ≠ o) :
    ¬ NGood s k := by
  intro h
  cases h with
  | mk _ n' hn' hval _ =>
    rw [hn] at hn'; cases hn'
    obtain ⟨nd', hnd', hv, _⟩ := hval d o hm
    rw [hnd] at hnd'; cases hnd'
    exact hne hv

theorem just_not_solid {p : Program} (wf : WF p) {s : St} (inv : Inv p s) {k : Key}
    (h : Just p s k) : ¬ Solid s k := by
  intro hs
  obtain ⟨_, h | ⟨n, d, o, hn, hm, hne⟩⟩ := h
  · obtain ⟨n, hn⟩ := hs.node; rw [h] at hn; cases hn
  · cases hs with
    | mk _ n' hn' _ _ hval hsub =>
      rw [hn] at hn'; cases hn'
      obtain ⟨nd, hnd, hv, _⟩ := hval d o hm
      obtain ⟨nd', hnd', hc⟩ := solid_correct wf inv (hsub d o hm)
      rw [hnd] at hnd'; cases hnd'
      exact hne (by rw [hc, hv])

-- ------------------------------------------------------------------ the trust rule

theorem settledFw_iff {s : St} {f : Key} :
    settledFw s f = true ↔ ∃ n, s.nodes f = some n ∧ n.lastVerified = s.epoch ∧ n.pendingBP = false := by
  simp only [settledFw]
  cases s.nodes f with
  | none => simp
  | some n => simp

/-- a static projection with a pending backward projection has a pending firewall in its set -/
theorem Inv.pend_witness {p : Program} {s : St} (inv : Inv p s) :
    ∀ c nc, s.nodes c = some nc → nc.kind = .projection → IsStaticKey p c → nc.pendingBP = true →
      ∃ f nf, f ∈ nc.tfc ∧ s.nodes f = some nf ∧ nf.pendingBP = true := by
  intro c
  induction c using Nat.strongRecOn with
  | _ c ih =>
    intro nc hc hk hst hp
    obtain ⟨d, o, hm, hpd⟩ := inv.pjCause c nc hc hk hst hp
    obtain ⟨hlt, nd, hnd⟩ := inv.down c nc hc d o hm
    have hpd' : nd.pendingBP = true := by simpa [hasPending, hnd] using hpd
    obtain ⟨sfw, spj⟩ := inv.seenSub c nc hc d o nd hm hnd
    rcases inv.pjKinds c nc hc hk d o nd hm hnd with hkd | ⟨hkd, hsd⟩
    · exact ⟨d, nd, sfw hkd, hnd, hpd'⟩
    · obtain ⟨f, nf, hf, hnf, hpf⟩ := ih d hlt nd hnd hkd hsd hpd'
      refine ⟨f, nf, spj (Or.inr hkd) f ?_, hnf, hpf⟩
      rw [inv.pjSeen c nc d o nd hc hm hnd hkd hsd]; exact hf

/-- I7, derived: a projection all of whose recorded firewalls are settled is `Solid` -/
theorem Inv.proj_solid {p : Program} {s : St} (inv : Inv p s) :
    ∀ z n, s.nodes z = some n → n.kind = .projection →
      (∀ f, f ∈ n.tfc → settledFw s f = true) → Solid s z := by
  intro z
  induction z using Nat.strongRecOn with
  | _ z ih =>
    intro n hz hk hall
    -- every recorded callee: not pending, current observation, `Solid`
    have dep : ∀ d o, (d, o) ∈ n.deps → ∃ nd, s.nodes d = some nd ∧ nd.pendingBP = false ∧
        (nd.kind ≠ .firewall → nd.tfc = n.seen d) ∧ Solid s d := by
      intro d o hm
      obtain ⟨hlt, nd, hnd⟩ := inv.down z n hz d o hm
      obtain ⟨sfw, spj⟩ := inv.seenSub z n hz d o nd hm hnd
      rcases inv.pjKinds z n hz hk d o nd hm hnd with hkd | ⟨hkd, hsd⟩
      · obtain ⟨nf, hnf, hv, hp⟩ := settledFw_iff.1 (hall d (sfw hkd))
        rw [hnd] at hnf; cases hnf
        exact ⟨nd, hnd, hp, fun h => absurd hkd h, inv.solid d nd hnd hv⟩
      · have hseen := inv.pjSeen z n d o nd hz hm hnd hkd hsd
        have hsub : ∀ f, f ∈ nd.tfc → settledFw s f = true := fun f hf =>
          hall f (spj (Or.inr hkd) f (by rw [hseen]; exact hf))
        have hnp : nd.pendingBP = false := by
          cases hp : nd.pendingBP with
          | false => rfl
          | true =>
            obtain ⟨f, nf, hf, hnf, hpf⟩ := inv.pend_witness d nd hnd hkd hsd hp
            obtain ⟨nf', hnf', _, hpf'⟩ := settledFw_iff.1 (hsub f hf)
            rw [hnf] at hnf'; cases hnf'
            rw [hpf] at hpf'; cases hpf'
        exact ⟨nd, hnd, hnp, fun _ => hseen.symm, ih d hlt nd hnd hkd hsub⟩
    refine Solid.mk z n hz (fun h => by rw [hk] at h; cases h) (fun _ => Or.inr ?_) ?_ ?_
    · intro d o hm
      obtain ⟨nd, hnd, hp, _⟩ := dep d o hm
      rw [hasPending_of_node hnd]; exact hp
    · intro d o hm
      obtain ⟨nd, hnd, hp, hacc, _⟩ := dep d o hm
      refine ⟨nd, hnd, ?_, hacc⟩
      false_or_by_contra
      rename_i hne
      have := inv.pjBroken z n hz hk d o nd hm hnd hne
      rw [hp] at this; cases this
    · intro d o hm
      obtain ⟨_, _, _, _, hs⟩ := dep d o hm
      exact hs

/-- an `NGood` normal node all of whose recorded firewalls are settled is `Solid` -/
theorem NGood.solid_of_settled {p : Program} {s : St} (inv : Inv p s) {k : Key}
    (h : NGood s k) :
    ∀ n, s.nodes k = some n → n.kind = .normal → (∀ f, f ∈ n.tfc → settledFw s f = true) → Solid s k := by
  induction h with
  | mk k n hk hval hsub ih =>
    intro n' hk' hnm hall
    rw [hk] at hk'; cases hk'
    refine Solid.mk k n hk (fun h => by rw [hnm] at h; cases h) (fun h => by rw [hnm] at h; cases h) hval ?_
    intro d o hm
    obtain ⟨nd, hnd, hvd, hacc⟩ := hval d o hm
    obtain ⟨sfw, snm⟩ := inv.seenSub k n hk d o nd hm hnd
    obtain ⟨dd, hpd, hkd, hleaf⟩ := inv.kind d nd hnd
    cases hkn : nd.kind with
    | input => exact Solid.leaf hnd (hleaf (Or.inl hkn)).1 (fun h => by rw [hkn] at h; cases h)
    | external => exact Solid.leaf hnd (hleaf (Or.inr hkn)).1 (fun h => by rw [hkn] at h; cases h)
    | firewall =>
      obtain ⟨nf, hnf', hv, _⟩ := settledFw_iff.1 (hall d (sfw hkn))
      rw [hnd] at hnf'; cases hnf'
      exact inv.solid d nd hnd hv
    | normal =>
      refine ih d o nd hm hnd hkn nd hnd hkn ?_
      intro f hf
      rw [hacc (by rw [hkn]; decide)] at hf
      exact hall f (snm (Or.inl hkn) f hf)
    | projection =>
      refine inv.proj_solid d nd hnd hkn ?_
      intro f hf
      rw [hacc (by rw [hkn]; decide)] at hf
      exact hall f (snm (Or.inr hkn) f hf)

end Qbice.CoreFw
