import QbiceVerif.Lemmas.WalkLts
import QbiceVerif.Lemmas.EngineLtsSet

/-! The `WK` LTS: the walk is an `iter` operation of the set, linearized where the guards are taken; what it
visits is the content at that point (the invariant does not depend on the toggle). -/

namespace QbiceVerif.Lts.WK

structure LInv (c0 : List Nat) (s : State) : Prop where
  nodup : s.content.Nodup
  legal : TS.Legal c0 s.hist s.content
  fresh : ∀ j, (s.task j).begun = false → (s.task j).visited = []
  split : ∀ j, (s.task j).begun = true → (s.task j).visited ++ (s.task j).todo = (s.task j).snap
  logged : ∀ j, (s.task j).begun = true → (j, TS.Op.iter, TS.Ret.list (s.task j).snap) ∈ s.hist
  ended : ∀ j, (s.task j).role = .walker → (s.task j).st = .done → (s.task j).begun = true ∧ (s.task j).todo = []

theorem linv_init (W : Nat) (f : Bool) {c0 : List Nat} (hn : c0.Nodup) (ts : List (Role × Nat)) :
    LInv c0 (init W f c0 ts) :=
  ⟨hn, .nil _, fun _ _ => rfl, fun j h => by simp [init, mkTask] at h, fun j h => by simp [init, mkTask] at h,
   fun j _ h => by simp [init, mkTask] at h⟩

@[simp] theorem set_task (s : State) (i : Nat) (t : Task) (j : Nat) :
    (s.set i t).task j = if j = i then t else s.task j := rfl

@[simp] theorem set_hist (s : State) (i : Nat) (t : Task) : (s.set i t).hist = s.hist := rfl
@[simp] theorem set_content (s : State) (i : Nat) (t : Task) : (s.set i t).content = s.content := rfl

theorem linv_step {c0 : List Nat} {s s' : State} {ev : Ev} (hi : LInv c0 s) (h : step s ev = some s') : LInv c0 s' := by
  cases ev with
  | resume i =>
    simp only [step] at h
    split at h
    · rename_i hc
      cases h
      refine ⟨hi.nodup, hi.legal, ?_, ?_, ?_, ?_⟩
      · intro j; by_cases hj : j = i
        · subst hj; simpa using hi.fresh j
        · simpa [hj] using hi.fresh j
      · intro j; by_cases hj : j = i
        · subst hj; simpa using hi.split j
        · simpa [hj] using hi.split j
      · intro j; by_cases hj : j = i
        · subst hj; simpa using hi.logged j
        · simpa [hj] using hi.logged j
      · intro j; by_cases hj : j = i
        · subst hj; simp
        · simpa [hj] using hi.ended j
    · cases h
  | walkBegin i =>
    simp only [step] at h
    split at h
    · rename_i hc
      cases h
      refine ⟨hi.nodup, .snoc i .iter (.list s.content) hi.legal hi.nodup ⟨rfl, rfl⟩ hi.nodup, ?_, ?_, ?_, ?_⟩
      · intro j; by_cases hj : j = i
        · subst hj; simp
        · simpa [hj] using hi.fresh j
      · intro j; by_cases hj : j = i
        · subst hj; simp [hi.fresh j hc.2.2.2]
        · simpa [hj] using hi.split j
      · intro j; by_cases hj : j = i
        · subst hj; simp
        · intro hb
          have := hi.logged j (by simpa [hj] using hb)
          simp only [set_task, hj, if_false, List.mem_append]
          exact Or.inl this
      · intro j; by_cases hj : j = i
        · subst hj; simp [hc.2.2.1]
        · simpa [hj] using hi.ended j
    · cases h
  | walkYield i c =>
    simp only [step] at h
    split at h
    · rename_i hc
      cases h
      refine ⟨hi.nodup, hi.legal, ?_, ?_, ?_, ?_⟩
      · intro j; by_cases hj : j = i
        · subst hj; simp [hc.2.2.2.1]
        · simpa [hj] using hi.fresh j
      · intro j; by_cases hj : j = i
        · subst hj
          intro _
          simp only [set_task, if_true, List.append_assoc, List.take_append_drop]
          exact hi.split j hc.2.2.2.1
        · simpa [hj] using hi.split j
      · intro j; by_cases hj : j = i
        · subst hj; simpa using hi.logged j
        · simpa [hj] using hi.logged j
      · intro j; by_cases hj : j = i
        · subst hj; simp
        · simpa [hj] using hi.ended j
    · cases h
  | walkEnd i =>
    simp only [step] at h
    split at h
    · rename_i hc
      cases h
      refine ⟨hi.nodup, hi.legal, ?_, ?_, ?_, ?_⟩
      · intro j; by_cases hj : j = i
        · subst hj; simp [hc.2.2.2]
        · simpa [hj] using hi.fresh j
      · intro j; by_cases hj : j = i
        · subst hj
          intro _
          simp only [set_task, if_true, List.append_nil]
          exact hi.split j hc.2.2.2
        · simpa [hj] using hi.split j
      · intro j; by_cases hj : j = i
        · subst hj; simpa using hi.logged j
        · simpa [hj] using hi.logged j
      · intro j; by_cases hj : j = i
        · subst hj; simp [hc.2.2.2]
        · simpa [hj] using hi.ended j
    · cases h
  | write i =>
    simp only [step] at h
    split at h
    · cases h
    · rename_i ins x hrole
      split at h
      · rename_i hc
        have hfr : ∀ (t' : Task), t'.begun = (s.task i).begun → t'.visited = (s.task i).visited →
            t'.todo = (s.task i).todo → t'.snap = (s.task i).snap → t'.role = (s.task i).role →
            ∀ (hist' : List (Nat × TS.Op × TS.Ret)), (∀ e, e ∈ s.hist → e ∈ hist') →
            (∀ j, ((s.set i t').task j).begun = false → ((s.set i t').task j).visited = []) ∧
            (∀ j, ((s.set i t').task j).begun = true →
              ((s.set i t').task j).visited ++ ((s.set i t').task j).todo = ((s.set i t').task j).snap) ∧
            (∀ j, ((s.set i t').task j).begun = true → (j, TS.Op.iter, TS.Ret.list ((s.set i t').task j).snap) ∈ hist') ∧
            (∀ j, ((s.set i t').task j).role = .walker → ((s.set i t').task j).st = .done →
              ((s.set i t').task j).begun = true ∧ ((s.set i t').task j).todo = []) := by
          intro t' hb hv ht hs hro hist' hsub
          refine ⟨?_, ?_, ?_, ?_⟩
          · intro j; by_cases hj : j = i
            · subst hj; simpa [hb, hv] using hi.fresh j
            · simpa [hj] using hi.fresh j
          · intro j; by_cases hj : j = i
            · subst hj; simpa [hb, hv, ht, hs] using hi.split j
            · simpa [hj] using hi.split j
          · intro j; by_cases hj : j = i
            · subst hj
              intro hb'
              simp only [set_task, if_true] at hb' ⊢
              rw [hs]; exact hsub _ (hi.logged j (hb ▸ hb'))
            · intro hb'
              simp only [set_task, hj, if_false] at hb' ⊢
              exact hsub _ (hi.logged j hb')
          · intro j; by_cases hj : j = i
            · subst hj
              intro hw
              simp only [set_task, if_true] at hw
              rw [hro, hrole] at hw
              cases hw
            · simpa [hj] using hi.ended j
        split at h
        · -- insert
          generalize hins : TS.insertInto s.content x = p at h
          obtain ⟨l, r⟩ := p
          simp only [Option.some.injEq] at h
          subst h
          obtain ⟨hr, hmem, hnd⟩ := TS.insertInto_spec hins
          obtain ⟨h1, h2, h3, h4⟩ := hfr { s.task i with st := .done } rfl rfl rfl rfl rfl
            (s.hist ++ [(i, .ins x, .bool r)]) (fun e he => List.mem_append_left _ he)
          exact ⟨hnd hi.nodup, .snoc i (.ins x) (.bool r) hi.legal hi.nodup ⟨hr, hmem⟩ (hnd hi.nodup), h1, h2, h3, h4⟩
        · cases h
          obtain ⟨hmem, hnd⟩ := TS.erase_spec x hi.nodup
          obtain ⟨h1, h2, h3, h4⟩ := hfr { s.task i with st := .done } rfl rfl rfl rfl rfl
            (s.hist ++ [(i, .rem x, .bool (decide (x ∈ s.content)))]) (fun e he => List.mem_append_left _ he)
          exact ⟨hnd, .snoc i (.rem x) (.bool (decide (x ∈ s.content))) hi.legal hi.nodup ⟨rfl, hmem⟩ hnd, h1, h2, h3, h4⟩
      · cases h

theorem reachable_linv {W : Nat} {f : Bool} {c0 : List Nat} {ts : List (Role × Nat)} {s : State} (hn : c0.Nodup)
    (hr : Reachable W f c0 ts s) : LInv c0 s := by
  induction hr with
  | init => exact linv_init _ _ hn _
  | step ev _ hs ih => exact linv_step ih hs

end QbiceVerif.Lts.WK
