/-
Lemmas about the extended core engine model, part 5: the clean path (`clean_query`).
-/
import QbiceVerif.Lemmas.EngineCoreFw4
namespace Qbice.CoreFw
open Qbice.Core (Prog Err Write SetRes allVals evalProg applyWorld Sat TraceOK)

theorem front_of_node {s : St} {d : Key} {nd : Node} (h : s.nodes d = some nd) :
    front s d = contrib nd.kind d nd.tfc := by simp [front, h]

/-- `clean_query` with a recomputed set: the node keeps kind, value and recorded reads; its set is
    recomputed from the callees and all fingerprints are refreshed (`f1q`).  Some non-firewall callee's
    set differs from the fingerprint seen (that is why the set is recomputed). -/
theorem Inv.setMoved {p : Program} {s : St} (inv : Inv p s) {k : Key} {n : Node}
    (hk : s.nodes k = some n) (hkp : n.kind ≠ .projection) (hnv : n.lastVerified ≠ s.epoch)
    (hdeps : ∀ d o, (d, o) ∈ n.deps → ∃ nd, s.nodes d = some nd ∧ nd.value = o ∧ Solid s d)
    (hw : ∃ d o nd, (d, o) ∈ n.deps ∧ s.nodes d = some nd ∧ nd.kind ≠ .firewall ∧ nd.tfc ≠ n.seen d) :
    let n' : Node := { n with lastVerified := s.epoch, tfc := recomputeTfc s n.deps, seen := tfcOf s }
    Inv p (setNode s k n') ∧ Frame p s (setNode s k n') ∧
      ∀ d o, (d, o) ∈ n.deps → Solid (setNode s k n') d := by
  intro n'
  obtain ⟨wd, wo, wnd, wm, wnode, wk, wne⟩ := hw
  have hns : ¬ Solid s k := by
    intro h
    cases h with
    | mk _ n0 h0 _ _ hval _ =>
      rw [hk] at h0; cases h0
      obtain ⟨nd, hnd, _, hacc⟩ := hval wd wo wm
      rw [wnode] at hnd; cases hnd
      exact wne (hacc wk)
  have hng : ¬ NGood s k := by
    intro h
    cases h with
    | mk _ n0 h0 hval _ =>
      rw [hk] at h0; cases h0
      obtain ⟨nd, hnd, _, hacc⟩ := hval wd wo wm
      rw [wnode] at hnd; cases hnd
      exact wne (hacc wk)
  obtain ⟨dk, hpk, hkk, hleaf⟩ := inv.kind k n hk
  have hkin : n.kind ≠ .input := fun h => by rw [(hleaf (Or.inl h)).1] at wm; cases wm
  have hkex : n.kind ≠ .external := fun h => by rw [(hleaf (Or.inr h)).1] at wm; cases wm
  have hcase : (n.kind = .firewall ∧ n'.value = n.value) ∨
      (n.kind = .projection ∧ n'.value = n.value ∧ n'.tfc = n.tfc) ∨ (n.kind = .normal ∧ ¬ NGood s k) := by
    cases hkn : n.kind with
    | input => exact absurd hkn hkin
    | external => exact absurd hkn hkex
    | projection => exact absurd hkn hkp
    | firewall => exact Or.inl ⟨rfl, rfl⟩
    | normal => exact Or.inr (Or.inr ⟨rfl, hng⟩)
  have n3k : (setNode s k n').nodes k = some n' := by simp [setNode]
  have n3o : ∀ x, x ≠ k → (setNode s k n').nodes x = s.nodes x := by
    intro x hx; simp [setNode, hx]
  have e3 : (setNode s k n').epoch = s.epoch := rfl
  have d3 : (setNode s k n').dirty = s.dirty := rfl
  have w3 : (setNode s k n').world = s.world := rfl
  have l3 : (setNode s k n').log = s.log := rfl
  generalize setNode s k n' = s3 at n3k n3o e3 d3 w3 l3 ⊢
  have sol : ∀ x, Solid s x → Solid s3 x := fun x hx => hx.avoid hns e3 n3o
  have ng : ∀ x, NGood s x → x ≠ k → NGood s3 x := fun x hx hxk =>
    hx.avoid hk n3k n3o rfl hcase hxk
  -- a node of `s3` other than `k`
  have depNode : ∀ d nd, s.nodes d = some nd →
      ∃ nd', s3.nodes d = some nd' ∧ nd'.kind = nd.kind ∧ nd'.value = nd.value ∧ (d ≠ k → nd' = nd) := by
    intro d nd hnd
    by_cases e : d = k
    · subst e; rw [hk] at hnd; cases hnd; exact ⟨n', n3k, rfl, rfl, fun h => absurd rfl h⟩
    · exact ⟨nd, by rw [n3o d e]; exact hnd, rfl, rfl, fun _ => rfl⟩
  have depLt : ∀ d o, (d, o) ∈ n.deps → d ≠ k := fun d o hm => by
    have := (inv.down k n hk d o hm).1; komega
  have i3 : Inv p s3 := by
    constructor
    · intro x nx hx
      by_cases e : x = k
      · subst e; rw [n3k] at hx; cases hx
        exact ⟨dk, hpk, hkk, fun h => by rcases h with h | h; exact absurd h hkin; exact absurd h hkex⟩
      · rw [n3o x e] at hx; exact inv.kind x nx hx
    · intro x nx hx hkx d o nd' hm hnd'
      by_cases e : x = k
      · subst e; rw [n3k] at hx; cases hx; exact absurd hkx hkp
      · rw [n3o x e] at hx
        obtain ⟨_, nd, hnd⟩ := inv.down x nx hx d o hm
        obtain ⟨nd'', hnd'', hkd, _⟩ := depNode d nd hnd
        rw [hnd'] at hnd''; cases hnd''
        rw [hkd]; exact inv.pjKinds x nx hx hkx d o nd hm hnd
    · intro x nx dx ks hx hpx hkx hst
      by_cases e : x = k
      · subst e; rw [n3k] at hx; cases hx; exact absurd hkx hkp
      · rw [n3o x e] at hx
        refine inv.pjStat_transfer ?_ hx hpx hkx hst
        intro d nd hnd hkd
        by_cases ed : d = k
        · subst ed
          rw [hk] at hnd; cases hnd
          rcases hkd with hkd | ⟨hkd, _⟩
          · simp only [front, n3k, hk]
            show contrib n.kind d _ = contrib n.kind d _
            rw [hkd]; rfl
          · exact absurd hkd hkp
        · simp only [front, n3o d ed]
    · intro x nx g o gn hx hm hg hkg hsg
      have hgk : g ≠ k := by
        intro e; subst e; rw [n3k] at hg; cases hg; exact hkp hkg
      rw [n3o g hgk] at hg
      by_cases e : x = k
      · subst e; rw [n3k] at hx; cases hx
        show tfcOf s g = gn.tfc
        simp [tfcOf, hg]
      · rw [n3o x e] at hx
        exact inv.pjSeen x nx g o gn hx hm hg hkg hsg
    · intro g gn hg hkg hsg hpg
      have hgk : g ≠ k := by
        intro e; subst e; rw [n3k] at hg; cases hg; exact hkp hkg
      rw [n3o g hgk] at hg
      obtain ⟨c, o, hm, hpc⟩ := inv.pjCause g gn hg hkg hsg hpg
      refine ⟨c, o, hm, ?_⟩
      by_cases ec : c = k
      · subst ec
        simp only [hasPending, n3k]
        simpa [hasPending, hk] using hpc
      · simpa [hasPending, n3o c ec] using hpc
    · intro x nx hx hkx d o nd' hm hnd' hne
      by_cases e : x = k
      · subst e; rw [n3k] at hx; cases hx; exact absurd hkx hkp
      · rw [n3o x e] at hx
        by_cases ed : d = k
        · subst ed
          rw [n3k] at hnd'; cases hnd'
          exact inv.pjBroken x nx hx hkx d o n hm hk hne
        · rw [n3o d ed] at hnd'
          exact inv.pjBroken x nx hx hkx d o nd' hm hnd' hne
    · intro x nx hx d o hm
      have h0 : ∃ nx0, s.nodes x = some nx0 ∧ nx.deps = nx0.deps := by
        by_cases e : x = k
        · subst e; rw [n3k] at hx; cases hx; exact ⟨n, hk, rfl⟩
        · rw [n3o x e] at hx; exact ⟨nx, hx, rfl⟩
      obtain ⟨nx0, h0, hd0⟩ := h0
      rw [hd0] at hm
      obtain ⟨h1, nd, hnd⟩ := inv.down x nx0 h0 d o hm
      obtain ⟨nd', hnd', _⟩ := depNode d nd hnd
      exact ⟨h1, nd', hnd'⟩
    · intro x nx hx f hf
      by_cases e : x = k
      · subst e; rw [n3k] at hx; cases hx
        obtain ⟨d, o, hm, hfd⟩ := mem_recomputeTfc.1 hf
        have := inv.front_lt hfd
        have := (inv.down x n hk d o hm).1
        komega
      · rw [n3o x e] at hx; exact inv.tfcDown x nx hx f hf
    · intro x nx hx
      by_cases e : x = k
      · subst e; rw [n3k] at hx; cases hx; exact inv.nodup x n hk
      · rw [n3o x e] at hx; exact inv.nodup x nx hx
    · intro x nx d hx
      by_cases e : x = k
      · subst e; rw [n3k] at hx; cases hx; exact inv.trace x n d hk
      · rw [n3o x e] at hx; exact inv.trace x nx d hx
    · intro x nx hx
      rw [e3]
      by_cases e : x = k
      · subst e; rw [n3k] at hx; cases hx; exact Nat.le_refl _
      · rw [n3o x e] at hx; exact inv.stamp x nx hx
    · intro x nx hx d o nd' hm hnd'
      by_cases e : x = k
      · subst e; rw [n3k] at hx; cases hx
        have hdk := depLt d o hm
        rw [n3o d hdk] at hnd'
        refine ⟨fun hf => ?_, fun hnm f hf => ?_⟩
        · exact mem_recomputeTfc.2 ⟨d, o, hm, by rw [front_of_node hnd', hf]; simp [contrib]⟩
        · refine mem_recomputeTfc.2 ⟨d, o, hm, ?_⟩
          have hf' : f ∈ tfcOf s d := hf
          rw [front_of_node hnd']
          rcases hnm with hnm | hnm <;> rw [hnm] <;> simpa [contrib, tfcOf, hnd'] using hf'
      · rw [n3o x e] at hx
        obtain ⟨_, nd, hnd⟩ := inv.down x nx hx d o hm
        obtain ⟨nd'', hnd'', hkd, _⟩ := depNode d nd hnd
        rw [hnd'] at hnd''; cases hnd''
        rw [hkd]
        exact inv.seenSub x nx hx d o nd hm hnd
    · intro x nx hx hvx
      by_cases e : x = k
      · subst e; rw [n3k] at hx; cases hx
        refine Solid.mk x n' n3k (fun _ => hvx) (fun _ => Or.inl hvx) ?_ ?_
        · intro d o hm
          obtain ⟨nd, hnd, hvd, _⟩ := hdeps d o hm
          refine ⟨nd, by rw [n3o d (depLt d o hm)]; exact hnd, hvd, fun _ => ?_⟩
          show nd.tfc = tfcOf s d
          simp [tfcOf, hnd]
        · intro d o hm
          obtain ⟨nd, hnd, hvd, hs⟩ := hdeps d o hm
          exact sol d hs
      · rw [n3o x e] at hx
        exact sol x (inv.solid x nx hx (by rw [hvx, e3]))
    · intro x nx hx y o hm hcl
      rw [d3] at hcl
      by_cases e : x = k
      · subst e; rw [n3k] at hx; cases hx
        obtain ⟨nd, hnd, hvd, hs⟩ := hdeps y o hm
        refine ⟨nd, by rw [n3o y (depLt y o hm)]; exact hnd, hvd, fun _ => ?_, fun _ => (sol y hs).nGood⟩
        show nd.tfc = tfcOf s y
        simp [tfcOf, hnd]
      · rw [n3o x e] at hx
        obtain ⟨ny, hny, hvy, hacc, hgood⟩ := inv.clean x nx hx y o hm hcl
        by_cases ey : y = k
        · subst ey
          rw [hk] at hny; cases hny
          rcases hcase with ⟨hf, _⟩ | ⟨hf, _⟩ | ⟨hnm, hng'⟩
          · exact ⟨n', n3k, hvy, fun h => absurd hf h, fun h => by rw [show n'.kind = n.kind from rfl, hf] at h; cases h⟩
          · exact absurd hf hkp
          · exact absurd (hgood hnm) hng'
        · exact ⟨ny, by rw [n3o y ey]; exact hny, hvy, hacc, fun h => ng y (hgood h) ey⟩
  have hin : inputsOf s3 = inputsOf s := by
    funext x
    simp only [inputsOf]
    by_cases e : x = k
    · subst e; rw [n3k, hk]
    · rw [n3o x e]
  have hpin : pinsOf s3 = pinsOf s := by
    funext x
    simp only [pinsOf]
    by_cases e : x = k
    · subst e; rw [n3k, hk]
    · rw [n3o x e]
  refine ⟨i3, ⟨e3, hin, by simp only [extOf, hpin, w3], w3, ?_, ?_, ?_, ?_, ?_⟩, fun d o hm => ?_⟩
  · intro x nx hsx hx
    have : x ≠ k := fun e => hns (e ▸ hsx)
    exact ⟨nx, by rw [n3o x this]; exact hx, rfl, rfl, rfl, rfl, rfl, id⟩
  · intro x nx hx hvx
    have : x ≠ k := fun e => by subst e; rw [hk] at hx; cases hx; exact hnv hvx
    exact ⟨nx, by rw [n3o x this]; exact hx, rfl, rfl⟩
  · intro x nx' hx' hp
    by_cases e : x = k
    · subst e; rw [n3k] at hx'; cases hx'; exact ⟨n, hk, Or.inl hp⟩
    · exact ⟨nx', by rw [← n3o x e]; exact hx', Or.inl hp⟩
  · intro x
    by_cases e : x = k
    · subst e; exact Or.inr ⟨n', n3k, e3.symm⟩
    · exact Or.inl (n3o x e)
  · apply Frame.log_nil l3
    intro x hx
    by_cases e : x = k
    · subst e; rw [hk] at hx; cases hx
    · rw [n3o x e]; exact hx
  · obtain ⟨_, _, _, hs⟩ := hdeps d o hm
    exact sol d hs

end Qbice.CoreFw
