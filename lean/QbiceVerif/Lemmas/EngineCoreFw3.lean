/-
Lemmas about the extended core engine model, part 3: sorted-set membership, dirty propagation
(`affected` / `markDirty`), replacing a node whose recorded data change (`NGood.avoid`,
`Solid.avoid`), `repair_query` (`repairDeps_spec`) and the clean path (`clean_spec`).
-/
import QbiceVerif.Lemmas.EngineCoreFw2
namespace Qbice.CoreFw
open Qbice.Core (Prog Err Write SetRes allVals evalProg applyWorld Sat TraceOK)

-- ------------------------------------------------------------------ sorted sets

theorem mem_insertSorted {x k : Key} {l : List Key} :
    x ∈ Qbice.Engine.insertSorted k l ↔ x = k ∨ x ∈ l := by
  induction l with
  | nil => simp [Qbice.Engine.insertSorted]
  | cons a r ih =>
    simp only [Qbice.Engine.insertSorted]
    split
    · simp
    · split
      · rename_i h; subst h; simp
      · simp only [List.mem_cons, ih]
        constructor
        · rintro (h | h | h)
          · exact Or.inr (Or.inl h)
          · exact Or.inl h
          · exact Or.inr (Or.inr h)
        · rintro (h | h | h)
          · exact Or.inr (Or.inl h)
          · exact Or.inl h
          · exact Or.inr (Or.inr h)

theorem mem_unionSorted {x : Key} {a b : List Key} :
    x ∈ Qbice.Engine.unionSorted a b ↔ x ∈ a ∨ x ∈ b := by
  unfold Qbice.Engine.unionSorted
  induction a generalizing b with
  | nil => simp
  | cons k r ih =>
    simp only [List.foldl_cons, ih, mem_insertSorted, List.mem_cons]
    constructor
    · rintro (h | h | h)
      · exact Or.inl (Or.inr h)
      · exact Or.inl (Or.inl h)
      · exact Or.inr h
    · rintro ((h | h) | h)
      · exact Or.inr (Or.inl h)
      · exact Or.inl h
      · exact Or.inr (Or.inr h)

theorem mem_recomputeTfc {s : St} {f : Key} {deps : List (Key × Val)} :
    f ∈ recomputeTfc s deps ↔ ∃ d o, (d, o) ∈ deps ∧ f ∈ front s d := by
  induction deps with
  | nil => simp [recomputeTfc]
  | cons e rest ih =>
    obtain ⟨d, o⟩ := e
    simp only [recomputeTfc, mem_unionSorted, ih, List.mem_cons]
    constructor
    · rintro (h | ⟨d', o', hm, hf⟩)
      · exact ⟨d, o, Or.inl rfl, h⟩
      · exact ⟨d', o', Or.inr hm, hf⟩
    · rintro ⟨d', o', hm | hm, hf⟩
      · cases hm; exact Or.inl hf
      · exact Or.inr ⟨d', o', hm, hf⟩

/-- the frontier contribution of a callee lies below the caller -/
theorem Inv.front_lt {p : Program} {s : St} (inv : Inv p s) {d f : Key} (hf : f ∈ front s d) :
    f ≤ d := by
  simp only [front] at hf
  cases hd : s.nodes d with
  | none => rw [hd] at hf; cases hf
  | some nd =>
    rw [hd] at hf
    simp only at hf
    cases hk : nd.kind <;> rw [hk] at hf <;> simp only [contrib] at hf
    · cases hf
    · exact Nat.le_of_lt (inv.tfcDown d nd hd f hf)
    · cases hf
    · simp at hf; exact Nat.le_of_eq hf
    · exact Nat.le_of_lt (inv.tfcDown d nd hd f hf)

-- ------------------------------------------------------------------ dirty propagation

theorem any_congr_mem {α : Type} {l : List α} {f g : α → Bool} (h : ∀ a, a ∈ l → f a = g a) :
    l.any f = l.any g := by
  induction l with
  | nil => rfl
  | cons a rest ih =>
    simp only [List.any_cons]
    rw [h a (List.mem_cons_self ..), ih (fun b hb => h b (List.mem_cons_of_mem _ hb))]

theorem affected_stable {s : St} (ch : List Key)
    (down : ∀ x n, s.nodes x = some n → ∀ d o, (d, o) ∈ n.deps → d < x) :
    ∀ x f, x < f → affected s ch f x = affected s ch (x + 1) x := by
  intro x
  induction x using Nat.strongRecOn with
  | _ x ih =>
    intro f hf
    obtain ⟨f', rfl⟩ : ∃ f', f = f' + 1 := ⟨f - 1, by omega⟩
    simp only [affected]
    cases hn : s.nodes x with
    | none => rfl
    | some n =>
      simp only
      congr 2
      apply any_congr_mem
      rintro ⟨d, o⟩ hm
      have hlt : d < x := down x n hn d o hm
      simp only
      rw [ih d hlt f' (by komega), ih d hlt x hlt]

/-- unfolding of `affected` at its own fuel -/
theorem affected_step {s : St} (ch : List Key)
    (down : ∀ x n, s.nodes x = some n → ∀ d o, (d, o) ∈ n.deps → d < x) (x : Key) :
    affected s ch (x + 1) x = (ch.contains x ||
      (match s.nodes x with
       | some n => !isFwPj n.kind && n.deps.any (fun d => affected s ch (d.1 + 1) d.1)
       | none => false)) := by
  simp only [affected]
  cases hn : s.nodes x with
  | none => rfl
  | some n =>
    simp only
    congr 2
    apply any_congr_mem
    rintro ⟨d, o⟩ hm
    exact affected_stable ch down d x (down x n hn d o hm)

theorem hasEdge_iff {s : St} {c x : Key} :
    hasEdge s c x = true ↔ ∃ n o, s.nodes c = some n ∧ (x, o) ∈ n.deps := by
  simp only [hasEdge]
  cases s.nodes c with
  | none => simp
  | some n =>
    simp only [Qbice.Core.any_key_iff]
    constructor
    · rintro ⟨o, h⟩; exact ⟨n, o, rfl, h⟩
    · rintro ⟨n', o, h, hm⟩; cases h; exact ⟨o, hm⟩

/-- an edge that is clean after a propagation was clean before, and its callee is unaffected -/
theorem markDirty_clean {s : St} {ch : List Key} {x y : Key} {n : Node} {o : Val}
    (hx : s.nodes x = some n) (hm : (y, o) ∈ n.deps) (h : (markDirty s ch).dirty x y = false) :
    s.dirty x y = false ∧ affected s ch (y + 1) y = false := by
  simp only [markDirty, Bool.or_eq_false_iff] at h
  obtain ⟨h1, h2⟩ := h
  rw [hasEdge_iff.2 ⟨n, o, hx, hm⟩, Bool.true_and] at h2
  exact ⟨h1, h2⟩

/-- an `NGood` key that is not affected by the change of the keys `ch`: no key of `ch` is read in its
    cone down to the firewall boundary -/
theorem NGood.unaffected {s s' : St} {ch : List Key}
    (down : ∀ x n, s.nodes x = some n → ∀ d o, (d, o) ∈ n.deps → d < x)
    (hn : ∀ y, y ∉ ch → s'.nodes y = s.nodes y) {x : Key} (h : NGood s x) :
    ∀ n, s.nodes x = some n → n.kind = .normal → affected s ch (x + 1) x = false → NGood s' x := by
  induction h with
  | mk k n hk hval hsub ih =>
    intro n' hk' hkn ha
    rw [hk] at hk'; cases hk'
    rw [affected_step ch down, hk] at ha
    simp only [Bool.or_eq_false_iff, hkn, isFwPj] at ha
    obtain ⟨hch, hany⟩ := ha
    have hkch : k ∉ ch := fun h => by rw [List.contains_iff_mem.2 h] at hch; cases hch
    have hany : n.deps.any (fun d => affected s ch (d.1 + 1) d.1) = false := by simpa using hany
    have hdep : ∀ d o, (d, o) ∈ n.deps → affected s ch (d + 1) d = false := by
      intro d o hm
      rw [List.any_eq_false] at hany
      simpa using hany (d, o) hm
    have hdch : ∀ d o, (d, o) ∈ n.deps → d ∉ ch := by
      intro d o hm hc
      have := hdep d o hm
      rw [affected_step ch down, List.contains_iff_mem.2 hc] at this
      cases this
    refine NGood.mk k n (by rw [hn k hkch]; exact hk) ?_ ?_
    · intro d o hm
      obtain ⟨nd, hnd, r⟩ := hval d o hm
      exact ⟨nd, by rw [hn d (hdch d o hm)]; exact hnd, r⟩
    · intro d o nd hm hnd hkd
      rw [hn d (hdch d o hm)] at hnd
      exact ih d o nd hm hnd hkd nd hnd hkd (hdep d o hm)

/-- replacing the node of `k` (same kind) keeps `NGood` of the other keys, provided `k` is a firewall
    or projection that keeps its value and its set, or a normal key that is not `NGood` itself -/
theorem NGood.avoid {s s' : St} {k : Key} {nk nk' : Node} (hk : s.nodes k = some nk)
    (hk' : s'.nodes k = some nk') (hn : ∀ y, y ≠ k → s'.nodes y = s.nodes y)
    (hki : nk'.kind = nk.kind)
    (hcase : (nk.kind = .firewall ∧ nk'.value = nk.value) ∨
      (nk.kind = .projection ∧ nk'.value = nk.value ∧ nk'.tfc = nk.tfc) ∨
      (nk.kind = .normal ∧ ¬ NGood s k))
    {x : Key} (h : NGood s x) : x ≠ k → NGood s' x := by
  induction h with
  | mk x n hx hval hsub ih =>
    intro hxk
    refine NGood.mk x n (by rw [hn x hxk]; exact hx) ?_ ?_
    · intro d o hm
      obtain ⟨nd, hnd, hvd, hacc⟩ := hval d o hm
      by_cases e : d = k
      · subst e
        rw [hk] at hnd; cases hnd
        rcases hcase with ⟨hf, hv⟩ | ⟨_, hv, ht⟩ | ⟨hnm, hng⟩
        · exact ⟨nk', hk', by rw [hv, hvd], fun hne => absurd (hki ▸ hf) hne⟩
        · exact ⟨nk', hk', by rw [hv, hvd], fun hne => by rw [ht]; exact hacc (by rw [← hki]; exact hne)⟩
        · exact absurd (hsub d o nk hm hk hnm) hng
      · exact ⟨nd, by rw [hn d e]; exact hnd, hvd, hacc⟩
    · intro d o nd' hm hnd' hkd
      by_cases e : d = k
      · subst e
        rw [hk'] at hnd'; cases hnd'
        rw [hki] at hkd
        rcases hcase with ⟨hf, _⟩ | ⟨hf, _⟩ | ⟨_, hng⟩
        · rw [hf] at hkd; cases hkd
        · rw [hf] at hkd; cases hkd
        · exact absurd (hsub d o nk hm hk hkd) hng
      · rw [hn d e] at hnd'
        exact ih d o nd' hm hnd' hkd e

/-- creating a node for a key that had none keeps `NGood` -/
theorem NGood.fresh {s s' : St} {k : Key} (hk : s.nodes k = none)
    (hn : ∀ y, y ≠ k → s'.nodes y = s.nodes y) {x : Key} (h : NGood s x) : NGood s' x := by
  induction h with
  | mk x n hx hval hsub ih =>
    have hxk : x ≠ k := fun e => by subst e; rw [hk] at hx; cases hx
    refine NGood.mk x n (by rw [hn x hxk]; exact hx) ?_ ?_
    · intro d o hm
      obtain ⟨nd, hnd, r⟩ := hval d o hm
      have hdk : d ≠ k := fun e => by subst e; rw [hk] at hnd; cases hnd
      exact ⟨nd, by rw [hn d hdk]; exact hnd, r⟩
    · intro d o nd' hm hnd' hkd
      obtain ⟨nd, hnd, _⟩ := hval d o hm
      have hdk : d ≠ k := fun e => by subst e; rw [hk] at hnd; cases hnd
      rw [hn d hdk] at hnd'
      exact ih d o nd' hm hnd' hkd

/-- replacing the node of a key that is not `Solid` keeps `Solid` of all keys -/
theorem Solid.avoid {s s' : St} {k : Key} (hns : ¬ Solid s k) (he : s'.epoch = s.epoch)
    (hn : ∀ y, y ≠ k → s'.nodes y = s.nodes y) {x : Key} (h : Solid s x) : Solid s' x := by
  apply h.transfer
  intro y ny hy hny
  have : y ≠ k := fun e => hns (e ▸ hy)
  exact ⟨ny, by rw [hn y this]; exact hny, rfl, rfl, rfl, rfl, rfl, fun hv => by rw [he]; exact hv, id⟩

-- ------------------------------------------------------------------ static read sequences (class B)

theorem mem_recordKeys {ks : List Key} : ∀ {acc : List Key} {d : Key},
    d ∈ recordKeys ks acc ↔ d ∈ acc ∨ d ∈ ks := by
  induction ks with
  | nil => intro acc d; simp [recordKeys]
  | cons k rest ih =>
    intro acc d
    have : recordKeys (k :: rest) acc = recordKeys rest (if acc.contains k then acc else acc ++ [k]) := rfl
    rw [this, ih]
    by_cases hc : acc.contains k = true
    · rw [if_pos hc]
      have hk : k ∈ acc := List.contains_iff_mem.1 hc
      constructor
      · rintro (h | h)
        · exact Or.inl h
        · exact Or.inr (List.mem_cons_of_mem _ h)
      · rintro (h | h)
        · exact Or.inl h
        · rcases List.mem_cons.1 h with rfl | h
          · exact Or.inl hk
          · exact Or.inr h
    · rw [if_neg hc]
      rw [List.mem_append, List.mem_singleton, List.mem_cons]
      constructor
      · rintro ((h | h) | h)
        · exact Or.inl h
        · exact Or.inr (Or.inl h)
        · exact Or.inr (Or.inr h)
      · rintro (h | h | h)
        · exact Or.inl (Or.inl h)
        · exact Or.inl (Or.inr h)
        · exact Or.inr h

theorem foldTfc_congr {f g : Key → List Key} {ks : List Key} (h : ∀ d, d ∈ ks → f d = g d) :
    ∀ acc, foldTfc f ks acc = foldTfc g ks acc := by
  induction ks with
  | nil => intro acc; rfl
  | cons k rest ih =>
    intro acc
    have e1 : foldTfc f (k :: rest) acc = foldTfc f rest (Qbice.Engine.unionSorted (f k) acc) := rfl
    have e2 : foldTfc g (k :: rest) acc = foldTfc g rest (Qbice.Engine.unionSorted (g k) acc) := rfl
    rw [e1, e2, h k (List.mem_cons_self ..)]
    exact ih (fun d hd => h d (List.mem_cons_of_mem _ hd)) _

/-- the static facts of a projection survive a state change that keeps the frontier contribution of
    every firewall / static projection node -/
theorem Inv.pjStat_transfer {p : Program} {s s' : St} (inv : Inv p s)
    (hfront : ∀ d nd, s.nodes d = some nd →
      nd.kind = .firewall ∨ (nd.kind = .projection ∧ IsStaticKey p d) → front s' d = front s d)
    {x : Key} {nx : Node} {dx : NodeDef} {ks : List Key} (hx : s.nodes x = some nx)
    (hpx : p[x]? = some dx) (hkx : nx.kind = .projection) (hst : ProgStatic dx.prog ks) :
    nx.deps.map (·.1) = recordKeys ks [] ∧ nx.tfc = foldTfc (front s') ks [] := by
  obtain ⟨h1, h2⟩ := inv.pjStat x nx dx ks hx hpx hkx hst
  refine ⟨h1, ?_⟩
  rw [h2]
  apply foldTfc_congr
  intro d hd
  have hmem : d ∈ nx.deps.map (·.1) := by rw [h1]; exact mem_recordKeys.2 (Or.inr hd)
  rw [List.mem_map] at hmem
  obtain ⟨⟨d', o⟩, hm, rfl⟩ := hmem
  obtain ⟨_, nd, hnd⟩ := inv.down x nx hx d' o hm
  exact (hfront d' nd hnd (inv.pjKinds x nx hx hkx d' o nd hm hnd)).symm

end Qbice.CoreFw
