/-
Structural (unbounded) part of C14: the *composition rules* of the `Identifiable` impls never alias
two different type expressions, of any depth.

`from_unique_type_name`, `from_raw_parts(N,0)` and `combine` are replaced by free constructors
(`SId`); `symId?` is `typeId?` over that free algebra and `typeId? = interp ∘ symId?`.  For a table
that passes the decidable check `tableOk` (every impl is a left fold `base.combine(T1)…combine(Tk)` or
the derive's right fold `Tk.combine(… T1.combine(base))`; (name, arity) identifies a left-fold /
non-generic constructor; right-fold names are unique and differ from the non-generic names) `symId?`
is injective on ALL type expressions.  Hence two different types can only get the same id through a
collision of the 128-bit functions themselves, never through the way parameters are folded in.
-/
import QbiceVerif.Model.TypeId

namespace QbiceVerif.TypeId

/-- symbolic ids: the free algebra over `from_unique_type_name`, `from_raw_parts(n, 0)`, `combine`. -/
inductive SId where
  | nm (b : List Nat)
  | raw (n : Nat)
  | cb (a b : SId)
deriving DecidableEq, Repr

/-- the real id of a symbolic id. -/
def SId.interp : SId → Id
  | .nm b => fromName b
  | .raw n => (n % M, 0)
  | .cb a b => combine a.interp b.interp

def symEval (ps : List SId) : IdExpr → Option SId
  | .name b => some (.nm b)
  | .param i => ps[i]?
  | .combine a b =>
    match symEval ps a, symEval ps b with
    | some x, some y => some (.cb x y)
    | _, _ => none

mutual
def symId? (tbl : List Ctor) : Ty → Option SId
  | .lit n => some (.raw n)
  | .con c args =>
    match tbl[c]?, symArgs? tbl args with
    | some ct, some ids => if ids.length = ct.arity then symEval ids ct.expr else none
    | _, _ => none
def symArgs? (tbl : List Ctor) : TyList → Option (List SId)
  | .nil => some []
  | .cons t ts =>
    match symId? tbl t, symArgs? tbl ts with
    | some i, some is => some (i :: is)
    | _, _ => none
end

/-! ### `typeId? = interp ∘ symId?` -/

theorem evalExpr_interp (ps : List SId) : ∀ e : IdExpr,
    evalExpr (ps.map SId.interp) e = (symEval ps e).map SId.interp
  | .name b => rfl
  | .param i => by simp only [evalExpr, symEval, List.getElem?_map]
  | .combine a b => by
    simp only [evalExpr, symEval, evalExpr_interp ps a, evalExpr_interp ps b]
    cases symEval ps a <;> cases symEval ps b <;> rfl

mutual
theorem typeId?_eq_interp (tbl : List Ctor) : ∀ t : Ty, typeId? tbl t = (symId? tbl t).map SId.interp
  | .lit n => rfl
  | .con c args => by
    simp only [typeId?, symId?, argIds?_eq_interp tbl args]
    cases tbl[c]? with
    | none => rfl
    | some ct =>
      cases symArgs? tbl args with
      | none => rfl
      | some ids =>
        simp only [Option.map_some, List.length_map]
        split
        · exact evalExpr_interp ids ct.expr
        · rfl
theorem argIds?_eq_interp (tbl : List Ctor) : ∀ ts : TyList,
    argIds? tbl ts = (symArgs? tbl ts).map (List.map SId.interp)
  | .nil => rfl
  | .cons t ts => by
    simp only [argIds?, symArgs?, typeId?_eq_interp tbl t, argIds?_eq_interp tbl ts]
    cases symId? tbl t <;> cases symArgs? tbl ts <;> rfl
end

/-! ### left folds and right folds -/

/-- `base.combine(P0).combine(P1)…combine(P(k-1))` -/
def lfoldE (n : List Nat) : Nat → IdExpr
  | 0 => .name n
  | k + 1 => .combine (lfoldE n k) (.param k)

/-- `P(k-1).combine(… P1.combine(P0.combine(base)))` — what `#[derive(Identifiable)]` generates -/
def rfoldE (n : List Nat) : Nat → IdExpr
  | 0 => .name n
  | k + 1 => .combine (.param k) (rfoldE n k)

/-- left-nested application; arguments LAST FIRST. -/
def lform (h : SId) : List SId → SId
  | [] => h
  | a :: r => .cb (lform h r) a

/-- right-nested application; arguments LAST FIRST. -/
def rform (h : SId) : List SId → SId
  | [] => h
  | a :: r => .cb a (rform h r)

theorem symEval_lfoldE (ps : List SId) (n : List Nat) : ∀ k, k ≤ ps.length →
    symEval ps (lfoldE n k) = some (lform (.nm n) (ps.take k).reverse)
  | 0, _ => by simp [lfoldE, symEval, lform]
  | k + 1, h => by
    have hk : k < ps.length := h
    simp only [lfoldE, symEval, symEval_lfoldE ps n k (Nat.le_of_lt hk), List.getElem?_eq_getElem hk,
      List.take_succ_eq_append_getElem hk, List.reverse_concat, lform]

theorem symEval_rfoldE (ps : List SId) (n : List Nat) : ∀ k, k ≤ ps.length →
    symEval ps (rfoldE n k) = some (rform (.nm n) (ps.take k).reverse)
  | 0, _ => by simp [rfoldE, symEval, rform]
  | k + 1, h => by
    have hk : k < ps.length := h
    simp only [rfoldE, symEval, symEval_rfoldE ps n k (Nat.le_of_lt hk), List.getElem?_eq_getElem hk,
      List.take_succ_eq_append_getElem hk, List.reverse_concat, rform]

theorem lform_inj {n n' : List Nat} : ∀ {l l' : List SId},
    lform (.nm n) l = lform (.nm n') l' → n = n' ∧ l = l'
  | [], [], h => by simp only [lform, SId.nm.injEq] at h; exact ⟨h, rfl⟩
  | [], _ :: _, h => by simp [lform] at h
  | _ :: _, [], h => by simp [lform] at h
  | a :: r, a' :: r', h => by
    simp only [lform, SId.cb.injEq] at h
    obtain ⟨e1, e2⟩ := lform_inj h.1
    exact ⟨e1, by rw [h.2, e2]⟩

theorem rform_inj {n n' : List Nat} : ∀ {l l' : List SId},
    rform (.nm n) l = rform (.nm n') l' → n = n' ∧ l = l'
  | [], [], h => by simp only [rform, SId.nm.injEq] at h; exact ⟨h, rfl⟩
  | [], _ :: _, h => by simp [rform] at h
  | _ :: _, [], h => by simp [rform] at h
  | a :: r, a' :: r', h => by
    simp only [rform, SId.cb.injEq] at h
    obtain ⟨e1, e2⟩ := rform_inj h.2
    exact ⟨e1, by rw [h.1, e2]⟩

/-! ### classification of a table row -/

inductive Kind | N | L | R
deriving DecidableEq, Repr

/-- N: non-generic (`name`), L: left fold with `arity ≥ 1`, R: right fold with `arity ≥ 1`. -/
structure Cls where
  kind : Kind
  name : List Nat
  arity : Nat
deriving DecidableEq, Repr

def anyName : IdExpr → Option (List Nat)
  | .name b => some b
  | .param _ => none
  | .combine a b => match anyName a with
    | some n => some n
    | none => anyName b

def classify (c : Ctor) : Option Cls :=
  match anyName c.expr with
  | none => none
  | some n =>
    if c.arity = 0 then (if c.expr = .name n then some ⟨.N, n, 0⟩ else none)
    else if c.expr = lfoldE n c.arity then some ⟨.L, n, c.arity⟩
    else if c.expr = rfoldE n c.arity then some ⟨.R, n, c.arity⟩
    else none

/-- the symbolic id of a constructor of class `cl` applied to arguments with ids `σ`. -/
def formOf (cl : Cls) (σ : List SId) : SId :=
  match cl.kind with
  | .N => .nm cl.name
  | .L => lform (.nm cl.name) σ.reverse
  | .R => rform (.nm cl.name) σ.reverse

theorem classify_arity {c : Ctor} {cl : Cls} (h : classify c = some cl) :
    cl.arity = c.arity ∧ (cl.kind = .N ↔ cl.arity = 0) := by
  unfold classify at h
  split at h
  · exact absurd h (by simp)
  · split at h
    · split at h
      · simp only [Option.some.injEq] at h; subst h; simp_all
      · exact absurd h (by simp)
    · split at h
      · simp only [Option.some.injEq] at h; subst h; simp_all
      · split at h
        · simp only [Option.some.injEq] at h; subst h; simp_all
        · exact absurd h (by simp)

theorem classify_eval {c : Ctor} {cl : Cls} (h : classify c = some cl) {σ : List SId}
    (hl : σ.length = c.arity) : symEval σ c.expr = some (formOf cl σ) := by
  unfold classify at h
  split at h
  · exact absurd h (by simp)
  · split at h
    · split at h
      · rename_i he
        simp only [Option.some.injEq] at h; subst h
        rw [he]; rfl
      · exact absurd h (by simp)
    · split at h
      · rename_i he
        simp only [Option.some.injEq] at h; subst h
        rw [he, symEval_lfoldE σ _ _ (by omega), ← hl, List.take_length]; rfl
      · split at h
        · rename_i he
          simp only [Option.some.injEq] at h; subst h
          rw [he, symEval_rfoldE σ _ _ (by omega), ← hl, List.take_length]; rfl
        · exact absurd h (by simp)

/-! ### the decidable table condition -/

def classifyAll : List Ctor → Option (List Cls)
  | [] => some []
  | c :: r =>
    match classify c, classifyAll r with
    | some a, some l => some (a :: l)
    | _, _ => none

/-- two rows at different positions may coexist. -/
def Compat (a b : Cls) : Prop :=
  (a.kind = .R → b.kind = .R → a.name ≠ b.name) ∧
  (a.kind = .R → b.kind = .N → a.name ≠ b.name) ∧
  (a.kind = .N → b.kind = .R → a.name ≠ b.name) ∧
  (a.kind ≠ .R → b.kind ≠ .R → ¬(a.name = b.name ∧ a.arity = b.arity))

instance (a b : Cls) : Decidable (Compat a b) := by unfold Compat; infer_instance

theorem Compat.symm {a b : Cls} (h : Compat a b) : Compat b a := by
  obtain ⟨h1, h2, h3, h4⟩ := h
  exact ⟨fun x y e => h1 y x e.symm, fun x y e => h3 y x e.symm, fun x y e => h2 y x e.symm,
    fun x y e => h4 y x ⟨e.1.symm, e.2.symm⟩⟩

def pairwiseOk : List Cls → Bool
  | [] => true
  | a :: r => r.all (fun b => decide (Compat a b)) && pairwiseOk r

/-- every row is a left fold, a right fold or a plain name, and rows are pairwise compatible. -/
def tableOk (tbl : List Ctor) : Bool :=
  match classifyAll tbl with
  | some cls => pairwiseOk cls
  | none => false

theorem classifyAll_get : ∀ {tbl : List Ctor} {cls : List Cls}, classifyAll tbl = some cls →
    ∀ {c : Nat} {ct : Ctor}, tbl[c]? = some ct → ∃ cl, classify ct = some cl ∧ cls[c]? = some cl
  | [], _, _, c, ct, h => by simp at h
  | x :: r, cls, hc, c, ct, h => by
    simp only [classifyAll] at hc
    cases h1 : classify x with
    | none => simp [h1] at hc
    | some a =>
      cases h2 : classifyAll r with
      | none => simp [h1, h2] at hc
      | some l =>
        simp only [h1, h2, Option.some.injEq] at hc
        subst hc
        cases c with
        | zero =>
          simp only [List.getElem?_cons_zero, Option.some.injEq] at h
          subst h
          exact ⟨a, h1, rfl⟩
        | succ c =>
          simp only [List.getElem?_cons_succ] at h
          obtain ⟨cl, e1, e2⟩ := classifyAll_get h2 h
          exact ⟨cl, e1, by simpa using e2⟩

theorem pairwiseOk_lt : ∀ {cls : List Cls}, pairwiseOk cls = true →
    ∀ {i j : Nat} {a b : Cls}, i < j → cls[i]? = some a → cls[j]? = some b → Compat a b
  | [], _, i, j, a, b, _, h, _ => by simp at h
  | x :: r, hp, i, j, a, b, hij, hi, hj => by
    simp only [pairwiseOk, Bool.and_eq_true, List.all_eq_true, decide_eq_true_eq] at hp
    cases j with
    | zero => omega
    | succ j =>
      simp only [List.getElem?_cons_succ] at hj
      cases i with
      | zero =>
        simp only [List.getElem?_cons_zero, Option.some.injEq] at hi
        subst hi
        exact hp.1 b (List.mem_of_getElem? hj)
      | succ i =>
        simp only [List.getElem?_cons_succ] at hi
        exact pairwiseOk_lt hp.2 (by omega) hi hj

theorem pairwiseOk_ne {cls : List Cls} (hp : pairwiseOk cls = true) {i j : Nat} {a b : Cls}
    (hij : i ≠ j) (hi : cls[i]? = some a) (hj : cls[j]? = some b) : Compat a b := by
  rcases Nat.lt_or_gt_of_ne hij with h | h
  · exact pairwiseOk_lt hp h hi hj
  · exact (pairwiseOk_lt hp h hj hi).symm

/-! ### what the main proof needs from a table -/

structure TableFacts (tbl : List Ctor) : Prop where
  cls_exists : ∀ {c : Nat} {ct : Ctor}, tbl[c]? = some ct → ∃ cl, classify ct = some cl
  compat : ∀ {c c' : Nat} {ct ct' : Ctor} {cl cl' : Cls}, tbl[c]? = some ct → tbl[c']? = some ct' →
    classify ct = some cl → classify ct' = some cl' → c ≠ c' → Compat cl cl'

theorem tableFacts_of_ok {tbl : List Ctor} (h : tableOk tbl = true) : TableFacts tbl := by
  unfold tableOk at h
  cases hc : classifyAll tbl with
  | none => simp [hc] at h
  | some cls =>
    simp only [hc] at h
    refine ⟨fun {c ct} e => ?_, fun {c c' ct ct' cl cl'} e e' k k' ne => ?_⟩
    · obtain ⟨cl, e1, _⟩ := classifyAll_get hc e
      exact ⟨cl, e1⟩
    · obtain ⟨a, ea, ga⟩ := classifyAll_get hc e
      obtain ⟨b, eb, gb⟩ := classifyAll_get hc e'
      rw [k, Option.some.injEq] at ea
      rw [k', Option.some.injEq] at eb
      subst ea; subst eb
      exact pairwiseOk_ne h ne ga gb

theorem symId_lit {tbl : List Ctor} {n : Nat} {s : SId} (h : symId? tbl (.lit n) = some s) : s = .raw n := by
  simp only [symId?, Option.some.injEq] at h; exact h.symm

/-- the id of `con c args`: its row, the ids of the arguments, and the form. -/
theorem symId_view {tbl : List Ctor} (F : TableFacts tbl) {c : Nat} {args : TyList} {s : SId}
    (h : symId? tbl (.con c args) = some s) :
    ∃ ct cl σ, tbl[c]? = some ct ∧ classify ct = some cl ∧ symArgs? tbl args = some σ ∧
      σ.length = cl.arity ∧ s = formOf cl σ := by
  simp only [symId?] at h
  cases hc : tbl[c]? with
  | none => simp [hc] at h
  | some ct =>
    cases ha : symArgs? tbl args with
    | none => simp [hc, ha] at h
    | some σ =>
      simp only [hc, ha] at h
      split at h
      · rename_i hl
        obtain ⟨cl, hcl⟩ := F.cls_exists hc
        rw [classify_eval hcl hl, Option.some.injEq] at h
        exact ⟨ct, cl, σ, rfl, hcl, rfl, by rw [(classify_arity hcl).1, hl], h.symm⟩
      · exact absurd h (by simp)

theorem exists_rev_cons {σ : List SId} (h : σ.length ≠ 0) : ∃ a r, σ.reverse = a :: r ∧ a ∈ σ := by
  cases hr : σ.reverse with
  | nil =>
    have : σ.reverse.length = 0 := by rw [hr]; rfl
    rw [List.length_reverse] at this
    exact absurd this h
  | cons a r =>
    refine ⟨a, r, rfl, ?_⟩
    have : a ∈ σ.reverse := by rw [hr]; exact List.mem_cons_self
    exact List.mem_reverse.mp this

theorem formOf_N {cl : Cls} (k : cl.kind = .N) (σ : List SId) : formOf cl σ = .nm cl.name := by
  unfold formOf; rw [k]

theorem formOf_L {cl : Cls} (k : cl.kind = .L) {σ : List SId} {a : SId} {r : List SId}
    (e : σ.reverse = a :: r) : formOf cl σ = .cb (lform (.nm cl.name) r) a := by
  unfold formOf; rw [k]; simp only [e, lform]

theorem formOf_R {cl : Cls} (k : cl.kind = .R) {σ : List SId} {a : SId} {r : List SId}
    (e : σ.reverse = a :: r) : formOf cl σ = .cb a (rform (.nm cl.name) r) := by
  unfold formOf; rw [k]; simp only [e, rform]

theorem arity_ne_zero {c : Ctor} {cl : Cls} (h : classify c = some cl) (k : cl.kind ≠ .N) : cl.arity ≠ 0 :=
  fun e => k ((classify_arity h).2.mpr e)

/-- a type whose id is a bare name is a non-generic row with that name. -/
theorem nm_ty {tbl : List Ctor} (F : TableFacts tbl) {t : Ty} {n : List Nat}
    (h : symId? tbl t = some (.nm n)) :
    ∃ (c : Nat) (ct : Ctor) (cl : Cls), tbl[c]? = some ct ∧ classify ct = some cl ∧ cl.kind = .N ∧ cl.name = n := by
  cases t with
  | lit m => exact absurd (symId_lit h) (by simp)
  | con c args =>
    obtain ⟨ct, cl, σ, hc, hcl, _, hlen, hs⟩ := symId_view F h
    cases k : cl.kind with
    | N =>
      rw [formOf_N k, SId.nm.injEq] at hs
      exact ⟨c, ct, cl, hc, hcl, k, hs.symm⟩
    | L =>
      obtain ⟨a, r, e, _⟩ := exists_rev_cons (σ := σ) (by rw [hlen]; exact arity_ne_zero hcl (by simp [k]))
      rw [formOf_L k e] at hs
      exact absurd hs (by simp)
    | R =>
      obtain ⟨a, r, e, _⟩ := exists_rev_cons (σ := σ) (by rw [hlen]; exact arity_ne_zero hcl (by simp [k]))
      rw [formOf_R k e] at hs
      exact absurd hs (by simp)

theorem nm_args {tbl : List Ctor} (F : TableFacts tbl) : ∀ (ts : TyList) (σ : List SId),
    symArgs? tbl ts = some σ → ∀ n : List Nat, SId.nm n ∈ σ →
    ∃ (c : Nat) (ct : Ctor) (cl : Cls), tbl[c]? = some ct ∧ classify ct = some cl ∧ cl.kind = .N ∧ cl.name = n
  | .nil, σ, h, n, hm => by
    simp only [symArgs?, Option.some.injEq] at h; subst h; exact absurd hm List.not_mem_nil
  | .cons t ts, σ, h, n, hm => by
    simp only [symArgs?] at h
    cases h1 : symId? tbl t with
    | none => simp [h1] at h
    | some i =>
      cases h2 : symArgs? tbl ts with
      | none => simp [h1, h2] at h
      | some is =>
        simp only [h1, h2, Option.some.injEq] at h
        subst h
        rcases List.mem_cons.mp hm with e | hm'
        · rw [← e] at h1; exact nm_ty F h1
        · exact nm_args F ts is h2 n hm'

/-- `s` is the derive's fold of a right-fold row over FEWER arguments than the row has. -/
def StrictPartialR (tbl : List Ctor) (s : SId) : Prop :=
  ∃ (c : Nat) (ct : Ctor) (cl : Cls) (τ : List SId), tbl[c]? = some ct ∧ classify ct = some cl ∧ cl.kind = .R ∧ τ ≠ [] ∧
    τ.length < cl.arity ∧ s = rform (.nm cl.name) τ

/-- the last argument `a` of a left fold cannot be `rform (nm n2) τ'` where `τ'` is one shorter than
the arity of the right-fold row named `n2` — given that no argument is a strictly partial form. -/
theorem tail_of_R_impossible {tbl : List Ctor} (F : TableFacts tbl) {args : TyList} {σ : List SId}
    (hargs : symArgs? tbl args = some σ) (noP : ∀ a ∈ σ, ¬ StrictPartialR tbl a)
    {c2 : Nat} {ct2 : Ctor} {cl2 : Cls} (h2 : tbl[c2]? = some ct2) (hcl2 : classify ct2 = some cl2)
    (k2 : cl2.kind = .R) {a : SId} (ha : a ∈ σ) {τ' : List SId} (hlen : τ'.length < cl2.arity)
    (e : a = rform (.nm cl2.name) τ') : False := by
  cases τ' with
  | nil =>
    simp only [rform] at e
    subst e
    obtain ⟨c3, ct3, cl3, h3, hcl3, k3, n3⟩ := nm_args F args σ hargs _ ha
    have ne : c3 ≠ c2 := by
      intro e3; subst e3
      rw [h3, Option.some.injEq] at h2; subst h2
      rw [hcl3, Option.some.injEq] at hcl2; subst hcl2
      rw [k3] at k2; exact absurd k2 (by simp)
    exact (F.compat h3 h2 hcl3 hcl2 ne).2.2.1 k3 k2 n3
  | cons b τ'' =>
    exact noP a ha ⟨c2, ct2, cl2, b :: τ'', h2, hcl2, k2, by simp, hlen, e⟩

mutual
theorem noPartial_ty {tbl : List Ctor} (F : TableFacts tbl) : ∀ (t : Ty) (s : SId),
    symId? tbl t = some s → ¬ StrictPartialR tbl s
  | .lit n, s, h => by
    rintro ⟨_, _, _, τ, _, _, _, hne, _, e⟩
    rw [symId_lit h] at e
    cases τ with
    | nil => exact hne rfl
    | cons b τ' => simp [rform] at e
  | .con c args, s, h => by
    obtain ⟨ct, cl, σ, hc, hcl, hargs, hlen, hs⟩ := symId_view F h
    rintro ⟨c2, ct2, cl2, τ, h2, hcl2, k2, hne, hlt, e⟩
    cases τ with
    | nil => exact hne rfl
    | cons b τ' =>
      cases k : cl.kind with
      | N => rw [hs, formOf_N k] at e; simp [rform] at e
      | R =>
        rw [hs] at e
        unfold formOf at e
        rw [k] at e
        obtain ⟨en, el⟩ := rform_inj e
        have hl : (b :: τ').length = cl.arity := by rw [← el, List.length_reverse, hlen]
        by_cases ec : c = c2
        · subst ec
          rw [hc, Option.some.injEq] at h2; subst h2
          rw [hcl, Option.some.injEq] at hcl2; subst hcl2
          omega
        · exact (F.compat hc h2 hcl hcl2 ec).1 k k2 en
      | L =>
        obtain ⟨a, r, er, ha⟩ := exists_rev_cons (σ := σ) (by rw [hlen]; exact arity_ne_zero hcl (by simp [k]))
        rw [hs, formOf_L k er] at e
        simp only [rform, SId.cb.injEq] at e
        refine tail_of_R_impossible F hargs (noPartial_args F args σ hargs) h2 hcl2 k2 ha ?_ e.2
        simp only [List.length_cons] at hlt
        omega
theorem noPartial_args {tbl : List Ctor} (F : TableFacts tbl) : ∀ (ts : TyList) (σ : List SId),
    symArgs? tbl ts = some σ → ∀ a ∈ σ, ¬ StrictPartialR tbl a
  | .nil, σ, h, a, ha => by
    simp only [symArgs?, Option.some.injEq] at h; subst h; exact absurd ha List.not_mem_nil
  | .cons t ts, σ, h, a, ha => by
    simp only [symArgs?] at h
    cases h1 : symId? tbl t with
    | none => simp [h1] at h
    | some i =>
      cases h2 : symArgs? tbl ts with
      | none => simp [h1, h2] at h
      | some is =>
        simp only [h1, h2, Option.some.injEq] at h
        subst h
        rcases List.mem_cons.mp ha with e | ha'
        · rw [e]; exact noPartial_ty F t i h1
        · exact noPartial_args F ts is h2 a ha'
end

/-- a left fold and a right fold never give the same symbolic id. -/
theorem L_ne_R {tbl : List Ctor} (F : TableFacts tbl)
    {cL : Nat} {ctL : Ctor} {clL : Cls} (_hL : tbl[cL]? = some ctL) (hclL : classify ctL = some clL)
    (kL : clL.kind = .L) {argsL : TyList} {σL : List SId} (hargs : symArgs? tbl argsL = some σL)
    (lenL : σL.length = clL.arity)
    {cR : Nat} {ctR : Ctor} {clR : Cls} (hR : tbl[cR]? = some ctR) (hclR : classify ctR = some clR)
    (kR : clR.kind = .R) {σR : List SId} (lenR : σR.length = clR.arity) :
    formOf clL σL ≠ formOf clR σR := by
  intro e
  obtain ⟨a, r, er, ha⟩ := exists_rev_cons (σ := σL) (by rw [lenL]; exact arity_ne_zero hclL (by simp [kL]))
  obtain ⟨b, τ', eτ, _⟩ := exists_rev_cons (σ := σR) (by rw [lenR]; exact arity_ne_zero hclR (by simp [kR]))
  rw [formOf_L kL er, formOf_R kR eτ] at e
  simp only [SId.cb.injEq] at e
  have hl : τ'.length < clR.arity := by
    have := congrArg List.length eτ
    simp only [List.length_reverse, List.length_cons] at this
    omega
  exact tail_of_R_impossible F hargs (noPartial_args F argsL σL hargs) hR hclR kR ha hl e.2

theorem symArgs_nil_of_length {tbl : List Ctor} {ts : TyList} {σ : List SId}
    (h : symArgs? tbl ts = some σ) (hl : σ.length = 0) : ts = .nil := by
  cases ts with
  | nil => rfl
  | cons t r =>
    simp only [symArgs?] at h
    cases h1 : symId? tbl t with
    | none => simp [h1] at h
    | some i =>
      cases h2 : symArgs? tbl r with
      | none => simp [h1, h2] at h
      | some is =>
        simp only [h1, h2, Option.some.injEq] at h
        subst h
        simp at hl

mutual
/-- **No structural aliasing.**  Over a table that passes `tableOk`, two type expressions (of any
depth, over any constructors of the table) with the same symbolic id are the same expression. -/
theorem symId_inj {tbl : List Ctor} (F : TableFacts tbl) : ∀ (t1 : Ty) (s : SId),
    symId? tbl t1 = some s → ∀ t2 : Ty, symId? tbl t2 = some s → t1 = t2
  | .lit n, s, h1, t2, h2 => by
    rw [symId_lit h1] at h2
    cases t2 with
    | lit m => have := symId_lit h2; simp only [SId.raw.injEq] at this; rw [this]
    | con c2 args2 =>
      obtain ⟨ct, cl, σ, _, hcl, _, hlen, hs⟩ := symId_view F h2
      cases k : cl.kind with
      | N => rw [formOf_N k] at hs; simp at hs
      | L =>
        obtain ⟨a, r, e, _⟩ := exists_rev_cons (σ := σ) (by rw [hlen]; exact arity_ne_zero hcl (by simp [k]))
        rw [formOf_L k e] at hs; simp at hs
      | R =>
        obtain ⟨a, r, e, _⟩ := exists_rev_cons (σ := σ) (by rw [hlen]; exact arity_ne_zero hcl (by simp [k]))
        rw [formOf_R k e] at hs; simp at hs
  | .con c1 args1, s, h1, t2, h2 => by
    obtain ⟨ct1, cl1, σ1, hc1, hcl1, ha1, hlen1, hs1⟩ := symId_view F h1
    cases t2 with
    | lit m =>
      have e := symId_lit h2
      rw [hs1] at e
      cases k : cl1.kind with
      | N => rw [formOf_N k] at e; simp at e
      | L =>
        obtain ⟨a, r, er, _⟩ := exists_rev_cons (σ := σ1) (by rw [hlen1]; exact arity_ne_zero hcl1 (by simp [k]))
        rw [formOf_L k er] at e; simp at e
      | R =>
        obtain ⟨a, r, er, _⟩ := exists_rev_cons (σ := σ1) (by rw [hlen1]; exact arity_ne_zero hcl1 (by simp [k]))
        rw [formOf_R k er] at e; simp at e
    | con c2 args2 =>
      obtain ⟨ct2, cl2, σ2, hc2, hcl2, ha2, hlen2, hs2⟩ := symId_view F h2
      have hf : formOf cl1 σ1 = formOf cl2 σ2 := by rw [← hs1, ← hs2]
      -- same row and same argument ids
      have key : c1 = c2 ∧ σ1 = σ2 := by
        cases k1 : cl1.kind with
        | N =>
          cases k2 : cl2.kind with
          | N =>
            rw [formOf_N k1, formOf_N k2, SId.nm.injEq] at hf
            have a1 : cl1.arity = 0 := (classify_arity hcl1).2.mp k1
            have a2 : cl2.arity = 0 := (classify_arity hcl2).2.mp k2
            refine ⟨?_, ?_⟩
            · refine Classical.byContradiction fun ne => ?_
              exact (F.compat hc1 hc2 hcl1 hcl2 ne).2.2.2 (by simp [k1]) (by simp [k2]) ⟨hf, by rw [a1, a2]⟩
            · rw [List.eq_nil_of_length_eq_zero (hlen1.trans a1), List.eq_nil_of_length_eq_zero (hlen2.trans a2)]
          | L =>
            obtain ⟨a, r, er, _⟩ := exists_rev_cons (σ := σ2) (by rw [hlen2]; exact arity_ne_zero hcl2 (by simp [k2]))
            rw [formOf_N k1, formOf_L k2 er] at hf; simp at hf
          | R =>
            obtain ⟨a, r, er, _⟩ := exists_rev_cons (σ := σ2) (by rw [hlen2]; exact arity_ne_zero hcl2 (by simp [k2]))
            rw [formOf_N k1, formOf_R k2 er] at hf; simp at hf
        | L =>
          cases k2 : cl2.kind with
          | N =>
            obtain ⟨a, r, er, _⟩ := exists_rev_cons (σ := σ1) (by rw [hlen1]; exact arity_ne_zero hcl1 (by simp [k1]))
            rw [formOf_L k1 er, formOf_N k2] at hf; simp at hf
          | L =>
            unfold formOf at hf
            rw [k1, k2] at hf
            obtain ⟨en, el⟩ := lform_inj hf
            have es : σ1 = σ2 := List.reverse_inj.mp el
            refine ⟨?_, es⟩
            refine Classical.byContradiction fun ne => ?_
            exact (F.compat hc1 hc2 hcl1 hcl2 ne).2.2.2 (by simp [k1]) (by simp [k2])
              ⟨en, by rw [← hlen1, ← hlen2, es]⟩
          | R => exact absurd hf (L_ne_R F hc1 hcl1 k1 ha1 hlen1 hc2 hcl2 k2 hlen2)
        | R =>
          cases k2 : cl2.kind with
          | N =>
            obtain ⟨a, r, er, _⟩ := exists_rev_cons (σ := σ1) (by rw [hlen1]; exact arity_ne_zero hcl1 (by simp [k1]))
            rw [formOf_R k1 er, formOf_N k2] at hf; simp at hf
          | L => exact absurd hf.symm (L_ne_R F hc2 hcl2 k2 ha2 hlen2 hc1 hcl1 k1 hlen1)
          | R =>
            unfold formOf at hf
            rw [k1, k2] at hf
            obtain ⟨en, el⟩ := rform_inj hf
            refine ⟨?_, List.reverse_inj.mp el⟩
            refine Classical.byContradiction fun ne => ?_
            exact (F.compat hc1 hc2 hcl1 hcl2 ne).1 k1 k2 en
      obtain ⟨ec, es⟩ := key
      subst ec; subst es
      rw [symArgs_inj F args1 σ1 ha1 args2 ha2]
theorem symArgs_inj {tbl : List Ctor} (F : TableFacts tbl) : ∀ (ts1 : TyList) (σ : List SId),
    symArgs? tbl ts1 = some σ → ∀ ts2 : TyList, symArgs? tbl ts2 = some σ → ts1 = ts2
  | .nil, σ, h1, ts2, h2 => by
    simp only [symArgs?, Option.some.injEq] at h1; subst h1
    exact (symArgs_nil_of_length h2 rfl).symm
  | .cons t ts, σ, h1, ts2, h2 => by
    simp only [symArgs?] at h1
    cases e1 : symId? tbl t with
    | none => simp [e1] at h1
    | some i =>
      cases e2 : symArgs? tbl ts with
      | none => simp [e1, e2] at h1
      | some is =>
        simp only [e1, e2, Option.some.injEq] at h1
        subst h1
        cases ts2 with
        | nil => simp [symArgs?] at h2
        | cons t' ts' =>
          simp only [symArgs?] at h2
          cases f1 : symId? tbl t' with
          | none => simp [f1] at h2
          | some j =>
            cases f2 : symArgs? tbl ts' with
            | none => simp [f1, f2] at h2
            | some js =>
              simp only [f1, f2, Option.some.injEq, List.cons.injEq] at h2
              obtain ⟨ej, ejs⟩ := h2
              subst ej; subst ejs
              rw [symId_inj F t j e1 t' f1, symArgs_inj F ts js e2 ts' f2]
end

/-- Consequence for the real ids: if two DIFFERENT type expressions get the same id, then two
DIFFERENT symbolic terms are interpreted to the same 128 bits — a collision of
`from_unique_type_name`/`combine` themselves, not of the composition rules. -/
theorem alias_is_hash_collision {tbl : List Ctor} (F : TableFacts tbl) {t1 t2 : Ty} {i : Id}
    (h1 : typeId? tbl t1 = some i) (h2 : typeId? tbl t2 = some i) (ne : t1 ≠ t2) :
    ∃ s1 s2 : SId, s1 ≠ s2 ∧ s1.interp = s2.interp ∧ symId? tbl t1 = some s1 ∧ symId? tbl t2 = some s2 := by
  rw [typeId?_eq_interp] at h1 h2
  cases e1 : symId? tbl t1 with
  | none => simp [e1] at h1
  | some s1 =>
    cases e2 : symId? tbl t2 with
    | none => simp [e2] at h2
    | some s2 =>
      simp only [e1, e2, Option.map_some, Option.some.injEq] at h1 h2
      refine ⟨s1, s2, ?_, by rw [h1, h2], rfl, rfl⟩
      intro es
      subst es
      exact ne (symId_inj F t1 s1 e1 t2 e2)

end QbiceVerif.TypeId
