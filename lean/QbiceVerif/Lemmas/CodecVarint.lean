/-
Lemmas about the primitive writers/readers of `Model/Codec` (property C12): varints, zigzag,
fixed-width little-endian, raw bytes, single integers.
-/
import QbiceVerif.Model.Codec

namespace QbiceVerif.Codec

deriving instance DecidableEq for Except

/-! ## varints -/

theorem encVarintLoop_eq (fuel n : Nat) (h : n ≤ fuel) :
    encVarintLoop fuel n = if n < 128 then [UInt8.ofNat n] else UInt8.ofNat (n % 128 + 128) :: encVarintLoop (n / 128) (n / 128) := by
  induction fuel using Nat.strongRecOn generalizing n with
  | _ fuel ih =>
    cases fuel with
    | zero =>
      have : n = 0 := by omega
      subst this; simp [encVarintLoop]
    | succ f =>
      simp only [encVarintLoop]
      split
      · rfl
      · rename_i hn
        congr 1
        -- encVarintLoop f (n/128) = encVarintLoop (n/128) (n/128)
        have h1 : n / 128 ≤ f := by omega
        rw [ih f (by omega) (n/128) h1, ih (n/128) (by omega) (n/128) (Nat.le_refl _)]

theorem encVarint_eq (n : Nat) :
    encVarint n = if n < 128 then [UInt8.ofNat n] else UInt8.ofNat (n % 128 + 128) :: encVarint (n / 128) := by
  unfold encVarint; exact encVarintLoop_eq n n (Nat.le_refl _)

theorem and127 (x : Nat) : x &&& 0x7F = x % 128 := Nat.and_two_pow_sub_one_eq_mod x 7

theorem and128_small : ∀ x, x < 256 → ((x &&& 0x80 = 0) ↔ x < 128) := by decide +kernel

theorem decVarintLoop_enc (w : Nat) (m : Nat) : ∀ (s r : Nat) (rest : Bytes), s < w → r < 2^s → r + m * 2^s < 2^w →
    decVarintLoop w s r (encVarint m ++ rest) = .ok (r + m * 2^s, rest) := by
  induction m using Nat.strongRecOn with
  | _ m ih =>
    intro s r rest hs hr hlt
    rw [encVarint_eq]
    split
    · rename_i hm
      have hb : (UInt8.ofNat m).toNat = m := by
        simp [UInt8.toNat_ofNat']; omega
      simp only [List.cons_append, List.nil_append, decVarintLoop, hb]
      have h1 : ¬ (s ≥ w) := by omega
      simp only [h1, if_false, and127]
      have h2 : m % 128 = m := Nat.mod_eq_of_lt hm
      have h3 : (m &&& 0x80 = 0) := (and128_small m (by omega)).2 hm
      simp only [h2, h3, if_true]
      have h4 : m <<< s % 2^w = m * 2^s := by
        rw [Nat.shiftLeft_eq]; apply Nat.mod_eq_of_lt; omega
      rw [h4, ← Nat.shiftLeft_eq, Nat.or_comm, ← Nat.shiftLeft_add_eq_or_of_lt hr, Nat.add_comm]
    · rename_i hm
      have hm : 128 ≤ m := by omega
      have hb : (UInt8.ofNat (m % 128 + 128)).toNat = m % 128 + 128 := by
        simp [UInt8.toNat_ofNat']; omega
      simp only [List.cons_append, decVarintLoop, hb]
      have h1 : ¬ (s ≥ w) := by omega
      simp only [h1, if_false, and127]
      have h2 : (m % 128 + 128) % 128 = m % 128 := by omega
      have h3 : ¬ ((m % 128 + 128) &&& 0x80 = 0) := by
        intro h; have := (and128_small (m % 128 + 128) (by omega)).1 h; omega
      simp only [h2, h3, if_false]
      have hpow : 2^(s+7) = 128 * 2^s := by rw [Nat.pow_succ, Nat.pow_succ, Nat.pow_succ, Nat.pow_succ, Nat.pow_succ, Nat.pow_succ, Nat.pow_succ]; omega
      have hdecomp : m * 2^s = (m % 128) * 2^s + (m / 128) * (128 * 2^s) := by
        have := Nat.div_add_mod m 128
        calc m * 2^s = (128 * (m / 128) + m % 128) * 2^s := by rw [this]
          _ = _ := by rw [Nat.add_mul, Nat.add_comm]; congr 1; rw [Nat.mul_comm 128, Nat.mul_assoc]
      have hchunk : (m % 128) * 2^s < 2^w := by
        have : (m % 128) * 2^s ≤ m * 2^s := Nat.mul_le_mul_right _ (Nat.mod_le _ _)
        omega
      have h4 : (m % 128) <<< s % 2^w = (m % 128) * 2^s := by
        rw [Nat.shiftLeft_eq]; exact Nat.mod_eq_of_lt hchunk
      rw [h4, ← Nat.shiftLeft_eq, Nat.or_comm, ← Nat.shiftLeft_add_eq_or_of_lt hr, Nat.shiftLeft_eq]
      have hq : 1 ≤ m / 128 := by omega
      have hsw : s + 7 < w := by
        have : 2^(s+7) < 2^w := by
          calc 2^(s+7) = 128 * 2^s := hpow
            _ ≤ (m/128) * (128 * 2^s) := Nat.le_mul_of_pos_left _ hq
            _ ≤ m * 2^s := by omega
            _ < 2^w := by omega
        exact (Nat.pow_lt_pow_iff_right (by omega)).1 this
      have hr' : m % 128 * 2^s + r < 2^(s+7) := by
        have : m % 128 * 2^s ≤ 127 * 2^s := Nat.mul_le_mul_right _ (by omega)
        omega
      have := ih (m / 128) (by omega) (s+7) (m % 128 * 2^s + r) rest hsw hr' (by rw [hpow]; omega)
      rw [this, hpow]; congr 2; omega

theorem varint_roundtrip (w n : Nat) (hw : 0 < w) (h : n < 2^w) (rest : Bytes) :
    decVarint w (encVarint n ++ rest) = .ok (n, rest) := by
  have := decVarintLoop_enc w n 0 0 rest hw (by simp) (by simpa using h)
  simpa [decVarint] using this

theorem encVarint_length_le (k : Nat) : ∀ n, n < 2^(7*(k+1)) → (encVarint n).length ≤ k+1 := by
  induction k with
  | zero =>
    intro n h
    rw [encVarint_eq]; have : n < 128 := by simpa using h
    simp [this]
  | succ k ih =>
    intro n h
    rw [encVarint_eq]
    split
    · simp
    · have hp : 2^(7*(k+1+1)) = 128 * 2^(7*(k+1)) := by
        rw [show 7*(k+1+1) = 7*(k+1) + 7 by omega, Nat.pow_add]; omega
      have : n / 128 < 2^(7*(k+1)) := by
        rw [hp] at h; exact Nat.div_lt_of_lt_mul h
      have := ih (n/128) this
      simp; omega

theorem varint_len_le (w n : Nat) (hw : 0 < w) (h : n < 2^w) : (encVarint n).length ≤ (w + 6) / 7 := by
  have hk : (w + 6) / 7 = ((w + 6) / 7 - 1) + 1 := by omega
  rw [hk]
  apply encVarint_length_le
  have : w ≤ 7 * ((w + 6) / 7 - 1 + 1) := by omega
  exact Nat.lt_of_lt_of_le h (Nat.pow_le_pow_right (by omega) this)

theorem encVarint_ne_nil (n : Nat) : encVarint n ≠ [] := by
  rw [encVarint_eq]; split <;> simp

/-! ## zigzag -/

theorem zigzagDec_zigzagEnc (i : Int) : zigzagDec (zigzagEnc i) = i := by
  unfold zigzagDec zigzagEnc
  split <;> split <;> omega

theorem zigzagEnc_zigzagDec (n : Nat) : zigzagEnc (zigzagDec n) = n := by
  unfold zigzagDec zigzagEnc
  split <;> split <;> omega

theorem zigzagEnc_lt (w : Nat) (hw : 0 < w) (i : Int)
    (h1 : -((2 ^ (w - 1) : Nat) : Int) ≤ i) (h2 : i < ((2 ^ (w - 1) : Nat) : Int)) : zigzagEnc i < 2 ^ w := by
  have hp : 2 ^ w = 2 * 2 ^ (w - 1) := by
    rw [show w = (w - 1) + 1 by omega, Nat.pow_succ]; simp; omega
  rw [hp]
  generalize 2 ^ (w - 1) = P at *
  unfold zigzagEnc
  split <;> omega

/-! ## fixed-width little-endian and raw bytes -/

theorem leBytes_length (k n : Nat) : (leBytes k n).length = k := by
  induction k generalizing n with
  | zero => rfl
  | succ k ih => simp [leBytes, ih]

theorem fromLE_leBytes (k n : Nat) : fromLE (leBytes k n) = n % 256 ^ k := by
  induction k generalizing n with
  | zero => simp [leBytes, fromLE, Nat.mod_one]
  | succ k ih =>
    simp only [leBytes, fromLE, ih]
    have : (UInt8.ofNat (n % 256)).toNat = n % 256 := by simp [UInt8.toNat_ofNat']
    rw [this, Nat.pow_succ, Nat.mul_comm (256^k) 256, Nat.mod_mul]

theorem readRaw_append (xs rest : Bytes) : readRaw xs.length (xs ++ rest) = .ok (xs, rest) := by
  simp [readRaw]

theorem readByte_cons (b : UInt8) (bs : Bytes) : readByte (b :: bs) = .ok (b, bs) := rfl

/-! ## single integers -/

theorem uintOk_bits_pos (w : IntW) : 0 < w.bits := by cases w <;> decide

theorem decUInt_encUInt (w : IntW) (n : Nat) (h : uintOk w n = true) (rest : Bytes) :
    decUInt w (encUInt w n ++ rest) = .ok (n, rest) := by
  have hn : n < 2 ^ w.bits := by simpa [uintOk] using h
  cases w
  case w8 =>
    have : (UInt8.ofNat n).toNat = n := by
      simp [UInt8.toNat_ofNat']; simp [IntW.bits] at hn; omega
    simp [decUInt, encUInt, readByte, bind, Except.bind, pure, Except.pure, this]
  all_goals
    simp only [decUInt, encUInt]
    exact varint_roundtrip _ n (by decide) hn rest

theorem decSInt_encSInt (w : IntW) (i : Int) (h : sintOk w i = true) (rest : Bytes) :
    decSInt w (encSInt w i ++ rest) = .ok (i, rest) := by
  have hi : -((2 ^ (w.bits - 1) : Nat) : Int) ≤ i ∧ i < ((2 ^ (w.bits - 1) : Nat) : Int) := by
    simpa [sintOk] using h
  cases w
  case w8 =>
    simp [IntW.bits] at hi
    have h0 : (i % 256).toNat < 256 := by omega
    have : (UInt8.ofNat (i % 256).toNat).toNat = (i % 256).toNat := by
      simp [UInt8.toNat_ofNat']; omega
    simp only [decSInt, encSInt, List.cons_append, List.nil_append, readByte, bind, Except.bind, pure, Except.pure, this]
    congr 2
    split <;> omega
  all_goals
    simp only [decSInt, encSInt]
    rw [varint_roundtrip _ _ (by decide) (zigzagEnc_lt _ (by decide) i hi.1 hi.2) rest]
    simp [bind, Except.bind, pure, Except.pure, zigzagDec_zigzagEnc]

/-! ## the zigzag bit trick is the arithmetic zigzag -/

theorem two_pow_split (w : Nat) (hw : 0 < w) : 2 ^ w = 2 * 2 ^ (w - 1) := by
  rw [show w = (w - 1) + 1 by omega, Nat.pow_succ]; simp; omega

theorem ushiftRight_top_eq_zero (w : Nat) (y : BitVec w) (h : y.toNat < 2 ^ (w - 1)) : y >>> (w - 1) = 0#w := by
  apply BitVec.eq_of_toNat_eq
  simp [BitVec.toNat_ushiftRight, Nat.shiftRight_eq_div_pow, Nat.div_eq_of_lt h]

theorem zigzagEncBits_toNat (w : Nat) (hw : 0 < w) (x : BitVec w) :
    (zigzagEncBits w x).toNat = zigzagEnc x.toInt := by
  have hp := two_pow_split w hw
  have hx := x.isLt
  unfold zigzagEncBits
  rw [BitVec.toInt_eq_msb_cond]
  cases hm : x.msb
  · have hlt : x.toNat < 2 ^ (w - 1) := by
      have := BitVec.msb_eq_decide x; rw [hm] at this; simpa using this.symm
    rw [BitVec.sshiftRight_eq_of_msb_false hm, ushiftRight_top_eq_zero w x hlt]
    simp only [BitVec.xor_zero, BitVec.toNat_shiftLeft, Nat.shiftLeft_eq, Nat.pow_one]
    have : x.toNat * 2 % 2 ^ w = x.toNat * 2 := Nat.mod_eq_of_lt (by omega)
    simp [this, zigzagEnc]; omega
  · have hge : 2 ^ (w - 1) ≤ x.toNat := by
      have := BitVec.msb_eq_decide x; rw [hm] at this; simpa using this.symm
    have hn : (~~~x).toNat < 2 ^ (w - 1) := by rw [BitVec.toNat_not]; omega
    rw [BitVec.sshiftRight_eq_of_msb_true hm, ushiftRight_top_eq_zero w (~~~x) hn]
    have h0 : ~~~(0#w) = BitVec.allOnes w := by
      apply BitVec.eq_of_toNat_eq; simp [BitVec.toNat_allOnes]
    rw [h0, BitVec.xor_allOnes, BitVec.toNat_not, BitVec.toNat_shiftLeft, Nat.shiftLeft_eq, Nat.pow_one]
    have : x.toNat * 2 % 2 ^ w = x.toNat * 2 - 2 ^ w := by
      rw [Nat.mod_eq_sub_mod (by omega)]; exact Nat.mod_eq_of_lt (by omega)
    rw [this]
    simp only [if_true, zigzagEnc]
    generalize 2 ^ (w - 1) = P at *
    generalize 2 ^ w = Q at *
    have : ¬ (0 ≤ ((x.toNat : Int) - (Q : Int))) := by omega
    simp only [this, if_false]
    omega

theorem zigzagDecBits_toInt (w : Nat) (hw : 0 < w) (u : BitVec w) :
    (zigzagDecBits w u).toInt = zigzagDec u.toNat := by
  have hp := two_pow_split w hw
  have hu := u.isLt
  unfold zigzagDecBits zigzagDec
  have hand : (u &&& 1#w).toNat = u.toNat % 2 := by
    rw [BitVec.toNat_and]
    have : (1#w).toNat = 1 := by simp [BitVec.toNat_ofNat]; omega
    rw [this, Nat.and_one_is_mod]
  have hsh : (u >>> 1).toNat = u.toNat / 2 := by
    simp [BitVec.toNat_ushiftRight, Nat.shiftRight_eq_div_pow]
  by_cases he : u.toNat % 2 = 0
  · have h1 : u &&& 1#w = 0#w := by apply BitVec.eq_of_toNat_eq; rw [hand, he]; simp
    rw [h1]
    simp only [BitVec.neg_zero, BitVec.xor_zero, he, if_true]
    rw [BitVec.toInt_eq_msb_cond]
    have hm : (u >>> 1).msb = false := by
      rw [BitVec.msb_eq_decide, hsh]; simp; omega
    simp [hm, hsh]
  · have h1 : u &&& 1#w = 1#w := by
      apply BitVec.eq_of_toNat_eq; rw [hand]
      have : (1#w).toNat = 1 := by simp [BitVec.toNat_ofNat]; omega
      rw [this]; omega
    have hneg : -(1#w) = BitVec.allOnes w := by
      apply BitVec.eq_of_toNat_eq
      have : (1#w).toNat = 1 := by simp [BitVec.toNat_ofNat]; omega
      rw [BitVec.toNat_neg, this, BitVec.toNat_allOnes]
      exact Nat.mod_eq_of_lt (by omega)
    rw [h1, hneg, BitVec.xor_allOnes]
    simp only [he, if_false]
    rw [BitVec.toInt_eq_msb_cond]
    have hn : (~~~(u >>> 1)).toNat = 2 ^ w - 1 - u.toNat / 2 := by rw [BitVec.toNat_not, hsh]
    have hm : (~~~(u >>> 1)).msb = true := by
      rw [BitVec.msb_eq_decide, hn]; simp; omega
    simp only [hm, if_true, hn]
    generalize 2 ^ (w - 1) = P at *
    generalize 2 ^ w = Q at *
    omega

end QbiceVerif.Codec
