import QbiceVerif.Lemmas.CancelBatch
import QbiceVerif.Lemmas.CancelAll

/-!
# C05 — every event preserves the batch invariant when `f11` and `f12` are repaired
-/

namespace QbiceVerif.CancelLts

/-- `T.batch.isSome → …` is vacuous at a place where no batch may be held -/
theorem InvBatch.vac {s : State} (h : InvBatch s) {t : Tid} {T : Task} (hT : s.tasks t = some T)
    (hpc : T.pc.batchOk = false) (p : Prop) : T.batch.isSome = true → p := by
  intro hs; rw [h.none_of_pc hT hpc] at hs; cases hs

theorem step_batch {s s' : State} (e : Ev) (hc0 : InvCore s) (h : InvBatch s) (hf11 : s.cfg.f11 = true) (hf12 : s.cfg.f12 = true)
    (hs : step s e = some s') : InvBatch s' := by
  cases e with
  | spawn t k cl u =>
    simp only [step] at hs
    split at hs
    · next hc => cases hs; exact batch_task_new h hc.1 rfl rfl rfl rfl rfl
    · cases hs
  | call t c =>
    simp only [step] at hs
    cases hT : s.tasks t with
    | none => simp [hT] at hs
    | some T =>
      cases hF : T.frames with
      | nil => simp [hT, hF] at hs
      | cons top rest =>
        simp only [hT, hF] at hs
        split at hs
        · next hc =>
          cases hE : s.comp top.key with
          | none => simp [hE] at hs
          | some e =>
            simp only [hE] at hs; cases hs
            exact batch_task_same h hT rfl rfl rfl rfl rfl (h.vac hT (by simp [hc.1, Pc.batchOk]) _)
        · cases hs
  | hit t =>
    simp only [step] at hs
    cases hT : s.tasks t with
    | none => simp [hT] at hs
    | some T =>
      cases hF : T.frames with
      | nil => simp [hT, hF] at hs
      | cons top rest =>
        simp only [hT, hF] at hs
        split at hs
        · next hc =>
          cases rest with
          | nil => simp only at hs; cases hs; exact batch_task_end h hT rfl rfl rfl rfl (h.none_of_pc hT (by simp [hc.1, Pc.batchOk]))
          | cons r rs => simp only at hs; cases hs; exact batch_task_same h hT rfl rfl rfl rfl rfl (h.vac hT (by simp [hc.1, Pc.batchOk]) _)
        · cases hs
  | waitC t =>
    simp only [step] at hs
    cases hT : s.tasks t with
    | none => simp [hT] at hs
    | some T =>
      cases hF : T.frames with
      | nil => simp [hT, hF] at hs
      | cons top rest =>
        simp only [hT, hF] at hs
        split at hs
        · next hc => cases hs; exact batch_task_same h hT rfl rfl rfl rfl rfl (h.vac hT (by simp [hc.1, Pc.batchOk]) _)
        · cases hs
  | waitB t =>
    simp only [step] at hs
    cases hT : s.tasks t with
    | none => simp [hT] at hs
    | some T =>
      cases hF : T.frames with
      | nil => simp [hT, hF] at hs
      | cons top rest =>
        simp only [hT, hF] at hs
        split at hs
        · next hc => cases hs; exact batch_task_same h hT rfl rfl rfl rfl rfl (h.vac hT (by simp [hc.1, Pc.batchOk]) _)
        · cases hs
  | wake t =>
    simp only [step] at hs
    cases hT : s.tasks t with
    | none => simp [hT] at hs
    | some T =>
      cases hF : T.frames with
      | nil => simp [hT, hF] at hs
      | cons top rest =>
        simp only [hT, hF] at hs
        split at hs
        · next hc =>
          cases hs
          refine batch_task_same h hT rfl rfl rfl rfl rfl (h.vac hT ?_ _)
          rcases hc with hc | hc <;> simp [hc.1, Pc.batchOk]
        · cases hs
  | lock t =>
    simp only [step] at hs
    cases hT : s.tasks t with
    | none => simp [hT] at hs
    | some T =>
      cases hF : T.frames with
      | nil => simp [hT, hF] at hs
      | cons top rest =>
        simp only [hT, hF] at hs
        split at hs
        · next hc => cases hs; exact batch_task_same h hT rfl rfl rfl rfl rfl (h.vac hT (by simp [hc.1, Pc.batchOk]) _)
        · cases hs
  | gEnter t =>
    simp only [step] at hs
    cases hT : s.tasks t with
    | none => simp [hT] at hs
    | some T =>
      simp only [hT] at hs
      split at hs
      · next hc => cases hs; exact batch_task_same h hT (setTask_tasks ..) rfl rfl rfl rfl (h.vac hT (by simp [hc, Pc.batchOk]) _)
      · split at hs
        · next hc => cases hs; exact batch_task_same h hT (setTask_tasks ..) rfl rfl rfl rfl (h.vac hT (by simp [hc, Pc.batchOk]) _)
        · cases hs
  | batchNew t =>
    simp only [step] at hs
    cases hT : s.tasks t with
    | none => simp [hT] at hs
    | some T =>
      simp only [hT] at hs
      split at hs
      · next hc =>
        cases hs
        exact batch_new (T' := { T with pc := .g1, batch := some s.nextBid }) h hT hc.2 rfl rfl _ rfl rfl rfl rfl rfl
      · cases hs
  | write t =>
    simp only [step] at hs
    cases hT : s.tasks t with
    | none => simp [hT] at hs
    | some T =>
      cases hF : T.frames with
      | nil => simp [hT, hF] at hs
      | cons top rest =>
        simp only [hT, hF] at hs
        split at hs
        · cases hs
          exact ⟨h.notAborted, h.activeHeld, h.heldActive, h.heldOnce, h.freshAbove, h.usedBelow, h.neverDropped, h.heldWhere⟩
        · cases hs
  | submit t =>
    simp only [step] at hs
    cases hT : s.tasks t with
    | none => simp [hT] at hs
    | some T =>
      cases hF : T.frames with
      | nil => simp [hT, hF] at hs
      | cons top rest =>
        cases hB : T.batch with
        | none => simp [hT, hF, hB] at hs
        | some b =>
          simp only [hT, hF, hB] at hs
          split at hs
          · cases hs
            refine batch_submit (t := t) h hT hB rfl rfl rfl ?_ (Or.inl ⟨{ T with frames := top :: rest, pc := .g2, batch := none }, by simp [setTask], rfl⟩)
            intro t' ht'; simp [setTask, upd, ht']
          · cases hs
  | finish t =>
    simp only [step] at hs
    cases hT : s.tasks t with
    | none => simp [hT] at hs
    | some T =>
      cases hF : T.frames with
      | nil => simp [hT, hF] at hs
      | cons top rest =>
        simp only [hT, hF] at hs
        split at hs
        · next hpc =>
          split at hs
          · cases hs; exact batch_task_end h hT rfl rfl rfl rfl (h.none_of_pc hT (by simp [hpc, Pc.batchOk]))
          · cases hs; exact batch_task_same h hT rfl rfl rfl rfl rfl (h.vac hT (by simp [hpc, Pc.batchOk]) _)
        · cases hs
  | panic t =>
    simp only [step] at hs
    cases hT : s.tasks t with
    | none => simp [hT] at hs
    | some T =>
      simp only [hT] at hs
      split at hs
      · next hc => cases hs; exact batch_task_same h hT (setTask_tasks ..) rfl rfl rfl rfl (h.vac hT (by simp [hc, Pc.batchOk]) _)
      · cases hs
  | resume t =>
    simp only [step] at hs
    cases hT : s.tasks t with
    | none => simp [hT] at hs
    | some T =>
      cases hF : T.frames with
      | nil => simp [hT, hF] at hs
      | cons top rest =>
        simp only [hT, hF] at hs
        split at hs
        · next hpc =>
          cases rest with
          | nil => simp only at hs; cases hs; exact batch_task_end h hT rfl rfl rfl rfl (h.none_of_pc hT (by simp [hpc, Pc.batchOk]))
          | cons r rs => simp only at hs; cases hs; exact batch_task_same h hT rfl rfl rfl rfl rfl (h.vac hT (by simp [hpc, Pc.batchOk]) _)
        · cases hs
  | bpLock t =>
    simp only [step] at hs
    cases hT : s.tasks t with
    | none => simp [hT] at hs
    | some T =>
      cases hF : T.frames with
      | nil => simp [hT, hF] at hs
      | cons top rest =>
        simp only [hT, hF] at hs
        split at hs
        · next hc => cases hs; exact batch_task_same h hT rfl rfl rfl rfl rfl (h.vac hT (by simp [hc.1, Pc.batchOk]) _)
        · cases hs
  | bpUp t =>
    simp only [step] at hs
    cases hT : s.tasks t with
    | none => simp [hT] at hs
    | some T =>
      simp only [hT] at hs
      split at hs
      · next hc =>
        cases hs; exact batch_task_same h hT (setTask_tasks ..) rfl rfl rfl rfl (h.vac hT (by simp [hc.1, Pc.batchOk]) _)
      · cases hs
  | cancel t =>
    simp only [step] at hs
    cases hT : s.tasks t with
    | none => simp [hT] at hs
    | some T =>
      simp only [hT] at hs
      split at hs
      · next hnd =>
        cases hs
        unfold cancelTask
        by_cases hsess : T.pc.isSession = true
        · rw [if_pos hsess]
          cases hp : T.pc <;> simp only [hp, Pc.isSession] at hsess <;> try (cases hsess)
          · exact batch_task_end h hT rfl rfl rfl rfl (h.none_of_pc hT (by simp [hp, Pc.batchOk]))
          · have hn := h.none_of_pc hT (by simp [hp, Pc.batchOk])
            rw [hn]; exact batch_task_end h hT rfl rfl rfl rfl hn
          · exact batch_task_same (T' := { T with detached := true }) h hT (by rw [hp]; rfl) rfl rfl rfl rfl (h.vac hT (by simp [hp, Pc.batchOk]) _)
          · exact batch_task_same (T' := { T with pc := .sG1, detached := true }) h hT rfl rfl rfl rfl rfl (by intro _; simp [Pc.batchOk])
          · exact batch_task_same (T' := { T with detached := true }) h hT (by rw [hp]; rfl) rfl rfl rfl rfl (by intro _; simp [hp, Pc.batchOk])
        · rw [if_neg hsess]
          cases hF : T.frames with
          | nil => exact absurd ((hc0.shape t T hT).mpr hF) hsess
          | cons top rest =>
            simp only
            by_cases hg : T.pc.guarded = true
            · rw [if_pos hg]
              exact batch_task_same (T' := { T with frames := [{ top with undo := none }], detached := true, rd := T.rd && s.cfg.f40 }) h hT rfl rfl rfl rfl rfl
                (fun hs => h.heldWhere t T hT hs)
            · rw [if_neg hg]
              have hn : T.batch = none := by
                refine h.none_of_pc hT ?_
                cases hp : T.pc <;> simp [hp, Pc.guarded, Pc.isSession, Pc.batchOk] at hg hsess ⊢
              rw [hn]
              exact batch_task_end h hT rfl rfl rfl rfl hn
      · cases hs
  | sStart t =>
    simp only [step] at hs
    split at hs
    · next hc => cases hs; exact batch_task_new h hc.1 (setTask_tasks ..) rfl rfl rfl rfl
    · cases hs
  | sBump t =>
    simp only [step] at hs
    cases hT : s.tasks t with
    | none => simp [hT] at hs
    | some T =>
      simp only [hT] at hs
      split at hs
      · next hc =>
        cases hs
        rcases hc with hc | hc
        · rw [hf12] at hc; cases hc.2
        · exact batch_new (T' := { T with pc := if T.pc = .sInit then .sBumped else .sOpen, batch := some s.nextBid }) h hT
            (h.none_of_pc hT (by simp [hc, Pc.batchOk])) rfl (by simp [hc, Pc.batchOk]) _ rfl rfl rfl rfl rfl
      · cases hs
  | sAcquire t =>
    simp only [step] at hs
    cases hT : s.tasks t with
    | none => simp [hT] at hs
    | some T =>
      simp only [hT] at hs
      split at hs
      · next hc =>
        cases hs
        refine batch_task_same h hT rfl rfl rfl rfl rfl (h.vac hT ?_ _)
        rcases hc.2.2 with hc | hc
        · simp [hc.1, Pc.batchOk]
        · simp [hc, Pc.batchOk]
      · cases hs
  | sWrite t k =>
    simp only [step] at hs
    cases hT : s.tasks t with
    | none => simp [hT] at hs
    | some T =>
      simp only [hT] at hs
      split at hs
      · cases hs
        exact ⟨h.notAborted, h.activeHeld, h.heldActive, h.heldOnce, h.freshAbove, h.usedBelow, h.neverDropped, h.heldWhere⟩
      · cases hs
  | sCommit t =>
    simp only [step] at hs
    cases hT : s.tasks t with
    | none => simp [hT] at hs
    | some T =>
      simp only [hT] at hs
      split at hs
      · cases hs; exact batch_task_same h hT (setTask_tasks ..) rfl rfl rfl rfl (by intro _; simp [Pc.batchOk])
      · cases hs
  | sFinish t =>
    simp only [step] at hs
    cases hT : s.tasks t with
    | none => simp [hT] at hs
    | some T =>
      cases hB : T.batch with
      | none => simp [hT, hB] at hs
      | some b =>
        simp only [hT, hB] at hs
        split at hs
        · cases hs
          refine batch_submit (t := t) h hT hB rfl rfl rfl ?_ (Or.inr (by simp [endTask]))
          intro t' ht'; simp [endTask, upd, ht']
        · cases hs

end QbiceVerif.CancelLts
