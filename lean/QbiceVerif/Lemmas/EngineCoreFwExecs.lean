/-
C03 along a whole history of the extended core model: `ExecOK p ops outs s done` — the executor
invocations reported by every round of the run of `ops` from `s` (`outs`, the `execs` component of each
`.round` output) are pairwise distinct within a segment between two sessions (`done` = the invocations
since the last session) and each is justified (`Just`: the key was not verified in this epoch and it had
never been computed, or a recorded dependency of it has a different from-scratch value now).
-/
import QbiceVerif.Lemmas.EngineCoreFwTotal
import QbiceVerif.Lemmas.EngineCoreFwEx
namespace Qbice.CoreFw
open Qbice.Core (Prog Err Write SetRes Op OpOut Ref Sat)

def ExecOK (p : Program) : List Op → List OpOut → St → List Key → Prop
  | [], [], _, _ => True
  | .sess ws :: ops, .sess _ :: outs, s, _ =>
    ∃ rs s1, session p ws { s with log := [] } = .ok (rs, s1) ∧ ExecOK p ops outs s1 []
  | .round ks :: ops, .round _ execs :: outs, s, done =>
    (done ++ execs).Nodup ∧ (∀ x, x ∈ execs → Just p s x) ∧
      ∃ vs s1, round p (fuelFor p) ks { s with log := [] } = .ok (vs, s1) ∧
        ExecOK p ops outs s1 (done ++ execs)
  | _, _, _, _ => False

theorem execOK_of_run {p : Program} (wf : WF p) (sh : Shape p) :
    ∀ (ops : List Op) (s : St) (done : List Key) (outs : List OpOut) (s' : St), Inv p s →
      done.Nodup → (∀ x, x ∈ done → Verified s x) → runOps p ops s = .ok (outs, s') →
      ExecOK p ops outs s done := by
  intro ops
  induction ops with
  | nil =>
    intro s done outs s' _ _ _ h
    simp only [runOps, Except.ok.injEq, Prod.mk.injEq] at h
    obtain ⟨rfl, _⟩ := h
    trivial
  | cons op rest ih =>
    intro s done outs s' inv hnd hver h
    cases op with
    | sess ws =>
      simp only [runOps] at h
      cases hs : session p ws { s with log := [] } with
      | error e => rw [hs] at h; cases h
      | ok r =>
        obtain ⟨rs, s1⟩ := r
        rw [hs] at h
        simp only at h
        cases hr : runOps p rest s1 with
        | error e => rw [hr] at h; cases h
        | ok r2 =>
          obtain ⟨outs2, s2⟩ := r2
          rw [hr] at h
          simp only [Except.ok.injEq, Prod.mk.injEq] at h
          obtain ⟨rfl, rfl⟩ := h
          obtain ⟨i1, _⟩ := session_spec (inv.setLog []) hs
          exact ⟨rs, s1, hs, ih s1 [] outs2 s2 i1 List.nodup_nil (fun x hx => by cases hx) hr⟩
    | round ks =>
      simp only [runOps] at h
      have hrd := round_spec wf sh (inv.setLog []) ks
      cases hs : round p (fuelFor p) ks { s with log := [] } with
      | error e => rw [hs] at h; cases h
      | ok r =>
        obtain ⟨vs, s1⟩ := r
        rw [hs] at h hrd
        simp only at h
        obtain ⟨_, i1, f1⟩ := hrd
        simp only at i1 f1
        cases hr : runOps p rest s1 with
        | error e => rw [hr] at h; cases h
        | ok r2 =>
          obtain ⟨outs2, s2⟩ := r2
          rw [hr] at h
          simp only [Except.ok.injEq, Prod.mk.injEq] at h
          obtain ⟨rfl, rfl⟩ := h
          obtain ⟨new, hl, nd, hj, _⟩ := f1.log
          have hl' : s1.log = new := by simpa using hl
          have hver0 : ∀ x, x ∈ done → Verified ({ s with log := [] } : St) x := hver
          have hnd' : (done ++ s1.log).Nodup := by
            rw [hl']
            refine List.nodup_append.2 ⟨hnd, nd, ?_⟩
            intro a ha b hb e
            subst e
            exact (hj a hb).1.1 (hver0 a ha)
          refine ⟨hnd', ?_, vs, s1, hs, ih s1 (done ++ s1.log) outs2 s2 i1 hnd' ?_ hr⟩
          · intro x hx
            rw [hl'] at hx
            exact (hj x hx).1
          · intro x hx
            rw [hl'] at hx
            rcases List.mem_append.1 hx with hx | hx
            · exact f1.verified (hver0 x hx)
            · exact (hj x hx).2

/-- `exDOps` is a well-formed history of the diamond with a firewall and a projection -/
theorem exDOps_histOK : HistOK exD exDOps := by
  refine ⟨⟨?_, ?_, ⟨?_, ?_, ?_, ?_, trivial⟩⟩, _, _, rfl, ?_⟩
  · intro k v hm
    simp at hm
    rcases hm with ⟨rfl, _⟩ | ⟨rfl, _⟩ <;> exact ⟨_, rfl, rfl⟩
  · intro k hk; simp at hk; subst hk; decide
  · intro k v hm
    simp at hm
    obtain ⟨rfl, _⟩ := hm; exact ⟨_, rfl, rfl⟩
  · intro k hk; simp at hk; subst hk; decide
  · intro k v hm
    simp at hm
    obtain ⟨rfl, _⟩ := hm; exact ⟨_, rfl, rfl⟩
  · intro k hk; simp at hk; subst hk; decide
  · intro k d hp hk
    match k, hp with
    | 0, _ => exact ⟨1, by simp⟩
    | 1, _ => exact ⟨5, by simp⟩
    | 2, hp | 3, hp | 4, hp | 5, hp => simp [exD] at hp; subst hp; simp at hk
    | n + 6, hp => simp [exD] at hp

end Qbice.CoreFw
