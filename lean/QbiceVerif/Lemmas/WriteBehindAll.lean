import QbiceVerif.Lemmas.WriteBehindPc

/-! All invariants together over reachable states, and the consequences the C10 theorems need. -/

namespace QbiceVerif.WB

structure AllInv (nSer : Nat) (s : State) : Prop where
  inv : Inv s
  buf : BufInv s
  store : StoreInv s
  a : PcA nSer s
  b : PcB s
  c : PcC s
  d : PcD s
  e : PcE s
  f : PcF s
  g : PcG s

theorem allInv_init (nSer : Nat) : AllInv nSer (init nSer) := by
  refine ⟨⟨?_, ?_, ?_, ?_, ?_⟩, ?_, ?_, ⟨?_, ?_, ?_⟩, ?_, ?_, ⟨?_, ?_, ?_⟩, ?_, ?_, ⟨?_, ?_, ?_⟩⟩
  all_goals try (simp [init, State.places, State.pending, State.consumed, heldAll, BufInv, doneAll, StoreInv,
    commitStore, PcB, PcC, PcE, PcF, CPc.late, CPc.curEmpty, DPc.closed, DPc.sersJoined, DPc.commitJoined,
    SerSt.held, SerSt.doneHeld]; done)

theorem reachable_allInv {nSer : Nat} : ∀ s, Reachable nSer s → AllInv nSer s := by
  apply reachable_step_induction (allInv_init nSer)
  intro s ev s' _ hi hst
  exact ⟨inv_step s ev s' hi.inv hst, bufInv_step s ev s' hi.buf hst, storeInv_step s ev s' hi.store hst,
    pcA_step nSer s ev s' hi.a hst, pcB_step nSer s ev s' hi.a hi.b hst, pcC_step s ev s' hi.c hst,
    pcD_step s ev s' hi.d hst, pcE_step s ev s' hi.inv hi.e hst, pcF_step s ev s' hi.f hst,
    pcG_step s ev s' hi.g hst⟩


/-! ### List facts -/

theorem prefix_of_range {A B : List Nat} {n : Nat} (h : A ++ B = List.range n) : A = List.range A.length := by
  have h1 : (A ++ B).take A.length = A := by simp
  rw [h, List.take_range] at h1
  have hl : A.length ≤ n := by
    have := congrArg List.length h
    simp at this; omega
  rw [Nat.min_eq_left hl] at h1
  exact h1.symm

theorem middle_of_range {A C B : List Nat} {n : Nat} (h : A ++ C ++ B = List.range n) :
    C = List.range' A.length C.length := by
  rw [List.range_eq_range', List.append_assoc] at h
  obtain ⟨k, _, hA, hCB⟩ := List.range'_eq_append_iff.mp h.symm
  obtain ⟨k2, _, hC, _⟩ := List.range'_eq_append_iff.mp hCB.symm
  have hk : A.length = k := by rw [hA]; simp
  have hk2 : C.length = k2 := by rw [hC]; simp
  rw [hC, hk, ← hk2]
  simp

theorem find_of_nodup {l : List Task} (hn : (l.map Task.epoch).Nodup) {t : Task} (ht : t ∈ l) :
    l.find? (fun x => x.epoch == t.epoch) = some t := by
  induction l with
  | nil => cases ht
  | cons x xs ih =>
    simp only [List.map_cons, List.nodup_cons] at hn
    rcases List.mem_cons.mp ht with rfl | ht
    · simp
    · have hne : x.epoch ≠ t.epoch := by
        intro he
        exact hn.1 (List.mem_map.mpr ⟨t, ht, he.symm⟩)
      simp [hne, ih hn.2 ht]

/-! ### Consequences -/

theorem Inv.core_mem {s : State} (hi : Inv s) {t : Task} (ht : t ∈ s.places) :
    ∃ t' ∈ s.submitted, t'.epoch = t.epoch ∧ t'.ops = t.ops := by
  have h1 : t.core ∈ s.places.map Task.core := List.mem_map.mpr ⟨t, ht, rfl⟩
  have h2 := hi.conserve.mem_iff.mp h1
  obtain ⟨t', ht', hc⟩ := List.mem_map.mp h2
  simp only [Task.core, Prod.mk.injEq] at hc
  exact ⟨t', ht', hc.1, hc.2⟩

theorem Inv.contentOf_eq {s : State} (hi : Inv s) {t : Task} (ht : t ∈ s.places) :
    s.contentOf t.epoch = t.ops := by
  obtain ⟨t', ht', he, ho⟩ := hi.core_mem ht
  unfold State.contentOf
  rw [← he, find_of_nodup hi.sub_nodup ht']
  exact ho

theorem Inv.keys_nodup {s : State} (hi : Inv s) {t : Task} (ht : t ∈ s.places) :
    (t.ops.map WOp.key).Nodup := by
  obtain ⟨t', ht', _, ho⟩ := hi.core_mem ht
  rw [← ho]; exact hi.sub_keys t' ht'

theorem applied_sub_places (s : State) : ∀ t ∈ s.applied, t ∈ s.places := by
  intro t ht
  simp only [State.applied] at ht
  simp [State.places, State.consumed, ht]

theorem applied_sub_bufplaces (s : State) : ∀ t ∈ s.applied,
    t ∈ doneAll s.sers ++ s.commitQ ++ s.heap ++ (s.log.flatten ++ s.cur) := by
  intro t ht
  simp only [State.applied] at ht
  simp [ht]

/-- The store is the fold of the applied batches' *contents* (not merely of their buffers). -/
theorem store_eq_fold_ops {nSer : Nat} {s : State} (h : AllInv nSer s) :
    s.store = s.applied.foldl (fun st t => applyOps st t.ops) Store.empty := by
  rw [h.store]
  unfold commitStore
  have : ∀ (l : List Task) (st : Store), (∀ t ∈ l, t.buf.Perm t.ops ∧ (t.ops.map WOp.key).Nodup) →
      l.foldl (fun acc t => applyOps acc t.buf) st = l.foldl (fun st t => applyOps st t.ops) st := by
    intro l
    induction l with
    | nil => intros; rfl
    | cons x xs ih =>
      intro st hx
      simp only [List.foldl_cons]
      have hx1 := hx x (List.mem_cons_self)
      have hnb : (x.buf.map WOp.key).Nodup := (hx1.1.map WOp.key).nodup_iff.mpr hx1.2
      rw [applyOps_perm hx1.1 hnb st]
      exact ih _ (fun t ht => hx t (List.mem_cons_of_mem _ ht))
  apply this
  intro t ht
  exact ⟨h.buf t (applied_sub_bufplaces s t ht), h.inv.keys_nodup (applied_sub_places s t ht)⟩

theorem applied_epochs {nSer : Nat} {s : State} (h : AllInv nSer s) :
    s.applied.map Task.epoch = List.range s.applied.length := by
  have ho := h.inv.order
  simp only [State.consumed, List.map_append] at ho
  have := prefix_of_range ho
  rw [List.length_map] at this
  exact this

/-- The store equals the sequential specification on the first `applied.length` epochs. -/
theorem store_eq_seqSpec {nSer : Nat} {s : State} (h : AllInv nSer s) :
    s.store = seqSpec s s.applied.length := by
  rw [store_eq_fold_ops h, seqSpec, ← applied_epochs h, List.foldl_map]
  have : ∀ (l : List Task) (st : Store), (∀ t ∈ l, s.contentOf t.epoch = t.ops) →
      l.foldl (fun st t => applyOps st t.ops) st = l.foldl (fun st t => applyOps st (s.contentOf t.epoch)) st := by
    intro l
    induction l with
    | nil => intros; rfl
    | cons x xs ih =>
      intro st hx
      simp only [List.foldl_cons]
      rw [hx x (List.mem_cons_self)]
      exact ih _ (fun t ht => hx t (List.mem_cons_of_mem _ ht))
  apply this
  intro t ht
  exact h.inv.contentOf_eq (applied_sub_places s t ht)

end QbiceVerif.WB
