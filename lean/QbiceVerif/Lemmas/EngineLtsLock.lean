import QbiceVerif.Model.EngineLts

/-! Invariant of the `LT` (lock table) LTS: every live reference to a lock of `k` points at the
instance stored in the table. -/

namespace QbiceVerif.Lts.LT

structure Inv (s : State) : Prop where
  /-- a reference held by a task is the instance in the table -/
  held : ∀ t k i, s.pc t = .holding k i → s.table k = some i
  /-- tasks beyond `nTasks` do not exist -/
  bound : ∀ t, s.nTasks ≤ t → s.pc t = .idle

theorem inv_init (n : Nat) : Inv (init n) := by
  constructor <;> intros <;> simp_all [init]

theorem unreferenced_spec {s : State} {k inst : Nat} (h : s.unreferenced k inst = true) (hb : ∀ t, s.nTasks ≤ t → s.pc t = .idle) :
    ∀ t, s.pc t ≠ .holding k inst := by
  intro t ht
  by_cases hlt : t < s.nTasks
  · simp only [State.unreferenced, List.all_eq_true, List.mem_range] at h
    have := h t hlt
    simp [ht] at this
  · have := hb t (Nat.le_of_not_lt hlt)
    rw [this] at ht
    cases ht

theorem inv_step {s s' : State} {ev : Ev} (hi : Inv s) (h : step s ev = some s') : Inv s' := by
  obtain ⟨hheld, hb⟩ := hi
  cases ev with
  | getHit t k =>
    simp only [step] at h
    split at h
    · rename_i hc
      split at h
      · rename_i inst hk
        cases h
        constructor
        · intro t' k' i' hp
          simp only [State.setPc] at hp
          split at hp
          · cases hp; exact hk
          · exact hheld _ _ _ hp
        · intro t' ht'
          simp only [State.setPc] at ht' ⊢
          split
          · omega
          · exact hb _ ht'
      · cases h
    · cases h
  | getMiss t k =>
    simp only [step] at h
    split at h
    · rename_i hc
      cases h
      constructor
      · intro t' k' i' hp
        simp only [State.setPc] at hp
        split at hp
        · cases hp
        · exact hheld _ _ _ hp
      · intro t' ht'
        simp only [State.setPc] at ht' ⊢
        split
        · omega
        · exact hb _ ht'
    · cases h
  | entry t =>
    simp only [step] at h
    split at h
    · rename_i hc
      split at h
      · rename_i k f hpc
        split at h
        · rename_i hk
          cases h
          constructor
          · intro t' k' i' hp
            simp only [State.setPc] at hp
            split at hp
            · cases hp; simp
            · by_cases hkk : k' = k
              · subst hkk
                have := hheld _ _ _ hp
                rw [hk] at this; cases this
              · simp [hkk]; exact hheld _ _ _ hp
          · intro t' ht'
            simp only [State.setPc] at ht' ⊢
            split
            · omega
            · exact hb _ ht'
        · rename_i w hk
          cases h
          constructor
          · intro t' k' i' hp
            simp only [State.setPc] at hp
            split at hp
            · cases hp; exact hk
            · exact hheld _ _ _ hp
          · intro t' ht'
            simp only [State.setPc] at ht' ⊢
            split
            · omega
            · exact hb _ ht'
      · cases h
    · cases h
  | release t =>
    simp only [step] at h
    split at h
    · split at h
      · cases h
        constructor
        · intro t' k' i' hp
          simp only [State.setPc] at hp
          split at hp
          · cases hp
          · exact hheld _ _ _ hp
        · intro t' ht'
          simp only [State.setPc] at ht' ⊢
          split
          · rfl
          · exact hb _ ht'
      · cases h
    · cases h
  | evict k =>
    simp only [step] at h
    split at h
    · rename_i inst hk
      split at h
      · rename_i hu
        cases h
        constructor
        · intro t' k' i' hp
          by_cases hkk : k' = k
          · subst hkk
            have h1 := hheld _ _ _ hp
            rw [hk] at h1; cases h1
            exact absurd hp (unreferenced_spec hu hb t')
          · simp [hkk]; exact hheld _ _ _ hp
        · exact hb
      · cases h
    · cases h

theorem reachable_inv {n : Nat} {s : State} (hr : Reachable n s) : Inv s := by
  induction hr with
  | init => exact inv_init n
  | step ev _ h ih => exact inv_step ih h

end QbiceVerif.Lts.LT
