import QbiceVerif.Lemmas.CancelStepA
import QbiceVerif.Lemmas.CancelStepB
import QbiceVerif.Lemmas.CancelStepC
import QbiceVerif.Lemmas.CancelStepD
import QbiceVerif.Lemmas.CancelStepE

/-!
# C05 — the core invariant holds in every reachable state, for every configuration
-/

namespace QbiceVerif.CancelLts

theorem step_core {s s' : State} (e : Ev) (h : InvCore s) (hs : step s e = some s') : InvCore s' := by
  cases e with
  | spawn t k cl u => exact core_spawn h hs
  | call t c => exact core_call h hs
  | hit t => exact core_hit h hs
  | waitC t => exact core_waitC h hs
  | waitB t => exact core_waitB h hs
  | wake t => exact core_wake h hs
  | lock t => exact core_lock h hs
  | gEnter t => exact core_gEnter h hs
  | batchNew t => exact core_batchNew h hs
  | write t => exact core_write h hs
  | submit t => exact core_submit h hs
  | finish t => exact core_finish h hs
  | panic t => exact core_panic h hs
  | resume t => exact core_resume h hs
  | bpLock t => exact core_bpLock h hs
  | bpUp t => exact core_bpUp h hs
  | cancel t => exact core_cancel h hs
  | sStart t => exact core_sStart h hs
  | sBump t => exact core_sBump h hs
  | sAcquire t => exact core_sAcquire h hs
  | sWrite t k => exact core_sWrite h hs
  | sCommit t => exact core_sCommit h hs
  | sFinish t => exact core_sFinish h hs

theorem reachable_core {cfg : Cfg} {s : State} (hr : Reachable cfg s) : InvCore s := by
  induction hr with
  | init => exact invCore_init cfg
  | step e _ hs ih => exact step_core e ih hs

end QbiceVerif.CancelLts
