/-
The second invariant of the fresh-evaluation cycle model, the one order independence rests on: the
memo is a sequence of blocks (CycleBlocks.lean) — possibly followed by the members of the cycle that
is being published (marked frames still on the stack, the entries of its already published members
newest in the memo) — and every computing query's executor, fed from the memo, has stopped at the
query above it.  Preserved by the four state transformations of `queryFor`.
-/
import QbiceVerif.Lemmas.CycleSteps2
import QbiceVerif.Lemmas.CycleBlocks
namespace Qbice.Cycle

/-- top first: the executor of each key, fed from `tbl`, stops at the key before it -/
def RLinked (p : Program) (tbl : Key → Option Val) : List Key → Prop
  | [] => True
  | [_] => True
  | g :: f :: r => Reaches tbl (progOf p f) g ∧ RLinked p tbl (f :: r)

theorem RLinked.mono {p : Program} {t1 t2 : Key → Option Val} (h : ∀ x v, t1 x = some v → t2 x = some v) :
    ∀ l, RLinked p t1 l → RLinked p t2 l
  | [], _ => trivial
  | [_], _ => trivial
  | _ :: f :: r, hl => ⟨hl.1.mono h, RLinked.mono h (f :: r) hl.2⟩

theorem RLinked.tail {p : Program} {tbl : Key → Option Val} {g : Key} {l : List Key}
    (h : RLinked p tbl (g :: l)) : RLinked p tbl l := by
  cases l with
  | nil => trivial
  | cons f r => exact h.2

theorem RLinked.prefix {p : Program} {tbl : Key → Option Val} : ∀ (a b : List Key),
    RLinked p tbl (a ++ b) → RLinked p tbl a
  | [], _, _ => trivial
  | [_], _, _ => trivial
  | g :: f :: r, b, h => ⟨h.1, RLinked.prefix (f :: r) b h.2⟩

theorem linked_snoc {p : Program} {tbl : Key → Option Val} : ∀ (l : List Key) (a b : Key),
    Linked p tbl (l ++ [a]) → Reaches tbl (progOf p a) b → Linked p tbl (l ++ [a, b]) := by
  intro l
  induction l with
  | nil => intro a b _ r; exact ⟨r, trivial⟩
  | cons x l ih =>
    intro a b h r
    cases l with
    | nil => exact ⟨h.1, r, trivial⟩
    | cons y l' => exact ⟨h.1, ih a b h.2 r⟩

theorem rlinked_reverse {p : Program} {tbl : Key → Option Val} : ∀ (l : List Key),
    RLinked p tbl l → Linked p tbl l.reverse := by
  intro l
  induction l with
  | nil => intro _; trivial
  | cons g l ih =>
    intro h
    cases l with
    | nil => trivial
    | cons f r =>
      have h1 : Linked p tbl (r.reverse ++ [f]) := by
        have := ih h.2
        simpa using this
      have := linked_snoc r.reverse f g h1 h.1
      simpa using this

theorem cycOK_of {p : Program} {tbl : Key → Option Val} {l : List Key} {c z : Key}
    (hl : Linked p tbl l) (hh : l.head? = some c) (hz : l.getLast? = some z)
    (r : Reaches tbl (progOf p z) c) : CycOK p tbl l := by
  cases l with
  | nil => simp at hh
  | cons c' l' =>
    simp only [List.head?_cons, Option.some.injEq] at hh
    subst hh
    exact ⟨hl, z, hz, r⟩

/-- keys of the marked frames, top first -/
def mk (s : List Frame) : List Key := (s.filter (fun f => f.inScc)).map (·.key)

theorem mk_cons (f : Frame) (s : List Frame) : mk (f :: s) = if f.inScc then f.key :: mk s else mk s := by
  unfold mk
  by_cases h : f.inScc <;> simp [h]

theorem mk_regTop (k : Key) (s : List Frame) : mk (regTop k s) = mk s := by
  cases s with
  | nil => rfl
  | cons top r => simp [regTop, mk_cons]

theorem mk_noMarks {s : List Frame} (h : NoMarks s) : mk s = [] := by
  induction s with
  | nil => rfl
  | cons f r ih =>
    rw [mk_cons, h f (by simp)]
    exact ih (fun g hg => h g (List.mem_cons_of_mem _ hg))

theorem mk_markSet {Q : Key → Bool} {s : List Frame} (h : NoMarks s) :
    mk (markSet Q s) = (keys s).filter Q := by
  induction s with
  | nil => rfl
  | cons f r ih =>
    have hf : f.inScc = false := h f (by simp)
    have ih' := ih (fun g hg => h g (List.mem_cons_of_mem _ hg))
    have hcons : markSet Q (f :: r) = (if Q f.key then { f with inScc := true } else f) :: markSet Q r := rfl
    have hkeys : keys (f :: r) = f.key :: keys r := rfl
    rw [hcons, mk_cons, ih', hkeys, List.filter_cons]
    by_cases hq : Q f.key
    · simp [hq]
    · simp [hq, hf]

structure Inv2 (p : Program) (st : St) : Prop where
  chain : RLinked p (valOf st.memo) (keys st.stack)
  blocks : ∃ P T, st.memo = P ++ T ∧ Blocks p T ∧ (∀ d ∈ P, d.marked = true ∧ d.val = dfltOf p d.key) ∧
    (mk st.stack = [] → P = []) ∧
    (mk st.stack ≠ [] → CycOK p (valOf T) ((mk st.stack).reverse ++ mkeys P))

theorem inv2_empty (p : Program) : Inv2 p {} :=
  ⟨trivial, [], [], rfl, .nil, by simp, fun _ => rfl, fun h => absurd rfl h⟩

theorem inv2_blocks_of_empty {p : Program} {st : St} (h : Inv2 p st) (he : st.stack = []) : Blocks p st.memo := by
  obtain ⟨P, T, hm, bT, _, h0, _⟩ := h.blocks
  have : P = [] := h0 (by rw [he]; rfl)
  rw [hm, this]; exact bT

/-- registering a callee in the top frame -/
theorem inv2_reg {p : Program} {st : St} (h : Inv2 p st) (k : Key) :
    Inv2 p { st with stack := regTop k st.stack } := by
  refine ⟨?_, ?_⟩
  · show RLinked p (valOf st.memo) (keys (regTop k st.stack))
    rw [keys_regTop]; exact h.chain
  · show ∃ P T, st.memo = P ++ T ∧ _
    obtain ⟨P, T, h1, h2, h3, h4, h5⟩ := h.blocks
    refine ⟨P, T, h1, h2, h3, ?_, ?_⟩
    · intro e; apply h4; rw [← mk_regTop k]; exact e
    · intro e
      show CycOK p (valOf T) ((mk (regTop k st.stack)).reverse ++ mkeys P)
      rw [mk_regTop]
      apply h5
      rw [← mk_regTop k]; exact e

/-- taking the computing lock of `k` -/
theorem inv2_push {p : Program} {st : St} (h : Inv2 p st) (nm : NoMarks st.stack) {k : Key}
    (hreach : ∀ top r, st.stack = top :: r → Reaches (valOf st.memo) (progOf p top.key) k) :
    Inv2 p { st with stack := { key := k, callees := [], inScc := false } :: regTop k st.stack } := by
  have hmk : mk ({ key := k, callees := [], inScc := false } :: regTop k st.stack) = [] := by
    rw [mk_cons, mk_regTop]; simp [mk_noMarks nm]
  refine ⟨?_, ?_⟩
  · show RLinked p (valOf st.memo) (keys ({ key := k, callees := [], inScc := false } :: regTop k st.stack))
    have hk : keys ({ key := k, callees := [], inScc := false } :: regTop k st.stack) = k :: keys st.stack := by
      simp only [keys, List.map_cons]
      have := keys_regTop k st.stack
      simp only [keys] at this
      rw [this]
    rw [hk]
    cases hst : st.stack with
    | nil => trivial
    | cons top r =>
      have := h.chain
      rw [hst] at this
      exact ⟨hreach top r hst, this⟩
  · show ∃ P T, st.memo = P ++ T ∧ _
    obtain ⟨P, T, h1, h2, h3, h4, _⟩ := h.blocks
    refine ⟨P, T, h1, h2, h3, fun _ => h4 (mk_noMarks nm), ?_⟩
    intro e
    exact absurd hmk e

/-- publishing the result of the top frame -/
theorem inv2_pop {p : Program} {st : St} (h : Inv2 p st) (hinv : Inv p st) {top : Frame} {rest : List Frame}
    (hs : st.stack = top :: rest) (d : Done) (hdk : d.key = top.key) (hdm : d.marked = top.inScc)
    (hmarked : d.marked = true → d.val = dfltOf p d.key)
    (hunmarked : d.marked = false → evalWith (valOf st.memo) (progOf p d.key) = some d.val) :
    Inv2 p { stack := rest, memo := d :: st.memo } := by
  have hnotin : d.key ∉ mkeys st.memo := by
    intro hin
    apply hinv.disjoint _ hin
    rw [hs, hdk]; simp [keys]
  have hext : ∀ x v, valOf st.memo x = some v → valOf (d :: st.memo) x = some v := by
    intro x v hx
    rw [valOf_cons]
    have : d.key ≠ x := fun e => hnotin (by rw [e]; exact valOf_some_mem hx)
    simp [this, hx]
  refine ⟨?_, ?_⟩
  · show RLinked p (valOf (d :: st.memo)) (keys rest)
    have := h.chain
    rw [hs] at this
    simp only [keys, List.map_cons] at this
    exact RLinked.mono hext _ this.tail
  · show ∃ P T, d :: st.memo = P ++ T ∧ Blocks p T ∧ _ ∧ (mk rest = [] → P = []) ∧
      (mk rest ≠ [] → CycOK p (valOf T) ((mk rest).reverse ++ mkeys P))
    obtain ⟨P, T, h1, h2, h3, h4, h5⟩ := h.blocks
    cases htop : top.inScc with
    | false =>
      have nm : NoMarks st.stack := by
        have := hinv.marks
        rw [hs] at this ⊢
        exact this.noMarks_of_head htop
      have hP : P = [] := h4 (mk_noMarks nm)
      have hmT : st.memo = T := by rw [h1, hP]; rfl
      have hun : d.marked = false := by rw [hdm, htop]
      have hmr : mk rest = [] := mk_noMarks (fun f hf => nm f (by rw [hs]; exact List.mem_cons_of_mem _ hf))
      refine ⟨[], d :: T, by rw [hmT]; rfl, .plain d T h2 hun (by rw [← hmT]; exact hunmarked hun),
        by simp, fun _ => rfl, fun e => absurd hmr e⟩
    | true =>
      have hmkd : d.marked = true := by rw [hdm, htop]
      have hmks : mk st.stack = top.key :: mk rest := by rw [hs, mk_cons, htop]; rfl
      have hC : CycOK p (valOf T) ((mk rest).reverse ++ mkeys (d :: P)) := by
        have := h5 (by rw [hmks]; simp)
        rw [hmks] at this
        simpa [mkeys, hdk] using this
      have hall : ∀ e ∈ d :: P, e.marked = true ∧ e.val = dfltOf p e.key := by
        intro e he
        rcases List.mem_cons.1 he with rfl | he
        · exact ⟨hmkd, hmarked hmkd⟩
        · exact h3 e he
      by_cases hmr : mk rest = []
      · refine ⟨[], (d :: P) ++ T, by rw [h1]; rfl, .cyc (d :: P) T h2 hall ?_, by simp,
          fun _ => rfl, fun e => absurd hmr e⟩
        rw [hmr] at hC
        simpa using hC
      · exact ⟨d :: P, T, by rw [h1]; rfl, h2, hall, fun e => absurd e hmr, fun _ => hC⟩

/-- detecting a cycle: the reader (top frame) asks for the computing query `k` -/
theorem inv2_mark {p : Program} {st : St} (h : Inv2 p st) (hinv : Inv p st) (nm : NoMarks st.stack)
    {top : Frame} {rest : List Frame} (hs : st.stack = top :: rest) {k : Key}
    (hk : k ∈ keys st.stack) (hreach : Reaches (valOf st.memo) (progOf p top.key) k) :
    ∀ s', checkCyclic ((regTop k st.stack).length + 1) top.key (regTop k st.stack) k = .ok (true, s') →
      Inv2 p { st with stack := markFrame top.key s' } := by
  intro s' hs'
  obtain ⟨mids, hmids, htn, ⟨low, hlow, _⟩, hkmark, _, hcc, _, hform⟩ := mark_key hinv nm hs hk
  have hreg : regTop k st.stack = { top with callees := addCallee k top.callees } :: rest := by rw [hs]; rfl
  rw [hreg, hcc] at hs'
  injection hs' with hs'
  injection hs' with _ hs'
  subst hs'
  have ndk : (keys (top :: rest)).Nodup := by rw [← hs]; exact hinv.nodup_keys
  simp only [keys, List.map_cons, List.nodup_cons] at ndk
  let Q : Key → Bool := fun x => (x == top.key) || ((keys mids).contains x || (x == top.key && k == top.key))
  have hQ : ∀ x, Q x = true ↔ (x = top.key ∨ x ∈ keys mids) := by
    intro x
    simp only [Q, Bool.or_eq_true, beq_iff_eq, List.contains_eq_mem, decide_eq_true_eq, Bool.and_eq_true]
    constructor
    · rintro (h | h | ⟨h, _⟩)
      · exact Or.inl h
      · exact Or.inr h
      · exact Or.inl h
    · rintro (h | h)
      · exact Or.inl h
      · exact Or.inr (Or.inl h)
  have hfinal : markFrame top.key
      (markSet (fun x => (keys mids).contains x || (x == top.key && k == top.key))
        ({ top with callees := addCallee k top.callees } :: rest))
      = markSet Q ({ top with callees := addCallee k top.callees } :: rest) := by
    rw [markFrame_eq_markSet, markSet_markSet]
  rw [hfinal]
  have nm1 : NoMarks ({ top with callees := addCallee k top.callees } :: rest) := by
    have := noMarks_regTop (k := k) nm
    rw [hreg] at this; exact this
  have hkeys : keys (markSet Q ({ top with callees := addCallee k top.callees } :: rest)) = keys st.stack := by
    rw [keys_markSet, hs]; rfl
  -- the marked frames: the reader and `mids`
  have hmk : mk (markSet Q ({ top with callees := addCallee k top.callees } :: rest)) = top.key :: keys mids := by
    rw [mk_markSet nm1]
    have hk1 : keys ({ top with callees := addCallee k top.callees } :: rest) = top.key :: (keys mids ++ keys low) := by
      simp only [keys, List.map_cons, hlow, List.map_append]
    rw [hk1, List.filter_cons, (hQ top.key).2 (Or.inl rfl)]
    simp only [if_true, List.filter_append, List.cons.injEq, true_and]
    have h1 : (keys mids).filter Q = keys mids :=
      List.filter_eq_self.2 (fun x hx => (hQ x).2 (Or.inr hx))
    have h2 : (keys low).filter Q = [] := by
      apply List.filter_eq_nil_iff.2
      intro x hx hq
      rcases (hQ x).1 hq with e | hm
      · apply ndk.1
        rw [← e, hlow]
        simp only [List.map_append, List.mem_append]
        exact Or.inr hx
      · have ndr := ndk.2
        rw [hlow] at ndr
        simp only [List.map_append] at ndr
        exact (List.nodup_append.1 ndr).2.2 x hm x hx rfl
    rw [h1, h2, List.append_nil]
  have hP : ∃ P T, st.memo = P ++ T ∧ Blocks p T ∧ (∀ d ∈ P, d.marked = true ∧ d.val = dfltOf p d.key) ∧ P = [] := by
    obtain ⟨P, T, h1, h2, h3, h4, _⟩ := h.blocks
    exact ⟨P, T, h1, h2, h3, h4 (mk_noMarks nm)⟩
  obtain ⟨P, T, h1, h2, h3, hPnil⟩ := hP
  subst hPnil
  have hmT : st.memo = T := by rw [h1]; rfl
  refine ⟨?_, ?_⟩
  · show RLinked p (valOf st.memo) (keys (markSet Q ({ top with callees := addCallee k top.callees } :: rest)))
    rw [hkeys]; exact h.chain
  · show ∃ P T, st.memo = P ++ T ∧ _
    refine ⟨[], T, h1, h2, h3, fun _ => rfl, fun _ => ?_⟩
    show CycOK p (valOf T) ((mk (markSet Q ({ top with callees := addCallee k top.callees } :: rest))).reverse ++ mkeys [])
    rw [hmk, ← hmT]
    simp only [mkeys, List.map_nil, List.append_nil]
    have hchain : RLinked p (valOf st.memo) (top.key :: keys mids) := by
      have := h.chain
      rw [hs, hlow] at this
      simp only [keys, List.map_cons, List.map_append] at this
      have h' : RLinked p (valOf st.memo) ((top.key :: List.map (·.key) mids) ++ List.map (·.key) low) := by
        simpa using this
      exact RLinked.prefix _ _ h'
    have hl := rlinked_reverse _ hchain
    refine cycOK_of (c := k) (z := top.key) hl ?_ (by simp) hreach
    rcases hform with rfl | ⟨mid, g, rfl, hgk⟩
    · have : k = top.key := by
        rcases hkmark with e | e
        · exact e
        · simp [keys] at e
      simp [keys, this]
    · simp [keys, hgk]

end Qbice.Cycle
