import QbiceVerif.Lemmas.WriteBehindStep

/-! Inductive invariants of the write-behind model. -/

namespace QbiceVerif.WB


def State.places (s : State) : List Task := s.pending ++ s.consumed

theorem places_def (s : State) : s.places =
    s.serQ ++ heldAll s.sers ++ s.commitQ ++ s.heap ++ (s.log.flatten ++ s.cur) := rfl

/-- What identifies a logical batch: its creation epoch and its content. -/
def Task.core (t : Task) : Nat × List WOp := (t.epoch, t.ops)

structure Inv (s : State) : Prop where
  sub_nodup : (s.submitted.map Task.epoch).Nodup
  sub_lt : ∀ t ∈ s.submitted, t.epoch < s.counter
  sub_keys : ∀ t ∈ s.submitted, (t.ops.map WOp.key).Nodup
  conserve : (s.places.map Task.core).Perm (s.submitted.map Task.core)
  order : s.consumed.map Task.epoch = List.range s.expected

macro "count_tac" h:ident : tactic => `(tactic| (
  rw [List.perm_iff_count] at $h:ident ⊢
  intro a
  have hcnt := $h:ident a
  simp only [List.map_append, List.count_append, List.map_cons, List.count_cons, List.map_nil,
    List.count_nil, List.flatten_append, List.flatten_cons, List.flatten_nil, heldAll_append, heldAll_cons,
    SerSt.held, List.append_nil, List.nil_append, Task.core] at hcnt ⊢
  omega))

theorem inv_step (s : State) (ev : Event) (s' : State) (hi : Inv s) (hst : Step s ev s') : Inv s' := by
  obtain ⟨h1, h2, h3, h4, h6⟩ := hi
  simp only [places_def, State.consumed] at h4 h6
  cases hst
  case create =>
    refine ⟨h1, ?_, h3, h4, h6⟩
    intro t ht; have := h2 t ht; simp; omega
  case submitCrash => exact ⟨h1, h2, h3, h4, h6⟩
  case submit e ops hc hd he hn hk h0 =>
    refine ⟨?_, ?_, ?_, ?_, h6⟩
    · simp only [List.map_append, List.map_cons, List.map_nil]
      rw [List.nodup_append]
      refine ⟨h1, by simp, ?_⟩
      intro a ha b hb
      simp at hb; subst hb
      intro hab; subst hab; exact hn ha
    · intro t ht
      simp at ht
      rcases ht with ht | rfl
      · exact h2 t ht
      · exact he
    · intro t ht
      simp at ht
      rcases ht with ht | rfl
      · exact h3 t ht
      · exact hk
    · simp only [places_def]
      count_tac h4
  case serTake w t q hc hw hq =>
    obtain ⟨l₁, l₂, e₁, e₂⟩ := heldAll_set hw (.raw t)
    refine ⟨h1, h2, h3, ?_, h6⟩
    simp only [places_def, e₂]
    rw [hq, e₁] at h4
    count_tac h4
  case serSerialise w buf t hc hw hp =>
    obtain ⟨l₁, l₂, e₁, e₂⟩ := heldAll_set hw (.done { t with buf := buf })
    refine ⟨h1, h2, h3, ?_, h6⟩
    simp only [places_def, e₂]
    rw [e₁] at h4
    count_tac h4
  case serSend w t hc hw =>
    obtain ⟨l₁, l₂, e₁, e₂⟩ := heldAll_set hw .idle
    refine ⟨h1, h2, h3, ?_, h6⟩
    simp only [places_def, e₂]
    rw [e₁] at h4
    count_tac h4
  case serExit w hc hw hq hcl =>
    obtain ⟨l₁, l₂, e₁, e₂⟩ := heldAll_set hw .exited
    refine ⟨h1, h2, h3, ?_, h6⟩
    simp only [places_def, e₂]
    rw [e₁] at h4
    count_tac h4
  case cRecv t q hc hp hq =>
    refine ⟨h1, h2, h3, ?_, h6⟩
    simp only [places_def]
    rw [hq] at h4
    count_tac h4
  case cRecvClosed => exact ⟨h1, h2, h3, h4, h6⟩
  case cPop t hc hp hm he =>
    have hmem := heapMin_mem hm
    have hpe := (List.perm_cons_erase hmem).map Task.core
    refine ⟨h1, h2, h3, ?_, ?_⟩
    · simp only [places_def]
      rw [List.perm_iff_count] at hpe
      rw [List.perm_iff_count] at h4 ⊢
      intro a
      have hcnt := h4 a
      have hcnt2 := hpe a
      simp only [List.map_append, List.count_append, List.map_cons, List.count_cons, List.map_nil,
        List.count_nil, Task.core] at hcnt hcnt2 ⊢
      omega
    · simp only [State.consumed]
      rw [← List.append_assoc, List.map_append, h6, List.range_succ]
      simp [he]
  case cBreak => exact ⟨h1, h2, h3, h4, h6⟩
  case cDecide => exact ⟨h1, h2, h3, h4, h6⟩
  case cCommit =>
    refine ⟨h1, h2, h3, ?_, ?_⟩
    · simp only [places_def]
      count_tac h4
    · simpa [State.consumed] using h6
  case cLastCommit =>
    refine ⟨h1, h2, h3, ?_, ?_⟩
    · simp only [places_def]
      count_tac h4
    · simpa [State.consumed] using h6
  all_goals exact ⟨h1, h2, h3, h4, h6⟩



def SerSt.doneHeld : SerSt → List Task
  | .done t => [t]
  | _ => []

def doneAll (l : List SerSt) : List Task := l.flatMap SerSt.doneHeld

theorem doneAll_append (a b : List SerSt) : doneAll (a ++ b) = doneAll a ++ doneAll b := by
  simp [doneAll]

theorem doneAll_cons (a : SerSt) (b : List SerSt) : doneAll (a :: b) = a.doneHeld ++ doneAll b := by
  simp [doneAll]

/-- Every batch past serialization carries a buffer that is a permutation of its content. -/
def BufInv (s : State) : Prop :=
  ∀ t ∈ doneAll s.sers ++ s.commitQ ++ s.heap ++ (s.log.flatten ++ s.cur), t.buf.Perm t.ops

macro "mem_tac" : tactic => `(tactic| (
  simp only [doneAll_append, doneAll_cons, SerSt.doneHeld, List.forall_mem_append, List.forall_mem_cons,
      List.nil_append, List.append_assoc, List.cons_append, List.flatten_append, List.flatten_cons,
      List.flatten_nil, List.append_nil, List.forall_mem_singleton] at *
  grind))

theorem bufInv_step (s : State) (ev : Event) (s' : State) (hi : BufInv s) (hst : Step s ev s') : BufInv s' := by
  unfold BufInv at hi ⊢
  cases hst
  case serTake w t q hc hw hq =>
    obtain ⟨l₁, l₂, e₁, e₂⟩ := heldAll_set hw (.raw t)
    simp only [e₂]
    rw [e₁] at hi
    clear e₁ e₂ hw hq hc
    mem_tac
  case serSerialise w buf t hc hw hp =>
    obtain ⟨l₁, l₂, e₁, e₂⟩ := heldAll_set hw (.done { t with buf := buf })
    simp only [e₂]
    rw [e₁] at hi
    clear e₁ e₂ hw hc
    mem_tac
  case serSend w t hc hw =>
    obtain ⟨l₁, l₂, e₁, e₂⟩ := heldAll_set hw .idle
    simp only [e₂]
    rw [e₁] at hi
    clear e₁ e₂ hw hc
    mem_tac
  case serExit w hc hw hq hcl =>
    obtain ⟨l₁, l₂, e₁, e₂⟩ := heldAll_set hw .exited
    simp only [e₂]
    rw [e₁] at hi
    clear e₁ e₂ hw hc hq hcl
    mem_tac
  case cRecv t q hc hp hq =>
    simp only
    rw [hq] at hi
    clear hq hp hc
    mem_tac
  case cPop t hc hp hm he =>
    have hmem := heapMin_mem hm
    simp only
    intro x hx
    apply hi
    simp only [List.mem_append, List.mem_singleton] at hx ⊢
    rcases hx with ((hx | hx) | hx) | (hx | hx | hx)
    · exact .inl (.inl (.inl hx))
    · exact .inl (.inl (.inr hx))
    · exact .inl (.inr (List.mem_of_mem_erase hx))
    · exact .inr (.inl hx)
    · exact .inr (.inr hx)
    · subst hx; exact .inl (.inr hmem)
  case cCommit => simp only; mem_tac
  case cLastCommit => simp only; mem_tac
  all_goals exact hi



def CPc.late : CPc → Bool
  | .lastCommit | .lastNotify _ | .assert | .done => true
  | _ => false
def CPc.curEmpty : CPc → Bool
  | .notify _ | .lastNotify _ | .assert | .done => true
  | _ => false
def CPc.broke : CPc → Bool
  | .wait | .lastCommit | .lastNotify _ | .assert => true
  | _ => false
def DPc.closed : DPc → Bool
  | .running | .flagged => false
  | _ => true
def DPc.sersJoined : DPc → Bool
  | .joinCommit | .joinAfter | .returned => true
  | _ => false
def DPc.commitJoined : DPc → Bool
  | .joinAfter | .returned => true
  | _ => false

theorem allExited_get {l : List SerSt} (h : allExited l = true) {w : Nat} {a : SerSt}
    (hw : l[w]? = some a) : a = .exited := by
  rw [allExited_iff] at h
  exact h a (List.mem_of_getElem? hw)

/-- Group A: shape facts. -/
structure PcA (nSer : Nat) (s : State) : Prop where
  len : s.sers.length = nSer
  closed_iff : s.serClosed = s.dpc.closed
  nosers : s.sers = [] → s.serQ = []

theorem pcA_step (nSer : Nat) (s : State) (ev : Event) (s' : State) (hi : PcA nSer s)
    (hst : Step s ev s') : PcA nSer s' := by
  obtain ⟨a1, a2, a3⟩ := hi
  cases hst <;> constructor <;> simp_all [DPc.closed]

/-- Group B: an exited serializer has seen the channel closed and empty. -/
def PcB (s : State) : Prop := ∀ x ∈ s.sers, x = .exited → s.serQ = [] ∧ s.serClosed = true

theorem pcB_step (nSer : Nat) (s : State) (ev : Event) (s' : State) (ha : PcA nSer s) (hi : PcB s)
    (hst : Step s ev s') : PcB s' := by
  obtain ⟨a1, a2, a3⟩ := ha
  unfold PcB at hi ⊢
  cases hst
  case submit e ops hc hd he hn hk h0 =>
    intro x hx hxe
    have := hi x hx hxe
    simp_all [DPc.closed]
  case serTake w t q hc hw hq =>
    intro x hx hxe
    simp only at hx ⊢
    rcases List.mem_or_eq_of_mem_set hx with hx | hx
    · have := hi x hx hxe; simp_all
    · simp_all
  case serSerialise w buf t hc hw hp =>
    intro x hx hxe
    simp only at hx ⊢
    rcases List.mem_or_eq_of_mem_set hx with hx | hx
    · exact hi x hx hxe
    · simp_all
  case serSend w t hc hw =>
    intro x hx hxe
    simp only at hx ⊢
    rcases List.mem_or_eq_of_mem_set hx with hx | hx
    · exact hi x hx hxe
    · simp_all
  case serExit w hc hw hq hcl =>
    intro x hx hxe
    exact ⟨hq, hcl⟩
  all_goals (first | exact hi | (intro x hx hxe; have := hi x hx hxe; simp_all))


end QbiceVerif.WB
