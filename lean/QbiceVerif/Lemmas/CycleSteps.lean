/-
Preservation of the invariant by the state transformations of `queryFor` (Model/Cycle.lean).
-/
import QbiceVerif.Lemmas.CycleInv
namespace Qbice.Cycle

/-- `register_callee` on the top frame -/
def regTop (k : Key) : List Frame → List Frame
  | [] => []
  | top :: r => { top with callees := addCallee k top.callees } :: r

theorem keys_regTop (k : Key) (s : List Frame) : keys (regTop k s) = keys s := by
  cases s <;> simp [regTop, keys]

theorem length_regTop (k : Key) (s : List Frame) : (regTop k s).length = s.length := by
  cases s <;> simp [regTop]

theorem register_eq_regTop {top : Frame} {r : List Frame} (k : Key) (nd : (keys (top :: r)).Nodup) :
    register top.key k (top :: r) = regTop k (top :: r) := by
  simp only [keys, List.map_cons, List.nodup_cons] at nd
  exact register_cons_self top k r nd.1

theorem noMarks_regTop {k : Key} {s : List Frame} (h : NoMarks s) : NoMarks (regTop k s) := by
  cases s with
  | nil => exact h
  | cons top r =>
    intro f hf
    simp only [regTop, List.mem_cons] at hf
    rcases hf with rfl | hf
    · exact h top (by simp)
    · exact h f (List.mem_cons_of_mem _ hf)

/-- edges only grow when frames keep or extend their callees, or become memo entries -/
theorem edge_mono {st st' : St} (hm : ∀ d ∈ st.memo, d ∈ st'.memo)
    (hs : ∀ f ∈ st.stack, (∃ f' ∈ st'.stack, f'.key = f.key ∧ ∀ x ∈ f.callees, x ∈ f'.callees) ∨
                          (∃ d ∈ st'.memo, d.key = f.key ∧ ∀ x ∈ f.callees, x ∈ d.reads)) :
    ∀ a b, Edge st a b → Edge st' a b := by
  intro a b h
  rcases h with ⟨d, hd, hk, hb⟩ | ⟨f, hf, hk, hb⟩
  · exact Or.inl ⟨d, hm d hd, hk, hb⟩
  · rcases hs f hf with ⟨f', hf', hk', hc⟩ | ⟨d, hd, hk', hc⟩
    · exact Or.inr ⟨f', hf', hk'.trans hk, hc b hb⟩
    · exact Or.inl ⟨d, hd, hk'.trans hk, hc b hb⟩

theorem regTop_frames {k : Key} {s : List Frame} :
    ∀ f ∈ s, ∃ f' ∈ regTop k s, f'.key = f.key ∧ f'.inScc = f.inScc ∧ ∀ x ∈ f.callees, x ∈ f'.callees := by
  intro f hf
  cases s with
  | nil => simp at hf
  | cons top r =>
    rcases List.mem_cons.1 hf with rfl | hr
    · exact ⟨{ f with callees := addCallee k f.callees }, by simp [regTop], rfl, rfl,
        fun x hx => mem_addCallee.2 (Or.inl hx)⟩
    · exact ⟨f, by simp [regTop, hr], rfl, rfl, fun x hx => hx⟩

/-- from the invariant: stack keys are distinct and disjoint from the memo keys -/
theorem Inv.nodup_keys {p : Program} {st : St} (h : Inv p st) : (keys st.stack).Nodup :=
  (List.nodup_append.1 h.nodup).1

theorem Inv.nodup_mkeys {p : Program} {st : St} (h : Inv p st) : (mkeys st.memo).Nodup :=
  (List.nodup_append.1 h.nodup).2.1

theorem Inv.disjoint {p : Program} {st : St} (h : Inv p st) : ∀ x ∈ mkeys st.memo, x ∉ keys st.stack := by
  intro x hx hs
  exact (List.nodup_append.1 h.nodup).2.2 x hs x hx rfl

theorem Inv.stack_length_le {p : Program} {st : St} (h : Inv p st) : st.stack.length ≤ p.length := by
  have := nodup_bounded_length p.length (keys st.stack) h.nodup_keys
    (fun x hx => h.bound x (List.mem_append_left _ hx))
  simpa [keys] using this

/-- with no marks every recorded read is a computed key -/
theorem Inv.closed_of_noMarks {p : Program} {st : St} (h : Inv p st) (nm : NoMarks st.stack) :
    Closed st.memo := by
  intro d hd r hr
  rcases h.memoEdges d hd r hr with hm | hk
  · exact hm
  · exact absurd hk (nm.not_markedKey r)

theorem Inv.top_callees_memo {p : Program} {st : St} (h : Inv p st) (nm : NoMarks st.stack)
    {top : Frame} {r : List Frame} (hs : st.stack = top :: r) : ∀ x ∈ top.callees, x ∈ mkeys st.memo := by
  intro x hx
  have := h.stackOK
  rw [hs] at this
  rcases this.1 x hx with hm | ⟨ht, _⟩
  · exact hm
  · have := nm top (by rw [hs]; simp)
    rw [this] at ht
    exact Bool.noConfusion ht

-- ------------------------------------------------------------------ case B: registered callee is computed

theorem inv_reg_hit {p : Program} {st : St} (h : Inv p st) (nm : NoMarks st.stack)
    {top : Frame} {r : List Frame} (hs : st.stack = top :: r) {k : Key}
    (hk : k ∈ mkeys st.memo) (hask : MayAsk (progOf p top.key) k) :
    Inv p { st with stack := regTop k st.stack } := by
  have htm := h.top_callees_memo nm hs
  have hso := h.stackOK
  rw [hs] at hso
  have nm' : NoMarks (regTop k st.stack) := noMarks_regTop nm
  have hmono : ∀ a b, Edge st a b → Edge { st with stack := regTop k st.stack } a b :=
    edge_mono (fun d hd => hd) (fun f hf => by
      obtain ⟨f', h1, h2, _, h4⟩ := regTop_frames (k := k) f hf
      exact Or.inl ⟨f', h1, h2, h4⟩)
  refine ⟨?_, ?_, ?_, nm'.markPrefix, ?_, h.memoOK, ?_, ?_, ?_⟩
  · simpa [keys_regTop] using h.nodup
  · simpa [keys_regTop] using h.bound
  · simp only [hs, regTop, StackOK]
    refine ⟨?_, hso.2⟩
    intro x hx
    rcases mem_addCallee.1 hx with hx | rfl
    · exact Or.inl (htm x hx)
    · exact Or.inl hk
  · intro d hd x hx
    exact Or.inl (h.closed_of_noMarks nm d hd x hx)
  · intro f hf x hx
    simp only [hs, regTop, List.mem_cons] at hf
    rcases hf with rfl | hf
    · rcases mem_addCallee.1 hx with hx | rfl
      · exact h.frameAsk top (by rw [hs]; simp) x hx
      · exact hask
    · exact h.frameAsk f (by rw [hs]; exact List.mem_cons_of_mem _ hf) x hx
  · intro f hf hm
    rw [nm' f hf] at hm
    exact Bool.noConfusion hm
  · intro d hd hm
    exact (h.cycM d hd hm).mono hmono

-- ------------------------------------------------------------------ case C, first half: computing lock

theorem inv_push {p : Program} {st : St} (h : Inv p st) (nm : NoMarks st.stack) {k : Key}
    (hks : k ∉ keys st.stack) (hkm : k ∉ mkeys st.memo) (hkn : k < p.length)
    (hask : ∀ top r, st.stack = top :: r → MayAsk (progOf p top.key) k) :
    Inv p { st with stack := { key := k, callees := [], inScc := false } :: regTop k st.stack } ∧
    NoMarks ({ key := k, callees := [], inScc := false } :: regTop k st.stack) := by
  have nm' : NoMarks ({ key := k, callees := [], inScc := false } :: regTop k st.stack) := by
    intro f hf
    rcases List.mem_cons.1 hf with rfl | hf
    · rfl
    · exact noMarks_regTop nm f hf
  have hmono : ∀ a b, Edge st a b →
      Edge { st with stack := { key := k, callees := [], inScc := false } :: regTop k st.stack } a b :=
    edge_mono (fun d hd => hd) (fun f hf => by
      obtain ⟨f', h1, h2, _, h4⟩ := regTop_frames (k := k) f hf
      exact Or.inl ⟨f', List.mem_cons_of_mem _ h1, h2, h4⟩)
  refine ⟨⟨?_, ?_, ?_, nm'.markPrefix, ?_, h.memoOK, ?_, ?_, ?_⟩, nm'⟩
  · simp only [keys, List.map_cons, List.cons_append, List.nodup_cons]
    refine ⟨?_, by have := h.nodup; rw [← keys_regTop k] at this; simpa [keys] using this⟩
    have : k ∉ keys (regTop k st.stack) ++ mkeys st.memo := by
      rw [keys_regTop]; simp [hks, hkm]
    simpa [keys] using this
  · intro x hx
    simp only [keys, List.map_cons, List.cons_append, List.mem_cons] at hx
    rcases hx with rfl | hx
    · exact hkn
    · apply h.bound
      have := keys_regTop k st.stack
      simp only [keys] at this
      rw [this] at hx
      exact hx
  · simp only [StackOK]
    refine ⟨by intro x hx; simp at hx, ?_⟩
    cases hst : st.stack with
    | nil => simp [regTop, ChainBelow]
    | cons top r =>
      have hso := h.stackOK
      rw [hst] at hso
      have htm := h.top_callees_memo nm hst
      simp only [regTop, ChainBelow]
      refine ⟨mem_addCallee.2 (Or.inr rfl), ?_, hso.2⟩
      intro x hx
      rcases mem_addCallee.1 hx with hx | rfl
      · exact Or.inr (htm x hx)
      · exact Or.inl rfl
  · intro d hd x hx
    exact Or.inl (h.closed_of_noMarks nm d hd x hx)
  · intro f hf x hx
    rcases List.mem_cons.1 hf with rfl | hf
    · simp at hx
    · cases hst : st.stack with
      | nil => rw [hst] at hf; simp [regTop] at hf
      | cons top r =>
        rw [hst] at hf
        simp only [regTop, List.mem_cons] at hf
        rcases hf with rfl | hf
        · rcases mem_addCallee.1 hx with hx | rfl
          · exact h.frameAsk top (by rw [hst]; simp) x hx
          · exact hask top r hst
        · exact h.frameAsk f (by rw [hst]; exact List.mem_cons_of_mem _ hf) x hx
  · intro f hf hm
    rw [nm' f hf] at hm
    exact Bool.noConfusion hm
  · intro d hd hm
    exact (h.cycM d hd hm).mono hmono

end Qbice.Cycle
