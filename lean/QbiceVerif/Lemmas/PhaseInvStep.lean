import QbiceVerif.Lemmas.PhaseSpec

/-!
# C04 — relational form of `step` and basic lemmas (`upd`, the lock's queue, `snapshot`)

`StepR c s ev s'` is `step c s ev = some s'` with every match/if resolved: one constructor per
enabled branch, explicit side conditions, the successor state written as an anonymous constructor so
that projections reduce definitionally.
-/

namespace QbiceVerif.Phase

/-! ## `upd` -/

theorem upd_apply {α : Type} (f : Nat → α) (k : Nat) (v : α) (x : Nat) :
    upd f k v x = if x = k then v else f x := rfl

@[simp] theorem upd_same {α : Type} (f : Nat → α) (k : Nat) (v : α) : upd f k v k = v := by
  simp [upd]

theorem upd_ne {α : Type} (f : Nat → α) (k : Nat) (v : α) (x : Nat) (h : x ≠ k) :
    upd f k v x = f x := by
  simp [upd, h]

theorem upd_self_eq {α : Type} (f : Nat → α) (k : Nat) : upd f k (f k) = f := by
  funext x
  by_cases h : x = k
  · subst h; simp
  · simp [upd, h]

/-! ## the waiter queue -/

theorem want_def (l : Lock) (t : Tid) :
    l.want t = (l.queue.find? (fun p => p.1 == t)).map (·.2) := rfl

theorem find_filter_self (q : List (Tid × Bool)) (t : Tid) :
    (q.filter (fun p => p.1 != t)).find? (fun p => p.1 == t) = none := by
  induction q with
  | nil => rfl
  | cons p q ih => grind

theorem find_filter_ne (q : List (Tid × Bool)) (t t' : Tid) (hne : t' ≠ t) :
    (q.filter (fun p => p.1 != t)).find? (fun p => p.1 == t') = q.find? (fun p => p.1 == t') := by
  induction q with
  | nil => rfl
  | cons p q ih => grind

/-- the queue without the requests of `t` -/
def dequeue (q : List (Tid × Bool)) (t : Tid) : List (Tid × Bool) := q.filter (fun p => p.1 != t)

theorem want_dequeue_self (r : List Tid) (w : Option Tid) (q : List (Tid × Bool)) (t : Tid) :
    (Lock.mk r w (dequeue q t)).want t = none := by
  simp [want_def, dequeue, find_filter_self q t]

theorem want_dequeue_ne (r : List Tid) (w : Option Tid) (l : Lock) (t t' : Tid) (hne : t' ≠ t) :
    (Lock.mk r w (dequeue l.queue t)).want t' = l.want t' := by
  simp [want_def, dequeue, find_filter_ne _ _ _ hne]

theorem want_enqueue_self (r : List Tid) (w : Option Tid) (l : Lock) (t : Tid) (b : Bool)
    (h : l.want t = none) : (Lock.mk r w (l.queue ++ [(t, b)])).want t = some b := by
  simp only [want_def, Option.map_eq_none_iff] at h
  simp [want_def, List.find?_append, h]

theorem want_enqueue_ne (r : List Tid) (w : Option Tid) (l : Lock) (t t' : Tid) (b : Bool)
    (hne : t' ≠ t) : (Lock.mk r w (l.queue ++ [(t, b)])).want t' = l.want t' := by
  have hne' : ¬ t = t' := fun h => hne h.symm
  cases hf : l.queue.find? (fun p => p.1 == t') <;>
    simp [want_def, List.find?_append, hf, hne']

theorem want_dequeue (r : List Tid) (w : Option Tid) (l : Lock) (t t' : Tid) :
    (Lock.mk r w (dequeue l.queue t)).want t' = if t' = t then none else l.want t' := by
  split
  · next h => subst h; exact want_dequeue_self _ _ _ _
  · next h => exact want_dequeue_ne _ _ _ _ _ h

theorem want_enqueue (r : List Tid) (w : Option Tid) (l : Lock) (t t' : Tid) (b : Bool) :
    (Lock.mk r w (l.queue ++ [(t, b)])).want t' =
      if t' = t ∧ l.want t = none then some b else l.want t' := by
  by_cases h : t' = t
  · subst h
    cases hw : l.want t' with
    | none => simpa using want_enqueue_self r w l t' b hw
    | some x =>
      simp only [want_def, Option.map_eq_some_iff] at hw
      obtain ⟨p, hp, hx⟩ := hw
      simp [want_def, List.find?_append, hp, hx]
  · simp [h, want_enqueue_ne _ _ _ _ _ _ h]

/-! ## `applyWrites`, `snapshot` -/

/-- all released sessions applied to the initial inputs -/
def fullInputs (base : Inputs) (done : List (Nat × List (Key × Val))) : Inputs :=
  done.foldl (fun i σ => applyWrites i σ.2) base

theorem applyWrites_nil (i : Inputs) : applyWrites i [] = i := rfl

theorem applyWrites_snoc (i : Inputs) (ws : List (Key × Val)) (k : Key) (v : Val) :
    applyWrites i (ws ++ [(k, v)]) = upd (applyWrites i ws) k v := by
  simp [applyWrites, List.foldl_append]

theorem fullInputs_snoc (base : Inputs) (done : List (Nat × List (Key × Val))) (e : Nat)
    (ws : List (Key × Val)) :
    fullInputs base (done ++ [(e, ws)]) = applyWrites (fullInputs base done) ws := by
  simp [fullInputs, List.foldl_append]

theorem snapshot_all (base : Inputs) (done : List (Nat × List (Key × Val))) (e : Nat)
    (h : ∀ σ, σ ∈ done → σ.1 ≤ e) : snapshot base done e = fullInputs base done := by
  have : done.filter (fun σ => decide (σ.1 ≤ e)) = done := by
    apply List.filter_eq_self.2
    intro σ hσ
    simpa using h σ hσ
  simp [snapshot, fullInputs, this]

theorem snapshot_snoc_gt (base : Inputs) (done : List (Nat × List (Key × Val))) (e e' : Nat)
    (ws : List (Key × Val)) (h : e < e') :
    snapshot base (done ++ [(e', ws)]) e = snapshot base done e := by
  have : ¬ e' ≤ e := by omega
  simp [snapshot, List.filter_append, this]

/-! ## the opening steps -/

/-- the number of opening steps done when a writer waits for the exclusive lock (`req` done, `acq` not) -/
def acqIdx (lf : Bool) : Nat := if lf then 1 else 4

theorem openOrder_spec (lf : Bool) (i : Nat) (st : OpenStep) (h : (openOrder lf)[i]? = some st) :
    i < 5 ∧ (st = .req ↔ i + 1 = acqIdx lf) ∧ (st = .acq ↔ i = acqIdx lf) := by
  cases lf <;>
  · rcases i with _ | _ | _ | _ | _ | i <;>
      simp [openOrder, acqIdx] at h ⊢ <;> subst h <;> simp

theorem openOrder_true (i : Nat) (st : OpenStep) (h : (openOrder true)[i]? = some st) :
    (i = 0 ∧ st = .req) ∨ (i = 1 ∧ st = .acq) ∨ (i = 2 ∧ st = .batch) ∨ (i = 3 ∧ st = .bump) ∨
      (i = 4 ∧ st = .stage) := by
  rcases i with _ | _ | _ | _ | _ | i <;> simp [openOrder] at h ⊢ <;> exact h.symm

theorem openPos_eq (x : Task) (i e0 : Nat) (sets : List (Key × Val)) (kind : CommitKind) (rest : List Op)
    (h : openPos x = some (i, e0, sets, kind, rest)) :
    (x.pc = .idle ∧ x.script = .session sets kind :: rest ∧ i = 0 ∧ e0 = 0) ∨
      (x.pc = .wOpen i e0 sets kind ∧ x.script = rest) := by
  unfold openPos at h
  split at h
  · next h1 h2 => simp at h; simp [h1, h2, h]; omega
  · next h1 => simp at h; simp [h1, h]
  · cases h

def wEpoch (ep : Nat) : OpenStep → Nat
  | .bump => ep + 1
  | _ => ep

def wLock (l : Lock) (t : Tid) : OpenStep → Lock
  | .req => ⟨l.readers, l.writer, l.queue ++ [(t, true)]⟩
  | _ => l

def wE (e e0 : Nat) : OpenStep → Nat
  | .bump => e
  | _ => e0

def wTask (j e : Nat) (sets : List (Key × Val)) (kind : CommitKind) (rest : List Op) : Task :=
  if j < 5 then ⟨.wOpen j e sets kind, rest⟩ else ⟨.wActive sets kind, rest⟩

def wSess (sess : Option Sess) (inp : Inputs) (t : Tid) (j e : Nat) : Option Sess :=
  if j < 5 then sess
  else some { owner := t, epoch := e, pc := .active, batch := [], writes := [], base := inp }

def wSide (s : State) (t : Tid) (e e0 : Nat) : OpenStep → Prop
  | .batch => e = 0
  | .bump => e = s.epoch + 1
  | .stage => e = e0
  | .req => e = 0
  | .acq => e = 0 ∧ s.lock.writer = some t ∧ s.lock.want t = none

theorem afterOpen_eq (s : State) (t : Tid) (j e : Nat) (sets : List (Key × Val)) (kind : CommitKind)
    (rest : List Op) :
    afterOpen s t j e sets kind rest =
      ⟨s.epoch, s.lock, upd s.tasks t (wTask j e sets kind rest), s.inputs, s.nodes,
        wSess s.sess s.inputs t j e, s.done, s.base⟩ := by
  unfold afterOpen wTask wSess
  split <;> rfl

/-! ## relational form of `step` -/

inductive StepR (c : Cfg) (s : State) : Ev → State → Prop
  | rReq (t : Tid) (ks : List (Bool × Key)) (rest : List Op)
      (hpc : (s.tasks t).pc = .idle) (hsc : (s.tasks t).script = .round ks :: rest) :
      StepR c s (.rReq t)
        ⟨s.epoch, ⟨s.lock.readers, s.lock.writer, s.lock.queue ++ [(t, false)]⟩,
          upd s.tasks t ⟨.rWait ks, rest⟩, s.inputs, s.nodes, s.sess, s.done, s.base⟩
  | grantR (t : Tid) (hw : s.lock.want t = some false) (hwr : s.lock.writer = none) :
      StepR c s (.grant t)
        ⟨s.epoch, ⟨t :: s.lock.readers, s.lock.writer, dequeue s.lock.queue t⟩,
          s.tasks, s.inputs, s.nodes, s.sess, s.done, s.base⟩
  | grantW (t : Tid) (hw : s.lock.want t = some true) (hrd : s.lock.readers = [])
      (hwr : s.lock.writer = none) :
      StepR c s (.grant t)
        ⟨s.epoch, ⟨s.lock.readers, some t, dequeue s.lock.queue t⟩,
          s.tasks, s.inputs, s.nodes, s.sess, s.done, s.base⟩
  | rAcq (t : Tid) (ks : List (Bool × Key)) (hpc : (s.tasks t).pc = .rWait ks)
      (hmem : t ∈ s.lock.readers) (hw : s.lock.want t = none) :
      StepR c s (.rAcq t)
        ⟨s.epoch, s.lock, upd s.tasks t ⟨.rLocked ks, (s.tasks t).script⟩, s.inputs, s.nodes, s.sess,
          s.done, s.base⟩
  | rSample (t : Tid) (ks : List (Bool × Key)) (hpc : (s.tasks t).pc = .rLocked ks) :
      StepR c s (.rSample t s.epoch)
        ⟨s.epoch, s.lock, upd s.tasks t ⟨.rActive s.epoch ks, (s.tasks t).script⟩, s.inputs, s.nodes,
          s.sess, s.done, s.base⟩
  | rQueryIn (t : Tid) (e : Nat) (k : Key) (ks : List (Bool × Key))
      (hpc : (s.tasks t).pc = .rActive e ((true, k) :: ks)) :
      StepR c s (.rQuery t k (s.inputs k))
        ⟨s.epoch, s.lock, upd s.tasks t ⟨.rActive e ks, (s.tasks t).script⟩, s.inputs, s.nodes,
          s.sess, s.done, s.base⟩
  | rQueryD (t : Tid) (e : Nat) (k : Key) (ks : List (Bool × Key))
      (hpc : (s.tasks t).pc = .rActive e ((false, k) :: ks)) :
      StepR c s (.rQuery t k (query c s.inputs s.nodes e k).1)
        ⟨s.epoch, s.lock, upd s.tasks t ⟨.rActive e ks, (s.tasks t).script⟩, s.inputs,
          (query c s.inputs s.nodes e k).2, s.sess, s.done, s.base⟩
  | rRel (t : Tid) (e : Nat) (hpc : (s.tasks t).pc = .rActive e []) :
      StepR c s (.rRel t)
        ⟨s.epoch, ⟨s.lock.readers.erase t, s.lock.writer, s.lock.queue⟩,
          upd s.tasks t ⟨.idle, (s.tasks t).script⟩, s.inputs, s.nodes, s.sess, s.done, s.base⟩
  | wStep (t : Tid) (st : OpenStep) (e i e0 : Nat) (sets : List (Key × Val)) (kind : CommitKind)
      (rest : List Op) (hpos : openPos (s.tasks t) = some (i, e0, sets, kind, rest))
      (hord : (openOrder c.lockFirst)[i]? = some st) (hside : wSide s t e e0 st) :
      StepR c s (.wStep t st e)
        ⟨wEpoch s.epoch st, wLock s.lock t st,
          upd s.tasks t (wTask (i + 1) (wE e e0 st) sets kind rest), s.inputs, s.nodes,
          wSess s.sess s.inputs t (i + 1) (wE e e0 st), s.done, s.base⟩
  | wSet (t : Tid) (k : Key) (v : Val) (sets : List (Key × Val)) (kind : CommitKind) (σ : Sess)
      (hpc : (s.tasks t).pc = .wActive ((k, v) :: sets) kind) (hs : s.sess = some σ)
      (ho : σ.owner = t) (hp : σ.pc = .active) :
      StepR c s (.wSet t k v)
        ⟨s.epoch, s.lock, upd s.tasks t ⟨.wActive sets kind, (s.tasks t).script⟩, upd s.inputs k v,
          s.nodes,
          some { σ with batch := if s.inputs k = v then σ.batch else k :: σ.batch,
                        writes := σ.writes ++ [(k, v)] },
          s.done, s.base⟩
  | wCommit (t : Tid) (σ : Sess) (hpc : (s.tasks t).pc = .wActive [] .commit) (hs : s.sess = some σ)
      (ho : σ.owner = t) (hp : σ.pc = .active) :
      StepR c s (.wCommit t)
        ⟨s.epoch, s.lock, upd s.tasks t ⟨.wCommitting, (s.tasks t).script⟩, s.inputs, s.nodes,
          some { σ with pc := .begun }, s.done, s.base⟩
  | wDrop (t : Tid) (σ : Sess) (hpc : (s.tasks t).pc = .wActive [] .drop) (hs : s.sess = some σ)
      (ho : σ.owner = t) (hp : σ.pc = .active) :
      StepR c s (.wDrop t)
        ⟨s.epoch, s.lock, upd s.tasks t ⟨.idle, (s.tasks t).script⟩, s.inputs, s.nodes,
          some { σ with pc := .begun }, s.done, s.base⟩
  | cPropagate (t : Tid) (σ : Sess) (hs : s.sess = some σ) (ho : σ.owner = t) (hp : σ.pc = .begun) :
      StepR c s (.cPropagate t)
        ⟨s.epoch, s.lock, s.tasks, s.inputs, markDirty s.nodes σ.batch,
          some { σ with pc := .propagated }, s.done, s.base⟩
  | cSubmit (t : Tid) (σ : Sess) (hs : s.sess = some σ) (ho : σ.owner = t)
      (hp : σ.pc = .propagated) :
      StepR c s (.cSubmit t)
        ⟨s.epoch, s.lock, s.tasks, s.inputs, s.nodes, some { σ with pc := .submitted }, s.done,
          s.base⟩
  | cRel (t : Tid) (σ : Sess) (hs : s.sess = some σ) (ho : σ.owner = t) (hp : σ.pc = .submitted) :
      StepR c s (.cRel t)
        ⟨s.epoch, ⟨s.lock.readers, none, s.lock.queue⟩, s.tasks, s.inputs, s.nodes, none,
          s.done ++ [(σ.epoch, σ.writes)], s.base⟩
  | wDone (t : Tid) (hpc : (s.tasks t).pc = .wCommitting) :
      StepR c s (.wDone t)
        ⟨s.epoch, s.lock, upd s.tasks t ⟨.idle, (s.tasks t).script⟩, s.inputs, s.nodes, s.sess,
          s.done, s.base⟩

theorem stepR_of_step {c : Cfg} {s s' : State} {ev : Ev} (h : step c s ev = some s') :
    StepR c s ev s' := by
  cases ev with
  | rReq t =>
    simp only [step] at h
    split at h
    · next ks rest hpc hsc => cases h; exact .rReq t ks rest hpc hsc
    · cases h
  | grant t =>
    simp only [step] at h
    split at h
    · next hg =>
      cases h
      unfold Lock.grantable at hg
      split at hg
      · cases hg
      · next b hw =>
        simp only [Bool.and_eq_true] at hg
        have hc := hg.1
        unfold Lock.compat at hc
        cases b with
        | true =>
          simp only [if_true, Bool.and_eq_true, List.isEmpty_iff, Option.isNone_iff_eq_none] at hc
          have : s.lock.grant t
              = ⟨s.lock.readers, some t, dequeue s.lock.queue t⟩ := by
            simp [Lock.grant, hw, dequeue]
          rw [this]
          exact .grantW t hw hc.1 hc.2
        | false =>
          simp only [Bool.false_eq_true, if_false, Option.isNone_iff_eq_none] at hc
          have : s.lock.grant t
              = ⟨t :: s.lock.readers, s.lock.writer, dequeue s.lock.queue t⟩ := by
            simp [Lock.grant, hw, dequeue]
          rw [this]
          exact .grantR t hw hc
    · cases h
  | rAcq t =>
    simp only [step] at h
    split at h
    · next ks hpc =>
      split at h
      · next hc =>
        cases h
        simp only [List.contains_iff_mem] at hc
        exact .rAcq t ks hpc hc.1 hc.2
      · cases h
    · cases h
  | rSample t e =>
    simp only [step] at h
    split at h
    · next ks hpc =>
      split at h
      · next he => cases h; subst he; exact .rSample t ks hpc
      · cases h
    · cases h
  | rQuery t k v =>
    simp only [step] at h
    split at h
    · next e isIn k' ks hpc =>
      split at h
      · next hk =>
        subst hk
        split at h
        · next hin =>
          subst hin
          split at h
          · next hv => cases h; subst hv; exact .rQueryIn t e k' ks hpc
          · cases h
        · next hin =>
          have hin : isIn = false := by simpa using hin
          subst hin
          split at h
          · next hv => cases h; subst hv; exact .rQueryD t e k' ks hpc
          · cases h
      · cases h
    · cases h
  | rRel t =>
    simp only [step] at h
    split at h
    · next e hpc => cases h; exact .rRel t e hpc
    · cases h
  | wStep t st e =>
    simp only [step] at h
    split at h
    · cases h
    · next i e0 sets kind rest hpos =>
      split at h
      · next hord =>
        cases st with
        | batch =>
          simp only at h
          split at h
          · next he => cases h; rw [afterOpen_eq]; exact .wStep t .batch e i e0 sets kind rest hpos hord he
          · cases h
        | bump =>
          simp only at h
          split at h
          · next he => cases h; rw [afterOpen_eq]; exact .wStep t .bump e i e0 sets kind rest hpos hord he
          · cases h
        | stage =>
          simp only at h
          split at h
          · next he => cases h; rw [afterOpen_eq]; exact .wStep t .stage e i e0 sets kind rest hpos hord he
          · cases h
        | req =>
          simp only at h
          split at h
          · next he => cases h; rw [afterOpen_eq]; exact .wStep t .req e i e0 sets kind rest hpos hord he
          · cases h
        | acq =>
          simp only at h
          split at h
          · next he => cases h; rw [afterOpen_eq]; exact .wStep t .acq e i e0 sets kind rest hpos hord he
          · cases h
      · cases h
  | wSet t k v =>
    simp only [step] at h
    split at h
    · next k' v' sets kind σ hpc hs =>
      split at h
      · next hc =>
        cases h
        obtain ⟨h1, h2, h3, h4⟩ := hc
        subst h1; subst h2
        exact .wSet t k' v' sets kind σ hpc hs h3 h4
      · cases h
    · cases h
  | wCommit t =>
    simp only [step] at h
    split at h
    · next σ hpc hs =>
      split at h
      · next hc => cases h; exact .wCommit t σ hpc hs hc.1 hc.2
      · cases h
    · cases h
  | wDrop t =>
    simp only [step] at h
    split at h
    · next σ hpc hs =>
      split at h
      · next hc => cases h; exact .wDrop t σ hpc hs hc.1 hc.2
      · cases h
    · cases h
  | cPropagate t =>
    simp only [step] at h
    split at h
    · next σ hs =>
      split at h
      · next hc => cases h; exact .cPropagate t σ hs hc.1 hc.2
      · cases h
    · cases h
  | cSubmit t =>
    simp only [step] at h
    split at h
    · next σ hs =>
      split at h
      · next hc => cases h; exact .cSubmit t σ hs hc.1 hc.2
      · cases h
    · cases h
  | cRel t =>
    simp only [step] at h
    split at h
    · next σ hs =>
      split at h
      · next hc => cases h; exact .cRel t σ hs hc.1 hc.2
      · cases h
    · cases h
  | wDone t =>
    simp only [step] at h
    split at h
    · next hpc =>
      have hs' : s' = s.setTask t ⟨.idle, (s.tasks t).script⟩ := by
        split at h <;> split at h <;> first | (cases h; rfl) | cases h
      rw [hs']; exact .wDone t hpc
    · cases h

end QbiceVerif.Phase
