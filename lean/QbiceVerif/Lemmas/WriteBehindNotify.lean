import QbiceVerif.Lemmas.WriteBehindProgress

/-! After-commit stage: every applied batch is notified or deactivated exactly once. -/
namespace QbiceVerif.WB

def CPc.notifyList : CPc → List Task
  | .notify r => r
  | .lastNotify r => r
  | _ => []

/-- Every applied batch is handed to the after-commit stage exactly once: its epoch is in exactly one of
`notified`, `deactivated`, the after-commit channel, or the rest of the running after-commit loop. -/
def NotifyInv (s : State) : Prop :=
  (s.notified ++ s.deactivated ++ s.afterQ.map Task.epoch ++ s.cpc.notifyList.map Task.epoch).Perm
    (s.applied.map Task.epoch)

macro "ncount" h:ident : tactic => `(tactic| (
  rw [List.perm_iff_count] at $h:ident ⊢
  intro a
  have hcnt := $h:ident a
  simp only [List.map_append, List.count_append, List.map_cons, List.count_cons, List.map_nil,
    List.count_nil, List.flatten_append, List.flatten_cons, List.flatten_nil, List.append_nil, List.nil_append,
    CPc.notifyList] at hcnt ⊢
  omega))

theorem notifyInv_step (s : State) (ev : Event) (s' : State) (hi : NotifyInv s) (hst : Step s ev s') :
    NotifyInv s' := by
  unfold NotifyInv State.applied at hi ⊢
  cases hst
  case cRecv t q hc hp hq => simp only [hp, CPc.notifyList] at hi ⊢; exact hi
  case cRecvClosed hc hp hq hx => simp only [hp, CPc.notifyList] at hi ⊢; exact hi
  case cPop t hc hp hm he => simp only [hp, CPc.notifyList] at hi ⊢; exact hi
  case cBreak hc hp hm =>
    simp only [hp, CPc.notifyList] at hi ⊢
    cases s.final <;> exact hi
  case cDecide more hc hp =>
    simp only [hp, CPc.notifyList] at hi ⊢
    cases more <;> exact hi
  case cCommit hc hp => simp only [hp] at hi ⊢; ncount hi
  case cLastCommit hc hp => simp only [hp] at hi ⊢; ncount hi
  case cNotifyEnd hc hp => simp only [hp, CPc.notifyList] at hi ⊢; exact hi
  case cNotifySkip t r hc hp hs => simp only [hp] at hi ⊢; ncount hi
  case cNotifySend t r hc hp hs => simp only [hp] at hi ⊢; ncount hi
  case cLastNotifyEnd hc hp => simp only [hp, CPc.notifyList] at hi ⊢; exact hi
  case cLastNotifySkip t r hc hp hs => simp only [hp] at hi ⊢; ncount hi
  case cLastNotifySend t r hc hp hs => simp only [hp] at hi ⊢; ncount hi
  case cAssertOk hc hp hh => simp only [hp, CPc.notifyList] at hi ⊢; exact hi
  case aRecvSkip t q hc hx hq hs => simp only [hq] at hi ⊢; ncount hi
  case aRecvNotify t q hc hx hq hs => simp only [hq] at hi ⊢; ncount hi
  all_goals exact hi

theorem reachable_notifyInv {nSer : Nat} : ∀ s, Reachable nSer s → NotifyInv s := by
  apply reachable_step_induction
  · simp [NotifyInv, init, State.applied, CPc.notifyList]
  · intro s ev s' _ hi hst
    exact notifyInv_step s ev s' hi hst

/-- The after-commit worker exits only when its channel is closed and empty. -/
def AExitInv (s : State) : Prop := s.aExited = true → s.afterQ = [] ∧ s.cpc = .done

theorem aExitInv_step (s : State) (ev : Event) (s' : State) (hi : AExitInv s) (hst : Step s ev s') :
    AExitInv s' := by
  unfold AExitInv at hi ⊢
  cases hst <;> simp_all

theorem reachable_aExitInv {nSer : Nat} : ∀ s, Reachable nSer s → AExitInv s := by
  apply reachable_step_induction
  · simp [AExitInv, init]
  · intro s ev s' _ hi hst
    exact aExitInv_step s ev s' hi hst

/-- After the drop returned nothing is left in the after-commit stage. -/
theorem returned_notify {nSer : Nat} {s : State} (hr : Reachable nSer s) (hd : s.dpc = .returned) :
    (s.notified ++ s.deactivated).Perm (s.applied.map Task.epoch) := by
  have h := reachable_allInv s hr
  have hn := reachable_notifyInv s hr
  obtain ⟨_, _, hdone, hax⟩ := returned_facts h hd
  obtain ⟨hq, _⟩ := reachable_aExitInv s hr hax
  unfold NotifyInv at hn
  simpa [hq, hdone, CPc.notifyList] using hn

end QbiceVerif.WB
