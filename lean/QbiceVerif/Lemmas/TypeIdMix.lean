/-
The mixing rounds of `StableTypeID` are bijections of the 256-bit state (explicit inverses).
`sipround` and the whole pre-fold part of `combine` (`combineMix`) are written as lists of
elementary lane steps, each with an inverse; the model functions are shown equal to running the lists.
-/
import QbiceVerif.Model.TypeId

namespace QbiceVerif.TypeId

/-- all four lanes are `u64` values. -/
def St.Wf (s : St) : Prop := s.v0 < M ∧ s.v1 < M ∧ s.v2 < M ∧ s.v3 < M

/-- `u64::wrapping_sub`. -/
def wsub (a b : Nat) : Nat := (a + M - b) % M
/-- `u64::rotate_right`. -/
def rotr (x k : Nat) : Nat := (x % 2 ^ k) * 2 ^ (64 - k) + x / 2 ^ k

inductive Lane | a | b | c | d
deriving DecidableEq

def St.get (s : St) : Lane → Nat
  | .a => s.v0 | .b => s.v1 | .c => s.v2 | .d => s.v3

def St.set (s : St) : Lane → Nat → St
  | .a, x => { s with v0 := x }
  | .b, x => { s with v1 := x }
  | .c, x => { s with v2 := x }
  | .d, x => { s with v3 := x }

/-- elementary statements of the mixing code -/
inductive Step
  | add (i j : Lane)               -- `vi = vi.wrapping_add(vj)`
  | rot (i : Lane) (k : Nat)       -- `vi = vi.rotate_left(k)`
  | xor (i j : Lane)               -- `vi ^= vj`
  | xorc (i : Lane) (c : Nat)      -- `vi ^= c`
  | xmul (i j : Lane) (c : Nat)    -- `vi ^= vj.wrapping_mul(c)`

def Step.run : Step → St → St
  | .add i j, s => s.set i (wadd (s.get i) (s.get j))
  | .rot i k, s => s.set i (rotl (s.get i) k)
  | .xor i j, s => s.set i (s.get i ^^^ s.get j)
  | .xorc i c, s => s.set i (s.get i ^^^ c)
  | .xmul i j c, s => s.set i (s.get i ^^^ wmul (s.get j) c)

def Step.inv : Step → St → St
  | .add i j, s => s.set i (wsub (s.get i) (s.get j))
  | .rot i k, s => s.set i (rotr (s.get i) k)
  | .xor i j, s => s.set i (s.get i ^^^ s.get j)
  | .xorc i c, s => s.set i (s.get i ^^^ c)
  | .xmul i j c, s => s.set i (s.get i ^^^ wmul (s.get j) c)

/-- side conditions under which a step is invertible: distinct lanes, one of the rotation amounts
the code uses, a 64-bit constant. -/
def Step.Ok : Step → Prop
  | .add i j => i ≠ j
  | .rot _ k => k = 13 ∨ k = 16 ∨ k = 17 ∨ k = 21 ∨ k = 32
  | .xor i j => i ≠ j
  | .xorc _ c => c < M
  | .xmul i j _ => i ≠ j

def runSteps : List Step → St → St
  | [], s => s
  | st :: r, s => runSteps r (st.run s)

/-- undo the steps, last one first -/
def unrunSteps : List Step → St → St
  | [], s => s
  | st :: r, s => st.inv (unrunSteps r s)

/-! #### arithmetic facts -/

theorem wadd_lt (a b : Nat) : wadd a b < M := by unfold wadd M; omega
theorem wsub_lt (a b : Nat) : wsub a b < M := by unfold wsub M; omega
theorem wmul_lt (a b : Nat) : wmul a b < M := by unfold wmul M; omega

theorem xor_lt {a b : Nat} (ha : a < M) (hb : b < M) : a ^^^ b < M := by
  have : M = 2 ^ 64 := by decide
  rw [this] at *
  exact Nat.xor_lt_two_pow ha hb

theorem xor_cancel (a b : Nat) : (a ^^^ b) ^^^ b = a := by
  rw [Nat.xor_assoc, Nat.xor_self, Nat.xor_zero]

theorem wsub_wadd {a b : Nat} (ha : a < M) (hb : b < M) : wsub (wadd a b) b = a := by
  unfold wsub wadd M at *; omega

theorem wadd_wsub {a b : Nat} (ha : a < M) (hb : b < M) : wadd (wsub a b) b = a := by
  unfold wsub wadd M at *; omega

theorem rotl_lt {x k : Nat} (hk : k = 13 ∨ k = 16 ∨ k = 17 ∨ k = 21 ∨ k = 32) (hx : x < M) :
    rotl x k < M := by
  unfold rotl M at *
  rcases hk with h | h | h | h | h <;> subst h <;> simp only [Nat.reduceSub, Nat.reducePow] <;> omega

theorem rotr_lt {x k : Nat} (hk : k = 13 ∨ k = 16 ∨ k = 17 ∨ k = 21 ∨ k = 32) (hx : x < M) :
    rotr x k < M := by
  unfold rotr M at *
  rcases hk with h | h | h | h | h <;> subst h <;> simp only [Nat.reduceSub, Nat.reducePow] <;> omega

theorem rotr_rotl {x k : Nat} (hk : k = 13 ∨ k = 16 ∨ k = 17 ∨ k = 21 ∨ k = 32) (hx : x < M) :
    rotr (rotl x k) k = x := by
  unfold rotr rotl M at *
  rcases hk with h | h | h | h | h <;> subst h <;> simp only [Nat.reduceSub, Nat.reducePow] <;> omega

theorem rotl_rotr {x k : Nat} (hk : k = 13 ∨ k = 16 ∨ k = 17 ∨ k = 21 ∨ k = 32) (hx : x < M) :
    rotl (rotr x k) k = x := by
  unfold rotr rotl M at *
  rcases hk with h | h | h | h | h <;> subst h <;> simp only [Nat.reduceSub, Nat.reducePow] <;> omega

/-! #### lanes -/

@[simp] theorem St.get_set_same (s : St) (i : Lane) (x : Nat) : (s.set i x).get i = x := by
  cases i <;> rfl

theorem St.get_set_ne (s : St) {i j : Lane} (x : Nat) (h : i ≠ j) : (s.set i x).get j = s.get j := by
  cases i <;> cases j <;> first | rfl | exact absurd rfl h

@[simp] theorem St.set_set (s : St) (i : Lane) (x y : Nat) : (s.set i x).set i y = s.set i y := by
  cases i <;> rfl

@[simp] theorem St.set_get (s : St) (i : Lane) : s.set i (s.get i) = s := by
  cases i <;> rfl

theorem St.Wf.get {s : St} (h : s.Wf) (i : Lane) : s.get i < M := by
  obtain ⟨h0, h1, h2, h3⟩ := h
  cases i <;> assumption

theorem St.Wf.set {s : St} (h : s.Wf) (i : Lane) {x : Nat} (hx : x < M) : (s.set i x).Wf := by
  obtain ⟨h0, h1, h2, h3⟩ := h
  cases i <;> exact ⟨by first | exact hx | exact h0, by first | exact hx | exact h1,
    by first | exact hx | exact h2, by first | exact hx | exact h3⟩

/-! #### every step is a bijection of well-formed states -/

theorem Step.run_wf {st : Step} (ok : st.Ok) {s : St} (h : s.Wf) : (st.run s).Wf := by
  cases st with
  | add i j => exact h.set i (wadd_lt _ _)
  | rot i k => exact h.set i (rotl_lt ok (h.get i))
  | xor i j => exact h.set i (xor_lt (h.get i) (h.get j))
  | xorc i c => exact h.set i (xor_lt (h.get i) ok)
  | xmul i j c => exact h.set i (xor_lt (h.get i) (wmul_lt _ _))

theorem Step.inv_wf {st : Step} (ok : st.Ok) {s : St} (h : s.Wf) : (st.inv s).Wf := by
  cases st with
  | add i j => exact h.set i (wsub_lt _ _)
  | rot i k => exact h.set i (rotr_lt ok (h.get i))
  | xor i j => exact h.set i (xor_lt (h.get i) (h.get j))
  | xorc i c => exact h.set i (xor_lt (h.get i) ok)
  | xmul i j c => exact h.set i (xor_lt (h.get i) (wmul_lt _ _))

theorem Step.inv_run {st : Step} (ok : st.Ok) {s : St} (h : s.Wf) : st.inv (st.run s) = s := by
  cases st with
  | add i j =>
    simp only [Step.run, Step.inv, St.get_set_same, St.get_set_ne _ _ ok, St.set_set,
      wsub_wadd (h.get i) (h.get j), St.set_get]
  | rot i k => simp only [Step.run, Step.inv, St.get_set_same, St.set_set, rotr_rotl ok (h.get i), St.set_get]
  | xor i j =>
    simp only [Step.run, Step.inv, St.get_set_same, St.get_set_ne _ _ ok, St.set_set, xor_cancel, St.set_get]
  | xorc i c => simp only [Step.run, Step.inv, St.get_set_same, St.set_set, xor_cancel, St.set_get]
  | xmul i j c =>
    simp only [Step.run, Step.inv, St.get_set_same, St.get_set_ne _ _ ok, St.set_set, xor_cancel, St.set_get]

theorem Step.run_inv {st : Step} (ok : st.Ok) {s : St} (h : s.Wf) : st.run (st.inv s) = s := by
  cases st with
  | add i j =>
    simp only [Step.run, Step.inv, St.get_set_same, St.get_set_ne _ _ ok, St.set_set,
      wadd_wsub (h.get i) (h.get j), St.set_get]
  | rot i k => simp only [Step.run, Step.inv, St.get_set_same, St.set_set, rotl_rotr ok (h.get i), St.set_get]
  | xor i j =>
    simp only [Step.run, Step.inv, St.get_set_same, St.get_set_ne _ _ ok, St.set_set, xor_cancel, St.set_get]
  | xorc i c => simp only [Step.run, Step.inv, St.get_set_same, St.set_set, xor_cancel, St.set_get]
  | xmul i j c =>
    simp only [Step.run, Step.inv, St.get_set_same, St.get_set_ne _ _ ok, St.set_set, xor_cancel, St.set_get]

theorem runSteps_cons (st : Step) (r : List Step) (s : St) :
    runSteps (st :: r) s = runSteps r (st.run s) := rfl
theorem unrunSteps_cons (st : Step) (r : List Step) (s : St) :
    unrunSteps (st :: r) s = st.inv (unrunSteps r s) := rfl

theorem runSteps_wf : ∀ (l : List Step), (∀ st ∈ l, st.Ok) → ∀ {s : St}, s.Wf → (runSteps l s).Wf
  | [], _, _, h => h
  | st :: r, ok, _, h =>
    runSteps_wf r (fun x hx => ok x (List.mem_cons_of_mem _ hx)) (Step.run_wf (ok st List.mem_cons_self) h)

theorem unrunSteps_wf : ∀ (l : List Step), (∀ st ∈ l, st.Ok) → ∀ {s : St}, s.Wf → (unrunSteps l s).Wf
  | [], _, _, h => h
  | st :: r, ok, _, h =>
    Step.inv_wf (ok st List.mem_cons_self) (unrunSteps_wf r (fun x hx => ok x (List.mem_cons_of_mem _ hx)) h)

theorem unrun_run : ∀ (l : List Step), (∀ st ∈ l, st.Ok) → ∀ {s : St}, s.Wf → unrunSteps l (runSteps l s) = s
  | [], _, _, _ => rfl
  | st :: r, ok, s, h => by
    have okr : ∀ x ∈ r, x.Ok := fun x hx => ok x (List.mem_cons_of_mem _ hx)
    have ok1 := ok st List.mem_cons_self
    rw [runSteps_cons, unrunSteps_cons, unrun_run r okr (Step.run_wf ok1 h), Step.inv_run ok1 h]

theorem run_unrun : ∀ (l : List Step), (∀ st ∈ l, st.Ok) → ∀ {s : St}, s.Wf → runSteps l (unrunSteps l s) = s
  | [], _, _, _ => rfl
  | st :: r, ok, s, h => by
    have okr : ∀ x ∈ r, x.Ok := fun x hx => ok x (List.mem_cons_of_mem _ hx)
    have ok1 := ok st List.mem_cons_self
    rw [unrunSteps_cons, runSteps_cons, Step.run_inv ok1 (unrunSteps_wf r okr h), run_unrun r okr h]

/-! #### the code as step lists -/

open Lane Step in
/-- the fourteen statements of `sipround`, in source order. -/
def sipSteps : List Step :=
  [add a b, rot b 13, xor b a, rot a 32,
   add c d, rot d 16, xor d c,
   add a d, rot d 21, xor d a,
   add c b, rot b 17, xor b c, rot c 32]

open Lane Step in
/-- everything `combine` does between initialisation and the final fold. -/
def combineSteps : List Step :=
  sipSteps ++ sipSteps ++ [xorc a A0, xorc b A1] ++ sipSteps ++ sipSteps ++
    [xor a c, xor b d, xmul c a G0, xmul d b G1] ++ sipSteps

section
open Lane Step
variable (r : List Step) (x0 x1 x2 x3 : Nat)
theorem rs_add_ab : runSteps (add a b :: r) ⟨x0,x1,x2,x3⟩ = runSteps r ⟨wadd x0 x1,x1,x2,x3⟩ := rfl
theorem rs_rot_b (k : Nat) : runSteps (rot b k :: r) ⟨x0,x1,x2,x3⟩ = runSteps r ⟨x0,rotl x1 k,x2,x3⟩ := rfl
theorem rs_xor_ba : runSteps (xor b a :: r) ⟨x0,x1,x2,x3⟩ = runSteps r ⟨x0,x1 ^^^ x0,x2,x3⟩ := rfl
theorem rs_rot_a (k : Nat) : runSteps (rot a k :: r) ⟨x0,x1,x2,x3⟩ = runSteps r ⟨rotl x0 k,x1,x2,x3⟩ := rfl
theorem rs_add_cd : runSteps (add c d :: r) ⟨x0,x1,x2,x3⟩ = runSteps r ⟨x0,x1,wadd x2 x3,x3⟩ := rfl
theorem rs_rot_d (k : Nat) : runSteps (rot d k :: r) ⟨x0,x1,x2,x3⟩ = runSteps r ⟨x0,x1,x2,rotl x3 k⟩ := rfl
theorem rs_xor_dc : runSteps (xor d c :: r) ⟨x0,x1,x2,x3⟩ = runSteps r ⟨x0,x1,x2,x3 ^^^ x2⟩ := rfl
theorem rs_add_ad : runSteps (add a d :: r) ⟨x0,x1,x2,x3⟩ = runSteps r ⟨wadd x0 x3,x1,x2,x3⟩ := rfl
theorem rs_xor_da : runSteps (xor d a :: r) ⟨x0,x1,x2,x3⟩ = runSteps r ⟨x0,x1,x2,x3 ^^^ x0⟩ := rfl
theorem rs_add_cb : runSteps (add c b :: r) ⟨x0,x1,x2,x3⟩ = runSteps r ⟨x0,x1,wadd x2 x1,x3⟩ := rfl
theorem rs_xor_bc : runSteps (xor b c :: r) ⟨x0,x1,x2,x3⟩ = runSteps r ⟨x0,x1 ^^^ x2,x2,x3⟩ := rfl
theorem rs_rot_c (k : Nat) : runSteps (rot c k :: r) ⟨x0,x1,x2,x3⟩ = runSteps r ⟨x0,x1,rotl x2 k,x3⟩ := rfl
theorem rs_nil (s : St) : runSteps [] s = s := rfl
end

theorem sipround_eq_steps (s : St) : sipround s = runSteps sipSteps s := by
  cases s
  rw [sipSteps, rs_add_ab, rs_rot_b, rs_xor_ba, rs_rot_a, rs_add_cd, rs_rot_d, rs_xor_dc, rs_add_ad, rs_rot_d,
    rs_xor_da, rs_add_cb, rs_rot_b, rs_xor_bc, rs_rot_c, rs_nil]
  rfl

open Lane Step in
theorem asym_eq_steps (t : St) : asym t = runSteps [xorc a A0, xorc b A1] t := by
  cases t; rfl

open Lane Step in
theorem crossMix_eq_steps (t : St) :
    crossMix t = runSteps [xor a c, xor b d, xmul c a G0, xmul d b G1] t := by
  cases t; rfl

theorem runSteps_append (l r : List Step) (s : St) :
    runSteps (l ++ r) s = runSteps r (runSteps l s) := by
  induction l generalizing s with
  | nil => rfl
  | cons st l ih => simp only [List.cons_append, runSteps_cons, ih]

theorem combineMix_eq_steps (s : St) : combineMix s = runSteps combineSteps s := by
  simp only [combineSteps, runSteps_append, ← sipround_eq_steps, ← asym_eq_steps, ← crossMix_eq_steps,
    combineMix]

theorem sipSteps_ok : ∀ st ∈ sipSteps, st.Ok := by
  intro st h
  simp only [sipSteps, List.mem_cons, List.not_mem_nil, or_false] at h
  rcases h with h | h | h | h | h | h | h | h | h | h | h | h | h | h <;> subst h <;>
    simp [Step.Ok]

theorem combineSteps_ok : ∀ st ∈ combineSteps, st.Ok := by
  intro st h
  simp only [combineSteps, List.mem_append, List.mem_cons, List.not_mem_nil, or_false] at h
  rcases h with ((((((h | h) | h) | h) | h) | h) | h)
  · exact sipSteps_ok st h
  · exact sipSteps_ok st h
  · rcases h with h | h <;> subst h <;> simp [Step.Ok, M, A0, A1]
  · exact sipSteps_ok st h
  · exact sipSteps_ok st h
  · rcases h with h | h | h | h <;> subst h <;> simp [Step.Ok]
  · exact sipSteps_ok st h

/-- explicit inverse of `sipround`. -/
def sipInv (s : St) : St := unrunSteps sipSteps s
/-- explicit inverse of `combineMix`. -/
def combineMixInv (s : St) : St := unrunSteps combineSteps s

end QbiceVerif.TypeId
