/-
Slice 6 of the generated universe (Gen/TypeIdTable.lean): every type has an id and the id keys
ascend strictly from `sliceBound6` to below `sliceBound7`.  A finite table, proved whole by kernel
evaluation; one module per slice so that lake checks the slices in parallel.
-/
import QbiceVerif.Gen.TypeIdTable

namespace QbiceVerif.TypeId
open Gen

theorem slice6_ok : sliceCheck ctorTable sliceBound6 slice6 = some sliceBound7 := by
  decide +kernel

end QbiceVerif.TypeId
