import QbiceVerif.Model.EngineCore

/-! The interface of a value-level concurrent engine, used only to *state* the end-to-end form of
C02 (`C02_full_statement` in `Props/C02.lean`); no instance is built. -/

namespace QbiceVerif.Lts

structure ConcEngine where
  State : Type
  Ev : Type
  init : Qbice.Core.Program → State
  step : State → Ev → Option State
  inputs : State → Qbice.Core.Key → Option Qbice.Core.Val
  returned : State → List (Qbice.Core.Key × Qbice.Core.Val)

def ConcEngine.run (E : ConcEngine) (s : E.State) : List E.Ev → Option E.State
  | [] => some s
  | ev :: rest => match E.step s ev with
    | some s' => E.run s' rest
    | none => none


end QbiceVerif.Lts
