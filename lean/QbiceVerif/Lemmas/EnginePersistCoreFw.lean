/-
Lemmas for C07, part 5: restart on the extended core model `Qbice.CoreFw` (all five query kinds;
the model of C01's widest soundness theorem).  As in `Qbice.Core`, everything in a state except the
execution log of the current operation is stored, so a restart is `{ s with log := [] }`.
-/
import QbiceVerif.Lemmas.EngineCoreFw12
namespace Qbice.CoreFw
open Qbice.Core (Err Op OpOut)

/-- clean shutdown, new engine on the same store -/
def restart (s : St) : St := { s with log := [] }

/-- histories with restarts at arbitrary positions -/
inductive POp where
  | op (o : Op)
  | restart

def POp.erase : List POp → List Op
  | [] => []
  | .op o :: r => o :: POp.erase r
  | .restart :: r => POp.erase r

/-- `runOps` (outputs: set_input results; values and executor invocations of every round) with restarts -/
def runP (p : Program) : List POp → St → Except Err (List OpOut × St)
  | [], s => .ok ([], s)
  | .restart :: rest, s => runP p rest (restart s)
  | .op (.sess ws) :: rest, s =>
    match session p ws { s with log := [] } with
    | .error e => .error e
    | .ok (rs, s1) =>
      match runP p rest s1 with
      | .error e => .error e
      | .ok (outs, s2) => .ok (.sess rs :: outs, s2)
  | .op (.round ks) :: rest, s =>
    match round p (fuelFor p) ks { s with log := [] } with
    | .error e => .error e
    | .ok (vs, s1) =>
      match runP p rest s1 with
      | .error e => .error e
      | .ok (outs, s2) => .ok (.round vs s1.log :: outs, s2)

def outs {α β : Type} (r : Except Err (α × β)) : Except Err α :=
  match r with
  | .ok (a, _) => .ok a
  | .error e => .error e

theorem runOps_setLog (p : Program) (ops : List Op) (s : St) (l : List Key) :
    outs (runOps p ops { s with log := l }) = outs (runOps p ops s) := by
  cases ops with
  | nil => rfl
  | cons o rest => cases o <;> rfl

theorem runP_erase (p : Program) : ∀ (h : List POp) (s : St),
    outs (runP p h s) = outs (runOps p (POp.erase h) s) := by
  intro h
  induction h with
  | nil => intro s; rfl
  | cons o rest ih =>
    intro s
    cases o with
    | restart =>
      simp only [runP, POp.erase]
      rw [ih (restart s)]
      exact runOps_setLog p _ s []
    | op o =>
      cases o with
      | sess ws =>
        simp only [runP, POp.erase, runOps]
        cases session p ws { s with log := [] } with
        | error e => rfl
        | ok r =>
          obtain ⟨rs, s1⟩ := r
          have := ih s1
          simp only [outs] at this ⊢
          cases h1 : runP p rest s1 <;> cases h2 : runOps p (POp.erase rest) s1 <;> simp_all
      | round ks =>
        simp only [runP, POp.erase, runOps]
        cases round p (fuelFor p) ks { s with log := [] } with
        | error e => rfl
        | ok r =>
          obtain ⟨vs, s1⟩ := r
          have := ih s1
          simp only [outs] at this ⊢
          cases h1 : runP p rest s1 <;> cases h2 : runOps p (POp.erase rest) s1 <;> simp_all

end Qbice.CoreFw
