/-
Invariant of the `WideCache` LTS with ONE foreground task and arbitrary placement of the
background events (commit / notify / evict) between its atomic steps.
-/
import QbiceVerif.Model.WideCache

namespace QbiceVerif.WideCache

/-- reachability under any schedule -/
inductive Reach (s0 : State) : State → Prop where
  | init : Reach s0 s0
  | step {s s' : State} {e : Ev} {out : Option (Option Nat)} :
      Reach s0 s → fire s e = some (s', out) → Reach s0 s'

def openW (t : Task) : List (Option Nat) :=
  match t.openB with
  | some b => b.write.toList
  | none => []

/-- writes to the key recorded in batches that are not yet committed, oldest first -/
def pend (s : State) (t : Task) : List (Option Nat) := s.submitted.filterMap (·.write) ++ openW t

/-- 1 while the task sits between `put` (with `updated`) and `cacheWrite`: the batch already mentions
the key but the pin has not been taken yet -/
def adj : Pc → Int
  | .writing _ true => 1
  | _ => 0

def isWriting : Pc → Bool
  | .writing _ _ => true
  | _ => false

structure Inv (s : State) (t : Task) : Prop where
  tasks : s.tasks = [t]
  epochs : s.submitted.map (·.epoch) = List.range' s.expected s.submitted.length
  openE : ∀ b, t.openB = some b → b.epoch = s.expected + s.submitted.length ∧ s.nextEpoch = b.epoch + 1
  closedE : t.openB = none → s.nextEpoch = s.expected + s.submitted.length
  latestEff : isWriting t.pc = false → s.latest = ((pend s t).getLast?).getD s.db
  writingB : ∀ v u, t.pc = .writing v u → ∃ b, t.openB = some b ∧ b.write = some v
  entryVal : isWriting t.pc = false → ∀ e, s.entry = some e → e.val = s.latest
  pinSome : ∀ e, s.entry = some e → e.pin = ((pend s t).length : Int) + s.tokens - adj t.pc
  pinNone : s.entry = none → ((pend s t).length : Int) + s.tokens - adj t.pc = 0
  missed : (t.pc = .probed ∨ t.pc = .working ∨ ∃ v, t.pc = .read v) → s.entry = none
  readV : ∀ v, t.pc = .read v → v = s.db

theorem inv_init (db0 : Option Nat) : Inv (init db0 1) {} := by
  constructor <;> simp [init, pend, openW, adj, isWriting, List.replicate]

theorem getTask_single {s : State} {t : Task} (h : s.tasks = [t]) (i : Nat) :
    getTask s i = if i = 0 then some t else none := by
  unfold getTask; rw [h]; cases i <;> simp

theorem setTask_single {s : State} {t : Task} (h : s.tasks = [t]) (x : Task) :
    (setTask s 0 x).tasks = [x] := by
  simp [setTask, h]

/-- with consecutive epochs the batch picked by `commit` is the oldest one -/
theorem find_expected {l : List Batch} {e : Nat} (h : l.map (·.epoch) = List.range' e l.length) :
    l.find? (fun b => b.epoch = e) = l.head? := by
  cases l with
  | nil => rfl
  | cons b rest =>
      simp [List.range'] at h
      simp [List.find?, h.1]

theorem pend_nonempty_of_writing {s : State} {t : Task} (I : Inv s t) {v u} (h : t.pc = .writing v u) :
    1 ≤ (pend s t).length := by
  obtain ⟨b, hb, hw⟩ := I.writingB v u h
  simp [pend, openW, hb, hw]



theorem step_begin {s s' : State} {t : Task} {i out} (I : Inv s t) (h : fire s (.begin i) = some (s', out)) :
    ∃ t', Inv s' t' := by
  simp only [fire, getTask_single I.tasks] at h
  split at h <;> try (simp at h)
  rename_i heq
  split at heq <;> simp at heq
  subst heq
  obtain ⟨rfl, rfl⟩ := h
  refine ⟨⟨.idle, some ⟨s.nextEpoch, none⟩⟩, ?_⟩
  have I' := I
  obtain ⟨h1, h2, h3, h4, h5, h6, h7, h8, h9, h10, h11⟩ := I
  constructor <;> simp_all [setTask, pend, openW, adj, isWriting]



theorem step_put {s s' : State} {t : Task} {i v out} (I : Inv s t) (h : fire s (.put i v) = some (s', out)) :
    ∃ t', Inv s' t' := by
  simp only [fire, getTask_single I.tasks] at h
  split at h <;> try (simp at h)
  rename_i b heq
  split at heq <;> simp at heq
  subst heq
  obtain ⟨rfl, rfl⟩ := h
  refine ⟨⟨.writing v b.write.isNone, some { b with write := some v }⟩, ?_⟩
  obtain ⟨h1, h2, h3, h4, h5, h6, h7, h8, h9, h10, h11⟩ := I
  cases hw : b.write <;>
  constructor <;> simp_all [setTask, pend, openW, adj, isWriting] <;> grind



theorem step_cacheWrite {s s' : State} {t : Task} {i out} (I : Inv s t) (h : fire s (.cacheWrite i) = some (s', out)) :
    ∃ t', Inv s' t' := by
  simp only [fire, getTask_single I.tasks] at h
  split at h <;> try (simp at h)
  rename_i v u ob heq
  split at heq <;> simp at heq
  subst heq
  obtain ⟨rfl, rfl⟩ := h
  refine ⟨⟨.idle, ob⟩, ?_⟩
  have hne := pend_nonempty_of_writing I (v := v) (u := u) rfl
  obtain ⟨h1, h2, h3, h4, h5, h6, h7, h8, h9, h10, h11⟩ := I
  obtain ⟨b, hb, hw⟩ := h6 v u rfl
  cases hent : s.entry <;> cases v <;> cases u <;>
  constructor <;> simp_all [setTask, pend, openW, adj, isWriting, cacheWriteEntry] <;> grind



theorem step_submit {s s' : State} {t : Task} {i out} (I : Inv s t) (h : fire s (.submit i) = some (s', out)) :
    ∃ t', Inv s' t' := by
  simp only [fire, getTask_single I.tasks] at h
  split at h <;> try (simp at h)
  rename_i b heq
  split at heq <;> simp at heq
  subst heq
  obtain ⟨rfl, rfl⟩ := h
  refine ⟨⟨.idle, none⟩, ?_⟩
  obtain ⟨h1, h2, h3, h4, h5, h6, h7, h8, h9, h10, h11⟩ := I
  cases hw : b.write <;>
  constructor <;> simp_all [setTask, pend, openW, adj, isWriting, List.range'_concat] <;> grind

theorem step_probe {s s' : State} {t : Task} {i out} (I : Inv s t) (h : fire s (.probe i) = some (s', out)) :
    (∃ t', Inv s' t') ∧ (∀ r, out = some r → r = s.latest) := by
  simp only [fire, getTask_single I.tasks] at h
  by_cases hi : i = 0
  · subst hi
    obtain ⟨pc, ob⟩ := t
    simp only [if_true] at h
    by_cases hpc : pc = .idle ∨ pc = .loop
    · simp only [hpc, if_true] at h
      obtain ⟨h1, h2, h3, h4, h5, h6, h7, h8, h9, h10, h11⟩ := I
      cases he : s.entry with
      | some e =>
          simp [he] at h
          obtain ⟨rfl, rfl⟩ := h
          refine ⟨⟨⟨.idle, ob⟩, ?_⟩, ?_⟩
          · rcases hpc with rfl | rfl <;>
            constructor <;> simp_all [setTask, pend, openW, adj, isWriting]
          · rcases hpc with rfl | rfl <;> simp_all [isWriting]
      | none =>
          simp [he] at h
          obtain ⟨rfl, rfl⟩ := h
          refine ⟨⟨⟨.probed, ob⟩, ?_⟩, by simp⟩
          rcases hpc with rfl | rfl <;>
          constructor <;> simp_all [setTask, pend, openW, adj, isWriting]
    · simp [hpc] at h
  · simp [hi] at h



theorem step_sfEnter {s s' : State} {t : Task} {i out} (I : Inv s t) (h : fire s (.sfEnter i) = some (s', out)) :
    ∃ t', Inv s' t' := by
  simp only [fire, getTask_single I.tasks] at h
  by_cases hi : i = 0
  · subst hi
    obtain ⟨pc, ob⟩ := t
    obtain ⟨h1, h2, h3, h4, h5, h6, h7, h8, h9, h10, h11⟩ := I
    cases pc <;> simp at h
    cases hsf : s.sf <;> simp [hsf] at h <;> obtain ⟨rfl, rfl⟩ := h
    · refine ⟨⟨.working, ob⟩, ?_⟩
      constructor <;> simp_all [setTask, pend, openW, adj, isWriting]
    · refine ⟨⟨.waiting, ob⟩, ?_⟩
      constructor <;> simp_all [setTask, pend, openW, adj, isWriting]
  · simp [hi] at h

theorem step_sfWake {s s' : State} {t : Task} {i out} (I : Inv s t) (h : fire s (.sfWake i) = some (s', out)) :
    ∃ t', Inv s' t' := by
  simp only [fire, getTask_single I.tasks] at h
  by_cases hi : i = 0
  · subst hi
    obtain ⟨pc, ob⟩ := t
    obtain ⟨h1, h2, h3, h4, h5, h6, h7, h8, h9, h10, h11⟩ := I
    cases pc <;> simp at h
    obtain ⟨rfl, rfl⟩ := h
    refine ⟨⟨.loop, ob⟩, ?_⟩
    constructor <;> simp_all [setTask, pend, openW, adj, isWriting]
  · simp [hi] at h

theorem step_readDb {s s' : State} {t : Task} {i out} (I : Inv s t) (h : fire s (.readDb i) = some (s', out)) :
    ∃ t', Inv s' t' := by
  simp only [fire, getTask_single I.tasks] at h
  by_cases hi : i = 0
  · subst hi
    obtain ⟨pc, ob⟩ := t
    obtain ⟨h1, h2, h3, h4, h5, h6, h7, h8, h9, h10, h11⟩ := I
    cases pc <;> simp at h
    obtain ⟨rfl, rfl⟩ := h
    refine ⟨⟨.read s.db, ob⟩, ?_⟩
    constructor <;> simp_all [setTask, pend, openW, adj, isWriting]
  · simp [hi] at h

theorem step_sfLeave {s s' : State} {t : Task} {i out} (I : Inv s t) (h : fire s (.sfLeave i) = some (s', out)) :
    ∃ t', Inv s' t' := by
  simp only [fire, getTask_single I.tasks] at h
  by_cases hi : i = 0
  · subst hi
    obtain ⟨pc, ob⟩ := t
    obtain ⟨h1, h2, h3, h4, h5, h6, h7, h8, h9, h10, h11⟩ := I
    cases pc <;> simp at h
    obtain ⟨rfl, rfl⟩ := h
    refine ⟨⟨.loop, ob⟩, ?_⟩
    constructor <;> simp_all [setTask, pend, openW, adj, isWriting]
  · simp [hi] at h

theorem step_fill {s s' : State} {t : Task} {i out} (I : Inv s t) (h : fire s (.fill i) = some (s', out)) :
    ∃ t', Inv s' t' := by
  simp only [fire, getTask_single I.tasks] at h
  by_cases hi : i = 0
  · subst hi
    obtain ⟨pc, ob⟩ := t
    obtain ⟨h1, h2, h3, h4, h5, h6, h7, h8, h9, h10, h11⟩ := I
    cases pc <;> simp at h
    rename_i v
    obtain ⟨rfl, rfl⟩ := h
    refine ⟨⟨.filled, ob⟩, ?_⟩
    have hnone : s.entry = none := h10 (Or.inr (Or.inr ⟨v, rfl⟩))
    have hv := h11 v rfl
    have hz := h9 hnone
    have hlen : (pend s ⟨.read v, ob⟩).length = 0 := by simp [adj] at hz; omega
    have hp : pend s ⟨.read v, ob⟩ = [] := List.eq_nil_of_length_eq_zero hlen
    have hl : s.latest = s.db := by have := h5 rfl; simpa [hp] using this
    have e1 : ∀ x, pend ({ setTask s 0 ⟨.filled, ob⟩ with entry := x }) ⟨.filled, ob⟩ = pend s ⟨.read v, ob⟩ := fun _ => rfl
    subst hv
    simp only [hnone]
    constructor
    · simp [setTask, h1]
    · exact h2
    · exact h3
    · exact h4
    · intro _; show s.latest = _; rw [e1, hp]; simpa [setTask] using hl
    · intro v u hh; simp at hh
    · intro _ e he; simp at he; subst he; simp [hl, setTask]
    · intro e he; simp at he; subst he; rw [e1, hp]; simp [adj, hp] at hz; simp [adj, setTask]; omega
    · intro hh; simp at hh
    · intro hh; simp at hh
    · intro v hh; simp at hh
  · simp [hi] at h



theorem adj_le_pend {s : State} {t : Task} (I : Inv s t) : adj t.pc ≤ ((pend s t).length : Int) := by
  obtain ⟨pc, ob⟩ := t
  cases pc <;> simp [adj] <;> try omega
  rename_i v u
  cases u <;> simp
  have := pend_nonempty_of_writing I (v := v) (u := true) rfl
  omega

theorem step_notify {s s' : State} {t : Task} {out} (I : Inv s t) (h : fire s .notify = some (s', out)) :
    ∃ t', Inv s' t' := by
  simp only [fire] at h
  by_cases ht : s.tokens = 0
  · simp [ht] at h
  · simp [ht] at h
    obtain ⟨rfl, rfl⟩ := h
    refine ⟨t, ?_⟩
    have hadj := adj_le_pend I
    obtain ⟨h1, h2, h3, h4, h5, h6, h7, h8, h9, h10, h11⟩ := I
    cases he : s.entry with
    | none => have := h9 he; omega
    | some e =>
        have hp := h8 e he
        constructor
        · exact h1
        · exact h2
        · exact h3
        · exact h4
        · exact h5
        · exact h6
        · intro hw e' he'; simp [notifyEntry] at he'; subst he'; exact h7 hw e he
        · intro e' he'; simp [notifyEntry] at he'; subst he'
          show e.pin - 1 = ((pend s t).length : Int) + ((s.tokens - 1 : Nat) : Int) - adj t.pc
          omega
        · intro hh; simp [notifyEntry] at hh
        · intro hh; have := h10 hh; simp [he] at this
        · exact h11

theorem step_evict {s s' : State} {t : Task} {out} (I : Inv s t) (h : fire s .evict = some (s', out)) :
    ∃ t', Inv s' t' := by
  simp only [fire] at h
  cases he : s.entry with
  | none => simp [he] at h
  | some e =>
    simp [he] at h
    obtain ⟨hpin, rfl, rfl⟩ := h
    refine ⟨t, ?_⟩
    have hadj := adj_le_pend I
    obtain ⟨h1, h2, h3, h4, h5, h6, h7, h8, h9, h10, h11⟩ := I
    have hp := h8 e he
    constructor
    · exact h1
    · exact h2
    · exact h3
    · exact h4
    · exact h5
    · exact h6
    · intro _ e' he'; simp at he'
    · intro e' he'; simp at he'
    · intro _
      show ((pend s t).length : Int) + s.tokens - adj t.pc = 0
      omega
    · intro _; rfl
    · exact h11

theorem step_commit {s s' : State} {t : Task} {out} (I : Inv s t) (h : fire s .commit = some (s', out)) :
    ∃ t', Inv s' t' := by
  simp only [fire] at h
  rw [find_expected I.epochs] at h
  cases hs : s.submitted with
  | nil => simp [hs] at h
  | cons b rest =>
    simp [hs] at h
    obtain ⟨rfl, rfl⟩ := h
    refine ⟨t, ?_⟩
    have hadj := adj_le_pend I
    obtain ⟨h1, h2, h3, h4, h5, h6, h7, h8, h9, h10, h11⟩ := I
    rw [hs] at h2
    simp [List.range'] at h2
    obtain ⟨hbe, hrest⟩ := h2
    obtain ⟨P, hP⟩ : ∃ P, P = rest.filterMap (·.write) ++ openW t := ⟨_, rfl⟩
    have hpend : pend s t = b.write.toList ++ P := by
      simp [pend, hs, List.filterMap_cons, hP]; cases b.write <;> simp
    have hpend' : ∀ (d : Option Nat) (k : Nat), pend { s with submitted := rest, db := d, tokens := k, expected := s.expected + 1 } t = P := by
      intro d k; simp [pend, hP]
    constructor
    · exact h1
    · simpa using hrest
    · intro b' hb'; have := h3 b' hb'; simp [hs] at this ⊢; omega
    · intro hn; have := h4 hn; simp [hs] at this ⊢; omega
    · intro hw
      have := h5 hw
      rw [hpend'] 
      show s.latest = (P.getLast?).getD _
      rw [this, hpend]
      cases hbw : b.write with
      | none => simp
      | some w =>
          cases P with
          | nil => simp
          | cons x xs =>
              have : ∀ d : Option Nat, ((x :: xs).getLast?).getD d = (x :: xs).getLast (by simp) := by
                intro d; rw [List.getLast?_eq_some_getLast (by simp)]; rfl
              simp [List.getLast?_cons_cons, this]
    · exact h6
    · exact h7
    · intro e he
      have := h8 e he
      rw [hpend']
      show e.pin = ((P.length : Nat) : Int) + ((if b.write.isSome then s.tokens + 1 else s.tokens : Nat) : Int) - adj t.pc
      rw [this, hpend]
      cases hbw : b.write <;> simp <;> omega
    · intro he
      have := h9 he
      rw [hpend']
      show ((P.length : Nat) : Int) + ((if b.write.isSome then s.tokens + 1 else s.tokens : Nat) : Int) - adj t.pc = 0
      rw [hpend] at this
      cases hbw : b.write <;> simp [hbw] at this ⊢ <;> omega
    · exact h10
    · intro v hv
      have hv' := h11 v hv
      have hnone := h10 (Or.inr (Or.inr ⟨v, hv⟩))
      have hz := h9 hnone
      have : b.write = none := by
        rw [hpend] at hz hadj
        cases hb : b.write with
        | none => rfl
        | some w =>
            have hadj0 : adj t.pc = 0 := by rw [hv]; rfl
            simp [hb, hadj0] at hz; omega
      simp [this, hv']


/-- every step preserves the invariant; a probe that returns a value returns `latest` -/
theorem inv_step {s s' : State} {t : Task} {e : Ev} {out} (I : Inv s t) (h : fire s e = some (s', out)) :
    (∃ t', Inv s' t') ∧ (∀ r, out = some r → r = s.latest) := by
  have noOut : ∀ {e}, fire s e = some (s', out) → (∀ i, e ≠ .probe i) → ∀ r, out = some r → r = s.latest := by
    intro e h hne r hr
    subst hr
    exfalso
    cases e <;> simp only [fire] at h <;> (try exact hne _ rfl) <;>
      (repeat' (split at h)) <;> simp at h
  cases e with
  | begin i => exact ⟨step_begin I h, noOut h (by simp)⟩
  | put i v => exact ⟨step_put I h, noOut h (by simp)⟩
  | cacheWrite i => exact ⟨step_cacheWrite I h, noOut h (by simp)⟩
  | submit i => exact ⟨step_submit I h, noOut h (by simp)⟩
  | probe i => exact step_probe I h
  | sfEnter i => exact ⟨step_sfEnter I h, noOut h (by simp)⟩
  | sfWake i => exact ⟨step_sfWake I h, noOut h (by simp)⟩
  | readDb i => exact ⟨step_readDb I h, noOut h (by simp)⟩
  | fill i => exact ⟨step_fill I h, noOut h (by simp)⟩
  | sfLeave i => exact ⟨step_sfLeave I h, noOut h (by simp)⟩
  | commit => exact ⟨step_commit I h, noOut h (by simp)⟩
  | notify => exact ⟨step_notify I h, noOut h (by simp)⟩
  | evict => exact ⟨step_evict I h, noOut h (by simp)⟩

theorem inv_reach {db0 : Option Nat} {s : State} (h : Reach (init db0 1) s) : ∃ t, Inv s t := by
  induction h with
  | init => exact ⟨_, inv_init db0⟩
  | step _ hf ih => obtain ⟨t, I⟩ := ih; exact (inv_step I hf).1

/-- all outputs of a run from a state satisfying the invariant are `latest` at the moment they are returned -/
theorem run_outputs {s : State} {t : Task} (I : Inv s t) :
    ∀ {sched : List Ev} {s' outs}, run s sched = some (s', outs) → ∀ p ∈ outs, p.1 = p.2 := by
  intro sched
  induction sched generalizing s t with
  | nil => intro s' outs h; simp [run] at h; obtain ⟨_, rfl⟩ := h; simp
  | cons e es ih =>
      intro s' outs h
      simp only [run] at h
      cases hf : fire s e with
      | none => simp [hf] at h
      | some r =>
          obtain ⟨s1, out⟩ := r
          simp only [hf] at h
          obtain ⟨⟨t1, I1⟩, hout⟩ := inv_step I hf
          cases hr : run s1 es with
          | none => simp [hr] at h
          | some r2 =>
              obtain ⟨s2, outs2⟩ := r2
              simp only [hr] at h
              have ih' := ih I1 hr
              have hlat : ∀ r, out = some r → s1.latest = s.latest := by
                intro r hr'
                subst hr'
                cases e <;> simp only [fire] at hf <;> (repeat' (split at hf)) <;> simp at hf <;>
                  (try (obtain ⟨rfl, _⟩ := hf; rfl)) <;> (try (obtain ⟨_, rfl, _⟩ := hf; rfl))
              cases out with
              | none => simp at h; obtain ⟨_, rfl⟩ := h; exact ih'
              | some r =>
                  simp at h; obtain ⟨_, rfl⟩ := h
                  intro p hp
                  simp at hp
                  rcases hp with rfl | hp
                  · simp [hout r rfl, hlat r rfl]
                  · exact ih' p hp

end QbiceVerif.WideCache
