/-
Invariant of the `WideCache` LTS with ONE foreground task and arbitrary placement of the
background events (commit / notify / evict) between its atomic steps.
-/
import QbiceVerif.Model.WideCache

namespace QbiceVerif.WideCache

/-- reachability under any schedule -/
inductive Reach (s0 : State) : State → Prop where
  | init : Reach s0 s0
  | step {s s' : State} {e : Ev} {out : Option (Option Nat)} :
      Reach s0 s → fire s e = some (s', out) → Reach s0 s'

def openW (t : Task) : List (Option Nat) :=
  match t.openB with
  | some b => b.write.toList
  | none => []

/-- writes to the key recorded in batches that are not yet committed, oldest first -/
def pend (s : State) (t : Task) : List (Option Nat) := s.submitted.filterMap (·.write) ++ openW t

/-- 1 while the task sits between `put` (with `updated`) and `cacheWrite`: the batch already mentions
the key but the pin has not been taken yet -/
def adj : Pc → Int
  | .writing _ true => 1
  | _ => 0

def isWriting : Pc → Bool
  | .writing _ _ => true
  | _ => false

structure Inv (s : State) (t : Task) : Prop where
  tasks : s.tasks = [t]
  epochs : s.submitted.map (·.epoch) = List.range' s.expected s.submitted.length
  openE : ∀ b, t.openB = some b → b.epoch = s.expected + s.submitted.length ∧ s.nextEpoch = b.epoch + 1
  closedE : t.openB = none → s.nextEpoch = s.expected + s.submitted.length
  latestEff : isWriting t.pc = false → s.latest = ((pend s t).getLast?).getD s.db
  writingB : ∀ v u, t.pc = .writing v u → ∃ b, t.openB = some b ∧ b.write = some v
  entryVal : isWriting t.pc = false → ∀ e, s.entry = some e → e.val = s.latest
  pinSome : ∀ e, s.entry = some e → e.pin = ((pend s t).length : Int) + s.tokens - adj t.pc
  pinNone : s.entry = none → ((pend s t).length : Int) + s.tokens - adj t.pc = 0
  missed : (t.pc = .probed ∨ t.pc = .working ∨ ∃ v, t.pc = .read v) → s.entry = none
  readV : ∀ v, t.pc = .read v → v = s.db

theorem inv_init (db0 : Option Nat) : Inv (init db0 1) {} := by
  constructor <;> simp [init, pend, openW, adj, isWriting, List.replicate]

theorem getTask_single {s : State} {t : Task} (h : s.tasks = [t]) (i : Nat) :
    getTask s i = if i = 0 then some t else none := by
  unfold getTask; rw [h]; cases i <;> simp

theorem setTask_single {s : State} {t : Task} (h : s.tasks = [t]) (x : Task) :
    (setTask s 0 x).tasks = [x] := by
  simp [setTask, h]

/-- with consecutive epochs the batch picked by `commit` is the oldest one -/
theorem find_expected {l : List Batch} {e : Nat} (h : l.map (·.epoch) = List.range' e l.length) :
    l.find? (fun b => b.epoch = e) = l.head? := by
  cases l with
  | nil => rfl
  | cons b rest =>
      simp [List.range'] at h
      simp [List.find?, h.1]

theorem pend_nonempty_of_writing {s : State} {t : Task} (I : Inv s t) {v u} (h : t.pc = .writing v u) :
    1 ≤ (pend s t).length := by
  obtain ⟨b, hb, hw⟩ := I.writingB v u h
  simp [pend, openW, hb, hw]

end QbiceVerif.WideCache
