import QbiceVerif.Model.WriteBehind

/-! Monotone history of the write-behind pipeline: the commit log and the list of submitted batches
only ever grow at the end, whatever event fires.  Used by `Props/C10.lean` (`durable_is_stable`). -/

namespace QbiceVerif.WB

/-- One step extends the commit log, the submitted list and the epoch counter at the end only. -/
theorem step_mono {s s' : State} {ev : Event} (h : step s ev = some s') :
    s.log <+: s'.log ∧ s.submitted <+: s'.submitted ∧ s.counter ≤ s'.counter := by
  unfold step at h
  split at h
  · cases h
  · cases ev <;> simp only at h <;> (repeat' split at h) <;> cases h <;>
      (refine ⟨?_, ?_, ?_⟩ <;> simp)

/-- Every schedule extends the commit log, the submitted list and the counter at the end only. -/
theorem run_mono {s s' : State} {evs : List Event} (h : run s evs = some s') :
    s.log <+: s'.log ∧ s.submitted <+: s'.submitted ∧ s.counter ≤ s'.counter := by
  induction evs generalizing s with
  | nil =>
    simp only [run, Option.some.injEq] at h
    subst h
    exact ⟨List.prefix_rfl, List.prefix_rfl, Nat.le_refl _⟩
  | cons ev rest ih =>
    simp only [run] at h
    split at h
    · rename_i s₁ h₁
      obtain ⟨a, b, c⟩ := step_mono h₁
      obtain ⟨a', b', c'⟩ := ih h
      exact ⟨a.trans a', b.trans b', Nat.le_trans c c'⟩
    · cases h

theorem flatten_prefix {α : Type} {a b : List (List α)} (h : a <+: b) : a.flatten <+: b.flatten := by
  obtain ⟨t, rfl⟩ := h
  rw [List.flatten_append]
  exact List.prefix_append _ _

end QbiceVerif.WB
