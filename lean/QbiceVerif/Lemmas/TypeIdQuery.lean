/-
`as_u128`, `Compact128::from(u128)` and `QueryID::new` lose nothing: the pair (type id, key hash) can be
read back from a `QueryID`.
-/
import QbiceVerif.Model.TypeId

namespace QbiceVerif.TypeId

/-- both halves are `u64`. -/
def IdWf (i : Nat × Nat) : Prop := i.1 < M ∧ i.2 < M

instance (i : Nat × Nat) : Decidable (IdWf i) := by unfold IdWf; infer_instance

theorem asU128_eq {i : Id} (h : IdWf i) : asU128 i = i.1 * M + i.2 := by
  unfold asU128
  have h2 : i.2 < 2 ^ 64 := h.2
  rw [← Nat.shiftLeft_add_eq_or_of_lt h2, Nat.shiftLeft_eq]
  rfl

theorem compactOfU128_asU128 {i : Id} (h : IdWf i) : compactOfU128 (asU128 i) = (i.2, i.1) := by
  rw [asU128_eq h]
  obtain ⟨h1, h2⟩ := h
  unfold compactOfU128
  rw [Nat.shiftRight_eq_div_pow]
  have e : (2 : Nat) ^ 64 = M := by decide
  rw [e]
  unfold M at *
  refine Prod.ext ?_ ?_ <;> simp only <;> omega

theorem asU128_injective {i j : Id} (hi : IdWf i) (hj : IdWf j) (e : asU128 i = asU128 j) : i = j := by
  have := congrArg compactOfU128 e
  rw [compactOfU128_asU128 hi, compactOfU128_asU128 hj] at this
  have h1 := congrArg Prod.fst this
  have h2 := congrArg Prod.snd this
  exact Prod.ext h2 h1

theorem QueryId.typeId_new {t : Id} (h : IdWf t) (k : Nat × Nat) : (QueryId.new t k).typeId = t := by
  unfold QueryId.new QueryId.typeId
  simp only [compactOfU128_asU128 h]

theorem fold_wf_of_lt {a b c d : Nat} (ha : a < M) (hb : b < M) (hc : c < M) (hd : d < M) :
    IdWf (a ^^^ b, c ^^^ d) := by
  have e : M = 2 ^ 64 := by decide
  unfold IdWf
  simp only
  rw [e] at *
  exact ⟨Nat.xor_lt_two_pow ha hb, Nat.xor_lt_two_pow hc hd⟩

end QbiceVerif.TypeId
