/-
The invariant of the extended core model as a RUNTIME ORACLE on dumped engine states (definitions).

`DSt` is a first-order "dumped state": per key exactly the information of the state digest of the
state-level tie (`Driver/Engine.lean` `digest`, `harness/src/eng.rs` `state_digest`): kind, verified in
the current epoch, stored value, recorded dependencies in order, per recorded dependency whether the
observed value / the observed firewall-set fingerprint differs from the callee's current one (`!` / `^`),
the callees whose edge is dirty, the transitive-firewall-callee set, the pending flag, the backward
edges — plus the world cells (the environment of the external executors; the committed inputs are the
values of the input nodes).

`dump p s` is the dumped state of a model state `s`; `clauses p stat D` is the list of NAMED checks,
`invB` their conjunction over all keys, `firstFail` the first (clause, key) that fails.  Soundness
(`Lemmas/EngineCoreFwDumpSound.lean`): `Inv p s → invB p stat (dump p s) = true`, clause by clause — a
`false` on a dumped real state means: NO model state that satisfies the invariant has this dump.

`stat k = some ks` claims that the executor of `k` reads exactly `ks`, in order, whatever it reads
(`ProgStatic`); the clauses about static projections use it (the soundness theorem assumes the claim).
-/
import QbiceVerif.Lemmas.EngineCoreFw13
namespace Qbice.CoreFw
open Qbice.Core (Prog Err evalProg TraceOK)

/-- a recorded dependency as the digest shows it -/
structure DDep where
  key : Key
  /-- `!`: the observed value differs from the callee's stored one (or the callee has no node) -/
  valDiff : Bool
  /-- `^`: the observed firewall-set fingerprint differs from the callee's stored set -/
  tfcDiff : Bool
  deriving Repr

structure DNode where
  kind : Kind
  ver : Bool
  value : Val
  deps : List DDep
  dirty : List Key
  tfc : List Key
  pend : Bool
  back : List Key

structure DSt where
  /-- indexed by key; `none` = the key has no node -/
  nodes : List (Option DNode) := []
  world : Key → Val := fun _ => 0

def DSt.node (D : DSt) (k : Key) : Option DNode := (D.nodes[k]?).join

def dumpDep (s : St) (n : Node) (e : Key × Val) : DDep :=
  { key := e.1, valDiff := decide ((s.nodes e.1).map (·.value) ≠ some e.2),
    tfcDiff := decide (tfcOf s e.1 ≠ n.seen e.1) }

def dumpNode (p : Program) (s : St) (k : Key) (n : Node) : DNode :=
  { kind := n.kind, ver := decide (n.lastVerified = s.epoch), value := n.value,
    deps := n.deps.map (dumpDep s n),
    dirty := (List.range p.length).filter (fun d => s.dirty k d),
    tfc := n.tfc, pend := n.pendingBP,
    back := (List.range p.length).filter (fun c => hasEdge s c k) }

/-- the dumped state of a model state (keys of the program; under `Inv` there are no others) -/
def dump (p : Program) (s : St) : DSt :=
  { nodes := (List.range p.length).map fun k => (s.nodes k).map (dumpNode p s k), world := s.world }

-- ------------------------------------------------------------------ readers of a dumped state

def DSt.kindOf (D : DSt) (d : Key) : Option Kind := (D.node d).map (·.kind)

def DSt.pend (D : DSt) (d : Key) : Bool :=
  match D.node d with
  | some n => n.pend
  | none => false

def DSt.tfc (D : DSt) (d : Key) : List Key :=
  match D.node d with
  | some n => n.tfc
  | none => []

def DSt.front (D : DSt) (d : Key) : List Key :=
  match D.node d with
  | some n => contrib n.kind d n.tfc
  | none => []

def DSt.settled (D : DSt) (f : Key) : Bool :=
  match D.node f with
  | some n => n.ver && !n.pend
  | none => false

def DSt.inputs (D : DSt) (k : Key) : Option Val :=
  match D.node k with
  | some n => if n.kind = .input then some n.value else none
  | none => none

def DSt.pins (D : DSt) (k : Key) : Option Val :=
  match D.node k with
  | some n => if n.kind = .external then some n.value else none
  | none => none

def DSt.hasEdge (D : DSt) (c k : Key) : Bool :=
  match D.node c with
  | some nc => nc.deps.any (fun e => e.key == k)
  | none => false

/-- a table over the keys `0 … n-1`, entry `k` computed from the entries below `k` -/
def tabulate {α : Type} (g : (Key → Option α) → Key → α) : Nat → List α
  | 0 => []
  | n + 1 => let t := tabulate g n; t ++ [g (fun j => t[j]?) n]

/-- from-scratch values, bottom-up (= `cur` for well-formed programs) -/
def curStep (p : Program) (D : DSt) (rec : Key → Option (Option Val)) (k : Key) : Option Val :=
  match p[k]? with
  | none => none
  | some d =>
    match d.kind with
    | .input => D.inputs k
    | .external => extRef p D.pins D.world k
    | _ => evalProg (fun j => (rec j).join) d.prog

def curTab (p : Program) (D : DSt) : List (Option Val) := tabulate (curStep p D) p.length

/-- the recorded dependency is current: the callee has a node, the observed value is the stored one, and
    (unless the callee is a firewall) the fingerprint seen is the callee's set -/
def depCurrent (D : DSt) (e : DDep) : Bool :=
  (D.node e.key).isSome && !e.valDiff && (decide (D.kindOf e.key = some .firewall) || !e.tfcDiff)

/-- `Solid`, bottom-up -/
def solidStep (D : DSt) (rec : Key → Option Bool) (k : Key) : Bool :=
  match D.node k with
  | none => false
  | some n =>
    (!decide (n.kind = .firewall) || n.ver) &&
    (!decide (n.kind = .projection) || n.ver || n.deps.all (fun e => !D.pend e.key)) &&
    n.deps.all (fun e => depCurrent D e && rec e.key == some true)

def solidTab (D : DSt) : List Bool := tabulate (solidStep D) D.nodes.length

/-- `NGood`, bottom-up -/
def ngoodStep (D : DSt) (rec : Key → Option Bool) (k : Key) : Bool :=
  match D.node k with
  | none => false
  | some n =>
    n.deps.all (fun e => depCurrent D e &&
      (!decide (D.kindOf e.key = some .normal) || rec e.key == some true))

def ngoodTab (D : DSt) : List Bool := tabulate (ngoodStep D) D.nodes.length

-- ------------------------------------------------------------------ the named checks

/-- a check about the node of key `k` (vacuous without a node) -/
def onNode (D : DSt) (k : Key) (f : DNode → Bool) : Bool :=
  match D.node k with
  | none => true
  | some n => f n

/-- `Inv.kind`: the node has the kind of the program's key; inputs / externals record nothing -/
def cKind (p : Program) (D : DSt) (k : Key) : Bool :=
  onNode D k fun n =>
    match p[k]? with
    | none => false
    | some d => decide (d.kind = n.kind) &&
        (!(decide (n.kind = .input) || decide (n.kind = .external)) || (n.deps.isEmpty && n.tfc.isEmpty))

/-- `Inv.down`: recorded dependencies are lower keys that have a node -/
def cDown (D : DSt) (k : Key) : Bool :=
  onNode D k fun n => n.deps.all fun e => decide (e.key < k) && (D.node e.key).isSome

/-- `Inv.tfcDown` -/
def cTfcDown (D : DSt) (k : Key) : Bool :=
  onNode D k fun n => n.tfc.all fun f => decide (f < k)

/-- `Inv.nodup` -/
def cNodup (D : DSt) (k : Key) : Bool :=
  onNode D k fun n => decide ((n.deps.map (·.key)).Nodup)

/-- `Inv.pjKinds` (without the static-ness of projection callees, a property of the program) -/
def cPjKinds (D : DSt) (k : Key) : Bool :=
  onNode D k fun n => !decide (n.kind = .projection) ||
    n.deps.all fun e => decide (D.kindOf e.key = some .firewall) || decide (D.kindOf e.key = some .projection)

/-- `Inv.pjStat` -/
def cPjStat (stat : Key → Option (List Key)) (D : DSt) (k : Key) : Bool :=
  onNode D k fun n =>
    match stat k with
    | none => true
    | some ks => !decide (n.kind = .projection) ||
        (decide (n.deps.map (·.key) = recordKeys ks []) && decide (n.tfc = foldTfc D.front ks []))

/-- `Inv.pjSeen`: no `^` on an edge to a static projection -/
def cPjSeen (stat : Key → Option (List Key)) (D : DSt) (k : Key) : Bool :=
  onNode D k fun n => n.deps.all fun e =>
    !(decide (D.kindOf e.key = some .projection) && (stat e.key).isSome) || !e.tfcDiff

/-- `Inv.pjCause` -/
def cPjCause (stat : Key → Option (List Key)) (D : DSt) (k : Key) : Bool :=
  onNode D k fun n => !(decide (n.kind = .projection) && (stat k).isSome && n.pend) ||
    n.deps.any fun e => D.pend e.key

/-- `Inv.pjBroken`: `!` on a recorded callee of a projection only with a pending backward projection -/
def cPjBroken (D : DSt) (k : Key) : Bool :=
  onNode D k fun n => !decide (n.kind = .projection) || n.deps.all fun e => !e.valDiff || D.pend e.key

/-- `Inv.seenSub`: firewall callees are in the set; so is the set of a normal / projection callee whose
    fingerprint seen is current (with `^` the fingerprint seen is not in the digest) -/
def cSeenSub (D : DSt) (k : Key) : Bool :=
  onNode D k fun n => n.deps.all fun e =>
    (!decide (D.kindOf e.key = some .firewall) || n.tfc.contains e.key) &&
    (!((decide (D.kindOf e.key = some .normal) || decide (D.kindOf e.key = some .projection)) && !e.tfcDiff) ||
      (D.tfc e.key).all fun f => n.tfc.contains f)

/-- `Inv.solid`: verified in this epoch ⇒ `Solid` -/
def cSolid (sT : List Bool) (D : DSt) (k : Key) : Bool :=
  onNode D k fun n => !n.ver || sT[k]? == some true

/-- `Inv.clean`: a clean recorded edge has a current observation (no `!`; no `^` unless the callee is a
    firewall) and a normal callee below it is `NGood` -/
def cClean (nT : List Bool) (D : DSt) (k : Key) : Bool :=
  onNode D k fun n => n.deps.all fun e => n.dirty.contains e.key ||
    (depCurrent D e && (!decide (D.kindOf e.key = some .normal) || nT[e.key]? == some true))

/-- `solid_correct`: verified in this epoch ⇒ the stored value is the from-scratch value -/
def cCur (cT : List (Option Val)) (D : DSt) (k : Key) : Bool :=
  onNode D k fun n => !n.ver || cT[k]? == some (some n.value)

/-- `Inv.clean_trusted`: a clean edge to a callee whose recorded firewall frontier is settled (the edge
    the trust rule skips): the callee is `Solid` -/
def cTrust (sT : List Bool) (D : DSt) (k : Key) : Bool :=
  onNode D k fun n => n.deps.all fun e => n.dirty.contains e.key || !(D.front e.key).all D.settled ||
    sT[e.key]? == some true

/-- the value of the recorded callee `j` of `n` as stored now -/
def DSt.recVal (D : DSt) (n : DNode) (j : Key) : Option Val :=
  if n.deps.any (fun e => e.key == j) then (D.node j).map (·.value) else none

/-- `Inv.trace`, when no recorded dependency carries `!` (then the observed values are the stored ones):
    the executor, fed with the stored values of the recorded callees only, returns the stored value -/
def cTrace (p : Program) (D : DSt) (k : Key) : Bool :=
  onNode D k fun n =>
    decide (n.kind = .input) || decide (n.kind = .external) || n.deps.any (fun e => e.valDiff) ||
      match p[k]? with
      | none => true
      | some d => evalProg (D.recVal n) d.prog == some n.value

/-- backward edges = inverse of the recorded forward edges (in the model they are DEFINED so) -/
def cBack (D : DSt) (k : Key) : Bool :=
  onNode D k fun n =>
    n.back.all (fun c => decide (c < D.nodes.length)) &&
    (List.range D.nodes.length).all fun c =>
      decide (c ∈ n.back) == D.hasEdge c k

/-- the named checks -/
def clauses (p : Program) (stat : Key → Option (List Key)) (D : DSt) : List (String × (Key → Bool)) :=
  let sT := solidTab D
  let nT := ngoodTab D
  let cT := curTab p D
  [("kind", cKind p D), ("down", cDown D), ("tfcDown", cTfcDown D), ("nodup", cNodup D),
   ("back", cBack D), ("pjKinds", cPjKinds D), ("pjStat", cPjStat stat D), ("pjSeen", cPjSeen stat D),
   ("pjCause", cPjCause stat D), ("pjBroken", cPjBroken D), ("seenSub", cSeenSub D),
   ("clean", cClean nT D), ("solid", cSolid sT D), ("trust", cTrust sT D), ("cur", cCur cT D),
   ("trace", cTrace p D)]

/-- NOT part of the proved invariant (no soundness theorem): the firewall set of a node verified in this
    epoch is exactly the union of the contributions of its recorded callees -/
def xTfcExact (D : DSt) (k : Key) : Bool :=
  onNode D k fun n => !n.ver ||
    decide (n.tfc = n.deps.foldr (fun e acc => Qbice.Engine.unionSorted (D.front e.key) acc) [])

/-- NOT part of the proved invariant (dirty edges are conservative: the invariant allows spurious ones): a
    node verified in this epoch has no dirty recorded edge, except to a firewall / projection verified in
    this epoch (same-epoch propagation from a callee that changed while the node was being repaired: the
    edge was clean when its check began, so the clean path leaves it) -/
def xVerClean (D : DSt) (k : Key) : Bool :=
  onNode D k fun n => !n.ver || n.deps.all fun e => !n.dirty.contains e.key ||
    ((decide (D.kindOf e.key = some .firewall) || decide (D.kindOf e.key = some .projection)) &&
      (match D.node e.key with
       | some nd => nd.ver
       | none => false))

/-- expected but unproved checks -/
def extraClauses (D : DSt) : List (String × (Key → Bool)) :=
  [("x-tfcExact", xTfcExact D), ("x-verClean", xVerClean D)]

def firstFailExtra (D : DSt) : Option (String × Key) :=
  (extraClauses D).findSome? fun c =>
    ((List.range D.nodes.length).find? fun k => !c.2 k).map fun k => (c.1, k)

def allKeys (D : DSt) (c : Key → Bool) : Bool := (List.range D.nodes.length).all c

/-- the invariant, as far as the digest determines it, on a dumped state -/
def invB (p : Program) (stat : Key → Option (List Key)) (D : DSt) : Bool :=
  (clauses p stat D).all fun c => allKeys D c.2

/-- the first failing (clause, key) -/
def firstFail (p : Program) (stat : Key → Option (List Key)) (D : DSt) : Option (String × Key) :=
  (clauses p stat D).findSome? fun c =>
    ((List.range D.nodes.length).find? fun k => !c.2 k).map fun k => (c.1, k)

end Qbice.CoreFw
