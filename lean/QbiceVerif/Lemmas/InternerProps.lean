/-
Consequences of `Inv` used by `Props/C15.lean`.
-/
import QbiceVerif.Lemmas.InternerInv

namespace QbiceVerif.Interner

/-- a handle obtained by (or about to be returned to) user code exists for `a` -/
def UserLive (s : State) (a : Nat) : Prop := ∃ (t : Nat) (tk : Task), s.tasks[t]? = some tk ∧ a ∈ tk.userHandles

theorem userLive_live {s : State} {a : Nat} (h : UserLive s a) : Live s a := by
  obtain ⟨t, tk, ht, ha⟩ := h
  refine ⟨t, tk, ht, ?_⟩
  unfold Task.userHandles at ha
  unfold Task.handles
  rcases List.mem_append.1 ha with h | h
  · exact List.mem_append.2 (Or.inl h)
  · refine List.mem_append.2 (Or.inr ?_)
    cases hpc : tk.pc <;> rw [hpc] at h <;> simp_all [Pc.userHandles, Pc.handles]

theorem handles_user_or_temp {tk : Task} {a : Nat} (h : a ∈ tk.handles) :
    a ∈ tk.userHandles ∨ ∃ l k, tk.pc = .vTemp l k a := by
  unfold Task.handles at h
  unfold Task.userHandles
  rcases List.mem_append.1 h with h | h
  · exact Or.inl (List.mem_append.2 (Or.inl h))
  · cases hpc : tk.pc <;> rw [hpc] at h <;> simp_all [Pc.userHandles, Pc.handles]

theorem sum_pos_iff (l : List Nat) : 0 < l.sum ↔ ∃ x, x ∈ l ∧ 0 < x := by
  induction l with
  | nil => simp
  | cons a l ih =>
    simp only [List.sum_cons, List.mem_cons]
    constructor
    · intro h
      by_cases ha : 0 < a
      · exact ⟨a, Or.inl rfl, ha⟩
      · have : 0 < l.sum := by omega
        obtain ⟨x, hx, hx'⟩ := ih.1 this
        exact ⟨x, Or.inr hx, hx'⟩
    · rintro ⟨x, hx | hx, hx'⟩
      · subst hx; omega
      · have := ih.2 ⟨x, hx, hx'⟩; omega

/-- the strong count (number of handles) is non-zero iff some task owns a handle -/
theorem strong_pos_iff (s : State) (a : Nat) : 0 < s.strong a ↔ Live s a := by
  unfold State.strong
  rw [sum_pos_iff]
  constructor
  · rintro ⟨x, hx, hpos⟩
    obtain ⟨tk, htk, rfl⟩ := List.mem_map.1 hx
    obtain ⟨i, hi, rfl⟩ := List.getElem_of_mem htk
    exact ⟨i, _, List.getElem?_eq_getElem hi, List.count_pos_iff.1 hpos⟩
  · rintro ⟨t, tk, ht, ha⟩
    exact ⟨_, List.mem_map.2 ⟨tk, List.mem_of_getElem? ht, rfl⟩, List.count_pos_iff.2 ha⟩

theorem strong_zero_iff (s : State) (a : Nat) : s.strong a = 0 ↔ ¬ Live s a := by
  rw [← strong_pos_iff]; omega

theorem dead_stays_step {c : Cfg} {s s' : State} {e : Ev} {a : Nat} (hs : step c s e = some s')
    (ha : a < s.allocs.length) (hd : ¬ Live s a) : ¬ Live s' a := by
  cases e with
  | spawn =>
    simp only [step, Option.some.injEq] at hs
    subst hs
    exact fun h => hd (live_spawn h)
  | act t x =>
    obtain ⟨tk, tk', ht, hact, hts⟩ := step_act_inv hs
    have hr := act_rel hact
    have : s' = ⟨s.tasks.set t tk', s'.table, s'.allocs⟩ := by
      cases s'; simp only at hts; subst hts; rfl
    rw [this]
    exact dead_stays ht hr ha hd

theorem step_allocs_len {c : Cfg} {s s' : State} {e : Ev} (hs : step c s e = some s') :
    s.allocs.length ≤ s'.allocs.length := by
  cases e with
  | spawn => simp only [step, Option.some.injEq] at hs; subst hs; exact Nat.le_refl _
  | act t x =>
    obtain ⟨tk, tk', ht, hact, hts⟩ := step_act_inv hs
    clear hts
    obtain ⟨tasks', tb, al⟩ := s'
    have hr : ActR c s tk x tk' tb al := act_rel hact
    clear hs hact
    cases hr <;> simp

theorem table_change {c : Cfg} {s s' : State} {e : Ev} (hI : Inv c s) (hs : step c s e = some s')
    {k : Slot} {a : Nat} (h1 : s.table k = some a) (h2 : s'.table k ≠ some a) : ¬ Live s a := by
  cases e with
  | spawn =>
    simp only [step, Option.some.injEq] at hs
    subst hs
    exact absurd h1 h2
  | act t x =>
    obtain ⟨tk, tk', ht, hact, hts⟩ := step_act_inv hs
    clear hts
    obtain ⟨tasks', tb, al⟩ := s'
    have hr : ActR c s tk x tk' tb al := act_rel hact
    have hpc := hI.pcOk t tk ht
    simp only at h2
    clear hs hact
    cases hr
    case allocStore v hv =>
      rw [hv] at hpc
      by_cases hk : k = c.slot v
      · subst hk; exact hpc a h1
      · rw [setTable_other _ _ hk] at h2; exact absurd h1 h2
    case vacUpDead l k0 a0 hv hl htb hdead =>
      by_cases hk : k = k0
      · subst hk
        rw [htb] at h1; cases h1
        exact (liveB_false_iff _ _).1 hdead
      · rw [setTable_other _ _ hk] at h2; exact absurd h1 h2
    all_goals exact absurd h1 h2

/-- `get_from_hash`'s probe under the read guard -/
theorem probe_sound {c : Cfg} {s : State} (hI : Inv c s) {t : Nat} {tk : Task}
    (ht : s.tasks[t]? = some tk) {k : Slot} (hl : Pc.rlock c tk.pc = some (c.lockOf k)) (a : Nat) :
    s.probe k = some a ↔ UserLive s a ∧ ∃ w, s.allocs[a]? = some w ∧ c.slot w = k := by
  constructor
  · intro h
    obtain ⟨h1, h2⟩ := probe_some h
    refine ⟨?_, hI.tableWF k a h1⟩
    obtain ⟨t2, tk2, ht2, ha2⟩ := h2
    rcases handles_user_or_temp ha2 with hu | ⟨l, k', hpc⟩
    · exact ⟨t2, tk2, ht2, hu⟩
    · exfalso
      have hok := hI.pcOk t2 tk2 ht2
      rw [hpc] at hok
      obtain ⟨hlk, w, hw1, hw2⟩ := hok
      obtain ⟨w', hw1', hw2'⟩ := hI.tableWF k a h1
      rw [hw1] at hw1'; cases hw1'
      have hk : k' = k := by rw [← hw2, hw2']
      subst hk
      have hne : t2 ≠ t := by
        intro e; subst e
        rw [ht] at ht2; cases ht2
        rw [hpc] at hl; simp [Pc.rlock] at hl
      have := (hI.excl t2 t tk2 tk l hne ht2 ht (by rw [hpc]; rfl)).2
      exact this (by rw [hl, hlk])
  · rintro ⟨hu, w, hw1, hw2⟩
    have hlive := userLive_live hu
    obtain ⟨v, hv1, hv2⟩ := hI.canon a hlive
    rw [hw1] at hv1; cases hv1
    rw [hw2] at hv2
    simp [State.probe, hv2, (liveB_iff _ _).2 hlive]

end QbiceVerif.Interner
