/-
Concrete histories used as kernel-checked witnesses by Props/C16.lean, and two small facts about
the configuration `TinyLFU::new` builds.
-/
import QbiceVerif.Lemmas.TinyLfuStep

namespace QbiceVerif.TinyLfu

variable {σ : Type}

/-- `Policy::new` always leaves room for one probation entry. -/
theorem real_caps (capacity : Nat) : (capsOf capacity).2.1 < (capsOf capacity).2.2 := by
  simp only [capsOf]; omega

/-- the pin set after a call, for a token the call does not release -/
theorem pins_after {cfg : Cfg σ} {c c' : Cache σ} {op : Op} {r : Ret} {log : List (Nat × Bool)} {t : Nat}
    (h : step cfg c op = .ok (c', r, log)) (ht : t ∈ c.pins) (h1 : op ≠ .unpin t) (h2 : op ≠ .unpinNotify t) :
    t ∈ c'.pins := by
  obtain ⟨_, hp, _, _⟩ := step_spec h
  rw [hp]
  cases op with
  | pin s => exact List.mem_cons_of_mem _ ht
  | unpin s =>
    have : t ≠ s := fun e => h1 (e ▸ rfl)
    exact (List.mem_erase_of_ne this).mpr ht
  | unpinNotify s =>
    have : t ≠ s := fun e => h2 (e ▸ rfl)
    exact (List.mem_erase_of_ne this).mpr ht
  | get j => simp only [access]; split <;> exact ht
  | peek j => simp only [access]; split <;> exact ht
  | notify j => exact ht
  | put j w => simp only [access]; split <;> exact ht
  | ins j w => simp only [access]; split <;> exact ht
  | upd j w => simp only [access]; split <;> exact ht
  | rem j => simp only [access]; split <;> exact ht

def rangeFrom (a : Nat) : Nat → List Nat
  | 0 => []
  | n + 1 => a :: rangeFrom (a + 1) n

/-- one round of the adversary: 33 fresh keys are pinned, inserted (the 33rd insert runs maintenance,
which moves the evicted ones to the pinned region) and silently released -/
def advRound (base : Nat) : List Op :=
  (rangeFrom base 33).map .pin ++ (rangeFrom base 33).map (fun k => .put k 0) ++ (rangeFrom base 33).map .unpin

/-- capacity 1, `Poll`: keys 1 and 2 stay pinned for ever ("blockers" in the pinned region);
two rounds of 33 pinned-then-released keys -/
def pollAdversary : List Op :=
  [.pin 1, .put 1 1, .pin 2, .put 2 2] ++ (rangeFrom 1000 40).map (fun k => .put k 0) ++ advRound 2000 ++ advRound 3000

/-- the adversary with five blockers (keys 1..5 pinned for ever) and four rounds: against the code before the fix of
F15 every round leaves its 33 released entries behind a blocker, so the resident count also exceeds the bound that
allows for the releases since the last maintenance round -/
def pollAdversary5 : List Op :=
  ((rangeFrom 1 5).map (fun i => [Op.pin i, Op.put i i])).flatten ++ (rangeFrom 1000 40).map (fun k => .put k 0) ++
  advRound 2000 ++ advRound 2100 ++ advRound 2200 ++ advRound 2300

/-- The history of finding F4 (the harness's canonical replay): capacity 1, `Notify`. -/
def f4History : List Op :=
  [.pin 2, .put 1 1, .put 2 2, .put 3 3] ++ (rangeFrom 10 30).map (fun k => .put k k) ++
  [.rem 23, .rem 39, .unpinNotify 2] ++ (rangeFrom 0 30).map (fun _ => .notify 999)


/-- lock table: a reference to the lock of query 5 is held while 40 other locks are taken and dropped
(capacity 1: the table evicts all the time) -/
def lockHistory : List LOp :=
  .acq 5 :: ((rangeFrom 100 40).map (fun q => [LOp.acq q, LOp.rel q (q - 99)])).flatten

end QbiceVerif.TinyLfu
