import QbiceVerif.Lemmas.CancelCfg

/-!
# C05 — the phase lock: readers and the writer exclude each other; with repair `f40` every query task —
also the detached continuation of a guarded publication — holds the shared phase lock
-/

namespace QbiceVerif.CancelLts

structure InvPhase (s : State) : Prop where
  writerExcl : ∀ w, s.writer = some w → s.readers = []
  rdIn : ∀ t T, s.tasks t = some T → T.rd = true → t ∈ s.readers
  inRd : ∀ t, t ∈ s.readers → ∃ T, s.tasks t = some T ∧ T.rd = true
  nodup : s.readers.Nodup
  writerLive : ∀ w, s.writer = some w → ∃ T, s.tasks w = some T ∧ T.wr = true
  wrWriter : ∀ t T, s.tasks t = some T → T.wr = true → s.writer = some t
  /-- only with `f40`: a live query task always holds an `ActiveComputationGuard` -/
  queryRd : s.cfg.f40 = true → ∀ t T, s.tasks t = some T → T.pc.isSession = false → T.rd = true

theorem invPhase_init (cfg : Cfg) : InvPhase (init cfg) := by
  refine ⟨?_, ?_, ?_, ?_, ?_, ?_, ?_⟩ <;> simp [init]

/-- An event that changes one task but not the phase guards it holds. -/
theorem phase_task {s s' : State} {t : Tid} {T T' : Task} (h : InvPhase s)
    (hr : s'.readers = s.readers) (hw : s'.writer = s.writer) (hcfg : s'.cfg = s.cfg)
    (hT : s.tasks t = some T) (htasks : s'.tasks = upd s.tasks t (some T'))
    (hrd : T'.rd = T.rd) (hwr : T'.wr = T.wr) (hsess : T'.pc.isSession = false → T.pc.isSession = false) : InvPhase s' := by
  have hl : s'.tasks t = some T' := by rw [htasks]; simp
  have ho : ∀ t', t' ≠ t → s'.tasks t' = s.tasks t' := by intro t' ht'; rw [htasks]; simp [upd, ht']
  refine ⟨?_, ?_, ?_, ?_, ?_, ?_, ?_⟩
  · intro w hw'; rw [hw] at hw'; rw [hr]; exact h.writerExcl w hw'
  · intro t0 T0 a c
    rw [hr]
    by_cases e : t0 = t
    · subst e; rw [hl] at a; cases a; exact h.rdIn t0 T hT (by rw [← hrd]; exact c)
    · rw [ho t0 e] at a; exact h.rdIn t0 T0 a c
  · intro t0 hm
    rw [hr] at hm
    obtain ⟨T0, a, c⟩ := h.inRd t0 hm
    by_cases e : t0 = t
    · subst e; rw [hT] at a; cases a; exact ⟨T', hl, by rw [hrd]; exact c⟩
    · exact ⟨T0, by rw [ho t0 e]; exact a, c⟩
  · rw [hr]; exact h.nodup
  · intro w hw'
    rw [hw] at hw'
    obtain ⟨T0, a, c⟩ := h.writerLive w hw'
    by_cases e : w = t
    · subst e; rw [hT] at a; cases a; exact ⟨T', hl, by rw [hwr]; exact c⟩
    · exact ⟨T0, by rw [ho w e]; exact a, c⟩
  · intro t0 T0 a c
    rw [hw]
    by_cases e : t0 = t
    · subst e; rw [hl] at a; cases a; exact h.wrWriter t0 T hT (by rw [← hwr]; exact c)
    · rw [ho t0 e] at a; exact h.wrWriter t0 T0 a c
  · intro hf t0 T0 a c
    rw [hcfg] at hf
    by_cases e : t0 = t
    · subst e; rw [hl] at a; cases a; rw [hrd]; exact h.queryRd hf t0 T hT (hsess c)
    · rw [ho t0 e] at a; exact h.queryRd hf t0 T0 a c

/-- A task ends and gives back the phase guards it holds (`endTask`). -/
theorem phase_end {s s' : State} {t : Tid} {T : Task} (h : InvPhase s) (hT : s.tasks t = some T)
    (htasks : s'.tasks = upd s.tasks t none)
    (hr : s'.readers = if T.rd then s.readers.erase t else s.readers)
    (hw : s'.writer = if T.wr then none else s.writer) (hcfg : s'.cfg = s.cfg) : InvPhase s' := by
  have hl : s'.tasks t = none := by rw [htasks]; simp
  have ho : ∀ t', t' ≠ t → s'.tasks t' = s.tasks t' := by intro t' ht'; rw [htasks]; simp [upd, ht']
  have hmem : ∀ t0, t0 ≠ t → (t0 ∈ s'.readers ↔ t0 ∈ s.readers) := by
    intro t0 hne; rw [hr]; split
    · exact List.mem_erase_of_ne hne
    · rfl
  have hnot : t ∉ s'.readers := by
    rw [hr]; split
    · exact fun hm => (List.Nodup.mem_erase_iff h.nodup).mp hm |>.1 rfl
    · next hrd =>
      intro hm
      obtain ⟨T0, a, c⟩ := h.inRd t hm
      rw [hT] at a; cases a; exact hrd c
  refine ⟨?_, ?_, ?_, ?_, ?_, ?_, ?_⟩
  · intro w hw'
    rw [hw] at hw'
    split at hw'
    · cases hw'
    · have := h.writerExcl w hw'
      rw [hr, this]; split <;> simp
  · intro t0 T0 a c
    by_cases e : t0 = t
    · subst e; rw [hl] at a; cases a
    · rw [ho t0 e] at a; exact (hmem t0 e).mpr (h.rdIn t0 T0 a c)
  · intro t0 hm
    by_cases e : t0 = t
    · subst e; exact absurd hm hnot
    · obtain ⟨T0, a, c⟩ := h.inRd t0 ((hmem t0 e).mp hm)
      exact ⟨T0, by rw [ho t0 e]; exact a, c⟩
  · rw [hr]; split
    · exact h.nodup.erase t
    · exact h.nodup
  · intro w hw'
    rw [hw] at hw'
    split at hw'
    · cases hw'
    · next hwr =>
      obtain ⟨T0, a, c⟩ := h.writerLive w hw'
      by_cases e : w = t
      · subst e; rw [hT] at a; cases a; exact absurd c hwr
      · exact ⟨T0, by rw [ho w e]; exact a, c⟩
  · intro t0 T0 a c
    by_cases e : t0 = t
    · subst e; rw [hl] at a; cases a
    · rw [ho t0 e] at a
      have h0 := h.wrWriter t0 T0 a c
      rw [hw]; split
      · next hwr =>
        have h1 := h.wrWriter t T hT hwr
        rw [h0] at h1; exact absurd (Option.some.inj h1) e
      · exact h0
  · intro hf t0 T0 a c
    rw [hcfg] at hf
    by_cases e : t0 = t
    · subst e; rw [hl] at a; cases a
    · rw [ho t0 e] at a; exact h.queryRd hf t0 T0 a c

end QbiceVerif.CancelLts

namespace QbiceVerif.CancelLts

/-- A new session task: holds no phase guard yet. -/
theorem phase_new {s s' : State} {t : Tid} {T' : Task} (h : InvPhase s)
    (hr : s'.readers = s.readers) (hw : s'.writer = s.writer) (hcfg : s'.cfg = s.cfg)
    (hT : s.tasks t = none) (htasks : s'.tasks = upd s.tasks t (some T'))
    (hrd : T'.rd = false) (hwr : T'.wr = false) (hsess : T'.pc.isSession = true) : InvPhase s' := by
  have hl : s'.tasks t = some T' := by rw [htasks]; simp
  have ho : ∀ t', t' ≠ t → s'.tasks t' = s.tasks t' := by intro t' ht'; rw [htasks]; simp [upd, ht']
  refine ⟨?_, ?_, ?_, ?_, ?_, ?_, ?_⟩
  · intro w hw'; rw [hw] at hw'; rw [hr]; exact h.writerExcl w hw'
  · intro t0 T0 a c
    rw [hr]
    by_cases e : t0 = t
    · subst e; rw [hl] at a; cases a; rw [hrd] at c; cases c
    · rw [ho t0 e] at a; exact h.rdIn t0 T0 a c
  · intro t0 hm
    rw [hr] at hm
    obtain ⟨T0, a, c⟩ := h.inRd t0 hm
    have e : t0 ≠ t := by intro e; subst e; rw [hT] at a; cases a
    exact ⟨T0, by rw [ho t0 e]; exact a, c⟩
  · rw [hr]; exact h.nodup
  · intro w hw'
    rw [hw] at hw'
    obtain ⟨T0, a, c⟩ := h.writerLive w hw'
    have e : w ≠ t := by intro e; subst e; rw [hT] at a; cases a
    exact ⟨T0, by rw [ho w e]; exact a, c⟩
  · intro t0 T0 a c
    rw [hw]
    by_cases e : t0 = t
    · subst e; rw [hl] at a; cases a; rw [hwr] at c; cases c
    · rw [ho t0 e] at a; exact h.wrWriter t0 T0 a c
  · intro hf t0 T0 a c
    rw [hcfg] at hf
    by_cases e : t0 = t
    · subst e; rw [hl] at a; cases a; rw [hsess] at c; cases c
    · rw [ho t0 e] at a; exact h.queryRd hf t0 T0 a c

/-- AS IS (`f40 = false`): the detached continuation of a guarded block gives up the phase guard. -/
theorem phase_drop_rd {s s' : State} {t : Tid} {T T' : Task} (h : InvPhase s) (hT : s.tasks t = some T)
    (htasks : s'.tasks = upd s.tasks t (some T'))
    (hr : s'.readers = if T.rd then s.readers.erase t else s.readers)
    (hw : s'.writer = s.writer) (hcfg : s'.cfg = s.cfg) (hf40 : s.cfg.f40 = false)
    (hrd : T'.rd = false) (hwr : T'.wr = T.wr) : InvPhase s' := by
  have hl : s'.tasks t = some T' := by rw [htasks]; simp
  have ho : ∀ t', t' ≠ t → s'.tasks t' = s.tasks t' := by intro t' ht'; rw [htasks]; simp [upd, ht']
  have hmem : ∀ t0, t0 ≠ t → (t0 ∈ s'.readers ↔ t0 ∈ s.readers) := by
    intro t0 hne; rw [hr]; split
    · exact List.mem_erase_of_ne hne
    · rfl
  have hnot : t ∉ s'.readers := by
    rw [hr]; split
    · exact fun hm => (List.Nodup.mem_erase_iff h.nodup).mp hm |>.1 rfl
    · next hrd' =>
      intro hm
      obtain ⟨T0, a, c⟩ := h.inRd t hm
      rw [hT] at a; cases a; exact hrd' c
  refine ⟨?_, ?_, ?_, ?_, ?_, ?_, ?_⟩
  · intro w hw'
    rw [hw] at hw'
    have := h.writerExcl w hw'
    rw [hr, this]; split <;> simp
  · intro t0 T0 a c
    by_cases e : t0 = t
    · subst e; rw [hl] at a; cases a; rw [hrd] at c; cases c
    · rw [ho t0 e] at a; exact (hmem t0 e).mpr (h.rdIn t0 T0 a c)
  · intro t0 hm
    by_cases e : t0 = t
    · subst e; exact absurd hm hnot
    · obtain ⟨T0, a, c⟩ := h.inRd t0 ((hmem t0 e).mp hm)
      exact ⟨T0, by rw [ho t0 e]; exact a, c⟩
  · rw [hr]; split
    · exact h.nodup.erase t
    · exact h.nodup
  · intro w hw'
    rw [hw] at hw'
    obtain ⟨T0, a, c⟩ := h.writerLive w hw'
    by_cases e : w = t
    · subst e; rw [hT] at a; cases a; exact ⟨T', hl, by rw [hwr]; exact c⟩
    · exact ⟨T0, by rw [ho w e]; exact a, c⟩
  · intro t0 T0 a c
    rw [hw]
    by_cases e : t0 = t
    · subst e; rw [hl] at a; cases a; exact h.wrWriter t0 T hT (by rw [← hwr]; exact c)
    · rw [ho t0 e] at a; exact h.wrWriter t0 T0 a c
  · intro hf; rw [hcfg, hf40] at hf; cases hf

end QbiceVerif.CancelLts
