/-
Storage (association list) and counting lemmas for the TinyLFU model (property C16).
-/
import QbiceVerif.Model.TinyLfu

namespace QbiceVerif.TinyLfu

/-- the keys of the storage, in list order -/
def keys (s : Storage) : List Nat := s.map Prod.fst

@[simp] theorem keys_nil : keys [] = [] := rfl
@[simp] theorem keys_cons (j v : Nat) (s : Storage) : keys ((j, v) :: s) = j :: keys s := rfl

theorem sGet_none_iff {s : Storage} {k : Nat} : sGet s k = none ↔ k ∉ keys s := by
  induction s with
  | nil => simp [sGet]
  | cons p r ih =>
    obtain ⟨j, v⟩ := p
    by_cases h : j = k
    · simp [sGet, h]
    · have h2 : ¬ k = j := fun e => h e.symm
      simp [sGet, h, h2, ih]

theorem sGet_some_mem {s : Storage} {k v : Nat} (h : sGet s k = some v) : (k, v) ∈ s := by
  induction s with
  | nil => simp [sGet] at h
  | cons p r ih =>
    obtain ⟨j, w⟩ := p
    by_cases hj : j = k
    · simp [sGet, hj] at h; simp [hj, h]
    · simp [sGet, hj] at h; exact List.mem_cons_of_mem _ (ih h)

theorem mem_keys_of_sGet {s : Storage} {k v : Nat} (h : sGet s k = some v) : k ∈ keys s := by
  have : sGet s k ≠ none := by simp [h]
  exact Classical.not_not.mp (fun hn => this (sGet_none_iff.mpr hn))

theorem sGet_of_mem_nodup {s : Storage} {k v : Nat} (hn : (keys s).Nodup) (h : (k, v) ∈ s) : sGet s k = some v := by
  induction s with
  | nil => simp at h
  | cons p r ih =>
    obtain ⟨j, w⟩ := p
    simp only [keys_cons, List.nodup_cons] at hn
    rcases List.mem_cons.mp h with h | h
    · cases h; simp [sGet]
    · have hk : k ∈ keys r := List.mem_map.mpr ⟨(k, v), h, rfl⟩
      have : j ≠ k := fun e => hn.1 (e ▸ hk)
      simp [sGet, this, ih hn.2 h]

@[simp] theorem sGet_sDel_self (s : Storage) (k : Nat) : sGet (sDel s k) k = none := by
  induction s with
  | nil => simp [sDel, sGet]
  | cons p r ih =>
    obtain ⟨j, v⟩ := p
    by_cases h : j = k <;> simp [sDel, sGet, h, ih]

theorem sGet_sDel_ne {s : Storage} {k j : Nat} (h : j ≠ k) : sGet (sDel s k) j = sGet s j := by
  induction s with
  | nil => simp [sDel, sGet]
  | cons p r ih =>
    obtain ⟨i, v⟩ := p
    by_cases hi : i = k
    · have : i ≠ j := fun e => h (e ▸ hi)
      simp [sDel, sGet, hi, ih]; simp [hi ▸ this]
    · by_cases hj : i = j
      · subst hj; simp [sDel, sGet, hi]
      · simp [sDel, sGet, hi, hj, ih]

theorem sGet_sDel (s : Storage) (k j : Nat) : sGet (sDel s k) j = if j = k then none else sGet s j := by
  by_cases h : j = k
  · subst h; simp
  · simp [h, sGet_sDel_ne h]

theorem sGet_sSet (s : Storage) (k w j : Nat) :
    sGet (sSet s k w) j = if j = k then (sGet s k).map (fun _ => w) else sGet s j := by
  induction s with
  | nil => simp [sSet, sGet]
  | cons p r ih =>
    obtain ⟨i, v⟩ := p
    by_cases hi : i = k
    · by_cases hj : j = k
      · subst hi; subst hj; simp [sSet, sGet]
      · have : i ≠ j := fun e => hj (e ▸ hi)
        simp [sSet, sGet, hi, hj, ih]; simp [hi ▸ this]
    · by_cases hj : j = k
      · subst hj; simp [sSet, sGet, hi, ih]
      · by_cases hij : i = j <;> simp [sSet, sGet, hi, hj, hij, ih]

theorem keys_sSet (s : Storage) (k w : Nat) : keys (sSet s k w) = keys s := by
  induction s with
  | nil => simp [sSet]
  | cons p r ih =>
    obtain ⟨i, v⟩ := p
    by_cases hi : i = k <;> simp [sSet, hi, ih]

theorem length_sSet (s : Storage) (k w : Nat) : (sSet s k w).length = s.length := by
  have := congrArg List.length (keys_sSet s k w); simpa [keys] using this

theorem sDel_sublist (s : Storage) (k : Nat) : (sDel s k).Sublist s := by
  induction s with
  | nil => simp [sDel]
  | cons p r ih =>
    obtain ⟨i, v⟩ := p
    by_cases hi : i = k
    · simp [sDel, hi]; exact List.Sublist.cons _ ih
    · simp [sDel, hi]; exact ih

theorem keys_sDel_sublist (s : Storage) (k : Nat) : (keys (sDel s k)).Sublist (keys s) :=
  (sDel_sublist s k).map _

theorem nodup_keys_sDel {s : Storage} (k : Nat) (h : (keys s).Nodup) : (keys (sDel s k)).Nodup :=
  List.Nodup.sublist (keys_sDel_sublist s k) h

theorem nodup_keys_cons {s : Storage} {k : Nat} (v : Nat) (h : (keys s).Nodup) (hk : sGet s k = none) :
    (keys ((k, v) :: s)).Nodup := by
  simp only [keys_cons, List.nodup_cons]; exact ⟨sGet_none_iff.mp hk, h⟩

/-- the listener's answer for a stored entry -/
def isPinned {σ} (cfg : Cfg σ) (pins : List Nat) (e : Nat × Nat) : Bool := pins.contains (cfg.tok e.1 e.2)

/-- the number of resident entries the listener currently reports as pinned -/
def pinnedNow {σ} (cfg : Cfg σ) (pins : List Nat) (s : Storage) : Nat := (s.filter (isPinned cfg pins)).length

theorem length_filter_split {α} (p : α → Bool) (l : List α) :
    l.length = (l.filter p).length + (l.filter (fun x => !p x)).length := by
  induction l with
  | nil => simp
  | cons a r ih => by_cases h : p a <;> simp [h, ih] <;> omega

/-- Counting: if every resident entry that is not pinned has its key in `L`, the resident count is
at most the pinned count plus `|L|`. -/
theorem length_le_pinned_add {σ} (cfg : Cfg σ) (pins : List Nat) (s : Storage) (L : List Nat)
    (hn : (keys s).Nodup)
    (h : ∀ k v, sGet s k = some v → pins.contains (cfg.tok k v) = false → k ∈ L) :
    s.length ≤ pinnedNow cfg pins s + L.length := by
  rw [length_filter_split (isPinned cfg pins) s, pinnedNow]
  apply Nat.add_le_add_left
  have hsub : (s.filter (fun x => !isPinned cfg pins x)).Sublist s := List.filter_sublist
  have hnd : (keys (s.filter (fun x => !isPinned cfg pins x))).Nodup := List.Nodup.sublist (hsub.map _) hn
  have hlen : (s.filter (fun x => !isPinned cfg pins x)).length = (keys (s.filter (fun x => !isPinned cfg pins x))).length := by
    simp [keys]
  rw [hlen]
  apply List.Nodup.length_le_of_subset hnd
  intro k hk
  obtain ⟨⟨k', v⟩, hm, rfl⟩ := List.mem_map.mp hk
  have hm' := List.mem_filter.mp hm
  have hg := sGet_of_mem_nodup hn hm'.1
  apply h k' v hg
  simpa [isPinned] using hm'.2

theorem length_le_of_keys_subset (s : Storage) (L : List Nat) (hn : (keys s).Nodup)
    (h : ∀ k v, sGet s k = some v → k ∈ L) : s.length ≤ L.length := by
  have : s.length = (keys s).length := by simp [keys]
  rw [this]
  apply List.Nodup.length_le_of_subset hn
  intro k hk
  cases hg : sGet s k with
  | none => exact absurd hk (sGet_none_iff.mp hg)
  | some v => exact h k v hg

end QbiceVerif.TinyLfu
