import QbiceVerif.Lemmas.EngineLtsCT

/-! Safety invariants of the `CT` LTS, continued: the cancellation events, and the induction. -/

namespace QbiceVerif.Lts.CT

set_option maxHeartbeats 2000000 in
theorem inv_abort {s s' : State} {i : Nat} (hi : Inv s) (h : step s (.abort i) = some s') : Inv s' := by
  simp only [step] at h
  split at h
  · rename_i p hpar
    split at h
    · rename_i hc
      obtain ⟨hlt, hcc⟩ := hc
      obtain ⟨h1,h2,h3,h4,h6,h7,h8,h9,h11,h12,h13,h14,h15,h16,h17,h18⟩ := hi
      have hnpub : ((s.task p).key, p) ∉ s.log ∨ (s.task i).pc.ended = true := by
        by_cases hm : ((s.task p).key, p) ∈ s.log
        · exact Or.inr (h17 p i hm hpar)
        · exact Or.inl hm
      split at h <;> first | (cases h; ct_close) | cases h
    · cases h
  · cases h

theorem inv_removeA {s s' : State} {i : Nat} (hi : Inv s) (h : step s (.removeA i) = some s') : Inv s' := by
  simp only [step] at h
  split at h
  · rename_i hc
    obtain ⟨hlt, hpc⟩ := hc
    obtain ⟨h1,h2,h3,h4,h6,h7,h8,h9,h11,h12,h13,h14,h15,h16,h17,h18⟩ := hi
    cases h; ct_close
  · cases h

theorem inv_notifyA {s s' : State} {i : Nat} (hi : Inv s) (h : step s (.notifyA i) = some s') : Inv s' := by
  simp only [step] at h
  split at h
  · rename_i hc
    obtain ⟨hlt, hpc⟩ := hc
    obtain ⟨h1,h2,h3,h4,h6,h7,h8,h9,h11,h12,h13,h14,h15,h16,h17,h18⟩ := hi
    cases h
    constructor <;> grind [Pc.isOwner, Pc.waitingOn, Pc.holdsShared, Pc.ended, Pc.cancelsChildren]
  · cases h

theorem inv_step {s s' : State} {ev : Ev} (hi : Inv s) (h : step s ev = some s') : Inv s' := by
  cases ev with
  | loopHead i => exact inv_loopHead hi h
  | wake i => exact inv_wake hi h
  | snap i => exact inv_snap hi h
  | fast i => exact inv_fast hi h
  | tfcRelease i => exact inv_tfcRelease hi h
  | tryInsert i => exact inv_tryInsert hi h
  | call i d => exact inv_call hi h
  | execDone i => exact inv_execDone hi h
  | lockX i => exact inv_lockX hi h
  | publish i => exact inv_publish hi h
  | remove i => exact inv_remove hi h
  | notify i => exact inv_notify hi h
  | abort i => exact inv_abort hi h
  | removeA i => exact inv_removeA hi h
  | notifyA i => exact inv_notifyA hi h

theorem reachable_inv {roots : List Nat} {B : Nat} {s : State} (hr : Reachable roots B s) : Inv s := by
  induction hr with
  | init => exact inv_init roots B
  | step ev _ h ih => exact inv_step ih h

theorem run_inv {s s' : State} {evs : List Ev} (hr : Run s evs s') (hi : Inv s) : Inv s' := by
  induction hr with
  | nil => exact hi
  | cons ev h _ ih => exact ih (inv_step hi h)

end QbiceVerif.Lts.CT
