import QbiceVerif.Lemmas.PhaseSpec

/-!
# C04 — the harness's expression executors are local, and the as-is witness

* `progExec_local`: `ExecLocal (progExec prog)` for every program table — the hypothesis of
  `snapshot_consistent` is met by the executors the correspondence actually runs.
* the witness schedule for the as-is order (finding F5).
-/

namespace QbiceVerif.Phase

theorem foldl_sum_congr (i1 i2 : Inputs) (ks : List Key) (a : Int)
    (h : ∀ r, r ∈ ks → i1 r = i2 r) :
    ks.foldl (fun s k => s + i2 k) a = ks.foldl (fun s k => s + i1 k) a := by
  induction ks generalizing a with
  | nil => rfl
  | cons k ks ih =>
    simp only [List.foldl_cons]
    rw [h k (by simp)]
    exact ih _ (fun r hr => h r (by simp [hr]))

theorem Expr.eval_local (e : Expr) (i1 i2 : Inputs)
    (h : ∀ r, r ∈ (e.eval i1).2 → i1 r = i2 r) : e.eval i2 = e.eval i1 := by
  induction e with
  | const n => rfl
  | read k =>
    simp only [Expr.eval] at h ⊢
    rw [h k (by simp)]
  | add a b iha ihb =>
    simp only [Expr.eval] at h ⊢
    have ha := iha (fun r hr => h r (by simp [hr]))
    have hb := ihb (fun r hr => h r (by simp [hr]))
    rw [ha, hb]
  | ifEq c n a b ihc iha ihb =>
    simp only [Expr.eval] at h ⊢
    by_cases hc : (c.eval i1).1 = n
    · simp only [hc, if_true] at h
      have h1 := ihc (fun r hr => h r (by simp [hr]))
      have h2 := iha (fun r hr => h r (by simp [hr]))
      simp [h1, h2, hc]
    · simp only [hc, if_false] at h
      have h1 := ihc (fun r hr => h r (by simp [hr]))
      have h2 := ihb (fun r hr => h r (by simp [hr]))
      simp [h1, h2, hc]
  | sumAll ks =>
    simp only [Expr.eval] at h ⊢
    rw [foldl_sum_congr i1 i2 ks 0 h]

/-- the executors of the correspondence harness satisfy the locality hypothesis -/
theorem progExec_local (prog : Key → Option Expr) : ExecLocal (progExec prog) := by
  intro k i1 i2 h
  unfold progExec at h ⊢
  cases hp : prog k with
  | none => rfl
  | some e =>
    simp only [hp] at h ⊢
    exact Expr.eval_local e i1 i2 h

/-! ## the as-is witness (F5) -/

/-- one input key `0`, one derived key `1 = input 0 + 100` -/
def wProg : Key → Option Expr := fun k => if k = 1 then some (.add (.read 0) (.const 100)) else none

/-- HISTORICAL (F5, fixed by 7a67ce5): the order of the code as it WAS (`lockFirst := false`), FIFO lock -/
def wCfg : Cfg := { lockFirst := false, fair := true, exec := progExec wProg }

/-- task 0: a reader that computed key 1 earlier; task 1: the writer — one session `set 0 := 7; commit`,
then a fresh `tracked()` and a query of key 1; task 2: a reader -/
def wInit : State :=
  init 1 (fun _ => 5)
    [[.round [(false, 1)]], [.session [(0, 7)] .commit, .round [(false, 1)]], [.round [(false, 1)]]]

/-- the schedule: the reader of task 2 takes the shared lock between the writer's `bump` and its
request for the exclusive lock, samples the new timestamp 2 and verifies key 1 at it against the old
input; after `commit()` has returned the writer's fresh tracked engine trusts that stamp -/
def wSched : List Ev := [
  .rReq 0, .grant 0, .rAcq 0, .rSample 0 1, .rQuery 0 1 105, .rRel 0,
  .wStep 1 .batch 0, .wStep 1 .bump 2,
  .rReq 2, .grant 2, .rAcq 2, .rSample 2 2, .rQuery 2 1 105, .rRel 2,
  .wStep 1 .stage 2, .wStep 1 .req 0, .grant 1, .wStep 1 .acq 0,
  .wSet 1 0 7, .wCommit 1, .cPropagate 1, .cSubmit 1, .cRel 1, .wDone 1,
  .rReq 1, .grant 1, .rAcq 1, .rSample 1 2]

/-- what the witness state looks like: reached by `wSched`; the session (epoch 2, write `0 := 7`) has
been released and `commit()` has returned; task 1 holds a fresh tracked engine of epoch 2; the query it
is about to make is enabled with the value `105` (the value of the inputs of epoch 1) and with no other
value, while the inputs of epoch 2 give `107`; and key 1's node is stamped with epoch 2 although its
value is not that of epoch 2's inputs. -/
def witnessFacts : Bool :=
  match run wCfg wInit wSched with
  | none => false
  | some s =>
    (match (s.tasks 1).pc with | .rActive 2 [(false, 1)] => true | _ => false) &&
    s.sess.isNone && s.done == [(2, [(0, 7)])] && s.epoch == 2 &&
    (step wCfg s (.rQuery 1 1 105)).isSome && !(step wCfg s (.rQuery 1 1 107)).isSome &&
    (wCfg.exec 1 (snapshot s.base s.done 2)).1 == 107 &&
    (wCfg.exec 1 (snapshot s.base s.done 1)).1 == 105 &&
    (match s.nodes 1 with | some n => n.ver == 2 && n.val == 105 | none => false)

theorem witnessFacts_true : witnessFacts = true := by decide

/-- the same schedule is not a schedule of the repaired order: the reader cannot get in -/
theorem witness_not_repaired : (run { wCfg with lockFirst := true } wInit wSched).isNone = true := by decide

end QbiceVerif.Phase
