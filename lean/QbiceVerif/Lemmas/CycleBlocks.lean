/-
Order independence of the fresh cycle evaluation, the bridge: the memo of a finished evaluation is a
sequence of blocks (`Blocks`) — an unmarked entry whose value is its executor over the older entries,
or a detected cycle: marked entries with their defaults whose executors, fed from the entries older
than the whole block, each stop at the next member (the last at the first).  Every such memo has a
traversal-independent description (`Sol`, CycleUniq.lean).
-/
import QbiceVerif.Lemmas.CycleUniq
namespace Qbice.Cycle

/-- consecutive keys: the executor of each, fed from `tbl`, stops at the next -/
def Linked (p : Program) (tbl : Key → Option Val) : List Key → Prop
  | [] => True
  | [_] => True
  | a :: b :: r => Reaches tbl (progOf p a) b ∧ Linked p tbl (b :: r)

/-- a detected cycle: linked, and the last key stops at the first -/
def CycOK (p : Program) (tbl : Key → Option Val) : List Key → Prop
  | [] => False
  | c :: r => Linked p tbl (c :: r) ∧ ∃ z, (c :: r).getLast? = some z ∧ Reaches tbl (progOf p z) c

/-- the successor of a key in a cyclic list -/
def NxtIn (l : List Key) (a b : Key) : Prop :=
  (∃ pre post, l = pre ++ a :: b :: post) ∨ (∃ pre, l = pre ++ [a] ∧ l.head? = some b)

theorem linked_mid {p : Program} {tbl : Key → Option Val} : ∀ (pre : List Key) (a b : Key) (post : List Key),
    Linked p tbl (pre ++ a :: b :: post) → Reaches tbl (progOf p a) b := by
  intro pre
  induction pre with
  | nil => intro a b post h; exact h.1
  | cons x pre ih =>
    intro a b post h
    cases pre with
    | nil => exact ih a b post h.2
    | cons y pre' => exact ih a b post h.2

theorem Linked.mono {p : Program} {t1 t2 : Key → Option Val} (h : ∀ x v, t1 x = some v → t2 x = some v) :
    ∀ l, Linked p t1 l → Linked p t2 l
  | [], _ => trivial
  | [_], _ => trivial
  | _ :: b :: r, hl => ⟨hl.1.mono h, Linked.mono h (b :: r) hl.2⟩

theorem CycOK.mono {p : Program} {t1 t2 : Key → Option Val} (h : ∀ x v, t1 x = some v → t2 x = some v) :
    ∀ l, CycOK p t1 l → CycOK p t2 l
  | [], hl => hl
  | c :: r, ⟨h1, z, hz, hr⟩ => ⟨Linked.mono h _ h1, z, hz, hr.mono h⟩

theorem nxtIn_mem {l : List Key} {a b : Key} (h : NxtIn l a b) : a ∈ l ∧ b ∈ l := by
  rcases h with ⟨pre, post, rfl⟩ | ⟨pre, hl, hh⟩
  · simp
  · refine ⟨by rw [hl]; simp, ?_⟩
    cases l with
    | nil => simp at hh
    | cons c r => simp at hh; simp [hh]

theorem nxtIn_reaches {p : Program} {tbl : Key → Option Val} {l : List Key} (h : CycOK p tbl l) {a b : Key}
    (hn : NxtIn l a b) : Reaches tbl (progOf p a) b := by
  cases l with
  | nil => exact absurd h (by simp [CycOK])
  | cons c r =>
    obtain ⟨hl, z, hz, hr⟩ := h
    rcases hn with ⟨pre, post, e⟩ | ⟨pre, e, hh⟩
    · rw [e] at hl; exact linked_mid pre a b post hl
    · simp only [List.head?_cons, Option.some.injEq] at hh
      rw [e] at hz
      simp only [List.getLast?_append, List.getLast?_singleton, Option.some_or, Option.some.injEq] at hz
      rw [← hh, hz]; exact hr

theorem nxtIn_exists {l : List Key} {a : Key} (h : a ∈ l) : ∃ b, NxtIn l a b := by
  obtain ⟨pre, post, e⟩ := List.append_of_mem h
  cases post with
  | nil =>
    cases hl : l with
    | nil => rw [hl] at h; simp at h
    | cons c r => exact ⟨c, Or.inr ⟨pre, by rw [← hl]; exact e, by simp⟩⟩
  | cons b post' => exact ⟨b, Or.inl ⟨pre, post', e⟩⟩

/-- from any member forward to the last -/
theorem path_to_last {l : List Key} {z : Key} (hz : l.getLast? = some z) :
    ∀ (post pre : List Key) (x : Key), l = pre ++ x :: post → Path (NxtIn l) x z := by
  intro post
  induction post with
  | nil =>
    intro pre x e
    rw [e] at hz
    simp only [List.getLast?_append, List.getLast?_singleton, Option.some_or, Option.some.injEq] at hz
    rw [hz]; exact .refl _
  | cons y post ih =>
    intro pre x e
    refine .head (Or.inl ⟨pre, post, e⟩) (ih (pre ++ [x]) y ?_)
    rw [e]; simp

/-- from the first forward to any member -/
theorem path_from_head {l : List Key} {c : Key} :
    ∀ (post pre : List Key) (x : Key), l = pre ++ x :: post → Path (NxtIn l) c x →
      ∀ y ∈ post, Path (NxtIn l) c y := by
  intro post
  induction post with
  | nil => intro _ _ _ _ y hy; simp at hy
  | cons y0 post ih =>
    intro pre x e px y hy
    have py0 : Path (NxtIn l) c y0 := px.tail (Or.inl ⟨pre, post, e⟩)
    rcases List.mem_cons.1 hy with rfl | hy
    · exact py0
    · exact ih (pre ++ [x]) y0 (by rw [e]; simp) py0 y hy

/-- following successors from any member of the cycle leads to any other -/
theorem nxtIn_path {l : List Key} {a b : Key} (ha : a ∈ l) (hb : b ∈ l) : Path (NxtIn l) a b := by
  cases hl : l with
  | nil => rw [hl] at ha; simp at ha
  | cons c r =>
    rw [← hl]
    obtain ⟨z, hz⟩ : ∃ z, l.getLast? = some z := by
      rw [hl]
      cases h : (c :: r).getLast? with
      | none => simp at h
      | some z => exact ⟨z, rfl⟩
    obtain ⟨pre, post, e⟩ := List.append_of_mem ha
    have p1 : Path (NxtIn l) a z := path_to_last hz post pre a e
    obtain ⟨ys, hys⟩ : ∃ ys, l = ys ++ [z] := List.getLast?_eq_some_iff.1 hz
    have p2 : Path (NxtIn l) z c := .head (Or.inr ⟨ys, hys, by rw [hl]; simp⟩) (.refl _)
    have p3 : Path (NxtIn l) c b := by
      rw [hl] at hb
      rcases List.mem_cons.1 hb with rfl | hb
      · exact .refl _
      · exact path_from_head r [] c (by rw [hl]; rfl) (.refl _) b hb
    exact (p1.trans p2).trans p3

-- ------------------------------------------------------------------ blocks

inductive Blocks (p : Program) : List Done → Prop
  | nil : Blocks p []
  | plain (d : Done) (T : List Done) : Blocks p T → d.marked = false →
      evalWith (valOf T) (progOf p d.key) = some d.val → Blocks p (d :: T)
  | cyc (B T : List Done) : Blocks p T → (∀ d ∈ B, d.marked = true ∧ d.val = dfltOf p d.key) →
      CycOK p (valOf T) (mkeys B) → Blocks p (B ++ T)

theorem valOf_cons (d : Done) (T : List Done) (k : Key) :
    valOf (d :: T) k = if d.key = k then some d.val else valOf T k := by
  unfold valOf
  by_cases h : d.key = k <;> simp [findDone, h]

theorem valOf_some_mem {m : List Done} {k : Key} {v : Val} (h : valOf m k = some v) : k ∈ mkeys m := by
  unfold valOf at h
  cases hf : findDone k m with
  | none => rw [hf] at h; simp at h
  | some d =>
    have := findDone_some hf
    rw [← this.2]; exact List.mem_map_of_mem this.1

theorem valOf_append_new {B T : List Done} {k : Key} (h : k ∈ mkeys B) :
    ∃ d ∈ B, d.key = k ∧ valOf (B ++ T) k = some d.val := by
  induction B with
  | nil => simp [mkeys] at h
  | cons d B ih =>
    by_cases hk : d.key = k
    · exact ⟨d, by simp, hk, by simp [valOf, findDone, hk]⟩
    · have : k ∈ mkeys B := by
        simp only [mkeys, List.map_cons, List.mem_cons] at h
        rcases h with h | h
        · exact absurd h.symm hk
        · exact h
      obtain ⟨d', hd', hk', hv⟩ := ih this
      refine ⟨d', List.mem_cons_of_mem _ hd', hk', ?_⟩
      rw [List.cons_append, valOf_cons]
      simp [hk, hv]

theorem valOf_append_old {B T : List Done} {k : Key} (h : k ∉ mkeys B) : valOf (B ++ T) k = valOf T k := by
  unfold valOf
  rw [findDone_append h]

/-- every memo made of blocks has a traversal-independent description -/
theorem blocks_sol {p : Program} {m : List Done} (b : Blocks p m) : (mkeys m).Nodup →
    ∃ tbl lvl M Nxt, Sol p (valOf m) tbl lvl M Nxt ∧ (∀ k, k ∈ mkeys m → lvl k < m.length) ∧
      (∀ a c, Nxt a c → a ∈ mkeys m) ∧ (∀ d ∈ m, M d.key = d.marked) := by
  induction b with
  | nil =>
    intro _
    refine ⟨fun _ _ => none, fun _ => 0, fun _ => false, fun _ _ => False, ⟨?_, ?_, ?_, ?_⟩, ?_, ?_, ?_⟩
    · intro k v h; simp [valOf, findDone] at h
    · intro k v h; simp [valOf, findDone] at h
    · intro k v h; simp [valOf, findDone] at h
    · intro k v y h; simp [valOf, findDone] at h
    · intro k h; simp [mkeys] at h
    · intro a c h; exact h.elim
    · intro d h; simp at h
  | plain d T _ hm hev ih =>
    intro nd
    simp only [mkeys, List.map_cons, List.nodup_cons] at nd
    obtain ⟨hdT, ndT⟩ := nd
    obtain ⟨tbl, lvl, M, Nxt, S, hlv, hN, hM⟩ := ih ndT
    have lift : ∀ x w, valOf T x = some w → x ≠ d.key ∧ valOf (d :: T) x = some w := by
      intro x w h
      have hx : x ∈ mkeys T := valOf_some_mem h
      have hne : x ≠ d.key := fun e => hdT (by rw [← e]; exact hx)
      refine ⟨hne, ?_⟩
      rw [valOf_cons, if_neg (fun e => hne e.symm)]; exact h
    have old : ∀ k v, k ≠ d.key → valOf (d :: T) k = some v → valOf T k = some v := by
      intro k v hne h
      rw [valOf_cons, if_neg (fun e => hne e.symm)] at h; exact h
    refine ⟨fun k => if k = d.key then valOf T else tbl k, fun k => if k = d.key then T.length else lvl k,
      fun k => if k = d.key then false else M k, Nxt, ⟨?_, ?_, ?_, ?_⟩, ?_, ?_, ?_⟩
    · intro k v hk x w hx
      by_cases hkd : k = d.key
      · simp only [hkd, if_true] at hx ⊢
        obtain ⟨hne, hv⟩ := lift x w hx
        refine ⟨hv, ?_⟩
        simp only [hne, if_false]
        exact hlv x (valOf_some_mem hx)
      · simp only [hkd, if_false] at hx ⊢
        obtain ⟨h1, h2⟩ := S.tblOK k v (old k v hkd hk) x w hx
        obtain ⟨hne, hv⟩ := lift x w h1
        refine ⟨hv, ?_⟩
        simp only [hne, if_false]; exact h2
    · intro k v hk hmk
      by_cases hkd : k = d.key
      · simp only [hkd, if_true]
        rw [hkd, valOf_cons, if_pos rfl] at hk
        injection hk with hk
        rw [← hk]; exact hev
      · simp only [hkd, if_false] at hmk ⊢
        exact S.plain k v (old k v hkd hk) hmk
    · intro k v hk hmk
      by_cases hkd : k = d.key
      · simp [hkd] at hmk
      · simp only [hkd, if_false] at hmk
        exact S.marked k v (old k v hkd hk) hmk
    · intro k v y hk hn
      have hkT : k ∈ mkeys T := hN k y hn
      have hkd : k ≠ d.key := fun e => hdT (by rw [← e]; exact hkT)
      obtain ⟨h1, h2, ⟨w, hw⟩, h4, h5, h6⟩ := S.nxt k v y (old k v hkd hk) hn
      obtain ⟨hyd, hyv⟩ := lift y w hw
      simp only [hkd, hyd, if_false]
      exact ⟨h1, h2, ⟨w, hyv⟩, h4, h5, h6⟩
    · intro k hk
      by_cases hkd : k = d.key
      · simp [hkd]
      · simp only [hkd, if_false, List.length_cons]
        simp only [mkeys, List.map_cons, List.mem_cons] at hk
        rcases hk with hk | hk
        · exact absurd hk hkd
        · exact Nat.lt_succ_of_lt (hlv k hk)
    · intro a c h
      simp only [mkeys, List.map_cons, List.mem_cons]
      exact Or.inr (hN a c h)
    · intro d' hd'
      rcases List.mem_cons.1 hd' with rfl | hd'
      · simp [hm]
      · have hne : d'.key ≠ d.key := fun e => hdT (by rw [← e]; exact List.mem_map_of_mem hd')
        simp only [hne, if_false]; exact hM d' hd'
  | cyc B T _ hB hC ih =>
    intro nd
    simp only [mkeys, List.map_append] at nd
    obtain ⟨_, ndT, hdisj⟩ := List.nodup_append.1 nd
    obtain ⟨tbl, lvl, M, Nxt, S, hlv, hN, hM⟩ := ih ndT
    have hBT : ∀ x, x ∈ mkeys T → x ∉ mkeys B := fun x hx hb => hdisj x hb x hx rfl
    have lift : ∀ x w, valOf T x = some w → x ∉ mkeys B ∧ valOf (B ++ T) x = some w := by
      intro x w h
      have hx := hBT x (valOf_some_mem h)
      exact ⟨hx, by rw [valOf_append_old hx]; exact h⟩
    have old : ∀ k v, k ∉ mkeys B → valOf (B ++ T) k = some v → valOf T k = some v := by
      intro k v hk h
      rw [valOf_append_old hk] at h; exact h
    have hBne : 0 < B.length := by
      cases B with
      | nil => simp [mkeys, CycOK] at hC
      | cons _ _ => simp
    refine ⟨fun k => if k ∈ mkeys B then valOf T else tbl k, fun k => if k ∈ mkeys B then T.length else lvl k,
      fun k => if k ∈ mkeys B then true else M k, fun a c => NxtIn (mkeys B) a c ∨ Nxt a c,
      ⟨?_, ?_, ?_, ?_⟩, ?_, ?_, ?_⟩
    · intro k v hk x w hx
      by_cases hkB : k ∈ mkeys B
      · simp only [hkB, if_true] at hx ⊢
        obtain ⟨hne, hv⟩ := lift x w hx
        refine ⟨hv, ?_⟩
        simp only [hne, if_false]
        exact hlv x (valOf_some_mem hx)
      · simp only [hkB, if_false] at hx ⊢
        obtain ⟨h1, h2⟩ := S.tblOK k v (old k v hkB hk) x w hx
        obtain ⟨hne, hv⟩ := lift x w h1
        refine ⟨hv, ?_⟩
        simp only [hne, if_false]; exact h2
    · intro k v hk hmk
      by_cases hkB : k ∈ mkeys B
      · simp [hkB] at hmk
      · simp only [hkB, if_false] at hmk ⊢
        exact S.plain k v (old k v hkB hk) hmk
    · intro k v hk hmk
      by_cases hkB : k ∈ mkeys B
      · obtain ⟨d, hd, hdk, hv⟩ := valOf_append_new (T := T) hkB
        rw [hk] at hv
        injection hv with hv
        obtain ⟨y, hy⟩ := nxtIn_exists hkB
        refine ⟨?_, y, Or.inl hy⟩
        rw [hv, (hB d hd).2, hdk]
      · simp only [hkB, if_false] at hmk
        obtain ⟨h1, y, hy⟩ := S.marked k v (old k v hkB hk) hmk
        exact ⟨h1, y, Or.inr hy⟩
    · intro k v y hk hn
      rcases hn with hn | hn
      · obtain ⟨hkB, hyB⟩ := nxtIn_mem hn
        obtain ⟨dy, _, _, hvy⟩ := valOf_append_new (T := T) hyB
        simp only [hkB, hyB, if_true]
        refine ⟨trivial, nxtIn_reaches hC hn, ⟨_, hvy⟩, trivial, trivial, ?_⟩
        exact (nxtIn_path hyB hkB).mono (fun _ _ h => Or.inl h)
      · have hkT : k ∈ mkeys T := hN k y hn
        have hkB : k ∉ mkeys B := hBT k hkT
        obtain ⟨h1, h2, ⟨w, hw⟩, h4, h5, h6⟩ := S.nxt k v y (old k v hkB hk) hn
        obtain ⟨hyB, hyv⟩ := lift y w hw
        simp only [hkB, hyB, if_false]
        exact ⟨h1, h2, ⟨w, hyv⟩, h4, h5, h6.mono (fun _ _ h => Or.inr h)⟩
    · intro k hk
      by_cases hkB : k ∈ mkeys B
      · simp only [hkB, if_true, List.length_append]; omega
      · simp only [hkB, if_false, List.length_append]
        simp only [mkeys, List.map_append, List.mem_append] at hk
        rcases hk with hk | hk
        · exact absurd hk hkB
        · have := hlv k hk; omega
    · intro a c h
      simp only [mkeys, List.map_append, List.mem_append]
      rcases h with h | h
      · exact Or.inl (nxtIn_mem h).1
      · exact Or.inr (hN a c h)
    · intro d' hd'
      rcases List.mem_append.1 hd' with hd' | hd'
      · have : d'.key ∈ mkeys B := List.mem_map_of_mem hd'
        simp only [this, if_true]; exact (hB d' hd').1.symm
      · have : d'.key ∉ mkeys B := hBT _ (List.mem_map_of_mem hd')
        simp only [this, if_false]; exact hM d' hd'

/-- **Order independence, memo form.**  Two memos made of blocks give the same value to every key
    both contain. -/
theorem blocks_unique {p : Program} {m1 m2 : List Done} (b1 : Blocks p m1) (b2 : Blocks p m2)
    (n1 : (mkeys m1).Nodup) (n2 : (mkeys m2).Nodup) (k : Key) (h1 : k ∈ mkeys m1) (h2 : k ∈ mkeys m2) :
    valOf m1 k = valOf m2 k := by
  obtain ⟨tbl1, lvl1, M1, N1, S1, _, _, _⟩ := blocks_sol b1 n1
  obtain ⟨tbl2, lvl2, M2, N2, S2, _, _, _⟩ := blocks_sol b2 n2
  have some_of_mem : ∀ {m : List Done} {k : Key}, k ∈ mkeys m → ∃ v, valOf m k = some v := by
    intro m k h
    cases hf : findDone k m with
    | none => exact absurd h (findDone_none_iff.1 hf)
    | some d => exact ⟨d.val, by simp [valOf, hf]⟩
  obtain ⟨v1, hv1⟩ := some_of_mem h1
  obtain ⟨v2, hv2⟩ := some_of_mem h2
  rw [hv1, hv2, (sol_unique S1 S2 (lvl1 k) k v1 v2 rfl hv1 hv2).1]

/-- the same for marks: whether a key is defaulted does not depend on the traversal -/
theorem blocks_unique_marked {p : Program} {m1 m2 : List Done} (b1 : Blocks p m1) (b2 : Blocks p m2)
    (n1 : (mkeys m1).Nodup) (n2 : (mkeys m2).Nodup) {d1 d2 : Done} (h1 : d1 ∈ m1) (h2 : d2 ∈ m2)
    (hk : d1.key = d2.key) : d1.marked = d2.marked ∧ d1.val = d2.val := by
  obtain ⟨tbl1, lvl1, M1, N1, S1, _, _, hM1⟩ := blocks_sol b1 n1
  obtain ⟨tbl2, lvl2, M2, N2, S2, _, _, hM2⟩ := blocks_sol b2 n2
  have hv1 : valOf m1 d1.key = some d1.val := by simp [valOf, findDone_of_mem n1 h1]
  have hv2 : valOf m2 d1.key = some d2.val := by rw [hk]; simp [valOf, findDone_of_mem n2 h2]
  obtain ⟨hv, hm, _⟩ := sol_unique S1 S2 (lvl1 d1.key) d1.key d1.val d2.val rfl hv1 hv2
  refine ⟨?_, hv⟩
  rw [← hM1 d1 h1, hm, hk, hM2 d2 h2]

end Qbice.Cycle
