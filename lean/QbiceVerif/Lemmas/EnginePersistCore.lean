/-
Lemmas for C07 / C08, part 2: restart on the core engine model (`Model/EngineCore.lean`, the model
the C01 / C03 theorems are proved about).  Everything in a core state except the execution log of
the current operation is stored (epoch = timestamp, nodes, dirty edges), so a restart is
`{ s with log := [] }`: the store is the image of the state (C07 `store_is_image`) and a new engine
loads exactly that image.
-/
import QbiceVerif.Lemmas.EngineCore6
namespace Qbice.Core

/-- histories with the executor invocations of every operation in the output -/
def runOpsL (p : Program) : List Op → St → Except Err (List (OpOut × List Key) × St)
  | [], s => .ok ([], s)
  | .sess sets :: rest, s =>
    match session p sets { s with log := [] } with
    | .error e => .error e
    | .ok (rs, s1) =>
      match runOpsL p rest s1 with
      | .error e => .error e
      | .ok (outs, s2) => .ok ((.sess rs, s1.log) :: outs, s2)
  | .round ks :: rest, s =>
    match round p (fuelFor p) ks { s with log := [] } with
    | .error e => .error e
    | .ok (vs, s1) =>
      match runOpsL p rest s1 with
      | .error e => .error e
      | .ok (outs, s2) => .ok ((.round vs s1.log, s1.log) :: outs, s2)

/-- clean shutdown, new engine on the same store -/
def restart (s : St) : St := { s with log := [] }

/-- histories with restarts at arbitrary positions -/
inductive POp where
  | op (o : Op)
  | restart

def POp.erase : List POp → List Op
  | [] => []
  | .op o :: r => o :: POp.erase r
  | .restart :: r => POp.erase r

def runP (p : Program) : List POp → St → Except Err (List (OpOut × List Key) × St)
  | [], s => .ok ([], s)
  | .restart :: rest, s => runP p rest (restart s)
  | .op (.sess sets) :: rest, s =>
    match session p sets { s with log := [] } with
    | .error e => .error e
    | .ok (rs, s1) =>
      match runP p rest s1 with
      | .error e => .error e
      | .ok (outs, s2) => .ok ((.sess rs, s1.log) :: outs, s2)
  | .op (.round ks) :: rest, s =>
    match round p (fuelFor p) ks { s with log := [] } with
    | .error e => .error e
    | .ok (vs, s1) =>
      match runP p rest s1 with
      | .error e => .error e
      | .ok (outs, s2) => .ok ((.round vs s1.log, s1.log) :: outs, s2)

/-- outputs only -/
def outs {α β : Type} (r : Except Err (α × β)) : Except Err α :=
  match r with
  | .ok (a, _) => .ok a
  | .error e => .error e

theorem restart_log_irrelevant (s : St) : { restart s with log := [] } = { s with log := [] } := rfl

/-- the outputs of a history do not depend on the log the first operation starts with -/
theorem runOpsL_setLog (p : Program) (ops : List Op) (s : St) (l : List Key) :
    outs (runOpsL p ops { s with log := l }) = outs (runOpsL p ops s) := by
  cases ops with
  | nil => rfl
  | cons o rest => cases o <;> rfl

/-- frame property: a history with restarts anywhere produces, operation by operation, the values
    and executor invocations of the same history without them -/
theorem runP_erase (p : Program) : ∀ (h : List POp) (s : St),
    outs (runP p h s) = outs (runOpsL p (POp.erase h) s) := by
  intro h
  induction h with
  | nil => intro s; rfl
  | cons o rest ih =>
    intro s
    cases o with
    | restart =>
      simp only [runP, POp.erase]
      rw [ih (restart s)]
      exact runOpsL_setLog p _ s []
    | op o =>
      cases o with
      | sess sets =>
        simp only [runP, POp.erase, runOpsL]
        cases session p sets { s with log := [] } with
        | error e => rfl
        | ok r =>
          obtain ⟨rs, s1⟩ := r
          have := ih s1
          simp only [outs] at this ⊢
          cases h1 : runP p rest s1 <;> cases h2 : runOpsL p (POp.erase rest) s1 <;>
            simp_all
      | round ks =>
        simp only [runP, POp.erase, runOpsL]
        cases round p (fuelFor p) ks { s with log := [] } with
        | error e => rfl
        | ok r =>
          obtain ⟨vs, s1⟩ := r
          have := ih s1
          simp only [outs] at this ⊢
          cases h1 : runP p rest s1 <;> cases h2 : runOpsL p (POp.erase rest) s1 <;>
            simp_all

/-- `runOpsL` is `runOps` with the logs added -/
theorem runOpsL_fst (p : Program) : ∀ (ops : List Op) (s : St),
    (match runOpsL p ops s with
     | .ok (o, s') => Except.ok (o.map (·.1), s')
     | .error e => .error e) = runOps p ops s := by
  intro ops
  induction ops with
  | nil => intro s; rfl
  | cons o rest ih =>
    intro s
    cases o with
    | sess sets =>
      simp only [runOpsL, runOps]
      cases session p sets { s with log := [] } with
      | error e => rfl
      | ok r =>
        obtain ⟨rs, s1⟩ := r
        have := ih s1
        simp only at this ⊢
        rw [← this]
        cases runOpsL p rest s1 with
        | error e => rfl
        | ok r2 => rfl
    | round ks =>
      simp only [runOpsL, runOps]
      cases round p (fuelFor p) ks { s with log := [] } with
      | error e => rfl
      | ok r =>
        obtain ⟨vs, s1⟩ := r
        have := ih s1
        simp only at this ⊢
        rw [← this]
        cases runOpsL p rest s1 with
        | error e => rfl
        | ok r2 => rfl

/-- a key that was verified at shutdown is answered by the new engine without running anything -/
theorem query_verified_no_exec (p : Program) {s : St} {k : Key} {n : Node}
    (hn : s.nodes k = some n) (hv : n.lastVerified = s.epoch) (fuel : Nat) :
    query p (fuel + 1) k (restart s) = .ok (n.value, restart s) := by
  simp [query, restart, hn, hv]

end Qbice.Core
