import QbiceVerif.Lemmas.CancelProgress

/-!
# C05 — `cancel_then_sound`, model side: a run with faults is observationally a run of complete requests

What the rest of the system sees of this LTS is the published store: `version k` (how many publications of node `k`
— by a query's guarded block, or of input `k` by a session — were completed) and `epoch` (how many sessions bumped the
timestamp).  `pubLog` is the sequence of the events that change it.  `erase_faults`: for every run from `init` of the
repaired configuration — with any cancellations and panics — that ends without a task, there is a run from `init`
*without* `cancel` / `panic` that consists of complete, sequential requests (one single-frame query per completed
publication, one session per epoch bump), has the **same publication log** (same publications, same order), and ends
without a task in a state with the same store (and, by `Q`, the same — empty — tables).
-/

namespace QbiceVerif.CancelLts

set_option linter.unusedSimpArgs false
set_option linter.unusedVariables false

/-! ### two session facts that need no rank assumption -/

structure SessOk (f12 : Bool) (T : Task) : Prop where
  sBumped : T.pc = .sBumped → f12 = false
  wr : T.wr = true ↔ (T.pc = .sG0 ∨ T.pc = .sOpen ∨ T.pc = .sG1)

theorem step_sessOk {s s' : State} {e : Ev}
    (h : ∀ t T, s.tasks t = some T → SessOk s.cfg.f12 T) (hs : step s e = some s') :
    ∀ t T, s'.tasks t = some T → SessOk s'.cfg.f12 T := by
  intro t T' hT'
  rw [step_cfg hs]
  by_cases hne : taskOf e = t
  · subst hne
    cases e with
    | cancel t0 =>
      simp only [step] at hs
      (repeat' split at hs) <;> first | (cases hs; done) | skip
      injection hs with hs; subst hs
      rename_i _ T hT hdet
      obtain ⟨h1, h2⟩ := h _ _ hT
      simp only [taskOf] at hT'
      unfold cancelTask at hT'
      split at hT'
      · rename_i hses
        cases hpc : T.pc <;> simp [hpc, Pc.isSession] at hses <;>
          simp [hpc, endTask, setTask, upd, dropBatch] at hT' <;>
          (try (cases hb : T.batch <;> simp [hb, dropBatch, endTask, upd] at hT')) <;>
          (try subst hT') <;>
          (refine ⟨?_, ?_⟩ <;> simp_all [Pc.isSession])
      · cases hfr : T.frames with
        | nil => simp [hfr, endTask, upd] at hT'
        | cons top rest =>
          simp only [hfr] at hT'
          split at hT'
          · rename_i hg
            simp [upd] at hT'
            subst hT'
            refine ⟨?_, ?_⟩ <;> simp_all [Pc.isSession, Pc.guarded]
          · cases hb : T.batch <;> simp [hb, dropBatch, endTask, upd] at hT'
    | spawn t0 k cl u =>
      simp only [step] at hs
      split at hs
      · injection hs with hs; subst hs
        simp [upd, taskOf] at hT'
        subst hT'
        refine ⟨?_, ?_⟩ <;> simp
      · cases hs
    | sStart t0 =>
      simp only [step] at hs
      split at hs
      · injection hs with hs; subst hs
        simp [setTask, upd, taskOf] at hT'
        subst hT'
        refine ⟨?_, ?_⟩ <;> simp
      · cases hs
    | wake t0 =>
      simp only [step] at hs
      (repeat' split at hs) <;> first | (cases hs; done) | skip
      injection hs with hs; subst hs
      simp [setTask, upd, taskOf] at hT'
      subst hT'
      obtain ⟨h1, h2⟩ := h _ _ (by assumption)
      rename_i hw
      rcases hw with ⟨hw, _⟩ | ⟨hw, _⟩ <;> (refine ⟨?_, ?_⟩ <;> simp_all)
    | _ =>
      simp only [step] at hs <;> (repeat' split at hs) <;>
      first
      | (cases hs; done)
      | (injection hs with hs; subst hs
         simp [setTask, endTask, upd, taskOf] at hT'
         all_goals
           (try subst hT'
            obtain ⟨h1, h2⟩ := h _ _ (by assumption)
            refine ⟨?_, ?_⟩ <;> simp_all))
  · rw [(step_other hs hne).1] at hT'; exact h t T' hT'

theorem reachable_sessOk {cfg : Cfg} {s : State} (h : Reachable cfg s) : ∀ t T, s.tasks t = some T → SessOk cfg.f12 T := by
  induction h with
  | init => intro t T hT; simp [init] at hT
  | step e hr hs ih =>
    have hc := reachable_cfg hr
    have := step_sessOk (by rw [hc]; exact ih) hs
    rw [step_cfg hs, hc] at this
    exact this

/-! ### the published store and the publication log -/

/-- a change of the published store -/
inductive Pub
  /-- a query's guarded block completed the publication of node `k` -/
  | node (k : Key)
  /-- a session bumped the timestamp -/
  | bump
  /-- a session wrote input `k` -/
  | input (k : Key)
  deriving DecidableEq, Repr

def pubOf (s : State) : Ev → Option Pub
  | .submit t =>
    (match s.tasks t with
     | some T => (match T.frames with | top :: _ => some (.node top.key) | [] => none)
     | none => none)
  | .sBump _ => some .bump
  | .sWrite _ k => some (.input k)
  | _ => none

def applyPub (v : Key → Nat) (ep : Nat) : Pub → (Key → Nat) × Nat
  | .node k => (upd v k (v k + 1), ep)
  | .bump => (v, ep + 1)
  | .input k => (upd v k (v k + 1), ep)

def applyOpt (v : Key → Nat) (ep : Nat) : Option Pub → (Key → Nat) × Nat
  | some p => applyPub v ep p
  | none => (v, ep)

@[simp] theorem dropBatch_version (s : State) (b : Option Bid) : (dropBatch s b).version = s.version := by cases b <;> rfl
@[simp] theorem dropBatch_epoch (s : State) (b : Option Bid) : (dropBatch s b).epoch = s.epoch := by cases b <;> rfl

theorem cancelTask_store (s : State) (t : Tid) (T : Task) :
    (cancelTask s t T).version = s.version ∧ (cancelTask s t T).epoch = s.epoch := by
  unfold cancelTask
  split
  · split <;> simp [endTask, setTask]
  · split
    · simp [endTask]
    · split <;> simp [endTask]

/-- **the store changes only by completed publications**: every event other than `submit` (the end of the write phase
    of a guarded block), `sBump` and `sWrite` leaves it alone — in particular `cancel`, `panic`, `resume` do -/
theorem step_store {s s' : State} {e : Ev} (hs : step s e = some s') :
    (s'.version, s'.epoch) = applyOpt s.version s.epoch (pubOf s e) := by
  cases e <;> simp only [step] at hs <;> (repeat' split at hs) <;>
    first
    | (cases hs; done)
    | (injection hs with hs; subst hs
       first
       | (simp [applyOpt, pubOf, cancelTask_store]; done)
       | (simp_all [applyOpt, applyPub, pubOf, setTask, endTask]))

/-- the publication log of a run -/
def pubLog (s : State) : List Ev → List Pub
  | [] => []
  | e :: es =>
    match step s e with
    | some s' => (pubOf s e).toList ++ pubLog s' es
    | none => []

theorem run_append {s s1 : State} {es1 es2 : List Ev} (h : run s es1 = some s1) : run s (es1 ++ es2) = run s1 es2 := by
  induction es1 generalizing s with
  | nil => simp [run] at h; subst h; rfl
  | cons e es ih =>
    simp only [run, List.cons_append] at h ⊢
    cases h1 : step s e with
    | none => simp [h1] at h
    | some s' => simp only [h1] at h ⊢; exact ih h

theorem pubLog_append {s s1 : State} {es1 es2 : List Ev} (h : run s es1 = some s1) :
    pubLog s (es1 ++ es2) = pubLog s es1 ++ pubLog s1 es2 := by
  induction es1 generalizing s with
  | nil => simp [run] at h; subst h; simp [pubLog]
  | cons e es ih =>
    simp only [run, List.cons_append, pubLog] at h ⊢
    cases h1 : step s e with
    | none => simp [h1] at h
    | some s' => simp only [h1] at h ⊢; rw [ih h, List.append_assoc]

/-! ### the fault-free side: sequential complete requests -/

def openSess (b : Bid) : Task := { frames := [], pc := .sOpen, batch := some b, rd := false, wr := true, detached := false }

/-- the states of the fault-free run between two requests: no task at all (`o = none`), or one open session -/
structure SimSt (n : Nat) (o : Option Tid) (m : State) : Prop where
  cfg : m.cfg = Cfg.fixed
  freshT : ∀ t, n ≤ t → m.tasks t = none
  freshO : ∀ t, n ≤ t → m.outcome t = none
  comp : ∀ k, m.comp k = none
  bpl : ∀ k, m.bpl k = none
  readers : m.readers = []
  shape : match o with
    | none => (∀ t, m.tasks t = none) ∧ m.writer = none
    | some σ => σ < n ∧ (∃ b, m.tasks σ = some (openSess b)) ∧ (∀ t, t ≠ σ → m.tasks t = none) ∧ m.writer = some σ

theorem simSt_init : SimSt 0 none (init Cfg.fixed) := by
  refine ⟨rfl, ?_, ?_, ?_, ?_, rfl, ?_⟩ <;> simp [init]

/-- the open session commits -/
theorem sim_close {n : Nat} {σ : Tid} {m : State} (h : SimSt n (some σ) m) :
    ∃ m', run m [.sCommit σ, .sFinish σ] = some m' ∧ SimSt n none m' ∧ m'.version = m.version ∧ m'.epoch = m.epoch ∧
      pubLog m [.sCommit σ, .sFinish σ] = [] := by
  obtain ⟨hcfg, hT, hO, hc, hb, hr, hlt, ⟨b, hσ⟩, hoth, hw⟩ := h
  cases hrun : run m [.sCommit σ, .sFinish σ] with
  | none => simp [run, step, hσ, openSess, setTask, upd] at hrun
  | some m' =>
    simp [run, step, hσ, openSess, setTask, upd] at hrun
    subst hrun
    refine ⟨_, rfl, ?_, ?_, ?_, ?_⟩
    · refine ⟨by simp [endTask, hcfg], ?_, ?_, ?_, ?_, ?_, ?_⟩
      · intro t ht; have : t ≠ σ := Nat.ne_of_gt (Nat.lt_of_lt_of_le hlt ht)
        simp [endTask, upd, this, hT t ht]
      · intro t ht; have : t ≠ σ := Nat.ne_of_gt (Nat.lt_of_lt_of_le hlt ht)
        simp [endTask, upd, this, hO t ht]
      · intro k; simp [endTask, hc k]
      · intro k; simp [endTask, hb k]
      · simp [endTask, hr]
      · refine ⟨?_, by simp [endTask]⟩
        intro t
        by_cases e : t = σ
        · subst e; simp [endTask, upd]
        · simp [endTask, upd, e, hoth t e]
    · simp [endTask]
    · simp [endTask]
    · simp [pubLog, step, hσ, openSess, setTask, upd, pubOf]

/-- the open session writes one more input -/
theorem sim_write {n : Nat} {σ : Tid} {m : State} (k : Key) (h : SimSt n (some σ) m) :
    ∃ m', run m [.sWrite σ k] = some m' ∧ SimSt n (some σ) m' ∧ m'.version = upd m.version k (m.version k + 1) ∧
      m'.epoch = m.epoch ∧ pubLog m [.sWrite σ k] = [.input k] := by
  obtain ⟨hcfg, hT, hO, hc, hb, hr, hlt, ⟨b, hσ⟩, hoth, hw⟩ := h
  cases hrun : run m [.sWrite σ k] with
  | none => simp [run, step, hσ, openSess] at hrun
  | some m' =>
    simp [run, step, hσ, openSess] at hrun
    subst hrun
    refine ⟨_, rfl, ⟨hcfg, hT, hO, hc, hb, hr, hlt, ⟨b, hσ⟩, hoth, hw⟩, rfl, rfl, ?_⟩
    simp [pubLog, step, hσ, openSess, pubOf]

/-- a new session is opened: `input_session()` to the point where the session object exists -/
theorem sim_open {n : Nat} {m : State} (h : SimSt n none m) :
    ∃ m', run m [.sStart n, .sAcquire n, .sBump n] = some m' ∧ SimSt (n + 1) (some n) m' ∧ m'.version = m.version ∧
      m'.epoch = m.epoch + 1 ∧ pubLog m [.sStart n, .sAcquire n, .sBump n] = [.bump] := by
  obtain ⟨hcfg, hT, hO, hc, hb, hr, hall, hw⟩ := h
  have h12 : m.cfg.f12 = true := by rw [hcfg]; rfl
  cases hrun : run m [.sStart n, .sAcquire n, .sBump n] with
  | none => simp [run, step, hall, hO n (Nat.le_refl n), setTask, upd, hr, hw, h12] at hrun
  | some m' =>
    simp [run, step, hall, hO n (Nat.le_refl n), setTask, upd, hr, hw, h12] at hrun
    subst hrun
    refine ⟨_, rfl, ?_, rfl, rfl, ?_⟩
    · refine ⟨hcfg, ?_, ?_, hc, hb, rfl, ?_⟩
      · intro t ht; have : t ≠ n := Nat.ne_of_gt ht
        simp [upd, this, hall t]
      · intro t ht; exact hO t (Nat.le_of_succ_le ht)
      · refine ⟨Nat.lt_succ_self n, ⟨m.nextBid, by simp [upd, openSess]⟩, ?_, rfl⟩
        intro t ht; simp [upd, ht, hall t]
    · simp [pubLog, step, hall, hO n (Nat.le_refl n), setTask, upd, hr, hw, h12, pubOf]

/-- one complete single-frame request that publishes node `k` -/
theorem sim_pub {n : Nat} {m : State} (k : Key) (h : SimSt n none m) :
    ∃ m', run m [.spawn n k false none, .lock n, .gEnter n, .batchNew n, .submit n, .finish n, .hit n] = some m' ∧
      SimSt (n + 1) none m' ∧ m'.version = upd m.version k (m.version k + 1) ∧ m'.epoch = m.epoch ∧
      pubLog m [.spawn n k false none, .lock n, .gEnter n, .batchNew n, .submit n, .finish n, .hit n] = [.node k] := by
  obtain ⟨hcfg, hT, hO, hc, hb, hr, hall, hw⟩ := h
  cases hrun : run m [.spawn n k false none, .lock n, .gEnter n, .batchNew n, .submit n, .finish n, .hit n] with
  | none => simp [run, step, hall, hO n (Nat.le_refl n), setTask, endTask, upd, hr, hw, hc, hb, regOpt, defuseOpt] at hrun
  | some m' =>
    simp [run, step, hall, hO n (Nat.le_refl n), setTask, endTask, upd, hr, hw, hc, hb, regOpt, defuseOpt] at hrun
    subst hrun
    refine ⟨_, rfl, ?_, ?_, rfl, ?_⟩
    · refine ⟨hcfg, ?_, ?_, ?_, hb, ?_, ?_⟩
      · intro t ht; have : t ≠ n := Nat.ne_of_gt ht
        simp [upd, this, hall t]
      · intro t ht; have : t ≠ n := Nat.ne_of_gt ht
        simp [upd, this, hO t (Nat.le_of_succ_le ht)]
      · intro k'; by_cases e : k' = k <;> simp [upd, e, hc k']
      · simp
      · refine ⟨?_, rfl⟩
        intro t; by_cases e : t = n <;> simp [upd, e, hall t]
    · rfl
    · simp [pubLog, step, hall, hO n (Nat.le_refl n), setTask, endTask, upd, hr, hw, hc, hb, regOpt, defuseOpt, pubOf]

/-! ### the faulty side: where the store changes, and when a session object exists -/

def HasOpen (s : State) : Prop := ∃ σ T, s.tasks σ = some T ∧ T.pc = .sOpen

/-- while a session object exists no query publishes (the phase lock; needs repair `f40`) -/
theorem submit_no_open {s s' : State} {t : Tid} (hR : Reachable Cfg.fixed s) (hs : step s (.submit t) = some s') :
    ¬ HasOpen s := by
  rintro ⟨σ, Tσ, hσ, hpc⟩
  have IP := reachable_phase0 hR
  have hcfg := reachable_cfg hR
  have hwr := ((reachable_sessOk hR) σ Tσ hσ).wr.mpr (Or.inr (Or.inl hpc))
  have hw := IP.wrWriter σ Tσ hσ hwr
  have hrd := IP.writerExcl σ hw
  simp only [step] at hs
  cases hT : s.tasks t with
  | none => simp [hT] at hs
  | some T =>
    simp only [hT] at hs
    split at hs
    · split at hs
      · rename_i hg1
        have hns : T.pc.isSession = false := by rw [hg1]; rfl
        have := IP.rdIn t T hT (IP.queryRd (by rw [hcfg]; rfl) t T hT hns)
        rw [hrd] at this; cases this
      · cases hs
    · cases hs

/-- a session object comes into being by `sBump` only (repaired `input_session()`) -/
theorem open_back {s s' : State} {e : Ev} (hR : Reachable Cfg.fixed s) (hs : step s e = some s')
    (hnb : ∀ t, e ≠ .sBump t) : HasOpen s' → HasOpen s := by
  rintro ⟨σ, T', hT', hpc'⟩
  have OK := reachable_sessOk hR
  by_cases hne : taskOf e = σ
  · subst hne
    cases e with
    | sBump t0 => exact absurd rfl (hnb t0)
    | cancel t0 =>
      simp only [step] at hs
      (repeat' split at hs) <;> first | (cases hs; done) | skip
      injection hs with hs; subst hs
      rename_i _ T hT hdet
      simp only [taskOf] at hT'
      unfold cancelTask at hT'
      split at hT'
      · rename_i hses
        cases hpc : T.pc <;> simp [hpc, Pc.isSession] at hses <;>
          simp [hpc, endTask, setTask, upd, dropBatch] at hT' <;>
          (try (cases hb : T.batch <;> simp [hb, dropBatch, endTask, upd] at hT')) <;>
          (try subst hT') <;> simp_all
      · cases hfr : T.frames with
        | nil => simp [hfr, endTask, upd] at hT'
        | cons top rest =>
          simp only [hfr] at hT'
          split at hT'
          · rename_i hg
            simp [upd] at hT'
            subst hT'
            simp at hpc'
            rw [hpc'] at hg; simp [Pc.guarded] at hg
          · cases hb : T.batch <;> simp [hb, dropBatch, endTask, upd] at hT'
    | spawn t0 k cl u =>
      simp only [step] at hs
      split at hs
      · injection hs with hs; subst hs
        simp [upd, taskOf] at hT'
        subst hT'
        simp at hpc'
      · cases hs
    | sStart t0 =>
      simp only [step] at hs
      split at hs
      · injection hs with hs; subst hs
        simp [setTask, upd, taskOf] at hT'
        subst hT'
        simp at hpc'
      · cases hs
    | sAcquire t0 =>
      simp only [step] at hs
      (repeat' split at hs) <;> first | (cases hs; done) | skip
      all_goals
        (injection hs with hs; subst hs
         simp [setTask, upd, taskOf] at hT'
         subst hT'
         have hb := (OK _ _ (by assumption)).sBumped
         simp_all [Cfg.fixed])
    | _ =>
      simp only [step] at hs <;> (repeat' split at hs) <;>
      first
      | (cases hs; done)
      | (injection hs with hs; subst hs
         simp [setTask, endTask, upd, taskOf] at hT'
         all_goals
           (try subst hT'
            simp_all
            try (split at hpc' <;> simp_all)
            try (exact ⟨_, _, by assumption, by simp_all⟩)))
  · rw [(step_other hs hne).1] at hT'; exact ⟨σ, T', hT', hpc'⟩

/-! ### the simulation -/

def FaultFree (es : List Ev) : Prop := ∀ e ∈ es, ∀ t, e ≠ .cancel t ∧ e ≠ .panic t

theorem faultFree_append {a b : List Ev} (ha : FaultFree a) (hb : FaultFree b) : FaultFree (a ++ b) := by
  intro e he
  rcases List.mem_append.mp he with h | h
  · exact ha e h
  · exact hb e h

/-- the faulty state `s` and the fault-free state `m`: same store; `m` is between two requests (at most one open
    session); whenever `s` has a session object, `m` has its open session -/
structure SimRel (s m : State) (n : Nat) (o : Option Tid) : Prop where
  st : SimSt n o m
  ver : m.version = s.version
  ep : m.epoch = s.epoch
  op : HasOpen s → o ≠ none

/-- bring the fault-free side to a state without an open session -/
theorem sim_closed {n : Nat} {o : Option Tid} {m : State} (h : SimSt n o m) :
    ∃ es m', FaultFree es ∧ run m es = some m' ∧ SimSt n none m' ∧ m'.version = m.version ∧ m'.epoch = m.epoch ∧ pubLog m es = [] := by
  cases o with
  | none => exact ⟨[], m, (by intro e he; cases he), rfl, h, rfl, rfl, rfl⟩
  | some σ =>
    obtain ⟨m', h1, h2, h3, h4, h5⟩ := sim_close h
    refine ⟨_, m', ?_, h1, h2, h3, h4, h5⟩
    intro e he t
    simp at he
    rcases he with rfl | rfl <;> simp

theorem sim_step {s s' m : State} {n : Nat} {o : Option Tid} {e : Ev} (hR : Reachable Cfg.fixed s) (R : SimRel s m n o)
    (hs : step s e = some s') :
    ∃ es' m' n' o', FaultFree es' ∧ run m es' = some m' ∧ SimRel s' m' n' o' ∧ pubLog m es' = (pubOf s e).toList := by
  have hst := step_store hs
  cases e with
  | submit t =>
    -- a completed publication of node `k`: one complete single-frame request
    have hno := submit_no_open hR hs
    have hno' : ¬ HasOpen s' := fun h => hno (open_back hR hs (by intro t h; cases h) h)
    obtain ⟨es0, m0, hf0, hr0, hs0, hv0, he0, hl0⟩ := sim_closed R.st
    cases hp : pubOf s (.submit t) with
    | none =>
      -- impossible: an enabled `submit` has a frame
      simp only [step] at hs
      cases hT : s.tasks t with
      | none => simp [hT] at hs
      | some T =>
        cases hfr : T.frames with
        | nil => simp [hT, hfr] at hs
        | cons top rest => simp [pubOf, hT, hfr] at hp
    | some p =>
      cases p with
      | node k =>
        obtain ⟨m1, hr1, hs1, hv1, he1, hl1⟩ := sim_pub k hs0
        rw [hp] at hst
        simp only [applyOpt, applyPub, Prod.mk.injEq] at hst
        refine ⟨es0 ++ _, m1, _, none, faultFree_append hf0 ?_, by rw [run_append hr0]; exact hr1, ⟨hs1, ?_, ?_, fun h => absurd h hno'⟩, ?_⟩
        · intro e he t'
          simp at he
          rcases he with rfl | rfl | rfl | rfl | rfl | rfl | rfl <;> simp
        · rw [hv1, hv0, R.ver, hst.1]
        · rw [he1, he0, R.ep, hst.2]
        · rw [pubLog_append hr0, hl0, hl1]; rfl
      | bump => simp [pubOf] at hp; (split at hp <;> (try split at hp) <;> simp at hp)
      | input k => simp [pubOf] at hp; (split at hp <;> (try split at hp) <;> simp at hp)
  | sBump t =>
    obtain ⟨es0, m0, hf0, hr0, hs0, hv0, he0, hl0⟩ := sim_closed R.st
    obtain ⟨m1, hr1, hs1, hv1, he1, hl1⟩ := sim_open hs0
    simp only [pubOf, applyOpt, applyPub, Prod.mk.injEq] at hst
    refine ⟨es0 ++ _, m1, _, some _, faultFree_append hf0 ?_, by rw [run_append hr0]; exact hr1, ⟨hs1, ?_, ?_, fun _ => by simp⟩, ?_⟩
    · intro e he t'
      simp at he
      rcases he with rfl | rfl | rfl <;> simp
    · rw [hv1, hv0, R.ver, hst.1]
    · rw [he1, he0, R.ep, hst.2]
    · rw [pubLog_append hr0, hl0, hl1]; rfl
  | sWrite t k =>
    have hopen : HasOpen s := by
      simp only [step] at hs
      cases hT : s.tasks t with
      | none => simp [hT] at hs
      | some T =>
        simp only [hT] at hs
        split at hs
        · rename_i hc; exact ⟨t, T, hT, hc.1⟩
        · cases hs
    have hopen' : HasOpen s' := by
      obtain ⟨σ, T, hT, hpc⟩ := hopen
      refine ⟨σ, T, ?_, hpc⟩
      simp only [step] at hs
      (repeat' split at hs) <;> first | (cases hs; done) | skip
      injection hs with hs; subst hs; exact hT
    cases o with
    | none => exact absurd rfl (R.op hopen)
    | some σ =>
      obtain ⟨m1, hr1, hs1, hv1, he1, hl1⟩ := sim_write k R.st
      simp only [pubOf, applyOpt, applyPub, Prod.mk.injEq] at hst
      refine ⟨_, m1, n, some σ, ?_, hr1, ⟨hs1, ?_, ?_, fun _ => by simp⟩, ?_⟩
      · intro e he t'; simp at he; subst he; simp
      · rw [hv1, R.ver, hst.1]
      · rw [he1, R.ep, hst.2]
      · rw [hl1]; rfl
  | _ =>
    -- every other event — `cancel`, `panic`, `resume` among them — leaves the store alone
    simp only [pubOf, applyOpt, Prod.mk.injEq] at hst
    exact ⟨[], m, n, o, (by intro e he; cases he), rfl,
      ⟨R.st, by rw [R.ver, hst.1], by rw [R.ep, hst.2], fun h => R.op (open_back hR hs (by intro t h; cases h) h)⟩, rfl⟩

theorem sim_run {es : List Ev} {s0 s m0 : State} {n : Nat} {o : Option Tid} (hR : Reachable Cfg.fixed s0)
    (R : SimRel s0 m0 n o) (hrun : run s0 es = some s) :
    ∃ es' m' n' o', FaultFree es' ∧ run m0 es' = some m' ∧ SimRel s m' n' o' ∧ pubLog m0 es' = pubLog s0 es := by
  induction es generalizing s0 m0 n o with
  | nil =>
    simp [run] at hrun; subst hrun
    exact ⟨[], m0, n, o, (by intro e he; cases he), rfl, R, rfl⟩
  | cons e es ih =>
    simp only [run] at hrun
    cases h1 : step s0 e with
    | none => simp [h1] at hrun
    | some s1 =>
      simp only [h1] at hrun
      obtain ⟨esa, ma, na, oa, hfa, hra, Ra, hla⟩ := sim_step hR R h1
      obtain ⟨esb, mb, nb, ob, hfb, hrb, Rb, hlb⟩ := ih (.step e hR h1) Ra hrun
      refine ⟨esa ++ esb, mb, nb, ob, faultFree_append hfa hfb, by rw [run_append hra]; exact hrb, Rb, ?_⟩
      rw [pubLog_append hra, hla, hlb]
      simp [pubLog, h1]

/-- **erase_faults** (the model side of `cancel_then_sound`): every run of the repaired configuration from `init` —
    with any cancellations and executor panics, any interleaving — that ends without a task is observationally a run
    **without** `cancel` / `panic` made of complete sequential requests: it has the same publication log (one complete
    single-frame query per completed publication, one session per epoch bump, in the same order), ends without a
    task, and ends with the same published store. -/
theorem erase_faults {es : List Ev} {s : State} (hrun : run (init Cfg.fixed) es = some s) (hq : ∀ t, s.tasks t = none) :
    ∃ es' s', FaultFree es' ∧ run (init Cfg.fixed) es' = some s' ∧ (∀ t, s'.tasks t = none) ∧
      pubLog (init Cfg.fixed) es' = pubLog (init Cfg.fixed) es ∧ s'.version = s.version ∧ s'.epoch = s.epoch := by
  have R0 : SimRel (init Cfg.fixed) (init Cfg.fixed) 0 none :=
    ⟨simSt_init, rfl, rfl, by rintro ⟨σ, T, hT, _⟩; simp [init] at hT⟩
  obtain ⟨esa, ma, na, oa, hfa, hra, Ra, hla⟩ := sim_run .init R0 hrun
  obtain ⟨esb, mb, hfb, hrb, hsb, hvb, heb, hlb⟩ := sim_closed Ra.st
  refine ⟨esa ++ esb, mb, faultFree_append hfa hfb, by rw [run_append hra]; exact hrb, hsb.shape.1, ?_, ?_, ?_⟩
  · rw [pubLog_append hra, hla, hlb, List.append_nil]
  · rw [hvb, Ra.ver]
  · rw [heb, Ra.ep]

end QbiceVerif.CancelLts
