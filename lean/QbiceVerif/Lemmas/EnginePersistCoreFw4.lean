/-
Lemmas for C08 on the extended core model `Qbice.CoreFw`, part 3: the store images of a whole
history (one per logical write batch: the batch of every session and every batch published by the
requests of the rounds), and what an engine reopened on any of them does.
-/
import QbiceVerif.Lemmas.EnginePersistCoreFw3
import QbiceVerif.Lemmas.EnginePersistCoreFw
namespace Qbice.CoreFw
open Qbice.Core (Prog Err Write SetRes Sat Op OpOut applyWrites)

/-- images published during a round (keys in order through the local cache, as `roundAux`) -/
def imagesRound (p : Program) (fuel : Nat) : List Key → List (Key × Val) → St → List St
  | [], _, _ => []
  | k :: rest, cache, s =>
    match cache.find? (fun e => e.1 == k) with
    | some _ => imagesRound p fuel rest cache s
    | none =>
      imagesU p fuel k s ++
        (match query p fuel .user k s with
         | .error _ => []
         | .ok (v, s1) => imagesRound p fuel rest (cache ++ [(k, v)]) s1)

/-- the store images of a history, one per logical write batch, in commit order -/
def imagesOps (p : Program) : List Op → St → List St
  | [], _ => []
  | .sess ws :: rest, s =>
    match session p ws { s with log := [] } with
    | .error _ => []
    | .ok (_, s1) => s1 :: imagesOps p rest s1
  | .round ks :: rest, s =>
    imagesRound p (fuelFor p) ks [] { s with log := [] } ++
      (match round p (fuelFor p) ks { s with log := [] } with
       | .error _ => []
       | .ok (_, s1) => imagesOps p rest s1)

/-- the committed inputs after the sessions of a history -/
def inputsAfter : List Op → (Key → Option Val) → (Key → Option Val)
  | [], i => i
  | .sess ws :: rest, i => inputsAfter rest (applyWrites ws i)
  | .round _ :: rest, i => inputsAfter rest i

theorem imagesU_badKey {p : Program} {s : St} (inv : Inv p s) {k : Key} (hk : p.length ≤ k) (fuel : Nat) :
    imagesU p fuel k s = [] := by
  have hp : p[k]? = none := List.getElem?_eq_none hk
  have hn : s.nodes k = none := by
    cases h : s.nodes k with
    | none => rfl
    | some n => obtain ⟨d, hd, _⟩ := inv.kind k n h; rw [hp] at hd; cases hd
  simp [imagesU, imagesTfc, repairTfc, hn, imagesQ_badKey inv hk fuel false]

theorem imagesRound_ok {p : Program} (wf : WF p) (sh : Shape p) {fuel : Nat} (hf : p.length < fuel) :
    ∀ (ks : List Key) (cache : List (Key × Val)) (s : St), Inv p s →
      ∀ t, t ∈ imagesRound p fuel ks cache s → ImgOK p s t := by
  intro ks
  induction ks with
  | nil => intro cache s _ t ht; simp [imagesRound] at ht
  | cons k rest ih =>
    intro cache s inv t ht
    simp only [imagesRound] at ht
    split at ht
    · exact ih cache s inv t ht
    · rw [List.mem_append] at ht
      by_cases hk : k < p.length
      · cases ht with
        | inl ht => exact imagesU_ok wf sh (by komega) inv t ht
        | inr ht =>
          have hq := query_spec wf sh (fuel := fuel) (k := k) (by komega) inv
          cases hr : query p fuel .user k s with
          | error e => rw [hr] at ht; simp at ht
          | ok r =>
            obtain ⟨v, s1⟩ := r
            rw [hr] at ht hq
            obtain ⟨i1, f1, _⟩ := hq
            simp only at i1 f1 ht
            exact (ih (cache ++ [(k, v)]) s1 i1 t ht).trans f1
      · obtain ⟨f, rfl⟩ : ∃ f, fuel = f + 1 := ⟨fuel - 1, by omega⟩
        rw [imagesU_badKey inv (by komega), query_badKey inv (by komega) f] at ht
        simp at ht

/-- every store image of a history satisfies the invariant and shows the inputs of a prefix of it -/
theorem imagesOps_ok {p : Program} (wf : WF p) (sh : Shape p) :
    ∀ (ops : List Op) (s : St), Inv p s → ∀ t, t ∈ imagesOps p ops s →
      Inv p t ∧ ∃ pre, pre <+: ops ∧ inputsOf t = inputsAfter pre (inputsOf s) := by
  intro ops
  induction ops with
  | nil => intro s _ t ht; simp [imagesOps] at ht
  | cons op rest ih =>
    intro s inv t ht
    cases op with
    | sess ws =>
      simp only [imagesOps] at ht
      cases hs : session p ws { s with log := [] } with
      | error e => rw [hs] at ht; simp at ht
      | ok r =>
        obtain ⟨rs, s1⟩ := r
        rw [hs] at ht
        obtain ⟨i1, _, h2, _⟩ := session_spec (inv.setLog []) hs
        have h2 : inputsOf s1 = applyWrites ws (inputsOf s) := h2
        simp only [List.mem_cons] at ht
        cases ht with
        | inl e =>
          subst e
          exact ⟨i1, [.sess ws], by simp, by simp [inputsAfter, h2]⟩
        | inr ht =>
          obtain ⟨a, pre, hp, hi⟩ := ih s1 i1 t ht
          exact ⟨a, .sess ws :: pre, by simpa using hp, by simp [inputsAfter, hi, h2]⟩
    | round ks =>
      simp only [imagesOps, List.mem_append] at ht
      cases ht with
      | inl ht =>
        have h := imagesRound_ok wf sh (fuel := fuelFor p) (by simp [fuelFor]) ks [] _ (inv.setLog []) t ht
        exact ⟨h.inv, [], by simp, by rw [h.frame.inputs]; rfl⟩
      | inr ht =>
        have hrd := round_spec wf sh (inv.setLog []) ks
        cases hr : round p (fuelFor p) ks { s with log := [] } with
        | error e => rw [hr] at ht; simp at ht
        | ok r =>
          obtain ⟨vs, s1⟩ := r
          rw [hr] at ht hrd
          obtain ⟨_, i1, f1⟩ := hrd
          simp only at i1 f1 ht
          obtain ⟨a, pre, hp, hi⟩ := ih s1 i1 t ht
          have : inputsOf s1 = inputsOf s := f1.inputs
          exact ⟨a, .round ks :: pre, by simpa using hp, by simp [inputsAfter, hi, this]⟩

/-- a key that the store image shows verified is served by the reopened engine without running
    anything: the state is untouched and the execution log stays empty -/
theorem recovered_verified_no_exec (p : Program) {t : St} {k : Key} {n : Node}
    (hn : t.nodes k = some n) (hv : n.lastVerified = t.epoch) (fuel : Nat) :
    query p (fuel + 1) .user k (restart t) = .ok (n.value, restart t) := by
  simp [query, queryU, repairTfc, queryQ, restart, hn, hv]

end Qbice.CoreFw
