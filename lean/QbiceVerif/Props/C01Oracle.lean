/-
C01 / C03 as a RUNTIME ORACLE on dumped states of the implementation (state-level tie, second half).

`Qbice.CoreFw.DSt` is a first-order dumped state with exactly the information of the state digest that
the harness prints from the real engine (`Lemmas/EngineCoreFwDump.lean`); `dump p s` is the dumped state
of a model state; `invB p stat D` is the conjunction of the named checks `clauses p stat D` over all keys
(`firstFail` = the first failing (clause, key), what `drv_engine inv` prints).

Proved here: every check holds on the dump of every state that satisfies the invariant `Inv`
(`inv_dump_sound`), hence on the dump of the state after every history of a program of `Shape`
(`core_history_state_oracle_partial`); so `invB p stat D = false` for the dump `D` of a real state means
that NO model state satisfying the invariant has this dump (`inv_dump_refutes`).  The other direction
(`invB = true → Inv`) does not hold and is not claimed: the digest does not determine a model state (see
the list below).

The checks and the clause of `Inv` (or derived fact) each of them is:
  kind, down, tfcDown, nodup, pjKinds, pjStat, pjSeen, pjCause, pjBroken, seenSub, solid, clean — the
  clauses of `Inv` of these names; `trust` — `Inv.clean_trusted` (a clean edge whose callee's recorded
  firewall frontier is settled: the callee is `Solid`); `cur` — `solid_correct` (a node verified in this
  epoch stores the from-scratch value); `trace` — `Inv.trace` (the stored value is the executor's result
  on the recorded dependencies) for nodes without `!`; `back` — backward edges are the inverse of the
  recorded forward edges (in the model they are defined so).

What the digest does NOT determine (and the oracle therefore does not check):
* the observed VALUES of recorded dependencies marked `!` (the code stores a fingerprint): `Inv.trace` for
  nodes with a `!` dependency is not checked.  A digest field with the observed value (the harness can
  invert the fingerprint of the small integers it generates) would make it checkable;
* the firewall-set fingerprint seen of a dependency marked `^` (the code stores only the fingerprint of
  the set): the second half of `Inv.seenSub` (`seen d ⊆ tfc`) is checked only for dependencies without
  `^` (where `seen d` is the callee's set).  No digest field helps short of storing the set in the code;
* `Inv.stamp` (`lastVerified ≤ epoch`): the digest has only the bit `lastVerified = epoch`; the two
  numbers would make it checkable (it is not interesting);
* the static-ness conjunct of `Inv.pjKinds` is a property of the program, not of the state.
* pending flags: the invariant constrains them only through `pjBroken` / `pjCause` / `Solid`; "a pending
  flag is set when a firewall's value changed" is a property of transitions (`Frame.pend`), not of states —
  a lost flag is seen by the oracle only when a projection above still holds the old observation.
Two further checks are EXPECTED BUT NOT PROVED (`extraClauses`, driver argument `extra`, reported as
`FAIL-extra`): `x-tfcExact` (the firewall set of a verified node is exactly the union of its recorded
callees' contributions; the invariant has only `⊇`) and `x-verClean` (a verified node has no dirty recorded
edge except to a firewall / projection verified in this epoch; dirty edges are conservative, the invariant
allows spurious ones).
Every other conjunct of `Inv` is decided exactly by the digest (`!` and `^` are exactly the atoms
`nd.value = o` and `nd.tfc = n.seen d` of `Solid` / `NGood` / `clean` / `pjSeen` / `pjBroken`).
-/
import QbiceVerif.Lemmas.EngineCoreFwDumpSound2
import QbiceVerif.Lemmas.EngineCoreFwEx
namespace Qbice.CoreFw
open Qbice.Core (Prog Err Write SetRes Op OpOut Ref)

/-- the oracle is sound on every state that satisfies the invariant (`WF p` only) -/
theorem core_state_oracle_sound {p : Program} (wf : WF p) {stat : Key → Option (List Key)}
    (hst : StatOK p stat) {s : St} (inv : Inv p s) :
    invB p stat (dump p s) = true ∧ firstFail p stat (dump p s) = none :=
  ⟨inv_dump_sound wf hst inv, (firstFail_eq_none_iff _ _ _).2 (inv_dump_sound wf hst inv)⟩

/-- … hence on the state after every history from the initial state.  PARTIAL: `Shape p`. -/
theorem core_history_state_oracle_partial {p : Program} (wf : WF p) (sh : Shape p)
    {stat : Key → Option (List Key)} (hst : StatOK p stat) {ops : List Op} {outs : List OpOut} {s' : St}
    (h : runOps p ops {} = .ok (outs, s')) : firstFail p stat (dump p s') = none :=
  (core_state_oracle_sound wf hst ((runOps_spec wf sh ops {} (Inv.init p)).ok h).2).2

/-- an alarm refutes the invariant: a dumped state that fails a check is the dump of no state that
    satisfies the invariant -/
theorem core_state_oracle_alarm {p : Program} (wf : WF p) {stat : Key → Option (List Key)}
    (hst : StatOK p stat) {D : DSt} {c : String} {k : Key} (h : firstFail p stat D = some (c, k)) :
    ¬ ∃ s, Inv p s ∧ dump p s = D := by
  apply inv_dump_refutes wf hst
  cases hb : invB p stat D with
  | false => rfl
  | true => rw [(firstFail_eq_none_iff _ _ _).2 hb] at h; cases h

-- ------------------------------------------------------------------ non-vacuity

/-- the read sequences of the diamond `exD`: its projection (key 3) reads the firewall 2 -/
def statD : Key → Option (List Key) := fun k => if k = 3 then some [2] else none

theorem statD_ok : StatOK exD statD := by
  intro g ks h
  by_cases hg : g = 3
  · subst hg
    simp only [statD, if_true, Option.some.injEq] at h
    subst h
    exact ⟨_, rfl, [], rfl, fun _ => rfl⟩
  · simp [statD, hg] at h

/-- `mod D k f`: the dumped state `D` with the record of key `k` changed by `f` (a corrupted dump) -/
def mod (D : DSt) (k : Key) (f : DNode → DNode) : DSt :=
  { D with nodes := D.nodes.set k ((D.node k).map f) }

/-- non-vacuity of the soundness direction: `exDU` (the diamond after the firewall's input changed)
    satisfies the invariant; its dump shows the firewall's stale observation of input 0 (`!`, dirty edge);
    every check passes -/
example : WF exD ∧ StatOK exD statD ∧ Inv exD exDU ∧
    ((dump exD exDU).node 2).map (fun n => n.deps.map (fun e => (e.key, e.valDiff, e.tfcDiff))) =
      some [(0, true, false)] ∧
    ((dump exD exDU).node 2).map (fun n => (n.ver, n.dirty, n.back)) = some (false, [0], [3, 4]) ∧
    firstFail exD statD (dump exD exDU) = none :=
  ⟨exD_wf, statD_ok, exDU_inv, by decide +kernel, by decide +kernel, (core_state_oracle_sound exD_wf statD_ok exDU_inv).2⟩

/-- non-vacuity of the alarm direction: corrupted dumps of `exDU` fail the check that names the defect:
    key 5 claimed verified although its dependencies are not (`solid`); the firewall claimed verified
    with its stale value (`solid`); a backward edge of the firewall lost (`back`); the firewall set of key
    5 emptied (`seenSub`); the projection's stored value not its executor's result (`trace`); and on the
    state after the repair, the firewall verified with a wrong value (`cur`) -/
example :
    firstFail exD statD (mod (dump exD exDU) 5 fun n => { n with ver := true }) = some ("solid", 5) ∧
    firstFail exD statD (mod (dump exD exDU) 2 fun n => { n with ver := true }) = some ("solid", 2) ∧
    firstFail exD statD (mod (dump exD exDU) 2 fun n => { n with back := [3] }) = some ("back", 2) ∧
    firstFail exD statD (mod (dump exD exDU) 5 fun n => { n with tfc := [] }) = some ("seenSub", 5) ∧
    firstFail exD statD (mod (dump exD exDU) 3 fun n => { n with value := 11 }) = some ("trace", 3) ∧
    firstFail exD statD (mod (dump exD (stateAfter exD [.sess [.set 0 1, .set 1 5], .round [5],
      .sess [.set 0 0], .round [4]])) 2 fun n => { n with value := 1 }) = some ("cur", 2) :=
  ⟨by decide +kernel, by decide +kernel, by decide +kernel, by decide +kernel, by decide +kernel,
   by decide +kernel⟩

end Qbice.CoreFw
