/-
Non-vacuity of `acyclic_unaffected` (its hypothesis `NoCycleBelow p k` was only described in a comment of
`Props/C06.lean`, never proved for a program that also HAS a cycle) and well-formedness of the other example
programs (only `exTwo` had a `WFProgram` proof).
(Added by the statement audit; every theorem instantiates a theorem of `Props/C06.lean`.)
-/
import QbiceVerif.Props.C06
namespace Qbice.Cycle.NonVacuity
open Qbice.Cycle

theorem exDesign_wf : WFProgram exDesign := by
  apply wf_of_all
  intro nd hnd
  simp only [exDesign, List.mem_cons, List.not_mem_nil, or_false] at hnd
  rcases hnd with rfl | rfl | rfl
  · exact .ask 1 _ (by decide) (fun _ => .ret _)
  · exact .ask 2 _ (by decide) (fun _ => .ask 0 _ (by decide) (fun _ => .ret _))
  · exact .ask 1 _ (by decide) (fun _ => .ret _)

theorem exMixed_wf : WFProgram exMixed := by
  apply wf_of_all
  intro nd hnd
  simp only [exMixed, List.mem_cons, List.not_mem_nil, or_false] at hnd
  rcases hnd with rfl | rfl | rfl
  · exact .ask 0 _ (by decide) (fun _ => .ret _)
  · exact .ask 2 _ (by decide) (fun _ => .ret _)
  · exact .ret _

theorem exCond_wf : WFProgram exCond := by
  apply wf_of_all
  intro nd hnd
  simp only [exCond, List.mem_cons, List.not_mem_nil, or_false] at hnd
  rcases hnd with rfl | rfl | rfl
  · refine .ask 1 _ (by decide) (fun v => ?_)
    show WFProg _ (if v = -2 then _ else _)
    split
    · exact .ask 2 _ (by decide) (fun _ => .ret _)
    · exact .ret _
  · exact .ask 0 _ (by decide) (fun _ => .ret _)
  · exact .ask 0 _ (by decide) (fun _ => .ret _)

/-- in `exMixed` key 1 can only ask key 2 … -/
theorem exMixed_edge1 {x : Key} (h : SEdge exMixed 1 x) : x = 2 := by
  have h' : MayAsk (.ask 2 fun v => .ret (v + 1)) x := h
  cases h' with
  | here => rfl
  | there _ _ v _ h2 => cases h2

/-- … and key 2 asks nothing -/
theorem exMixed_edge2 {x : Key} (h : SEdge exMixed 2 x) : False := by
  have h' : MayAsk (.ret 5) x := h
  cases h'

theorem exMixed_path2 {x : Key} (h : Path (SEdge exMixed) 2 x) : x = 2 := by
  cases h with
  | refl => rfl
  | head e _ => exact (exMixed_edge2 e).elim

/-- the hypothesis of `acyclic_unaffected` holds for key 1 of a program that has a cycle elsewhere (the
    self-loop of key 0) -/
theorem exMixed_noCycleBelow : NoCycleBelow exMixed 1 := by
  intro x px
  have hx : x = 1 ∨ x = 2 := by
    cases px with
    | refl => exact Or.inl rfl
    | head e p => rw [exMixed_edge1 e] at p; exact Or.inr (exMixed_path2 p)
  rintro ⟨b, e, p⟩
  rcases hx with rfl | rfl
  · rw [exMixed_edge1 e] at p
    exact absurd (exMixed_path2 p) (by decide)
  · exact exMixed_edge2 e

/-- … while key 0 IS on a cycle (so the program is not acyclic) -/
theorem exMixed_cycle0 : OnCycle (SEdge exMixed) 0 :=
  ⟨0, MayAsk.here 0 _, .refl 0⟩

/-- the instance of `acyclic_unaffected`: requested together with the cyclic key 0, key 1 gets the plain
    from-scratch value 6 and nothing below it was defaulted -/
theorem exMixed_acyclic_unaffected :
    ∃ vs st, evalRoots exMixed (fuelFor exMixed) [0, 1] {} = .ok (vs, st) ∧ vs = [-7, 6] ∧
      (∃ v, valOf st.memo 1 = some v ∧ evalSpec exMixed exMixed.length 1 = some v) ∧
      evalSpec exMixed exMixed.length 1 = some 6 := by
  obtain ⟨vs, st, h, _, _⟩ := cycle_terminates exMixed exMixed_wf [0, 1] (by decide) (fuelFor exMixed) (Nat.le_refl _)
  have hv : okVals (evalRoots exMixed (fuelFor exMixed) [0, 1] {}) = some [-7, 6] := by decide
  rw [h] at hv
  simp only [okVals, Option.some.injEq] at hv
  exact ⟨vs, st, h, hv,
    (acyclic_unaffected exMixed exMixed_wf [0, 1] (by decide) _ (Nat.le_refl _) h 1 (by simp) exMixed_noCycleBelow).2,
    by decide⟩

/-- the instance of `cycle_order_independent_roots` on the conditional program, entered through three
    different members -/
theorem exCond_order_independent :
    okVals (evalRoots exCond (fuelFor exCond) [2, 1, 0] {}) = some [29, -2, -1] ∧
    okVals (evalRoots exCond (fuelFor exCond) [0] {}) = some [-1] ∧
    okMarks (evalRoots exCond (fuelFor exCond) [2] {}) = some [(2, false), (0, true), (1, true)] := by
  refine ⟨by decide, by decide, by decide⟩

end Qbice.Cycle.NonVacuity
