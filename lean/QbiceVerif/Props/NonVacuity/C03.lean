/-
Non-vacuity of the C03 theorems of `Qbice.CoreFw` on the five-kind program `exX` of `NonVacuity/C01.lean`
(input, EXTERNAL, firewall over an unordered group, projection, normal).  `Props/C03.lean` has no CoreFw
example with an external key, so `core_external_only_on_demand_or_refresh_partial` had no instance.
(Added by the statement audit; every theorem instantiates a theorem of `Props/C03.lean`.)
-/
import QbiceVerif.Props.C03
import QbiceVerif.Props.NonVacuity.C01
namespace Qbice.CoreFw.NonVacuity
open Qbice.Core (Prog Err Write SetRes Op OpOut Ref)

/-- the state after round 1 and a world change WITHOUT refresh (world cell 1: 4 → 9) -/
def exXW : St := stateAfter exX (exXOps.take 5)
theorem exXW_inv : Inv exX exXW := stateAfter_inv exX_wf exX_shape _

/-- hypotheses of `core_external_only_on_demand_or_refresh_partial` hold in a state in which the external
    key HAS a node that is stale with respect to the world (pinned 4, world 9) and is not verified in the
    current epoch: a query of the key above it executes nothing (in particular not the external executor);
    a session with a refresh executes exactly the external key; a session without one executes nothing -/
theorem exX_external_only_on_refresh :
    (exXW.nodes 1).map (fun n => (n.kind, n.value)) = some (.external, 4) ∧ exXW.world 1 = 9 ∧
    (exXW.nodes 1).map (·.lastVerified) ≠ some exXW.epoch ∧
    (query exX (fuelFor exX) .user 4 { exXW with log := [] }).toOption.map (fun r => (r.1, r.2.log)) = some (4, []) ∧
    (query exX (fuelFor exX) .user 1 { exXW with log := [] }).toOption.map (fun r => (r.1, r.2.log)) = some (4, []) ∧
    (session exX [.refresh] { exXW with log := [] }).toOption.map (·.2.log) = some [1] ∧
    (session exX [.world 1 7, .set 0 5] { exXW with log := [] }).toOption.map (·.2.log) = some [] :=
  ⟨by decide, by decide, by decide, by decide, by decide, by decide, by decide⟩

/-- the instance of the theorem itself (both halves), so that its hypotheses are seen to be met -/
theorem exX_external_instance {v : Val} {s' : St}
    (h : query exX (fuelFor exX) .user 4 exXW = .ok (v, s')) :
    ∃ new, s'.log = exXW.log ++ new ∧
      ∀ x d, x ∈ new → exX[x]? = some d → d.kind = .external → exXW.nodes x = none :=
  (core_external_only_on_demand_or_refresh_partial exX_wf exX_shape exXW_inv).1 (by decide) h

/-- `core_exec_justified_partial` / `core_exec_once_partial` after the refresh: firewall 2 runs because its
    observed dependency 1 changed (4 → 9), projection 3 and key 4 because the firewall changed; each once -/
theorem exX_justified_after_refresh :
    (exXU.nodes 2).map (·.deps) = some [(0, 3), (1, 4)] ∧ cur exX exXU 1 = some 9 ∧
    (exXU.nodes 3).map (·.deps) = some [(2, 0)] ∧ cur exX exXU 2 = some 1 ∧
    (runRounds exX [[4, 3], [2, 4]] { exXU with log := [] }).toOption.map (·.2.log) = some [2, 3, 4] :=
  ⟨by decide, by decide, by decide, by decide, by decide⟩

end Qbice.CoreFw.NonVacuity
