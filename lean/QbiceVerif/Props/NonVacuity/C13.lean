/-
Statement audit of C13.

1.  The "up to a 128-bit collision" disjuncts of the OLD `fingerprint_discriminates`, `fingerprint_discriminates_all`
    and `stream_discriminates` are CLOSED propositions about the hasher (`∃ a b, a ≠ b ∧ hash a = hash b`,
    `SomeCollision absorb finish`): they do not mention the two values.  For any hasher with a bounded range
    they are true by the pigeonhole principle (infinitely many byte strings, at most 2^128 sums), so as
    STATEMENTS these disjunctions carry no information about `v` and `w` (`someCollision_always`,
    `stream_discriminates_first_conjunct_is_free` below; `someCollision_toy` shows it concretely).
    REPAIRED in `Props/C13.lean`: `stream_decodes_located`, `stream_discriminates_located`,
    `fingerprint_discriminates_located`, `fingerprint_discriminates_located_ordered` — the induction of
    `Lemmas/HashNested.lean` redone with the position carried along (`Lemmas/HashLocated.lean`,
    `Lemmas/HashLocatedDec.lean`): the colliding byte strings ARE the two streams of `v` and `w`, the sum collision
    is between two hash-ordered collections at one path inside `v` and `w` (`Val.Located`).  (The two located
    theorems first written here, for the SipHash disjunct only, moved there:
    `fingerprint_discriminates_located_ordered`; `…_all_located` is subsumed by `fingerprint_discriminates_located`.)
    `located_is_not_free` below: unlike `SomeCollision`, `Val.Located` is false for every hasher on every pair of
    values of a type without hash-ordered collections, and on concrete pairs with them (`Props/C13.lean`).
2.  Non-vacuity of `stream_discriminates`' / `stream_decodes_located`'s hypotheses on a type with hash-ordered
    collections NESTED in each other (the examples of `Props/C13.lean` were flat).
-/
import QbiceVerif.Props.C13
import QbiceVerif.Lemmas.HashLocatedFacts
import QbiceVerif.Lemmas.CycleBasic
namespace QbiceVerif.Hash.NonVacuity
open QbiceVerif.Hash

/-- the toy hasher of `Props/C13.lean`'s examples (state = bytes absorbed, finish = their number) -/
def ab : Bytes → Bytes → Bytes := (· ++ ·)
def fin : Bytes → Nat := List.length

/-- `SomeCollision` is a property of the hasher alone: for the toy hasher it holds outright, so for it
    `stream_discriminates` says `r1 = r2` and nothing about the values -/
theorem someCollision_toy : SomeCollision ab fin := by
  refine ⟨[], [[1]], [[2]], ?_, rfl, ?_⟩
  · intro h
    have := h.mem_iff (a := [1])
    simp at this
  · decide

/-- pigeonhole: a function into `[0, B)` takes some value twice -/
theorem exists_collision (f : Nat → Nat) (B : Nat) (hf : ∀ n, f n < B) : ∃ i j, i < j ∧ f i = f j := by
  apply Classical.byContradiction
  intro hne
  have hinj : ∀ i j, i < j → f i ≠ f j := fun i j hij he => hne ⟨i, j, hij, he⟩
  have hnd : ∀ n, ((List.range n).map f).Nodup := by
    intro n
    induction n with
    | zero => simp
    | succ n ih =>
      rw [List.range_succ, List.map_append, List.nodup_append]
      refine ⟨ih, by simp, ?_⟩
      intro a ha b hb
      simp only [List.mem_map, List.mem_range, List.mem_cons, List.not_mem_nil, or_false] at ha hb
      obtain ⟨i, hi, rfl⟩ := ha
      obtain ⟨_, rfl, rfl⟩ := hb
      exact hinj i _ hi
  have h1 := Qbice.Cycle.nodup_bounded_length B _ (hnd (B + 1)) (by
    intro x hx
    simp only [List.mem_map, List.mem_range] at hx
    obtain ⟨i, _, rfl⟩ := hx
    exact hf i)
  simp at h1
  omega

/-- THE DISJUNCT IS ALWAYS TRUE: for EVERY hasher (any state type, any `absorb`, any `finish`) and every state
    there are two different singleton multisets of entry streams whose sub-hash sums agree modulo 2^128.  Hence
    `SomeCollision absorb finish` holds for every hasher, SipHash-128 included, and the first conjunct of
    `stream_discriminates` (and the whole of `fingerprint_discriminates_all`) follows from it without looking
    at the values: as stated, those theorems only establish `r1 = r2`. -/
theorem someCollision_always {σ : Type} (absorb : σ → Bytes → σ) (finish : σ → Nat) (st : σ) :
    SomeCollision absorb finish := by
  obtain ⟨i, j, hij, he⟩ := exists_collision
    (fun n => subHash absorb finish st (List.replicate n (0 : UInt8)) % M128) M128
    (fun n => Nat.mod_lt _ (by decide))
  refine ⟨st, [List.replicate i 0], [List.replicate j 0], ?_, rfl, ?_⟩
  · intro h
    have hm := h.mem_iff (a := List.replicate i (0 : UInt8))
    simp only [List.mem_cons, List.not_mem_nil, or_false, true_iff] at hm
    have := congrArg List.length hm
    simp at this
    omega
  · simpa using he

/-- … so this is a theorem (no hypothesis about the values is used): -/
theorem stream_discriminates_first_conjunct_is_free {σ : Type} (absorb : σ → Bytes → σ) (finish : σ → Nat)
    (st : σ) (t : Ty) (v w : Val) : Val.SameUpTo v t w ∨ SomeCollision absorb finish :=
  Or.inr (someCollision_always absorb finish st)

/-- … whereas the LOCATED event of the repaired statements is not free: for EVERY hasher, state and pair of values
    of a type without hash-ordered collections it is false (so there `stream_discriminates_located` is plain
    injectivity of the stream), and it is false on concrete pairs of nested hash-ordered collections under an
    injective toy hasher and under SipHash-128 (`Props/C13.lean`, `nA_nB_not_located…`). -/
theorem located_is_not_free {σ : Type} (absorb : σ → Bytes → σ) (finish : σ → Nat) (st : σ) (t : Ty) (v w : Val)
    (ho : t.ordered = true) : ¬ Val.Located absorb finish v t w st :=
  not_located_of_ordered absorb finish v t w st ho

/-- hash-ordered collections nested in each other: `Vec<HashSet<Option<HashMap<u8, HashSet<String>>>>>` -/
def tNest : Ty := .seq (.uset (.option (.umap (.int false .w8) (.uset .str))))

def innerA : Val := .list (.cons (.str [97]) (.cons (.str [98, 99]) .nil))
def innerB : Val := .list (.cons (.str [98, 99]) (.cons (.str [97]) .nil))
def mapOf (s1 s2 : Val) : Val :=
  .list (.cons (.tuple (.cons (.int 1) (.cons s1 .nil))) (.cons (.tuple (.cons (.int 2) (.cons s2 .nil))) .nil))
def mapOfRev (s1 s2 : Val) : Val :=
  .list (.cons (.tuple (.cons (.int 2) (.cons s2 .nil))) (.cons (.tuple (.cons (.int 1) (.cons s1 .nil))) .nil))
/-- two construction histories of one value: inner sets, map entries and outer set all in another order -/
def vNest1 : Val := .list (.cons (.list (.cons (.some (mapOf innerA innerB)) (.cons .none .nil))) .nil)
def vNest2 : Val := .list (.cons (.list (.cons .none (.cons (.some (mapOfRev innerB innerA)) .nil))) .nil)

theorem nested_hypotheses : tNest.wf = true ∧ tNest.ordered = false ∧ hasType tNest vNest1 = true ∧
    hasType tNest vNest2 = true ∧ vNest1 ≠ vNest2 := by
  refine ⟨by decide, by decide, by decide, by decide, ?_⟩
  simp [vNest1, vNest2]

/-- … and they do write the same stream (history-freedom three levels deep), here with the toy hasher -/
theorem nested_same_stream : stream ab fin tNest vNest1 [] = stream ab fin tNest vNest2 [] := by decide

/-- … and with the real seeded SipHash-128 -/
theorem nested_same_hash : hash128 7 tNest vNest1 = hash128 7 tNest vNest2 := by decide +kernel

end QbiceVerif.Hash.NonVacuity
