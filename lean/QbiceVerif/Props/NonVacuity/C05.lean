/-
Non-vacuity of C05 theorems whose hypotheses had no concrete instance in `Props/C05.lean`
(`no_stall` / `ReachableR` with tasks left, `half_published_has_live_publisher`, `session_excludes_queries`),
and audited restatements of the two lemmas that `tools/props/c05.py` cites by name but that no theorem of
`Props/C05.lean` depends on (`completing_run_bounded`, `maximal_completing_run_quiescent`), so that
`Audit.lean` checks their axioms.  (Added by the statement audit; no new claim about the engine.)
-/
import QbiceVerif.Props.C05
namespace QbiceVerif.CancelLts.NonVacuity
open QbiceVerif.CancelLts

/-- a run without `call` events respects the static-rank assumption trivially -/
theorem reachableR_of_run_nocall {cfg : Cfg} : ∀ (es : List Ev) {s0 s : State}, ReachableR cfg s0 →
    (∀ e ∈ es, ∀ t c, e ≠ .call t c) → run s0 es = some s → ReachableR cfg s
  | [], s0, s, h0, _, h => by simp only [run, Option.some.injEq] at h; subst h; exact h0
  | e :: es, s0, s, h0, hn, h => by
    simp only [run] at h
    cases hs : step s0 e with
    | none => simp [hs] at h
    | some s1 =>
      simp only [hs] at h
      have hrk : RankedEv s0 e := by
        cases e <;> first | trivial | exact absurd rfl (hn _ List.mem_cons_self _ _)
      exact reachableR_of_run_nocall es (ReachableR.step e h0 hrk hs)
        (fun e' he' => hn e' (List.mem_cons_of_mem _ he')) h

/-- task 0 owns entry 3, task 1 is parked on it; task 0 enters its guarded block, opens its batch, performs the
    first of its writes and is then DROPPED: a detached continuation is left in the middle of the publication -/
def cutMidPublication : List Ev :=
  [.spawn 0 3 false none, .lock 0, .spawn 1 3 false none, .waitC 1, .gEnter 0, .batchNew 0, .write 0, .cancel 0]

theorem cutMidPublication_runs :
    (run (init Cfg.fixed) cutMidPublication).map (fun s =>
      ((s.tasks 0).map (fun T => (T.detached, T.pc)), (s.tasks 1).map (·.pc), s.partialW 3 != 0)) =
      some (some (true, Pc.g1), some Pc.waitC, true) ∧
    (run (init Cfg.fixed) cutMidPublication).map (fun s => ((s.comp 3).map (·.owner), s.outcome 0)) =
      some (some 0, some .cancelled) := by
  constructor <;> decide

/-- the hypotheses of `no_stall` (`ReachableR Cfg.fixed s`) hold in a state with TWO tasks left — a detached
    continuation inside its guarded block and a waiter parked on its entry — reached through a cancellation;
    the hypothesis of `half_published_has_live_publisher` (`partialW k ≠ 0`) holds there too -/
theorem no_stall_instance : ∃ s, run (init Cfg.fixed) cutMidPublication = some s ∧ ReachableR Cfg.fixed s ∧
    s.tasks 0 ≠ none ∧ s.tasks 1 ≠ none ∧ s.partialW 3 ≠ 0 ∧
    (∃ t T top rest, s.tasks t = some T ∧ T.frames = top :: rest ∧ top.key = 3 ∧ T.pc = .g1) ∧
    ∃ (es : List Ev) (s' : State), (∀ e ∈ es, ∀ t, e ≠ .cancel t ∧ e ≠ .panic t) ∧ run s es = some s' ∧
      Quiescent s' ∧ Q s' := by
  cases h : run (init Cfg.fixed) cutMidPublication with
  | none => exact absurd h (by decide)
  | some s =>
    have hR : ReachableR Cfg.fixed s :=
      reachableR_of_run_nocall cutMidPublication ReachableR.init
        (by intro e he t c; simp [cutMidPublication] at he; rcases he with rfl | rfl | rfl | rfl | rfl | rfl | rfl | rfl <;> simp) h
    have hf := cutMidPublication_runs.1
    rw [h] at hf
    simp only [Option.map_some, Option.some.injEq, Prod.mk.injEq] at hf
    obtain ⟨h0, h1, hp⟩ := hf
    have hp' : s.partialW 3 ≠ 0 := by simpa using hp
    refine ⟨s, rfl, hR, ?_, ?_, hp', half_published_has_live_publisher hR.reachable hp', no_stall s hR⟩
    · intro hn; rw [hn] at h0; cases h0
    · intro hn; rw [hn] at h1; cases h1

/-- the completing run that `no_stall` promises, written out for this state: the continuation finishes the
    publication, the waiter is woken, becomes the owner… (here: it finds the key published and returns) -/
theorem no_stall_instance_run :
    (run (init Cfg.fixed) (cutMidPublication ++ [.write 0, .submit 0, .finish 0, .wake 1, .hit 1])).map (fun s =>
      ((s.tasks 0).isNone, (s.tasks 1).isNone, s.partialW 3, s.version 3)) = some (true, true, 0, 1) ∧
    (run (init Cfg.fixed) (cutMidPublication ++ [.write 0, .submit 0, .finish 0, .wake 1, .hit 1])).map (fun s =>
      ((s.comp 3).isNone, s.bst 0, s.outcome 1)) = some (true, .submitted, some .returned) := by
  constructor <;> decide

/-- `session_excludes_queries`: its hypothesis `s.writer = some w` is reachable, and while it holds a user
    query cannot even start (`tracked()` needs the shared phase lock) -/
theorem session_excludes_queries_instance :
    (run (init Cfg.fixed) [.sStart 1, .sAcquire 1, .sBump 1]).map (fun s =>
      (s.writer, (s.tasks 1).map (·.pc.isSession), s.epoch)) = some (some 1, some true, 1) ∧
    (run (init Cfg.fixed) [.sStart 1, .sAcquire 1, .spawn 0 3 false none]).isNone = true := by decide

/-! ### audited restatements of the two lemmas cited in the plugin's PARTIAL list -/

/-- "every run of completing events has at most `variant n s` steps" -/
theorem completing_run_bounded_audited {n : Nat} {es : List Ev} {s s' : State} (hb : Below n s)
    (hall : ∀ e ∈ es, Completing e = true) (hr : run s es = some s') :
    es.length + variant n s' ≤ variant n s ∧ Below n s' :=
  completing_run_bounded hb hall hr

/-- "every maximal run of completing events ends with no task left" -/
theorem maximal_completing_run_quiescent_audited {s s' : State} {es : List Ev} (hr : ReachableR Cfg.fixed s)
    (hall : ∀ e ∈ es, Completing e = true) (hrun : run s es = some s')
    (hmax : ∀ e, Completing e = true → step s' e = none) : Quiescent s' :=
  maximal_completing_run_quiescent hr hall hrun hmax

end QbiceVerif.CancelLts.NonVacuity
