/-
Non-vacuity of `kv_refines_spec` for BOTH backends (the example in `Props/C11.lean` shows `CmdOk` for RocksDB
only and evaluates the specification side only): `CmdOk` for Fjall, the instances of the theorem, and the
evaluated answers of the byte-level MODEL on a history with two set keys, two value types under one
key, an uncommitted batch, a dropped batch and a reopen, in which type id 1 is DUAL-KIND (used as a
key-of-set column and as a wide column; after the reopen the other kind touches it first).
(Added by the statement audit; every theorem instantiates a theorem of `Props/C11.lean`.)
-/
import QbiceVerif.Props.C11
namespace QbiceVerif.Kv.NonVacuity
open QbiceVerif.Kv

/-- keys, value-type discriminants and set elements are booleans encoded in one byte (`encBool`) -/
def nvCmds : List (Cmd Bool Bool Bool) :=
  [ .bnew 1,
    .bop 1 (.put 0 false true [9]),      -- column 0 (wide): key `true`, value type `false`
    .bop 1 (.put 0 true true [8, 8]),    -- same key, OTHER value type
    .bop 1 (.ins 1 true false), .bop 1 (.ins 1 true true), .bop 1 (.ins 1 false true),
    .bop 1 (.put 1 true true [7]),       -- type id 1 ALSO as a wide column (dual-kind)
    .get 0 false true, .scan 1 true,     -- uncommitted: invisible
    .commit 1,
    .get 0 false true, .get 0 true true, .get 0 true false, .scan 1 true, .scan 1 false,
    .bnew 2, .bop 2 (.del 0 false true), .bop 2 (.rem 1 true false), .drop 2,   -- dropped: no effect
    .reopen, .get 1 true true,           -- new session: the wide kind touches type id 1 first
    .get 0 false true, .scan 1 true ]

theorem nvCmds_ok_rocks : ∀ c ∈ nvCmds, CmdOk rocks exEnc c := by
  intro c hc
  simp only [nvCmds, List.mem_cons, List.mem_nil_iff, or_false] at hc
  rcases hc with rfl | rfl | rfl | rfl | rfl | rfl | rfl | rfl | rfl | rfl | rfl | rfl | rfl | rfl | rfl | rfl | rfl | rfl | rfl | rfl | rfl | rfl | rfl <;>
    simp [CmdOk, OpOk, opFits, keyOver, rocks]

theorem nvCmds_ok_fjall : ∀ c ∈ nvCmds, CmdOk fjall exEnc c := by
  intro c hc
  simp only [nvCmds, List.mem_cons, List.mem_nil_iff, or_false] at hc
  rcases hc with rfl | rfl | rfl | rfl | rfl | rfl | rfl | rfl | rfl | rfl | rfl | rfl | rfl | rfl | rfl | rfl | rfl | rfl | rfl | rfl | rfl | rfl | rfl <;>
    simp [CmdOk, OpOk, opFits, keyOver, fjall] <;> decide

/-- the instances of `kv_refines_spec` -/
theorem nv_refines_rocks : AllMatch exEnc nvCmds (mrun rocks exEnc {} nvCmds) (srun Spec.init nvCmds) :=
  kv_refines_spec rocks (Or.inl rfl) exEnc exSerOk nvCmds nvCmds_ok_rocks

theorem nv_refines_fjall : AllMatch exEnc nvCmds (mrun fjall exEnc {} nvCmds) (srun Spec.init nvCmds) :=
  kv_refines_spec fjall (Or.inr rfl) exEnc exSerOk nvCmds nvCmds_ok_fjall

/-- what a client sees of a model observation: point reads and scans (`none` for the other commands) -/
def see : MObs → Option (Option Bytes) × Option (List (Option Bytes))
  | .val (some v) => (some v, none)
  | .members (some l) => (none, some l)
  | _ => (none, none)

def expected : List (Option (Option Bytes) × Option (List (Option Bytes))) :=
  [ (none, none), (none, none), (none, none), (none, none), (none, none), (none, none), (none, none),
    (some none, none), (none, some []),
    (none, none),
    (some (some [9]), none), (some (some [8, 8]), none), (some none, none),
    (none, some [some [0], some [1]]), (none, some [some [1]]),
    (none, none), (none, none), (none, none), (none, none),
    (none, none), (some (some [7]), none), (some (some [9]), none), (none, some [some [0], some [1]]) ]

/-- the byte-level model of BOTH backends answers: invisible before the commit; after it each value type its
    own value, the other key nothing, each set key exactly its members; the dropped batch changes nothing; the
    content survives the reopen -/
theorem nv_model_answers :
    (mrun rocks exEnc {} nvCmds).map see = expected ∧ (mrun fjall exEnc {} nvCmds).map see = expected := by
  constructor <;> decide

end QbiceVerif.Kv.NonVacuity
