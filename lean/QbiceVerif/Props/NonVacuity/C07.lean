/-
Non-vacuity of the hypotheses of `store_is_image` / `reload_is_restart` (`syncedB`) and of
`restart_loses_only_dirtied` (`Quiescent`) on the FULL sequential model after a real history: the only
instance in `Props/C07.lean` is the initial state (`Quiescent {}`, `syncedB PS.init`), where everything is
empty.  Here: the state after three sessions and three rounds of the F20 witness program (a firewall, a
conditional read), 16 write batches published, a non-empty per-epoch `dirtied` set — the one thing a restart
loses.  (Added by the statement audit; every theorem instantiates a theorem of `Props/C07.lean`.)

NOTE for the reader of the audit: `Qbice.Core.restart_transparent` / `Qbice.CoreFw.restart_transparent_fw` are
NOT given an additional instance here: in those two models `restart s = { s with log := [] }` (everything else
is assumed stored), so their statements hold for the trivial reason that every operation resets the log
anyway; see /verif/work/stmt_audit.md.
-/
import QbiceVerif.Props.C07
namespace Qbice.Persist.NonVacuity
open Qbice.Persist Qbice.Engine

/-- the state (engine state + published images) a history leads to -/
def psAfter (t : Toggles) (p : Program) : List HOp → PS → Option PS
  | [], ps => some ps
  | .restart :: r, ps => psAfter t p r (restartP ps)
  | .sess ws :: r, ps => match runP (sessionP p ws) ps with
    | .ok (_, ps') => psAfter t p r ps'
    | .error _ => none
  | .round ks :: r, ps => match runP (roundP t p ks) ps with
    | .ok (_, ps') => psAfter t p r ps'
    | .error _ => none

theorem nv_after_history :
    (psAfter {} witnessProgram witnessBefore PS.init).map (fun ps =>
      (syncedB ps, decide (Quiescent ps.st), ps.st.dirtied.length, ps.trace.length, ps.st.epoch)) =
      some (true, true, 6, 16, 3) := by decide +kernel

/-- the instances: the fold of the 16 batches is the persistent image of the state, a new engine opened on it
    is `restart` of the state, and that differs from the state exactly in the (non-empty) `dirtied` set -/
theorem nv_store_is_image : ∃ ps, psAfter {} witnessProgram witnessBefore PS.init = some ps ∧
    storeFrom {} (batches {} ps.trace) = persistent ps.st ∧
    load ps.st.world (storeFrom {} (batches {} ps.trace)) =
      { restart ps.st with log := [], choicePoints := 0, tapePos := 0 } ∧
    restart ps.st = { ps.st with dirtied := [], dirtiedEdges := 0 } ∧ ps.st.dirtied ≠ [] ∧
    (batches {} ps.trace).length = 16 := by
  cases h : psAfter {} witnessProgram witnessBefore PS.init with
  | none => exact absurd h (by decide +kernel)
  | some ps =>
    have hf := nv_after_history
    rw [h] at hf
    simp only [Option.map_some, Option.some.injEq, Prod.mk.injEq, decide_eq_true_eq] at hf
    obtain ⟨hs, hq, hd, ht, _⟩ := hf
    refine ⟨ps, rfl, store_is_image ps hs, reload_is_restart ps hs, restart_loses_only_dirtied hq, ?_, ?_⟩
    · intro hn; rw [hn] at hd; cases hd
    · rw [batches_length, ht]

end Qbice.Persist.NonVacuity
