/-
Non-vacuity of the C12 theorems for the decoder AS IT IS (`decode true`, `ItemOk true`): the examples in
`Props/C12.lean` instantiate the historical decoder (`decode false`, `ItemOk false`) only.
(Added by the statement audit; every theorem instantiates a theorem of `Props/C12.lean`.)
-/
import QbiceVerif.Props.C12
namespace QbiceVerif.Codec.C12.NonVacuity
open QbiceVerif.Codec QbiceVerif.Codec.C12

/-- `Vec<(Option<BitVec<usize>>, Result<i32, String>, [u16; 2], Bound<u64>)>`-shaped, with a WIDE BitVec (the
    case the old decoder got wrong) nested three levels deep, plus a skipped field -/
def nvTy : Ty :=
  .seq (.tuple (.cons (.option (.bitvec .wsize false)) (.cons (.result (.sint .w32) .str)
    (.cons (.array 2 (.uint .w16)) (.cons (.bound (.uint .w64)) (.cons (.skip (.nat 7)) .nil))))))

def nvVal : Val :=
  .list (.cons (.list (.cons (.tagged 1 (.bits 9 [256])) (.cons (.tagged 0 (.bytes [0x68, 0x69]))
      (.cons (.list (.cons (.nat 65535) (.cons (.nat 128) .nil))) (.cons (.tagged 2 (.nat (2 ^ 64 - 1))) (.cons (.nat 99) .nil))))))
    (.cons (.list (.cons (.tagged 0 .unit) (.cons (.tagged 1 (.int (-2147483648)))
      (.cons (.list (.cons (.nat 0) (.cons (.nat 127) .nil))) (.cons (.tagged 0 .unit) (.cons (.nat 1) .nil)))))) .nil))

theorem nv_hypotheses : wt nvTy nvVal = true ∧ nvTy.noWideBitvec = false ∧ nvTy.noSkip = false ∧
    normalize nvTy nvVal ≠ nvVal := by decide

/-- `decode_encode` (the code as it is) on it, with trailing bytes: evaluated, not only instantiated -/
theorem nv_decode_encode :
    decode true nvTy (encode nvTy nvVal ++ [0xFF, 0x00]) = .ok (normalize nvTy nvVal, [0xFF, 0x00]) := by decide

/-- … the historical decoder really differs on this value (so the example is inside F7's trigger) -/
theorem nv_old_decoder_differs :
    decode false nvTy (encode nvTy nvVal ++ [0xFF, 0x00]) ≠ .ok (normalize nvTy nvVal, [0xFF, 0x00]) := by decide

/-- `back_to_back` with three values of three types -/
theorem nv_back_to_back :
    decodeAll true [nvTy, .bitvec .w32 true, .str]
      (encodeAll [(nvTy, nvVal), (.bitvec .w32 true, .bits 33 [0xFFFFFFFF, 1]), (.str, .bytes [0xC3, 0xA9])] ++ [9]) =
      .ok ([normalize nvTy nvVal, .bits 33 [0xFFFFFFFF, 1], .bytes [0xC3, 0xA9]], [9]) := by decide

/-- `interned_roundtrip` for the decoder as it is (`fix = true`): hypotheses satisfiable with a payload type
    that contains a wide BitVec, an injective toy hash, repeated handles of two type ids … -/
def nvItems : List Item :=
  [.handle 0 (.bitvec .wsize false) (.bits 9 [256]), .plain (.uint .w8) (.nat 5),
   .handle 1 (.uint .w64) (.nat 256), .handle 0 (.bitvec .wsize false) (.bits 9 [256]),
   .handle 0 (.bitvec .wsize false) (.bits 9 [1]), .handle 1 (.uint .w64) (.nat 256)]

def nvHash : Nat → Val → Nat
  | _, .bits _ (w :: _) => w
  | _, .nat n => n
  | _, _ => 0

def nvS (tid : Nat) (v : Val) : Prop :=
  (tid = 0 ∧ (v = .bits 9 [256] ∨ v = .bits 9 [1])) ∨ (tid = 1 ∧ v = .nat 256)

theorem nv_interned_hypotheses :
    (∀ tid v₁ v₂, nvS tid v₁ → nvS tid v₂ → nvHash tid v₁ = nvHash tid v₂ → v₁ = v₂) ∧
    (∀ tid v, nvS tid v → nvHash tid v < 2 ^ 128) ∧
    (∀ it ∈ nvItems, ItemOk true nvS it) ∧ Interner.Consistent nvHash nvS [] := by
  refine ⟨?_, ?_, ?_, ?_⟩
  · intro tid v₁ v₂ h₁ h₂ he
    rcases h₁ with ⟨rfl, rfl | rfl⟩ | ⟨rfl, rfl⟩ <;> rcases h₂ with ⟨h, rfl | rfl⟩ | ⟨h, rfl⟩ <;>
      first | rfl | (exfalso; revert he h; decide) | (exfalso; revert he; decide)
  · intro tid v h
    rcases h with ⟨rfl, rfl | rfl⟩ | ⟨rfl, rfl⟩ <;> decide
  · intro it hit
    simp only [nvItems, List.mem_cons, List.not_mem_nil, or_false] at hit
    rcases hit with rfl | rfl | rfl | rfl | rfl | rfl <;>
      simp [ItemOk, nvS, wt, uintOk, IntW.bits, Ty.noSkip] <;> decide
  · intro k s v h; simp [Interner.find] at h

/-- … and the run: six items, three allocations; both type-0 handles of the equal value share slot 0, the
    type-1 handle with the SAME hash 256 gets its own slot, the other type-0 value another one -/
theorem nv_interned_run :
    (decodeItems true nvHash (nvItems.map Item.ty) (encodeItems nvHash nvItems [] ++ [7]) []).toOption.map
      (fun r => (r.1.map (fun d => match d with | .handle s _ => s | .plain _ => 99), r.2.1, r.2.2.length)) =
      some ([0, 99, 1, 0, 2, 1], [7], 3) := by decide

end QbiceVerif.Codec.C12.NonVacuity
