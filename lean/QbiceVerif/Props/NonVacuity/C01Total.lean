/-
Second pass of the statement audit: non-vacuity of the theorems added to C01 after the first pass
(`core_history_total_partial`, `core_query_total_partial`, `core_all_reads_sound_partial`,
`core_history_all_reads_sound_partial`, `Props/C01Oracle.lean`) on the five-kind program `exX` of
`NonVacuity/C01.lean` — a history WITH an external key, a world write, a refresh and an unchanged write (the
instances in `Props/C01.lean` / `C01Oracle.lean` are on `exD`: no external key, no refresh).
Every theorem instantiates a theorem of `Props/C01.lean` / `Props/C01Oracle.lean`.
-/
import QbiceVerif.Props.C01
import QbiceVerif.Props.C01Oracle
import QbiceVerif.Props.NonVacuity.C01
namespace Qbice.CoreFw.NonVacuity
open Qbice.Core (Prog Err Write SetRes Op OpOut Ref)

/-- `HistOK`: world writes and refreshes are allowed in sessions; only `set` is restricted to input keys -/
theorem exX_histOK : HistOK exX exXOps := by
  refine ⟨⟨?_, ?_, ⟨?_, ?_, ⟨?_, ?_, ⟨?_, ?_, ⟨?_, ?_, trivial⟩⟩⟩⟩⟩, _, _, rfl, ?_⟩
  · intro k v hm; simp at hm; obtain ⟨rfl, _⟩ := hm; exact ⟨_, rfl, rfl⟩
  · intro k hk; simp at hk; subst hk; decide
  · intro k v hm; simp at hm; obtain ⟨rfl, _⟩ := hm; exact ⟨_, rfl, rfl⟩
  · intro k hk; simp at hk; rcases hk with rfl | rfl <;> decide
  · intro k v hm; simp at hm
  · intro k hk; simp at hk; subst hk; decide
  · intro k v hm; simp at hm
  · intro k hk; simp at hk; rcases hk with rfl | rfl <;> decide
  · intro k v hm; simp at hm; obtain ⟨rfl, _⟩ := hm; exact ⟨_, rfl, rfl⟩
  · intro k hk; simp at hk; rcases hk with rfl | rfl <;> decide
  · intro k d hp hk
    match k, hp with
    | 0, _ => exact ⟨3, by simp⟩
    | 1, hp | 2, hp | 3, hp | 4, hp => simp [exX] at hp; subst hp; simp at hk
    | n + 5, hp => simp [exX] at hp

/-- the instance of `core_history_total_partial`: the run IS `.ok` (derived from the theorem, not evaluated) -/
theorem exX_total : ∃ outs s', runOps exX exXOps {} = .ok (outs, s') ∧ OutOK exX exXOps outs Ref.init ∧ Inv exX s' :=
  core_history_total_partial exX_wf exX_shape exX_histOK

/-- `InputsSet` in the state after the refresh, and the instance of `core_query_total_partial` -/
theorem exXU_inputsSet : InputsSet exX exXU := by
  intro k d hp hk
  match k, hp with
  | 0, _ => decide
  | 1, hp | 2, hp | 3, hp | 4, hp => simp [exX] at hp; subst hp; simp at hk
  | n + 5, hp => simp [exX] at hp

theorem exX_query_total : ∃ v s', query exX (fuelFor exX) .user 4 exXU = .ok (v, s') ∧ cur exX exXU 4 = some v :=
  let ⟨v, s', h, c, _⟩ := core_query_total_partial exX_wf exX_shape exXU_inv exXU_inputsSet (by decide) (by decide)
  ⟨v, s', h, c⟩

/-- run-level reads after the refresh: the firewall reads the unordered group {input 0, EXTERNAL 1} (3 and the
    refreshed 9), the projection reads the firewall, key 4 reads the projection and the external key -/
theorem exX_reads : readsU exX (fuelFor exX) 4 { exXU with log := [] } =
    [(0, 3), (1, 9), (2, 1), (3, 10), (1, 9)] := by decide +kernel

theorem exX_all_reads : AllReadsOK exX exXOps {} := core_history_all_reads_sound_partial exX_wf exX_shape exXOps

/-- the invariant oracle on the dump of that state: `StatOK` for the read sequence of the projection; every check
    passes; corrupted dumps fail the check that names the defect — the EXTERNAL key claimed to hold 4 although the
    firewall above it is not verified is fine (externals are pinned), but a verified firewall with a wrong value is not -/
def statX : Key → Option (List Key) := fun k => if k = 3 then some [2] else none

theorem statX_ok : StatOK exX statX := by
  intro g ks h
  by_cases hg : g = 3
  · subst hg
    simp only [statX, if_true, Option.some.injEq] at h
    subst h
    exact ⟨_, rfl, [], rfl, fun _ => rfl⟩
  · simp [statX, hg] at h

theorem exX_oracle_passes : firstFail exX statX (dump exX exXU) = none :=
  (core_state_oracle_sound exX_wf statX_ok exXU_inv).2

/-- the state after the round that follows the refresh (everything verified), corrupted in three ways -/
def exXV : St := stateAfter exX (exXOps.take 8)

theorem exX_oracle_alarms :
    firstFail exX statX (dump exX exXV) = none ∧
    firstFail exX statX (mod (dump exX exXV) 2 fun n => { n with value := 0 }) = some ("cur", 2) ∧
    firstFail exX statX (mod (dump exX exXV) 4 fun n => { n with tfc := [] }) = some ("seenSub", 4) ∧
    firstFail exX statX (mod (dump exX exXV) 1 fun n => { n with back := [2] }) = some ("back", 1) := by
  refine ⟨?_, by decide +kernel, by decide +kernel, by decide +kernel⟩
  exact (core_state_oracle_sound exX_wf statX_ok (stateAfter_inv exX_wf exX_shape _)).2

end Qbice.CoreFw.NonVacuity
