/-
Non-vacuity of the C04 theorems on a run with a DROPPED session (commit spawned by `InputSession::drop`), a
write repeated inside the session, a reader queued while the detached commit still holds the exclusive lock,
and a later committed session that changes the input back.  `Props/C04.lean` has one instance (a committed
session); `snapshot_stable` and the `rLocked` case of `session_atomic` had none.
(Added by the statement audit; every theorem instantiates a theorem of `Props/C04.lean`.)
-/
import QbiceVerif.Props.C04
namespace QbiceVerif.Phase.NonVacuity
open QbiceVerif.Phase

/-- the order of the code as it is (lock first), FIFO lock, key 1 = input 0 + 100 -/
def cfgR : Cfg := { wCfg with lockFirst := true }

/-- task 0: two reader rounds; task 1: a session `0 := 7; 0 := 7` that is DROPPED, then a session `0 := 5`
    (back to the initial value) that is committed; task 2: a reader round of the input and the derived key -/
def nvInit : State :=
  init 1 (fun _ => 5)
    [[.round [(false, 1)], .round [(false, 1)]],
     [.session [(0, 7), (0, 7)] .drop, .session [(0, 5)] .commit],
     [.round [(true, 0), (false, 1)]]]

/-- reader 0 computes key 1 = 105 in epoch 1; writer 1 opens its session, writes twice and DROPS it; reader 2
    asks for the shared lock while the detached commit still holds the exclusive one; the commit propagates,
    submits, releases; reader 2 is granted, takes the lock (`rLocked`) -/
def nvSched1 : List Ev :=
  [.rReq 0, .grant 0, .rAcq 0, .rSample 0 1, .rQuery 0 1 105, .rRel 0,
   .wStep 1 .req 0, .grant 1, .wStep 1 .acq 0, .wStep 1 .batch 0, .wStep 1 .bump 2, .wStep 1 .stage 2,
   .wSet 1 0 7, .wSet 1 0 7, .wDrop 1,
   .rReq 2, .cPropagate 1, .cSubmit 1, .cRel 1, .grant 2, .rAcq 2]

/-- … samples epoch 2 (`rActive 2 …`) -/
def nvSched2 : List Ev := nvSched1 ++ [.rSample 2 2]

theorem nv_run1 :
    (run cfgR nvInit nvSched1).map (fun s =>
      (match (s.tasks 2).pc with | .rLocked ks => some ks | _ => none, s.sess.isNone, s.lock.writer)) =
      some (some [(true, 0), (false, 1)], true, none) ∧
    (run cfgR nvInit nvSched1).map (fun s => (s.done, s.inputs 0, s.epoch)) =
      some ([(2, [(0, 7), (0, 7)])], 7, 2) := by
  constructor <;> decide

theorem nv_run2 :
    ((run cfgR nvInit nvSched2).map fun s => match (s.tasks 2).pc with | .rActive e ks => some (e, ks) | _ => none) =
      some (some (2, [(true, 0), (false, 1)])) ∧
    (run cfgR nvInit nvSched2).map (fun s =>
      ((step cfgR s (.rQuery 2 0 7)).isSome, (step cfgR s (.rQuery 2 0 5)).isSome)) = some (true, false) := by
  constructor <;> decide

/-- the reader cannot slip in while the dropped session's detached commit is still running -/
theorem nv_reader_kept_out :
    (run cfgR nvInit (nvSched1.take 16 ++ [.grant 2])).isNone = true ∧
    (run cfgR nvInit (nvSched1.take 17 ++ [.grant 2])).isNone = true := by decide

/-- `session_atomic` (case `rLocked`) and `phase_exclusive` have an instance after a DROPPED session -/
theorem nv_session_atomic : ∃ s, Reachable cfgR nvInit s ∧ (∃ ks, (s.tasks 2).pc = .rLocked ks) ∧ s.done ≠ [] ∧
    s.sess.isNone = true ∧ s.lock.writer = none ∧
    s.inputs = s.done.foldl (fun i σ => applyWrites i σ.2) s.base := by
  cases h : run cfgR nvInit nvSched1 with
  | none => exact absurd h (by decide)
  | some s =>
    have hr : Reachable cfgR nvInit s := reachable_of_run h
    have hf := nv_run1
    rw [h] at hf
    simp only [Option.map_some, Option.some.injEq, Prod.mk.injEq] at hf
    obtain ⟨⟨hpc, _, _⟩, hd, _, _⟩ := hf
    have hl : ∃ ks, (s.tasks 2).pc = .rLocked ks := by
      cases hp : (s.tasks 2).pc <;> rw [hp] at hpc <;> simp at hpc
      exact ⟨_, rfl⟩
    obtain ⟨a, b, c⟩ := session_atomic (c := cfgR) (e0 := 1) (inp := fun _ => 5) rfl hr (t := 2) (Or.inr hl)
    exact ⟨s, hr, hl, by rw [hd]; simp, a, b, c⟩

/-- `snapshot_consistent` + `snapshot_stable` across a query step of a live tracked engine -/
theorem nv_snapshot : ∃ s s', Reachable cfgR nvInit s ∧ (s.tasks 2).pc = .rActive 2 [(true, 0), (false, 1)] ∧
    step cfgR s (.rQuery 2 0 7) = some s' ∧ (s'.tasks 2).pc = .rActive 2 [(false, 1)] ∧
    7 = specValue cfgR s 2 true 0 ∧
    s'.done = s.done ∧ s'.base = s.base ∧ s'.inputs = s.inputs ∧ s'.epoch = s.epoch := by
  cases h : run cfgR nvInit nvSched2 with
  | none => exact absurd h (by decide)
  | some s =>
    have hr : Reachable cfgR nvInit s := reachable_of_run h
    have hf := nv_run2
    rw [h] at hf
    simp only [Option.map_some, Option.some.injEq, Prod.mk.injEq] at hf
    obtain ⟨hpc, hq, _⟩ := hf
    have hpc' : (s.tasks 2).pc = .rActive 2 [(true, 0), (false, 1)] := by
      cases hp : (s.tasks 2).pc <;> rw [hp] at hpc <;> simp at hpc
      obtain ⟨rfl, rfl⟩ := hpc; rfl
    cases hs : step cfgR s (.rQuery 2 0 7) with
    | none => rw [hs] at hq; cases hq
    | some s' =>
      have hsc := (snapshot_consistent (c := cfgR) (e0 := 1) (inp := fun _ => 5) rfl (progExec_local wProg) hr).1
        2 2 _ hpc'
      obtain ⟨isIn, ks', hks, hv⟩ := hsc.2.2.2.2 0 7 s' hs
      have hks' : isIn = true ∧ ks' = [(false, 1)] := by
        simp only [List.cons.injEq, Prod.mk.injEq] at hks
        exact ⟨hks.1.1.symm, hks.2.symm⟩
      have hpc2 : (s'.tasks 2).pc = .rActive 2 [(false, 1)] := by
        simp only [step, hpc'] at hs
        simp at hs
        obtain ⟨_, rfl⟩ := hs
        simp [State.setTask]
      have hst := snapshot_stable (c := cfgR) (e0 := 1) (inp := fun _ => 5) rfl hr hs hpc' hpc2
      exact ⟨s, s', hr, hpc', hs, hpc2, by rw [hv, hks'.1], hst⟩

/-- the whole history runs to the end (`phase_progress`: a maximal run, all tasks returned, no session open),
    the second session changes the input BACK to its initial value, and the last reader sees 105 again -/
def nvSched3 : List Ev :=
  nvSched2 ++ [.rQuery 2 0 7, .rQuery 2 1 107, .rRel 2,
    .wStep 1 .req 0, .grant 1, .wStep 1 .acq 0, .wStep 1 .batch 0, .wStep 1 .bump 3, .wStep 1 .stage 3,
    .wSet 1 0 5, .wCommit 1, .cPropagate 1, .cSubmit 1, .cRel 1, .wDone 1,
    .rReq 0, .grant 0, .rAcq 0, .rSample 0 3, .rQuery 0 1 105, .rRel 0]

theorem nv_complete :
    (run cfgR nvInit nvSched3).map (fun s => (List.range 3).all (fun t => (s.tasks t).finished) && s.sess.isNone) =
      some true ∧
    (run cfgR nvInit nvSched3).map (fun s => (s.done, s.inputs 0, s.epoch)) =
      some ([(2, [(0, 7), (0, 7)]), (3, [(0, 5)])], 5, 3) := by
  constructor <;> decide

end QbiceVerif.Phase.NonVacuity
