/-
Second pass of the statement audit: the instance of `core_exec_justified_total_partial` (added to `Props/C03.lean`
after the first pass; its example only shows that the hypotheses hold on `exD`) on the five-kind program `exX`
after a REFRESH changed the external key: the request IS `.ok`, and its three executions are distinct and justified.
-/
import QbiceVerif.Props.C03
import QbiceVerif.Props.NonVacuity.C01Total
namespace Qbice.CoreFw.NonVacuity
open Qbice.Core (Prog Err Write SetRes Op OpOut Ref)

theorem exX_exec_justified_total :
    ∃ v s' new, query exX (fuelFor exX) .user 4 exXU = .ok (v, s') ∧ s'.log = exXU.log ++ new ∧ new.Nodup ∧
      ∀ x, x ∈ new → exXU.nodes x = none ∨
        ∃ n d o, exXU.nodes x = some n ∧ (d, o) ∈ n.deps ∧ cur exX exXU d ≠ some o :=
  core_exec_justified_total_partial exX_wf exX_shape exXU_inv exXU_inputsSet (by decide) (by decide)

/-- … and what `new` is here -/
theorem exX_exec_justified_total_log :
    (query exX (fuelFor exX) .user 4 { exXU with log := [] }).toOption.map (·.2.log) = some [2, 3, 4] := by decide

end Qbice.CoreFw.NonVacuity
