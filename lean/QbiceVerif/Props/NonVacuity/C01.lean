/-
Non-vacuity of the C01 theorems of `Qbice.CoreFw` on ONE program that has all five query kinds at once
(input, EXTERNAL, FIREWALL over an UNORDERED read group, PROJECTION, normal) and on a history of five
sessions (set, a write that does not change a value, a world change without refresh, a refresh, a set
that the firewall absorbs).  The examples in `Props/C01.lean` have firewalls and projections but no
external key and no unordered group below a firewall.  (Added by the statement audit; nothing here is
a new claim about the engine: every theorem instantiates a theorem of `Props/C01.lean`.)
-/
import QbiceVerif.Props.C01
namespace Qbice.CoreFw.NonVacuity
open Qbice.Core (Prog Err Write SetRes Op OpOut Ref)

/-- 0: input; 1: EXTERNAL (world cell 1); 2: FIREWALL over the unordered group {0, 1}: `1` if the sum is
    at least 10, else `0`; 3: PROJECTION `10 * firewall`; 4: normal `projection + external` -/
def exX : Program :=
  [ { kind := .input, prog := .ret 0 },
    { kind := .external, prog := .ret 0, ext := fun w => w 1 },
    { kind := .firewall, prog := .askAll [0, 1] fun vs => .ret (if 10 ≤ vs.foldl (· + ·) 0 then 1 else 0) },
    { kind := .projection, prog := .ask 2 fun f => .ret (f * 10) },
    { kind := .normal, prog := .ask 3 fun a => .ask 1 fun b => .ret (a + b) } ]

theorem exX_wf : WF exX := by
  intro k d h hi he
  match k, h with
  | 0, h => simp [exX] at h; subst h; simp at hi
  | 1, h => simp [exX] at h; subst h; simp at he
  | 2, h =>
    simp [exX] at h; subst h
    refine ⟨⟨fun d hd => ?_, fun _ => trivial⟩, fun h => by cases h⟩
    simp at hd; rcases hd with rfl | rfl <;> decide
  | 3, h =>
    simp [exX] at h; subst h
    exact ⟨⟨by decide, fun _ => trivial⟩, fun _ => ⟨Or.inl (by decide), fun _ => trivial⟩⟩
  | 4, h =>
    simp [exX] at h; subst h
    exact ⟨⟨by decide, fun _ => ⟨by decide, fun _ => trivial⟩⟩, fun h => by cases h⟩
  | n + 5, h => simp [exX] at h

theorem exX_classA : NoProjOverProj exX := by
  intro k d h hk
  match k, h with
  | 0, h | 1, h | 2, h | 4, h => simp [exX] at h; subst h; simp at hk
  | 3, h => simp [exX] at h; subst h; exact ⟨by decide, fun _ => trivial⟩
  | n + 5, h => simp [exX] at h

theorem exX_shape : Shape exX := exX_classA.shape

/-- five sessions: (1) world cell 1 := 4, input 0 := 3: firewall 0, projection 0, key 4 = 0 + 4;
    (2) input 0 := 3 again — `Unchanged`, nothing runs; (3) world cell 1 := 9 WITHOUT refresh — the
    pinned external value stays 4, nothing runs; (4) refresh — the external executor runs in the session,
    the firewall changes to 1 (3 + 9 ≥ 10), the projection is re-run by backward projection, key 4 =
    10 + 9; (5) input 0 := 2 — the firewall re-runs and ABSORBS the change (2 + 9 ≥ 10), nothing above it
    runs -/
def exXOps : List Op :=
  [ .sess [.world 1 4, .set 0 3], .round [4],
    .sess [.set 0 3], .round [4, 3],
    .sess [.world 1 9], .round [4],
    .sess [.refresh], .round [4, 3],
    .sess [.set 0 2], .round [4, 2] ]

/-- the history runs to completion in the model; outputs (values and executor invocations per round) -/
theorem exX_run : (runOps exX exXOps {}).toOption.map (·.1) =
    some [.sess [.world, .fresh], .round [4] [1, 2, 3, 4],
          .sess [.unchanged], .round [4, 0] [],
          .sess [.world], .round [4] [],
          .sess [.refreshed], .round [19, 10] [2, 3, 4],
          .sess [.updated], .round [19, 1] [2]] := by decide

/-- `core_history_sound_partial` and `core_history_no_out_of_fuel_partial` instantiated on it: the
    hypotheses are satisfiable by a program with all five kinds and a multi-session history, and the
    conclusion is about the outputs listed in `exX_run` -/
theorem exX_history_sound : ∃ outs s', runOps exX exXOps {} = .ok (outs, s') ∧
    OutOK exX exXOps outs Ref.init ∧ Inv exX s' ∧ outs.length = 10 := by
  cases h : runOps exX exXOps {} with
  | error e =>
    have := exX_run; rw [h] at this; simp [Except.toOption] at this
  | ok r =>
    obtain ⟨outs, s'⟩ := r
    have hs := core_history_sound_partial exX_wf exX_shape h
    have hr := exX_run; rw [h] at hr
    simp only [Except.toOption, Option.map_some, Option.some.injEq] at hr
    exact ⟨outs, s', rfl, hs.1, hs.2, by rw [hr]; rfl⟩

/-- the state before the fourth round (after the refresh): the invariant holds, the from-scratch value of
    key 4 is 19, and the user's query returns it, re-running firewall, projection and key 4 -/
def exXU : St := stateAfter exX (exXOps.take 7)
theorem exXU_inv : Inv exX exXU := stateAfter_inv exX_wf exX_shape _

theorem exX_query_sound : cur exX exXU 4 = some 19 ∧ 4 < fuelFor exX ∧
    (query exX (fuelFor exX) .user 4 { exXU with log := [] }).toOption.map (fun r => (r.1, r.2.log)) =
      some (19, [2, 3, 4]) := ⟨by decide, by decide, by decide⟩

/-- `core_session_inv` on a session with a refresh AND a write that does not change a value -/
theorem exX_session : (session exX [.refresh, .set 0 3] exXU).toOption.map (·.1) = some [.refreshed, .unchanged] := by
  decide

end Qbice.CoreFw.NonVacuity
