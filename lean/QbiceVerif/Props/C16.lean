/-
C16 — "The admission cache never evicts pinned entries and stays bounded."

Theorems over `QbiceVerif.Model.TinyLfu` (the sequential, piggy-backed-maintenance model of
`crates/storage/src/tiny_lfu*`).  They quantify over EVERY configuration (`Cfg`: any window /
protected / main capacities, both unpin strategies, ANY frequency sketch `record`/`estimate`/`hash`,
any listener token function), every cache state reachable from the empty cache, and every
sequence of get / put / ins / upd / rem / peek / pin / unpin / notify operations.
-/
import QbiceVerif.Lemmas.TinyLfuBound
import QbiceVerif.Lemmas.TinyLfuNoPanic
import QbiceVerif.Lemmas.TinyLfuStep
import QbiceVerif.Lemmas.TinyLfuLock
import QbiceVerif.Lemmas.TinyLfuWitness
import QbiceVerif.Lemmas.TinyLfuPollFix
import QbiceVerif.Lemmas.TinyLfuAtomic
import QbiceVerif.Lemmas.TinyLfuUnpinSeed
import QbiceVerif.Lemmas.TinyLfuMsgOrder

namespace QbiceVerif.C16
open QbiceVerif.TinyLfu

variable {σ : Type}

/-! ## "An entry that its owner reports as pinned is never evicted" -/

/-- One call: if `k` is resident with value `v` before the call, the call is not itself a write or
removal of `k`, and the listener reports `(k, v)` pinned (after the call's own change of the pin set),
then `k` is still resident with `v` after the call, and the call's eviction log does not contain it.
All removals by the cache go through the removal closure, which re-asks the listener. -/
theorem pinned_never_evicted {cfg : Cfg σ} {c c' : Cache σ} {op : Op} {r : Ret} {log : List (Nat × Bool)} {k v : Nat}
    (h : step cfg c op = .ok (c', r, log)) (hk : sGet c.core.st k = some v) (hw : ¬ op.writes k)
    (hp : cfg.tok k v ∈ c'.pins) :
    sGet c'.core.st k = some v ∧ (k, false) ∉ log := by
  obtain ⟨he, _, _, hl⟩ := step_spec h
  have hk' : sGet (access cfg c.clearLog op).1.core.st k = some v := by rw [access_frame cfg _ hw]; exact hk
  refine ⟨he.keep k v hk' hp, ?_⟩
  intro hm; rw [hl] at hm
  rcases he.honest k hm with h1 | ⟨v', h1, h2⟩
  · rw [step_log_nil] at h1; cases h1
  · rw [hk'] at h1; cases h1; exact h2 hp

/-- Any history: a resident entry whose pin token is held and not released during the history, and
which the history does not itself write or remove, is resident with the same value at the end —
whatever else is inserted, read or evicted, under either strategy and any frequency sketch. -/
theorem pinned_never_evicted_run {cfg : Cfg σ} {ops : List Op} {c c' : Cache σ} {k v : Nat}
    (h : run cfg c ops = .ok c') (hk : sGet c.core.st k = some v) (hp : cfg.tok k v ∈ c.pins)
    (hops : ∀ op, op ∈ ops → ¬ op.writes k ∧ op ≠ .unpin (cfg.tok k v) ∧ op ≠ .unpinNotify (cfg.tok k v)) :
    sGet c'.core.st k = some v ∧ cfg.tok k v ∈ c'.pins := by
  induction ops generalizing c with
  | nil => simp [run] at h; cases h; exact ⟨hk, hp⟩
  | cons op ops ih =>
    unfold run at h
    split at h
    · rename_i c1 r log hs
      obtain ⟨o1, o2, o3⟩ := hops op (by simp)
      have hp1 := pins_after hs hp o2 o3
      have hk1 := (pinned_never_evicted hs hk o1 hp1).1
      exact ih h hk1 hp1 (fun o ho => hops o (List.mem_cons_of_mem _ ho))
    · cases h

/-! ## "An entry stays readable with its latest value until it is evicted or removed" -/

/-- `get` answers with what the storage holds. -/
theorem get_returns_stored {cfg : Cfg σ} {c c' : Cache σ} {r : Ret} {log : List (Nat × Bool)} {k : Nat}
    (h : step cfg c (.get k) = .ok (c', r, log)) :
    r = match sGet c.core.st k with | some v => Ret.some v | none => Ret.none := by
  obtain ⟨_, _, hr, _⟩ := step_spec h
  rw [hr]; rfl

/-- A resident entry that the call does not write is afterwards either unchanged, or gone — and then
the call's log records its eviction (so it was not pinned, by `pinned_never_evicted`). -/
theorem readable_until_gone {cfg : Cfg σ} {c c' : Cache σ} {op : Op} {r : Ret} {log : List (Nat × Bool)} {k v : Nat}
    (h : step cfg c op = .ok (c', r, log)) (hk : sGet c.core.st k = some v) (hw : ¬ op.writes k) :
    sGet c'.core.st k = some v ∨ (sGet c'.core.st k = none ∧ (k, false) ∈ log) := by
  obtain ⟨he, _, _, hl⟩ := step_spec h
  have hk' : sGet (access cfg c.clearLog op).1.core.st k = some v := by rw [access_frame cfg _ hw]; exact hk
  cases hg : sGet c'.core.st k with
  | none => right; exact ⟨rfl, hl ▸ he.logged k (by simp [hk']) hg⟩
  | some w => left; have := he.sub k w hg; rw [hk'] at this; cases this; rfl

/-- Nothing is resurrected and no value goes stale: what is resident after a call that does not write
`k` was resident, with the same value, before it. -/
theorem never_stale {cfg : Cfg σ} {c c' : Cache σ} {op : Op} {r : Ret} {log : List (Nat × Bool)} {k w : Nat}
    (h : step cfg c op = .ok (c', r, log)) (hk : sGet c'.core.st k = some w) (hw : ¬ op.writes k) :
    sGet c.core.st k = some w := by
  obtain ⟨he, _, _, _⟩ := step_spec h
  have := he.sub k w hk
  rwa [access_frame cfg _ hw] at this

/-- A write is visible: after `put k v` the entry holds `v`, unless the same call evicted it (logged). -/
theorem put_visible {cfg : Cfg σ} {c c' : Cache σ} {r : Ret} {log : List (Nat × Bool)} {k v : Nat}
    (h : step cfg c (.put k v) = .ok (c', r, log)) :
    sGet c'.core.st k = some v ∨ (sGet c'.core.st k = none ∧ (k, false) ∈ log) := by
  obtain ⟨he, _, _, hl⟩ := step_spec h
  have hk' : sGet (access cfg c.clearLog (.put k v)).1.core.st k = some v := by
    simp only [access]; split
    · rename_i w hw; simp [sGet_sSet, hw]
    · simp [sGet]
  cases hg : sGet c'.core.st k with
  | none => right; exact ⟨rfl, hl ▸ he.logged k (by simp [hk']) hg⟩
  | some w => left; have := he.sub k w hg; rw [hk'] at this; cases this; rfl

/-- Any history that does not write `k`: the entry keeps its value for as long as it is resident. -/
theorem readable_until_gone_run {cfg : Cfg σ} {ops : List Op} {c c' : Cache σ} {k v : Nat}
    (h : run cfg c ops = .ok c') (hk : sGet c.core.st k = some v) (hops : ∀ op, op ∈ ops → ¬ op.writes k) :
    sGet c'.core.st k = some v ∨ sGet c'.core.st k = none := by
  induction ops generalizing c v with
  | nil => simp [run] at h; cases h; exact Or.inl hk
  | cons op ops ih =>
    unfold run at h
    split at h
    · rename_i c1 r log hs
      rcases readable_until_gone hs hk (hops op (by simp)) with h1 | ⟨h1, _⟩
      · exact ih h h1 (fun o ho => hops o (List.mem_cons_of_mem _ ho))
      · -- once gone, only a write of `k` can bring it back
        clear ih hk
        right
        have : ∀ (ops : List Op) (c1 c' : Cache σ), run cfg c1 ops = .ok c' → sGet c1.core.st k = none →
            (∀ op, op ∈ ops → ¬ op.writes k) → sGet c'.core.st k = none := by
          intro ops
          induction ops with
          | nil => intro c1 c' h h1 _; simp [run] at h; cases h; exact h1
          | cons o os ih2 =>
            intro c1 c' h h1 ho
            unfold run at h
            split at h
            · rename_i c2 r2 l2 hs2
              apply ih2 c2 c' h _ (fun o' ho' => ho o' (List.mem_cons_of_mem _ ho'))
              cases hg : sGet c2.core.st k with
              | none => rfl
              | some w => have := never_stale hs2 hg (ho o (by simp)); rw [h1] at this; cases this
            · cases h
        exact this ops c1 c' h h1 (fun o ho => hops o (List.mem_cons_of_mem _ ho))
    · cases h

/-! ## "The number of resident entries stays within the configured capacity plus the currently
pinned ones plus a fixed maintenance slack" -/

/-- The property's bound, for the cache `TinyLFU::new` builds (the code as it is: repaired `unpin`, F4, and
whole-region Poll trim, F15), both strategies, one fixed slack `S` over the currently pinned count.  Under `Notify` the
client follows the documented protocol (every release is notified).  Under `Poll` releases are silent by design, and a
polling cache cannot know about a release before it polls again (the listener is only asked during a maintenance
round): an entry released since the last round is, for the cache, still pinned.  "Currently pinned" is therefore read
as "pinned when the cache last polled", i.e. the entries pinned now plus the releases since the last maintenance
round (`Cache.rel`, a ghost field no operation reads).  Without that term no bound exists for ANY polling cache:
pin `n` entries, insert them, release them all without calling the cache — `n` resident, none pinned, and the cache
has not run since.  Proved below: `C16_bounded` (with `S = 32`). -/
def C16_bounded_full_statement : Prop :=
  ∃ S : Nat, ∀ (capacity : Nat) (poll : Bool) (ops : List Op) (c : Cache Sketch), 1 ≤ capacity →
    (poll = false → ∀ op, op ∈ ops → ∀ t, op ≠ .unpin t) →
    run (Cfg.real capacity poll true (fun k _ => k)) (Cache.real capacity) ops = .ok c →
    c.core.st.length ≤ (capsOf capacity).1 + (capsOf capacity).2.2
      + pinnedNow (Cfg.real capacity poll true (fun k _ => k)) c.pins c.core.st + S
      + (if poll then c.rel.length else 0)

/-- `Notify` strategy, any capacities, any sketch, pin token = key, every release notified
(`unpinNotify`; no silent `unpin`): in every reachable state
`resident ≤ window capacity + main capacity + currently pinned residents + MAINTENANCE_BATCH_SIZE`. -/
theorem bounded_notify {cfg : Cfg σ} {sk : σ} {ops : List Op} {c : Cache σ}
    (hpm : cfg.protectedCap < cfg.mainLimit) (hpoll : cfg.poll = false) (htok : ∀ k v, cfg.tok k v = k)
    (hq : ∀ op, op ∈ ops → ∀ t, op ≠ .unpin t)
    (h : run cfg (Cache.init sk) ops = .ok c) :
    c.core.st.length ≤ cfg.windowCap + cfg.mainLimit + pinnedNow cfg c.pins c.core.st + cfg.batch := by
  have hi := run_inv hpm h (init_inv cfg sk)
  have hn := run_ninv htok hpm hpoll hq h (init_inv cfg sk) (by intro k hk; simp [Cache.init] at hk)
  exact bound_notify htok hi hn

/-- The `Notify` half of the full statement for the real configuration, with `S = 32`. -/
theorem bounded_notify_real (capacity : Nat) (fix : Bool) (ops : List Op) (c : Cache Sketch)
    (hq : ∀ op, op ∈ ops → ∀ t, op ≠ .unpin t)
    (h : run (Cfg.real capacity false fix (fun k _ => k)) (Cache.real capacity) ops = .ok c) :
    c.core.st.length ≤ (capsOf capacity).1 + (capsOf capacity).2.2
      + pinnedNow (Cfg.real capacity false fix (fun k _ => k)) c.pins c.core.st + 32 :=
  bounded_notify (cfg := Cfg.real capacity false fix (fun k _ => k)) (real_caps capacity) rfl (fun _ _ => rfl) hq h

/-- HISTORICAL as the `Poll` headline (it was all that held for the code before the fix of finding F15,
`Cfg.fixTrim = false`, see `bounded_poll_slack32_refuted`; the headline is now `bounded_poll`).  Still true for every
configuration (either strategy, either trim, ANY listener — also value tokens, i.e. the lock table — any history,
silent releases included), and still what the harness's `bound-partial` oracle uses: with the size of the policy's
pinned region in place of the number of currently pinned entries,
`resident ≤ window capacity + main capacity + |pinned region| + MAINTENANCE_BATCH_SIZE`. -/
theorem bounded_poll_partial {cfg : Cfg σ} {sk : σ} {ops : List Op} {c : Cache σ}
    (hpm : cfg.protectedCap < cfg.mainLimit) (h : run cfg (Cache.init sk) ops = .ok c) :
    c.core.st.length ≤ cfg.windowCap + cfg.mainLimit + c.core.lru.pinned.length + cfg.batch :=
  bound_region (run_inv hpm h (init_inv cfg sk))

/-- `bounded_notify` with the messages actually buffered in place of the batch size: in every reachable state
`resident ≤ window capacity + main capacity + currently pinned residents + |write buffer|` (the write buffer never
holds more than one batch, `regions_within_capacity`, which gives `bounded_notify` back).  This is the bound the
harness's oracle applies to every `Notify` history that follows the protocol (signatures `bound-notify-buffered…`
and, at a quiescent point, `unevictable-residue…`). -/
theorem bounded_notify_buffered {cfg : Cfg σ} {sk : σ} {ops : List Op} {c : Cache σ}
    (hpm : cfg.protectedCap < cfg.mainLimit) (hpoll : cfg.poll = false) (htok : ∀ k v, cfg.tok k v = k)
    (hq : ∀ op, op ∈ ops → ∀ t, op ≠ .unpin t)
    (h : run cfg (Cache.init sk) ops = .ok c) :
    c.core.st.length ≤ cfg.windowCap + cfg.mainLimit + pinnedNow cfg c.pins c.core.st + c.wbuf.length := by
  have hi := run_inv hpm h (init_inv cfg sk)
  have hn := run_ninv htok hpm hpoll hq h (init_inv cfg sk) (by intro k hk; simp [Cache.init] at hk)
  exact bound_notify_buffered htok hi hn

/-- "Every resident unpinned entry is evictable": `Notify`, protocol followed — whenever a maintenance pass has just
run (no message buffered) and no resident entry is pinned, the cache is within its capacity: nothing unpinned
survives a pass beyond what the regions hold. -/
theorem bounded_notify_quiescent {cfg : Cfg σ} {sk : σ} {ops : List Op} {c : Cache σ}
    (hpm : cfg.protectedCap < cfg.mainLimit) (hpoll : cfg.poll = false) (htok : ∀ k v, cfg.tok k v = k)
    (hq : ∀ op, op ∈ ops → ∀ t, op ≠ .unpin t)
    (h : run cfg (Cache.init sk) ops = .ok c) (hw : c.wbuf = []) (hp : pinnedNow cfg c.pins c.core.st = 0) :
    c.core.st.length ≤ cfg.windowCap + cfg.mainLimit := by
  have := bounded_notify_buffered hpm hpoll htok hq h
  rw [hw, hp] at this
  simpa using this

/-- "Every resident entry is tracked by the policy": after ANY history, under either strategy, any listener and any
sketch, a resident key is in one of the four regions of the policy or its `Insert` message is still in the write
buffer.  (The field `CInv.track` of the global invariant `Inv`, Lemmas/TinyLfuInv, unfolded by
`TinyLfu.resident_tracked`.)  This is the invariant that `Policy::unpin`'s "only when the storage confirmed the
removal" condition keeps and that the seeded variant breaks, see `unpin_forgetting_unconfirmed_leaks`. -/
theorem resident_tracked {cfg : Cfg σ} {sk : σ} {ops : List Op} {c : Cache σ} {k v : Nat}
    (hpm : cfg.protectedCap < cfg.mainLimit) (h : run cfg (Cache.init sk) ops = .ok c)
    (hk : sGet c.core.st k = some v) :
    k ∈ c.core.lru.window ∨ k ∈ c.core.lru.probation ∨ k ∈ c.core.lru.prot ∨ k ∈ c.core.lru.pinned ∨
      WMsg.insert k ∈ c.wbuf :=
  QbiceVerif.TinyLfu.resident_tracked (run_inv hpm h (init_inv cfg sk)) hk

/-! ### `Policy::unpin` must keep a key whose removal the storage refused

The model's `unpin` ends with `if r.2 then .ok { r.1 with lru := r.1.lru.remove k } else .ok r.1` — the key leaves
the policy's lists only when the removal closure confirmed the removal (`if remove(unpin) { self.lru.remove(unpin); }`
in policy.rs).  `runV forget` (Lemmas/TinyLfuUnpinSeed) is the model with a toggle: `runV false = run`
(`runV_false`), `runV true` drops the key unconditionally (the seeded change
`/verif/seeded/C16-notify-unpin-forgets-entry`). -/

/-- Witness (exact sketch, capacity 1, `Notify`, protocol followed; `repinHistory`: key 0 written pinned, parked in
the Pinned region, flushed, re-written BEFORE the maintenance pass that processes its `Unpinned` message, flushed
again, two more passes): with the unconditional variant key 0 is still resident at the end with its last value,
although nothing is pinned, no message is buffered, and key 0 is in no region — `resident_tracked` fails for it, no
later message can ever evict it — and 3 entries are resident in a cache of capacity 2: `bounded_notify_quiescent`
(and `bounded_notify_buffered`) fail.  Every repetition with a fresh key leaks one more entry. -/
theorem unpin_forgetting_unconfirmed_leaks :
    (match runV true (Cfg.real 1 false true (fun k _ => k)) (Cache.real 1) repinHistory with
     | .ok c => decide (sGet c.core.st 0 = some 2 ∧ trackedB c 0 = false ∧ c.pins = [] ∧ c.wbuf = [] ∧
          pinnedNow (Cfg.real 1 false true (fun k _ => k)) c.pins c.core.st = 0 ∧
          c.core.st.length = 3 ∧ (capsOf 1).1 + (capsOf 1).2.2 = 2)
     | .error _ => false) = true := by
  decide +kernel

/-- The property's own bound fails in the variant as well: one operation earlier (`repinHistory` without its last
insert: 32 messages buffered since the third pass, nothing pinned) 35 entries are resident, more than
`window + main capacity (2) + currently pinned (0) + 32` — the bound of `bounded_notify_real` is tight (34 is reached
by the code as it is, `unpin_confirmed_only_reaches_bound`), so a single forgotten entry breaks it. -/
theorem unpin_forgetting_breaks_bounded_notify :
    (match runV true (Cfg.real 1 false true (fun k _ => k)) (Cache.real 1) (repinHistory.take 134) with
     | .ok c => decide (c.core.st.length = 35 ∧ c.wbuf.length = 32 ∧
          pinnedNow (Cfg.real 1 false true (fun k _ => k)) c.pins c.core.st = 0 ∧
          (capsOf 1).1 + (capsOf 1).2.2 + 0 + 32 = 34)
     | .error _ => false) = true := by
  decide +kernel

/-- …the code as it is at the same point: 34 resident, exactly the bound. -/
theorem unpin_confirmed_only_reaches_bound :
    (match run (Cfg.real 1 false true (fun k _ => k)) (Cache.real 1) (repinHistory.take 134) with
     | .ok c => decide (c.core.st.length = 34 ∧ c.wbuf.length = 32 ∧
          pinnedNow (Cfg.real 1 false true (fun k _ => k)) c.pins c.core.st = 0)
     | .error _ => false) = true := by
  decide +kernel

/-- …and the code as it is (toggle off = the model, `runV_false`) on the same history: the refused key stays in the
Pinned region, its second `Unpinned` message evicts it, and the cache ends within its capacity. -/
theorem unpin_confirmed_only_no_leak :
    (match run (Cfg.real 1 false true (fun k _ => k)) (Cache.real 1) repinHistory with
     | .ok c => decide (sGet c.core.st 0 = none ∧ c.pins = [] ∧ c.wbuf = [] ∧ c.core.st.length = 2)
     | .error _ => false) = true := by
  decide +kernel

/-- …while the re-pinned entry is NOT evicted by the pass that processes the stale notification (either variant:
the storage refuses).  Just before the second flush (the first 75 operations), the stale `Unpinned(0)` processed:
with the code as it is key 0 is resident with the re-written value, pinned, and tracked in the Pinned region; with
the variant it is resident and pinned but already tracked nowhere. -/
theorem unpin_unconfirmed_keeps_tracking :
    (match run (Cfg.real 1 false true (fun k _ => k)) (Cache.real 1) (repinHistory.take 75),
           runV true (Cfg.real 1 false true (fun k _ => k)) (Cache.real 1) (repinHistory.take 75) with
     | .ok c, .ok c' => decide (sGet c.core.st 0 = some 2 ∧ 0 ∈ c.pins ∧ 0 ∈ c.core.lru.pinned ∧ WMsg.unpinned 0 ∉ c.wbuf ∧
          sGet c'.core.st 0 = some 2 ∧ 0 ∈ c'.pins ∧ trackedB c' 0 = false)
     | _, _ => false) = true := by
  decide +kernel

/-- The structural invariant behind the bounds, in every reachable state: regions duplicate-free and
disjoint, `window ≤ window capacity`, `probation + protected ≤ main capacity`,
`protected ≤ protected capacity`, storage keys distinct, at most one batch of buffered messages. -/
theorem regions_within_capacity {cfg : Cfg σ} {sk : σ} {ops : List Op} {c : Cache σ}
    (hpm : cfg.protectedCap < cfg.mainLimit) (h : run cfg (Cache.init sk) ops = .ok c) :
    c.core.lru.WF ∧ Caps cfg c.core.lru ∧ (keys c.core.st).Nodup ∧ c.wbuf.length ≤ cfg.batch :=
  let hi := run_inv hpm h (init_inv cfg sk)
  ⟨hi.core.wf, hi.core.caps, hi.core.nodup, hi.wlen⟩

/-! ### `Poll` (the code as it is: the trim visits the whole pinned region, finding F15 fixed) -/

/-- `Poll` strategy, any capacities, any sketch, pin token = key, ANY history (silent releases, notifications, both):
in every reachable state
`resident ≤ window capacity + main capacity + currently pinned + MAINTENANCE_BATCH_SIZE + r`, where `r` is the
number of releases since the last maintenance round (`Cache.rel`, a ghost field no operation reads): a polling
cache cannot know about those before it polls again; everything released earlier has been reclaimed.
(`hfix` holds for every configuration `Cfg.real` builds: `fixTrim` defaults to `true`.) -/
theorem bounded_poll {cfg : Cfg σ} {sk : σ} {ops : List Op} {c : Cache σ}
    (hpm : cfg.protectedCap < cfg.mainLimit) (hpoll : cfg.poll = true) (hfix : cfg.fixTrim = true)
    (htok : ∀ k v, cfg.tok k v = k) (h : run cfg (Cache.init sk) ops = .ok c) :
    c.core.st.length ≤ cfg.windowCap + cfg.mainLimit + pinnedNow cfg c.pins c.core.st + cfg.batch + c.rel.length := by
  have hi := run_inv hpm h (init_inv cfg sk)
  have hn := run_pinv htok hpm hpoll hfix h (by intro k hk; simp [Cache.init] at hk)
  exact bound_poll_fixed htok hi hn

/-- The `Poll` half of the full statement for the real configuration, with `S = 32`. -/
theorem bounded_poll_real (capacity : Nat) (fix : Bool) (ops : List Op) (c : Cache Sketch)
    (h : run (Cfg.real capacity true fix (fun k _ => k)) (Cache.real capacity) ops = .ok c) :
    c.core.st.length ≤ (capsOf capacity).1 + (capsOf capacity).2.2
      + pinnedNow (Cfg.real capacity true fix (fun k _ => k)) c.pins c.core.st + 32 + c.rel.length :=
  bounded_poll (cfg := Cfg.real capacity true fix (fun k _ => k)) (real_caps capacity) rfl rfl (fun _ _ => rfl) h

/-- The property's bound (`C16_bounded_full_statement`), both strategies, `S = 32`. -/
theorem C16_bounded : C16_bounded_full_statement := by
  refine ⟨32, ?_⟩
  intro capacity poll ops c _ hq h
  cases poll with
  | false => simpa using bounded_notify_real capacity true ops c (hq rfl) h
  | true => simpa using bounded_poll_real capacity true ops c h

/-- The adversary (`pollAdversary`: 2 blockers pinned for ever, two rounds of 33 pinned-inserted-released keys) on the
code as it is: 35 resident (capacity 2, 2 pinned, the 33 entries released since the last round are still there, none
older); `pollAdversary5` (5 blockers, four rounds): 38. -/
theorem poll_adversary_bounded :
    (match run (Cfg.real 1 true true (fun k _ => k)) (Cache.real 1) pollAdversary,
           run (Cfg.real 1 true true (fun k _ => k)) (Cache.real 1) pollAdversary5 with
     | .ok c, .ok c5 => decide (c.core.st.length = 35 ∧ c.rel.length = 33 ∧
          pinnedNow (Cfg.real 1 true true (fun k _ => k)) c.pins c.core.st = 2 ∧
          c5.core.st.length = 38 ∧ c5.rel.length = 33 ∧
          pinnedNow (Cfg.real 1 true true (fun k _ => k)) c5.pins c5.core.st = 5)
     | _, _ => false) = true := by
  decide +kernel

/-! ### quiescence, either strategy -/

/-- "Every resident entry is evictable", both strategies (pin token = key; `Notify`: protocol followed; `Poll`: the
whole-region trim): whenever no resident entry is pinned, no buffered message concerns a resident key (e.g. a
maintenance pass has just run, or only no-op notifications of absent keys have been buffered since) and — `Poll` — no
release happened since the last round, the cache is within its capacity, exactly:
`resident ≤ window capacity + main capacity`.  This is the bound the harness's multi-thread "remove vs re-insert"
oracle applies after quiescing (signature `mt-leak:resident-untracked-after-remove-reinsert`). -/
theorem bounded_quiescent {cfg : Cfg σ} {sk : σ} {ops : List Op} {c : Cache σ}
    (hpm : cfg.protectedCap < cfg.mainLimit) (hfix : cfg.fixTrim = true) (htok : ∀ k v, cfg.tok k v = k)
    (hq : cfg.poll = false → ∀ op, op ∈ ops → ∀ t, op ≠ .unpin t)
    (h : run cfg (Cache.init sk) ops = .ok c)
    (hw : ∀ m, m ∈ c.wbuf → sGet c.core.st (msgKey m) = none)
    (hp : pinnedNow cfg c.pins c.core.st = 0) (hr : cfg.poll = true → c.rel = []) :
    c.core.st.length ≤ cfg.windowCap + cfg.mainLimit := by
  have hi := run_inv hpm h (init_inv cfg sk)
  have hb := bufferedResident_nil hw
  cases hpoll : cfg.poll with
  | false =>
    have hn := run_ninv htok hpm hpoll (hq hpoll) h (init_inv cfg sk) (by intro k hk; simp [Cache.init] at hk)
    have := bound_notify_quiet htok hi hn
    rw [hb, hp] at this; simpa using this
  | true =>
    have hn := run_pinv htok hpm hpoll hfix h (by intro k hk; simp [Cache.init] at hk)
    have := bound_poll_quiet htok hi hn
    rw [hb, hp, hr hpoll] at this; simpa using this

/-! ### concurrency: the policy messages of one key arrive in the order of the storage operations on it

The theorems above are about one thread.  What a second thread can change for the bookkeeping of ONE key is the order
in which `Insert(k)` / `Removed(k)` reach the write buffer.  `Lemmas/TinyLfuMsgOrder` is an LTS for one key with any
number of threads (storage access + push under the key's bucket lock = one step, as in `VacantEntry::insert` /
`OccupiedEntry::remove`; the maintenance pass consumes the buffer in FIFO order).  MODELLED, not verified: the bucket
lock of `scc::HashMap::entry_sync` is mutual exclusion per key. -/

/-- Locked pushes (`late = false`, the code as it is), any number of threads, any interleaving: the messages were
pushed in exactly the order of the storage operations on the key (and no push is outstanding). -/
theorem message_order_is_storage_order (evs : List MsgOrder.Ev) :
    (MsgOrder.run false {} evs).msgs = (MsgOrder.run false {} evs).ops ∧ (MsgOrder.run false {} evs).pend = [] :=
  ⟨(MsgOrder.run_inv evs MsgOrder.init_inv).order, (MsgOrder.run_inv evs MsgOrder.init_inv).nopend⟩

/-- …hence, whenever the buffer is drained, the policy tracks the key iff it is resident. -/
theorem tracked_iff_resident_after_drain (evs : List MsgOrder.Ev) (hb : (MsgOrder.run false {} evs).buf = []) :
    (MsgOrder.run false {} evs).tracked = (MsgOrder.run false {} evs).resident := by
  have := (MsgOrder.run_inv evs MsgOrder.init_inv).will
  simpa [MsgOrder.willTrack, hb] using this

/-- …at any moment: what the policy will say once the present buffer is drained is whether the key is resident now. -/
theorem will_track_iff_resident (evs : List MsgOrder.Ev) :
    MsgOrder.willTrack (MsgOrder.run false {} evs) = (MsgOrder.run false {} evs).resident :=
  (MsgOrder.run_inv evs MsgOrder.init_inv).will

/-- Witness for the variant that pushes `Removed` after the bucket lock is released (`late = true`, the seeded change
`/verif/seeded/C16-removed-message-after-unlock`): on `MsgOrder.lateWitness` (remove by thread A, re-insert by thread
B, A's late push, drain) the messages are `[Insert, Insert, Removed]` for the storage operations
`[Insert, Removed, Insert]`; buffer drained, nothing outstanding: the key is resident and the policy does not track
it — it can never be evicted (`resident_tracked` fails) and is not counted (`bounded_quiescent` fails).  The same
history with locked pushes ends resident and tracked. -/
theorem removed_after_unlock_leaks :
    (let s := MsgOrder.run true {} MsgOrder.lateWitness
     let s' := MsgOrder.run false {} MsgOrder.lateWitness
     s.resident = true ∧ s.tracked = false ∧ s.buf = [] ∧ s.pend = [] ∧
       s.ops = [.ins, .rem, .ins] ∧ s.msgs = [.ins, .ins, .rem] ∧
       s'.resident = true ∧ s'.tracked = true ∧ s'.buf = []) := by
  decide

/-! ### HISTORICAL — `Poll` before the fix of finding F15 (`fixTrim := false`, explicitly) -/

/-- HISTORICAL (F15, code before the fix: `{ … with fixTrim := false }`).  Witness (exact sketch, capacity 1, `Poll`):
after `pollAdversary` 57 entries are resident although window + main capacity is 2 and only 2 entries are pinned — more
than `2 + 2 + 32`.  The trim loop stopped at the first still-pinned entry of the pinned region, so entries released
behind it survived maintenance rounds; the excess grew with the number of blockers. -/
theorem bounded_poll_slack32_refuted :
    (match run { Cfg.real 1 true true (fun k _ => k) with fixTrim := false } (Cache.real 1) pollAdversary with
     | .ok c => decide (c.core.st.length = 57 ∧
          pinnedNow (Cfg.real 1 true true (fun k _ => k)) c.pins c.core.st = 2 ∧
          (capsOf 1).1 + (capsOf 1).2.2 = 2)
     | .error _ => false) = true := by
  decide +kernel

/-- HISTORICAL (F15, `fixTrim := false`): the bound of `bounded_poll` itself — releases since the last round allowed
for — failed for the code before the fix, i.e. `hfix` is needed: after `pollAdversary5` 95 entries are resident, more
than `2 + 5 pinned + 32 + 33 released since the last round = 72`.  This is the history the harness replays on the real
cache on every run (signature `bound-poll:excess-grows-with-blockers`): it must stay within the bound. -/
theorem bounded_poll_needs_whole_region_trim :
    (match run { Cfg.real 1 true true (fun k _ => k) with fixTrim := false } (Cache.real 1) pollAdversary5 with
     | .ok c => decide (c.core.st.length = 95 ∧ c.rel.length = 33 ∧
          pinnedNow (Cfg.real 1 true true (fun k _ => k)) c.pins c.core.st = 5 ∧
          (capsOf 1).1 + (capsOf 1).2.2 = 2)
     | .error _ => false) = true := by
  decide +kernel

/-! ## "for any access pattern" — no call panics -/

/-- Repaired `Policy::unpin` (finding F4), any capacities with room for one probation entry, any
sketch, any listener, both strategies: no history reaches any `unwrap()` / `assert!` of `policy.rs`
or of the `lru.rs` entry points. -/
theorem no_panic {cfg : Cfg σ} (sk : σ) (ops : List Op) (hfix : cfg.fixF4 = true)
    (hpm : cfg.protectedCap < cfg.mainLimit) : ∃ c, run cfg (Cache.init sk) ops = .ok c :=
  run_ok ops hfix hpm (init_inv cfg sk)

/-- …in particular for every cache `TinyLFU::new(capacity, strategy, Piggyback)` builds. -/
theorem no_panic_real (capacity : Nat) (poll : Bool) (tok : Nat → Nat → Nat) (ops : List Op) :
    ∃ c, run (Cfg.real capacity poll true tok) (Cache.real capacity) ops = .ok c :=
  no_panic (cfg := Cfg.real capacity poll true tok) _ ops rfl (real_caps capacity)

/-- HISTORICAL (F4, fixed in /repo by e7e1055; the theorem uses `fix = false` explicitly): the code before the fix panics: on `f4History` the 33rd buffered message runs maintenance,
which empties the probation region (`Removed(23)`) and then processes `Unpinned(2)` for a key of the
pinned region: `Policy::unpin` unwraps the empty probation tail. -/
theorem asis_unpin_panics :
    (match run (Cfg.real 1 false false (fun k _ => k)) (Cache.real 1) f4History with
     | .error .unpinProbationEmpty => true
     | _ => false) = true := by
  decide +kernel

/-- …and the repaired code does not, on the same history. -/
theorem fixed_unpin_survives :
    (match run (Cfg.real 1 false true (fun k _ => k)) (Cache.real 1) f4History with
     | .ok c => decide (sGet c.core.st 2 = some 2)
     | .error _ => false) = true := by
  decide +kernel

/-! ## "two tasks asking for the lock of the same query always contend on the same lock, even while
the table is evicting" -/

/-- The lock table (`QueryLockManager::get_lock_instance` over the cache, values = lock instances,
pinned while referenced): for every history of acquisitions and releases, any capacity, any sketch,
both strategies — while some reference to the lock of `q` is alive, acquiring `q` yields that same
lock instance. -/
theorem lock_table_same_lock {cfg : Cfg σ} {sk : σ} {ops : List LOp} {t t' : LockTable σ} {q id id' : Nat}
    (htok : ∀ k v, cfg.tok k v = v)
    (h : lrun cfg (LockTable.init sk) ops = .ok t) (hh : (q, id) ∈ t.handles)
    (ha : acquire cfg t q = .ok (t', id')) : id' = id :=
  acquire_same htok (lrun_linv htok h (linv_init sk)) hh ha

/-! ### the atomicity `lock_table_same_lock` relies on

In the model above an eviction attempt (`removeClosure`: ask `is_pinned`, then remove) is ONE step, as in
`remove_closure` of tiny_lfu.rs, which does both under one write lock of the bucket.  The two theorems
below (one key of the lock table, eviction attempts interleaved with other tasks' `get`s) state that
this atomicity is exactly what the property needs. -/

/-- Atomic eviction attempts: under every interleaving of acquisitions, releases and eviction attempts
all live references are the one stored lock instance. -/
theorem same_lock_needs_atomic_eviction_holds (evs : List Atomic.Ev)
    (hev : ∀ e, e ∈ evs → e ≠ .check ∧ e ≠ .remove) : Atomic.SameLock (Atomic.run {} evs) :=
  (Atomic.same_lock_atomic evs hev).2

/-- If the pin question and the removal are two steps (`read_sync(is_pinned)`, then `remove_sync`), a `get`
between them breaks the property: after `Atomic.splitWitness` two live references point at different lock
instances of the same key. -/
theorem same_lock_fails_when_eviction_is_split : ¬ Atomic.SameLock (Atomic.run {} Atomic.splitWitness) :=
  Atomic.same_lock_fails_when_split.2

/-! ## non-vacuity -/

/-- a history in which the listener refuses an eviction (pinned victim kept) and allows others -/
example :
    (match run (Cfg.real 1 false true (fun k _ => k)) (Cache.real 1) f4History with
     | .ok c => decide (2 ∉ c.pins ∧ c.core.st.length ≤ 2 + 0 + 32)
     | .error _ => false) = true := by
  decide +kernel

/-- `pinned_never_evicted`'s hypotheses are satisfiable: key 2 is pinned and resident, the 33rd insert
runs maintenance, asks the listener about key 2 and keeps it -/
example :
    (match run (Cfg.real 1 false true (fun k _ => k)) (Cache.real 1)
        ([.pin 2, .put 1 1, .put 2 2, .put 3 3] ++ (rangeFrom 10 29).map (fun k => .put k k)) with
     | .ok c =>
        (match step (Cfg.real 1 false true (fun k _ => k)) c (.put 39 39) with
         | .ok (c', _, log) => decide (sGet c.core.st 2 = some 2 ∧ 2 ∈ c'.pins ∧ (2, true) ∈ log ∧ (3, false) ∈ log
              ∧ sGet c'.core.st 2 = some 2)
         | .error _ => false)
     | .error _ => false) = true := by
  decide +kernel

/-- `lock_table_same_lock`'s hypotheses are satisfiable: after `lockHistory` the reference `(5, 0)` is
still alive, 40 other locks came and went (their entries were evicted: at most capacity + 32 + 1 stay),
and asking for the lock of 5 again yields instance 0 -/
example :
    (match lrun (Cfg.real 1 true true (fun _ v => v)) (LockTable.init (Sketch.new 16)) lockHistory with
     | .ok t =>
        (match acquire (Cfg.real 1 true true (fun _ v => v)) t 5 with
         | .ok (_, id) => decide ((5, 0) ∈ t.handles ∧ id = 0 ∧ t.next = 41 ∧ t.cache.core.st.length < 41)
         | .error _ => false)
     | .error _ => false) = true := by
  decide +kernel

end QbiceVerif.C16
