import QbiceVerif.Model.ChunkJoin

/-!
# C02 — the join of an unordered group's chunk tasks does not depend on their completion order

`CJ` (Model/ChunkJoin.lean).  The chunk tasks of an unordered dependency group finish in an order the scheduler
chooses; what the parent concludes from them must not depend on it.
-/

namespace QbiceVerif.C02

open QbiceVerif.Lts

theorem CJ.join_or_flag (a : CJ.Acc) (cs : List CJ.Chunk) (hn : ∀ c ∈ cs, c.isRecompute = false) (ha : a.recompute = false) :
    (CJ.join false a cs).repairTfc = (a.repairTfc || cs.any CJ.Chunk.wantsTfc) ∧ (CJ.join false a cs).recompute = false := by
  induction cs generalizing a with
  | nil => simp [CJ.join, ha]
  | cons c cs ih =>
    have hc := hn c (List.mem_cons_self ..)
    cases c with
    | recompute => simp [CJ.Chunk.isRecompute] at hc
    | cleaned rt es =>
      have := ih { a with cleaned := a.cleaned ++ es, repairTfc := (a.repairTfc || rt) }
        (fun c hm => hn c (List.mem_cons_of_mem _ hm)) ha
      simp only [CJ.join, List.foldl_cons, CJ.joinStep, ha, Bool.false_eq_true, if_false] at this ⊢
      rw [this.1, this.2]
      simp [CJ.Chunk.wantsTfc, Bool.or_assoc]

/-- the code (the flag is OR-ed): whatever order the chunk tasks of the group complete in (`cs'` any permutation of
`cs`), if none asks for a recompute the parent rebuilds its firewall set iff SOME member reported a changed set (or an
earlier dependency did) — the same decision for every completion order. -/
theorem chunk_join_order_independent (a : CJ.Acc) (cs cs' : List CJ.Chunk) (hp : cs.Perm cs')
    (hn : ∀ c ∈ cs, c.isRecompute = false) (ha : a.recompute = false) :
    (CJ.join false a cs').repairTfc = (CJ.join false a cs).repairTfc ∧
    (CJ.join false a cs).repairTfc = (a.repairTfc || cs.any CJ.Chunk.wantsTfc) := by
  have h1 := CJ.join_or_flag a cs hn ha
  have h2 := CJ.join_or_flag a cs' (fun c hm => hn c (hp.mem_iff.mpr hm)) ha
  refine ⟨?_, h1.1⟩
  rw [h1.1, h2.1, hp.any_eq]

/-- SEEDED CHANGE C02-unordered-group-tfc-flag-overwritten — "the chunk that is joined last decides" (kernel-checked
witness, a 2-member group): member A is clean with the same value but now reaches firewall 7 (its set changed: it
reports `repairTfc = true`), member B is clean and reports `false`.  If A's task completes first the parent ends with
the flag `false`: `clean_query` keeps the caller's recorded firewall set `[]` although the union of its members' sets
is `[7]` — the callers above never learn about firewall 7, and an edit below it one epoch later leaves them verified
with a stale value.  In the other completion order the same code rebuilds the set; the OR-ing code rebuilds it in
both. -/
theorem last_chunk_decides_keeps_stale_firewall_set :
    let a0 : CJ.Acc := { recompute := false, repairTfc := false, cleaned := [] }
    let A := CJ.Chunk.cleaned true [1]
    let B := CJ.Chunk.cleaned false [2]
    CJ.newTfc (CJ.join true a0 [A, B]).repairTfc [] [[7], []] = [] ∧
    CJ.newTfc (CJ.join true a0 [B, A]).repairTfc [] [[7], []] = [7] ∧
    CJ.newTfc (CJ.join false a0 [A, B]).repairTfc [] [[7], []] = [7] ∧
    CJ.newTfc (CJ.join false a0 [B, A]).repairTfc [] [[7], []] = [7] := by
  decide

/-- …and it also wipes what an EARLIER single dependency (or an earlier group) had found: the accumulator enters the
group with the flag set and leaves it cleared -/
theorem last_chunk_decides_wipes_earlier_dependencies :
    (CJ.join true { recompute := false, repairTfc := true, cleaned := [0] } [.cleaned false [1], .cleaned false [2]]).repairTfc = false ∧
    (CJ.join false { recompute := false, repairTfc := true, cleaned := [0] } [.cleaned false [1], .cleaned false [2]]).repairTfc = true := by
  decide

/-- non-vacuity of `chunk_join_order_independent`: a 3-member group in two completion orders -/
example : (CJ.join false ⟨false, false, []⟩ [.cleaned false [1], .cleaned true [2], .cleaned false [3]]).repairTfc = true ∧
    (CJ.join false ⟨false, false, []⟩ [.cleaned true [2], .cleaned false [3], .cleaned false [1]]).repairTfc = true := by
  decide

end QbiceVerif.C02
