import QbiceVerif.Lemmas.EngineLtsCTProgress
import QbiceVerif.Lemmas.EngineLtsView
import QbiceVerif.Lemmas.EngineLtsSetWitness
import QbiceVerif.Lemmas.EngineLtsLock
import QbiceVerif.Lemmas.EngineLtsFull

/-!
# C02 — concurrent querying is sound, single-flight and terminates

Theorems over the three LTSs of `Model/EngineLts.lean`.  Every theorem about `CT` holds for every
state reachable from `CT.init roots maxCalls` by *any* schedule of the model's events: any number of
user requests on any keys (`roots : List Nat`, with repetitions), any number of nested requests per
executor (`maxCalls`), any interleaving, and any cancellation of nested requests by their caller (the
repair of an owner drops the remaining callee checks of an unordered group as soon as one asks for a
recomputation; a dropped owner's guard removes its entry and notifies without having published).  The theorems about `TS` hold for any threshold `T`, any
number of threads and any interleaving; those about `LT` for any number of tasks and keys and any
eviction behaviour of the cache that respects "referenced entries are pinned" (C16).
-/

namespace QbiceVerif.C02

open QbiceVerif.Lts

/-! ## computing table: single flight -/

/-- "one query key is never being executed by two executors at the same time": in every reachable
state two tasks that are between their `entry_sync` insertion and their `remove_sync` (executor
running, waiting for the exclusive lock, publishing, or about to remove the entry) for the same key
are the same task. -/
theorem single_flight {roots : List Nat} {B : Nat} {s : CT.State} (hr : CT.Reachable roots B s) {i j : Nat}
    (hi : (s.task i).pc.isOwner = true) (hj : (s.task j).pc.isOwner = true)
    (hk : (s.task i).key = (s.task j).key) : i = j := by
  have inv := CT.reachable_inv hr
  have h1 := inv.ownerTable i hi
  have h2 := inv.ownerTable j hj
  rw [hk, h2] at h1
  exact (Option.some.inj h1).symm

/-- …and a key is published at most once per epoch: the publication log is duplicate-free (the
per-query shared lock held from the fast path to the `entry_sync` makes the missed fast path and the
insertion atomic with respect to the publication, which needs the exclusive lock; only a cancelled
execution can be followed by another execution of the same key). -/
theorem published_at_most_once {roots : List Nat} {B : Nat} {s : CT.State} (hr : CT.Reachable roots B s) :
    (s.log.map Prod.fst).Nodup :=
  (CT.reachable_inv hr).logSpec.1

/-- non-vacuity of `single_flight`: two requests for key 5; task 0 owns the entry and runs the
executor, task 1 found the entry occupied and waits on it. -/
example : ∃ s, CT.Reachable [5, 5] 2 s ∧ (s.task 0).pc = .exec 2 ∧ (s.task 1).pc = .wait 0 ∧ s.table 5 = some 0 := by
  obtain ⟨s, hr, _, hp⟩ := CT.exists_of_runEvs (roots := [5, 5]) (B := 2)
    (evs := [.loopHead 0, .snap 0, .fast 0, .tryInsert 0, .loopHead 1, .snap 1, .fast 1, .tryInsert 1])
    (P := fun s => decide ((s.task 0).pc = .exec 2 ∧ (s.task 1).pc = .wait 0 ∧ s.table 5 = some 0)) (by decide)
  exact ⟨s, hr, of_decide_eq_true hp⟩

/-! ## computing table: no lost wake-up -/

/-- "a task waiting on key k ⇒ the table still holds k or the task has been notified": a task that
awaits a `Notified` future created on the entry of owner `o` and has not been woken yet finds that
entry still in the table, or `o` has removed it and is about to call `notify_waiters` (the two calls
of `ComputingLockGuard::done` are separate steps; `notifyA`: the same inside `Drop` of a cancelled owner).  This is where creating the future *inside* the
`entry_sync` / `read_sync` critical section matters. -/
theorem no_lost_wakeup {roots : List Nat} {B : Nat} {s : CT.State} (hr : CT.Reachable roots B s) {j o : Nat}
    (hw : (s.task j).pc.waitingOn = some o) (hn : (s.task j).woken = false) :
    s.table (s.task j).key = some o ∨ (s.task o).pc = .notify ∨ (s.task o).pc = .notifyA :=
  ((CT.reachable_inv hr).waitReg j o hw hn).2

/-- non-vacuity of `no_lost_wakeup` (second disjunct): the owner removed the entry, the waiter is
not woken yet, the owner is at `notify`. -/
example : ∃ s, CT.Reachable [5, 5] 0 s ∧ (s.task 1).pc.waitingOn = some 0 ∧ (s.task 1).woken = false ∧
    s.table 5 = none ∧ (s.task 0).pc = .notify := by
  obtain ⟨s, hr, _, hp⟩ := CT.exists_of_runEvs (roots := [5, 5]) (B := 0)
    (evs := [.loopHead 0, .snap 0, .fast 0, .tryInsert 0, .loopHead 1, .snap 1, .fast 1, .tryInsert 1,
             .execDone 0, .lockX 0, .publish 0, .remove 0])
    (P := fun s => decide ((s.task 1).pc.waitingOn = some 0 ∧ (s.task 1).woken = false ∧ s.table 5 = none ∧
      (s.task 0).pc = .notify)) (by decide)
  exact ⟨s, hr, of_decide_eq_true hp⟩

/-! ## computing table: every request completes -/

/-- "every request completes": every run from the initial state is finite — its length is bounded
by the variant `mu` of the initial state, which every event strictly decreases — and a run that
cannot be extended (no event enabled) ends with every request ended: returned, or dropped by its
caller; every user request has returned.  Nested requests go to smaller keys (acyclic program),
which is what makes the wait-for relation acyclic. -/
theorem all_complete {roots : List Nat} {B : Nat} {evs : List CT.Ev} {s : CT.State}
    (hr : CT.Run (CT.init roots B) evs s) :
    evs.length ≤ CT.mu (CT.init roots B) ∧
    ((∀ ev, CT.step s ev = none) →
      (∀ i, i < s.n → (s.task i).pc.ended = true) ∧
      (∀ i, i < s.n → (s.task i).parent = none → (s.task i).pc = .done)) := by
  have hinv := CT.inv_init roots B
  refine ⟨by have := CT.run_length_le hr hinv; omega, ?_⟩
  intro hmax
  have hinv' := CT.run_inv hr hinv
  have hall : ∀ i, i < s.n → (s.task i).pc.ended = true := by
    intro i hi
    cases hnd : (s.task i).pc.ended
    · obtain ⟨ev, s', hs⟩ := CT.progress_key hinv' _ i hi rfl hnd
      rw [hmax ev] at hs
      cases hs
    · rfl
  refine ⟨hall, ?_⟩
  intro i hi hp
  have h1 := hall i hi
  have h2 := (hinv'.rootsAlive i hp).1
  cases hpc : (s.task i).pc <;> simp_all [CT.Pc.ended]

/-- every event strictly decreases the variant (the step that makes `all_complete` work) -/
theorem variant_decreases {roots : List Nat} {B : Nat} {s s' : CT.State} {ev : CT.Ev}
    (hr : CT.Reachable roots B s) (h : CT.step s ev = some s') : CT.mu s' < CT.mu s :=
  CT.step_decreases (CT.reachable_inv hr) h

/-- …and a reachable state with an unfinished request always has an enabled event (no deadlock) -/
theorem no_deadlock {roots : List Nat} {B : Nat} {s : CT.State} (hr : CT.Reachable roots B s) {i : Nat}
    (hi : i < s.n) (hnd : (s.task i).pc.ended = false) : ∃ ev s', CT.step s ev = some s' :=
  CT.progress_key (CT.reachable_inv hr) _ i hi rfl hnd

/-- non-vacuity of `all_complete`: a complete run of one user request on key 1 whose executor
queries key 0 (a nested request that itself becomes an owner): 28 events, all requests returned,
both keys published once, key 0 before key 1. -/
example : ∃ s, CT.Run (CT.init [1] 1) [.loopHead 0, .snap 0, .fast 0, .tryInsert 0, .call 0 0,
      .loopHead 1, .snap 1, .fast 1, .tryInsert 1, .execDone 1, .lockX 1, .publish 1, .remove 1, .notify 1,
      .loopHead 1, .snap 1, .fast 1,
      .execDone 0, .lockX 0, .publish 0, .remove 0, .notify 0, .loopHead 0, .snap 0, .fast 0] s ∧
    s.n = 2 ∧ (s.task 0).pc = .done ∧ (s.task 1).pc = .done ∧ s.log = [(1, 0), (0, 1)] := by
  obtain ⟨s, _, hrun, hp⟩ := CT.exists_of_runEvs (roots := [1]) (B := 1)
    (evs := [.loopHead 0, .snap 0, .fast 0, .tryInsert 0, .call 0 0,
      .loopHead 1, .snap 1, .fast 1, .tryInsert 1, .execDone 1, .lockX 1, .publish 1, .remove 1, .notify 1,
      .loopHead 1, .snap 1, .fast 1,
      .execDone 0, .lockX 0, .publish 0, .remove 0, .notify 0, .loopHead 0, .snap 0, .fast 0])
    (P := fun s => decide (s.n = 2 ∧ (s.task 0).pc = .done ∧ (s.task 1).pc = .done ∧ s.log = [(1, 0), (0, 1)])) (by decide)
  exact ⟨s, hrun, of_decide_eq_true hp⟩

/-! ## computing table: the concurrent run is a sequential run in publication order -/

/-- non-vacuity with a cancellation: the executor of key 2 (task 0) queries key 1 (task 1, which
becomes an owner), then cancels it; the dropped guard removes the entry and notifies without
publishing; task 0 then queries key 1 again (task 2), which executes and publishes it; everything
ends, the user request returns, key 1 is published once (by task 2). -/
example : ∃ s, CT.Reachable [2] 2 s ∧ (s.task 0).pc = .done ∧ (s.task 1).pc = .gone ∧ (s.task 2).pc = .done ∧
    s.log = [(2, 0), (1, 2)] := by
  obtain ⟨s, hr, _, hp⟩ := CT.exists_of_runEvs (roots := [2]) (B := 2)
    (evs := [.loopHead 0, .snap 0, .fast 0, .tryInsert 0, .call 0 1,
      .loopHead 1, .snap 1, .fast 1, .tryInsert 1, .abort 1, .removeA 1, .notifyA 1, .call 0 1,
      .loopHead 2, .snap 2, .fast 2, .tryInsert 2, .execDone 2, .lockX 2, .publish 2, .remove 2, .notify 2,
      .loopHead 2, .snap 2, .fast 2,
      .execDone 0, .lockX 0, .publish 0, .remove 0, .notify 0, .loopHead 0, .snap 0, .fast 0])
    (P := fun s => decide ((s.task 0).pc = .done ∧ (s.task 1).pc = .gone ∧ (s.task 2).pc = .done ∧
      s.log = [(2, 0), (1, 2)])) (by decide)
  exact ⟨s, hr, of_decide_eq_true hp⟩

/-- `conc_refines_seq_partial` — the protocol-level half of "every returned value equals the
from-scratch value": in every reachable state
* the publication log is duplicate-free and lists exactly the verified keys (each key is published
  once per epoch),
* a request only returns a published key,
* for the execution that published a key (`(key i, i) ∈ log`), every nested request it was handed a
  value from (`pc j = done`) had its key published before, and all its nested requests have ended.
So replaying the publishing executions one at a time in log order — a run of the sequential engine
of C01 — meets, at every nested query, a key that is already published (a fast-path hit) and
therefore hands every executor the same values as the concurrent run did. -/
theorem conc_refines_seq_partial {roots : List Nat} {B : Nat} {s : CT.State} (hr : CT.Reachable roots B s) :
    (s.log.map Prod.fst).Nodup ∧ (∀ k, k ∈ s.log.map Prod.fst ↔ s.verified k = true) ∧
    (∀ i, i < s.n → (s.task i).pc = .done → (s.task i).key ∈ s.log.map Prod.fst) ∧
    (∀ i j, ((s.task i).key, i) ∈ s.log → (s.task j).parent = some i →
      (s.task j).pc.ended = true ∧
      ((s.task j).pc = .done → CT.PublishedBefore (s.task j).key (s.task i).key (s.log.map Prod.fst))) := by
  have inv := CT.reachable_inv hr
  exact ⟨inv.logSpec.1, inv.logSpec.2, fun i hi hd => (inv.logSpec.2 _).2 (inv.doneReal i hi hd),
    fun i j hm hp => ⟨inv.publishedChildren i j hm hp, fun hd => inv.depOrder i j hp hd hm⟩⟩

/-- The end-to-end statement of C02 for a value-level concurrent engine `E` (an LTS whose states
expose the committed inputs and the values returned to user requests so far): every returned value
is the from-scratch value of the sequential specification of C01.  It is NOT proved here: no
value-level concurrent model was built; `conc_refines_seq_partial`, `single_flight`,
`published_at_most_once` and `tiered_set_linearizable` are the protocol-level facts such a proof
would compose with C01's `core_history_sound`. -/
def C02_full_statement (E : Lts.ConcEngine) : Prop :=
  ∀ (p : Qbice.Core.Program), Qbice.Core.WF p → ∀ (evs : List E.Ev) (s : E.State), E.run (E.init p) evs = some s →
    ∀ kv ∈ E.returned s, Qbice.Core.evalSpec p (E.inputs s) (fun k => (p[k]?).map (·.ext (fun _ => 0)))
      (Qbice.Core.fuelFor p) kv.1 = some kv.2

/-! ## what trace validation validates -/

/-- The hook events of the implementation carry no task identity, so the driver replays them through
`CT.kStep`, the shared state of the model seen from one key.  This is sound for the model: the hook
events emitted along ANY run of the `CT` model (`CT.traceOf`: `reg`/`vacant`/`none` at the table
accesses, `hit`/`miss` at the fast path, `publish`, `done` between `remove_sync` and
`notify_waiters`, `woken`) are accepted by the driver's replay (`CT.kRun`) from the empty views, and
the views stay related to the model state (verified flag, table entry, waiter counts).  So a `REJECT`
of the driver is a behaviour outside the model, never an artefact of the projection. -/
theorem hook_traces_accepted {roots : List Nat} {B : Nat} {evs : List CT.Ev} {s : CT.State}
    (hr : CT.Run (CT.init roots B) evs s) :
    ∃ v, CT.kRun (fun _ => {}) (CT.traceOf (CT.init roots B) evs) = some v ∧ ∀ k, CT.R s k (v k) :=
  CT.trace_accepted hr _ (CT.inv_init roots B) (fun k => CT.R_init roots B k)

/-- non-vacuity: the complete run of `all_complete`'s example emits 10 hook events -/
example : (CT.traceOf (CT.init [1] 1) [.loopHead 0, .snap 0, .fast 0, .tryInsert 0, .call 0 0,
      .loopHead 1, .snap 1, .fast 1, .tryInsert 1, .execDone 1, .lockX 1, .publish 1, .remove 1, .notify 1,
      .loopHead 1, .snap 1, .fast 1,
      .execDone 0, .lockX 0, .publish 0, .remove 0, .notify 0, .loopHead 0, .snap 0, .fast 0]) =
    [(1, .miss), (1, .vacant 0), (0, .miss), (0, .vacant 1), (0, .publish), (0, .done_ 1), (0, .hit),
     (1, .publish), (1, .done_ 0), (1, .hit)] := by
  decide

/-! ## tiered backward-edge set -/

/-- "a dependency recorded by one of many concurrent callers of the same callee is never lost"
— for the REPAIRED `insert_element` (conversion under the outer write lock with a re-check), any
threshold `T`, any number of threads, any interleaving: the completed operations, in the order of
their completing events (each of which lies between the operation's invocation and its return),
form a legal sequential history of a set whose final content is the content of the store.  That is
linearizability with the completing event as linearization point. -/
theorem tiered_set_linearizable {T : Nat} {s : TS.State} (hr : TS.Reachable T true s) :
    TS.Legal [] s.hist s.store.content ∧ s.store.content.Nodup :=
  ⟨(TS.reachable_inv hr).legal, (TS.reachable_inv hr).nodup⟩

/-- the linearization points: every event of the repaired set either completes an operation — the
content then changes exactly as the sequential specification says and the operation returns the
specified value — or changes nothing observable. -/
theorem tiered_set_linearization_points {T : Nat} {s s' : TS.State} {ev : TS.Ev} {o : Option TS.Ret}
    (hr : TS.Reachable T true s) (h : TS.step s ev = some (s', o)) :
    (∃ t op r, o = some r ∧ s'.hist = s.hist ++ [(t, op, r)] ∧ TS.specOk s.store.content op r s'.store.content
        ∧ s'.store.content.Nodup) ∨
    (o = none ∧ s'.hist = s.hist ∧ s'.store.content = s.store.content) :=
  TS.fixed_step_refines (TS.reachable_inv hr) h

/-- "an insert that returned is visible to every later iter" (repaired set, any threshold): if an
`insert x` completed, then an `iter` that took its guards later, with no `remove x` completed in
between, returns `x`. -/
theorem insert_visible_to_later_iter {T : Nat} {s : TS.State} (hr : TS.Reachable T true s)
    {h1 h2 h3 : List (Nat × TS.Op × TS.Ret)} {t t' x : Nat} {r : TS.Ret} {l : List Nat}
    (hh : s.hist = (h1 ++ (t, .ins x, r) :: h2) ++ [(t', .iter, .list l)] ++ h3)
    (hno : ∀ e ∈ h2, e.2.1 ≠ .rem x) : x ∈ l := by
  have hl := (TS.reachable_inv hr).legal
  obtain ⟨c1, hc1⟩ := TS.legal_prefix hl _ h3 hh
  obtain ⟨rfl, hc2⟩ := TS.legal_iter_content hc1
  exact TS.legal_mem_of_insert hc2 h1 h2 t x r rfl hno

/-- non-vacuity of the three theorems above: the repaired set with threshold 1 under the race that
breaks the as-is code: thread 0 finds the vector full and leaves for the upgrade; thread 1 comes in
meanwhile (it finds the vector still full — nothing was drained — and leaves for the upgrade too);
thread 0 converts under the write lock; thread 1's re-check finds `Large` and inserts; the later
`iter` sees 10, 11 and 12. -/
example : ∃ s, TS.Reachable 1 true s ∧
    s.hist = [(0, .ins 10, .bool true), (0, .ins 11, .bool true), (1, .ins 12, .bool true), (1, .iter, .list [10, 11, 12])] := by
  obtain ⟨s, _, hr, _, hp⟩ := TS.exists_of_run (T := 1) (f := true)
    (evs := [.ins 0 10, .ins 0 11, .ins 1 12, .upgrade 0, .upgrade 1, .iterBegin 1])
    (P := fun s _ => decide (s.hist = [(0, .ins 10, .bool true), (0, .ins 11, .bool true), (1, .ins 12, .bool true),
      (1, .iter, .list [10, 11, 12])])) (by decide)
  exact ⟨s, hr, of_decide_eq_true hp⟩

/-- FINDING F6 (HISTORICAL: fixed in /repo by e992d9e; `fixed = false` below is the code before it) — the statement above FAILS for that code.  Witness (threshold 1, 2 threads):
thread 0 inserts 10; thread 0 inserts 11, finds the vector full, drains it into its local set and
drops both locks; thread 1 inserts 12 into the (now empty) small vector and returns `true`; thread
0 stores `Large{10, 11}`; thread 1 — after its own insert returned — iterates and gets `[10, 11]`:
its element is lost although no remove was ever invoked.  (Both operations are by the same thread,
one after the other, so no linearization exists.) -/
theorem asis_lost_insert_T1 :
    ∃ s, TS.Reachable 1 false s ∧
      s.hist = [(0, .ins 10, .bool true), (1, .ins 12, .bool true), (0, .ins 11, .bool true), (1, .iter, .list [10, 11])] := by
  obtain ⟨s, _, hr, _, hp⟩ := TS.exists_of_run (T := 1) (f := false)
    (evs := [.ins 0 10, .ins 0 11, .ins 1 12, .publish 0, .iterBegin 1])
    (P := fun s _ => decide (s.hist = [(0, .ins 10, .bool true), (1, .ins 12, .bool true), (0, .ins 11, .bool true),
      (1, .iter, .list [10, 11])])) (by decide)
  exact ⟨s, hr, of_decide_eq_true hp⟩

/-- the schedule forced on the real `CompressedBackwardEdgeSet` by the harness (threshold 32 as in
the code): 32 sequential inserts, then the same race; the later `iter` lacks 200. -/
def f6Schedule : List TS.Ev :=
  (List.range 32).map (fun i => TS.Ev.ins 0 i) ++ [.ins 0 100, .ins 1 200, .publish 0, .iterBegin 1]

theorem asis_lost_insert_T32 :
    ∃ s outs, TS.Reachable 32 false s ∧ TS.run (TS.init 32 false) f6Schedule = some (s, outs) ∧
      outs.drop 32 = [none, some (.bool true), some (.bool true), some (.list (List.range 32 ++ [100]))] := by
  obtain ⟨s, outs, hr, hrun, hp⟩ := TS.exists_of_run (T := 32) (f := false) (evs := f6Schedule)
    (P := fun _ outs => decide (outs.drop 32 = [none, some (.bool true), some (.bool true),
      some (.list (List.range 32 ++ [100]))])) (by decide +kernel)
  exact ⟨s, outs, hr, hrun, of_decide_eq_true hp⟩

/-- consequently `insert_visible_to_later_iter` is false for the as-is model -/
theorem asis_insert_not_visible :
    ¬ (∀ (s : TS.State), TS.Reachable 1 false s →
        ∀ (h1 h2 h3 : List (Nat × TS.Op × TS.Ret)) (t t' x : Nat) (r : TS.Ret) (l : List Nat),
          s.hist = (h1 ++ (t, .ins x, r) :: h2) ++ [(t', .iter, .list l)] ++ h3 →
          (∀ e ∈ h2, e.2.1 ≠ .rem x) → x ∈ l) := by
  intro h
  obtain ⟨s, hr, hh⟩ := asis_lost_insert_T1
  have := h s hr [(0, .ins 10, .bool true)] [(0, .ins 11, .bool true)] [] 1 1 12 (.bool true) [10, 11]
    (by rw [hh]; rfl) (by decide)
  revert this
  decide

/-- …and for EVERY threshold `T ≥ 1` (32 in the code): the as-is set has a reachable state in which
an insert that returned `true` is missing from a later iteration although nothing was removed. -/
theorem asis_insert_not_visible_any_threshold (T : Nat) (hT : 1 ≤ T) :
    ¬ (∀ (s : TS.State), TS.Reachable T false s →
        ∀ (h1 h2 h3 : List (Nat × TS.Op × TS.Ret)) (t t' x : Nat) (r : TS.Ret) (l : List Nat),
          s.hist = (h1 ++ (t, .ins x, r) :: h2) ++ [(t', .iter, .list l)] ++ h3 →
          (∀ e ∈ h2, e.2.1 ≠ .rem x) → x ∈ l) := by
  intro h
  obtain ⟨s, h1, l, hr, hh, _, hnl⟩ := TS.asis_lost_insert_any T hT
  exact hnl (h s hr h1 [(0, .ins T, .bool true)] [] 1 1 (T + 1) (.bool true) l hh (by simp))

/-! ## lock table -/

/-- "two tasks that hold or wait for the lock of one key hold the same instance", in every
reachable state of the lock table, whatever the cache evicts among the entries nobody references
(`ActiveLockLifecycleListener::is_pinned` = strong count > 1; that the cache honours it is C16's
`pinned_never_evicted`; C16's `lock_table_same_lock` proves the same over the real TinyLFU model for
atomic acquisitions — here `hot.get`, the allocation and `hot.entry` are separate steps of
concurrent tasks and the reference is held across the `.await`). -/
theorem same_lock {n : Nat} {s : LT.State} (hr : LT.Reachable n s) {t1 t2 k i1 i2 : Nat}
    (h1 : s.pc t1 = .holding k i1) (h2 : s.pc t2 = .holding k i2) : i1 = i2 := by
  have inv := LT.reachable_inv hr
  have a := inv.held t1 k i1 h1
  have b := inv.held t2 k i2 h2
  rw [a] at b
  exact Option.some.inj b

/-- non-vacuity: two tasks miss concurrently, both allocate, the second `entry` finds the first's
instance; the entry is not evictable; after both release it is, and a later acquisition gets a new
instance. -/
example :
    (match (LT.step (LT.init 2) (.getMiss 0 7)).bind (LT.step · (.getMiss 1 7)) |>.bind (LT.step · (.entry 0))
        |>.bind (LT.step · (.entry 1)) with
     | some s => decide (s.pc 0 = .holding 7 0 ∧ s.pc 1 = .holding 7 0 ∧ LT.step s (.evict 7) = none ∧ s.next = 2)
     | none => false) = true := by
  decide

end QbiceVerif.C02
