/-
Property C12, nested interned handles — "… interned handles - yields a value equal to the original,
consuming exactly the bytes that were written.  Encodings are self-delimiting …" for values in which the
payload of an interned handle contains interned handles itself (trees and DAGs, any depth, any sharing).

Model: `Model/CodecNested` (`enc` / `dec` = `impl Encode/Decode for Interned<T>` of
`/repo/crates/storage/src/intern.rs` composed with the container impls of `/repo/crates/serialize`),
tied to the code byte for byte by `tools/props/c12.py` (ops `N|…`).  No statement carries a depth,
width or sharing bound; `fuel` is only the recursion device of the decoder (types may be recursive) and
`v.need` units are proved sufficient.
-/
import QbiceVerif.Lemmas.CodecNested

namespace QbiceVerif.Codec.C12Nested

open QbiceVerif.Codec QbiceVerif.Codec.Nested

/-- *"Decoding the bytes produced by encoding any value … interned handles - yields a value equal to the
original, consuming exactly the bytes that were written. Encodings are self-delimiting"* — for every type
environment `env` (recursive types allowed), every type `t`, every well-typed value `v` whose handles nest
to any depth and share sub-values in any way, every decoder-side interner `I` in good state (`IOk`: empty,
or the encoder's own, or any other whose live values were interned through it), any bytes `rest`
following and any `fuel ≥ v.need`:
decoding `encodeTop t v ++ rest` succeeds (no reference misses — the `expect` of `Decode for Interned` does
not fire —, no tag is invalid), leaves exactly `rest`, and yields `d` with `d.erase = v` (the value,
forgetting allocation identities); the interner only grows (`le`), stays in good state, and `d` is canonical
in it (`Canon`: every handle of `d`, at any depth, points to the slot filed under (type id, hash of its
payload) and that slot holds the handle's payload — see `C15Nested.interned_sharing_nested`).

Hypothesis (the same as in the flat `interned_roundtrip`): on the set `S` containing every handle payload
that occurs in `v` (any depth) and in the interner, `hash tid ·` is injective for each type id `tid`, and
hashes are 128-bit. -/
theorem interned_roundtrip_nested {env : Nat → NTy} {hash : Nat → NVal → Nat} {S : Nat → NVal → Prop}
    (hinj : ∀ tid p₁ p₂, S tid p₁ → S tid p₂ → hash tid p₁ = hash tid p₂ → p₁ = p₂)
    (hbound : ∀ tid p, S tid p → hash tid p < 2 ^ 128)
    (t : NTy) (v : NVal) (hwt : wtN env t v = true) (hS : ∀ x ∈ v.handles, S x.1 x.2)
    (I : NInterner) (hI : IOk hash S I) (rest : Bytes) (fuel : Nat) (hfuel : v.need ≤ fuel) :
    ∃ d I', dec true env hash fuel t (encodeTop env hash t v ++ rest) I = .ok (d, rest, I') ∧ d.erase = v ∧
      NInterner.le I I' ∧ IOk hash S I' ∧ Canon hash I' d := by
  obtain ⟨d, I', h1, h2, h3⟩ :=
    dec_enc_v (env := env) hinj hbound 0 v t [] I [] rest fuel hwt hS (IOkN_zero_iff.2 hI) (Nat.zero_le _)
      (fun k hk => by cases hk) (fun y hy => by cases hy) hfuel
  refine ⟨d, I', h1, h2, h3.le, IOkN_zero_iff.1 h3.ok, ?_⟩
  have := h3.canon
  rwa [handlesAbove_zero] at this

/-- The same with the hypothesis on the decoder-side interner WEAKENED to what the repaired decoder (/repo 8f43b2a:
the decode session keeps every handle it produced alive) needs — `IOkW`: every live entry's payload lies in the
collision-free universe and is filed under its own hash; NO canonicity of the live values is assumed, so a live
value may hold `Interned::new_duplicating` handles that the interner knows nothing about (finding F61's history).
Then still: decoding succeeds, consumes exactly, `d.erase = v`, the interner only grows and keeps its integrity;
and canonicity holds for everything this decode produced: `d.handlesAbove I.length` = every handle of `d`, not
descending into allocations that already existed before the call (slot `< I.length`) — such an allocation is
returned as it is, and what a non-canonical live value holds inside cannot be claimed canonical.  (`IOkW` cannot
be dropped: an entry filed under a hash that is not its payload's is a corrupted interner, C15's `canonical`.) -/
theorem interned_roundtrip_nested_weak {env : Nat → NTy} {hash : Nat → NVal → Nat} {S : Nat → NVal → Prop}
    (hinj : ∀ tid p₁ p₂, S tid p₁ → S tid p₂ → hash tid p₁ = hash tid p₂ → p₁ = p₂)
    (hbound : ∀ tid p, S tid p → hash tid p < 2 ^ 128)
    (t : NTy) (v : NVal) (hwt : wtN env t v = true) (hS : ∀ x ∈ v.handles, S x.1 x.2)
    (I : NInterner) (hI : IOkW hash S I) (rest : Bytes) (fuel : Nat) (hfuel : v.need ≤ fuel) :
    ∃ d I', dec true env hash fuel t (encodeTop env hash t v ++ rest) I = .ok (d, rest, I') ∧ d.erase = v ∧
      NInterner.le I I' ∧ IOkW hash S I' ∧ CanonH hash I' (d.handlesAbove I.length) := by
  obtain ⟨d, I', h1, h2, h3⟩ :=
    dec_enc_v (env := env) hinj hbound I.length v t [] I [] rest fuel hwt hS (IOkN_length_of_IOkW hI) (Nat.le_refl _)
      (fun k hk => by cases hk) (fun y hy => by cases hy) hfuel
  exact ⟨d, I', h1, h2, h3.le, IOkW_of_IOkN h3.ok, h3.canon⟩

/-- *"values written back to back are read back in the same sequence"*, with the second value decoded
against the interner the first one left behind (two top-level calls, two sessions, one interner — the
shared-interner case), and the first against an arbitrary good interner. -/
theorem back_to_back_nested {env : Nat → NTy} {hash : Nat → NVal → Nat} {S : Nat → NVal → Prop}
    (hinj : ∀ tid p₁ p₂, S tid p₁ → S tid p₂ → hash tid p₁ = hash tid p₂ → p₁ = p₂)
    (hbound : ∀ tid p, S tid p → hash tid p < 2 ^ 128)
    (t₁ t₂ : NTy) (v₁ v₂ : NVal) (hw₁ : wtN env t₁ v₁ = true) (hw₂ : wtN env t₂ v₂ = true)
    (hS₁ : ∀ x ∈ v₁.handles, S x.1 x.2) (hS₂ : ∀ x ∈ v₂.handles, S x.1 x.2)
    (I : NInterner) (hI : IOk hash S I) (rest : Bytes) (fuel : Nat) (hf₁ : v₁.need ≤ fuel) (hf₂ : v₂.need ≤ fuel) :
    ∃ d₁ I₁ d₂ I₂,
      dec true env hash fuel t₁ (encodeTop env hash t₁ v₁ ++ (encodeTop env hash t₂ v₂ ++ rest)) I
        = .ok (d₁, encodeTop env hash t₂ v₂ ++ rest, I₁) ∧
      dec true env hash fuel t₂ (encodeTop env hash t₂ v₂ ++ rest) I₁ = .ok (d₂, rest, I₂) ∧
      d₁.erase = v₁ ∧ d₂.erase = v₂ ∧ Canon hash I₂ d₁ ∧ Canon hash I₂ d₂ := by
  obtain ⟨d₁, I₁, h1, h2, _, h4, h5⟩ := interned_roundtrip_nested hinj hbound t₁ v₁ hw₁ hS₁ I hI
    (encodeTop env hash t₂ v₂ ++ rest) fuel hf₁
  obtain ⟨d₂, I₂, g1, g2, g3, _, g5⟩ := interned_roundtrip_nested hinj hbound t₂ v₂ hw₂ hS₂ I₁ h4 rest fuel hf₂
  exact ⟨d₁, I₁, d₂, I₂, h1, g1, h2, g2, CanonH.mono g3 h5, g5⟩

/-- Histories on one long-lived interner (encode / decode and keep / decode and drop / drop / vacuum, in any
order).  EXPLICIT MODELLING HYPOTHESIS: the decoder-side interner of the theorems holds LIVE entries only — a dead
weak entry (value interned or decoded earlier, every handle dropped, no vacuum since) counts as absent, as it does
for the code's `intern`, `intern_unsized` and `get_from_hash`.  Under it, whatever happened before, the interner is
the one the values alive at that moment (`alive`, any list, in any order) leave behind, `aliveInterner`; it exists,
is in good state (`IOk`), and decoding any encoding through it round-trips exactly and canonically: the handles of
`d` that equal a part of an alive value are that value's allocations (`Canon` in an extension of the interner).
The harness stage `history` is the empirical counterpart: real histories on a real interner with dead entries. -/
theorem interned_roundtrip_history {env : Nat → NTy} {hash : Nat → NVal → Nat} {S : Nat → NVal → Prop}
    (hinj : ∀ tid p₁ p₂, S tid p₁ → S tid p₂ → hash tid p₁ = hash tid p₂ → p₁ = p₂)
    (hbound : ∀ tid p, S tid p → hash tid p < 2 ^ 128) (fuel : Nat)
    (alive : List (NTy × NVal))
    (halive : ∀ tv ∈ alive, wtN env tv.1 tv.2 = true ∧ (∀ x ∈ tv.2.handles, S x.1 x.2) ∧ tv.2.need ≤ fuel)
    (t : NTy) (v : NVal) (hwt : wtN env t v = true) (hS : ∀ x ∈ v.handles, S x.1 x.2) (hfuel : v.need ≤ fuel)
    (rest : Bytes) :
    ∃ I, aliveInterner env hash fuel alive [] = some I ∧ IOk hash S I ∧
      ∃ d I', dec true env hash fuel t (encodeTop env hash t v ++ rest) I = .ok (d, rest, I') ∧ d.erase = v ∧
        NInterner.le I I' ∧ Canon hash I' d := by
  have key : ∀ (vs : List (NTy × NVal)) (I₀ : NInterner), IOk hash S I₀ →
      (∀ tv ∈ vs, wtN env tv.1 tv.2 = true ∧ (∀ x ∈ tv.2.handles, S x.1 x.2) ∧ tv.2.need ≤ fuel) →
      ∃ I, aliveInterner env hash fuel vs I₀ = some I ∧ IOk hash S I := by
    intro vs
    induction vs with
    | nil => intro I₀ h₀ _; exact ⟨I₀, rfl, h₀⟩
    | cons tv vs ih =>
      intro I₀ h₀ hall
      obtain ⟨t', v'⟩ := tv
      obtain ⟨h1, h2, h3⟩ := hall (t', v') List.mem_cons_self
      obtain ⟨d, I₁, hd, _, _, hI₁, _⟩ := interned_roundtrip_nested hinj hbound t' v' h1 h2 I₀ h₀ [] fuel h3
      obtain ⟨I, hI, hok⟩ := ih I₁ hI₁ (fun tv h => hall tv (List.mem_cons_of_mem _ h))
      refine ⟨I, ?_, hok⟩
      simp only [List.append_nil] at hd
      simp only [aliveInterner, hd]
      exact hI
  obtain ⟨I, hI, hok⟩ := key alive [] (by intro k s p h; simp [NInterner.find] at h) halive
  obtain ⟨d, I', h1, h2, h3, _, h5⟩ := interned_roundtrip_nested hinj hbound t v hwt hS I hok rest fuel hfuel
  exact ⟨I, hI, hok, d, I', h1, h2, h3, h5⟩

/-! ### non-vacuity: a DAG with a diamond, depth 3, recursive types, a handle inside and outside a payload -/

/-- type 0 = `Node { label: u8, kids: Vec<Interned<Node>>, name: Option<Interned<String>> }`,
    type 1 = `String`, type 2 = `enum Expr { Nil, Ref(Interned<Node>), Cons(Interned<Expr>, u16) }` -/
def exEnv : Nat → NTy
  | 0 => .tuple [.plain (.uint .w8), .seq (.handle 0), .opt (.handle 1)]
  | 1 => .plain .str
  | _ => .enum [.tuple [], .tuple [.handle 0], .tuple [.handle 2, .plain (.uint .w16)]]

def none' : NVal := .tagged 0 (.list [])
def nm : NVal := .handle 1 (.plain (.bytes [0x68, 0x69]))
def leaf : NVal := .handle 0 (.list [.plain (.nat 1), .list [], none'])
def nA : NVal := .handle 0 (.list [.plain (.nat 2), .list [leaf], .tagged 1 nm])
def nB : NVal := .handle 0 (.list [.plain (.nat 3), .list [leaf, leaf], none'])
/-- root → {A, B, leaf}, A → leaf, B → leaf (diamond); depth 3 -/
def root : NVal := .handle 0 (.list [.plain (.nat 4), .list [nA, nB, leaf], .tagged 1 nm])
/-- `(Interned<Node>, Interned<Expr>, Interned<Node>)`: the leaf occurs outside any payload after having been
    written inside `root`'s, `Cons(Ref(A), 300)` refers to `A` from inside another handle's payload -/
def exTy : NTy := .tuple [.handle 0, .handle 2, .handle 0]
def exE : NVal := .handle 2 (.tagged 2 (.list [.handle 2 (.tagged 1 (.list [nA])), .plain (.nat 300)]))
def exVal : NVal := .list [root, exE, leaf]

/-- a toy hash, injective on the handles of `exVal`: the node label, 10 for the string, 20/21 for the `Expr`s -/
def exHash : Nat → NVal → Nat
  | 0, .list (.plain (.nat n) :: _) => n
  | 1, _ => 10
  | 2, .tagged i _ => 20 + i
  | _, _ => 0

example : wtN exEnv exTy exVal = true := by decide
/-- `need` is the size of the value as a tree (shared parts counted at every occurrence): an upper bound of what
    the decoder uses — references cost one unit (41 suffice below) -/
example : exVal.need = 114 := by decide

/-- the encoding: every distinct handle is written in full exactly once (tag 0), the six other occurrences
    are references (tag 1 + two-varint hash) — whether the first occurrence was inside a payload or not -/
example : encodeTop exEnv exHash exTy exVal =
    [0, 4, 3,                       -- root: label 4, three kids
       0, 2, 1,                     --   A in full: label 2, one kid
          0, 1, 0, 0,               --     leaf in full (no kid, no name)
          1, 0, 2, 0x68, 0x69,      --     Some(name in full)
       0, 3, 2, 1, 1, 0, 1, 1, 0, 0,--   B in full: two kids = two references to the leaf; None
       1, 1, 0,                     --   leaf: reference
       1, 1, 10, 0,                 -- Some(name: reference)
     0, 2,                          -- Expr::Cons in full
       0, 1, 1, 2, 0,               --   Expr::Ref in full, holding a reference to A
       0xAC, 0x02,                  --   300
     1, 1, 0] := by decide          -- the leaf outside any payload: a reference

/-- decoding with a fresh interner: allocation identities (slots) of all handles in pre-order.  The leaf
    is slot 0 in all five places (inside A, twice inside B, as root's kid, at top level), A is slot 2 both as
    root's kid and inside the `Expr`, the name is slot 1 twice; exact consumption (3 junk bytes left). -/
example : (match dec true exEnv exHash 41 exTy (encodeTop exEnv exHash exTy exVal ++ [7, 8, 9]) [] with
    | .ok (d, rest, I') => (d.handles.map (fun x => (x.1, x.2.1)), rest, I'.length)
    | .error _ => ([], [], 99)) =
    ([(0, 4), (0, 2), (0, 0), (1, 1), (0, 3), (0, 0), (0, 0), (0, 0), (1, 1), (2, 6), (2, 5), (0, 2), (0, 0), (1, 1), (0, 0)],
      [7, 8, 9], 7) := by decide

/-- one unit of fuel too few is reported as such (never a default) -/
example : (match dec true exEnv exHash 12 exTy (encodeTop exEnv exHash exTy exVal) [] with
    | .error e => e = .outOfFuel | .ok _ => false) = true := by decide

/-- the table is filled AFTER the payload: a reference to a handle whose payload is still being read misses
    (`Cons(<reference to the handle being read>, 5)` — what a hash collision between a value and one of its
    descendants would produce) -/
example : (match dec true exEnv exHash 9 (.handle 2) [0, 2, 1, 21, 0, 5] [] with
    | .error e => e = .panic | .ok _ => false) = true := by decide

/-- the hypotheses of `interned_roundtrip_nested` are satisfiable on this DAG -/
example : ∃ d I', dec true exEnv exHash 114 exTy (encodeTop exEnv exHash exTy exVal ++ [7]) [] = .ok (d, [7], I') ∧
    d.erase = exVal ∧ Canon exHash I' d := by
  have hS : ∀ x ∈ exVal.handles, (fun tid p => (tid, p) ∈ exVal.handles) x.1 x.2 := fun x hx => hx
  obtain ⟨d, I', h1, h2, _, _, h5⟩ := interned_roundtrip_nested (env := exEnv) (hash := exHash)
    (S := fun tid p => (tid, p) ∈ exVal.handles) (by
      intro tid p₁ p₂ h₁ h₂ he
      simp only [exVal, root, exE, nA, nB, leaf, nm, none', NVal.handles, NVal.handlesL, List.append_nil, List.cons_append,
        List.nil_append, List.mem_cons, Prod.mk.injEq, List.not_mem_nil, or_false] at h₁ h₂
      rcases h₁ with ⟨rfl, rfl⟩ | ⟨rfl, rfl⟩ | ⟨rfl, rfl⟩ | ⟨rfl, rfl⟩ | ⟨rfl, rfl⟩ | ⟨rfl, rfl⟩ | ⟨rfl, rfl⟩ | ⟨rfl, rfl⟩ |
          ⟨rfl, rfl⟩ | ⟨rfl, rfl⟩ | ⟨rfl, rfl⟩ | ⟨rfl, rfl⟩ | ⟨rfl, rfl⟩ | ⟨rfl, rfl⟩ | ⟨rfl, rfl⟩ <;>
        rcases h₂ with ⟨h, rfl⟩ | ⟨h, rfl⟩ | ⟨h, rfl⟩ | ⟨h, rfl⟩ | ⟨h, rfl⟩ | ⟨h, rfl⟩ | ⟨h, rfl⟩ | ⟨h, rfl⟩ |
          ⟨h, rfl⟩ | ⟨h, rfl⟩ | ⟨h, rfl⟩ | ⟨h, rfl⟩ | ⟨h, rfl⟩ | ⟨h, rfl⟩ | ⟨h, rfl⟩ <;>
        first | rfl | (exfalso; revert he h; decide))
    (by
      intro tid p h
      simp only [exVal, root, exE, nA, nB, leaf, nm, none', NVal.handles, NVal.handlesL, List.append_nil, List.cons_append,
        List.nil_append, List.mem_cons, Prod.mk.injEq, List.not_mem_nil, or_false] at h
      rcases h with ⟨rfl, rfl⟩ | ⟨rfl, rfl⟩ | ⟨rfl, rfl⟩ | ⟨rfl, rfl⟩ | ⟨rfl, rfl⟩ | ⟨rfl, rfl⟩ | ⟨rfl, rfl⟩ | ⟨rfl, rfl⟩ |
          ⟨rfl, rfl⟩ | ⟨rfl, rfl⟩ | ⟨rfl, rfl⟩ | ⟨rfl, rfl⟩ | ⟨rfl, rfl⟩ | ⟨rfl, rfl⟩ | ⟨rfl, rfl⟩ <;> decide)
    exTy exVal (by decide) hS [] (by intro k s p h; simp [NInterner.find] at h) [7] 114 (by decide)
  exact ⟨d, I', h1, h2, h5⟩

/-- … and the hypothesis is needed: with a constant hash the second of two different leaves is written as a
    reference and read back as the first -/
example : (match dec true exEnv (fun _ _ => 5) 20 (.tuple [.handle 1, .handle 1])
      (encodeTop exEnv (fun _ _ => 5) (.tuple [.handle 1, .handle 1])
        (.list [.handle 1 (.plain (.bytes [0x61])), .handle 1 (.plain (.bytes [0x62]))])) [] with
    | .ok (d, _, _) => d.handles.map (fun x => (x.2.1, match x.2.2 with | .plain (.bytes b) => b | _ => []))
    | .error _ => []) = [(0, [0x61]), (0, [0x61])] := by decide

/-- a history: `exVal` and a lone leaf are alive; decoding `[leaf, A]`-like data then yields their allocations
    (slot 0 = the leaf, slot 2 = A, as in the interner the alive values leave behind) and allocates nothing -/
example : (match aliveInterner exEnv exHash 41 [(exTy, exVal), (.handle 0, leaf)] [] with
    | some I => (match dec true exEnv exHash 41 (.tuple [.handle 0, .handle 0]) (encodeTop exEnv exHash (.tuple [.handle 0, .handle 0]) (.list [leaf, nA])) I with
        | .ok (d, _, I') => (d.handles.map (fun x => x.2.1), I.length, I'.length) | .error _ => ([], 0, 0))
    | none => ([], 0, 0)) = ([0, 2, 0, 1], 7, 7) := by decide

/-! ### finding F61 (fixed by /repo 8f43b2a): the history, the historical witness, and the repaired decoder -/

/-- the decoder-side interner of F61's history: ONE live value `e = Node { label 2, kids [leaf'] }` (slot 0) whose
    inner handle `leaf'` was made by `Interned::new_duplicating` — an allocation (number 99) the interner does not know -/
def f61I : NInterner :=
  [((0, 2), .list [.plain (.nat 2), .list [.handle 0 99 (.list [.plain (.nat 1), .list [], .tagged 0 (.list [])])], .tagged 0 (.list [])])]
def f61Ty : NTy := .tuple [.handle 0, .handle 0]
/-- `v = (e, intern(leaf))`, encoded while alive, dropped before decoding -/
def f61Val : NVal := .list [.handle 0 (.list [.plain (.nat 2), .list [leaf], none']), leaf]

example : encodeTop exEnv exHash f61Ty f61Val = [0, 2, 1, 0, 1, 0, 0, 0, 1, 1, 0] := by decide

/-- HISTORICAL WITNESS (`keep = false`, the decoder before 8f43b2a): the leaf read inside `e`'s payload is interned
    (fresh allocation), `intern(e)` returns the live `e` and drops the payload with it, the reference that follows
    misses: `expect` panics -/
example : (match dec false exEnv exHash 20 f61Ty (encodeTop exEnv exHash f61Ty f61Val) f61I with
    | .error e => e = .panic | .ok _ => false) = true := by decide

/-- the repaired decoder (`keep = true`) on the same history: round trip; `e` is the live allocation 0 with its
    private inner copy 99 inside, the leaf decoded on the way stays alive (slot 1) and the reference resolves to it -/
example : (match dec true exEnv exHash 20 f61Ty (encodeTop exEnv exHash f61Ty f61Val) f61I with
    | .ok (d, rest, I') => (d.handles.map (fun x => x.2.1), (d.handlesAbove 1).map (fun x => x.2.1), rest.length, I'.length)
    | .error _ => ([], [], 9, 9)) = ([0, 99, 1], [0, 1], 0, 2) := by decide

/-- this interner is outside `IOk` (the copy 99 is not canonical) but inside `IOkW`: `interned_roundtrip_nested_weak`
    applies, `interned_roundtrip_nested` does not; and on interners inside `IOk` the two decoders agree (diamond) -/
example : ¬ Canon exHash f61I (.handle 0 0 (.list [.plain (.nat 2), .list [.handle 0 99 (.list [.plain (.nat 1), .list [], .tagged 0 (.list [])])], .tagged 0 (.list [])])) := by
  intro h
  have := h (0, 99, .list [.plain (.nat 1), .list [], .tagged 0 (.list [])]) (by simp [DVal.handles, DVal.handlesL])
  simp [f61I, NInterner.find, exHash, DVal.erase, DVal.eraseL] at this
example : (match dec false exEnv exHash 41 exTy (encodeTop exEnv exHash exTy exVal) [] with
    | .ok (d, _, I') => (d.handles.map (fun x => x.2.1), I'.length) | .error _ => ([], 0)) =
    ([4, 2, 0, 1, 3, 0, 0, 0, 1, 6, 5, 2, 0, 1, 0], 7) := by decide

end QbiceVerif.Codec.C12Nested
