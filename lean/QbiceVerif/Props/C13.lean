/-
C13 — Stable hashes are deterministic, history-free and discriminating.

Model: `QbiceVerif.Model.Hash` (`stream` = the bytes a value's `StableHash` impl feeds to the hasher; the
hasher is abstract: state `σ`, `absorb`, `finish`).  All theorems hold for every hasher, every type of the
universe, every well-typed value, any nesting depth and any collection size.

HEADLINE of the "discriminating" half: `stream_decodes_located`, `stream_discriminates_located`,
`fingerprint_discriminates_located` (section "Discrimination with LOCATED collisions" below).  Their collision
disjuncts are statements about the two values at hand (`Val.Located v t w st`, `Lemmas/HashLocated.lean`; the two
top-level streams), falsifiable and falsified on concrete pairs below.  The older `stream_discriminates`,
`fingerprint_discriminates`, `fingerprint_discriminates_all` are kept but SUPERSEDED: their collision disjunct
is a closed proposition about the hasher that is always true (`NonVacuity/C13.lean : someCollision_always`).
-/
import QbiceVerif.Lemmas.HashLocatedDec
import QbiceVerif.Lemmas.HashLocatedSub

namespace QbiceVerif.Hash

section
variable {σ : Type} (absorb : σ → Bytes → σ) (finish : σ → Nat)

/-- "Values that differ feed different, unambiguous byte streams to the hasher": on the ordered fragment
    (everything but hash-ordered collections) a stream followed by arbitrary further bytes determines the
    value (up to NaN payloads, which `write_f32/f64` erase) and where it ends — so concatenations in tuples,
    derived structs, enum payloads and sequences cannot be re-split.  The two hasher states are unrelated. -/
theorem stream_self_delimiting (t : Ty) (v w : Val) (s1 s2 : σ) (r1 r2 : Bytes)
    (ho : t.ordered = true) (hwf : t.wf = true) (hv : hasType t v = true) (hw : hasType t w = true)
    (h : stream absorb finish t v s1 ++ r1 = stream absorb finish t w s2 ++ r2) :
    v.canon = w.canon ∧ r1 = r2 :=
  stream_dec absorb finish v t w s1 s2 r1 r2 ho hwf hv hw h

/-- "equal values hash equally … values that differ feed different byte streams": on the ordered fragment
    two well-typed values of one type have the same stream iff they are the same datum. -/
theorem stream_inj (t : Ty) (v w : Val) (s1 s2 : σ)
    (ho : t.ordered = true) (hwf : t.wf = true) (hv : hasType t v = true) (hw : hasType t w = true) :
    stream absorb finish t v s1 = stream absorb finish t w s2 ↔ v.canon = w.canon := by
  constructor
  · intro h
    have := stream_dec absorb finish v t w s1 s2 [] [] ho hwf hv hw (by simpa using h)
    exact this.1
  · intro h
    rw [← stream_canon absorb finish v, ← stream_canon absorb finish w, h]
    exact stream_state_indep absorb finish _ _ _ _ ho

/-- "unambiguous": no stream of a value is a proper prefix of the stream of a different value of the type. -/
theorem stream_prefix_free (t : Ty) (v w : Val) (s1 s2 : σ)
    (ho : t.ordered = true) (hwf : t.wf = true) (hv : hasType t v = true) (hw : hasType t w = true)
    (h : stream absorb finish t v s1 <+: stream absorb finish t w s2) :
    v.canon = w.canon ∧ stream absorb finish t v s1 = stream absorb finish t w s2 := by
  obtain ⟨r, hr⟩ := h
  have := stream_dec absorb finish v t w s1 s2 r [] ho hwf hv hw (by simpa using hr)
  refine ⟨this.1, ?_⟩
  rw [this.2] at hr
  simpa using hr

/-- field lists of one struct / tuple / enum variant: the concatenation of the field streams determines
    every field. -/
theorem fields_unambiguous (ts : TyList) (vs ws : ValList) (s1 s2 : σ)
    (ho : ts.ordered = true) (hwf : ts.wf = true)
    (hv : fieldsHaveType ts vs = true) (hw : fieldsHaveType ts ws = true)
    (h : streamFields absorb finish ts vs s1 = streamFields absorb finish ts ws s2) :
    vs.canon = ws.canon :=
  (streamFields_dec absorb finish vs ts ws s1 s2 [] [] ho hwf hv hw (by simpa using h)).1

/-- NaN normalisation: the payload / sign of a NaN anywhere inside a value never reaches the hasher
    (all types, hash-ordered collections included). -/
theorem nan_payload_irrelevant (t : Ty) (v : Val) (st : σ) :
    stream absorb finish t v.canon st = stream absorb finish t v st :=
  stream_canon absorb finish v t st

/-- "whatever their construction history (insertion order, capacity, hasher state of unordered
    collections)": the stream of a set / heap is a function of the *multiset* of entry streams. -/
theorem unordered_perm_invariant (t : Ty) (vs ws : ValList) (st : σ)
    (h : (entryStreams absorb finish t vs (absorb st (le 8 vs.length))).Perm
         (entryStreams absorb finish t ws (absorb st (le 8 vs.length)))) :
    stream absorb finish (.uset t) (.list vs) st = stream absorb finish (.uset t) (.list ws) st := by
  have hl : vs.length = ws.length := by
    have := h.length_eq
    simpa [entryStreams, ValList.length_toList] using this
  rw [stream_uset, stream_uset, ← hl, ((h.map _).sum_nat)]

/-- iteration order of a `HashSet` / `BinaryHeap` / `DashSet` is irrelevant -/
theorem uset_order_irrelevant (t : Ty) (vs ws : ValList) (st : σ) (h : vs.toList.Perm ws.toList) :
    stream absorb finish (.uset t) (.list vs) st = stream absorb finish (.uset t) (.list ws) st :=
  unordered_perm_invariant absorb finish t vs ws st (h.map _)

/-- iteration order of a `HashMap` / `DashMap` is irrelevant -/
theorem umap_order_irrelevant (k v : Ty) (vs ws : ValList) (st : σ) (h : vs.toList.Perm ws.toList) :
    stream absorb finish (.umap k v) (.list vs) st = stream absorb finish (.umap k v) (.list ws) st := by
  rw [stream_umap, stream_umap]
  exact uset_order_irrelevant absorb finish _ vs ws st h

/-- "owned vs. shared storage": `&T`, `Box`, `Rc`, `Arc`, `Cow`, `NonZero*`, atomics add nothing. -/
theorem wrapper_transparent (t : Ty) (v : Val) (st : σ) :
    stream absorb finish (.wrapper t) (.wrap v) st = stream absorb finish t v st := by
  simp [stream]

/-- A hash-ordered collection always writes exactly 24 bytes (length + 128-bit sum): inside an enclosing
    value its framing is unambiguous whatever its contents. -/
theorem unordered_fixed_width (t : Ty) (vs : ValList) (st : σ) :
    (stream absorb finish (.uset t) (.list vs) st).length = 24 := by
  simp [stream, le_length]

/-- "equal fingerprints mean equal values up to a 128-bit collision", for one hash-ordered collection whose
    entries are in the ordered fragment: equal streams ⇒ equal sizes, and the entries are a permutation of
    each other (up to NaN payloads) unless the two entry multisets are a 128-bit sum collision. -/
theorem unordered_discriminates (t : Ty) (vs ws : ValList) (st : σ)
    (ho : t.ordered = true) (hwf : t.wf = true)
    (hv : hasType (.uset t) (.list vs) = true) (hw : hasType (.uset t) (.list ws) = true)
    (h : stream absorb finish (.uset t) (.list vs) st = stream absorb finish (.uset t) (.list ws) st) :
    vs.length = ws.length ∧
    (vs.canon.toList.Perm ws.canon.toList ∨
      SumCollision absorb finish (absorb st (le 8 vs.length))
        (entryStreams absorb finish t vs (absorb st (le 8 vs.length)))
        (entryStreams absorb finish t ws (absorb st (le 8 vs.length)))) := by
  simp only [hasType, Bool.and_eq_true, decide_eq_true_eq] at hv hw
  rw [stream_uset, stream_uset] at h
  rw [M64_eq] at hv hw
  obtain ⟨hl, h2⟩ := le_inj_of_lt hv.1 hw.1 h
  refine ⟨hl, ?_⟩
  rw [← hl] at h2
  have hsum := (le_append_inj (r1 := []) (r2 := []) (by simpa using h2)).1
  rw [← M128_eq] at hsum
  by_cases hp : (entryStreams absorb finish t vs (absorb st (le 8 vs.length))).Perm
      (entryStreams absorb finish t ws (absorb st (le 8 vs.length)))
  · left
    rw [ValList.canon_toList, ValList.canon_toList]
    refine perm_map_of_factor _ Val.canon _ _ hp ?_
    intro a ha b hb hab
    exact (stream_dec absorb finish a t b _ _ [] [] ho hwf
      (allHaveType_mem vs hv.2 ha) (allHaveType_mem ws hw.2 hb) (by simpa using hab)).1
  · right
    refine ⟨hp, ?_, hsum⟩
    simp [entryStreams, ValList.length_toList, hl]

/-- the same for maps (entry = key then value) -/
theorem umap_discriminates (k v : Ty) (vs ws : ValList) (st : σ)
    (ho : k.ordered = true ∧ v.ordered = true) (hwf : k.wf = true ∧ v.wf = true)
    (hv : hasType (.umap k v) (.list vs) = true) (hw : hasType (.umap k v) (.list ws) = true)
    (h : stream absorb finish (.umap k v) (.list vs) st = stream absorb finish (.umap k v) (.list ws) st) :
    vs.length = ws.length ∧
    (vs.canon.toList.Perm ws.canon.toList ∨
      SumCollision absorb finish (absorb st (le 8 vs.length))
        (entryStreams absorb finish (Ty.pair k v) vs (absorb st (le 8 vs.length)))
        (entryStreams absorb finish (Ty.pair k v) ws (absorb st (le 8 vs.length)))) := by
  rw [stream_umap, stream_umap] at h
  refine unordered_discriminates absorb finish (Ty.pair k v) vs ws st ?_ ?_ ?_ ?_ h
  · simp [Ty.pair, Ty.ordered, TyList.ordered, ho.1, ho.2]
  · simp [Ty.pair, Ty.wf, TyList.wf, hwf.1, hwf.2]
  · simpa [hasType] using hv
  · simpa [hasType] using hw

end

/-- SUPERSEDED by `fingerprint_discriminates_located_ordered` / `fingerprint_discriminates_located`: the collision
    disjunct is closed and always true (pigeonhole), see `NonVacuity/C13.lean`.
    "equal fingerprints mean equal values up to a 128-bit collision" for the final seeded SipHash-128 value on
    the ordered fragment: equal hashes ⇒ equal values, or two different byte strings collide under the hasher. -/
theorem fingerprint_discriminates (seed : Nat) (t : Ty) (v w : Val)
    (ho : t.ordered = true) (hwf : t.wf = true) (hv : hasType t v = true) (hw : hasType t w = true)
    (h : hash128 seed t v = hash128 seed t w) :
    v.canon = w.canon ∨
    ∃ a b : Bytes, a ≠ b ∧ ((seeded seed).absorb a).finish = ((seeded seed).absorb b).finish := by
  by_cases hs : topStream seed t v = topStream seed t w
  · left
    exact (stream_inj SipStream.absorb SipStream.finish t v w _ _ ho hwf hv hw).mp hs
  · right
    exact ⟨_, _, hs, h⟩

section
variable {σ : Type} (absorb : σ → Bytes → σ) (finish : σ → Nat)

/-- SUPERSEDED by `stream_decodes_located` / `stream_discriminates_located`: the collision disjunct
    `SomeCollision absorb finish` is closed and always true, see `NonVacuity/C13.lean : someCollision_always`
    (only `r1 = r2` has content here).
    "Values that differ feed different, unambiguous byte streams to the hasher, so equal fingerprints mean
    equal values up to a 128-bit collision" — for EVERY type of the universe, hash-ordered collections nested
    at any depth: if two well-typed values write streams (from one hasher state, followed by anything) that
    agree, then the rests agree (framing is never ambiguous), and the values are the same up to NaN payloads
    and up to the order of entries of hash-ordered collections (`Val.SameUpTo`), unless some hash-ordered
    collection inside them is a 128-bit sum collision (`SomeCollision`). -/
theorem stream_discriminates (t : Ty) (v w : Val) (st : σ) (r1 r2 : Bytes)
    (hwf : t.wf = true) (hv : hasType t v = true) (hw : hasType t w = true)
    (h : stream absorb finish t v st ++ r1 = stream absorb finish t w st ++ r2) :
    (Val.SameUpTo v t w ∨ SomeCollision absorb finish) ∧ r1 = r2 :=
  full_dec absorb finish v t w st r1 r2 hwf hv hw h

end

/-- SUPERSEDED by `fingerprint_discriminates_located`: both collision disjuncts are closed and always true, see
    `NonVacuity/C13.lean`.
    The same for the final seeded SipHash-128 fingerprint: equal `hash128` ⇒ same value up to entry order and
    NaN payloads, or a sum collision inside, or two different byte strings with one SipHash-128 value. -/
theorem fingerprint_discriminates_all (seed : Nat) (t : Ty) (v w : Val)
    (hwf : t.wf = true) (hv : hasType t v = true) (hw : hasType t w = true)
    (h : hash128 seed t v = hash128 seed t w) :
    Val.SameUpTo v t w ∨ SomeCollision SipStream.absorb SipStream.finish ∨
    ∃ a b : Bytes, a ≠ b ∧ ((seeded seed).absorb a).finish = ((seeded seed).absorb b).finish := by
  by_cases hs : topStream seed t v = topStream seed t w
  · have := (stream_discriminates SipStream.absorb SipStream.finish t v w (seeded seed) [] [] hwf hv hw
      (by rw [List.append_nil, List.append_nil]; exact hs)).1
    rcases this with h1 | h2
    · exact Or.inl h1
    · exact Or.inr (Or.inl h2)
  · exact Or.inr (Or.inr ⟨_, _, hs, h⟩)

/-! ## Discrimination with LOCATED collisions (headline)

"Different values" means `¬ Val.SameUpTo v t w`: not the same datum up to NaN payloads and up to the iteration
order of hash-ordered collections at any depth (two orders of one `HashSet` are one value).

The only events the scheme of `stable_hash` can suffer from, on the data of `v` and `w` themselves:

* `Val.Located absorb finish v t w st` (`Lemmas/HashLocated.lean`): a hash-ordered collection `c₁` inside `v` and
  the hash-ordered collection `c₂` at the SAME PATH of `w` (through options / results / wrappers / tuple fields /
  enum variants / sequence indices, all preceding siblings having written equal bytes; inside an enclosing
  hash-ordered collection through two entries with equal entry streams), both reached in one hasher state `st'`,
  with `c₁.length = c₂.length`, DIFFERENT multisets of entry streams, and EQUAL
  `Σ sub_hash(entry stream) mod 2^128` — `SumCollision st' (entryStreams c₁) (entryStreams c₂)`.  For length 1
  this is two distinct entry streams with one 128-bit sub-hash; for length k a solution of the k-sum problem.
* for the final fingerprint, additionally: the two top-level streams of `v` and `w` are different byte strings
  with one finalised 128-bit value.

That these are improbable for SipHash-128 is the cryptographic assumption; nothing else is assumed. -/

section
variable {σ : Type} (absorb : σ → Bytes → σ) (finish : σ → Nat)

/-- decoding form, EVERY type of the universe, hash-ordered collections nested at any depth: two well-typed
    values whose streams (from one hasher state, followed by anything) agree have equal rests (framing is never
    ambiguous) and are the same value up to entry order and NaN payloads — unless a sum collision is LOCATED at
    corresponding hash-ordered collections inside `v` and `w`. -/
theorem stream_decodes_located (t : Ty) (v w : Val) (st : σ) (r1 r2 : Bytes)
    (hwf : t.wf = true) (hv : hasType t v = true) (hw : hasType t w = true)
    (h : stream absorb finish t v st ++ r1 = stream absorb finish t w st ++ r2) :
    (Val.SameUpTo v t w ∨ Val.Located absorb finish v t w st) ∧ r1 = r2 :=
  loc_dec absorb finish v t w st r1 r2 hwf hv hw h

/-- "Values that differ feed different byte streams to the hasher": for two different well-typed values of one
    type of the universe, either their write streams differ, or a sum collision is located inside them. -/
theorem stream_discriminates_located (t : Ty) (v w : Val) (st : σ)
    (hwf : t.wf = true) (hv : hasType t v = true) (hw : hasType t w = true)
    (hne : ¬ Val.SameUpTo v t w) :
    stream absorb finish t v st ≠ stream absorb finish t w st ∨ Val.Located absorb finish v t w st := by
  by_cases hs : stream absorb finish t v st = stream absorb finish t w st
  · have := (stream_decodes_located absorb finish t v w st [] [] hwf hv hw
      (by rw [List.append_nil, List.append_nil]; exact hs)).1
    exact Or.inr (this.resolve_left hne)
  · exact Or.inl hs

/-- the same with the event flattened (weaker, easier to read; `Lemmas/HashLocatedSub.lean`): … or there are a
    hash-ordered collection `c₁` occurring inside `v` and a hash-ordered collection `c₂` occurring inside `w`, of
    one entry type `t'` and one length, and a hasher state `st'`, whose entry streams are different multisets with
    equal sub-hash sums mod 2^128 (`CollisionInside`). -/
theorem stream_discriminates_collision_inside (t : Ty) (v w : Val) (st : σ)
    (hwf : t.wf = true) (hv : hasType t v = true) (hw : hasType t w = true)
    (hne : ¬ Val.SameUpTo v t w) :
    stream absorb finish t v st ≠ stream absorb finish t w st ∨
    ∃ (t' : Ty) (c₁ c₂ : ValList) (st' : σ),
      Val.Sub (.list c₁) v ∧ Val.Sub (.list c₂) w ∧ c₁.length = c₂.length ∧
      SumCollision absorb finish st' (entryStreams absorb finish t' c₁ st') (entryStreams absorb finish t' c₂ st') :=
  (stream_discriminates_located absorb finish t v w st hwf hv hw hne).imp_right
    (located_inside absorb finish v t w st)

end

/-- "equal fingerprints mean equal values up to a 128-bit collision", every type of the universe: two different
    well-typed values have different seeded SipHash-128 fingerprints, or THEIR OWN two streams are different
    byte strings with one finalised 128-bit value, or a sum collision is located inside them. -/
theorem fingerprint_discriminates_located (seed : Nat) (t : Ty) (v w : Val)
    (hwf : t.wf = true) (hv : hasType t v = true) (hw : hasType t w = true)
    (hne : ¬ Val.SameUpTo v t w) :
    hash128 seed t v ≠ hash128 seed t w ∨
    (topStream seed t v ≠ topStream seed t w ∧
      ((seeded seed).absorb (topStream seed t v)).finish = ((seeded seed).absorb (topStream seed t w)).finish) ∨
    Val.Located SipStream.absorb SipStream.finish v t w (seeded seed) := by
  by_cases hh : hash128 seed t v = hash128 seed t w
  · rcases stream_discriminates_located SipStream.absorb SipStream.finish t v w (seeded seed) hwf hv hw hne
      with hs | hl
    · exact Or.inr (Or.inl ⟨hs, hh⟩)
    · exact Or.inr (Or.inr hl)
  · exact Or.inl hh

/-- the ordered fragment (no hash-ordered collection inside): equal fingerprints ⇒ equal values (up to NaN
    payloads), or THE TWO STREAMS of `v` and `w` are different byte strings with one SipHash-128 value. -/
theorem fingerprint_discriminates_located_ordered (seed : Nat) (t : Ty) (v w : Val)
    (ho : t.ordered = true) (hwf : t.wf = true) (hv : hasType t v = true) (hw : hasType t w = true)
    (h : hash128 seed t v = hash128 seed t w) :
    v.canon = w.canon ∨
    (topStream seed t v ≠ topStream seed t w ∧
      ((seeded seed).absorb (topStream seed t v)).finish = ((seeded seed).absorb (topStream seed t w)).finish) := by
  by_cases hs : topStream seed t v = topStream seed t w
  · left
    exact (stream_inj SipStream.absorb SipStream.finish t v w _ _ ho hwf hv hw).mp hs
  · right
    exact ⟨hs, h⟩

/-! ## Non-vacuity -/

-- a toy hasher: state = bytes absorbed so far, finish = their number
private def ab : Bytes → Bytes → Bytes := (· ++ ·)
private def fin : Bytes → Nat := List.length

-- hypotheses of `stream_inj` are satisfiable; a struct `(String, String)`: ("ab","c") vs ("a","bc")
private def tSS : Ty := .tuple (.cons .str (.cons .str .nil))
private def vAbC : Val := .tuple (.cons (.str [97, 98]) (.cons (.str [99]) .nil))
private def vABc : Val := .tuple (.cons (.str [97]) (.cons (.str [98, 99]) .nil))
example : tSS.ordered = true ∧ tSS.wf = true ∧ hasType tSS vAbC = true ∧ hasType tSS vABc = true := by decide
example : stream ab fin tSS vAbC [] ≠ stream ab fin tSS vABc [] := by decide
-- an enum with explicit discriminants is well-formed and typed
private def tE : Ty := .enum .w8 (.cons 3 .nil (.cons 200 (.cons (.int false .w32) .nil) .nil))
example : tE.ordered = true ∧ tE.wf = true ∧ hasType tE (.variant 1 (.cons (.int 7) .nil)) = true := by decide
-- -0.0 and +0.0 are different data and write different bytes; two NaNs write the same bytes
example : stream ab fin .f32 (.f32 0) [] ≠ stream ab fin .f32 (.f32 0x80000000) [] := by decide
example : stream ab fin .f32 (.f32 0x7fc00001) [] = stream ab fin .f32 (.f32 0xffc00000) [] := by decide
example : (Val.f32 0x7fc00001).canon = (Val.f32 0xffc00000).canon := by simp [Val.canon, canonF32]
-- permutation invariance has content: a two-element set in both orders, well-typed
private def s12 : Val := .list (.cons (.int 1) (.cons (.int 2) .nil))
private def s21 : Val := .list (.cons (.int 2) (.cons (.int 1) .nil))
example : hasType (.uset (.int false .w8)) s12 = true ∧ s12 ≠ s21 :=
  ⟨by decide, by simp [s12, s21]⟩
example : stream ab fin (.uset (.int false .w8)) s12 [] = stream ab fin (.uset (.int false .w8)) s21 [] :=
  uset_order_irrelevant ab fin _ _ _ _ (List.Perm.swap _ _ _)
-- the collision disjunct of `unordered_discriminates` is really needed: with the toy `fin`
-- (which only counts bytes) {1,2} and {3,4} collide …
example : stream ab fin (.uset (.int false .w8)) s12 []
    = stream ab fin (.uset (.int false .w8)) (.list (.cons (.int 3) (.cons (.int 4) .nil))) [] := by decide
-- `SameUpTo` relates the two orders of a set, and does not relate different sets
example : Val.SameUpTo s12 (.uset (.int false .w8)) s21 := by
  refine ⟨.cons (.int 1) (.cons (.int 2) .nil), List.Perm.swap _ _ _, ?_⟩
  simp [ValList.SameAll, Val.SameUpTo, Val.canon]
example : ¬ Val.SameUpTo s12 (.seq (.int false .w8)) s21 := by
  simp [s12, s21, ValList.SameAll, Val.SameUpTo, Val.canon]
-- … and it can be false: sets of different sizes never have equal streams
example : stream ab fin (.uset (.int false .w8)) s12 []
    ≠ stream ab fin (.uset (.int false .w8)) (.list (.cons (.int 1) .nil)) [] := by decide

/-! ### The located statements are falsifiable in both directions

`BinaryHeap<BinaryHeap<u8>>` (`uset (uset u8)`): `nA = {{1,2},{1,3}}`, `nB = {{1,3},{1,3}}` — different values. -/
private def u8 : Ty := .int false .w8
private def tUU : Ty := .uset (.uset u8)
private def s13 : Val := .list (.cons (.int 1) (.cons (.int 3) .nil))
private def nA : Val := .list (.cons s12 (.cons s13 .nil))
private def nB : Val := .list (.cons s13 (.cons s13 .nil))
/-- a toy hasher that is injective on short inputs: the bytes absorbed so far read as a big-endian number -/
private def finN : Bytes → Nat := fun bs => bs.foldl (fun a b => a * 256 + b.toNat) 0

example : tUU.wf = true ∧ hasType tUU nA = true ∧ hasType tUU nB = true := by decide

/-- `nA` and `nB` are different values (`{1,2}` is an entry of `nA` only) -/
private theorem nA_ne_nB : ¬ Val.SameUpTo nA tUU nB := by
  intro h
  obtain ⟨w, hw, hs⟩ := sameUpTo_uset_mem h s12 (by simp [ValList.toList])
  have hw' : w = s13 := by simpa [ValList.toList] using hw
  subst hw'
  obtain ⟨x, hx, hsx⟩ := sameUpTo_uset_mem hs (.int 2) (by simp [ValList.toList])
  simp only [ValList.toList, List.mem_cons, List.not_mem_nil, or_false] at hx
  rcases hx with rfl | rfl <;> simp [Val.SameUpTo, Val.canon] at hsx

/-- (1) the located disjunct is FALSE for this pair under the injective toy hasher (unfolded, then `decide`):
    neither the outer collections nor any pair of entries with equal entry streams is a sum collision … -/
private theorem nA_nB_not_located : ¬ Val.Located ab finN nA tUU nB [] := by
  simp only [Val.Located, ValList.LocatedEntry, exists_mem_toList_cons, exists_mem_toList_nil, exists_false,
    and_false, or_false, true_and, nA, nB, s12, s13, tUU, u8]
  decide

/-- … so `stream_discriminates_located` yields real discrimination: the streams differ (derived from the
    theorem, not computed). -/
example : stream ab finN tUU nA [] ≠ stream ab finN tUU nB [] :=
  (stream_discriminates_located ab finN tUU nA nB [] (by decide) (by decide) (by decide) nA_ne_nB).resolve_right
    nA_nB_not_located

/-- (2) the located disjunct is TRUE for the same pair under the weak toy hasher `fin` (number of bytes
    absorbed): the inner collections `{1,2}` / `{1,3}` are a real sum collision (different entry multisets, equal
    sums), they write the same 24 bytes, are matched as entries of the outer collections, and the streams of the
    two different values coincide — the disjunct cannot be dropped. -/
example : Val.Located ab fin nA tUU nB [] := by
  simp only [Val.Located, ValList.LocatedEntry, exists_mem_toList_cons, exists_mem_toList_nil, exists_false,
    and_false, or_false, true_and, nA, nB, s12, s13, tUU, u8]
  decide
example : stream ab fin tUU nA [] = stream ab fin tUU nB [] := by decide
/-- the event itself, spelled out: in the state reached at the inner collections, the entry multisets
    `{[1],[2]}` and `{[1],[3]}` differ and have equal sub-hash sums -/
example : SumCollision ab fin (le 8 2 ++ le 8 2) [[1], [2]] [[1], [3]] := by decide
/-- under the injective toy hasher the same two entry multisets are NOT a collision -/
example : ¬ SumCollision ab finN (le 8 2 ++ le 8 2) [[1], [2]] [[1], [3]] := by decide

/-- (3) the real seeded SipHash-128: for this pair the located event is false, so
    `fingerprint_discriminates_located` leaves "fingerprints differ, or these two 48-byte streams collide under
    SipHash-128" — and the fingerprints do differ. -/
private theorem nA_nB_not_located_sip : ¬ Val.Located SipStream.absorb SipStream.finish nA tUU nB (seeded 7) := by
  simp only [Val.Located, ValList.LocatedEntry, exists_mem_toList_cons, exists_mem_toList_nil, exists_false,
    and_false, or_false, true_and, nA, nB, s12, s13, tUU, u8]
  decide +kernel
example : hash128 7 tUU nA ≠ hash128 7 tUU nB ∨
    (topStream 7 tUU nA ≠ topStream 7 tUU nB ∧
      ((seeded 7).absorb (topStream 7 tUU nA)).finish = ((seeded 7).absorb (topStream 7 tUU nB)).finish) := by
  rcases fingerprint_discriminates_located 7 tUU nA nB (by decide) (by decide) (by decide) nA_ne_nB with h | h | h
  · exact Or.inl h
  · exact Or.inr h
  · exact absurd h nA_nB_not_located_sip
example : hash128 7 tUU nA ≠ hash128 7 tUU nB := by decide +kernel

end QbiceVerif.Hash
