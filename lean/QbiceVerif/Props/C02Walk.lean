import QbiceVerif.Lemmas.WalkLts
import QbiceVerif.Lemmas.WalkLtsSnap
import QbiceVerif.Lemmas.WalkLtsAnyW
import QbiceVerif.Lemmas.RelockIter

/-!
# C02, "every request completes" — the walk over a backward-edge set (finding F60)

Theorems over the `WK` LTS of `Model/WalkLts.lean`: tasks of an async runtime with `W` worker threads; a walker
(`process_task` / `invoke_backward_projections`) iterates a backward-edge set and parks at `yield_now`; writers
(`set_computed` of a re-executed caller: `insert_element` / `remove_element`) take the set's write lock with a
blocking `parking_lot` call.  `fixed = false`: the iterator and its read guards live across the yields (the code
before eaa75a9); `fixed = true`: the iterator is drained into a `Vec` before the first await (the code since).

What is modelled, not verified: tokio's scheduler (a parked task is polled again only by a free worker; the model
lets ANY free worker do it, tokio lets fewer), `parking_lot::RwLock::write` blocking the calling thread until
the readers are gone, the small tier of the set as one vector behind one lock.
-/

namespace QbiceVerif.C02

open QbiceVerif.Lts

/-- no event is enabled although a request has not completed -/
def WK.Deadlocked (s : WK.State) : Prop := (∀ ev, WK.step s ev = none) ∧ ∃ i, i < s.n ∧ (s.task i).st ≠ .done

theorem WK.deadlocked_of_check {s : WK.State} (h : (s.stuck && s.unfinished) = true) : WK.Deadlocked s := by
  simp only [Bool.and_eq_true] at h
  exact ⟨WK.stuck_no_step h.1, WK.unfinished_spec h.2⟩

/-- the history of corpus/C02-F60 in the model: a set with 30 elements, one walker that will park once, one
caller per worker thread that drops its edge -/
def f60Tasks (W : Nat) : List (WK.Role × Nat) := WK.dlTasks W   -- (walker, 1) :: [(writer false 3, 0), …, (writer false (2 + W), 0)]

/-- the walker is polled, takes the guards, visits 16 edges and parks; then every worker polls a dropper -/
def f60Schedule (W : Nat) : List WK.Ev := [.resume 0, .walkBegin 0, .walkYield 0 16] ++ (List.range W).map fun j => WK.Ev.resume (1 + j)

/-- FINDING F60 — "every request completes" FAILS for the code as it was (the iterator's read guards held across
`yield_now`): with one worker thread, and with two, the system reaches a state in which NO event is enabled and
requests are unfinished.  The walker is parked holding the guards and needs a free worker; every worker is
inside `remove_element`'s `write()`, which needs the guards released.  (Kernel-checked by evaluation.) -/
theorem walk_holding_guard_can_deadlock :
    (∃ s, WK.Reachable 1 false (List.range 30) (f60Tasks 1) s ∧ WK.Deadlocked s) ∧
    (∃ s, WK.Reachable 2 false (List.range 30) (f60Tasks 2) s ∧ WK.Deadlocked s) := by
  constructor
  · obtain ⟨s, hr, hp⟩ := WK.exists_of_run (W := 1) (f := false) (c0 := List.range 30) (ts := f60Tasks 1)
      (evs := f60Schedule 1) (P := fun s => s.stuck && s.unfinished) (by decide)
    exact ⟨s, hr, WK.deadlocked_of_check hp⟩
  · obtain ⟨s, hr, hp⟩ := WK.exists_of_run (W := 2) (f := false) (c0 := List.range 30) (ts := f60Tasks 2)
      (evs := f60Schedule 2) (P := fun s => s.stuck && s.unfinished) (by decide)
    exact ⟨s, hr, WK.deadlocked_of_check hp⟩

/-- the same with four workers and four droppers (the reproducer's numbers): more workers do not help once
each of them polls a task that publishes a dropped edge -/
theorem walk_holding_guard_can_deadlock_W4 :
    ∃ s, WK.Reachable 4 false (List.range 30) (f60Tasks 4) s ∧ WK.Deadlocked s := by
  obtain ⟨s, hr, hp⟩ := WK.exists_of_run (W := 4) (f := false) (c0 := List.range 30) (ts := f60Tasks 4)
    (evs := f60Schedule 4) (P := fun s => s.stuck && s.unfinished) (by decide)
  exact ⟨s, hr, WK.deadlocked_of_check hp⟩

/-- …and no number of worker threads makes the as-is walk safe: for EVERY `W ≥ 1` and every initial content, with
one dropper per worker the system reaches a state with no enabled event and unfinished requests (proved, not
evaluated: the walker parks holding the guards, then worker after worker polls a dropper and blocks). -/
theorem walk_holding_guard_can_deadlock_any_W (W : Nat) (hW : 1 ≤ W) (c0 : List Nat) :
    ∃ s, WK.Reachable W false c0 (f60Tasks W) s ∧ WK.Deadlocked s := by
  obtain ⟨s, hr, hd⟩ := WK.DL.reach hW c0 W (Nat.le_refl _)
  exact ⟨s, hr, hd.stuck, 0, by rw [hd.hn]; omega, by rw [hd.t0q]; decide⟩

/-- "every request completes", first half, for the REPAIRED walk (snapshot before the first await): for every
number of worker threads `W ≥ 1`, any initial content, any number of walkers (each with any yield budget) and
writers, and any interleaving: a reachable state with an unfinished request has an enabled event. -/
theorem snapshot_walk_no_deadlock {W : Nat} (hW : 1 ≤ W) {c0 : List Nat} {ts : List (WK.Role × Nat)} {s : WK.State}
    (hr : WK.Reachable W true c0 ts s) {i : Nat} (hi : i < s.n) (hnd : (s.task i).st ≠ .done) :
    ∃ ev s', WK.step s ev = some s' :=
  WK.progress (WK.reachable_inv hr) (by rw [WK.reachable_W hr]; exact hW) hi hnd

/-- every event strictly decreases the variant `mu` (sum over the tasks of: 2·yield budget + not begun + queued +
1) — in both systems: the as-is system cannot run for ever either, its runs end complete or deadlocked -/
theorem walk_variant_decreases {s s' : WK.State} {ev : WK.Ev} (h : WK.step s ev = some s') : WK.mu s' < WK.mu s :=
  WK.step_decreases h

/-- "every request completes", second half, for the repaired walk: every run from the initial state is finite
(its length is bounded by the variant of the initial state) and a run that cannot be extended ends with every
task done — every walk has visited its edges, every insert/remove has been performed. -/
theorem snapshot_walk_all_complete {W : Nat} (hW : 1 ≤ W) {c0 : List Nat} {ts : List (WK.Role × Nat)} {evs : List WK.Ev}
    {s : WK.State} (hr : WK.Run (WK.init W true c0 ts) evs s) :
    evs.length ≤ WK.mu (WK.init W true c0 ts) ∧
    ((∀ ev, WK.step s ev = none) → ∀ i, i < s.n → (s.task i).st = .done) := by
  refine ⟨by have := WK.run_length_le hr; omega, ?_⟩
  intro hmax i hi
  cases hst : (s.task i).st with
  | done => rfl
  | queued =>
    obtain ⟨ev, s', hs⟩ := snapshot_walk_no_deadlock hW (WK.run_reach .init hr) hi (by rw [hst]; decide)
    rw [hmax ev] at hs; cases hs
  | running =>
    obtain ⟨ev, s', hs⟩ := snapshot_walk_no_deadlock hW (WK.run_reach .init hr) hi (by rw [hst]; decide)
    rw [hmax ev] at hs; cases hs

/-- the set operations of the tasks — the walks (as `iter`, completed where the guards are taken) and the
inserts/removes — form a legal sequential history of a set from the initial content to the current content:
the statement of `tiered_set_linearizable` carried over to tasks that park (both systems). -/
theorem walk_linearizable {W : Nat} {f : Bool} {c0 : List Nat} (hn : c0.Nodup) {ts : List (WK.Role × Nat)} {s : WK.State}
    (hr : WK.Reachable W f c0 ts s) : TS.Legal c0 s.hist s.content ∧ s.content.Nodup :=
  ⟨(WK.reachable_linv hn hr).legal, (WK.reachable_linv hn hr).nodup⟩

/-- the repaired walk visits exactly the elements present when the snapshot was taken: a finished walker `i` has
an `iter` entry in the linearization whose result is the list it visited, and that list is the content of the
set after the operations linearized before it (`c`, with `Legal c0 h1 c`) — whatever was inserted or removed
while the walker was parked. -/
theorem snapshot_walk_visits_snapshot {W : Nat} {c0 : List Nat} (hn : c0.Nodup) {ts : List (WK.Role × Nat)} {s : WK.State}
    (hr : WK.Reachable W true c0 ts s) {i : Nat} (hw : (s.task i).role = .walker) (hd : (s.task i).st = .done) :
    ∃ h1 h2 c, s.hist = h1 ++ (i, TS.Op.iter, TS.Ret.list (s.task i).visited) :: h2 ∧ TS.Legal c0 h1 c ∧
      (s.task i).visited = c := by
  have inv := WK.reachable_linv hn hr
  obtain ⟨hb, ht⟩ := inv.ended i hw hd
  have hv : (s.task i).visited = (s.task i).snap := by
    have := inv.split i hb
    rwa [ht, List.append_nil] at this
  obtain ⟨h1, h2, hh⟩ := List.append_of_mem (inv.logged i hb)
  rw [← hv] at hh
  have hh' : s.hist = (h1 ++ [(i, TS.Op.iter, TS.Ret.list (s.task i).visited)]) ++ h2 := by rw [hh]; simp
  obtain ⟨c1, hc1⟩ := TS.legal_prefix inv.legal _ h2 hh'
  obtain ⟨hl, hc⟩ := TS.legal_iter_content hc1
  exact ⟨h1, h2, c1, hh, hc, hl⟩

/-- non-vacuity of the theorems about the repaired walk, on the schedule that deadlocks the as-is system (one
worker): the walker snapshots 30 elements, visits 16 and parks; the dropper is polled and removes 3 at once;
the walker is polled again and visits the other 14 — including 3, which was present at snapshot time; all done. -/
example : ∃ s, WK.Reachable 1 true (List.range 30) (f60Tasks 1) s ∧
    (∀ i, i < s.n → (s.task i).st = .done) ∧ (s.task 0).visited = List.range 30 ∧
    s.content = (List.range 30).erase 3 ∧
    s.hist = [(0, .iter, .list (List.range 30)), (1, .rem 3, .bool true)] := by
  obtain ⟨s, hr, hp⟩ := WK.exists_of_run (W := 1) (f := true) (c0 := List.range 30) (ts := f60Tasks 1)
    (evs := f60Schedule 1 ++ [.write 1, .resume 0, .walkEnd 0])
    (P := fun s => !s.unfinished && decide ((s.task 0).visited = List.range 30 ∧ s.content = (List.range 30).erase 3 ∧
      s.hist = [(0, .iter, .list (List.range 30)), (1, .rem 3, .bool true)])) (by decide)
  simp only [Bool.and_eq_true, Bool.not_eq_true', decide_eq_true_eq] at hp
  refine ⟨s, hr, ?_, hp.2⟩
  intro i hi
  have h := hp.1
  simp only [WK.State.unfinished, List.any_eq_false, List.mem_range] at h
  simpa using h i hi

/-- …and the as-is system on a runtime with a spare worker gets through the same history: the deadlock needs
every worker that could poll the walker to be blocked -/
example : ∃ s, WK.Reachable 2 false (List.range 30) (f60Tasks 1) s ∧ s.unfinished = false := by
  obtain ⟨s, hr, hp⟩ := WK.exists_of_run (W := 2) (f := false) (c0 := List.range 30) (ts := f60Tasks 1)
    (evs := f60Schedule 1 ++ [.resume 0, .walkEnd 0, .write 1]) (P := fun s => !s.unfinished) (by decide)
  exact ⟨s, hr, by simpa using hp⟩

/-! ## the iterator of the small tier: guarded for its whole life vs. re-locking per `next()` (`RI`, Model/RelockIter.lean) -/

/-- the assumption `TS.iterBegin`, `WK.walkBegin` and `tiered_set_linearizable` rest on, proved for the iterator AS
IT IS (index-based `next()`, `swap_remove`, the vector's read guard owned by the iterator): whatever inserts and
removes are attempted, a finished iteration has returned exactly the content of the vector at `iter()` time — each
element present then, once, in order. -/
theorem guarded_iter_is_snapshot {c0 : List Nat} {s : RI.State} (hr : RI.Reachable true c0 s) (hf : s.finished = true) :
    s.out = s.snap := by
  have inv := RI.reachable_inv hr
  cases hidx : s.idx with
  | none => have := (inv.fresh hidx).2; rw [this] at hf; cases hf
  | some i =>
    obtain ⟨hout, _, _, hfin⟩ := inv.alive i hidx
    rw [hout, hfin hf, List.take_length]

/-- …and while a guarded iterator is alive no insert or remove gets the lock -/
theorem guarded_iter_excludes_writers {c0 : List Nat} {s : RI.State} (hr : RI.Reachable true c0 s) {i : Nat}
    (hidx : s.idx = some i) (hf : s.finished = false) (x : Nat) : RI.step s (.rem x) = none ∧ RI.step s (.ins x) = none := by
  have hg := (RI.reachable_inv hr).guarded
  simp [RI.step, RI.State.writable, hg, hidx, hf]

/-- SEEDED CHANGE C02-small-set-walk-relock — with the lock taken per `next()` the statement fails (kernel-checked
witness, `swap_remove` semantics): vector `[0,1,2,3]`; the iteration returns 0 and 1; `remove_element(0)` moves the
LAST element 3 into slot 0, which the index has passed; the iteration returns 2 and ends.  Element 3 was present
before, during and after the iteration and was never removed, yet the iteration misses it (for the dirty walk: a
caller of a changed firewall that is not marked dirty). -/
theorem relocking_iter_misses_present_element :
    ∃ s, RI.Reachable false [0, 1, 2, 3] s ∧ s.finished = true ∧ s.snap = [0, 1, 2, 3] ∧ s.removed = [0] ∧
      3 ∈ s.vec ∧ s.out = [0, 1, 2] := by
  obtain ⟨s, hr, hp⟩ := RI.exists_of_run (g := false) (c0 := [0, 1, 2, 3]) (evs := [.iter, .next, .next, .rem 0, .next, .next])
    (P := fun s => decide (s.finished = true ∧ s.snap = [0, 1, 2, 3] ∧ s.removed = [0] ∧ 3 ∈ s.vec ∧ s.out = [0, 1, 2])) (by decide)
  exact ⟨s, hr, of_decide_eq_true hp⟩

/-- the same at the engine's sizes: 30 callers, the walk has passed 16 of them when caller 3 drops its edge:
caller 29 (the last one) is never visited -/
theorem relocking_iter_misses_present_element_30 :
    ∃ s, RI.Reachable false (List.range 30) s ∧ s.finished = true ∧ s.removed = [3] ∧ 29 ∈ s.vec ∧ 29 ∉ s.out := by
  obtain ⟨s, hr, hp⟩ := RI.exists_of_run (g := false) (c0 := List.range 30)
    (evs := [.iter] ++ List.replicate 16 .next ++ [.rem 3] ++ List.replicate 14 .next)
    (P := fun s => decide (s.finished = true ∧ s.removed = [3] ∧ 29 ∈ s.vec ∧ 29 ∉ s.out)) (by decide)
  exact ⟨s, hr, of_decide_eq_true hp⟩

/-- …and it can return an element twice (remove + re-insert of an element already returned: the push puts it at the end) -/
theorem relocking_iter_yields_duplicate :
    ∃ s, RI.Reachable false [0, 1] s ∧ s.finished = true ∧ s.out = [0, 0] := by
  obtain ⟨s, hr, hp⟩ := RI.exists_of_run (g := false) (c0 := [0, 1]) (evs := [.iter, .next, .rem 0, .ins 0, .next, .next])
    (P := fun s => decide (s.finished = true ∧ s.out = [0, 0])) (by decide)
  exact ⟨s, hr, of_decide_eq_true hp⟩

/-- non-vacuity of `guarded_iter_is_snapshot`: writers before and after a guarded iteration; in between they are
refused (the witness schedule of `relocking_iter_misses_present_element` is not a schedule of the guarded system) -/
example : (∃ s, RI.Reachable true [0, 1, 2, 3] s ∧ s.finished = true ∧ s.out = [3, 1, 2] ∧ s.vec = [3, 1]) ∧
    RI.run (RI.init true [0, 1, 2, 3]) [.iter, .next, .next, .rem 0] = none := by
  refine ⟨?_, by decide⟩
  obtain ⟨s, hr, hp⟩ := RI.exists_of_run (g := true) (c0 := [0, 1, 2, 3]) (evs := [.rem 0, .iter, .next, .next, .next, .next, .rem 2])
    (P := fun s => decide (s.finished = true ∧ s.out = [3, 1, 2] ∧ s.vec = [3, 1])) (by decide)
  exact ⟨s, hr, of_decide_eq_true hp⟩

end QbiceVerif.C02
