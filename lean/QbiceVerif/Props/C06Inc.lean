/-
C06, incremental part — "when an input change removes or creates a cycle the results follow".

This part of the property was FALSE for the code as found and holds on every replay for the code as it is NOW (after
the repairs listed below; there is no positive theorem for it: it is decided by the correspondence and the oracle).
The witnesses below are kernel-checked
evaluations of the full engine model (Model/Engine.lean) on the canonical replays of
corpus/engine-cyclic; the same replays are run on the real engine on every `tools/check C06` (where
the implementation answers line by line what the default model answers).

`{}` (default `Toggles`) is the code as it is NOW.  Fixed in /repo: F2 (531aeb1), F16 (3fbfd09), F33
(4685b5a), F14 (b832249), F1 (2abe9f6), F3/F31/F32 (1f41826: toggles f34 f35 f36); the hang of F30 disappeared with the F1 fix.  Every
HISTORICAL witness names its configuration explicitly (`beforeSccFix`, `beforeF2`, `beforeF16`, `beforeF16F33`,
`beforeF1`: the code before 1f41826, resp. that code with exactly one more fix switched off) and is paired with a `…_fixed_…`
theorem stating that `{}` returns the from-scratch answer on the same replay.  The theorem names
`cycle_incremental_asis_fails_*` are historical: "as is" = the code of that time; F32 was triggered by the F1 fix
itself (`cycle_incremental_F32_trigger`) and is repaired by 1f41826 (`cycle_incremental_fixed_F32`).
-/
import QbiceVerif.Model.Engine
namespace Qbice.Engine.C06

/-- outcome of a history: the values of the last round, or the class of the error -/
inductive Out | vals (vs : List Val) | panic | hang | other
  deriving DecidableEq, Repr

def outcome (r : Except Err (List Val × St)) : Out :=
  match r with
  | .ok (vs, _) => .vals vs
  | .error (.panic _) => .panic
  | .error (.deadlock _) => .hang
  | .error _ => .other

/-- `session ws₁; round r₁; session ws₂; round r₂` from the empty store; the last round's answer -/
def twoEpochs (t : Toggles) (p : Program) (ws₁ : List Write) (r₁ : List Key) (ws₂ : List Write) (r₂ : List Key) : Out :=
  outcome (runM (do
    let _ ← session p ws₁
    let _ ← round t p r₁
    let _ ← session p ws₂
    round t p r₂) {})

def threeEpochs (t : Toggles) (p : Program) (ws₁ : List Write) (r₁ : List Key) (ws₂ : List Write) (r₂ : List Key)
    (ws₃ : List Write) (r₃ : List Key) : Out :=
  outcome (runM (do
    let _ ← session p ws₁
    let _ ← round t p r₁
    let _ ← session p ws₂
    let _ ← round t p r₂
    let _ ← session p ws₃
    round t p r₃) {})

/-- … with the repair of F3/F31/F32 (1f41826: runs that end inside an SCC record no observations, carry
    themselves in their firewall set and propagate like a firewall) switched off -/
def beforeSccFix : Toggles := { f34 := false, f35 := false, f36 := false }

/-- the code before 1f41826 with exactly the fix of F2 (531aeb1) switched off (after 1f41826 the missing
    observation is noticed before `check_callee` is reached) -/
def beforeF2 : Toggles := { beforeSccFix with f2 := false }
/-- … with exactly the fix of F16 (3fbfd09) switched off -/
def beforeF16 : Toggles := { beforeSccFix with f16 := false }
/-- … with the fixes of F16 and of F33 (4685b5a: visited set) switched off: the hang of F16 needs the
    walk of `check_cyclic_internal` that has no visited set -/
def beforeF16F33 : Toggles := { beforeSccFix with f16 := false, f33 := false }
/-- … with exactly the first part of the fix of F1 (2abe9f6: clean edges above unsettled firewalls are
    not trusted) switched off -/
def beforeF1 : Toggles := { beforeSccFix with f1p := false }

def input : NodeDef := { kind := .input, dflt := 0, prog := .ret 0 }

/-- corpus/engine-cyclic/F2.txt: `A = if X = 1 then B else 10`, `B = A`.  `A` queried at `X = 1`
    (cycle `A ↔ B`), then `X := 3` (cycle removed) and `B` queried: from scratch `B = 10`. -/
def pF2 : Program :=
  [ input,
    { kind := .normal, dflt := -1, prog := .ask 0 fun x => if x = 1 then .ask 2 .ret else .ret 10 },
    { kind := .normal, dflt := -1, prog := .ask 1 .ret } ]

/-- F2 (historical): the code before 531aeb1 panics (`unwrap` on the missing observation of `B`'s
    cyclic read). -/
theorem cycle_incremental_asis_fails_F2 :
    twoEpochs beforeF2 pF2 [.set 0 1] [1] [.set 0 3] [2] = .panic := by decide +kernel

theorem cycle_incremental_fixed_F2 :
    twoEpochs {} pF2 [.set 0 1] [1] [.set 0 3] [2] = .vals [10] := by decide +kernel

/-- corpus/engine-cyclic/F3.txt: `A = if X = 1 then B else -1`, `B = A + 21`.  After the cycle is
    removed `A`'s real value `-1` has the fingerprint of `A`'s cycle default. -/
def pF3 : Program :=
  [ input,
    { kind := .normal, dflt := -1, prog := .ask 0 fun x => if x = 1 then .ask 2 .ret else .ret (-1) },
    { kind := .normal, dflt := -1, prog := .ask 1 fun a => .ret (a + 21) } ]

/-- F3 (HISTORICAL, before 1f41826): `B` keeps its cycle default `-1`; from scratch `B = 20`. -/
theorem cycle_incremental_asis_fails_F3 :
    twoEpochs beforeSccFix pF3 [.set 0 1] [2] [.set 0 3] [2] = .vals [-1] := by decide +kernel

theorem cycle_incremental_repaired_F3 :
    twoEpochs { beforeSccFix with f3 := true } pF3 [.set 0 1] [2] [.set 0 3] [2] = .vals [20] := by decide +kernel

/-- the code now (1f41826) -/
theorem cycle_incremental_fixed_F3 :
    twoEpochs {} pF3 [.set 0 1] [2] [.set 0 3] [2] = .vals [20] := by decide +kernel

/-- corpus/engine-cyclic/F16-value.txt: `A = if X = 1 then B else -1`, `B = A + 1`; the edit
    `X := 1` CREATES the cycle `B → A → B` while `B` is being repaired. -/
def pF16 : Program :=
  [ input,
    { kind := .normal, dflt := -1, prog := .ask 0 fun x => if x = 1 then .ask 2 .ret else .ret (-1) },
    { kind := .normal, dflt := -1, prog := .ask 1 fun a => .ret (a + 1) } ]

/-- F16 (value, historical): before 3fbfd09 `B` is cleaned with its old value `0` although it has
    just been marked as a member of the cycle; from scratch both members have their default `-1`. -/
theorem cycle_incremental_asis_fails_F16_value :
    twoEpochs beforeF16 pF16 [.set 0 0] [2] [.set 0 1] [2] = .vals [0] := by decide +kernel

theorem cycle_incremental_fixed_F16_value :
    twoEpochs {} pF16 [.set 0 0] [2] [.set 0 1] [2] = .vals [-1] := by decide +kernel

/-- corpus/engine-cyclic/F16-hang.txt: a cycle through a firewall and three projections, created by
    the edit; queries in Repair mode keep their registered callees, the registered-callee graph of
    computing queries becomes cyclic and `check_cyclic_internal` never returns. -/
def pF16h : Program :=
  [ input,
    { kind := .normal, dflt := -1, prog := .ask 0 .ret },
    { kind := .normal, dflt := -1, prog := .ask 1 .ret },
    { kind := .firewall, dflt := -2, prog := .ask 2 fun x => if x = 3 then .ask 6 .ret else .ret 3 },
    { kind := .projection, dflt := -3, prog := .ask 3 .ret },
    { kind := .projection, dflt := -3, prog := .ask 4 .ret },
    { kind := .projection, dflt := -3, prog := .ask 3 fun x => if x = 0 then .ret 0 else .ask 5 .ret },
    { kind := .normal, dflt := -1, prog := .ask 6 .ret } ]

/-- F16 (hang, historical): before 3fbfd09 the request never completes (the model's `deadlock`
    outcome; the real engine was stopped by the harness watchdog). -/
theorem cycle_incremental_asis_fails_F16_hang :
    twoEpochs beforeF16F33 pF16h [.set 0 0] [7] [.set 0 3] [7] = .hang := by decide +kernel

/-- now the request completes with the from-scratch value (the default of the projection `N6`) -/
theorem cycle_incremental_fixed_F16_hang :
    twoEpochs {} pF16h [.set 0 0] [7] [.set 0 3] [7] = .vals [-3] := by decide +kernel

/-- corpus/engine-cyclic/F30-tfc-self-recursion.txt: firewall `F = X + N`, `N = F`: `F` ends up in
    its own transitive-firewall-callee set and a later repair of `F` requests itself forever. -/
def pF30 : Program :=
  [ input,
    { kind := .firewall, dflt := -2, prog := .ask 0 fun x => .ask 2 fun n => .ret (x + n) },
    { kind := .normal, dflt := -1, prog := .ask 1 .ret } ]

/-- F30 on this replay (HISTORICAL): before 2abe9f6 the stale firewall set made the third request hang. -/
theorem cycle_incremental_asis_fails_F30 :
    threeEpochs beforeF1 pF30 [.set 0 2] [2] [.set 0 1] [1] [] [1] = .hang := by decide +kernel

/-- now: the members `F`, `N` of the cycle have their defaults; the request completes with `F`'s -/
theorem cycle_incremental_fixed_F30 :
    threeEpochs {} pF30 [.set 0 2] [2] [.set 0 1] [1] [] [1] = .vals [-2] := by decide +kernel

/-- corpus/engine-cyclic/F31.txt: `N2 = if X = 2 then N3 else 4`, `N3 = if N1 = 1 then 0 else N2`.
    Epoch 2 creates the cycle while `N3` is being repaired; `N3`'s re-execution is aborted after its
    first read and forgets that it depends on `N2`; epoch 3 removes the cycle, `N3` is never told. -/
def pF31 : Program :=
  [ input,
    { kind := .normal, dflt := -1, prog := .ret 0 },
    { kind := .normal, dflt := -1, prog := .ask 0 fun x => if x = 2 then .ask 3 .ret else .ret 4 },
    { kind := .normal, dflt := -1, prog := .ask 1 fun a => if a = 1 then .ret 0 else .ask 2 .ret } ]

/-- F31 (HISTORICAL, before 1f41826): `N3` keeps the default `-1`; from scratch `N3 = 4`. -/
theorem cycle_incremental_asis_fails_F31 :
    threeEpochs beforeSccFix pF31 [.set 0 3] [3] [.set 0 2] [3] [.set 0 3] [3] = .vals [-1] := by decide +kernel

/-- F3 repaired (with F2, F16 fixed) is not enough for this history … -/
theorem cycle_incremental_F31_needs_its_own_repair :
    threeEpochs { beforeSccFix with f3 := true } pF31 [.set 0 3] [3] [.set 0 2] [3] [.set 0 3] [3]
      = .vals [-1] := by decide +kernel

/-- … with F31 repaired as well the model returns the from-scratch value. -/
theorem cycle_incremental_repaired_F31 :
    threeEpochs { beforeSccFix with f3 := true, f31 := true } pF31 [.set 0 3] [3] [.set 0 2] [3] [.set 0 3] [3]
      = .vals [4] := by decide +kernel

/-- the code now (1f41826) -/
theorem cycle_incremental_fixed_F31 :
    threeEpochs {} pF31 [.set 0 3] [3] [.set 0 2] [3] [.set 0 3] [3] = .vals [4] := by decide +kernel

/-- corpus/engine-cyclic/F32-after-f1-fix.txt: firewall `F = N`, `N = F`, `A = F`.  `A` is requested
    (cycle `F ↔ N`: both defaulted, `A = −2`), then an EMPTY session, then `N` is requested: from
    scratch `N` is a member and has its default `−1`. -/
def pF32b : Program :=
  [ input,
    { kind := .firewall, dflt := -2, prog := .ask 2 .ret },
    { kind := .normal, dflt := -1, prog := .ask 1 .ret },
    { kind := .normal, dflt := -1, prog := .ask 1 .ret } ]

/-- F32 (HISTORICAL, the code between 2abe9f6 and 1f41826): `N`'s clean edge to the firewall `F` is not trusted (2abe9f6), `F` is
    repaired through `N`'s own computing lock, the cycle is detected, `N` is re-run alone and reads
    `F`'s stale default: `N = −2`, not marked — although nothing changed. -/
theorem cycle_incremental_asis_fails_F32 :
    twoEpochs beforeSccFix pF32b [] [3] [] [2] = .vals [-2] := by decide +kernel

/-- the trigger is the distrust of clean edges: without it `N` is simply verified (`−1`) -/
theorem cycle_incremental_F32_trigger :
    twoEpochs beforeF1 pF32b [] [3] [] [2] = .vals [-1] := by decide +kernel

/-- candidate repair (members of a former cycle are never cleaned, F3/F31 repaired) -/
theorem cycle_incremental_repaired_F32 :
    twoEpochs { beforeSccFix with f3 := true, f31 := true, f32 := true } pF32b [] [3] [] [2] = .vals [-1] := by decide +kernel

/-- the code now (1f41826) -/
theorem cycle_incremental_fixed_F32 :
    twoEpochs {} pF32b [] [3] [] [2] = .vals [-1] := by decide +kernel

end Qbice.Engine.C06
