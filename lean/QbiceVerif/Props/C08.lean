/-
C08 — a crash loses recent work but never yields wrong answers.

The store after a crash is the fold of a prefix of the logical write batches (write-behind model,
C10), which is one of the published images of the run (`Model/EnginePersist.lean`); an engine opened
on it is `load` of that image.
-/
import QbiceVerif.Lemmas.EnginePersist
import QbiceVerif.Lemmas.EnginePersistCore
import QbiceVerif.Lemmas.EnginePersistCrash2
import QbiceVerif.Lemmas.EngineCoreEx
import QbiceVerif.Props.C10

namespace Qbice.Persist
open Qbice.Engine

/-- "the store holds the effect of a prefix of the committed write batches, each applied entirely or
    not at all", "for every grouping of logical batches into physical ones" — from the write-behind
    model (C10), for every reachable state of the pipeline under every schedule, any number of
    serializer threads and any answers of `should_write_more`: the store is the sequential fold of
    the first `k` logical batches (`k` = number applied so far), and the physical commits are a
    chunking of `0,1,2,…` into runs of consecutive epochs. -/
theorem prefix_atomic {nSer : Nat} {s : QbiceVerif.WB.State} (hr : QbiceVerif.WB.Reachable nSer s) :
    s.store = QbiceVerif.WB.seqSpec s s.applied.length ∧
    (s.log.map (·.map QbiceVerif.WB.Task.epoch)).flatten = List.range s.applied.length ∧
    ∀ chunk ∈ s.log, ∃ a, chunk.map QbiceVerif.WB.Task.epoch = List.range' a chunk.length :=
  ⟨QbiceVerif.WB.final_content_prefix hr, QbiceVerif.WB.physical_chunks hr⟩

/-- "the store after any crash = fold of a prefix of logical batches = persistent part of an
    intermediate state of the run": applying the first `i` batches of a run to the empty store gives
    the `i`-th published image, i.e. the persistent part of the in-memory state at the moment batch
    `i-1` was published (`publish` appends `persistent st` to the trace). -/
theorem prefix_is_reachable (tr : List PSt) (i : Nat) (hi : i ≤ tr.length) :
    some (storeFrom {} ((batches {} tr).take i)) = imageAt tr i := storeFrom_prefix tr i hi

/-- "An engine opened on that store starts without error, shows the inputs of some earlier
    committed session": opening never fails in the model (`crashAt` is defined for every cut of the
    log), and the engine it yields has exactly the timestamp, nodes (inputs with their values) and
    edges of that image, with nothing in flight. -/
theorem crash_opens (w : List (Key × Val)) (tr : List PSt) (i : Nat) (hi : i ≤ tr.length) :
    ∃ ps img, crashAt w tr i = some ps ∧ imageAt tr i = some img ∧ persistent ps.st = img ∧
      Quiescent ps.st := by
  cases i with
  | zero => exact ⟨_, _, rfl, rfl, rfl, rfl, rfl, rfl⟩
  | succ i =>
    have hlt : i < tr.length := hi
    refine ⟨{ st := load w tr[i], trace := tr.take (i + 1) }, tr[i], ?_, ?_, ?_, rfl, rfl, rfl⟩
    · simp [crashAt, imageAt, hlt]
    · simp [imageAt, hlt]
    · exact persistent_load w _

example : ∃ ps, crashAt [] [persistent {}, { epoch := 1 }] 2 = some ps ∧ ps.st.epoch = 1 := ⟨_, rfl, rfl⟩

end Qbice.Persist

namespace Qbice.Core

/-- "answers every query with the from-scratch value for those inputs - at worst by recomputing"
    (core model: programs of input, normal and external-input queries with dynamic dependency sets
    and unordered read groups, the fragment of C01's theorem).  `imagesOps p ops {}` lists the
    content of the store after every logical write batch of the history `ops` run from an empty store — the batch of every session and the one batch
    every query publishes at the end of its processing, with the dirty edges of keys still in
    progress as the store still has them; the empty store is the image before the first batch.  For
    EVERY one of these images `t` (every cut of the commit sequence), for every program and history:
    the engine reopened on it (`restart t`) satisfies the engine invariant of C01 — timestamp vs.
    verification stamps, dirty marks vs. cleaned edges, callee stored before caller —, its committed
    inputs are exactly those after a prefix `pre` of the history ("shows the inputs of some earlier
    committed session"), its external values (first demand / last refresh) and its world are those
    of the state `sp` the run had reached after that prefix, and every query it answers returns the
    from-scratch value for those inputs and external values; it never runs out of fuel. -/
theorem crash_sound_core {p : Program} (wf : WF p) (ops : List Op) {t : St}
    (ht : t ∈ ({} : St) :: imagesOps p ops {}) :
    Inv p (restart t) ∧ ∃ pre outs sp, pre <+: ops ∧ runOps p pre {} = .ok (outs, sp) ∧
      inputsOf (restart t) = inputsAfter pre (fun _ => none) ∧
      extOf p (restart t) = extOf p sp ∧ (restart t).world = sp.world ∧
      ∀ k fuel, k < fuel →
        query p fuel k (restart t) ≠ .error .outOfFuel ∧
        ∀ v s', query p fuel k (restart t) = .ok (v, s') →
          evalSpec p (inputsAfter pre (fun _ => none)) (extOf p sp) (k + 1) k = some v := by
  have key : Inv p t ∧ ∃ pre outs sp, pre <+: ops ∧ runOps p pre {} = .ok (outs, sp) ∧
      inputsOf t = inputsAfter pre (fun _ => none) ∧ extOf p t = extOf p sp ∧ t.world = sp.world := by
    simp only [List.mem_cons] at ht
    cases ht with
    | inl e => subst e; exact ⟨Inv.init p, [], [], {}, by simp, rfl, rfl, rfl, rfl⟩
    | inr ht =>
      obtain ⟨a, pre, outs, sp, hp, hr, hi, _, he, hw, _⟩ := imagesOps_ok wf ops {} (Inv.init p) t ht
      exact ⟨a, pre, outs, sp, hp, hr, hi, he, hw⟩
  obtain ⟨inv, pre, outs, sp, hp, hr, hi, he, hw⟩ := key
  have inv' : Inv p (restart t) := inv.setLog []
  refine ⟨inv', pre, outs, sp, hp, hr, hi, he, hw, ?_⟩
  intro k fuel hk
  have hs := query_spec wf fuel k hk (restart t) inv'
  refine ⟨hs.not_oof, ?_⟩
  intro v s' h
  obtain ⟨_, _, _, c, _⟩ := hs.ok h
  have h1 : inputsOf (restart t) = inputsAfter pre (fun _ => none) := hi
  have h2 : extOf p (restart t) = extOf p sp := he
  simpa [cur, h1, h2] using c

/-- non-vacuity: the 4-key example of C01; its first session and a round querying key 3 publish three
    batches (the session, then key 2, then key 3 — callee before caller); the store image between the
    last two has key 2 computed and key 3 absent, and the reopened engine recomputes key 3 = 30. -/
example : WF exP ∧ (imagesOps exP [.sess [.set 0 1, .set 1 5], .round [3]] {}).length = 3 ∧
    ((imagesOps exP [.sess [.set 0 1, .set 1 5], .round [3]] {})[1]?.map fun t =>
      ((t.nodes 2).isSome, (t.nodes 3).isSome, (query exP (fuelFor exP) 3 (restart t)).toOption.map (·.1))) =
      some (true, false, some 30) :=
  ⟨exP_wf, by decide, by decide⟩

/-- non-vacuity with an external key read in an unordered group (`exQ`): the first round publishes
    the external key 1 (pinned at world cell 1 = 7), then key 2, then key 3; a crash right after the
    batch of key 1 leaves a store with the pinned value and without keys 2 and 3; the reopened
    engine recomputes key 3 = 2 * (1 + 7) without running the external executor again. -/
example : WF exQ ∧ (imagesOps exQ [.sess [.world 1 7, .set 0 1], .round [3]] {}).length = 4 ∧
    ((imagesOps exQ [.sess [.world 1 7, .set 0 1], .round [3]] {})[1]?.map fun t =>
      (pinsOf t 1, (t.nodes 2).isSome,
        (query exQ (fuelFor exQ) 3 (restart t)).toOption.map fun r => (r.1, r.2.log))) =
      some (some 7, false, some (16, [2, 3])) :=
  ⟨exQ_wf, by decide, by decide⟩

end Qbice.Core
