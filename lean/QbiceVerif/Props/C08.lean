/-
C08 — a crash loses recent work but never yields wrong answers.

The store after a crash is the fold of a prefix of the logical write batches (write-behind model,
C10), which is one of the published images of the run (`Model/EnginePersist.lean`); an engine opened
on it is `load` of that image.
-/
import QbiceVerif.Lemmas.EnginePersist
import QbiceVerif.Lemmas.EnginePersistCore
import QbiceVerif.Lemmas.EnginePersistCrash2
import QbiceVerif.Lemmas.EngineCoreEx
import QbiceVerif.Props.C10
import QbiceVerif.Lemmas.EnginePersistCoreFw4
import QbiceVerif.Lemmas.EnginePersistCoreFw5
import QbiceVerif.Lemmas.EngineCoreFwEx

namespace Qbice.Persist
open Qbice.Engine

/-- "the store holds the effect of a prefix of the committed write batches, each applied entirely or
    not at all", "for every grouping of logical batches into physical ones" — from the write-behind
    model (C10), for every reachable state of the pipeline under every schedule, any number of
    serializer threads and any answers of `should_write_more`: the store is the sequential fold of
    the first `k` logical batches (`k` = number applied so far), and the physical commits are a
    chunking of `0,1,2,…` into runs of consecutive epochs. -/
theorem prefix_atomic {nSer : Nat} {s : QbiceVerif.WB.State} (hr : QbiceVerif.WB.Reachable nSer s) :
    s.store = QbiceVerif.WB.seqSpec s s.applied.length ∧
    (s.log.map (·.map QbiceVerif.WB.Task.epoch)).flatten = List.range s.applied.length ∧
    ∀ chunk ∈ s.log, ∃ a, chunk.map QbiceVerif.WB.Task.epoch = List.range' a chunk.length :=
  ⟨QbiceVerif.WB.final_content_prefix hr, QbiceVerif.WB.physical_chunks hr⟩

/-- "the store after any crash = fold of a prefix of logical batches = persistent part of an
    intermediate state of the run": applying the first `i` batches of a run to the empty store gives
    the `i`-th published image, i.e. the persistent part of the in-memory state at the moment batch
    `i-1` was published (`publish` appends `persistent st` to the trace). -/
theorem prefix_is_reachable (tr : List PSt) (i : Nat) (hi : i ≤ tr.length) :
    some (storeFrom {} ((batches {} tr).take i)) = imageAt tr i := storeFrom_prefix tr i hi

/-- "An engine opened on that store starts without error, shows the inputs of some earlier
    committed session": opening never fails in the model (`crashAt` is defined for every cut of the
    log), and the engine it yields has exactly the timestamp, nodes (inputs with their values) and
    edges of that image, with nothing in flight. -/
theorem crash_opens (w : List (Key × Val)) (tr : List PSt) (i : Nat) (hi : i ≤ tr.length) :
    ∃ ps img, crashAt w tr i = some ps ∧ imageAt tr i = some img ∧ persistent ps.st = img ∧
      Quiescent ps.st := by
  cases i with
  | zero => exact ⟨_, _, rfl, rfl, rfl, rfl, rfl, rfl⟩
  | succ i =>
    have hlt : i < tr.length := hi
    refine ⟨{ st := load w tr[i], trace := tr.take (i + 1) }, tr[i], ?_, ?_, ?_, rfl, rfl, rfl⟩
    · simp [crashAt, imageAt, hlt]
    · simp [imageAt, hlt]
    · exact persistent_load w _

example : ∃ ps, crashAt [] [persistent {}, { epoch := 1 }] 2 = some ps ∧ ps.st.epoch = 1 := ⟨_, rfl, rfl⟩

end Qbice.Persist

/-! ## PART 1 — the extended core model `Qbice.CoreFw` (all five query kinds) -/

namespace Qbice.CoreFw
open Qbice.Core (Op OpOut Sat)

/-- "If the process dies at any moment … an engine opened on that store starts without error, shows
    the inputs of some earlier committed session, and answers every query with the from-scratch value
    for those inputs — at worst by recomputing", on the extended core model (inputs, normal,
    external, firewall and projection queries with backward projection, unordered groups).

    `imagesOps p ops {}` lists the content of the store after every logical write batch of the
    history `ops` run from an empty store: the batch of every session, and every batch published
    while a round is served — `set_computed` of each executed key (a changed firewall's dirty marks
    and pending flag in the same batch), `clean_query` of each cleaned key, `done_backward_projection`
    — i.e. also the images in the middle of a query, in the middle of the repair of the transitive
    firewall callees, and in the middle of a backward projection; the empty store is the image before
    the first batch.  For EVERY such image `t`, every program with `WF p` and `Shape p` (no projection over a
    projection, or all projections static — the hypothesis of C01's theorem), every history:
    * the reopened engine (`restart t`) satisfies the engine invariant of C01;
    * its committed inputs are those after a prefix `pre` of the history;
    * EVERY continuation `cont` (sessions and rounds) run on it never runs out of fuel, and if it
      completes its outputs are those of the from-scratch reference (`OutOK` of C01: every value
      returned by every round, every `set_input` result) for the inputs, pinned external values and
      world of the image.
    PARTIAL: `Shape p` (hypothesis of C01's `runOps_spec` / `core_history_sound_partial`). -/
theorem crash_sound_fw_partial {p : Program} (wf : WF p) (sh : Shape p) (ops : List Op) {t : St}
    (ht : t ∈ ({} : St) :: imagesOps p ops {}) :
    Inv p (restart t) ∧
    (∃ pre, pre <+: ops ∧ inputsOf (restart t) = inputsAfter pre (fun _ => none)) ∧
    ∀ cont : List Op, Sat (runOps p cont (restart t)) (fun r => OutOK p cont r.1 (refOf (restart t))) := by
  have key : Inv p t ∧ ∃ pre, pre <+: ops ∧ inputsOf t = inputsAfter pre (fun _ => none) := by
    simp only [List.mem_cons] at ht
    cases ht with
    | inl e => subst e; exact ⟨Inv.init p, [], by simp, rfl⟩
    | inr ht =>
      obtain ⟨a, pre, hp, hi⟩ := imagesOps_ok wf sh ops {} (Inv.init p) t ht
      exact ⟨a, pre, hp, hi⟩
  obtain ⟨inv, pre, hp, hi⟩ := key
  have inv' : Inv p (restart t) := inv.setLog []
  refine ⟨inv', ⟨pre, hp, hi⟩, fun cont => ?_⟩
  exact (runOps_spec wf sh cont (restart t) inv').mono (fun r h => h.1)

/-- The same as an EQUATION (no `Sat`): for a well-formed history (`HistOK`: the first operation is a
    session that sets every input key; sessions set input keys only, rounds ask keys of the program only)
    and EVERY store image `t` of it, every well-formed continuation `cont` (`OpsOK`: sessions set input keys
    only, rounds ask keys of the program only) run on the reopened engine IS `.ok` — no error of any
    kind — with the from-scratch outputs for the inputs, pinned external values and world of the image;
    the final state satisfies the invariant.  The images are published from the first session on, so all
    inputs are set in each of them.  The EMPTY store (a crash before the first batch) is the second case:
    no input is set there, the continuation must itself begin with a session that sets every input key
    (a round on the empty store answers `.error (.inputNotSet k)`, example in `Props/C01.lean`; the
    implementation panics there).  PARTIAL: `Shape p`. -/
theorem crash_total_fw_partial {p : Program} (wf : WF p) (sh : Shape p) {ops : List Op}
    (hok : HistOK p ops) {t : St} {cont : List Op} (hc : OpsOK p cont)
    (ht : t ∈ imagesOps p ops {} ∨ (t = {} ∧ ∃ ws rest, cont = .sess ws :: rest ∧ SetsAll p ws)) :
    ∃ outs s', runOps p cont (restart t) = .ok (outs, s') ∧
      OutOK p cont outs (refOf (restart t)) ∧ Inv p s' := by
  have key : Inv p (restart t) ∧
      (InputsSet p (restart t) ∨ ∃ ws rest, cont = .sess ws :: rest ∧ SetsAll p ws) := by
    rcases ht with ht | ⟨rfl, h⟩
    · exact ⟨(crash_sound_fw_partial wf sh ops (List.mem_cons_of_mem _ ht)).1,
        Or.inl (imagesOps_hist_inputsSet wf sh hok t ht)⟩
    · exact ⟨Inv.init p, Or.inr h⟩
  obtain ⟨inv', hin⟩ := key
  obtain ⟨⟨outs, s'⟩, h⟩ := runOps_total wf sh cont (restart t) inv' hc hin
  obtain ⟨o, i⟩ := (runOps_spec wf sh cont (restart t) inv').ok h
  exact ⟨outs, s', h, o, i⟩

/-- non-vacuity: the history of the example below is well formed, and so is the continuation `round [5, 3]` -/
example : HistOK exD [.sess [.set 0 1, .set 1 5], .round [5], .sess [.set 0 0], .round [5]] ∧
    OpsOK exD [.round [5, 3]] := by
  refine ⟨⟨⟨?_, ?_, ?_, ?_, trivial⟩, _, _, rfl, ?_⟩, ?_, trivial⟩
  · intro k v hm
    simp at hm
    rcases hm with ⟨rfl, _⟩ | ⟨rfl, _⟩ <;> exact ⟨_, rfl, rfl⟩
  · intro k hk; simp at hk; subst hk; decide
  · intro k v hm
    simp at hm
    obtain ⟨rfl, _⟩ := hm; exact ⟨_, rfl, rfl⟩
  · intro k hk; simp at hk; subst hk; decide
  · intro k d hp hk
    match k, hp with
    | 0, _ => exact ⟨1, by simp⟩
    | 1, _ => exact ⟨5, by simp⟩
    | 2, hp | 3, hp | 4, hp | 5, hp => simp [exD] at hp; subst hp; simp at hk
    | n + 6, hp => simp [exD] at hp
  · intro k hk; simp at hk; rcases hk with rfl | rfl <;> decide

/-- … in particular every single query by the user on the reopened engine returns the from-scratch
    value `cur` (from the inputs, pinned externals and world of the image) and never runs out of fuel. -/
theorem crash_query_sound_fw_partial {p : Program} (wf : WF p) (sh : Shape p) (ops : List Op) {t : St}
    (ht : t ∈ ({} : St) :: imagesOps p ops {}) {k fuel : Nat} (hk : k < fuel) :
    query p fuel .user k (restart t) ≠ .error .outOfFuel ∧
    ∀ v s', query p fuel .user k (restart t) = .ok (v, s') → cur p (restart t) k = some v := by
  have inv' := (crash_sound_fw_partial wf sh ops ht).1
  have hs := query_spec wf sh hk inv'
  exact ⟨hs.not_oof, fun v s' h => (hs.ok h).2.2.1⟩

/-- What C08 says about executor invocations after recovery: "at worst by recomputing" — nothing is
    promised for keys the image does not show verified (they are repaired or re-executed as after any
    session); a key the image shows verified in its epoch is served without running any executor. -/
theorem crash_verified_no_exec_fw (p : Program) {t : St} {k : Key} {n : Node}
    (hn : t.nodes k = some n) (hv : n.lastVerified = t.epoch) (fuel : Nat) :
    query p (fuel + 1) .user k (restart t) = .ok (n.value, restart t) ∧ (restart t).log = [] :=
  ⟨recovered_verified_no_exec p hn hv fuel, rfl⟩

/-- non-vacuity: `exD` (inputs 0, 1; firewall 2 over input 0; PROJECTION 3 over the firewall; normal
    4, 5).  The history publishes 13 batches.  Image 6 is in the middle of the second epoch's round:
    the firewall has been recomputed (value 0, backward projection pending) but the projection above
    it still has its old value 10, verified in epoch 1 — the process dies before the backward
    projection.  The reopened engine performs it and answers `5 ↦ 5`, `3 ↦ 0`, the from-scratch values
    for the inputs of the second session, re-running the executors of keys 3, 4, 5 (kernel-evaluated). -/
example : WF exD ∧ Shape exD ∧
    (imagesOps exD [.sess [.set 0 1, .set 1 5], .round [5], .sess [.set 0 0], .round [5]] {}).length = 13 ∧
    ((imagesOps exD [.sess [.set 0 1, .set 1 5], .round [5], .sess [.set 0 0], .round [5]] {})[6]?.map fun t =>
      ((t.nodes 2).map (fun n => (n.value, n.pendingBP)), (t.nodes 3).map (fun n => (n.value, n.lastVerified)),
        t.epoch, (runOps exD [.round [5, 3]] (restart t)).toOption.map (·.1))) =
      some (some (0, true), some (10, 1), 2, some [.round [5, 0] [3, 4, 5]]) :=
  ⟨exD_wf, exD_pf.shape, by decide +kernel, by decide +kernel⟩

end Qbice.CoreFw

/-! ## PART 2 — the core model `Qbice.Core` (inputs, normal queries, externals, unordered groups), in full -/

namespace Qbice.Core

/-- "answers every query with the from-scratch value for those inputs - at worst by recomputing"
    (core model: programs of input, normal and external-input queries with dynamic dependency sets
    and unordered read groups, the fragment of C01's theorem).  `imagesOps p ops {}` lists the
    content of the store after every logical write batch of the history `ops` run from an empty store — the batch of every session and the one batch
    every query publishes at the end of its processing, with the dirty edges of keys still in
    progress as the store still has them; the empty store is the image before the first batch.  For
    EVERY one of these images `t` (every cut of the commit sequence), for every program and history:
    the engine reopened on it (`restart t`) satisfies the engine invariant of C01 — timestamp vs.
    verification stamps, dirty marks vs. cleaned edges, callee stored before caller —, its committed
    inputs are exactly those after a prefix `pre` of the history ("shows the inputs of some earlier
    committed session"), its external values (first demand / last refresh) and its world are those
    of the state `sp` the run had reached after that prefix, and every query it answers returns the
    from-scratch value for those inputs and external values; it never runs out of fuel. -/
theorem crash_sound_core {p : Program} (wf : WF p) (ops : List Op) {t : St}
    (ht : t ∈ ({} : St) :: imagesOps p ops {}) :
    Inv p (restart t) ∧ ∃ pre outs sp, pre <+: ops ∧ runOps p pre {} = .ok (outs, sp) ∧
      inputsOf (restart t) = inputsAfter pre (fun _ => none) ∧
      extOf p (restart t) = extOf p sp ∧ (restart t).world = sp.world ∧
      ∀ k fuel, k < fuel →
        query p fuel k (restart t) ≠ .error .outOfFuel ∧
        ∀ v s', query p fuel k (restart t) = .ok (v, s') →
          evalSpec p (inputsAfter pre (fun _ => none)) (extOf p sp) (k + 1) k = some v := by
  have key : Inv p t ∧ ∃ pre outs sp, pre <+: ops ∧ runOps p pre {} = .ok (outs, sp) ∧
      inputsOf t = inputsAfter pre (fun _ => none) ∧ extOf p t = extOf p sp ∧ t.world = sp.world := by
    simp only [List.mem_cons] at ht
    cases ht with
    | inl e => subst e; exact ⟨Inv.init p, [], [], {}, by simp, rfl, rfl, rfl, rfl⟩
    | inr ht =>
      obtain ⟨a, pre, outs, sp, hp, hr, hi, _, he, hw, _⟩ := imagesOps_ok wf ops {} (Inv.init p) t ht
      exact ⟨a, pre, outs, sp, hp, hr, hi, he, hw⟩
  obtain ⟨inv, pre, outs, sp, hp, hr, hi, he, hw⟩ := key
  have inv' : Inv p (restart t) := inv.setLog []
  refine ⟨inv', pre, outs, sp, hp, hr, hi, he, hw, ?_⟩
  intro k fuel hk
  have hs := query_spec wf fuel k hk (restart t) inv'
  refine ⟨hs.not_oof, ?_⟩
  intro v s' h
  obtain ⟨_, _, _, c, _⟩ := hs.ok h
  have h1 : inputsOf (restart t) = inputsAfter pre (fun _ => none) := hi
  have h2 : extOf p (restart t) = extOf p sp := he
  simpa [cur, h1, h2] using c

/-- non-vacuity: the 4-key example of C01; its first session and a round querying key 3 publish three
    batches (the session, then key 2, then key 3 — callee before caller); the store image between the
    last two has key 2 computed and key 3 absent, and the reopened engine recomputes key 3 = 30. -/
example : WF exP ∧ (imagesOps exP [.sess [.set 0 1, .set 1 5], .round [3]] {}).length = 3 ∧
    ((imagesOps exP [.sess [.set 0 1, .set 1 5], .round [3]] {})[1]?.map fun t =>
      ((t.nodes 2).isSome, (t.nodes 3).isSome, (query exP (fuelFor exP) 3 (restart t)).toOption.map (·.1))) =
      some (true, false, some 30) :=
  ⟨exP_wf, by decide, by decide⟩

/-- non-vacuity with an external key read in an unordered group (`exQ`): the first round publishes
    the external key 1 (pinned at world cell 1 = 7), then key 2, then key 3; a crash right after the
    batch of key 1 leaves a store with the pinned value and without keys 2 and 3; the reopened
    engine recomputes key 3 = 2 * (1 + 7) without running the external executor again. -/
example : WF exQ ∧ (imagesOps exQ [.sess [.world 1 7, .set 0 1], .round [3]] {}).length = 4 ∧
    ((imagesOps exQ [.sess [.world 1 7, .set 0 1], .round [3]] {})[1]?.map fun t =>
      (pinsOf t 1, (t.nodes 2).isSome,
        (query exQ (fuelFor exQ) 3 (restart t)).toOption.map fun r => (r.1, r.2.log))) =
      some (some 7, false, some (16, [2, 3])) :=
  ⟨exQ_wf, by decide, by decide⟩

end Qbice.Core
