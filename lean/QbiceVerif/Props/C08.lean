/-
C08 — a crash loses recent work but never yields wrong answers.

The store after a crash is the fold of a prefix of the logical write batches (write-behind model,
C10), which is one of the published images of the run (`Model/EnginePersist.lean`); an engine opened
on it is `load` of that image.
-/
import QbiceVerif.Lemmas.EnginePersist
import QbiceVerif.Lemmas.EnginePersistCore
import QbiceVerif.Props.C10

namespace Qbice.Persist
open Qbice.Engine

/-- "the store holds the effect of a prefix of the committed write batches, each applied entirely or
    not at all", "for every grouping of logical batches into physical ones" — from the write-behind
    model (C10), for every reachable state of the pipeline under every schedule, any number of
    serializer threads and any answers of `should_write_more`: the store is the sequential fold of
    the first `k` logical batches (`k` = number applied so far), and the physical commits are a
    chunking of `0,1,2,…` into runs of consecutive epochs. -/
theorem prefix_atomic {nSer : Nat} {s : QbiceVerif.WB.State} (hr : QbiceVerif.WB.Reachable nSer s) :
    s.store = QbiceVerif.WB.seqSpec s s.applied.length ∧
    (s.log.map (·.map QbiceVerif.WB.Task.epoch)).flatten = List.range s.applied.length ∧
    ∀ chunk ∈ s.log, ∃ a, chunk.map QbiceVerif.WB.Task.epoch = List.range' a chunk.length :=
  ⟨QbiceVerif.WB.final_content_prefix hr, QbiceVerif.WB.physical_chunks hr⟩

/-- "the store after any crash = fold of a prefix of logical batches = persistent part of an
    intermediate state of the run": applying the first `i` batches of a run to the empty store gives
    the `i`-th published image, i.e. the persistent part of the in-memory state at the moment batch
    `i-1` was published (`publish` appends `persistent st` to the trace). -/
theorem prefix_is_reachable (tr : List PSt) (i : Nat) (hi : i ≤ tr.length) :
    some (storeFrom {} ((batches {} tr).take i)) = imageAt tr i := storeFrom_prefix tr i hi

/-- "An engine opened on that store starts without error, shows the inputs of some earlier
    committed session": opening never fails in the model (`crashAt` is defined for every cut of the
    log), and the engine it yields has exactly the timestamp, nodes (inputs with their values) and
    edges of that image, with nothing in flight. -/
theorem crash_opens (w : List (Key × Val)) (tr : List PSt) (i : Nat) (hi : i ≤ tr.length) :
    ∃ ps img, crashAt w tr i = some ps ∧ imageAt tr i = some img ∧ persistent ps.st = img ∧
      Quiescent ps.st := by
  cases i with
  | zero => exact ⟨_, _, rfl, rfl, rfl, rfl, rfl, rfl⟩
  | succ i =>
    have hlt : i < tr.length := hi
    refine ⟨{ st := load w tr[i], trace := tr.take (i + 1) }, tr[i], ?_, ?_, ?_, rfl, rfl, rfl⟩
    · simp [crashAt, imageAt, hlt]
    · simp [imageAt, hlt]
    · exact persistent_load w _

example : ∃ ps, crashAt [] [persistent {}, { epoch := 1 }] 2 = some ps ∧ ps.st.epoch = 1 := ⟨_, rfl, rfl⟩

end Qbice.Persist
