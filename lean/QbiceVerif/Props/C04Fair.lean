import QbiceVerif.Lemmas.PhaseFairWait
import QbiceVerif.Lemmas.PhaseFairLts
import QbiceVerif.Lemmas.PhaseExpr

/-!
# C04 — "… and every such mix eventually makes progress": a waiting writer is not overtaken

`phase_progress` (Props/C04.lean) holds for an arbitrary, even unfair, lock: with finite scripts every run is
finite.  It therefore cannot see a change that lets late readers overtake a waiting writer (seeded change
`C04-readers-join-hold-starve-writer`: `tracked()` joins the running phase's hold instead of queueing).  The
theorems here are about the FIFO, write-preferring queue that tokio's `RwLock` documents (modelled, not verified):

* `writer_bounded_overtaking` — full phase LTS (`Model/PhaseLts`, `Cfg.fair = true`, any number of tasks, any
  schedule): between a writer's enqueue and its grant, every request that is granted stood in FRONT of the writer
  in the queue when the writer was already queued; nothing that enqueued after the writer is granted before it.
* `fair_writer_bounded_overtaking`, `writer_granted_after_finitely_many_steps` — fair-queue LTS
  (`Model/PhaseFair`: the same `Lock` operations, tasks abstracted to acquisitions with a finite amount of work):
  the same, and an explicit bound `waitBound` on the number of steps ANY schedule can take before the writer is
  granted, in terms of the holders and the requests in front of it — independent of how long the scripts of the
  tasks behind it are.
* `joining_readers_starve_writer` — with the seeded change (`join = true`) no such bound exists: for every `n`
  there is a system of 3 tasks and a run of length `≥ n` during which the writer is queued and never granted,
  while `waitBound` of the same state is `≤ 4`.
-/

namespace QbiceVerif.Phase

/-- "every such mix eventually makes progress" — a waiting writer is overtaken only by requests that were queued
before it.

Full phase LTS, FIFO lock, any configuration otherwise (both orders of `input_session()`), any state `s` (in
particular every reachable one) in which `w` has a queued request (`phase:w:req` has taken effect), any schedule
`evs` from `s` during which `w` is not granted: `w` is still queued at the end; every task granted during `evs`
(`phase:r:acq` / `phase:w:acq` need a `grant`) had its request in front of `w`'s in the queue of `s` — so no
request enqueued after `w`'s (they are appended behind it) is granted before `w`; and the requests in front of
`w` only ever get fewer. -/
theorem writer_bounded_overtaking {c : Cfg} (hf : c.fair = true) {s s' : State} {w : Tid} {evs : List Ev}
    (hw : s.lock.want w ≠ none) (hr : run c s evs = some s') (hng : Ev.grant w ∉ evs) :
    s'.lock.want w = s.lock.want w ∧
    (∀ t, Ev.grant t ∈ evs → ∃ x, (t, x) ∈ PhaseFair.ahead s.lock.queue w) ∧
    (∀ p, p ∈ PhaseFair.ahead s'.lock.queue w → p ∈ PhaseFair.ahead s.lock.queue w) :=
  lts_run_wait hf evs hw hr hng

/-- a request made while `w` is queued is placed BEHIND `w` (it is not among the requests in front of `w`
unless it already was): the reader's side of `writer_bounded_overtaking` -/
theorem late_request_is_behind {c : Cfg} {s s' : State} {w t : Tid} (hw : s.lock.want w ≠ none)
    (hs : step c s (.rReq t) = some s') :
    PhaseFair.ahead s'.lock.queue w = PhaseFair.ahead s.lock.queue w := by
  obtain ⟨_, _, _, _, _, h, _⟩ := Prog.step_rReq hs
  rw [h]; exact PhaseFair.ahead_enqueue t false hw

end QbiceVerif.Phase

namespace QbiceVerif.PhaseFair

open QbiceVerif.Phase

/-- fair-queue LTS: the same statement as `Phase.writer_bounded_overtaking` -/
theorem fair_writer_bounded_overtaking {s s' : State} {w : Tid} {evs : List Ev}
    (hw : s.lock.want w ≠ none) (hr : run false s evs = some s') (hng : Ev.grant w ∉ evs) :
    s'.lock.want w = s.lock.want w ∧
    (∀ t, Ev.grant t ∈ evs → ∃ x, (t, x) ∈ ahead s.lock.queue w) ∧
    (∀ p, p ∈ ahead s'.lock.queue w → p ∈ ahead s.lock.queue w) := by
  obtain ⟨h1, h2, h3, _⟩ := run_wait evs hw hr hng
  exact ⟨h1, h2, h3⟩

/-- "… eventually makes progress", with an explicit bound.

Fair-queue LTS, any number of tasks, any scripts, any state `s` in which `w` is queued: EVERY schedule from `s`
that does not grant `w` has at most `waitBound s w` events — the remaining work (+ release, + one re-request) of
the current holders, grant + work + release (+ one re-request) of the requests queued in FRONT of `w`, and one
request for every other task.  The scripts of the tasks behind `w` enter only through "has something left to
ask for": however long they are, `w` is granted after at most `waitBound s w` steps of the others. -/
theorem writer_granted_after_finitely_many_steps {s s' : State} {w : Tid} {evs : List Ev}
    (hw : s.lock.want w ≠ none) (hr : run false s evs = some s') (hng : Ev.grant w ∉ evs) :
    evs.length + waitBound s' w ≤ waitBound s w :=
  (run_wait evs hw hr hng).2.2.2

/-! ## the seeded change: late readers join the running hold -/

/-- `tracked()` with no work under the lock -/
def rd : Acq := (false, 0)

/-- task 0: one `input_session()`; tasks 1, 2: `n + 1` rounds of `tracked(); drop` each -/
def starveScripts (n : Nat) : List (List Acq) :=
  [[(true, 0)], List.replicate (n + 1) rd, List.replicate (n + 1) rd]

/-- reader 1 takes the lock, reader 2 joins it, the writer enqueues -/
def starveSetup : List Ev := [.req 1, .grant 1, .req 2, .req 0]

/-- reader 1 drops and comes back (joining reader 2's hold), reader 2 drops and comes back (joining reader 1's) -/
def starveCycle : List Ev := [.rel 1, .req 1, .rel 2, .req 2]

def starveCycles : Nat → List Ev
  | 0 => []
  | n + 1 => starveCycle ++ starveCycles n

/-- the writer queued, both readers holding, `n` rounds left each -/
def starveState (n : Nat) : State :=
  ⟨⟨[2, 1], none, [(0, true)]⟩,
   [⟨.waiting true 0, []⟩, ⟨.holding false 0, List.replicate n rd⟩, ⟨.holding false 0, List.replicate n rd⟩]⟩

theorem starve_setup (n : Nat) : run true (init (starveScripts n)) starveSetup = some (starveState n) := rfl

theorem starve_cycle (n : Nat) : run true (starveState (n + 1)) starveCycle = some (starveState n) := rfl

theorem run_append {j : Bool} : ∀ (a b : List Ev) (s : State),
    run j s (a ++ b) = (run j s a).bind (fun s' => run j s' b) := by
  intro a
  induction a with
  | nil => intro b s; simp [run]
  | cons e es ih =>
    intro b s
    simp only [List.cons_append, run]
    cases step j s e with
    | none => simp
    | some s1 => simp [ih]

theorem starve_cycles (n : Nat) : run true (starveState n) (starveCycles n) = some (starveState 0) := by
  induction n with
  | zero => rfl
  | succ n ih => simp only [starveCycles, run_append, starve_cycle, Option.bind_some, ih]

theorem starveCycles_length (n : Nat) : (starveCycles n).length = 4 * n := by
  induction n with
  | zero => rfl
  | succ n ih => simp only [starveCycles, List.length_append, ih, starveCycle, List.length_cons, List.length_nil]; omega

theorem starveCycles_no_grant (n : Nat) : ∀ t, Ev.grant t ∉ starveCycles n := by
  induction n with
  | zero => intro t h; cases h
  | succ n ih =>
    intro t h
    simp only [starveCycles, List.mem_append] at h
    rcases h with h | h
    · simp [starveCycle] at h
    · exact ih t h

/-- a step that is not `w`'s grant leaves `w` queued and not holding (with or without joining) -/
theorem step_keeps_queued {j : Bool} {s s' : State} {w : Tid} {ev : Ev} (hw : s.lock.want w ≠ none)
    (hh : s.lock.writer ≠ some w) (hs : step j s ev = some s') (hne : ev ≠ .grant w) :
    s'.lock.want w = s.lock.want w ∧ s'.lock.writer ≠ some w := by
  cases ev with
  | req t =>
    simp only [step] at hs
    split at hs
    · split at hs
      · split at hs
        · simp only [Option.some.injEq] at hs; subst hs; exact ⟨rfl, hh⟩
        · simp only [Option.some.injEq] at hs; subst hs; exact ⟨want_enqueue_keep _ _ hw, hh⟩
      · simp at hs
    · simp at hs
  | grant t =>
    simp only [step] at hs
    split at hs
    · split at hs
      · simp only [Option.some.injEq] at hs; subst hs
        have htw : t ≠ w := fun e => hne (by rw [e])
        refine ⟨Prog.want_grant_other s.lock (Ne.symm htw), ?_⟩
        show (s.lock.grant t).writer ≠ some w
        unfold Lock.grant
        split
        · exact hh
        · simp; exact htw
        · exact hh
      · simp at hs
    · simp at hs
  | work t =>
    simp only [step] at hs
    split at hs
    · simp only [Option.some.injEq] at hs; subst hs; exact ⟨rfl, hh⟩
    · simp at hs
  | rel t =>
    simp only [step] at hs
    split at hs
    · rename_i x sc _
      simp only [Option.some.injEq] at hs; subst hs
      cases x
      · exact ⟨rfl, hh⟩
      · exact ⟨rfl, by simp⟩
    · simp at hs

theorem run_keeps_queued {j : Bool} : ∀ (evs : List Ev) {s s' : State} {w : Tid}, s.lock.want w ≠ none →
    s.lock.writer ≠ some w → run j s evs = some s' → Ev.grant w ∉ evs →
    s'.lock.want w = s.lock.want w ∧ s'.lock.writer ≠ some w := by
  intro evs
  induction evs with
  | nil => intro s s' w _ hh hr _; simp only [run, Option.some.injEq] at hr; subst hr; exact ⟨rfl, hh⟩
  | cons e es ih =>
    intro s s' w hw hh hr hng
    simp only [run] at hr
    cases hs : step j s e with
    | none => simp [hs] at hr
    | some s1 =>
      simp only [hs] at hr
      obtain ⟨h1, h2⟩ := step_keeps_queued hw hh hs (fun h => hng (by simp [h]))
      obtain ⟨i1, i2⟩ := ih (by rw [h1]; exact hw) h2 hr (fun h => hng (List.mem_cons_of_mem _ h))
      exact ⟨by rw [i1, h1], i2⟩

/-- The seeded change `C04-readers-join-hold-starve-writer` breaks progress, and only progress.

With `join = true` (a shared request made while a shared hold is alive joins it instead of queueing) there is,
for EVERY `n`, a system of three tasks (one writer, two readers with `n + 1` rounds each), a reachable state `s`
in which the writer's request is queued and it is the ONLY request in the queue, and a schedule from `s` of
length `≥ n` — the explicit periodic schedule `starveCycle` repeated — after every prefix of which the writer is
still queued and does not hold the lock, and which contains no grant at all: each reader that comes back was
requested AFTER the writer's request and is served BEFORE it.  For the code as it is (`join = false`) the very
same state has `waitBound s 0 ≤ 4`: every schedule that does not grant the writer has at most 4 events, whatever
`n` is (`writer_granted_after_finitely_many_steps`). -/
theorem joining_readers_starve_writer : ∀ n : Nat, ∃ (scripts : List (List Acq)) (s : State) (evs : List Ev),
    scripts.length = 3 ∧ run true (init scripts) starveSetup = some s ∧
    s.lock.queue = [(0, true)] ∧ n ≤ evs.length ∧ (∀ t, Ev.grant t ∉ evs) ∧
    (∀ k, ∃ s', run true s (evs.take k) = some s' ∧ s'.lock.want 0 = some true ∧ s'.lock.writer ≠ some 0) ∧
    waitBound s 0 ≤ 4 ∧
    (∀ evs' s', run false s evs' = some s' → Ev.grant 0 ∉ evs' → evs'.length ≤ 4) := by
  intro n
  have hw : (starveState n).lock.want 0 ≠ none := by simp [starveState, Lock.want]
  have ha : ahead [((0 : Tid), true)] 0 = [] := rfl
  have hb : waitBound (starveState n) 0 ≤ 4 := by
    have hm : more (List.replicate n rd) ≤ 1 := by unfold more; split <;> omega
    simp only [waitBound, ha, starveState, List.map_cons, List.map_nil, List.sum_cons, List.sum_nil, freeCost]
    omega
  refine ⟨starveScripts n, starveState n, starveCycles n, rfl, starve_setup n, rfl, ?_, starveCycles_no_grant n, ?_,
    hb, ?_⟩
  · rw [starveCycles_length]; omega
  · intro k
    obtain ⟨s', hs'⟩ := run_take (starveCycles n) k (starve_cycles n)
    have hng : Ev.grant 0 ∉ (starveCycles n).take k := fun h => starveCycles_no_grant n 0 (List.mem_of_mem_take h)
    obtain ⟨h1, h2⟩ := run_keeps_queued _ hw (by simp [starveState]) hs' hng
    exact ⟨s', hs', by rw [h1]; simp [starveState, Lock.want], h2⟩
  · intro evs' s' hr hng
    have := writer_granted_after_finitely_many_steps hw hr hng
    omega

/-! ## non-vacuity -/

/-- a fair run with three tasks: reader 1 holds (2 steps of work), reader 2 is queued in front of the writer 0,
task 3 asks after the writer: every hypothesis of `writer_granted_after_finitely_many_steps` and of
`fair_writer_bounded_overtaking` holds in `nvS`, readers 1 … are served, the LATE reader 3 cannot be granted
before the writer, and the bound (11) is attained up to the steps not taken -/
def nvS : State :=
  ⟨⟨[1], none, [(2, true), (0, true)]⟩,
   [⟨.waiting true 0, []⟩, ⟨.holding false 2, []⟩, ⟨.waiting true 1, []⟩, ⟨.idle, [(false, 5), (false, 7)]⟩]⟩

def nvEvs : List Ev := [.req 3, .work 1, .work 1, .rel 1, .grant 2, .work 2, .rel 2]

example : nvS.lock.want 0 ≠ none ∧ (run false nvS nvEvs).isSome = true ∧ Ev.grant 0 ∉ nvEvs ∧
    Ev.grant 2 ∈ nvEvs ∧ waitBound nvS 0 = 7 ∧ nvEvs.length = 7 := by decide

/-- the late reader (task 3, requested after the writer) is not grantable before the writer, at any point of
that run, and after it the writer's grant is enabled -/
example : (List.range 8).all (fun k => match run false nvS (nvEvs.take k) with
      | some s => (step false s (.grant 3)).isNone
      | none => false) = true ∧
    ((run false nvS nvEvs).bind (fun s => step false s (.grant 0))).isSome = true := by decide

/-- with the seeded change the same late reader JOINS reader 1's hold at once (no queueing) -/
example : ((run true nvS [.req 3]).map fun s => (s.lock.readers, s.lock.queue)) =
    some ([3, 1], [(2, true), (0, true)]) := by decide

end QbiceVerif.PhaseFair

namespace QbiceVerif.Phase

/-- `writer_bounded_overtaking` (full LTS) has an instance: the witness system of Props/C04 in its repaired order,
reader 0 holding, writer 1 queued, reader 2 asking afterwards is queued behind it and cannot be granted -/
example : ∃ s, run { wCfg with lockFirst := true } wInit [.rReq 0, .grant 0, .rAcq 0, .wStep 1 .req 0, .rReq 2] = some s ∧
    s.lock.want 1 ≠ none ∧ s.lock.queue = [(1, true), (2, false)] ∧
    step { wCfg with lockFirst := true } s (.grant 2) = none ∧
    PhaseFair.ahead s.lock.queue 1 = [] := by
  have h : (match run { wCfg with lockFirst := true } wInit [.rReq 0, .grant 0, .rAcq 0, .wStep 1 .req 0, .rReq 2] with
    | some s => decide (s.lock.want 1 ≠ none) && decide (s.lock.queue = [(1, true), (2, false)]) &&
        (step { wCfg with lockFirst := true } s (.grant 2)).isNone && decide (PhaseFair.ahead s.lock.queue 1 = [])
    | none => false) = true := by decide
  split at h
  · next s hs =>
    simp only [Bool.and_eq_true, decide_eq_true_eq, Option.isNone_iff_eq_none] at h
    exact ⟨s, hs, h.1.1.1, h.1.1.2, h.1.2, h.2⟩
  · simp at h

end QbiceVerif.Phase
