/-
C07 — state survives a clean restart and is reused, not recomputed.

Models: `Model/EnginePersist.lean` (the full sequential engine model with its publications: every
write batch of the code is a `publish` of the persistent image) and the core engine model
(`Model/EngineCore.lean`, the one C01's soundness theorem is about).
-/
import QbiceVerif.Lemmas.EnginePersist
import QbiceVerif.Lemmas.EnginePersistCore
import QbiceVerif.Lemmas.EngineCoreEx
import QbiceVerif.Lemmas.EnginePersistCoreFw

namespace Qbice.Persist
open Qbice.Engine

/-- "Whether what reaches the store is a faithful, self-consistent image of the in-memory graph":
    the store is the left fold of the logical write batches in creation order (C10
    `final_content`); whenever every change of the stored part has been published (`syncedB`, which
    the driver checks after every operation of every generated history) that fold is exactly the
    persistent part of the in-memory state. -/
theorem store_is_image (ps : PS) (h : syncedB ps = true) :
    storeFrom {} (batches {} ps.trace) = persistent ps.st := by
  rw [storeFrom_batches]
  simp only [syncedB, beq_iff_eq] at h
  rw [h]; rfl

/-- "a new engine is opened on the same store": what it loads is the old state without its volatile
    parts — `restart` — whatever the write-behind grouping was (the fold is over logical batches). -/
theorem reload_is_restart (ps : PS) (h : syncedB ps = true) :
    load ps.st.world (storeFrom {} (batches {} ps.trace)) =
      { restart ps.st with log := [], choicePoints := 0, tapePos := 0 } := by
  rw [store_is_image ps h, restart_is_reload]; rfl

/-- "with no input having to be set again": the reloaded state has the same timestamp, the same
    nodes (inputs included, with their values), the same backward and dirty edges. -/
theorem restart_keeps_inputs (s : St) :
    (restart s).epoch = s.epoch ∧ (restart s).nodes = s.nodes ∧ (restart s).back = s.back ∧
      (restart s).dirty = s.dirty ∧ (restart s).world = s.world := ⟨rfl, rfl, rfl, rfl, rfl⟩

/-- between operations (nothing in flight) the only engine state a restart loses is the per-epoch
    de-duplication set of the dirty worker (and the statistic) -/
theorem restart_loses_only_dirtied {s : St} (h : Quiescent s) :
    restart s = { s with dirtied := [], dirtiedEdges := 0 } := restart_quiescent h

/-- the engine model as the code was before the fixes of F1 / F14 in /repo (2abe9f6, b832249) -/
def beforeF1Fix : Toggles := { f1p := false, f1q := false, f1r := false, f14 := false }

/-- "restarts inserted at arbitrary positions": a restart in the middle of an epoch loses the
    per-epoch `dirtied_queries` set, which a firewall recompute of the same epoch reads.  Witness
    (finding F20, reproduced on the real engine before 2abe9f6: corpus/C07-F20-dirtied-after-F1.txt):
    in the model of the code BEFORE the F1 fix the third round returns the stale `Q = 10`
    (from-scratch: 20) with and without the restart — that was F1 — and afterwards the never-restarted
    engine keeps 10 in the next epoch while the reopened one (empty `dirtied` set, edge `(Q, x)`
    re-marked) answers 20: the restart was observable.  In the model of the code AS IT IS (`{}`: F1
    fixed) both runs return the from-scratch values and the restart changes nothing on this history:
    F20 was a consequence of F1 and went away with it. -/
theorem restart_mid_epoch_witness :
    runH beforeF1Fix witnessProgram (witnessBefore ++ witnessAfter) PS.init = some [[0], [10], [10], [20], [10]] ∧
    runH beforeF1Fix witnessProgram (witnessBefore ++ [.restart] ++ witnessAfter) PS.init = some [[0], [10], [10], [20], [20]] ∧
    runH {} witnessProgram (witnessBefore ++ witnessAfter) PS.init = some [[0], [10], [20], [20], [20]] ∧
    runH {} witnessProgram (witnessBefore ++ [.restart] ++ witnessAfter) PS.init = some [[0], [10], [20], [20], [20]] := by
  refine ⟨?_, ?_, ?_, ?_⟩ <;> decide +kernel

example : Quiescent ({} : St) ∧ syncedB PS.init = true := ⟨⟨rfl, rfl, rfl⟩, by decide⟩

end Qbice.Persist

namespace Qbice.Core

/-- "incremental behaviour continues across the restart exactly as if the process had never
    stopped" (core model): for every program, every state and every history with restarts inserted
    at arbitrary positions (any number of them, also doubled, also before the first operation), the
    outputs — values, `set_input` results AND the executor invocations of every operation — are those
    of the same history without the restarts. -/
theorem restart_transparent (p : Program) (h : List POp) (s : St) :
    outs (runP p h s) = outs (runOpsL p (POp.erase h) s) := runP_erase p h s

/-- "Results that were up to date at shutdown are served without running any executor": a node
    verified in the current epoch is answered by the reopened engine from the store, the state is
    untouched and the execution log stays empty. -/
theorem restart_no_exec (p : Program) {s : St} {k : Key} {n : Node}
    (hn : s.nodes k = some n) (hv : n.lastVerified = s.epoch) (fuel : Nat) :
    query p (fuel + 1) k (restart s) = .ok (n.value, restart s) ∧ (restart s).log = [] :=
  ⟨query_verified_no_exec p hn hv fuel, rfl⟩

/-- "every query returns the from-scratch value for the inputs that were committed": a history with
    restarts, run from the initial state, produces the outputs of the from-scratch reference
    (`OutOK` of C01) — with C01's `core_history_sound`. -/
theorem restart_sound {p : Program} (wf : WF p) {h : List POp} {o : List (OpOut × List Key)} {s' : St}
    (hr : runP p h {} = .ok (o, s')) : OutOK p (POp.erase h) (o.map (·.1)) Ref.init := by
  have e := restart_transparent p h {}
  rw [hr] at e
  simp only [outs] at e
  cases h2 : runOpsL p (POp.erase h) {} with
  | error err => rw [h2] at e; cases e
  | ok r =>
    obtain ⟨o2, s2⟩ := r
    rw [h2] at e
    simp only [Except.ok.injEq] at e
    subst e
    have h3 := runOpsL_fst p (POp.erase h) {}
    rw [h2] at h3
    -- C01's `core_history_sound` is `runOps_spec` on the initial state
    exact ((runOps_spec wf (POp.erase h) {} (Inv.init p)).ok h3.symm).1

/-- non-vacuity: the 4-key example program of C01 with a restart before the first session, one in
    the middle of an epoch (between two rounds) and two in a row before a session: same outputs,
    same executor invocations as without (`[2,3]`, then nothing, …). -/
example : (outs (runP exP [.restart, .op (.sess [.set 0 1, .set 1 5]), .op (.round [3, 2]), .restart,
      .op (.round [3]), .restart, .restart, .op (.sess [.set 0 0, .set 1 5]), .op (.round [3])] {})).toOption =
    some [(.sess [.fresh, .fresh], []), (.round [30, 15] [2, 3], [2, 3]), (.round [30] [], []),
      (.sess [.updated, .unchanged], []), (.round [0] [2, 3], [2, 3])] := by decide

/-- non-vacuity with an external key read in an unordered group (`exQ`): restarts around a world
    change and a `refresh`; the pinned external value survives the restart (it is a stored node),
    the refresh after the restart re-runs exactly the external executor. -/
example : (outs (runP exQ [.op (.sess [.world 1 7, .set 0 1]), .op (.round [3]), .restart,
      .op (.sess [.world 1 9]), .restart, .op (.round [3, 1]), .restart, .op (.sess [.refresh]), .restart,
      .op (.round [3])] {})).toOption =
    some [(.sess [.world, .fresh], []), (.round [16] [1, 2, 3], [1, 2, 3]), (.sess [.world], []),
      (.round [16, 7] [], []), (.sess [.refreshed], [1]), (.round [20] [2, 3], [2, 3])] := by decide

end Qbice.Core

namespace Qbice.CoreFw
open Qbice.Core (Op OpOut Ref)

/-- `restart_transparent` on the extended core model (all five query kinds: firewalls, projections
    with backward projection, externals, unordered groups — C01's widest model): for every program,
    state and history with restarts at arbitrary positions, the outputs — set_input results, values
    AND the executor invocations of every round — are those of the same history without the restarts.
    (In this model backward-edge sets have no walk order and there is no per-epoch `dirtied` set: what
    finding F13 / the order of a reloaded set changes in the code is outside it.) -/
theorem restart_transparent_fw (p : Program) (h : List POp) (s : St) :
    outs (runP p h s) = outs (runOps p (POp.erase h) s) := runP_erase p h s

/-- `restart_sound` on the extended core model, with C01's `core_history_sound_partial` (`Shape p`:
    no projection over a projection, or all projections static): a history with restarts run from the initial state
    produces the outputs of the from-scratch reference. -/
theorem restart_sound_fw_partial {p : Program} (wf : WF p) (sh : Shape p) {h : List POp}
    {o : List OpOut} {s' : St} (hr : runP p h {} = .ok (o, s')) :
    OutOK p (POp.erase h) o Ref.init := by
  have e := restart_transparent_fw p h {}
  rw [hr] at e
  simp only [outs] at e
  cases h2 : runOps p (POp.erase h) {} with
  | error err => rw [h2] at e; cases e
  | ok r =>
    obtain ⟨o2, s2⟩ := r
    rw [h2] at e
    simp only [Except.ok.injEq] at e
    subst e
    exact ((runOps_spec wf sh (POp.erase h) {} (Inv.init p)).ok h2).1

example (p : Program) : outs (runP p [.restart, .restart] {}) = .ok [] := rfl

end Qbice.CoreFw

