import QbiceVerif.Lemmas.PhaseSafety
import QbiceVerif.Lemmas.PhaseProgress
import QbiceVerif.Lemmas.PhaseExpr

/-!
# C04 — input sessions are atomic and readers see one input snapshot

Theorems over `QbiceVerif.Phase` (Model/PhaseLts.lean), for every state reachable from
`init e0 inp scripts` by *any* schedule of the model's events: any number of tasks (`scripts` is
universally quantified; each task runs any sequence of reader rounds `tracked(); query*; drop` and
sessions `input_session(); set_input*; commit | drop`), any initial epoch and inputs, any executors
(`Cfg.exec`, subject to `ExecLocal` where stated), fair or unfair phase lock (`Cfg.fair`).

`Cfg.lockFirst = true` is the order of `input_session()` in the code (exclusive phase lock first, then the
write batch, the timestamp bump and the staged timestamp write — /repo commit 7a67ce5, finding F5 fixed;
the harness probes the order on every run and validates the traces against this configuration);
`Cfg.lockFirst = false` is the order the code had before that commit.  `snapshot_consistent`, `snapshot_stable` and
`session_atomic` are proved for the repaired order and `snapshot_consistent_asis_refuted` shows that
the first failed for the earlier order (finding F5, kept as a regression witness); `phase_exclusive` and `phase_progress` hold for
both orders.
-/

namespace QbiceVerif.Phase

variable {c : Cfg} {e0 : Nat} {inp : Inputs} {scripts : List (List Op)} {s : State}

/-- "A tracked engine observes exactly the inputs committed before it was handed out … no query ever
sees … a new epoch with old inputs."

Repaired order.  In every reachable state, for every live tracked engine (task `t`, sampled epoch `e`,
keys `ks` still to query): its epoch is the current one; no session is open; the stored inputs are
exactly `snapshot s.base s.done e` — the initial inputs with the writes of the released sessions of
epoch `≤ e` applied, whole sessions, in order — and these are all released sessions; and any query it
performs next (`step … (.rQuery t k v) = some _`) returns `specValue`: the stored input for an input
key, the executor's from-scratch value over that snapshot for a derived key.

And for every stored node: its stamp `ver` is at most the current epoch, and its stored value and
recorded reads are those of its executor run on the inputs *of the epoch it is stamped with* — a node
is never stamped with epoch `e` against inputs of an older epoch. -/
theorem snapshot_consistent (hc : c.lockFirst = true) (hx : ExecLocal c.exec)
    (hr : Reachable c (init e0 inp scripts) s) :
    (∀ t e ks, (s.tasks t).pc = .rActive e ks →
        e = s.epoch ∧ s.sess.isNone = true ∧ s.inputs = snapshot s.base s.done e ∧
        (∀ σ, σ ∈ s.done → σ.1 ≤ e) ∧
        (∀ k v s', step c s (.rQuery t k v) = some s' →
          ∃ isIn ks', ks = (isIn, k) :: ks' ∧ v = specValue c s e isIn k)) ∧
    (∀ k n, s.nodes k = some n →
        n.ver ≤ s.epoch ∧ (n.val, n.reads) = c.exec k (snapshot s.base s.done n.ver)) :=
  snapshotConsistent_holds c e0 inp scripts s hc hx hr

/-- "… for its whole life".

Repaired order.  Across any step during which a tracked engine of epoch `e` stays alive, the released
sessions, the stored inputs and the epoch do not change: the snapshot of `snapshot_consistent` is the
same one from `tracked()` to drop. -/
theorem snapshot_stable (hc : c.lockFirst = true) (hr : Reachable c (init e0 inp scripts) s)
    {s' : State} {ev : Ev} (hs : step c s ev = some s')
    {t e ks ks'} (h1 : (s.tasks t).pc = .rActive e ks) (h2 : (s'.tasks t).pc = .rActive e ks') :
    s'.done = s.done ∧ s'.base = s.base ∧ s'.inputs = s.inputs ∧ s'.epoch = s.epoch :=
  snapshotStable_holds c e0 inp scripts s s' ev hc hr hs t e ks ks' h1 h2

/-- "an input session takes effect all at once: no query ever sees some of a session's writes without
the others … when sessions are opened, committed or simply dropped while other tasks are concurrently
creating tracked engines and querying".

Repaired order.  Whenever a task holds the shared phase lock past `read_owned()` (a tracked engine is
alive or being created), no session is open, nobody holds the exclusive lock, and the stored inputs
are the initial inputs with a whole number of sessions applied — every released session with all of
its writes, in release order; a committed and a dropped session are the same events from
`cPropagate` on, so both are covered. -/
theorem session_atomic (hc : c.lockFirst = true) (hr : Reachable c (init e0 inp scripts) s)
    {t : Tid} (ht : (∃ e ks, (s.tasks t).pc = .rActive e ks) ∨ (∃ ks, (s.tasks t).pc = .rLocked ks)) :
    s.sess.isNone = true ∧ s.lock.writer = none ∧
    s.inputs = s.done.foldl (fun i σ => applyWrites i σ.2) s.base :=
  sessionAtomic_holds c e0 inp scripts s hc hr t ht

/-- The phase lock is exclusive, for both orders of `input_session()`: an open session's owner holds
the exclusive lock, while the exclusive lock is held nobody holds the shared lock, and every live
tracked engine holds the shared lock. -/
theorem phase_exclusive (hr : Reachable c (init e0 inp scripts) s) :
    (∀ σ, s.sess = some σ → s.lock.writer = some σ.owner) ∧
    (s.lock.writer.isSome = true → s.lock.readers = []) ∧
    (∀ t, ((∃ e ks, (s.tasks t).pc = .rActive e ks) ∨ (∃ ks, (s.tasks t).pc = .rLocked ks)) →
        t ∈ s.lock.readers) :=
  phaseExclusive_holds c e0 inp scripts s hr

/-- "… and every such mix eventually makes progress."

Both orders, fair or unfair lock, any mix of rounds, committed and dropped sessions: the measure `mu`
strictly decreases with every step, so every run from the initial state has at most
`mu (init …)` events (every maximal run is finite); and a reachable state in which some task has not
returned or a session is still open has an enabled event (no deadlock).  Together: every maximal run
ends with all tasks returned and no session open.  (That an enabled event is eventually *taken* is
the scheduler's fairness — tokio's and the OS's — and outside the model.) -/
theorem phase_progress :
    (∀ {s' : State} {ev : Ev}, Reachable c (init e0 inp scripts) s → step c s ev = some s' →
        mu s' scripts.length < mu s scripts.length) ∧
    (Reachable c (init e0 inp scripts) s → ¬ s.final scripts.length → ∃ ev, enabled c s ev = true) ∧
    (∀ (evs : List Ev), run c (init e0 inp scripts) evs = some s →
        evs.length ≤ mu (init e0 inp scripts) scripts.length) := by
  obtain ⟨h1, h2, h3⟩ := phaseProgress_holds
  exact ⟨fun hr hs => h1 c e0 inp scripts s _ _ hr hs, fun hr hf => h2 c e0 inp scripts s hr hf,
    fun evs hrun => h3 c e0 inp scripts evs s hrun⟩

/-- Finding F5 (fixed in /repo by 7a67ce5): `snapshot_consistent` FAILS for the order the code had before
(bump before lock).

There are a configuration with `lockFirst = false` (FIFO lock, local executors), three tasks and a
reachable state in which the session of epoch 2 (`set 0 := 7`) has been committed and released and
`commit()` has returned, task 1 holds a *fresh* tracked engine of epoch 2, and its query of key 1 is
enabled with the value `105` only — the value over the inputs of epoch 1 — whereas the inputs of epoch
2 give `107`; and the node of key 1 is stamped with epoch 2 while holding the value of epoch 1's
inputs ("new epoch, old inputs").  The schedule (`wSched`) is checked by kernel evaluation; the same
schedule was forced on the unrepaired code by `corpus/C04-F5-window.txt`; on the repaired code the same
gates run on every check and the reader is simply kept out (the case must come out clean). -/
theorem snapshot_consistent_asis_refuted :
    ∃ (c : Cfg) (s : State) (v : Val) (s' : State),
      c.lockFirst = false ∧ c.fair = true ∧ ExecLocal c.exec ∧
      Reachable c (init 1 (fun _ => 5)
        [[.round [(false, 1)]], [.session [(0, 7)] .commit, .round [(false, 1)]], [.round [(false, 1)]]]) s ∧
      (s.tasks 1).pc = .rActive 2 [(false, 1)] ∧ s.sess.isNone = true ∧ s.done = [(2, [(0, 7)])] ∧
      step c s (.rQuery 1 1 v) = some s' ∧ v ≠ specValue c s 2 false 1 ∧
      v = (c.exec 1 (snapshot s.base s.done 1)).1 ∧
      (∃ n, s.nodes 1 = some n ∧ n.ver = 2 ∧ (n.val, n.reads) ≠ c.exec 1 (snapshot s.base s.done n.ver)) := by
  have hw := witnessFacts_true
  unfold witnessFacts at hw
  cases hrun : run wCfg wInit wSched with
  | none => simp [hrun] at hw
  | some s =>
    simp only [hrun, Bool.and_eq_true, beq_iff_eq, Bool.not_eq_true'] at hw
    obtain ⟨⟨⟨⟨⟨⟨⟨⟨hpc, hsess⟩, hdone⟩, _hep⟩, hq⟩, _hq2⟩, h107⟩, h105⟩, hnode⟩ := hw
    cases hstep : step wCfg s (.rQuery 1 1 105) with
    | none => simp [hstep] at hq
    | some s' =>
      have hpc' : (s.tasks 1).pc = .rActive 2 [(false, 1)] := by
        revert hpc
        cases h : (s.tasks 1).pc with
        | rActive e ks =>
          intro hm
          split at hm <;> simp_all
        | _ => intro hm; simp at hm
      refine ⟨wCfg, s, 105, s', rfl, rfl, progExec_local wProg, reachable_of_run hrun, hpc', hsess,
        hdone, hstep, ?_, ?_, ?_⟩
      · simp only [specValue, Bool.false_eq_true, if_false]
        rw [h107]; decide
      · rw [h105]
      · cases hn : s.nodes 1 with
        | none => simp [hn] at hnode
        | some n =>
          simp only [hn, Bool.and_eq_true, beq_iff_eq] at hnode
          refine ⟨n, rfl, hnode.1, ?_⟩
          intro heq
          have : n.val = (wCfg.exec 1 (snapshot s.base s.done n.ver)).1 := by rw [← heq]
          rw [hnode.1, h107, hnode.2] at this
          exact absurd this (by decide)

/-- the witness is about a window that the repaired order closes: the very same schedule is not a
schedule of the model with `lockFirst = true` -/
theorem witness_schedule_impossible_when_repaired :
    (run { wCfg with lockFirst := true } wInit wSched).isNone = true := witness_not_repaired

/-- the executors run by the correspondence harness meet the locality hypothesis of `snapshot_consistent` -/
theorem harness_executors_local (prog : Key → Option Expr) : ExecLocal (progExec prog) :=
  progExec_local prog

/-! ## non-vacuity -/

/-- the hypotheses of `snapshot_consistent` are satisfiable with a live tracked engine that has
something to query after a session was committed: the repaired-order run below reaches such a state -/
example : ∃ s, Reachable { wCfg with lockFirst := true } wInit s ∧
    (∃ e ks, (s.tasks 1).pc = .rActive e ((false, 1) :: ks)) ∧ s.done ≠ [] := by
  have h : (match run { wCfg with lockFirst := true } wInit
      [.rReq 0, .grant 0, .rAcq 0, .rSample 0 1, .rQuery 0 1 105, .rRel 0,
       .wStep 1 .req 0, .grant 1, .wStep 1 .acq 0, .wStep 1 .batch 0, .wStep 1 .bump 2, .wStep 1 .stage 2,
       .wSet 1 0 7, .wCommit 1, .cPropagate 1, .cSubmit 1, .cRel 1, .wDone 1,
       .rReq 1, .grant 1, .rAcq 1, .rSample 1 2] with
    | some s => (match (s.tasks 1).pc with | .rActive _ ((false, 1) :: _) => true | _ => false) &&
        !s.done.isEmpty && (step { wCfg with lockFirst := true } s (.rQuery 1 1 107)).isSome
    | none => false) = true := by decide
  split at h
  · next s hrun =>
    refine ⟨s, reachable_of_run hrun, ?_, ?_⟩
    · simp only [Bool.and_eq_true] at h
      obtain ⟨⟨h1, _⟩, _⟩ := h
      split at h1
      · next e ks hpc => exact ⟨e, ks, hpc⟩
      · simp at h1
    · simp only [Bool.and_eq_true, Bool.not_eq_true', List.isEmpty_eq_false_iff] at h
      exact h.1.2
  · simp at h

/-- `phase_progress` is not vacuous: the initial state of the witness is not final and has an enabled event -/
example : ¬ wInit.final 3 ∧ enabled wCfg wInit (.rReq 0) = true := by
  refine ⟨?_, by decide⟩
  intro h
  have := h.1 0 (by omega)
  revert this
  decide

end QbiceVerif.Phase
