import QbiceVerif.Lemmas.CancelAll
import QbiceVerif.Lemmas.CancelBatchStep
import QbiceVerif.Lemmas.CancelPhaseStep
import QbiceVerif.Lemmas.CancelPanic
import QbiceVerif.Lemmas.CancelProgress
import QbiceVerif.Lemmas.CancelSim

/-!
# C05 — cancellation or an executor panic never corrupts the engine

Theorems over `Model/CancelLts.lean` (all interleavings, any number of tasks, keys, frames; no bound).
`Reachable cfg s` = `s` is reached from `init cfg` by enabled events, among them `cancel t` (the future of
task `t` is dropped at its current await point) and `panic t` (its executor panics).

* `cancel_restores`        — repaired configuration: once no task is left, the quiescent invariant `Q` holds.
* `cancel_restores_asis_partial` — every configuration (also the code BEFORE the fixes d8958c0 / f2b6893, `Cfg.asIs`, historical): `Q` without its batch clause.
* `f11_asis_aborts`, `f40_asis_session_overlaps_publication` — the code BEFORE those fixes (historical configuration `Cfg.asIs`) violates the batch clause / the
  phase discipline (findings F11, F40); `f12_original_aborts` — so did the original `input_session()` (F12,
  repaired in /repo by 7a67ce5).
* `entry_has_live_owner`, `half_published_has_live_publisher`, `session_excludes_queries` — the same facts as
  invariants of *every* reachable state, not only the quiescent ones.
* `panic_reaches_caller`   — after an executor panic the task ends `panicked` (or `cancelled` if the caller
  drops it meanwhile), never `returned`; its resources are covered by `cancel_restores`.
* `no_stall_partial`       — no waiter is stranded by a cancellation or a panic.
* `no_stall`               — the full clause under the static-rank assumption: deadlock-freedom, an explicit variant that
  decreases on every completing event, every maximal completing run ends quiescent (Lemmas/CancelProgress.lean).
* `cancel_then_sound`      — a run with any cancellations / panics that ends quiescent has the publication log, the
  store and the tables of a run without faults that consists of complete sequential requests (Lemmas/CancelSim.lean).
-/

namespace QbiceVerif.CancelLts

/-- no task — and no detached continuation — is left -/
def Quiescent (s : State) : Prop := ∀ t, s.tasks t = none

/-- "no computing / backward-projection entry without a live owner … never a half-published node" at quiescence -/
structure QCore (s : State) : Prop where
  noComputing : ∀ k, s.comp k = none
  noBackwardProjection : ∀ k, s.bpl k = none
  noHalfPublished : ∀ k, s.partialW k = 0
  phaseLockFree : s.readers = [] ∧ s.writer = none

/-- the quiescent invariant `Q` of DESIGN §5.5 -/
structure Q (s : State) : Prop extends QCore s where
  everyBatchSubmitted : ∀ b, b < s.nextBid → s.bst b = .submitted
  noBatchDropped : s.aborted = false

theorem reachable_batch {cfg : Cfg} (h11 : cfg.f11 = true) (h12 : cfg.f12 = true) {s : State} (hr : Reachable cfg s) :
    InvBatch s := by
  induction hr with
  | init => exact invBatch_init cfg
  | step e hr hs ih =>
    have hc := reachable_cfg hr
    exact step_batch e (reachable_core hr) ih (by rw [hc]; exact h11) (by rw [hc]; exact h12) hs

theorem reachable_phase {cfg : Cfg} {s : State} (hr : Reachable cfg s) : InvPhase s := by
  induction hr with
  | init => exact invPhase_init cfg
  | step e hr hs ih => exact step_phase e (reachable_core hr) ih hs

theorem qcore_of_inv {s : State} (hc : InvCore s) (hp : InvPhase s) (hq : Quiescent s) : QCore s := by
  refine ⟨?_, ?_, ?_, ?_, ?_⟩
  · intro k
    cases h : s.comp k with
    | none => rfl
    | some e =>
      obtain ⟨T, hT, _⟩ := hc.compOwner k e.owner (by simp [owner, h])
      rw [hq] at hT; cases hT
  · intro k
    cases h : s.bpl k with
    | none => rfl
    | some o =>
      obtain ⟨T, hT, _⟩ := hc.bpOwner k o h
      rw [hq] at hT; cases hT
  · intro k
    by_cases h : s.partialW k = 0
    · exact h
    · obtain ⟨t, T, _, _, hT, _⟩ := hc.partialOwner k h
      rw [hq] at hT; cases hT
  · cases h : s.readers with
    | nil => rfl
    | cons r rs =>
      obtain ⟨T, hT, _⟩ := hp.inRd r (by rw [h]; exact List.mem_cons_self)
      rw [hq] at hT; cases hT
  · cases h : s.writer with
    | none => rfl
    | some w =>
      obtain ⟨T, hT, _⟩ := hp.writerLive w h
      rw [hq] at hT; cases hT

/-- **cancel_restores** ("after any cancel or panic, once the detached continuations have run, the shared state
    satisfies the quiescent invariant Q: no computing / backward-projection entry without a live owner, …
    every created batch is submitted …, never a half-published node").  Holds for every configuration in which
    F11 and F12 are repaired, in particular for `Cfg.fixed`; every event sequence, any number of cancels and
    panics at any await point. -/
theorem cancel_restores_of_repairs {cfg : Cfg} (h11 : cfg.f11 = true) (h12 : cfg.f12 = true) {s : State}
    (hr : Reachable cfg s) (hq : Quiescent s) : Q s := by
  have hb := reachable_batch h11 h12 hr
  refine { toQCore := qcore_of_inv (reachable_core hr) (reachable_phase hr) hq, everyBatchSubmitted := ?_, noBatchDropped := hb.notAborted }
  intro b hlt
  cases h : s.bst b with
  | submitted => rfl
  | fresh => exact absurd h (hb.usedBelow b hlt)
  | dropped => exact absurd h (hb.neverDropped b)
  | active =>
    obtain ⟨t, T, hT, _⟩ := hb.activeHeld b h
    rw [hq] at hT; cases hT

theorem cancel_restores {s : State} (hr : Reachable Cfg.fixed s) (hq : Quiescent s) : Q s :=
  cancel_restores_of_repairs rfl rfl hr hq

/-- the part of `cancel_restores` that holds for every configuration, including the historical `Cfg.asIs` (the code before d8958c0 / f2b6893; the code NOW is `Cfg.fixed`): the lock tables, the
    node store and the phase lock are restored; the batch clause is what F11 / F12 break. -/
theorem cancel_restores_asis_partial {cfg : Cfg} {s : State} (hr : Reachable cfg s) (hq : Quiescent s) : QCore s :=
  qcore_of_inv (reachable_core hr) (reachable_phase hr) hq

/-- "no computing … entry without a live owner" in *every* reachable state: an occupied entry is owned by a
    live task that holds its `ComputingLockGuard` (so its `Drop` will remove it and notify) -/
theorem entry_has_live_owner {cfg : Cfg} {s : State} (hr : Reachable cfg s) {k : Key} {e : Entry} (h : s.comp k = some e) :
    ∃ T, s.tasks e.owner = some T ∧ ∃ f ∈ T.frames, f.lock = true ∧ f.key = k := by
  obtain ⟨T, hT, hk⟩ := (reachable_core hr).compOwner k e.owner (by simp [owner, h])
  exact ⟨T, hT, mem_lockKeys.mp hk⟩

theorem bp_entry_has_live_owner {cfg : Cfg} {s : State} (hr : Reachable cfg s) {k : Key} {o : Tid} (h : s.bpl k = some o) :
    ∃ T, s.tasks o = some T ∧ ∃ f ∈ T.frames, f.bp = true ∧ f.key = k := by
  obtain ⟨T, hT, hk⟩ := (reachable_core hr).bpOwner k o h
  exact ⟨T, hT, mem_bpKeys.mp hk⟩

/-- "never a half-published node": a node some of whose writes happened while its publication is not complete
    has a live publisher *inside its guarded block* — whatever was cancelled, the publication will be completed -/
theorem half_published_has_live_publisher {cfg : Cfg} {s : State} (hr : Reachable cfg s) {k : Key} (h : s.partialW k ≠ 0) :
    ∃ t T top rest, s.tasks t = some T ∧ T.frames = top :: rest ∧ top.key = k ∧ T.pc = .g1 :=
  (reachable_core hr).partialOwner k h

/-- a detached continuation is always inside a guarded block (or is the commit spawned by `InputSession::drop`)
    and owns nothing but the innermost frame -/
theorem detached_is_guarded {cfg : Cfg} {s : State} (hr : Reachable cfg s) {t : Tid} {T : Task} (hT : s.tasks t = some T)
    (hd : T.detached = true) : T.pc.detachable = true ∧ T.frames.length ≤ 1 :=
  ⟨(reachable_core hr).detachedPc t T hT hd, (reachable_core hr).detachedOne t T hT hd⟩

/-- with F40 repaired: while a session holds the exclusive phase lock no query task is alive — in particular no
    detached continuation is still publishing -/
theorem session_excludes_queries {cfg : Cfg} (h20 : cfg.f40 = true) {s : State} (hr : Reachable cfg s) {w : Tid}
    (hw : s.writer = some w) {t : Tid} {T : Task} (hT : s.tasks t = some T) : T.pc.isSession = true := by
  have hp := reachable_phase hr
  cases hs : T.pc.isSession with
  | true => rfl
  | false =>
    have hrd := hp.queryRd (by rw [reachable_cfg hr]; exact h20) t T hT hs
    have := hp.rdIn t T hT hrd
    rw [hp.writerExcl w hw] at this; cases this

/-! ### HISTORICAL (the code before the fixes; the code now is `Cfg.fixed`): the three witnesses (each trace is enabled step by step in the `Cfg.asIs` configuration) -/

/-- F11: a query is dropped while `done_backward_projection` awaits `upgrade_to_exclusive()` -/
def f11Trace : List Ev := [.spawn 0 1 false none, .bpLock 0, .bpUp 0, .cancel 0]
/-- F12 (original order, before 7a67ce5): `input_session()` is dropped while it waits for the phase lock -/
def f12Trace : List Ev := [.sStart 0, .sBump 0, .cancel 0]
/-- F40: a query is dropped inside its guarded publication block; a session starts before the continuation ran -/
def f40Trace : List Ev := [.spawn 0 1 false none, .lock 0, .gEnter 0, .cancel 0, .sStart 1, .sAcquire 1, .sBump 1]

/-- F11 (as is): an active batch is dropped — `Q.noBatchDropped` fails although no task is left -/
theorem f11_asis_aborts :
    ∃ s, run (init Cfg.asIs) f11Trace = some s ∧ s.aborted = true ∧ s.bst 0 = .dropped ∧ s.tasks 0 = none := by
  refine ⟨(run (init Cfg.asIs) f11Trace).get (by decide), by simp, ?_, ?_, ?_⟩ <;> decide

/-- F12 (the original order; repaired in /repo by 7a67ce5): the session's batch is dropped and the epoch stays bumped -/
theorem f12_original_aborts :
    ∃ s, run (init Cfg.original) f12Trace = some s ∧ s.aborted = true ∧ s.epoch = 1 ∧ s.tasks 0 = none := by
  refine ⟨(run (init Cfg.original) f12Trace).get (by decide), by simp, ?_, ?_, ?_⟩ <;> decide

/-- … and with the lock taken first the same drop (while waiting for the lock) is harmless, in the code as it is now -/
example : (run (init Cfg.asIs) f12Trace).isNone = true := by decide
example : (run (init Cfg.asIs) [.sStart 0, .cancel 0]).map (fun s => (s.aborted, s.epoch, s.nextBid)) = some (false, 0, 0) := by decide

/-- F40 (as is): a session holds the exclusive phase lock while a detached continuation is still inside its
    publication block — `session_excludes_queries` fails -/
theorem f40_asis_session_overlaps_publication :
    ∃ s, run (init Cfg.asIs) f40Trace = some s ∧ s.writer = some 1 ∧
      (s.tasks 0).map (fun T => (T.pc, T.detached, T.rd)) = some (Pc.g0, true, false) ∧ s.epoch = 1 := by
  refine ⟨(run (init Cfg.asIs) f40Trace).get (by decide), by simp, ?_, ?_, ?_⟩ <;> decide

/-- the same schedules in the repaired configuration: F11's trace is harmless … -/
example : (run (init Cfg.fixed) f11Trace).map (fun s => (s.aborted, s.nextBid)) = some (false, 0) := by decide
/-- … F12's is not a trace any more (no batch before the lock); with the repaired order the cancel is harmless … -/
example : (run (init Cfg.fixed) f12Trace).isNone = true := by decide
example : (run (init Cfg.fixed) [.sStart 0, .cancel 0]).map (fun s => (s.aborted, s.epoch, s.nextBid)) = some (false, 0, 0) := by decide
/-- … and the session of F40's trace cannot take the lock until the continuation has finished -/
example : (run (init Cfg.fixed) [.spawn 0 1 false none, .lock 0, .gEnter 0, .cancel 0, .sStart 1, .sAcquire 1]).isNone = true := by decide
def f40FixedTrace : List Ev :=
  [.spawn 0 1 false none, .lock 0, .gEnter 0, .cancel 0, .batchNew 0, .write 0, .submit 0, .finish 0,
   .sStart 1, .sAcquire 1, .sBump 1, .sCommit 1, .sFinish 1]
example : (run (init Cfg.fixed) f40FixedTrace).map (fun s => (s.aborted, s.nextBid, s.bst 0, s.bst 1)) = some (false, 2, .submitted, .submitted) := by decide
example : (run (init Cfg.fixed) f40FixedTrace).map (fun s => (s.writer, s.readers)) = some (none, []) := by decide

/-! ### non-vacuity of `cancel_restores`: quiescent states reached through cancellations and a panic -/

/-- nested query 3 → 1, dropped while 1 is inside its guarded block: the continuation publishes 1, entry 3 is
    removed by the drop glue, the registration of 1 at 3 is undone -/
def nestedCut : List Ev :=
  [.spawn 0 3 false none, .lock 0, .call 0 1, .lock 0, .gEnter 0, .batchNew 0, .write 0, .cancel 0, .write 0, .submit 0, .finish 0]

example : (run (init Cfg.fixed) nestedCut).map (fun s => ((s.tasks 0).isNone, (s.comp 1).isNone, (s.comp 3).isNone, s.outcome 0))
    = some (true, true, true, some .cancelled) := by decide
example : (run (init Cfg.fixed) nestedCut).map (fun s => (s.partialW 1, s.version 1, s.bst 0)) = some (0, 1, .submitted) := by decide

example : ∃ s, Reachable Cfg.fixed s ∧ Quiescent s ∧ s.version 1 = 1 := by
  obtain ⟨s, hs⟩ : ∃ s, run (init Cfg.fixed) nestedCut = some s := by
    cases h : run (init Cfg.fixed) nestedCut with
    | none => exact absurd h (by decide)
    | some s => exact ⟨s, rfl⟩
  have h1 : (run (init Cfg.fixed) nestedCut).map (fun s => ((s.tasks 0).isNone, s.version 1)) = some (true, 1) := by decide
  rw [hs] at h1
  simp only [Option.map_some, Option.some.injEq, Prod.mk.injEq] at h1
  refine ⟨s, reachable_of_run Reachable.init hs, ?_, h1.2⟩
  intro t
  by_cases h0 : t = 0
  · subst h0; exact Option.isNone_iff_eq_none.mp h1.1
  · rw [run_other (t := t) (by intro e he; simp [nestedCut] at he; rcases he with rfl | rfl | rfl | rfl | rfl | rfl | rfl | rfl | rfl | rfl | rfl <;> exact fun x => h0 x.symm) hs]
    rfl

/-! ### panic -/

/-- **panic_reaches_caller**: once an executor has panicked (`panic t`), whatever happens next — also a
    cancellation of other tasks, other panics, sessions — task `t` either is still unwinding (`caught`), or has
    ended with the outcome `panicked`, or was dropped by its own caller (`cancelled`).  It never returns a value. -/
theorem panic_reaches_caller {s s1 s' : State} {t : Tid} {es : List Ev}
    (hp : step s (.panic t) = some s1) (hnd : ∀ T, s.tasks t = some T → T.detached = false) (ho : s.outcome t = none)
    (hrun : run s1 es = some s') :
    Unwinding s' t ∧ s'.outcome t ≠ some .returned := by
  obtain ⟨T, hT, _, hT1, ho1⟩ := panic_to_caught hp
  have hu : Unwinding s1 t := Or.inl ⟨_, hT1, rfl, hnd T hT, by rw [ho1]; exact ho⟩
  have hu' := unwinding_run hu hrun
  refine ⟨hu', ?_⟩
  rcases hu' with ⟨_, _, _, _, h0⟩ | ⟨_, h0 | h0⟩ <;> rw [h0] <;> simp

/-- … and if the caller does not drop the future itself, the only way it ends is with the panic -/
theorem panic_reaches_caller_unless_dropped {s s1 s' : State} {t : Tid} {es : List Ev}
    (hp : step s (.panic t) = some s1) (hnd : ∀ T, s.tasks t = some T → T.detached = false) (ho : s.outcome t = none)
    (hnc : Ev.cancel t ∉ es) (hrun : run s1 es = some s') (hend : s'.tasks t = none) :
    s'.outcome t = some .panicked := by
  obtain ⟨T, hT, _, hT1, ho1⟩ := panic_to_caught hp
  have hu : UnwindingNC s1 t := Or.inl ⟨_, hT1, rfl, hnd T hT, by rw [ho1]; exact ho⟩
  rcases unwindingNC_run hu hnc hrun with ⟨T', hT', _⟩ | ⟨_, h0⟩
  · rw [hend] at hT'; cases hT'
  · exact h0

/-- the unwinding can always go on: `resume` is enabled for a task in `caught` -/
theorem caught_can_resume {cfg : Cfg} {s : State} (hr : Reachable cfg s) {t : Tid} {T : Task} (hT : s.tasks t = some T)
    (hpc : T.pc = .caught) : (step s (.resume t)).isSome = true := by
  have hsh := (reachable_core hr).shape t T hT
  cases hF : T.frames with
  | nil => have := hsh.mpr hF; simp [hpc, Pc.isSession] at this
  | cons top rest => cases rest <;> simp [step, hT, hF, hpc]

example : (run (init Cfg.fixed) [.spawn 0 3 false none, .lock 0, .call 0 1, .lock 0, .panic 0, .resume 0, .resume 0]).map
    (fun s => ((s.tasks 0).isNone, s.outcome 0, (s.comp 1).isNone, (s.comp 3).isNone)) = some (true, some .panicked, true, true) := by decide

/-! ### no stall -/

/-- **no_stall_partial** (a): a task that waits for a computing entry is never stranded: either the entry is
    gone — then `wake` is enabled — or it has a live owner that holds it (whose completion, cancellation or
    panic removes it: `finish`, `cancel`, `resume` all release the guard) -/
theorem waiter_has_live_owner {cfg : Cfg} {s : State} (hr : Reachable cfg s) {t : Tid} {T : Task} {top : Frame} {rest : List Frame}
    (hT : s.tasks t = some T) (hF : T.frames = top :: rest) (hpc : T.pc = .waitC) :
    (step s (.wake t)).isSome = true ∨
    ∃ e T', s.comp top.key = some e ∧ s.tasks e.owner = some T' ∧ ∃ f ∈ T'.frames, f.lock = true ∧ f.key = top.key := by
  cases h : s.comp top.key with
  | none => left; simp [step, hT, hF, hpc, h]
  | some e => right; obtain ⟨T', a, b⟩ := entry_has_live_owner hr h; exact ⟨e, T', rfl, a, b⟩

theorem bp_waiter_has_live_owner {cfg : Cfg} {s : State} (hr : Reachable cfg s) {t : Tid} {T : Task} {top : Frame} {rest : List Frame}
    (hT : s.tasks t = some T) (hF : T.frames = top :: rest) (hpc : T.pc = .waitB) :
    (step s (.wake t)).isSome = true ∨
    ∃ o T', s.bpl top.key = some o ∧ s.tasks o = some T' ∧ ∃ f ∈ T'.frames, f.bp = true ∧ f.key = top.key := by
  cases h : s.bpl top.key with
  | none => left; simp [step, hT, hF, hpc, h]
  | some o => right; obtain ⟨T', a, b⟩ := bp_entry_has_live_owner hr h; exact ⟨o, T', rfl, a, b⟩

/-- **no_stall_partial** (b): a live query task that holds a lock guard and is not waiting always has an
    enabled step of its own -/
theorem running_task_can_step {cfg : Cfg} {s : State} (hr : Reachable cfg s) {t : Tid} {T : Task} (hT : s.tasks t = some T)
    (hpc : T.pc = .locked ∨ T.pc = .caught ∨ T.pc = .g1 ∨ T.pc = .g2 ∨ T.pc = .bpUp) :
    ∃ e, taskOf e = t ∧ e ≠ .cancel t ∧ (step s e).isSome = true := by
  have hsh := (reachable_core hr).shape t T hT
  have hne : ∃ top rest, T.frames = top :: rest := by
    cases hF : T.frames with
    | nil => have := hsh.mpr hF; rcases hpc with h | h | h | h | h <;> simp [h, Pc.isSession] at this
    | cons top rest => exact ⟨top, rest, rfl⟩
  obtain ⟨top, rest, hF⟩ := hne
  rcases hpc with h | h | h | h | h
  · exact ⟨.gEnter t, rfl, by simp, by simp [step, hT, h]⟩
  · exact ⟨.resume t, rfl, by simp, caught_can_resume hr hT h⟩
  · exact ⟨.write t, rfl, by simp, by simp [step, hT, hF, h]⟩
  · exact ⟨.finish t, rfl, by simp, by cases hd : T.detached <;> simp [step, hT, hF, h, hd]⟩
  · exact ⟨.gEnter t, rfl, by simp, by simp [step, hT, h]⟩

/-- **no_stall_partial**: what is proved of "no deadlock after a cancellation" — in every reachable state of every
    configuration (a) a task waiting for a computing entry can be woken or the entry has a live owner holding its
    guard, (b) the same for a backward-projection entry, (c) every task that holds a guard and is not waiting has an
    enabled step.  (The global statement is `C05_full_statement`.) -/
theorem no_stall_partial {cfg : Cfg} {s : State} (hr : Reachable cfg s) {t : Tid} {T : Task} {top : Frame} {rest : List Frame}
    (hT : s.tasks t = some T) (hF : T.frames = top :: rest) :
    (T.pc = .waitC → (step s (.wake t)).isSome = true ∨
      ∃ e T', s.comp top.key = some e ∧ s.tasks e.owner = some T' ∧ ∃ f ∈ T'.frames, f.lock = true ∧ f.key = top.key) ∧
    (T.pc = .waitB → (step s (.wake t)).isSome = true ∨
      ∃ o T', s.bpl top.key = some o ∧ s.tasks o = some T' ∧ ∃ f ∈ T'.frames, f.bp = true ∧ f.key = top.key) ∧
    (T.pc = .locked ∨ T.pc = .caught ∨ T.pc = .g1 ∨ T.pc = .g2 ∨ T.pc = .bpUp →
      ∃ e, taskOf e = t ∧ e ≠ .cancel t ∧ (step s e).isSome = true) :=
  ⟨waiter_has_live_owner hr hT hF, bp_waiter_has_live_owner hr hT hF, running_task_can_step hr hT⟩

/-! ### the wake-up is part of the drop glue

The model has no separate notification: `wake` is enabled exactly when the entry the task is parked on is gone.
The two theorems below make the cancellation / unwinding path explicit: removing the entry *is* waking its
waiters.  In the code this is `ComputingLockGuard::drop` = `done()` = remove the entry **and**
`notify_waiters()`; a `Drop` that only removes the entry contradicts them (the harness parks other callers on
the entries of the task that is cut, `cancel.rs` fault mode `waiters`, and the driver requires the code's
`cl.woken` for every waiter the model wakes). -/

theorem owner_none_iff (c : Key → Option Entry) (k : Key) : owner c k = none ↔ c k = none := by
  simp [owner]

/-- **cancel_wakes_waiters**: the future of task `t` is dropped outside a guarded block while another task `w`
    (never cancelled itself) is parked on a computing entry that `t` owns: in the state right after the drop glue
    `w` can be woken (the entry is gone, `w` is still there). -/
theorem cancel_wakes_waiters {cfg : Cfg} {s s' : State} (hr : Reachable cfg s) {t w : Tid} {T W : Task}
    {top : Frame} {rest : List Frame} {e : Entry}
    (hT : s.tasks t = some T) (hses : T.pc.isSession = false) (hg : T.pc.guarded = false)
    (hc : step s (.cancel t) = some s')
    (hwt : w ≠ t) (hW : s.tasks w = some W) (hF : W.frames = top :: rest) (hpc : W.pc = .waitC)
    (he : s.comp top.key = some e) (ho : e.owner = t) :
    (step s' (.wake w)).isSome = true := by
  obtain ⟨T', hT', f, hf, hfl, hfk⟩ := entry_has_live_owner hr he
  rw [ho, hT] at hT'
  cases hT'
  have hmem : top.key ∈ lockKeys T.frames := mem_lockKeys.mpr ⟨f, hf, hfl, hfk⟩
  simp only [step, hT] at hc
  split at hc
  · cases hc
    cases hfr : T.frames with
    | nil => rw [hfr] at hf; cases hf
    | cons f0 fs =>
      have hcomp : (dropFrames (f0 :: fs) (dropBatch s T.batch).comp (dropBatch s T.batch).bpl).1 top.key = none := by
        rw [← owner_none_iff, owner_dropFrames, ← hfr, if_pos hmem]
      have htw : (cancelTask s t T).tasks w = some W := by
        simp only [cancelTask, hses, hfr, hg]
        cases hb : T.batch <;> simp [endTask, dropBatch, upd, hwt, hW]
      have hcw : (cancelTask s t T).comp top.key = none := by
        simp only [cancelTask, hses, hfr, hg]
        simpa [endTask] using hcomp
      simp [step, htw, hF, hpc, hcw]
  · cases hc

/-- the same for a panic: when the unwinding of task `t` passes the frame that owns the entry (`resume` drops the
    innermost frame's `ComputingLockGuard`), a task parked on that entry can be woken -/
theorem unwind_wakes_waiters {s s' : State} {t w : Tid} {T W : Task} {f : Frame} {fs : List Frame}
    {top : Frame} {rest : List Frame}
    (hT : s.tasks t = some T) (hfr : T.frames = f :: fs) (hl : f.lock = true)
    (hc : step s (.resume t) = some s')
    (hwt : w ≠ t) (hW : s.tasks w = some W) (hF : W.frames = top :: rest) (hpc : W.pc = .waitC)
    (hk : f.key = top.key) :
    (step s' (.wake w)).isSome = true := by
  simp only [step, hT, hfr] at hc
  split at hc
  · have hcomp : (dropFrame f s.comp s.bpl).1 top.key = none := by
      rw [← owner_none_iff, owner_dropFrame, if_pos ⟨hl, hk.symm⟩]
    cases fs with
    | nil =>
      simp only at hc
      cases hc
      have htw : upd s.tasks t none w = some W := by simp [upd, hwt, hW]
      simp [step, endTask, htw, hF, hpc, hcomp]
    | cons g gs =>
      simp only at hc
      cases hc
      simp [step, upd, hwt, hW, hF, hpc, hcomp]
  · cases hc

example : (run (init Cfg.fixed) [.spawn 0 3 false none, .lock 0, .spawn 1 3 false none, .waitC 1, .cancel 0, .wake 1, .lock 1]).map
    (fun s => ((s.tasks 0).isNone, (s.comp 3).map (·.owner))) = some (true, some 1) := by decide

/-! ### cancel_then_sound: what follows a fault is what follows a fault-free history

`erase_faults` (Lemmas/CancelSim.lean) is a forward simulation: the faulty run is followed event by event; only `submit`
(the write phase of a guarded block completed), `sBump` and `sWrite` change the store (`step_store`; `cancel`, `panic`,
`resume` never do), and each of them is answered on the fault-free side by one complete request (a single-frame query
that publishes the same node; a session).  The phase lock (`submit_no_open`, needs repair `f40`) makes the session events
contiguous, so the fault-free side never needs two requests at once.  Together with `cancel_restores` (`Q`: empty
tables, nothing half-published, every batch submitted) the faulty run and the fault-free run end in states that agree
on everything the model has beyond task ids and batch ids.  So whatever holds after every fault-free history of
complete requests — C01's `core_history_sound` is such a statement — holds after the faulty one for the same
publication log.  Not covered (the model has no values and no dependency relation): that the log, read as a C01
history, asks for every node after its callees — in the faulty run a frame's guarded block runs only after the frames
above it were popped, but the model does not record which keys a frame read. -/

theorem cancel_then_sound {es : List Ev} {s : State} (hrun : run (init Cfg.fixed) es = some s) (hq : Quiescent s) :
    Q s ∧ ∃ es' s', FaultFree es' ∧ run (init Cfg.fixed) es' = some s' ∧ Quiescent s' ∧ Q s' ∧
      pubLog (init Cfg.fixed) es' = pubLog (init Cfg.fixed) es ∧
      s'.version = s.version ∧ s'.epoch = s.epoch ∧
      (∀ k, s'.comp k = s.comp k) ∧ (∀ k, s'.bpl k = s.bpl k) ∧ (∀ k, s'.partialW k = s.partialW k) ∧
      s'.readers = s.readers ∧ s'.writer = s.writer ∧ s'.aborted = s.aborted := by
  have hQ := cancel_restores (reachable_of_run .init hrun) hq
  obtain ⟨es', s', hf, hr', hq', hl, hv, he⟩ := erase_faults hrun hq
  have hQ' := cancel_restores (reachable_of_run .init hr') hq'
  refine ⟨hQ, es', s', hf, hr', hq', hQ', hl, hv, he, ?_, ?_, ?_, ?_, ?_, ?_⟩
  · intro k; rw [hQ'.noComputing k, hQ.noComputing k]
  · intro k; rw [hQ'.noBackwardProjection k, hQ.noBackwardProjection k]
  · intro k; rw [hQ'.noHalfPublished k, hQ.noHalfPublished k]
  · rw [hQ'.phaseLockFree.1, hQ.phaseLockFree.1]
  · rw [hQ'.phaseLockFree.2, hQ.phaseLockFree.2]
  · rw [hQ'.noBatchDropped, hQ.noBatchDropped]

/-- non-vacuity: a nested request cut in the middle of the outer frame, after the inner publication completed -/
example : (run (init Cfg.fixed) [.spawn 0 3 false none, .lock 0, .call 0 1, .lock 0, .gEnter 0, .batchNew 0, .submit 0, .finish 0,
      .hit 0, .cancel 0]).map (fun s => ((s.tasks 0).isNone, s.version 1, s.version 3)) = some (true, 1, 0) := by decide
example : pubLog (init Cfg.fixed) [.spawn 0 3 false none, .lock 0, .call 0 1, .lock 0, .gEnter 0, .batchNew 0, .submit 0, .finish 0,
      .hit 0, .cancel 0] = [.node 1] := by decide

/-! ### the undo of a registration keeps the order of the others

`register_callee` records the callees of a computing node in the order its executor reads them (`regs`, newest
first); the engine replays them in that order when it repairs the node.  An aborted read (`UndoRegisterCallee`
dropped while armed: the read was cancelled — by the drop of the whole task, or by the executor itself) removes its
own registration and nothing else: what is left is the old list with one element missing, in the same relative
order.  In the code: `CalleeOrder::abort_callee` is `order.remove(i)`; a `swap_remove(i)` contradicts
`eraseReg_sublist` (it moves the last registration into the freed slot).  The hook trace does not carry the
order vector: for the code this part is judged by the oracle only (harness family "executor drops one of its own
reads": guard read before guarded read, guard flipped afterwards). -/

/-- removing an aborted registration leaves the remaining registrations in their relative order -/
theorem eraseReg_sublist (regs : List (Key × Bool)) (c : Key) : (eraseReg regs c).Sublist regs :=
  List.erase_sublist

/-- … and removes exactly that one registration -/
theorem eraseReg_length (regs : List (Key × Bool)) (c : Key) (h : (c, true) ∈ regs) :
    (eraseReg regs c).length = regs.length - 1 := by
  simp [eraseReg, List.length_erase_of_mem h]

/-- every other registration is still there -/
theorem eraseReg_mem_of_ne (regs : List (Key × Bool)) (c : Key) (x : Key × Bool) (hx : x ∈ regs) (hne : x ≠ (c, true)) :
    x ∈ eraseReg regs c := by
  simpa [eraseReg] using (List.mem_erase_of_ne hne).mpr hx

theorem unregAt_regs_sublist (comp : Key → Option Entry) (a x k : Key) (e' : Entry) (h : unregAt comp a x k = some e') :
    ∃ e, comp k = some e ∧ e'.owner = e.owner ∧ e'.regs.Sublist e.regs := by
  unfold unregAt at h
  cases ha : comp a with
  | none => rw [ha] at h; exact ⟨e', h, rfl, List.Sublist.refl _⟩
  | some ea =>
    rw [ha] at h
    by_cases hk : k = a
    · subst hk
      simp [upd] at h
      subst h
      exact ⟨ea, ha, rfl, eraseReg_sublist _ _⟩
    · simp [upd, hk] at h
      exact ⟨e', h, rfl, List.Sublist.refl _⟩

theorem dropFrame_regs_sublist (f : Frame) (comp : Key → Option Entry) (bpl : Key → Option Tid) (k : Key) (e' : Entry)
    (h : (dropFrame f comp bpl).1 k = some e') : ∃ e, comp k = some e ∧ e'.owner = e.owner ∧ e'.regs.Sublist e.regs := by
  unfold dropFrame at h
  have base : ∀ e'', (if f.lock = true then upd comp f.key none else comp) k = some e'' → comp k = some e'' := by
    intro e'' h1
    split at h1
    · by_cases hk : k = f.key
      · simp [upd, hk] at h1
      · simpa [upd, hk] using h1
    · exact h1
  cases hu : f.undo with
  | none => rw [hu] at h; exact ⟨e', base _ h, rfl, List.Sublist.refl _⟩
  | some c =>
    rw [hu] at h
    obtain ⟨e, he, ho, hs⟩ := unregAt_regs_sublist _ _ _ _ _ h
    exact ⟨e, base _ he, ho, hs⟩

theorem dropFrames_regs_sublist (fs : List Frame) (comp : Key → Option Entry) (bpl : Key → Option Tid) (k : Key) (e' : Entry)
    (h : (dropFrames fs comp bpl).1 k = some e') : ∃ e, comp k = some e ∧ e'.owner = e.owner ∧ e'.regs.Sublist e.regs := by
  induction fs generalizing comp bpl with
  | nil => exact ⟨e', h, rfl, List.Sublist.refl _⟩
  | cons f fs ih =>
    simp only [dropFrames] at h
    obtain ⟨e1, he1, ho1, hs1⟩ := ih _ _ h
    obtain ⟨e, he, ho, hs⟩ := dropFrame_regs_sublist f comp bpl k e1 he1
    exact ⟨e, he, ho1.trans ho, hs1.trans hs⟩

/-- **cancel_preserves_registration_order**: whatever `cancel t` removes (the entries `t` owns, the armed
    registrations of the reads `t` had in flight), every computing entry that survives has its registered callees
    in the same relative order as before — the undo of an aborted read never permutes the other registrations -/
theorem cancel_preserves_registration_order {s s' : State} {t : Tid} (hc : step s (.cancel t) = some s')
    {k : Key} {e' : Entry} (h : s'.comp k = some e') :
    ∃ e, s.comp k = some e ∧ e'.owner = e.owner ∧ e'.regs.Sublist e.regs := by
  simp only [step] at hc
  cases hT : s.tasks t with
  | none => simp [hT] at hc
  | some T =>
    simp only [hT] at hc
    split at hc
    · cases hc
      have hdb : ∀ b, (dropBatch s b).comp = s.comp := by intro b; cases b <;> rfl
      unfold cancelTask at h
      split at h
      · -- a session task: the computing table is untouched
        cases hpc : T.pc <;> simp [hpc, endTask, setTask, hdb] at h <;> exact ⟨e', h, rfl, List.Sublist.refl _⟩
      · cases hfr : T.frames with
        | nil => simp [hfr, endTask] at h; exact ⟨e', h, rfl, List.Sublist.refl _⟩
        | cons top rest =>
          simp only [hfr] at h
          split at h
          · exact dropFrames_regs_sublist _ _ _ _ _ (by simpa using h)
          · have := dropFrames_regs_sublist (top :: rest) (dropBatch s T.batch).comp (dropBatch s T.batch).bpl k e' (by simpa [endTask] using h)
            simpa [hdb] using this
    · cases hc

/-- a future can be dropped at every await point: `cancel` is enabled for every live task that still has a caller -/
theorem cancel_always_enabled {s : State} {t : Tid} {T : Task} (hT : s.tasks t = some T) (hd : T.detached = false) :
    (step s (.cancel t)).isSome = true := by
  simp [step, hT, hd]

/-! ### no stall, in full (Lemmas/CancelProgress.lean)

The LTS has no program: a task may start new work (`call`, `lock`, `write`, `spawn`, …) for ever, so "every maximal run
is finite" is false for it, and with unrestricted `call`s two tasks can wait for each other (`cyclic_calls_can_deadlock`).
Under the static-rank assumption (`ReachableR`: a callee's key is smaller than its caller's — acyclic programs, C02) the
clause holds in the form that does not depend on the program:
* the explicit variant `variant n s` strictly decreases on **every** completing event (`completing_decreases`), so every
  run of completing events has at most `variant n s` steps (`completing_run_bounded`);
* a state in which a task is left always has an enabled completing event (`deadlock_free`);
* hence every maximal run of completing events ends with no task left (`maximal_completing_run_quiescent`), such a run
  exists from every reachable state (`all_complete`), and the state it ends in satisfies `Q` (`no_stall`). -/

/-- The `no_stall` clause of the property: from every state reachable (with rank-respecting calls) in the repaired
    configuration — whatever was cancelled or panicked before — the remaining work can be completed without any further
    fault, and the quiescent invariant holds afterwards. -/
def C05_full_statement : Prop :=
  ∀ (s : State), ReachableR Cfg.fixed s →
    ∃ (es : List Ev) (s' : State), (∀ e ∈ es, ∀ t, e ≠ .cancel t ∧ e ≠ .panic t) ∧ run s es = some s' ∧ Quiescent s' ∧ Q s'

theorem no_stall : C05_full_statement := by
  intro s hr
  obtain ⟨es, s', hall, hrun, hq⟩ := all_complete hr
  have hr' := (completing_run_reachableR hr hall hrun).reachable
  exact ⟨es, s', fun e he => completing_not_fault (hall e he), hrun, hq, cancel_restores hr' hq⟩

/-- without the rank assumption the model has cyclic waits: task 0 holds key 1 and waits for key 2, task 1 holds key 2
    and waits for key 1; neither can be woken (in the engine `exit_scc` answers this with `CyclicError`; C06) -/
theorem cyclic_calls_can_deadlock :
    (run (init Cfg.fixed) [.spawn 0 1 false none, .lock 0, .call 0 2, .spawn 1 2 false none, .lock 1, .call 1 1,
        .waitC 0, .waitC 1]).map (fun s => ((step s (.wake 0)).isSome, (step s (.wake 1)).isSome, (step s (.hit 0)).isSome,
          (step s (.hit 1)).isSome)) = some (false, false, false, false) := by decide

end QbiceVerif.CancelLts
