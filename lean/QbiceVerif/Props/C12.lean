/-
Property C12 — "Serialization round-trips every supported value exactly".

Theorems over `Model/Codec` (the model is tied to `/repo/crates/serialize` by the correspondence
check `tools/props/c12.py`).  No statement below carries a size, depth or length bound: `t` ranges
over the whole type universe (any nesting), `v` over all its well-typed values, `rest` over all byte
strings, `w` over all register widths.
-/
import QbiceVerif.Lemmas.CodecIntern

namespace QbiceVerif.Codec.C12

open QbiceVerif.Codec

/-! ### "primitives at every width" — LEB128 + zigzag -/

/-- *"Decoding the bytes produced by encoding any value … primitives at every width … consuming exactly
the bytes that were written"* — the varint loops of `postcard.rs`, for **every** register width `w`
(the code instantiates 16, 32, 64, 128) and every `n < 2^w`, with arbitrary bytes following. -/
theorem varint_roundtrip (w n : Nat) (hw : 0 < w) (h : n < 2 ^ w) (rest : Bytes) :
    decVarint w (encVarint n ++ rest) = .ok (n, rest) :=
  Codec.varint_roundtrip w n hw h rest

/-- The four hand-written copies (`read_varint_u16/u32/u64/u128`). -/
theorem varint_roundtrip_widths (n : Nat) (rest : Bytes) :
    (n < 2 ^ 16 → decVarint 16 (encVarint n ++ rest) = .ok (n, rest)) ∧
    (n < 2 ^ 32 → decVarint 32 (encVarint n ++ rest) = .ok (n, rest)) ∧
    (n < 2 ^ 64 → decVarint 64 (encVarint n ++ rest) = .ok (n, rest)) ∧
    (n < 2 ^ 128 → decVarint 128 (encVarint n ++ rest) = .ok (n, rest)) :=
  ⟨fun h => Codec.varint_roundtrip 16 n (by decide) h rest, fun h => Codec.varint_roundtrip 32 n (by decide) h rest,
   fun h => Codec.varint_roundtrip 64 n (by decide) h rest, fun h => Codec.varint_roundtrip 128 n (by decide) h rest⟩

/-- The encoder never writes past its stack buffer: `MAX_VARINT_U{16,32,64,128}_BYTES = 3, 5, 10, 19`
are `⌈w/7⌉`. -/
theorem varint_len_le (w n : Nat) (hw : 0 < w) (h : n < 2 ^ w) : (encVarint n).length ≤ (w + 6) / 7 :=
  Codec.varint_len_le w n hw h

theorem varint_len_le_widths (n : Nat) :
    (n < 2 ^ 16 → (encVarint n).length ≤ 3) ∧ (n < 2 ^ 32 → (encVarint n).length ≤ 5) ∧
    (n < 2 ^ 64 → (encVarint n).length ≤ 10) ∧ (n < 2 ^ 128 → (encVarint n).length ≤ 19) :=
  ⟨fun h => Codec.varint_len_le 16 n (by decide) h, fun h => Codec.varint_len_le 32 n (by decide) h,
   fun h => Codec.varint_len_le 64 n (by decide) h, fun h => Codec.varint_len_le 128 n (by decide) h⟩

/-- Zigzag at every width `w`: a `w`-bit signed value maps into the `w`-bit unsigned register and
comes back. -/
theorem zigzag_roundtrip (w : Nat) (hw : 0 < w) (i : Int)
    (h1 : -((2 ^ (w - 1) : Nat) : Int) ≤ i) (h2 : i < ((2 ^ (w - 1) : Nat) : Int)) :
    zigzagEnc i < 2 ^ w ∧ zigzagDec (zigzagEnc i) = i :=
  ⟨zigzagEnc_lt w hw i h1 h2, zigzagDec_zigzagEnc i⟩

/-- The two's-complement bit trick of `postcard.rs` (`(v << 1) ^ (v >> (BITS-1))` and
`(u >> 1) ^ -(u & 1)` on a `w`-bit register) computes exactly the arithmetic zigzag used by the model,
for every width `w` (the code instantiates 16, 32, 64, 128). -/
theorem zigzag_bit_trick (w : Nat) (hw : 0 < w) (x u : BitVec w) :
    (zigzagEncBits w x).toNat = zigzagEnc x.toInt ∧ (zigzagDecBits w u).toInt = zigzagDec u.toNat :=
  ⟨zigzagEncBits_toNat w hw x, zigzagDecBits_toInt w hw u⟩

/-- Hence on the register itself: decoding the zigzag of any `w`-bit signed value gives it back. -/
theorem zigzag_bits_roundtrip (w : Nat) (hw : 0 < w) (x : BitVec w) :
    zigzagDecBits w (zigzagEncBits w x) = x := by
  apply BitVec.eq_of_toInt_eq
  rw [zigzagDecBits_toInt w hw, zigzagEncBits_toNat w hw, zigzagDec_zigzagEnc]

/-- … and zigzag is a bijection between the integers and the naturals (no two values collide). -/
theorem zigzag_surjective (n : Nat) : zigzagEnc (zigzagDec n) = n := zigzagEnc_zigzagDec n

/-! ### the round trip on the whole universe -/

/-- *"Decoding the bytes produced by encoding any value of any supported type … yields a value equal
to the original, consuming exactly the bytes that were written.  Encodings are self-delimiting"* —
equality (up to skipped fields, which come back as their declared default: `normalize`), exact
consumption and self-delimitation in one statement: whatever follows the encoding is left untouched.
`decode true` is the decoder as it is (BitVec decoding mirrors its encoding since /repo commit e089897, which
fixed finding F7); every type, unbounded nesting, no side condition. -/
theorem decode_encode (t : Ty) (v : Val) (rest : Bytes) (hw : wt t v = true) :
    decode true t (encode t v ++ rest) = .ok (normalize t v, rest) :=
  dec_enc true t v rest hw (Or.inl rfl)

/-- Historical (the decoder **before** commit e089897, `decode false`): the round trip held for every type in
which no `BitVec` with a storage word wider than a byte occurs.  The excluded case was exactly finding F7
(`bitvec_asis_counterexample` below). -/
theorem decode_encode_asis_partial (t : Ty) (v : Val) (rest : Bytes) (hw : wt t v = true)
    (hb : t.noWideBitvec = true) :
    decode false t (encode t v ++ rest) = .ok (normalize t v, rest) :=
  dec_enc false t v rest hw (Or.inr hb)

/-- *"including … skipped fields"*: without `#[serialize(skip)]` fields the decoded value is the
original itself. -/
theorem decode_encode_exact (fix : Bool) (t : Ty) (v : Val) (rest : Bytes) (hw : wt t v = true)
    (hb : fix = true ∨ t.noWideBitvec = true) (hs : t.noSkip = true) :
    decode fix t (encode t v ++ rest) = .ok (v, rest) := by
  rw [dec_enc fix t v rest hw hb, normalize_id t v hs]

/-- A skipped field is not written and comes back as the declared default, whatever it held. -/
theorem skipped_field_default (fix : Bool) (d v : Val) (rest : Bytes) :
    encode (.skip d) v = [] ∧ decode fix (.skip d) rest = .ok (d, rest) := by
  simp [encode, decode, pure, Except.pure]

/-- The full statement for the decoder before commit e089897 — false, see `asis_full_statement_false`. -/
def C12_asis_full_statement : Prop :=
  ∀ (t : Ty) (v : Val) (rest : Bytes), wt t v = true → decode false t (encode t v ++ rest) = .ok (normalize t v, rest)

/-- *"Encodings are self-delimiting"*: no encoding of a value is a proper prefix of the encoding of
another value of the same type. -/
theorem encode_prefix_free (t : Ty) (v₁ v₂ : Val) (h₁ : wt t v₁ = true) (h₂ : wt t v₂ = true)
    (hp : encode t v₁ <+: encode t v₂) : encode t v₁ = encode t v₂ ∧ normalize t v₁ = normalize t v₂ :=
  ⟨(enc_prefix_free t v₁ v₂ h₁ h₂ hp).2, (enc_prefix_free t v₁ v₂ h₁ h₂ hp).1⟩

/-- Distinct values have distinct encodings (up to skipped fields). -/
theorem encode_inj (t : Ty) (v₁ v₂ : Val) (h₁ : wt t v₁ = true) (h₂ : wt t v₂ = true)
    (he : encode t v₁ = encode t v₂) : normalize t v₁ = normalize t v₂ :=
  (enc_prefix_free t v₁ v₂ h₁ h₂ (he ▸ List.prefix_refl _)).1

theorem encode_inj_exact (t : Ty) (v₁ v₂ : Val) (h₁ : wt t v₁ = true) (h₂ : wt t v₂ = true)
    (hs : t.noSkip = true) (he : encode t v₁ = encode t v₂) : v₁ = v₂ := by
  have := encode_inj t v₁ v₂ h₁ h₂ he
  rwa [normalize_id t v₁ hs, normalize_id t v₂ hs] at this

/-- *"values written back to back are read back in the same sequence"* — any number of values of any
types, for the code as it is (`decodeAll true`). -/
theorem back_to_back (tvs : List (Ty × Val)) (rest : Bytes) (h : ∀ tv ∈ tvs, wt tv.1 tv.2 = true) :
    decodeAll true (tvs.map (·.1)) (encodeAll tvs ++ rest) = .ok (tvs.map (fun tv => normalize tv.1 tv.2), rest) :=
  dec_enc_all true tvs rest (fun tv htv => ⟨h tv htv, Or.inl rfl⟩)

/-- Historical counterpart for the decoder before commit e089897. -/
theorem back_to_back_asis_partial (tvs : List (Ty × Val)) (rest : Bytes)
    (h : ∀ tv ∈ tvs, wt tv.1 tv.2 = true ∧ tv.1.noWideBitvec = true) :
    decodeAll false (tvs.map (·.1)) (encodeAll tvs ++ rest) = .ok (tvs.map (fun tv => normalize tv.1 tv.2), rest) :=
  dec_enc_all false tvs rest (fun tv htv => ⟨(h tv htv).1, Or.inr (h tv htv).2⟩)

/-! ### interned handles -/

/-- *"interned handles"*: a structure whose encoding is a sequence of plain parts and handles
(first occurrence of a value written in full, later ones by hash; fresh session) is read back —
whatever the interner already holds (`I`, consistent) — with every plain part and every handle value
equal to the original, consuming exactly the bytes written; each handle designates the interner slot
of its own value.  Hypothesis, explicit: on the set `S` of values involved, distinct values of one
type have distinct (128-bit) hashes. -/
theorem interned_roundtrip (fix : Bool) (hash : Nat → Val → Nat) (S : Nat → Val → Prop)
    (hinj : ∀ tid v₁ v₂, S tid v₁ → S tid v₂ → hash tid v₁ = hash tid v₂ → v₁ = v₂)
    (hbound : ∀ tid v, S tid v → hash tid v < 2 ^ 128)
    (is : List Item) (I : Interner) (rest : Bytes)
    (hok : ∀ it ∈ is, ItemOk fix S it) (hI : Interner.Consistent hash S I) :
    ∃ ds I', decodeItems fix hash (is.map Item.ty) (encodeItems hash is [] ++ rest) I = .ok (ds, rest, I')
      ∧ Interner.le I I' ∧ Interner.Consistent hash S I' ∧ Matches hash I' is ds :=
  dec_enc_items fix hash S hinj hbound is [] I rest hok (by simp) hI

/-- … and the sharing relation is reproduced: two decoded handles of one type designate the same slot
(the same allocation) exactly when the original values were equal. -/
theorem interned_sharing (hash : Nat → Val → Nat) (S : Nat → Val → Prop)
    (hinj : ∀ tid v₁ v₂, S tid v₁ → S tid v₂ → hash tid v₁ = hash tid v₂ → v₁ = v₂)
    (I' : Interner) (tid : Nat) (v₁ v₂ : Val) (s₁ s₂ : Nat) (h₁ : S tid v₁) (h₂ : S tid v₂)
    (f₁ : Interner.find I' (tid, hash tid v₁) = some (s₁, v₁))
    (f₂ : Interner.find I' (tid, hash tid v₂) = some (s₂, v₂)) : s₁ = s₂ ↔ v₁ = v₂ :=
  handle_sharing hash S hinj I' tid v₁ v₂ s₁ s₂ h₁ h₂ f₁ f₂

/-! ### BitVec (feature `bitvec`), finding F7 -/

/-- Finding F7 (fixed by /repo commit e089897), as the code was: a well-typed `BitVec<usize, Lsb0>` of 9 bits (only bit 8 set) is
decoded to a different value (bit 7 set, bit 8 clear). -/
theorem bitvec_asis_counterexample :
    wt (.bitvec .wsize false) (.bits 9 [256]) = true ∧
    decode false (.bitvec .wsize false) (encode (.bitvec .wsize false) (.bits 9 [256])) = .ok (.bits 9 [640], []) := by
  decide

/-- … and a 63-bit vector leaves one byte of its own encoding unread (the next value is corrupted). -/
theorem bitvec_asis_counterexample_consumed :
    wt (.bitvec .wsize false) (.bits 63 [2 ^ 62]) = true ∧
    (decode false (.bitvec .wsize false) (encode (.bitvec .wsize false) (.bits 63 [2 ^ 62]))).toOption.map (·.2.length)
      = some 1 := by
  decide

/-- Hence the unrestricted statement about the pre-e089897 decoder is false. -/
theorem asis_full_statement_false : ¬ C12_asis_full_statement := by
  intro h
  have := h (.bitvec .wsize false) (.bits 9 [256]) [] (by decide)
  revert this
  decide

/-- With the decoder mirroring the encoder (`/verif/fixes/F7-bitvec-decode.diff` = /repo commit e089897, the code
as it is) every BitVec, of every store width and bit order, round-trips exactly — dead bits of the last word
included. -/
theorem bitvec_roundtrip_repaired (w : IntW) (msb : Bool) (len : Nat) (words : List Nat) (rest : Bytes)
    (hw : wt (.bitvec w msb) (.bits len words) = true) :
    decode true (.bitvec w msb) (encode (.bitvec w msb) (.bits len words) ++ rest) = .ok (.bits len words, rest) := by
  have := dec_enc true (.bitvec w msb) (.bits len words) rest hw (Or.inl rfl)
  simpa [normalize] using this

/-- `BitVec<u8, _>` was fine even before the fix. -/
theorem bitvec_u8_roundtrip_asis (msb : Bool) (len : Nat) (words : List Nat) (rest : Bytes)
    (hw : wt (.bitvec .w8 msb) (.bits len words) = true) :
    decode false (.bitvec .w8 msb) (encode (.bitvec .w8 msb) (.bits len words) ++ rest) = .ok (.bits len words, rest) := by
  have := dec_enc false (.bitvec .w8 msb) (.bits len words) rest hw (Or.inr (by simp [Ty.noWideBitvec]))
  simpa [normalize] using this

/-! ### non-vacuity -/

/-- A nested well-typed value (`Vec<Option<(i16, String, Bound<u64>)>>`-shaped, with an enum and a
skipped field) exists; its round trip instantiates `decode_encode`. -/
def exTy : Ty :=
  .seq (.option (.tuple (.cons (.sint .w16) (.cons .str (.cons (.bound (.uint .w64))
    (.cons (.enum (.cons (.tuple .nil) (.cons (.tuple (.cons (.uint .w128) .nil)) .nil))) (.cons (.skip (.nat 7)) .nil)))))))

def exVal : Val :=
  .list (.cons (.tagged 1 (.list (.cons (.int (-300)) (.cons (.bytes [0x68, 0xC3, 0xA9]) (.cons (.tagged 2 (.nat (2 ^ 63)))
    (.cons (.tagged 1 (.list (.cons (.nat (2 ^ 127)) .nil))) (.cons (.nat 99) .nil))))))) (.cons (.tagged 0 .unit) .nil))

example : wt exTy exVal = true := by decide
example : exTy.noWideBitvec = true := by decide
example : normalize exTy exVal ≠ exVal := by decide   -- the skipped field really changes (99 ↦ 7)
example : decode false exTy (encode exTy exVal ++ [1, 2, 3]) = .ok (normalize exTy exVal, [1, 2, 3]) := by decide
example : ∃ t v, wt t v = true ∧ t.noSkip = true ∧ t.noWideBitvec = true := ⟨.uint .w16, .nat 5, by decide⟩
-- hypotheses of `varint_roundtrip` / `zigzag_roundtrip` are satisfiable at the extremes
example : (2 ^ 128 - 1 : Nat) < 2 ^ 128 ∧ (encVarint (2 ^ 128 - 1)).length = 19 := by decide
example : zigzagEnc (-(2 ^ 127)) = 2 ^ 128 - 1 := by decide
-- one register bit too many is rejected (the `shift >= w` check), one byte too few is `eof`
example : decVarint 16 [0xFF, 0xFF, 0xFF, 0x01] = .error .invalid := by decide
example : decVarint 16 [0xFF, 0xFF] = .error .eof := by decide
-- prefix-freeness has content: two different values, neither encoding a prefix of the other
example : ¬ (encode (.seq (.uint .w8)) (.list (.cons (.nat 1) .nil)) <+: encode (.seq (.uint .w8)) (.list (.cons (.nat 1) (.cons (.nat 2) .nil)))) := by
  decide

/-- Interned: the hypothesis of `interned_roundtrip` is satisfiable (an injective hash on a set of two
values), and it is needed: with colliding hashes the second handle is read back as the first value. -/
example : ∃ (hash : Nat → Val → Nat) (S : Nat → Val → Prop),
    (∀ tid v₁ v₂, S tid v₁ → S tid v₂ → hash tid v₁ = hash tid v₂ → v₁ = v₂) ∧
    (∀ tid v, S tid v → hash tid v < 2 ^ 128) ∧
    (∀ it ∈ [Item.handle 0 (.uint .w64) (.nat 1), .handle 0 (.uint .w64) (.nat 2), .handle 0 (.uint .w64) (.nat 1)],
      ItemOk false S it) ∧ Interner.Consistent hash S [] := by
  refine ⟨fun _ v => match v with | .nat n => n | _ => 0, fun _ v => v = .nat 1 ∨ v = .nat 2, ?_, ?_, ?_, ?_⟩
  · intro tid v₁ v₂ h₁ h₂; rcases h₁ with h₁ | h₁ <;> rcases h₂ with h₂ | h₂ <;> subst h₁ <;> subst h₂ <;> simp
  · intro tid v h; rcases h with h | h <;> subst h <;> simp
  · intro it hit; simp at hit
    rcases hit with h | h | h <;> subst h <;> simp [ItemOk, wt, uintOk, IntW.bits, Ty.noSkip, Ty.noWideBitvec]
  · intro k s v h; simp [Interner.find] at h

example :
    (decodeItems false (fun _ _ => 7) [.handle 0 (.uint .w64), .handle 0 (.uint .w64)]
      (encodeItems (fun _ _ => 7) [.handle 0 (.uint .w64) (.nat 1), .handle 0 (.uint .w64) (.nat 2)] []) []).toOption.map
        (fun r => r.1.map (fun d => match d with | .handle s (.nat n) => (s, n) | _ => (99, 99)))
      = some [(0, 1), (0, 1)] := by
  decide

end QbiceVerif.Codec.C12
