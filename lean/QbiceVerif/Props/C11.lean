/-
C11 — Store backends honour the key-value contract and isolate keys.

"For each shipped backend, a point read returns the last committed value for exactly that column,
key and value type, a member scan returns exactly the committed members of exactly that key,
uncommitted batches are invisible, and a batch takes effect as a whole.  Keys whose encodings are
prefixes or extensions of one another, empty encodings, and different value types under one key
never interfere, and the committed content is still there after the database is closed and
reopened."

The theorems are about the byte-level model of `crates/storage/src/kv_database/{rocksdb,fjall}.rs`
(`Model/KvKey.lean`, `Model/KvStore.lean`), for ALL keys / elements / discriminants / values and
ALL command sequences.  The serializer is a parameter (`Enc`); what is assumed of it is stated
explicitly (`SerOk`): prefix-free on wide-column keys and discriminants, injective on key-of-set
keys and elements.
-/
import QbiceVerif.Lemmas.KvRefine

namespace QbiceVerif.Kv

/-! ## 1. Composite wide-column keys -/

/-- "the concatenation of two prefix-free codes is injective" (the second only needs injectivity). -/
theorem prefix_free_concat_inj {α β : Type} {f : α → Bytes} {g : β → Bytes} (hf : PrefixFree f)
    (hg : ∀ b b', g b = g b' → b = b') {a a' : α} {b b' : β}
    (h : f a ++ g b = f a' ++ g b') : a = a' ∧ b = b' :=
  prefixFree_concat_inj hf hg h

/-- … and is itself a prefix-free code of the pair. -/
theorem prefix_free_concat_prefix_free {α β : Type} {f : α → Bytes} {g : β → Bytes}
    (hf : PrefixFree f) (hg : PrefixFree g) : PrefixFree (fun p : α × β => f p.1 ++ g p.2) :=
  prefixFree_concat hf hg

/-- Fjall's padding of an empty key encoding keeps the code prefix-free ("empty encodings … never
interfere"). -/
theorem pad_prefix_free {α : Type} {enc : α → Bytes} (h : PrefixFree enc) :
    PrefixFree (fun a => pad (enc a)) :=
  prefixFree_pad h

/-- `wideKey_inj`: for BOTH discriminant placements and BOTH backends (`padKey = false` RocksDB,
`padKey = true` Fjall) two composite keys are equal only if discriminant (value type) AND key are
equal — "a point read returns the … value for exactly that … key and value type". -/
theorem wideKey_inj {κ δ : Type} (padKey : Bool) (pl : Placement) {encD : δ → Bytes}
    {encK : κ → Bytes} (hD : PrefixFree encD) (hK : PrefixFree encK) {d d' : δ} {k k' : κ}
    (h : wideKey padKey pl (encD d) (encK k) = wideKey padKey pl (encD d') (encK k')) :
    d = d' ∧ k = k' :=
  wideKey_inj_gen padKey pl hD hK h

/-- "different value types under one key never interfere" -/
theorem wideKey_value_types_disjoint {κ δ : Type} (padKey : Bool) (pl : Placement)
    {encD : δ → Bytes} {encK : κ → Bytes} (hD : PrefixFree encD) (hK : PrefixFree encK) {d d' : δ}
    (k k' : κ) (hne : d ≠ d') :
    wideKey padKey pl (encD d) (encK k) ≠ wideKey padKey pl (encD d') (encK k') :=
  fun h => hne (wideKey_inj_gen padKey pl hD hK h).1

/-- a padded (Fjall) composite key is never empty, so the store's `!key.is_empty()` assertion holds -/
theorem wideKey_padded_nonempty (pl : Placement) (d k : Bytes) : wideKey true pl d k ≠ [] :=
  wideKey_ne_nil_of_pad pl d k

/-! ## 2. Key-of-set member keys -/

/-- `setKey_inj`: the member key determines key and element; the key encoding only needs to be
INJECTIVE (not prefix-free): the 8-byte length field delimits it. -/
theorem setKey_inj {κ ε : Type} {encK : κ → Bytes} {encE : ε → Bytes}
    (hK : ∀ a b, encK a = encK b → a = b) (hE : ∀ a b, encE a = encE b → a = b)
    (hlen : ∀ k, (encK k).length < 2 ^ 64) {k k' : κ} {e e' : ε}
    (h : setKey (encK k) (encE e) = setKey (encK k') (encE e')) : k = k' ∧ e = e' := by
  obtain ⟨h1, h2⟩ := setKey_inj_bytes (hlen k) (hlen k') h
  exact ⟨hK _ _ h1, hE _ _ h2⟩

/-- `member_iff_prefix`: a member key of `k` starts with the scan prefix of `k'` iff `k = k'` —
"keys whose encodings are prefixes or extensions of one another, empty encodings … never
interfere" (no assumption relates `encK k` and `encK k'`: they may be prefixes of each other or empty). -/
theorem member_iff_prefix {κ : Type} {encK : κ → Bytes} (hK : ∀ a b, encK a = encK b → a = b)
    (hlen : ∀ k, (encK k).length < 2 ^ 64) (k k' : κ) (encE : Bytes) :
    setPrefix (encK k') <+: setKey (encK k) encE ↔ k' = k := by
  rw [setPrefix_prefix_setKey_iff _ _ _ (hlen k) (hlen k')]
  exact ⟨fun h => hK _ _ h, fun h => h ▸ rfl⟩

/-- the scan iterator's slicing (`key[8 + length..]`) returns exactly the element bytes -/
theorem scan_slice_exact (encK encE : Bytes) (hk : encK.length < 2 ^ 64) :
    splitMember (setKey encK encE) = some encE :=
  splitMember_setKey encK encE hk

/-- RocksDB's prefix extractor (`transform_key`) maps every member key to its set prefix, and the
seek key of a scan to itself: prefix bloom filters are consulted with consistent prefixes. -/
theorem transform_setKey (encK encE : Bytes) (hk : encK.length < 2 ^ 64) :
    transformKey (setKey encK encE) = setPrefix encK ∧
      transformKey (setPrefix encK) = setPrefix encK :=
  ⟨transformKey_setKey encK encE hk, transformKey_setPrefix encK hk⟩

/-! ## 3. The computed exclusive upper bound of a scan (RocksDB) -/

/-- `upper_bound_exact`: for every byte string `p` that is not all 0xFF, the half-open range
`[p, prefix_upper_bound p)` of the bytewise (lexicographic) order is EXACTLY the set of byte strings
starting with `p`. -/
theorem upper_bound_exact (p s : Bytes) (hp : allFF p = false) :
    (p ≤ s ∧ s < prefixUpperBound p) ↔ p <+: s := by
  rw [← leB_iff_le, ← ltB_iff_lt]
  exact upper_bound_exact_aux p s hp

/-- `setPrefix_not_all_ff`: the 8-byte length field of a real set prefix cannot be 0xFF…FF … -/
theorem setPrefix_not_all_ff (encK : Bytes) (hk : encK.length < 2 ^ 64 - 1) :
    allFF (setPrefix encK) = false :=
  setPrefix_not_allFF encK hk

/-- … so the "all bytes 0xFF ⇒ no upper bound" branch of `prefix_upper_bound` is unreachable for
scans: the bound of a set prefix is never the empty vector. -/
theorem no_upper_bound_branch_unreachable (encK : Bytes) (hk : encK.length < 2 ^ 64 - 1) :
    prefixUpperBound (setPrefix encK) ≠ [] := by
  intro h
  have hp := setPrefix_not_allFF encK hk
  have := (upper_bound_exact_aux (setPrefix encK) (setPrefix encK) hp).mpr (List.prefix_refl _)
  rw [h, ltB_nil] at this
  exact absurd this.2 (by simp)

/-- (What that branch would do: it returns the empty vector, and an EMPTY exclusive upper bound
admits no key at all — not "no upper bound" as the comment in the code says.) -/
theorem all_ff_bound_admits_nothing (p : Bytes) (hp : allFF p = true) :
    prefixUpperBound p = [] ∧ ∀ s : Bytes, ¬ s < prefixUpperBound p := by
  have h := prefixUpperBound_allFF p hp
  refine ⟨h, fun s hs => ?_⟩
  rw [h, ← ltB_iff_lt, ltB_nil] at hs
  exact absurd hs (by simp)

/-! ## 4. Column families -/

/-- the column family / keyspace name determines (column kind, stable type id) -/
theorem column_name_inj (pre : String) (k k' : Kind) (i i' : Nat)
    (h : cfName pre k i = cfName pre k' i') : k = k' ∧ i = i' :=
  cfName_inj pre k k' i i' h

/-! ## 5. The API refines the specification -/

/-- What is assumed of the serializer and of the column types:
wide-column keys and discriminants are encoded prefix-free (a self-delimiting codec: C12),
key-of-set keys and elements injectively, encoded set keys are shorter than 2^64 - 1 bytes.
(`E.encK c` / `E.encD c` are only ever consulted for a type id `c` used as a wide column,
`E.encSK c` / `E.encE c` only for one used as a key-of-set column; a type id may be used as both.) -/
structure SerOk {κ δ ε : Type} (E : Enc κ δ ε) : Prop where
  pfD : ∀ c, PrefixFree (E.encD c)
  pfK : ∀ c, PrefixFree (E.encK c)
  injK : ∀ c, ∀ a b, E.encSK c a = E.encSK c b → a = b
  injE : ∀ c, ∀ a b, E.encE c a = E.encE c b → a = b
  lenK : ∀ c k, (E.encSK c k).length < 2 ^ 64 - 1

theorem encOk_of_serOk {κ δ ε : Type} {E : Enc κ δ ε} (be : Backend)
    (hbe : be = rocks ∨ be = fjall) (h : SerOk E) : EncOk be E where
  nameInj := fun k k' i i' e => cfName_inj _ k k' i i' e
  padOk := by rcases hbe with rfl | rfl <;> simp [rocks, fjall]
  byKind := by rcases hbe with rfl | rfl <;> rfl
  pfD := h.pfD
  pfK := h.pfK
  injK := h.injK
  injE := h.injE
  lenK := h.lenK

/-- `kv_refines_spec`: for BOTH shipped backends and EVERY sequence of commands (new batch / buffer,
put / delete / insert-member / delete-member through a batch or a serialization buffer, consume,
commit, drop, point read, member scan, reopen) over any number of columns, the model answers every
command as the specification does, where the specification is

  * point read  = last committed value of exactly (column, value type, key),
  * member scan = exactly the committed members of exactly (column, key), each returned in its
    encoded form and each exactly once,
  * operations of a batch / buffer that is not committed are invisible,
  * `commit` applies all operations of the batch in one step, in order (a batch takes effect as a whole),
  * `reopen` keeps the committed content and forgets open batches.

A "column" of the specification is a pair (column kind, stable type id): the command sequence MAY use
one type id both as a wide column and as a key-of-set column, in any order and with any kind touching
it first in a session (before or after a reopen) — point reads / writes per (kind, type id, value
type, key) and member scans per (type id, key) do not interfere.  (Until the repair of finding F19
the backends cached the family by the type id alone and this was false: `f19_historical_*` below.)

`CmdOk` = (Fjall) composite keys are within the backend's 65535-byte key limit; for RocksDB it is
vacuous. -/
theorem kv_refines_spec {κ δ ε : Type} [DecidableEq κ] [DecidableEq δ] [DecidableEq ε]
    (be : Backend) (hbe : be = rocks ∨ be = fjall) (E : Enc κ δ ε)
    (hS : SerOk E) (cmds : List (Cmd κ δ ε)) (hok : ∀ c ∈ cmds, CmdOk be E c) :
    AllMatch E cmds (mrun be E {} cmds) (srun Spec.init cmds) :=
  run_sim be E (encOk_of_serOk be hbe hS) cmds {} Spec.init (rel_init be E) hok

/-- for RocksDB `CmdOk` holds of every command: the refinement is unconditional in the commands -/
theorem kv_refines_spec_rocks {κ δ ε : Type} [DecidableEq κ] [DecidableEq δ] [DecidableEq ε]
    (E : Enc κ δ ε) (hS : SerOk E) (cmds : List (Cmd κ δ ε)) :
    AllMatch E cmds (mrun rocks E {} cmds) (srun Spec.init cmds) :=
  kv_refines_spec rocks (Or.inl rfl) E hS cmds (fun c _ => by
    cases c <;> simp [CmdOk, OpOk, opFits, keyOver, rocks])

/-- the column family handed out for (type id, kind) is the one named after exactly this pair, whatever
the session did before (cache hit or miss): the two kinds of one type id never share a family -/
theorem resolve_own_family (be : Backend) (hbe : be = rocks ∨ be = fjall) (db : Db)
    (hc : CacheInv be db.cache) (id : Nat) (kind : Kind) :
    (resolve be db id kind).1 = cfName be.namePrefix kind id ∧
      CacheInv be (resolve be db id kind).2.cache := by
  have hbk : be.cacheByKind = true := by rcases hbe with rfl | rfl <;> rfl
  obtain ⟨db', h, _, _, _, hc'⟩ := resolve_eq be db id kind hbk hc
  rw [h]
  exact ⟨rfl, hc'⟩

/-- "uncommitted batches are invisible", stated directly on the model: a point read does not depend
on the open batches and serialization buffers. -/
theorem get_ignores_open_batches (be : Backend) (db : Db) (b : List (Nat × List WOp))
    (s : List (Nat × List SOp)) (id : Nat) (pl : Placement) (encD encK : Bytes) :
    (get be { db with batches := b, sbufs := s } id pl encD encK).1 =
      (get be db id pl encD encK).1 := by
  unfold get resolve
  cases aget db.cache (cacheKey be id .wide) <;> (simp only []; split <;> rfl)

/-- … and neither does a member scan. -/
theorem scan_ignores_open_batches (be : Backend) (db : Db) (b : List (Nat × List WOp))
    (s : List (Nat × List SOp)) (id : Nat) (encK : Bytes) :
    (scan be { db with batches := b, sbufs := s } id encK).1 = (scan be db id encK).1 := by
  unfold scan resolve
  cases aget db.cache (cacheKey be id .set) <;> (simp only []; split <;> rfl)

/-- writing into a batch, or dropping it, leaves the store content untouched up to the lazy creation
of an (empty) column family: every column reads the same -/
theorem batchWrite_keeps_content (be : Backend) (db : Db) (h id : Nat) (kind : Kind) (key : Bytes)
    (val : Option Bytes) (n : String) :
    (batchWrite be db h id kind key val).2.disk.col n = db.disk.col n := by
  unfold batchWrite
  cases aget db.batches h with
  | none => rfl
  | some ops =>
    simp only
    have hres : ∀ n, (resolve be db id kind).2.disk.col n = db.disk.col n := by
      intro n
      unfold resolve
      cases aget db.cache (cacheKey be id kind) with
      | some _ => rfl
      | none =>
        simp only
        split
        · rfl
        · exact col_append_empty _ _ _
    split
    · exact hres n
    · exact hres n

/-- "the committed content is still there after the database is closed and reopened" -/
theorem reopen_keeps_content (db : Db) : (reopen db).disk = db.disk ∧ (reopen db).batches = [] :=
  ⟨rfl, rfl⟩

/-! ## Non-vacuity -/

section examples

/-- a one-byte code is prefix-free: the hypotheses of the key theorems are satisfiable -/
def encBool (b : Bool) : Bytes := [if b then 1 else 0]

example : PrefixFree encBool := by
  intro a b h
  cases a <;> cases b <;> simp [encBool] at h <;> rfl

/-- without prefix-freeness composite keys DO collide (suffixed placement, discriminants `[2]` and `[]`) -/
example : wideKey false .suffixed [2] [1] = wideKey false .suffixed [] [1, 2] := by decide

/-- Fjall's padding: an empty key encoding becomes `[0]` -/
example : wideKey true .prefixed [7] [] = [7, 0] := by decide

/-- prefix-related and empty key encodings get different scan prefixes -/
example : setPrefix [] = [0, 0, 0, 0, 0, 0, 0, 0] ∧ setPrefix [1] = [1, 0, 0, 0, 0, 0, 0, 0, 1] ∧
    setKey [1] [2] = [1, 0, 0, 0, 0, 0, 0, 0, 1, 2] ∧ setKey [1, 2] [] = [2, 0, 0, 0, 0, 0, 0, 0, 1, 2] := by
  decide

/-- the carry of `prefix_upper_bound` past trailing 0xFF bytes, and the all-0xFF case -/
example : prefixUpperBound [1, 0xFF, 0xFF] = [2] ∧ prefixUpperBound [1, 2] = [1, 3] ∧
    prefixUpperBound [0xFF, 0xFF] = [] := by decide

/-- `upper_bound_exact` is not vacuous: a concrete prefix, an element inside and one just outside -/
example : allFF [1, 0xFF] = false ∧ leB [1, 0xFF] [1, 0xFF, 0] = true ∧
    ltB [1, 0xFF, 0] (prefixUpperBound [1, 0xFF]) = true ∧ ltB [2] (prefixUpperBound [1, 0xFF]) = false := by
  decide

/-- a serializer satisfying `SerOk`.  Key-of-set keys use a code that is injective but NOT prefix-free
(`false ↦ []`, `true ↦ [1]`): the length field of the set prefix delimits it. -/
def encSKey (b : Bool) : Bytes := if b then [1] else []

def exEnc : Enc Bool Bool Bool :=
  { plc := fun c => if c % 4 = 0 then .prefixed else .suffixed
    encK := fun _ => encBool, encSK := fun _ => encSKey, encD := fun _ => encBool,
    encE := fun _ => encBool }

theorem encBool_pf : PrefixFree encBool := by
  intro a b h
  cases a <;> cases b <;> simp [encBool] at h <;> rfl

theorem exSerOk : SerOk exEnc where
  pfD := fun _ => encBool_pf
  pfK := fun _ => encBool_pf
  injK := fun _ a b => by cases a <;> cases b <;> simp [exEnc, encSKey]
  injE := fun _ => encBool_pf.injective
  lenK := fun _ k => by cases k <;> simp [exEnc, encSKey]

/-- a command sequence with a DUAL-KIND type id: type id 0 is used as a wide column AND as a key-of-set
column inside one batch; in the first session the wide kind touches it first, after the reopen the
key-of-set kind does -/
def exCmds : List (Cmd Bool Bool Bool) :=
  [.bnew 1, .bop 1 (.put 0 true false [9]), .bop 1 (.ins 0 true false), .get 0 true false,
   .commit 1, .get 0 true false, .scan 0 true, .reopen, .scan 0 true, .get 0 true false]

theorem exCmds_ok (be : Backend) (hbe : be = rocks ∨ be = fjall) : ∀ c ∈ exCmds, CmdOk be exEnc c := by
  intro c hc
  simp only [exCmds, List.mem_cons, List.mem_nil_iff, or_false] at hc
  rcases hbe with rfl | rfl <;>
  rcases hc with rfl | rfl | rfl | rfl | rfl | rfl | rfl | rfl | rfl | rfl <;>
    simp [CmdOk, OpOk, opFits, keyOver, rocks, fjall] <;> decide

/-- what a client sees of a specification observation (members listed over `[false, true]`) -/
def seeS : SObs Bool → Option (Option Bytes) × Option (List Bool)
  | .val v => (some v, none)
  | .members m => (none, some ([false, true].filter m))
  | _ => (none, none)

/-- … and of a model observation (member elements in encoded form) -/
def seeM : MObs → Option (Option Bytes) × Option (List (Option Bytes))
  | .val (some v) => (some v, none)
  | .members (some l) => (none, some l)
  | _ => (none, none)

/-- the specification of that sequence: invisible before the commit; after it the value under the wide
column 0 and the member `false` under the key-of-set column 0, also after the reopen -/
example : (srun (Spec.init : Spec Bool Bool Bool) exCmds).map seeS =
    [(none, none), (none, none), (none, none), (some none, none), (none, none),
     (some (some [9]), none), (none, some [false]), (none, none), (none, some [false]),
     (some (some [9]), none)] := by
  decide

/-- … and the byte-level model of both backends (cache keyed by (type id, kind)) answers exactly that -/
theorem dual_kind_model_answers :
    (mrun rocks exEnc {} exCmds).map seeM =
      [(none, none), (none, none), (none, none), (some none, none), (none, none),
       (some (some [9]), none), (none, some [some [0]]), (none, none), (none, some [some [0]]),
       (some (some [9]), none)] ∧
    (mrun fjall exEnc {} exCmds).map seeM = (mrun rocks exEnc {} exCmds).map seeM := by
  constructor <;> decide

/-- `kv_refines_spec` applies to the dual-kind sequence, on both backends -/
example : AllMatch exEnc exCmds (mrun rocks exEnc {} exCmds) (srun Spec.init exCmds) ∧
    AllMatch exEnc exCmds (mrun fjall exEnc {} exCmds) (srun Spec.init exCmds) :=
  ⟨kv_refines_spec rocks (Or.inl rfl) exEnc exSerOk exCmds (exCmds_ok _ (Or.inl rfl)),
   kv_refines_spec fjall (Or.inr rfl) exEnc exSerOk exCmds (exCmds_ok _ (Or.inr rfl))⟩

/-! ### HISTORICAL: the cache keyed by the type id alone (finding F19, before its repair) -/

/-- a decidable consequence of `AllMatch`: every point read of the model returns the specification's value -/
def getsAgree {ε : Type} : List MObs → List (SObs ε) → Bool
  | [], _ => true
  | _ :: _, [] => true
  | m :: ms, s :: ss =>
    (match m, s with
      | .val (some v), .val v' => decide (v = v')
      | .val none, .val _ => false
      | _, _ => true) && getsAgree ms ss

theorem getsAgree_of_allMatch {κ δ ε : Type} (E : Enc κ δ ε) :
    ∀ (cmds : List (Cmd κ δ ε)) (ms : List MObs) (ss : List (SObs ε)),
      AllMatch E cmds ms ss → getsAgree ms ss = true := by
  intro cmds
  induction cmds with
  | nil => intro ms ss h; cases ms <;> cases ss <;> simp_all [AllMatch, getsAgree]
  | cons c cs ih =>
    intro ms ss h
    cases ms with
    | nil => rfl
    | cons m ms =>
      cases ss with
      | nil => rfl
      | cons s ss =>
        obtain ⟨h1, h2⟩ := h
        simp only [getsAgree, ih ms ss h2, Bool.and_true]
        split
        · simpa [ObsMatch] using h1
        · simp [ObsMatch] at h1
        · rfl

/-- With the historical cache the SAME dual-kind sequence goes wrong on both backends: the member is
written into the wide column's family (the wide kind touched type id 0 first); after the reopen the scan
touches it first, binds the key-of-set family, and finds NO member; the point read that follows is then
served from the key-of-set family and finds NO value. -/
theorem f19_historical_answers :
    (mrun rocksF19 exEnc {} exCmds).map seeM =
      [(none, none), (none, none), (none, none), (some none, none), (none, none),
       (some (some [9]), none), (none, some [some [0]]), (none, none), (none, some []),
       (some none, none)] ∧
    (mrun fjallF19 exEnc {} exCmds).map seeM = (mrun rocksF19 exEnc {} exCmds).map seeM := by
  constructor <;> decide

/-- … so the historical model does NOT refine the specification on a dual-kind sequence (which is why
`CmdOk` used to demand one kind per type id) -/
theorem f19_historical_violates_spec :
    ¬ AllMatch exEnc exCmds (mrun rocksF19 exEnc {} exCmds) (srun Spec.init exCmds) ∧
    ¬ AllMatch exEnc exCmds (mrun fjallF19 exEnc {} exCmds) (srun Spec.init exCmds) := by
  constructor <;>
  · intro h
    have := getsAgree_of_allMatch _ _ _ _ h
    revert this
    decide

end examples

end QbiceVerif.Kv
