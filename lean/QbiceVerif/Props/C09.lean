/-
C09 — "Cached maps always return the latest write (read-your-writes)".

Models: `Model/WideCache.lean` (single-value and multi-type maps, `WideColumnCache`), one LTS per
cache key with atomic steps of the code; `Model/SetCache.lean` (key-to-set map, one task, atomic operations);
`Model/SetCacheConc.lean` (key-to-set map, any number of tasks, multi-step operations).
-/
import QbiceVerif.Lemmas.CacheWide
import QbiceVerif.Lemmas.CacheSet
import QbiceVerif.Lemmas.CacheWideConc
import QbiceVerif.Lemmas.CacheWideHandover
import QbiceVerif.Lemmas.SetCacheConcMain
import QbiceVerif.Lemmas.SetCacheConcOwner

namespace QbiceVerif.C09
open QbiceVerif

/-! ## single-value / multi-type maps -/

/-- "a read returns exactly the result of all inserts and removes issued before it – never an older
value from the backing store – no matter how small the cache is, what has been evicted, or how far
the background writer has got … remembered absence after a remove".

One foreground task; ANY schedule: the background events `commit` / `notify` (un-pin) / `evict`
(enabled whenever the entry is not pinned – i.e. every capacity ≥ 1 and every admission decision)
may be placed between any two atomic steps of the task, also inside a `get` (between probe, store
read and insert-if-vacant) and inside a write (between recording in the batch and updating the
cache).  Every value a `get` returns (a probe that hits; `none` = the key is absent) equals the value
of the last completed insert/remove of the key, or the initial store content `db0`. -/
theorem wide_refines_map (db0 : Option Nat) (sched : List WideCache.Ev) (s : WideCache.State)
    (outs : List (Option Nat × Option Nat))
    (h : WideCache.run (WideCache.init db0 1) sched = some (s, outs)) :
    ∀ p ∈ outs, p.1 = p.2 :=
  WideCache.run_outputs (WideCache.inv_init db0) h

/-- the same as an invariant of reachable states: whenever the task's probe hits, the entry holds
the latest value -/
theorem wide_refines_map_reach (db0 : Option Nat) (s s' : WideCache.State) (i : Nat) (r : Option Nat)
    (hr : WideCache.Reach (WideCache.init db0 1) s)
    (hp : WideCache.fire s (.probe i) = some (s', some r)) : r = s.latest := by
  obtain ⟨t, I⟩ := WideCache.inv_reach hr
  exact (WideCache.inv_step I hp).2 r rfl

/-- non-vacuity: store holds 100; insert 7, get (hit, pinned), submit, commit, un-pin, evict,
get (miss → store read → fill → hit), remove, get (remembered absence while the store still has 7),
submit, commit, un-pin, evict, get (store says absent). -/
example :
    (WideCache.run (WideCache.init (some 100) 1)
      [.begin 0, .put 0 (some 7), .cacheWrite 0, .probe 0, .submit 0, .commit, .notify, .evict,
       .probe 0, .sfEnter 0, .readDb 0, .fill 0, .sfLeave 0, .probe 0,
       .begin 0, .put 0 none, .cacheWrite 0, .probe 0, .submit 0, .commit, .notify, .evict,
       .probe 0, .sfEnter 0, .readDb 0, .fill 0, .sfLeave 0, .probe 0]).map (·.2)
      = some [(some 7, some 7), (some 7, some 7), (none, none), (none, none)] := by decide

/-- HISTORICAL witness (fixed in /repo 5fe68af).  "plus parallel readers/writers on shared keys": with two
foreground tasks the statement was FALSE for the code before the fix (finding F9).  Task 0's fill reads the store (100) and is overtaken by
task 1's write 7 – commit – un-pin – evict; the fill then installs 100, and every later `get` of
either task returns 100 although 7 was written (and is in the store). -/
theorem wide_refines_map_concurrent_fails :
    (WideCache.run (WideCache.init (some 100) 2)
      [.probe 0, .sfEnter 0, .readDb 0,
       .begin 1, .put 1 (some 7), .cacheWrite 1, .submit 1, .commit, .notify, .evict,
       .fill 0, .sfLeave 0, .probe 0, .probe 1]).map (·.2)
      = some [(some 100, some 7), (some 100, some 7)] := by decide

/-- "plus parallel readers/writers on shared keys" – the wide cache AS THE CODE IS (since /repo 5fe68af;
model `WideCacheR` with `fix = true`, the configuration the correspondence driver runs: a write-generation
counter bumped inside the entry-lock critical section of every insert/remove, loaded by `get` before it
probes, and compared by the fill before it installs the value it read from the store).

ANY number `n` of foreground tasks, each with its own open batch; ANY interleaving of their atomic steps
(begin / put / cacheWrite / submit / readGen / probe / single-flight enter, wake, leave / store read / fill)
with the background events commit / notify / evict (`runAny` accepts every enabled schedule); the only requirement
on the schedule is the EXPLICIT hypothesis `hordered` (`orderedSched`: every `cacheWrite` of the schedule is `ordered`
in the state in which it fires) – the usage assumption `ordered`: a write reaches the cache (`cacheWrite`) only from a batch whose epoch is larger than
that of every other uncommitted batch that has already written the key to the cache (without it even a
sequential pair of writes from two overlapping batches is applied to the store in the other order – see
`ordered_is_needed`).  Then every value a `get` returns equals `latest` at the moment of its final probe,
where `latest` is the value of the most recent `cacheWrite`.

This is linearizability of the map with linearisation points inside the operations: a write
linearises at its `cacheWrite` (between its invocation `put` and its return), a `get` at its final
probe; so a `get` follows, in the linearisation, every write that returned before it was issued, and
returns the last write before its point. -/
theorem wide_refines_map_concurrent (db0 : Option Nat) (n : Nat) (sched : List WideCacheR.Ev)
    (s : WideCacheR.State) (outs : List (Option Nat × Option Nat))
    (h : WideCacheR.runAny (WideCacheR.init true db0 n) sched = some (s, outs))
    (hordered : WideCacheR.orderedSched (WideCacheR.init true db0 n) sched = true) :
    ∀ p ∈ outs, p.1 = p.2 :=
  WideCacheR.run_outputs (WideCacheR.inv_init db0 n) (WideCacheR.run_of_runAny h hordered)

/-- The schedule hypothesis DISCHARGED for keys whose writers hand the key over: a writer opens its batch only
while no other writer of the key has a batch open (`exclusiveSched`: every enabled `begin` fires in a state in
which no task of this key's LTS has an open batch; the tasks of the per-key LTS are the writers and readers of that
key).  Then the batches that write the key are created one after the other, each after the previous one was
submitted, so every `cacheWrite` is `ordered` (`WideCacheR.exclusive_is_ordered`, proved) and the conclusion of
`wide_refines_map_concurrent` holds for EVERY schedule `runAny` accepts – any number of readers, any interleaving of
their fills with the writes and with commit / notify / evict.  This is the discipline of the engine for the keys
of every wide column, DirtySetColumn included: a dirty mark (k,c) is put at most once per timestamp, by the one dirty
walk that first reaches c, inside the publication block (batch) of the changed firewall / projection or of the input
session, and deleted only by k's own publication block, which starts after that walk has returned (read from the
engine sources, see the plugin's ASSUMPTIONS; not machine-checked against the engine). -/
theorem wide_refines_map_concurrent_handover (db0 : Option Nat) (n : Nat) (sched : List WideCacheR.Ev)
    (s : WideCacheR.State) (outs : List (Option Nat × Option Nat))
    (h : WideCacheR.runAny (WideCacheR.init true db0 n) sched = some (s, outs))
    (hexcl : WideCacheR.exclusiveSched (WideCacheR.init true db0 n) sched = true) :
    ∀ p ∈ outs, p.1 = p.2 :=
  wide_refines_map_concurrent db0 n sched s outs h
    (WideCacheR.exclusive_is_ordered sched _ (WideCacheR.ex_init db0 n) hexcl)

/-- non-vacuity: the dirty walk (task 1) puts the mark from its batch and submits; the owner of the edge (task 0) then
opens its batch and deletes the mark, while task 2 is inside a fill that read the store before either write; both
batches are committed and un-pinned, the entry evicted, and the readers see "absent". -/
example :
    WideCacheR.exclusiveSched (WideCacheR.init true none 3)
      [.readGen 2, .probe 2, .sfEnter 2, .readDb 2, .begin 1, .put 1 (some 1), .cacheWrite 1, .submit 1,
       .begin 0, .put 0 none, .fill 2, .cacheWrite 0, .sfLeave 2, .submit 0, .commit, .commit, .notify, .notify, .evict,
       .readGen 2, .probe 2, .sfEnter 2, .readDb 2, .fill 2, .sfLeave 2, .readGen 2, .probe 2] = true ∧
    (WideCacheR.runAny (WideCacheR.init true none 3)
      [.readGen 2, .probe 2, .sfEnter 2, .readDb 2, .begin 1, .put 1 (some 1), .cacheWrite 1, .submit 1,
       .begin 0, .put 0 none, .fill 2, .cacheWrite 0, .sfLeave 2, .submit 0, .commit, .commit, .notify, .notify, .evict,
       .readGen 2, .probe 2, .sfEnter 2, .readDb 2, .fill 2, .sfLeave 2, .readGen 2, .probe 2]).map (·.2)
      = some [(none, none)] := by decide

/-- the same as an invariant of the states reachable by ordered schedules (`ReachOrdered`: every step that is a
`cacheWrite` satisfies `ordered`) -/
theorem wide_refines_map_concurrent_reach (db0 : Option Nat) (n : Nat) (s s' : WideCacheR.State) (i : Nat)
    (r : Option Nat) (hr : WideCacheR.ReachOrdered (WideCacheR.init true db0 n) s)
    (hp : WideCacheR.fire s (.probe i) = some (s', some r)) : r = s.latest :=
  ((WideCacheR.inv_step (WideCacheR.inv_reach hr) (by intro t ht; cases ht) hp).2 r rfl).1

/-- non-vacuity, three tasks: task 0 is inside a fill (store read done) while task 1 writes 7, which is
committed, un-pinned and evicted, and task 2 waits on the single flight; task 0's fill is refused by the
generation check, task 2 refills; later a remove by task 1 is seen by task 0 as remembered absence. -/
example :
    (WideCacheR.run (WideCacheR.init true (some 100) 3)
      [.readGen 0, .probe 0, .sfEnter 0, .readDb 0,
       .begin 1, .put 1 (some 7), .readGen 2, .probe 2, .sfEnter 2, .cacheWrite 1, .submit 1, .commit, .notify, .evict,
       .fill 0, .sfLeave 0, .sfWake 2, .readGen 2, .probe 2, .sfEnter 2, .readDb 2, .fill 2, .sfLeave 2,
       .readGen 2, .probe 2, .readGen 0, .probe 0, .begin 1, .put 1 none, .cacheWrite 1, .readGen 0, .probe 0]).map (·.2)
      = some [(some 7, some 7), (some 7, some 7), (none, none)] := by decide

/-- HISTORICAL witness: the machine `WideCacheR` with the generation check switched off (`fix = false`) is the
code before 5fe68af and shows finding F9 on the schedule of `wide_refines_map_concurrent_fails` (plus the no-op loads) -/
theorem wide_concurrent_unrepaired_fails :
    (WideCacheR.run (WideCacheR.init false (some 100) 2)
      [.readGen 0, .probe 0, .sfEnter 0, .readDb 0,
       .begin 1, .put 1 (some 7), .cacheWrite 1, .submit 1, .commit, .notify, .evict,
       .fill 0, .sfLeave 0, .readGen 0, .probe 0, .readGen 1, .probe 1]).map (·.2)
      = some [(some 100, some 7), (some 100, some 7)] := by decide

/-- the assumption `ordered` cannot be dropped (it is a usage constraint of the write-behind design, for the
code as it is): batch 0 (task 0) and batch 1
(task 1) are open together; task 1 writes 2, then task 0 writes 1 (sequentially, both return); the
store applies the batches in epoch order, so after commit, un-pin and eviction a `get` returns 2
although 1 was written last. -/
theorem ordered_is_needed :
    (WideCacheR.runAny (WideCacheR.init true none 2)
      [.begin 0, .begin 1, .put 1 (some 2), .cacheWrite 1, .put 0 (some 1), .cacheWrite 0,
       .submit 0, .submit 1, .commit, .commit, .notify, .notify, .evict,
       .readGen 0, .probe 0, .sfEnter 0, .readDb 0, .fill 0, .sfLeave 0, .readGen 0, .probe 0]).map (·.2)
      = some [(some 2, some 1)] := by decide

/-! ## key-to-set map -/

/-- "the key-to-set maps … a read returns exactly the result of all inserts and removes issued before
it … no matter … what has been evicted, or how far the background writer has got … sets that spill
past the in-memory threshold, and reads racing with flushes".

The code AS IT IS (configuration `repaired` of the model: since /repo commits d9a4d81 and b91d22f
`get_snapshot` lets the chronologically last staged operation on an element win and the `Spilled`
iterator keeps draining; the correspondence check runs this configuration).  One foreground
task whose operations are atomic; ANY placement of `commit`, `notify` (flush up to an epoch),
eviction of the cached set (always enabled) and of the staging log (when not dirty) between them;
every spill threshold `thr`; every initial store image.  Every `get` returns, as a set, exactly the
elements that the inserts/removes issued so far leave in the set. -/
theorem set_refines_map (thr : Nat) (db0 : List Nat) (sched : List SetCache.Ev) (s : SetCache.State)
    (outs : List (List Nat × List Nat))
    (h : SetCache.run (SetCache.init SetCache.repaired thr db0) sched = some (s, outs)) :
    ∀ p ∈ outs, ∀ x, x ∈ p.1 ↔ x ∈ p.2 :=
  SetCache.run_outputs (SetCache.inv_init _ _ _) rfl h

/-- non-vacuity for `set_refines_map` (threshold 4, store {1..6}): spilled fetch with a staged removal INSIDE the
materialised prefix and a staged insert; insert/remove/insert of one element over three batches; commit, flush,
evictions, refetch; shrinking below the threshold. -/
example :
    (SetCache.run (SetCache.init SetCache.repaired 4 [1, 2, 3, 4, 5, 6])
      [.begin, .ins 9, .rem 2, .get, .submit, .begin, .rem 9, .submit, .begin, .ins 9, .get, .commit, .evictEntry, .get,
       .notify, .submit, .commit, .commit, .notify, .notify, .evictEntry, .evictLog, .get,
       .begin, .rem 1, .rem 3, .get]).map (fun r => r.2.map (fun p => (p.1.eraseDups, p.2)))
      = some [([1, 3, 4, 5, 6, 9], [1, 3, 4, 5, 6, 9]), ([1, 3, 4, 5, 6, 9], [1, 3, 4, 5, 6, 9]),
              ([1, 3, 4, 5, 6, 9], [1, 3, 4, 5, 6, 9]), ([1, 3, 4, 5, 6, 9], [1, 3, 4, 5, 6, 9]),
              ([4, 5, 6, 9], [4, 5, 6, 9])] := by decide

/-- "reads racing with flushes": a `get` that misses the cache, split into its three phases as the code
runs them – staging snapshot (`get_entry`), THEN store scan (`fetch_entry`), then overlay of that snapshot
and install.  `s0` is the state in which snapshot and scan are taken (any reachable state in which the set is
not cached), `s1` the state at install time after ANY run of background events in between (commits,
`FlushUpTo` notifications, evictions – in particular commit AND flush of a batch that was staged at `s0`).
The set returned – and the set cached for all later reads – is exactly the true set; in particular it
contains the effect of every batch staged before the read, whether its commit and flush fell before, inside
or after the read. -/
theorem set_get_snapshot_before_scan (thr : Nat) (db0 : List Nat) (s0 s1 : SetCache.State)
    (hr : SetCache.Reach (SetCache.init SetCache.repaired thr db0) s0) (hmiss : s0.entry = none)
    (hbg : SetCache.BgSteps s0 s1) :
    (∀ x, x ∈ (SetCache.getInstall s1 (SetCache.stagingSnapshot s0) s0.db).2 ↔ x ∈ s1.truth) ∧
    (∀ x, x ∈ (SetCache.get (SetCache.getInstall s1 (SetCache.stagingSnapshot s0) s0.db).1).2 ↔ x ∈ s1.truth) := by
  obtain ⟨I, hc⟩ := SetCache.inv_reach hr
  obtain ⟨h1, h2⟩ := SetCache.get_across_background I hc hmiss hbg
  refine ⟨h1, ?_⟩
  have hcfg : (SetCache.getInstall s1 (SetCache.stagingSnapshot s0) s0.db).1.cfg = SetCache.repaired := by
    have hc1 := (SetCache.bgSteps_inv hbg I hc).2.1
    unfold SetCache.getInstall
    simp only []
    split <;> (split <;> simp_all)
  have htr : (SetCache.getInstall s1 (SetCache.stagingSnapshot s0) s0.db).1.truth = s1.truth := by
    unfold SetCache.getInstall
    simp only []
    split <;> (split <;> simp_all)
  intro x
  rw [← htr]
  exact (SetCache.get_correct h2 hcfg).1 x

/-- non-vacuity: store {1,2}; a batch inserting 9 and removing 1 is staged and submitted; the read takes its
snapshot and scans the store; the batch is committed and flushed (log emptied); the read then installs. -/
example :
    (do
      let (s, _) ← SetCache.run (SetCache.init SetCache.repaired 1024 [1, 2]) [.begin, .ins 9, .rem 1, .submit]
      let (s1, _) ← SetCache.run s [.commit, .notify]
      let (s2, out) := SetCache.getInstall s1 (SetCache.stagingSnapshot s) s.db
      pure (out, (SetCache.get s2).2, s1.db, SetCache.stagingSnapshot s1, s1.truth)
        : Option (List Nat × List Nat × List Nat × SetCache.Snapshot × List Nat))
      = some ([2, 9], [2, 9], [2, 9], ⟨[], []⟩, [2, 9]) := by decide

/-- the ORDER matters: taking the staging snapshot AFTER the store scan (instead of before) loses a batch
whose commit and flush both fall between the scan and the snapshot: the scan read the store without the batch
and the late snapshot no longer holds its operations; the wrong set {1,2} is returned and cached although 9
was inserted (and is in the store).  Same history as the example above. -/
theorem set_snapshot_after_scan_loses_batch :
    (do
      let (s, _) ← SetCache.run (SetCache.init SetCache.repaired 1024 [1, 2]) [.begin, .ins 9, .submit]
      let scanned := s.db
      let (s1, _) ← SetCache.run s [.commit, .notify]
      let (s2, out) := SetCache.getInstall s1 (SetCache.stagingSnapshot s1) scanned
      pure (out, (SetCache.get s2).2, s2.truth) : Option (List Nat × List Nat × List Nat))
      = some ([1, 2], [1, 2], [1, 2, 9]) := by decide

/-- HISTORICAL witness (fixed in /repo 73760b5).  "reads racing with flushes … parallel readers/writers":
lifting the atomicity of the set cache's operations FAILED for the code before the fix (finding F50, reproduced
on the real code with two threads; the two-thread scenario runs clean on every check since the fix).
`get` split at its two critical sections: the reader takes its staging snapshot and misses the cache
(`getSnap`); the writer inserts 9 (staged in the log; the set is not cached, nothing else happens); the
reader then builds the set from the store and its OLD snapshot and installs it (`getFetch`).  The
installed in-memory set lacks 9, and every later `get` returns it. -/
theorem set_concurrent_get_insert_fails :
    (do
      let s0 := SetCache.init SetCache.repaired 1024 [1, 2]
      let sn ← SetCache.getSnap s0
      let (s1, _) ← SetCache.fire s0 .begin
      let (s2, _) ← SetCache.fire s1 (.ins 9)
      let (s3, _) := SetCache.getFetch s2 sn
      let (s4, out) := SetCache.get s3
      pure (out, s4.truth) : Option (List Nat × List Nat)) = some ([1, 2], [1, 2, 9]) := by decide


/-! ## key-to-set map, concurrent foreground tasks -/

/-- "plus parallel readers/writers on shared keys" – the key-to-set cache AS THE CODE IS (since /repo 73760b5;
model `SetCacheConc` with `fix = true`: `get` loads `write_generation` before it takes its staging snapshot and
caches the set it fetched only if the generation is unchanged; `insert`/`remove` bump it after staging the
operation and before they look for a cached set to update).

ANY number `n` of foreground tasks, each with its own open batch; ANY interleaving of the atomic steps of their
operations (`get`: invocation / generation load / staging snapshot / cache lookup / waiter retry / store scan /
build + insert-if-vacant-and-generation-unchanged / read of the entry it holds – the `Spilled` pieces, the
in-memory set, or a second scan merged with the snapshot; `insert`, `remove`: record in the batch + append to the
staging log / generation bump / cache lookup / in-place update of the entry it got, evicted or not / downgrade
to `TooLarge`) with the background events commit / `FlushUpTo` notification / eviction of the cached set /
generation bumps by writes to other keys (`runAny` accepts every enabled schedule); ANY spill threshold and store
image.  The only requirement on the schedule is the EXPLICIT hypothesis `hordered` (`orderedSched`: every `stage` of
the schedule satisfies `orderedElem` in the state in which it fires) – the usage assumption on `stage` steps: two writes of the SAME ELEMENT never overlap, and
come from batches in epoch order (writes of different elements of the key are unconstrained – this is WEAKER
than the wide cache's `ordered`, and it is what the engine does: the elements of a backward-edge set are written
by their own query's task); it cannot be dropped: `set_overlap_is_needed`, `set_epoch_order_is_needed`.

Conclusion, for every completed `get` of any task: the returned set lies between the ghost bounds of the
operation's interval, `must ⊆ out ⊆ may`, where at the invocation `must` = the abstract set minus the elements
some write in flight is working on, `may` = the abstract set plus those elements, and every write of `x` staged
during the interval removes `x` from `must` and adds it to `may` (the abstract set `truth` changes at `stage`; a
write in flight leaves its element unconstrained even when it happens to be idempotent).
That is: ELEMENT BY ELEMENT the `get` is linearizable – membership of `x` in the result is the membership of `x`
in the abstract set at some point of the interval, under one of the linearisation orders of the writes of `x`
that overlap it; in particular a `get` that overlaps no write of the key returns exactly the abstract set
(`must = may = truth`), whatever fetches, installs, evictions, commits and flushes of other tasks it races with,
and every write that returned before the `get` was invoked is in the result.

The result as a WHOLE need not be the abstract set at one instant (the staging snapshot and the store scan of a
fetch are taken at two instants): `set_whole_set_not_atomic`. -/
theorem set_refines_map_concurrent (thr : Nat) (db0 : List Nat) (n : Nat) (sched : List SetCacheConc.Ev)
    (s : SetCacheConc.State) (outs : List SetCacheConc.Out)
    (h : SetCacheConc.runAny (SetCacheConc.init true thr db0 n) sched = some (s, outs))
    (hordered : SetCacheConc.orderedSched (SetCacheConc.init true thr db0 n) sched = true) :
    ∀ o ∈ outs, ∀ x, (x ∈ o.must → x ∈ o.out) ∧ (x ∈ o.out → x ∈ o.may) :=
  SetCacheConc.run_outputs (SetCacheConc.inv_init true thr db0 n) rfl sched s outs (SetCacheConc.run_of_runAny h hordered)

/-- The schedule hypothesis DISCHARGED for the engine's write discipline.  In the engine the element of a
key-of-set column is the query that is being published (`backward_edges.insert(callee, self.query_id(), tx)`), a
query has one publication at a time, and the batch is created inside the publication – in the model: every element
is written by ONE FIXED TASK (`ownedSched owner sched`: each `stage t x _` of the schedule has `owner x = t`), a
task having one open batch at a time and batch epochs being creation order (both built into the model's `begin`).
Then every `stage` is `orderedElem` (`SetCacheConc.owned_is_ordered`, proved), and the conclusion of
`set_refines_map_concurrent` holds with NO assumption on the interleaving: any number of tasks, any schedule `runAny`
accepts.  (That the engine follows this discipline was read from database.rs / slow_path.rs, see the plugin's
ASSUMPTIONS; it is not machine-checked against the engine.) -/
theorem set_refines_map_concurrent_owned (thr : Nat) (db0 : List Nat) (n : Nat) (owner : Nat → Nat)
    (sched : List SetCacheConc.Ev) (s : SetCacheConc.State) (outs : List SetCacheConc.Out)
    (h : SetCacheConc.runAny (SetCacheConc.init true thr db0 n) sched = some (s, outs))
    (howned : SetCacheConc.ownedSched owner sched = true) :
    ∀ o ∈ outs, ∀ x, (x ∈ o.must → x ∈ o.out) ∧ (x ∈ o.out → x ∈ o.may) :=
  set_refines_map_concurrent thr db0 n sched s outs h
    (SetCacheConc.owned_is_ordered sched _ (SetCacheConc.inv_init true thr db0 n) rfl (SetCacheConc.own_init owner true thr db0 n) howned)

/-- non-vacuity: elements ≥ 8 belong to task 1, the others to task 0; both write, in anti-epoch order across
elements, overlapping each other and a reader (task 2) -/
example :
    SetCacheConc.ownedSched (fun x => if x ≥ 8 then 1 else 0)
      [.begin 0, .begin 1, .gStart 2, .gLoad 2, .gSnap 2, .stage 1 9 true, .stage 0 2 false, .bump 0, .gLookup 2, .bump 1,
       .wLookup 1, .gScan 2, .wLookup 0, .gInstall 2, .gRead 2] = true ∧
    (SetCacheConc.runAny (SetCacheConc.init true 1024 [1, 2] 3)
      [.begin 0, .begin 1, .gStart 2, .gLoad 2, .gSnap 2, .stage 1 9 true, .stage 0 2 false, .bump 0, .gLookup 2, .bump 1,
       .wLookup 1, .gScan 2, .wLookup 0, .gInstall 2, .gRead 2]).map (·.2) = some [⟨[1, 2], [1], [1, 2, 9]⟩] := by decide

/-- the same as a statement about the states reachable by ordered schedules (`ReachOrdered`: every step that is a
`stage` satisfies `orderedElem`): whenever a task's `get` completes,
what it returns is within its bounds -/
theorem set_refines_map_concurrent_reach (thr : Nat) (db0 : List Nat) (n : Nat) (s s' : SetCacheConc.State) (t : Nat)
    (o : SetCacheConc.Out) (hr : SetCacheConc.ReachOrdered (SetCacheConc.init true thr db0 n) s)
    (hp : SetCacheConc.fire s (.gRead t) = some (s', some o)) :
    ∀ x, (x ∈ o.must → x ∈ o.out) ∧ (x ∈ o.out → x ∈ o.may) :=
  SetCacheConc.read_ok (SetCacheConc.inv_reach hr).1 hp

/-- "a read returns exactly the result of all inserts and removes issued before it", concurrent form: a `get` of
task `t` that is invoked in a state reachable by ordered steps (`ReachOrdered`) in which no write of the key is in flight (`inflight s = []`: every
earlier write has returned) and during which no write of the key is staged – while ANY other steps of ANY tasks
run in between (`mid`: this and other tasks' fetches, installs, waiter retries, commits, flushes,
evictions, generation bumps by other keys, batches opened and submitted) – returns EXACTLY the abstract set. -/
theorem set_get_without_overlap_exact (thr : Nat) (db0 : List Nat) (n t : Nat) (s s1 s2 s3 : SetCacheConc.State)
    (o1 : Option SetCacheConc.Out) (o : SetCacheConc.Out) (mid : List SetCacheConc.Ev)
    (hr : SetCacheConc.ReachOrdered (SetCacheConc.init true thr db0 n) s) (hq : SetCacheConc.inflight s = [])
    (h1 : SetCacheConc.fire s (.gStart t) = some (s1, o1)) (h2 : SetCacheConc.runQuiet t s1 mid = some s2)
    (h3 : SetCacheConc.fire s2 (.gRead t) = some (s3, some o)) : ∀ x, x ∈ o.out ↔ x ∈ s.truth :=
  SetCacheConc.quiet_get_exact hr hq h1 h2 h3

/-- non-vacuity of the hypotheses: the second `get` of the F50 schedule (task 0 reads again after task 1's insert
returned; in between task 1's batch is submitted, committed and flushed and the set evicted) -/
example :
    (do
      let (s, _) ← SetCacheConc.run (SetCacheConc.init true 1024 [1, 2] 2)
        [.gStart 0, .gLoad 0, .gSnap 0, .gLookup 0, .gScan 0, .begin 1, .stage 1 9 true, .bump 1, .wLookup 1, .gInstall 0, .gRead 0]
      let (s1, _) ← SetCacheConc.fire s (.gStart 0)
      let s2 ← SetCacheConc.runQuiet 0 s1 [.gLoad 0, .gSnap 0, .submit 1, .commit, .gLookup 0, .gScan 0, .notify, .gInstall 0]
      let (_, o) ← SetCacheConc.fire s2 (.gRead 0)
      pure (decide (SetCacheConc.inflight s = []), o.map (·.out), s.truth) : Option (Bool × Option (List Nat) × List Nat))
      = some (true, some [1, 2, 9], [1, 2, 9]) := by decide

/-- non-vacuity, three tasks, store {1,2}: task 0 fetches (snapshot, miss, scan) while task 1 inserts 9 (staged,
generation bumped, nothing cached); task 0's install is refused by the generation check and it returns {1,2}
(9 is in `may` only: the insert overlaps the read); task 2 then reads: fetch, install, {1,2,9} with `must = may`;
task 1 removes 2 in place in the cached set; the batch is committed and flushed, the set evicted; task 0 reads
{1,9} from the store alone. -/
example :
    (SetCacheConc.run (SetCacheConc.init true 1024 [1, 2] 3)
      [.gStart 0, .gLoad 0, .gSnap 0, .gLookup 0, .gScan 0,
       .begin 1, .stage 1 9 true, .bump 1, .wLookup 1,
       .gInstall 0, .gRead 0,
       .gStart 2, .gLoad 2, .gSnap 2, .gLookup 2, .gScan 2, .gInstall 2, .gRead 2,
       .stage 1 2 false, .bump 1, .wLookup 1, .wApply 1, .gStart 2, .gLoad 2, .gSnap 2, .gLookup 2, .gRead 2,
       .submit 1, .commit, .notify, .evict,
       .gStart 0, .gLoad 0, .gSnap 0, .gLookup 0, .gScan 0, .gInstall 0, .gRead 0]).map (·.2)
      = some [⟨[1, 2], [1, 2], [1, 2, 9]⟩, ⟨[1, 2, 9], [1, 2, 9], [1, 2, 9]⟩, ⟨[1, 9], [1, 9], [1, 9]⟩,
              ⟨[1, 9], [1, 9], [1, 9]⟩] := by decide

/-- non-vacuity across the threshold (thr = 2, store {1,2,3}) with two writers on DIFFERENT elements whose batches
are staged against the epoch order (allowed), a spilled fetch, a streaming read of the `TooLarge` entry, and an
in-place update of an entry that has been evicted in between (task 1 holds the old `Arc`). -/
example :
    (SetCacheConc.run (SetCacheConc.init true 2 [1, 2, 3] 3)
      [.begin 0, .begin 1, .stage 1 7 true, .bump 1, .wLookup 1, .stage 0 2 false, .bump 0, .wLookup 0,
       .gStart 2, .gLoad 2, .gSnap 2, .gLookup 2, .gScan 2, .gInstall 2, .gRead 2,
       .gStart 2, .gLoad 2, .gSnap 2, .gLookup 2, .gRead 2,
       .submit 0, .commit, .notify, .evict,
       .gStart 2, .gLoad 2, .gSnap 2, .gLookup 2, .gScan 2, .gInstall 2, .gRead 2,
       .stage 1 8 true, .bump 1, .wLookup 1, .evict, .wApply 1,
       .gStart 2, .gLoad 2, .gSnap 2, .gLookup 2, .gScan 2, .gInstall 2, .gRead 2]).map
        (fun r => r.2.map (fun o => (o.out, o.must == o.may)))
      = some [([1, 3, 7], true), ([1, 3, 7], true), ([1, 3, 7], true), ([1, 3, 7, 8], true)] := by decide

/-- HISTORICAL witness (the code BEFORE /repo 73760b5, finding F50): the same machine with the generation check
switched off (`fix = false`) violates the statement.  Task 0's fetch took its snapshot and scanned the store
before task 1 staged the insert of 9 and found nothing cached; the fetch then installs {1,2}; a later `get`, which
overlaps no write, returns {1,2} although its `must` bound holds 9. -/
theorem set_concurrent_unrepaired_fails :
    (SetCacheConc.run (SetCacheConc.init false 1024 [1, 2] 2)
      [.gStart 0, .gLoad 0, .gSnap 0, .gLookup 0, .gScan 0,
       .begin 1, .stage 1 9 true, .bump 1, .wLookup 1,
       .gInstall 0, .gRead 0,
       .gStart 0, .gLoad 0, .gSnap 0, .gLookup 0, .gRead 0]).map (·.2)
      = some [⟨[1, 2], [1, 2], [1, 2, 9]⟩, ⟨[1, 2], [1, 2, 9], [1, 2, 9]⟩] := by decide

/-- the code as it is on the same schedule: the install is refused, the later `get` fetches again -/
example :
    (SetCacheConc.run (SetCacheConc.init true 1024 [1, 2] 2)
      [.gStart 0, .gLoad 0, .gSnap 0, .gLookup 0, .gScan 0,
       .begin 1, .stage 1 9 true, .bump 1, .wLookup 1,
       .gInstall 0, .gRead 0,
       .gStart 0, .gLoad 0, .gSnap 0, .gLookup 0, .gScan 0, .gInstall 0, .gRead 0]).map (·.2)
      = some [⟨[1, 2], [1, 2], [1, 2, 9]⟩, ⟨[1, 2, 9], [1, 2, 9], [1, 2, 9]⟩] := by decide

/-- `orderedElem`, first half, cannot be dropped: two writes of ONE element that overlap.  The set {} is cached;
task 0 (batch 0) stages insert 5, task 1 (batch 1) stages remove 5 – the log, the batches and the store say
"absent"; task 1 updates the cached set first, task 0 second: the cached set says "present" for good. -/
theorem set_overlap_is_needed :
    (SetCacheConc.runAny (SetCacheConc.init true 1024 [] 3)
      [.gStart 2, .gLoad 2, .gSnap 2, .gLookup 2, .gScan 2, .gInstall 2, .gRead 2,
       .begin 0, .begin 1, .stage 0 5 true, .stage 1 5 false, .bump 1, .wLookup 1, .wApply 1,
       .bump 0, .wLookup 0, .wApply 0,
       .gStart 2, .gLoad 2, .gSnap 2, .gLookup 2, .gRead 2]).map (·.2)
      = some [⟨[], [], []⟩, ⟨[5], [], []⟩] := by decide

/-- `orderedElem`, second half, cannot be dropped: two SEQUENTIAL writes of one element from batches in
anti-epoch order.  Batch 1 inserts 5 (returns), then batch 0 removes 5 (returns): the last write says "absent",
but the staging snapshot sorts by epoch (and the store applies batch 0 before batch 1): a `get` returns {5}. -/
theorem set_epoch_order_is_needed :
    (SetCacheConc.runAny (SetCacheConc.init true 1024 [] 2)
      [.begin 0, .begin 1, .stage 1 5 true, .bump 1, .wLookup 1, .stage 0 5 false, .bump 0, .wLookup 0,
       .gStart 0, .gLoad 0, .gSnap 0, .gLookup 0, .gScan 0, .gInstall 0, .gRead 0]).map (·.2)
      = some [⟨[5], [], []⟩] ∧
    (SetCacheConc.run (SetCacheConc.init true 1024 [] 2)
      [.begin 0, .begin 1, .stage 1 5 true, .bump 1, .wLookup 1, .stage 0 5 false]) = none := by decide

/-- writes of DIFFERENT elements may come in any epoch order and overlap (accepted by `run`) -/
example :
    (SetCacheConc.run (SetCacheConc.init true 1024 [] 3)
      [.begin 0, .begin 1, .stage 1 5 true, .stage 0 6 true, .bump 0, .bump 1, .wLookup 1, .wLookup 0,
       .gStart 2, .gLoad 2, .gSnap 2, .gLookup 2, .gScan 2, .gInstall 2, .gRead 2]).map (·.2)
      = some [⟨[5, 6], [5, 6], [5, 6]⟩] := by decide

/-- The result of a `get` as a WHOLE is not the abstract set at one instant, even with a single writer: task 1
inserts 1; task 0 takes its staging snapshot (added = {1}) and misses the cache; task 1 removes 1, inserts 2,
submits, the batch is committed; task 0 scans the store ({2}) and overlays its snapshot: {1,2}.  The abstract set
went {} → {1} → {} → {2}.  Element by element the answer is admissible (both elements were written during the
read), which is all `set_refines_map_concurrent` claims. -/
theorem set_whole_set_not_atomic :
    (SetCacheConc.run (SetCacheConc.init true 1024 [] 2)
      [.begin 1, .stage 1 1 true, .bump 1, .wLookup 1,
       .gStart 0, .gLoad 0, .gSnap 0, .gLookup 0,
       .stage 1 1 false, .bump 1, .wLookup 1, .stage 1 2 true, .bump 1, .wLookup 1, .submit 1, .commit,
       .gScan 0, .gInstall 0, .gRead 0]).map (·.2) = some [⟨[1, 2], [], [1, 2]⟩] ∧
    [1, 2] ∉ SetCacheConc.truths (SetCacheConc.init true 1024 [] 2)
      [.begin 1, .stage 1 1 true, .bump 1, .wLookup 1,
       .gStart 0, .gLoad 0, .gSnap 0, .gLookup 0,
       .stage 1 1 false, .bump 1, .wLookup 1, .stage 1 2 true, .bump 1, .wLookup 1, .submit 1, .commit,
       .gScan 0, .gInstall 0, .gRead 0] := by decide

/-- HISTORICAL (the code BEFORE the fixes of F10 and F17, configuration `asIs` of the model): what
that code did guarantee.  Along any schedule on which every `get` is
issued in a state satisfying `getSafe` (the staging log of the key holds at most one operation per
element; a read that fetches a set whose store image exceeds the threshold has no staged removal
among the first `thr+1` store elements), every `get` returns the true set – across the threshold,
whatever has been evicted, wherever commits and flushes fall. -/
theorem set_refines_map_asis_partial (thr : Nat) (db0 : List Nat) (s : SetCache.State)
    (hr : SetCache.ReachSafe (SetCache.init SetCache.asIs thr db0) s)
    (hs : SetCache.getSafe s = true) :
    ∀ x, x ∈ (SetCache.get s).2 ↔ x ∈ s.truth := by
  obtain ⟨I, hc⟩ := SetCache.inv_reachSafe hr
  exact (SetCache.get_correct_asis I hc hs).1

/-- non-vacuity of the hypothesis and of the conclusion: threshold 4, store {1..6}; a spilled fetch
with a staged insert and a staged removal beyond the materialised prefix; commit, flush, eviction,
refetch; shrinking below the threshold and reading the in-memory form.  (The third read streams the store, which
already has the committed 9, and appends the staged 9 again: reads are compared as sets.) -/
example :
    (SetCache.run (SetCache.init SetCache.asIs 4 [1, 2, 3, 4, 5, 6])
      [.begin, .ins 9, .rem 6, .get, .submit, .get, .commit, .get, .notify, .evictEntry, .get,
       .begin, .rem 1, .rem 2, .submit, .commit, .notify, .evictEntry, .evictLog, .get,
       .begin, .rem 3, .get]).map (·.2)
      = some [([1, 2, 3, 4, 5, 9], [1, 2, 3, 4, 5, 9]), ([1, 2, 3, 4, 5, 9], [1, 2, 3, 4, 5, 9]),
              ([1, 2, 3, 4, 5, 9, 9], [1, 2, 3, 4, 5, 9]), ([1, 2, 3, 4, 5, 9], [1, 2, 3, 4, 5, 9]),
              ([3, 4, 5, 9], [3, 4, 5, 9]), ([4, 5, 9], [4, 5, 9])] := by decide

/-- the state in which the last `get` of the example above is issued satisfies `getSafe` -/
example :
    ((SetCache.run (SetCache.init SetCache.asIs 4 [1, 2, 3, 4, 5, 6])
      [.begin, .ins 9, .rem 6]).map (fun r => SetCache.getSafe r.1)) = some true := by decide

/-- HISTORICAL witness (fixed in /repo d9a4d81).  For the code before the fix the unrestricted
statement was FALSE (finding F10, first form): insert,
remove, insert of one element in three uncommitted batches, set not cached: the staging log's heap
order is I₃ I₁ R₂, the second insert is absorbed, the remove cancels the first – the element reads as
absent.  The shortest such history (9 events). -/
theorem set_asis_fails_heap_order :
    (SetCache.run (SetCache.init SetCache.asIs 1024 [])
      [.begin, .ins 5, .submit, .begin, .rem 5, .submit, .begin, .ins 5, .get]).map (·.2)
      = some [([], [5])] := by decide

/-- HISTORICAL witness (fixed in d9a4d81).  F10, second form (chronological order does not help): the store has 5; insert 5 (idempotent) and
remove 5 in one batch cancel each other, the read falls back to the store and returns 5. -/
theorem set_asis_fails_cancel :
    (SetCache.run (SetCache.init SetCache.asIs 1024 [5]) [.begin, .ins 5, .rem 5, .get]).map (·.2)
      = some [([5], [])] := by decide

/-- HISTORICAL witness (fixed in d9a4d81).  F10, third form: insert in batch 0, remove in batch 1, batch 0 committed (its operation stays in the
log: `FlushUpTo` pops from a max-heap): the pair cancels and the store image – which now has 5 – wins. -/
theorem set_asis_fails_committed_op :
    (SetCache.run (SetCache.init SetCache.asIs 1024 [])
      [.begin, .ins 5, .submit, .begin, .rem 5, .submit, .commit, .get]).map (·.2)
      = some [([5], [])] := by decide

/-- HISTORICAL witness (fixed in /repo b91d22f).  Finding F17 (threshold 4 instead of 1024): store {1..5} is fetched with a staged removal of 3; the
`Spilled` iterator meets 3, falls through to the exhausted rest iterator and the empty additions and
ends the iteration: {1,2} instead of {1,2,4,5}. -/
theorem set_asis_fails_spilled :
    (SetCache.run (SetCache.init SetCache.asIs 4 [1, 2, 3, 4, 5]) [.begin, .rem 3, .get]).map (·.2)
      = some [([1, 2], [1, 2, 4, 5])] := by decide

/-- the code as it is now on the same four histories -/
example :
    (SetCache.run (SetCache.init SetCache.repaired 1024 [])
        [.begin, .ins 5, .submit, .begin, .rem 5, .submit, .begin, .ins 5, .get]).map (·.2) = some [([5], [5])] ∧
    (SetCache.run (SetCache.init SetCache.repaired 1024 [5]) [.begin, .ins 5, .rem 5, .get]).map (·.2)
        = some [([], [])] ∧
    (SetCache.run (SetCache.init SetCache.repaired 1024 [])
        [.begin, .ins 5, .submit, .begin, .rem 5, .submit, .commit, .get]).map (·.2) = some [([], [])] ∧
    (SetCache.run (SetCache.init SetCache.repaired 4 [1, 2, 3, 4, 5]) [.begin, .rem 3, .get]).map (·.2)
        = some [([1, 2, 4, 5], [1, 2, 4, 5])] := by decide

end QbiceVerif.C09
