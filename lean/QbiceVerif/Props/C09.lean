/-
C09 — "Cached maps always return the latest write (read-your-writes)".

Models: `Model/WideCache.lean` (single-value and multi-type maps, `WideColumnCache`), one LTS per
cache key with atomic steps of the code; `Model/SetCache.lean` (key-to-set map).
-/
import QbiceVerif.Lemmas.CacheWide

namespace QbiceVerif.C09
open QbiceVerif

/-! ## single-value / multi-type maps -/

/-- "a read returns exactly the result of all inserts and removes issued before it – never an older
value from the backing store – no matter how small the cache is, what has been evicted, or how far
the background writer has got … remembered absence after a remove".

One foreground task; ANY schedule: the background events `commit` / `notify` (un-pin) / `evict`
(enabled whenever the entry is not pinned – i.e. every capacity ≥ 1 and every admission decision)
may be placed between any two atomic steps of the task, also inside a `get` (between probe, store
read and insert-if-vacant) and inside a write (between recording in the batch and updating the
cache).  Every value a `get` returns (a probe that hits; `none` = the key is absent) equals the value
of the last completed insert/remove of the key, or the initial store content `db0`. -/
theorem wide_refines_map (db0 : Option Nat) (sched : List WideCache.Ev) (s : WideCache.State)
    (outs : List (Option Nat × Option Nat))
    (h : WideCache.run (WideCache.init db0 1) sched = some (s, outs)) :
    ∀ p ∈ outs, p.1 = p.2 :=
  WideCache.run_outputs (WideCache.inv_init db0) h

/-- the same as an invariant of reachable states: whenever the task's probe hits, the entry holds
the latest value -/
theorem wide_refines_map_reach (db0 : Option Nat) (s s' : WideCache.State) (i : Nat) (r : Option Nat)
    (hr : WideCache.Reach (WideCache.init db0 1) s)
    (hp : WideCache.fire s (.probe i) = some (s', some r)) : r = s.latest := by
  obtain ⟨t, I⟩ := WideCache.inv_reach hr
  exact (WideCache.inv_step I hp).2 r rfl

/-- non-vacuity: store holds 100; insert 7, get (hit, pinned), submit, commit, un-pin, evict,
get (miss → store read → fill → hit), remove, get (remembered absence while the store still has 7),
submit, commit, un-pin, evict, get (store says absent). -/
example :
    (WideCache.run (WideCache.init (some 100) 1)
      [.begin 0, .put 0 (some 7), .cacheWrite 0, .probe 0, .submit 0, .commit, .notify, .evict,
       .probe 0, .sfEnter 0, .readDb 0, .fill 0, .sfLeave 0, .probe 0,
       .begin 0, .put 0 none, .cacheWrite 0, .probe 0, .submit 0, .commit, .notify, .evict,
       .probe 0, .sfEnter 0, .readDb 0, .fill 0, .sfLeave 0, .probe 0]).map (·.2)
      = some [(some 7, some 7), (some 7, some 7), (none, none), (none, none)] := by decide

/-- "plus parallel readers/writers on shared keys": with two foreground tasks the statement is
FALSE for the code as it is (finding F9).  Task 0's fill reads the store (100) and is overtaken by
task 1's write 7 – commit – un-pin – evict; the fill then installs 100, and every later `get` of
either task returns 100 although 7 was written (and is in the store). -/
theorem wide_refines_map_concurrent_fails :
    (WideCache.run (WideCache.init (some 100) 2)
      [.probe 0, .sfEnter 0, .readDb 0,
       .begin 1, .put 1 (some 7), .cacheWrite 1, .submit 1, .commit, .notify, .evict,
       .fill 0, .sfLeave 0, .probe 0, .probe 1]).map (·.2)
      = some [(some 100, some 7), (some 100, some 7)] := by decide

end QbiceVerif.C09
