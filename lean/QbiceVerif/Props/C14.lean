/-
C14 — "Type and query identities are unique and stable across runs".

Objects: `QbiceVerif.TypeId` (hand-written model of `StableTypeID`, the `Identifiable` composition
rules and `QueryID`), `QbiceVerif.TypeId.Gen` (constructor table, universe and pair families,
regenerated from the Rust source on every run by `tools/gen_typeid.py`).

Whole-table theorems are about exactly the generated tables (finite, proved whole by kernel
evaluation in `Lemmas/TypeIdSlice*.lean` / `Lemmas/TypeIdFamilies.lean`); everything else is for all
inputs.  Stability across processes is not a theorem: the ids are functions of strings, and the
correspondence check prints them from separate processes.
-/
import QbiceVerif.Lemmas.TypeIdUniverse
import QbiceVerif.Lemmas.TypeIdFamilies
import QbiceVerif.Lemmas.TypeIdWf
import QbiceVerif.Lemmas.TypeIdStructTable

namespace QbiceVerif.C14
open QbiceVerif.TypeId QbiceVerif.TypeId.Gen

/-! ### "Distinct Rust types … receive distinct stable type identifiers" — the universe -/

/-- "all types of a constructor-closed universe (several thousand)": every type expression of the
generated universe has an id and the list of these ids has no duplicate. -/
theorem universe_ids_nodup : ∃ ids, typeIds? ctorTable typeUniverse = some ids ∧ ids.Nodup :=
  sliceCheck_nodup universe_sliceCheck

/-- every type of the universe has an id (no unknown constructor, no arity error) and that id is a
pair of `u64`s. -/
theorem universe_ids_defined : ∀ t ∈ typeUniverse, ∃ i, typeId? ctorTable t = some i ∧ IdWf i := by
  intro t ht
  obtain ⟨ids, h, _⟩ := universe_ids_nodup
  obtain ⟨i, _, e⟩ := typeIds?_mem ctorTable typeUniverse ids h t ht
  exact ⟨i, e, typeId?_wf ctorTable t i e⟩

/-- "Distinct Rust types — including distinct instantiations, orderings and nestings of generic and
built-in type constructors — receive distinct stable type identifiers": on the universe,
`STABLE_TYPE_ID` is injective. -/
theorem universe_distinct_types_distinct_ids :
    ∀ a ∈ typeUniverse, ∀ b ∈ typeUniverse, a ≠ b → typeId? ctorTable a ≠ typeId? ctorTable b := by
  intro a ha b hb hne e
  obtain ⟨ids, h, hn⟩ := universe_ids_nodup
  exact hne (typeId_inj_of_nodup ctorTable typeUniverse ids h hn a ha b hb e)

/-- the universe is the size the generator says, and it is "several thousand". -/
example : typeUniverse.length = universeSize := by decide +kernel
example : 3000 < typeUniverse.length := by decide +kernel
/-- non-vacuity of `a ≠ b`: the universe contains different types (its first two members). -/
example : ∃ a ∈ typeUniverse, ∃ b ∈ typeUniverse, a ≠ b := by
  have h : ∃ a b r, typeUniverse = a :: b :: r := by
    have : 2 ≤ typeUniverse.length := by decide +kernel
    match hu : typeUniverse, this with
    | a :: b :: r, _ => exact ⟨a, b, r, rfl⟩
  obtain ⟨a, b, r, e⟩ := h
  refine ⟨a, by simp [e], b, by simp [e], ?_⟩
  intro eab
  obtain ⟨ids, h, hn⟩ := universe_ids_nodup
  rw [e, eab] at h
  simp only [typeIds?] at h
  cases h1 : typeId? ctorTable b with
  | none => simp [h1] at h
  | some i =>
    cases h2 : typeIds? ctorTable r with
    | none => simp [h1, h2] at h
    | some is =>
      simp only [h1, h2, Option.some.injEq] at h
      subst h
      exact absurd rfl ((List.pairwise_cons.mp hn).1 i List.mem_cons_self)

/-! ### "how generic parameters are folded in": no structural collision, for ALL type expressions -/

/-- Unbounded.  Replace `from_unique_type_name`, `from_raw_parts(N,0)` and `combine` by free
constructors (`SId`); `symId?` is the same composition of them that `typeId?` performs
(`typeId?_eq_interp`).  Over the constructor table as extracted from the source now, two type
expressions of ANY depth, over any constructors of the table (built-in impls: left folds
`base.combine(T1)…`; derived types: the derive's right fold; tuples of all arities sharing one name;
arrays with their length) have the same symbolic id only if they are the same expression.  "A
structural collision (e.g. swapped parameters, array length folded symmetrically)" is impossible. -/
theorem no_structural_aliasing :
    ∀ (t1 t2 : Ty) (s : SId), symId? ctorTable t1 = some s → symId? ctorTable t2 = some s → t1 = t2 :=
  fun t1 t2 s h1 h2 => symId_inj ctorTable_facts t1 s h1 t2 h2

/-- `typeId?` is `symId?` followed by the interpretation of the free constructors as the real
128-bit functions. -/
theorem typeId_is_interp_of_symId : ∀ t : Ty, typeId? ctorTable t = (symId? ctorTable t).map SId.interp :=
  typeId?_eq_interp ctorTable

/-- Hence: if two DIFFERENT type expressions (any depth) ever receive the same `STABLE_TYPE_ID`, two
different symbolic terms evaluate to the same 128 bits, i.e. `from_unique_type_name`/`combine`
themselves collide — the only way identities can alias, and the one the finite-universe theorems
above exclude for the universe. -/
theorem aliasing_needs_hash_collision {t1 t2 : Ty} {i : Id}
    (h1 : typeId? ctorTable t1 = some i) (h2 : typeId? ctorTable t2 = some i) (ne : t1 ≠ t2) :
    ∃ s1 s2 : SId, s1 ≠ s2 ∧ s1.interp = s2.interp ∧
      symId? ctorTable t1 = some s1 ∧ symId? ctorTable t2 = some s2 :=
  alias_is_hash_collision ctorTable_facts h1 h2 ne

/-- non-vacuity: universe members do have symbolic ids (here: the first one), and the table is not
trivial (left-fold rows, right-fold rows and plain names all occur). -/
example : ∀ t ∈ typeUniverse, (symId? ctorTable t).isSome := by
  intro t ht
  obtain ⟨i, hi, _⟩ := universe_ids_defined t ht
  rw [typeId_is_interp_of_symId] at hi
  cases h : symId? ctorTable t with
  | none => simp [h] at hi
  | some s => rfl
example : ((ctorTable.filterMap classify).map (·.kind)).contains .L ∧
    ((ctorTable.filterMap classify).map (·.kind)).contains .R ∧
    ((ctorTable.filterMap classify).map (·.kind)).contains .N := by decide +kernel

/-! ### "all pairs of generic instantiations that differ only in argument order or nesting" -/

/-- `F<A,B>` vs `F<B,A>` (every constructor with two or more type parameters, built-in and derived;
also the last two of three parameters). -/
theorem swap_distinct : ∀ p ∈ swapPairs,
    ∃ i j, typeId? ctorTable p.1 = some i ∧ typeId? ctorTable p.2 = some j ∧ i ≠ j :=
  pairsDistinctCheck_spec _ _ swapPairs_ok

/-- `F<G<A>>` vs `G<F<A>>` for every pair of one-parameter constructors. -/
theorem nesting_distinct : ∀ p ∈ nestingPairs,
    ∃ i j, typeId? ctorTable p.1 = some i ∧ typeId? ctorTable p.2 = some j ∧ i ≠ j :=
  pairsDistinctCheck_spec _ _ nestingPairs_ok

/-- `[T; n]` vs `[T; m]` ("array length folded symmetrically" does not happen). -/
theorem array_len_distinct : ∀ p ∈ array_lenPairs,
    ∃ i j, typeId? ctorTable p.1 = some i ∧ typeId? ctorTable p.2 = some j ∧ i ≠ j :=
  pairsDistinctCheck_spec _ _ array_lenPairs_ok

/-- `(A,(B,C))` vs `((A,B),C)` vs `(A,B,C)` vs `((A,),B,C)`, `A` vs `(A,)` vs `((A,),)` … -/
theorem tuple_assoc_distinct : ∀ p ∈ tuple_assocPairs,
    ∃ i j, typeId? ctorTable p.1 = some i ∧ typeId? ctorTable p.2 = some j ∧ i ≠ j :=
  pairsDistinctCheck_spec _ _ tuple_assocPairs_ok

example : 100 < swapPairs.length := by decide +kernel
example : 100 < nestingPairs.length := by decide +kernel
example : 50 < array_lenPairs.length := by decide +kernel
example : 50 < tuple_assocPairs.length := by decide +kernel

/-! ### the "ad-hoc const-fn mixing function" -/

/-- `sipround` is a bijection of the 256-bit state, with explicit inverse `sipInv`. -/
theorem sipround_bijective :
    (∀ s : St, s.Wf → (sipround s).Wf ∧ sipInv (sipround s) = s) ∧
    (∀ s : St, s.Wf → (sipInv s).Wf ∧ sipround (sipInv s) = s) := by
  refine ⟨fun s h => ⟨sipround_wf h, ?_⟩, fun s h => ⟨unrunSteps_wf _ sipSteps_ok h, ?_⟩⟩
  · rw [sipround_eq_steps]; exact unrun_run _ sipSteps_ok h
  · rw [sipround_eq_steps]; exact run_unrun _ sipSteps_ok h

/-- everything `combine` does before the final `Self(v0 ^ v1, v2 ^ v3)` is a bijection of the 256-bit
state: no information about either operand is lost before the 256 → 128 bit fold. -/
theorem combineMix_bijective :
    (∀ s : St, s.Wf → (combineMix s).Wf ∧ combineMixInv (combineMix s) = s) ∧
    (∀ s : St, s.Wf → (combineMixInv s).Wf ∧ combineMix (combineMixInv s) = s) := by
  refine ⟨fun s h => ⟨combineMix_wf h, ?_⟩, fun s h => ⟨unrunSteps_wf _ combineSteps_ok h, ?_⟩⟩
  · rw [combineMix_eq_steps]; exact unrun_run _ combineSteps_ok h
  · rw [combineMix_eq_steps]; exact run_unrun _ combineSteps_ok h

/-- the operands can be read back from the initial state of `combine` (in particular
`combineInit a b ≠ combineInit b a` unless `a = b`: the four constants only shift, the asymmetry is
positional). -/
theorem combineInit_injective {a b a' b' : Id} (e : combineInit a b = combineInit a' b') :
    a = a' ∧ b = b' := by
  have h := e
  simp only [combineInit, St.mk.injEq] at h
  obtain ⟨h0, h1, h2, h3⟩ := h
  have c : ∀ {x y k : Nat}, x ^^^ k = y ^^^ k → x = y := fun {x y k} h => by
    have := congrArg (· ^^^ k) h
    simpa [xor_cancel] using this
  exact ⟨Prod.ext (c h0) (c h1), Prod.ext (c h2) (c h3)⟩

/-- Hence two `combine` calls collide exactly when the bijectively mixed states agree after the
fold; the pre-images of one folded value are 2^128 states. -/
theorem combine_eq_iff (a b a' b' : Id) :
    combine a b = combine a' b' ↔
      fold (combineMix (combineInit a b)) = fold (combineMix (combineInit a' b')) := Iff.rfl

/-- A universal "different input pairs produce different outputs" (as the doc comment of `combine`
puts it) is false, as for any 256 → 128 bit function; a concrete colliding pair of operand pairs
(obtained by inverting the mixing; ids of this form arise only from `from_raw_parts`). -/
theorem combine_not_injective : ∃ a b a' b' : Id, IdWf a ∧ IdWf b ∧ IdWf a' ∧ IdWf b' ∧
    (a, b) ≠ (a', b') ∧ combine a b = combine a' b' :=
  ⟨(18424055224535541142, 3851355670350039039), (10236775686716385350, 3771690488061547673),
   (4855776943184452445, 2330864439022064824), (4125447173078064746, 16194029040368718299),
   by decide +kernel, by decide +kernel, by decide +kernel, by decide +kernel, by decide +kernel,
   by decide +kernel⟩

/-- ids are pairs of `u64` whatever the name bytes and the operands. -/
theorem ids_are_u64_pairs :
    (∀ bytes, IdWf (fromName bytes)) ∧ (∀ a b, IdWf a → IdWf b → IdWf (combine a b)) ∧
    (∀ tbl t i, typeId? tbl t = some i → IdWf i) :=
  ⟨fromName_wf, fun _ _ ha hb => combine_wf ha hb, typeId?_wf⟩

/-! ### "distinct query keys receive distinct query identifiers" -/

/-- `QueryID::new` keeps both components: equal query ids ⇔ equal type ids and equal key hashes. -/
theorem queryId_inj {t t' : Id} (ht : IdWf t) (ht' : IdWf t') (k k' : Nat × Nat) :
    QueryId.new t k = QueryId.new t' k' ↔ t = t' ∧ k = k' := by
  constructor
  · intro e
    have e1 := congrArg QueryId.typeId e
    rw [QueryId.typeId_new ht, QueryId.typeId_new ht'] at e1
    have e2 := congrArg QueryId.hash128 e
    exact ⟨e1, e2⟩
  · rintro ⟨rfl, rfl⟩; rfl

/-- `QueryID::stable_type_id` returns the type id the query id was built from. -/
theorem queryId_typeId_roundtrip {t : Id} (ht : IdWf t) (k : Nat × Nat) : (QueryId.new t k).typeId = t :=
  QueryId.typeId_new ht k

/-- "No two different queries can therefore share a slot": two different types of the universe
never give the same query id, whatever the key hashes. -/
theorem universe_queryIds_distinct :
    ∀ a ∈ typeUniverse, ∀ b ∈ typeUniverse, a ≠ b →
      ∀ i j, typeId? ctorTable a = some i → typeId? ctorTable b = some j →
        ∀ k k' : Nat × Nat, QueryId.new i k ≠ QueryId.new j k' := by
  intro a ha b hb hne i j hi hj k k' e
  have := (queryId_inj (typeId?_wf _ _ _ hi) (typeId?_wf _ _ _ hj) k k').mp e
  exact universe_distinct_types_distinct_ids a ha b hb hne (by rw [hi, hj, this.1])

/-- keys of one query type: if the 128-bit stable hash separates two keys (C13: it does, up to a hash
collision) their query ids differ; for an injective hash, distinct keys get distinct ids. -/
theorem queryId_distinct_keys {K : Type} (hash : K → Nat × Nat) {t : Id} (ht : IdWf t) (k k' : K) :
    (hash k ≠ hash k' → QueryId.new t (hash k) ≠ QueryId.new t (hash k')) ∧
    (Function.Injective hash → k ≠ k' → QueryId.new t (hash k) ≠ QueryId.new t (hash k')) := by
  refine ⟨fun h e => h ((queryId_inj ht ht _ _).mp e).2, fun hinj h e => h (hinj ((queryId_inj ht ht _ _).mp e).2)⟩

/-- non-vacuity: a real type id is well-formed, and two keys with different hashes exist. -/
example : IdWf (fromName [117, 54, 52]) := fromName_wf _
example : QueryId.new (fromName [117, 54, 52]) (1, 0) ≠ QueryId.new (fromName [117, 54, 52]) (2, 0) :=
  (queryId_distinct_keys (fun n : Nat => (n, 0)) (fromName_wf _) 1 2).1 (by decide)

end QbiceVerif.C14
