/-
C06 — "Dependency cycles are detected: they terminate with cycle defaults."

Theorems over the fresh-evaluation cycle model (Model/Cycle.lean: the Execute-only fragment of
`query_for` with the computing stack, `register_callee`, `exit_scc`, `check_cyclic_internal`,
`is_query_running_in_scc` and `scc_value`), for EVERY well-formed program (any directed read graph:
self-loops, nested and adjacent strongly connected components, conditional edges — executors are
arbitrary `Prog` trees), every list of roots in every order, every fuel ≥ `#keys + 1`.
The model is tied to the real engine on every run (driver `drv_engine cyc`).

The incremental part of the property ("when an input change removes or creates a cycle the results
follow") was false for the code as found (findings F2, F3, F16, F30, F31, F32, F33, all repaired upstream): see the
historical witnesses and the `…_fixed_…` theorems in Props/C06Inc.lean; for the code as it is now it is decided by the
correspondence and the from-scratch oracle, not by a theorem.
-/
import QbiceVerif.Lemmas.CycleFinal
namespace Qbice.Cycle

/-- "A query that lies on a dependency cycle never hangs or recurses forever: it completes".
    Whatever the program and the order of the requests, evaluation from the empty store with fuel
    `#keys + 1` (or more) returns: it is never out of fuel (no unbounded recursion of `query_for`),
    never `deadlock` (no wait for a computing query that waits for the caller, no unbounded recursion
    of `check_cyclic_internal`) and never `panic`.  Termination is the conclusion, not a hypothesis:
    the only assumption is that executors ask for keys that exist. -/
theorem cycle_terminates (p : Program) (wf : WFProgram p) (roots : List Key)
    (hr : ∀ r ∈ roots, r < p.length) (fuel : Nat) (hfuel : fuelFor p ≤ fuel) :
    ∃ vs st, evalRoots p fuel roots {} = .ok (vs, st) ∧ st.stack = [] ∧ vs.length = roots.length := by
  obtain ⟨vs, st, h, q, _, hl, _⟩ := evalRoots_spec p wf fuel hfuel roots {} (quiet_empty p) hr
  exact ⟨vs, st, h, q.empty, hl⟩

/-- the same, in the negative form of the property text -/
theorem cycle_never_hangs (p : Program) (wf : WFProgram p) (roots : List Key)
    (hr : ∀ r ∈ roots, r < p.length) (fuel : Nat) (hfuel : fuelFor p ≤ fuel) :
    evalRoots p fuel roots {} ≠ .error .outOfFuel ∧ evalRoots p fuel roots {} ≠ .error .deadlock ∧
    evalRoots p fuel roots {} ≠ .error .panic := by
  obtain ⟨vs, st, h, _⟩ := cycle_terminates p wf roots hr fuel hfuel
  rw [h]
  refine ⟨?_, ?_, ?_⟩ <;> intro e <;> cases e

/-- the facts about a finished evaluation, extracted once -/
theorem eval_facts (p : Program) (wf : WFProgram p) (roots : List Key)
    (hr : ∀ r ∈ roots, r < p.length) (fuel : Nat) (hfuel : fuelFor p ≤ fuel)
    {vs : List Val} {st : St} (h : evalRoots p fuel roots {} = .ok (vs, st)) :
    Quiet p st ∧ vs.length = roots.length ∧
      (∀ i (h1 : i < roots.length) (h2 : i < vs.length), valOf st.memo roots[i] = some vs[i]) := by
  obtain ⟨vs', st', h', q, _, hl, hv⟩ := evalRoots_spec p wf fuel hfuel roots {} (quiet_empty p) hr
  rw [h] at h'
  injection h' with h'
  injection h' with h1 h2
  subst h1; subst h2
  exact ⟨q, hl, hv⟩

/-- "it … evaluates to its executor's declared cycle default, and every query outside the cycle
    evaluates exactly as a from-scratch evaluation that substitutes those defaults would":
    every query marked in an SCC has its default; every other computed query's value is its executor
    run over the final values of the queries it read; the values returned to the user are the stored
    ones; every performed read is a read the executor can make and its target has been computed. -/
theorem cycle_consistent (p : Program) (wf : WFProgram p) (roots : List Key)
    (hr : ∀ r ∈ roots, r < p.length) (fuel : Nat) (hfuel : fuelFor p ≤ fuel)
    {vs : List Val} {st : St} (h : evalRoots p fuel roots {} = .ok (vs, st)) :
    (∀ i (h1 : i < roots.length) (h2 : i < vs.length), valOf st.memo roots[i] = some vs[i]) ∧
    ∀ d ∈ st.memo,
      (d.marked = true → d.val = dfltOf p d.key) ∧
      (d.marked = false → evalWith (valOf st.memo) (progOf p d.key) = some d.val) ∧
      (∀ r ∈ d.reads, r ∈ mkeys st.memo ∧ SEdge p d.key r) := by
  obtain ⟨q, _, hv⟩ := eval_facts p wf roots hr fuel hfuel h
  refine ⟨hv, ?_⟩
  intro d hd
  obtain ⟨pre, tail, hm⟩ := mem_split_done hd
  have ok := q.inv.memoOK
  rw [hm] at ok
  obtain ⟨hask, hmk, hun, _⟩ := memoOK_split pre d tail ok
  have nm : NoMarks st.stack := by rw [q.empty]; intro f hf; simp at hf
  refine ⟨hmk, ?_, ?_⟩
  · intro hu
    obtain ⟨_, _, hev, _⟩ := hun hu
    rw [hm]
    have nd := q.inv.nodup_mkeys
    rw [hm] at nd
    have nd' : (mkeys ((pre ++ [d]) ++ tail)).Nodup := by simpa using nd
    have := evalWith_mono (valOf_suffix nd') (progOf p d.key) d.val hev
    simpa using this
  · intro r hr'
    exact ⟨q.inv.closed_of_noMarks nm d hd r hr', hask r hr'⟩

/-- "a key evaluates to its default iff it was marked in an SCC, which happens iff it lies on a
    cycle of performed reads". -/
theorem defaulted_iff_marked (p : Program) (wf : WFProgram p) (roots : List Key)
    (hr : ∀ r ∈ roots, r < p.length) (fuel : Nat) (hfuel : fuelFor p ≤ fuel)
    {vs : List Val} {st : St} (h : evalRoots p fuel roots {} = .ok (vs, st)) :
    ∀ d ∈ st.memo, (d.marked = true ↔ OnCycle (Reads st.memo) d.key) := by
  obtain ⟨q, _, _⟩ := eval_facts p wf roots hr fuel hfuel h
  intro d hd
  constructor
  · intro hm
    exact (q.inv.cycM d hd hm).mono (edge_eq_reads q.empty)
  · intro hc
    cases hm : d.marked with
    | true => rfl
    | false => exact absurd hc (unmarked_not_onCycle q.inv.nodup_mkeys q.inv.memoOK hd hm)

/-- no cycle of the static read graph can be reached from `k` -/
def NoCycleBelow (p : Program) (k : Key) : Prop := ∀ x, Path (SEdge p) k x → ¬ OnCycle (SEdge p) x

theorem reads_sub_sedge {p : Program} {m : List Done} (ok : MemoOK p m) : ∀ a b, Reads m a b → SEdge p a b := by
  rintro a b ⟨d, hd, hk, hb⟩
  obtain ⟨pre, tail, hm⟩ := mem_split_done hd
  rw [hm] at ok
  have := (memoOK_split pre d tail ok).1 b hb
  rw [hk] at this
  exact this

/-- "Queries whose dependencies contain no cycle are never affected": if no cycle is reachable from
    `k` in the static read graph, then after any evaluation that requested `k` nothing reachable from
    `k` through performed reads was marked (no default was substituted anywhere below `k`), and the
    value of `k` is the plain from-scratch value `evalSpec` (which exists). -/
theorem acyclic_unaffected (p : Program) (wf : WFProgram p) (roots : List Key)
    (hr : ∀ r ∈ roots, r < p.length) (fuel : Nat) (hfuel : fuelFor p ≤ fuel)
    {vs : List Val} {st : St} (h : evalRoots p fuel roots {} = .ok (vs, st))
    (k : Key) (hk : k ∈ roots) (hac : NoCycleBelow p k) :
    (∀ x, Path (Reads st.memo) k x → ∃ d ∈ st.memo, d.key = x ∧ d.marked = false) ∧
    (∃ v, valOf st.memo k = some v ∧ evalSpec p p.length k = some v) := by
  obtain ⟨q, hl, hv⟩ := eval_facts p wf roots hr fuel hfuel h
  have nm : NoMarks st.stack := by rw [q.empty]; intro f hf; simp at hf
  obtain ⟨i, hi, hik⟩ := List.getElem_of_mem hk
  have hvk := hv i hi (by rw [hl]; exact hi)
  rw [hik] at hvk
  have hkm : k ∈ mkeys st.memo := valOf_mem hvk
  have hsub := reads_sub_sedge q.inv.memoOK
  have good : Good st.memo k := by
    intro x px
    have hxm : x ∈ mkeys st.memo := by
      refine px.closed (S := fun y => y ∈ mkeys st.memo) ?_ hkm
      rintro a b _ ⟨d, hd, _, hb⟩
      exact q.inv.closed_of_noMarks nm d hd b hb
    obtain ⟨d, hd, hdk⟩ := List.mem_map.1 hxm
    refine ⟨d, hd, hdk, ?_⟩
    cases hm : d.marked with
    | false => rfl
    | true =>
      exfalso
      have c1 : OnCycle (Reads st.memo) d.key := (q.inv.cycM d hd hm).mono (edge_eq_reads q.empty)
      have c2 : OnCycle (SEdge p) x := by rw [← hdk]; exact c1.mono hsub
      exact hac x (px.mono hsub) c2
  refine ⟨good, ?_⟩
  obtain ⟨d, hd, hdk, _⟩ := good k (.refl _)
  obtain ⟨pre, tail, hm⟩ := mem_split_done hd
  have hb : ∀ x ∈ mkeys st.memo, x < p.length := fun x hx => q.inv.bound x (List.mem_append_right _ hx)
  have := evalSpec_of_good q.inv.nodup_mkeys q.inv.memoOK hb tail.length pre d tail rfl hm (by rw [hdk]; exact good)
  have hlen : tail.length + 1 ≤ p.length := by
    have h1 := nodup_bounded_length p.length (mkeys st.memo) q.inv.nodup_mkeys hb
    rw [hm] at h1
    simp [mkeys] at h1
    omega
  have h2 := evalSpec_mono p _ _ _ _ hlen this
  rw [hdk] at h2
  refine ⟨d.val, ?_, h2⟩
  rw [← hdk]
  simp [valOf, findDone_of_mem q.inv.nodup_mkeys hd]

/-- "all choices of the queried roots": the value of a key does not depend on which roots were
    requested, nor in which order. -/
def C06_order_independent_full_statement : Prop :=
  ∀ (p : Program), WFProgram p → ∀ (roots₁ roots₂ : List Key),
    (∀ r ∈ roots₁, r < p.length) → (∀ r ∈ roots₂, r < p.length) →
    ∀ vs₁ st₁ vs₂ st₂, evalRoots p (fuelFor p) roots₁ {} = .ok (vs₁, st₁) →
      evalRoots p (fuelFor p) roots₂ {} = .ok (vs₂, st₂) →
      ∀ k, k ∈ roots₁ → k ∈ roots₂ → valOf st₁.memo k = valOf st₂.memo k

/-- the memo of a finished evaluation is a sequence of blocks (Lemmas/CycleBlocks.lean): unmarked
    entries whose value is their executor over the older entries, and detected cycles whose members'
    executors, fed from the entries older than the cycle, each stop at the next member -/
theorem eval_blocks (p : Program) (wf : WFProgram p) (roots : List Key)
    (hr : ∀ r ∈ roots, r < p.length) (fuel : Nat) (hfuel : fuelFor p ≤ fuel)
    {vs : List Val} {st : St} (h : evalRoots p fuel roots {} = .ok (vs, st)) :
    Blocks p st.memo ∧ (mkeys st.memo).Nodup := by
  obtain ⟨q, _, _⟩ := eval_facts p wf roots hr fuel hfuel h
  exact ⟨inv2_blocks_of_empty q.inv2 q.empty, q.inv.nodup_mkeys⟩

/-- **Order independence** ("for every program and all choices of the queried roots").  For every
    well-formed program — any read graph, conditional reads included — any two lists of roots
    (different roots, different orders, different lengths, repetitions) and any sufficient fuels:
    every key that both evaluations computed has the same value in both, and is defaulted in both or
    in neither.  In particular it does not matter through which member a strongly connected component
    is entered.  (Proof: the final memo has a description that does not mention the traversal, and
    such a description is unique — Lemmas/CycleUniq.lean.) -/
theorem cycle_order_independent (p : Program) (wf : WFProgram p) (roots₁ roots₂ : List Key)
    (hr₁ : ∀ r ∈ roots₁, r < p.length) (hr₂ : ∀ r ∈ roots₂, r < p.length)
    (fuel₁ fuel₂ : Nat) (hf₁ : fuelFor p ≤ fuel₁) (hf₂ : fuelFor p ≤ fuel₂)
    {vs₁ vs₂ : List Val} {st₁ st₂ : St}
    (h₁ : evalRoots p fuel₁ roots₁ {} = .ok (vs₁, st₁))
    (h₂ : evalRoots p fuel₂ roots₂ {} = .ok (vs₂, st₂)) :
    (∀ k, k ∈ mkeys st₁.memo → k ∈ mkeys st₂.memo → valOf st₁.memo k = valOf st₂.memo k) ∧
    (∀ d₁ ∈ st₁.memo, ∀ d₂ ∈ st₂.memo, d₁.key = d₂.key → d₁.marked = d₂.marked ∧ d₁.val = d₂.val) := by
  obtain ⟨b₁, n₁⟩ := eval_blocks p wf roots₁ hr₁ fuel₁ hf₁ h₁
  obtain ⟨b₂, n₂⟩ := eval_blocks p wf roots₂ hr₂ fuel₂ hf₂ h₂
  exact ⟨fun k k₁ k₂ => blocks_unique b₁ b₂ n₁ n₂ k k₁ k₂,
    fun d₁ m₁ d₂ m₂ hk => blocks_unique_marked b₁ b₂ n₁ n₂ m₁ m₂ hk⟩

/-- the values RETURNED for a root that both requests contain are equal, wherever it stands in the two
    lists (permutations of one list of roots are the special case) -/
theorem cycle_order_independent_roots (p : Program) (wf : WFProgram p) (roots₁ roots₂ : List Key)
    (hr₁ : ∀ r ∈ roots₁, r < p.length) (hr₂ : ∀ r ∈ roots₂, r < p.length)
    (fuel₁ fuel₂ : Nat) (hf₁ : fuelFor p ≤ fuel₁) (hf₂ : fuelFor p ≤ fuel₂)
    {vs₁ vs₂ : List Val} {st₁ st₂ : St}
    (h₁ : evalRoots p fuel₁ roots₁ {} = .ok (vs₁, st₁))
    (h₂ : evalRoots p fuel₂ roots₂ {} = .ok (vs₂, st₂))
    (i j : Nat) (hi : i < roots₁.length) (hj : j < roots₂.length) (hi' : i < vs₁.length) (hj' : j < vs₂.length)
    (hij : roots₁[i] = roots₂[j]) : vs₁[i] = vs₂[j] := by
  obtain ⟨_, _, hv₁⟩ := eval_facts p wf roots₁ hr₁ fuel₁ hf₁ h₁
  obtain ⟨_, _, hv₂⟩ := eval_facts p wf roots₂ hr₂ fuel₂ hf₂ h₂
  have e₁ := hv₁ i hi hi'
  have e₂ := hv₂ j hj hj'
  have := (cycle_order_independent p wf roots₁ roots₂ hr₁ hr₂ fuel₁ fuel₂ hf₁ hf₂ h₁ h₂).1 roots₁[i]
    (valOf_mem e₁) (by rw [hij]; exact valOf_mem e₂)
  rw [e₁, hij, e₂] at this
  exact Option.some.inj this

/-- the full statement holds -/
theorem C06_order_independent_full : C06_order_independent_full_statement := by
  intro p wf roots₁ roots₂ hr₁ hr₂ vs₁ st₁ vs₂ st₂ h₁ h₂ k k₁ k₂
  obtain ⟨_, hl₁, hv₁⟩ := eval_facts p wf roots₁ hr₁ _ (Nat.le_refl _) h₁
  obtain ⟨_, hl₂, hv₂⟩ := eval_facts p wf roots₂ hr₂ _ (Nat.le_refl _) h₂
  obtain ⟨i, hi, hik⟩ := List.getElem_of_mem k₁
  obtain ⟨j, hj, hjk⟩ := List.getElem_of_mem k₂
  have e₁ := hv₁ i hi (by rw [hl₁]; exact hi)
  have e₂ := hv₂ j hj (by rw [hl₂]; exact hj)
  rw [hik] at e₁
  rw [hjk] at e₂
  exact (cycle_order_independent p wf roots₁ roots₂ hr₁ hr₂ _ _ (Nat.le_refl _) (Nat.le_refl _) h₁ h₂).1 k
    (valOf_mem e₁) (valOf_mem e₂)

-- ------------------------------------------------------------------ non-vacuity

/-- `A ↔ B` (the repo's own test shape), defaults −1 and −2 -/
def exTwo : Program :=
  [ { dflt := -1, prog := .ask 1 fun v => .ret (v + 10) },
    { dflt := -2, prog := .ask 0 fun v => .ret (v + 20) } ]

/-- DESIGN §5.6: `A` reads `B`; `B` reads `D` then `A`; `D` reads `B`.  The performed cycle is
    `B → D → B`; `A` is in the static SCC but not a member. -/
def exDesign : Program :=
  [ { dflt := -1, prog := .ask 1 fun v => .ret (v + 10) },
    { dflt := -2, prog := .ask 2 fun d => .ask 0 fun a => .ret (d + a) },
    { dflt := -3, prog := .ask 1 fun v => .ret (v + 30) } ]

/-- a self-loop and an acyclic reader of it -/
def exSelf : Program :=
  [ { dflt := -7, prog := .ask 0 fun v => .ret (v + 1) },
    { dflt := -1, prog := .ask 0 fun v => .ret (v + 100) } ]

/-- values of a finished evaluation (`none` = an error) -/
def okVals (r : R (List Val)) : Option (List Val) :=
  match r with
  | .ok (vs, _) => some vs
  | .error _ => none

def okMarks (r : R (List Val)) : Option (List (Key × Bool)) :=
  match r with
  | .ok (_, st) => some (st.memo.map fun d => (d.key, d.marked))
  | .error _ => none

def errOf (r : R (List Val)) : Option Err :=
  match r with
  | .ok _ => none
  | .error e => some e

theorem wf_of_all {p : Program} (h : ∀ nd ∈ p, WFProg p.length nd.prog) : WFProgram p := by
  intro k nd hk
  exact h nd (List.mem_of_getElem? hk)

example : WFProgram exTwo := by
  apply wf_of_all
  intro nd hnd
  simp only [exTwo, List.mem_cons, List.not_mem_nil, or_false] at hnd
  rcases hnd with rfl | rfl
  · exact .ask 1 _ (by decide) (fun _ => .ret _)
  · exact .ask 0 _ (by decide) (fun _ => .ret _)

/-- both members get their defaults, whichever is asked first -/
example : okVals (evalRoots exTwo (fuelFor exTwo) [0, 1] {}) = some [-1, -2] := by decide
example : okVals (evalRoots exTwo (fuelFor exTwo) [1, 0] {}) = some [-2, -1] := by decide

/-- `A = default(B) + 10`, `B` and `D` defaulted, in every order of roots -/
example : okVals (evalRoots exDesign (fuelFor exDesign) [0, 1, 2] {}) = some [8, -2, -3] := by decide
example : okVals (evalRoots exDesign (fuelFor exDesign) [2, 1, 0] {}) = some [-3, -2, 8] := by decide
example : okVals (evalRoots exDesign (fuelFor exDesign) [1, 0, 2] {}) = some [-2, 8, -3] := by decide

/-- marks are recorded: `B`, `D` marked, `A` not (so `defaulted_iff_marked` is about real marks) -/
example : okMarks (evalRoots exDesign (fuelFor exDesign) [0] {}) = some [(0, false), (1, true), (2, true)] := by
  decide

example : okVals (evalRoots exSelf (fuelFor exSelf) [1] {}) = some [93] := by decide

/-- too little fuel is reported as such (the bound of `cycle_terminates` is not slack by more than
    the stated function) -/
example : errOf (evalRoots exDesign 2 [0] {}) = some .outOfFuel := by decide

/-- the hypothesis of `acyclic_unaffected` is satisfiable next to a cycle: key 1 of this program
    reads only the constant key 2, key 0 is a self-loop -/
def exMixed : Program :=
  [ { dflt := -7, prog := .ask 0 fun v => .ret v },
    { dflt := -1, prog := .ask 2 fun v => .ret (v + 1) },
    { dflt := 0, prog := .ret 5 } ]

example : okVals (evalRoots exMixed (fuelFor exMixed) [0, 1] {}) = some [-7, 6] := by decide
example : evalSpec exMixed exMixed.length 1 = some 6 := by decide

/-- order independence is about real differences of traversal: in `exDesign` the cycle `B ↔ D` is
    entered through `B` (roots `[0]` or `[1]`) or through `D` (roots `[2]`), the memos differ as
    lists, the values do not -/
example : okMarks (evalRoots exDesign (fuelFor exDesign) [2, 0] {}) = some [(0, false), (2, true), (1, true)] := by
  decide

/-- a conditional program: `0` reads `1` and, only if that returned `1`'s default, `2`; `1` reads `0`;
    `2` reads `0`.  Entered through `0`, `1` or `2` the performed cycle is `0 ↔ 1`; `2` is outside. -/
def exCond : Program :=
  [ { dflt := -1, prog := .ask 1 fun v => if v = -2 then .ask 2 fun w => .ret w else .ret v },
    { dflt := -2, prog := .ask 0 fun v => .ret (v + 20) },
    { dflt := -3, prog := .ask 0 fun v => .ret (v + 30) } ]

example : okVals (evalRoots exCond (fuelFor exCond) [0, 1, 2] {}) = some [-1, -2, 29] := by decide
example : okVals (evalRoots exCond (fuelFor exCond) [2, 1, 0] {}) = some [29, -2, -1] := by decide
example : okVals (evalRoots exCond (fuelFor exCond) [1, 2, 0] {}) = some [-2, 29, -1] := by decide

end Qbice.Cycle
