import QbiceVerif.Lemmas.WriteBehindNotify
import QbiceVerif.Lemmas.WriteBehindMono

/-!
# C10 — write-behind applies every batch exactly once, in order, by shutdown

Theorems over `QbiceVerif.WB` (Model/WriteBehind.lean), for every state reachable from
`init nSer` by *any* schedule of the events of the model: any number of serializer workers
(`nSer` is universally quantified), any number of user threads (create / submit events carry no
thread identity and may interleave arbitrarily, in any submission order), any batch contents over
overlapping keys, any answer of the store's `should_write_more` at every consumed batch
(`cDecide more`), any hash-map iteration order inside a batch (`serSerialise w buf`).
-/

namespace QbiceVerif.WB

variable {nSer : Nat} {s : State}

/-- "Every write batch that was submitted reaches the backing store exactly once and in the order
the batches were created, regardless of which threads created, filled and submitted them and how
the serializer threads race."

In every reachable state: the batches applied to the store are epochs `0,1,2,…` with no gap and no
repeat; so are the batches consumed by the commit worker (`0 … expected-1`); every batch still in
the pipeline has an epoch `≥ expected`; and the batches in the pipeline plus the consumed ones are
exactly (as a multiset, with their contents) the submitted ones, each submitted epoch being unique:
every submitted batch is at exactly one place, none is lost or duplicated. -/
theorem commit_order (hr : Reachable nSer s) :
    s.applied.map Task.epoch = List.range s.applied.length ∧
    s.consumed.map Task.epoch = List.range s.expected ∧
    (∀ t ∈ s.pending, s.expected ≤ t.epoch) ∧
    ((s.pending ++ s.consumed).map Task.core).Perm (s.submitted.map Task.core) ∧
    (s.submitted.map Task.epoch).Nodup ∧
    ((s.pending ++ s.consumed).map Task.epoch).Nodup := by
  have h := reachable_allInv s hr
  exact ⟨applied_epochs h, h.inv.order, h.inv.pending_ge, h.inv.conserve, h.inv.sub_nodup,
    h.inv.places_nodup⟩

/-- "…and how the serializer threads race": each physical commit of the store is a contiguous run
of logical batches `a, a+1, …`, and the physical commits concatenated are `0,1,2,…` — the commit log
is a chunking of the creation order, whatever the store answers to `should_write_more`. -/
theorem physical_chunks (hr : Reachable nSer s) :
    (s.log.map (·.map Task.epoch)).flatten = List.range s.applied.length ∧
    ∀ chunk ∈ s.log, ∃ a, chunk.map Task.epoch = List.range' a chunk.length := by
  have h := reachable_allInv s hr
  have h1 : (s.log.map (·.map Task.epoch)).flatten = List.range s.applied.length := by
    rw [← applied_epochs h, State.applied, List.map_flatten]
  refine ⟨h1, ?_⟩
  intro chunk hc
  obtain ⟨l₁, l₂, hl⟩ := List.append_of_mem hc
  rw [hl] at h1
  simp only [List.map_append, List.map_cons, List.flatten_append, List.flatten_cons] at h1
  rw [← List.append_assoc] at h1
  have := middle_of_range h1
  rw [List.length_map] at this
  exact ⟨_, this⟩

/-- "dropping the write manager returns only after all of them are durable in the store."

When `Drop for WriteBehind` has returned, nothing is left in the pipeline, the open physical batch
is empty, and the applied batches are exactly the submitted ones (with their contents, each once);
the commit worker and the after-commit worker have finished. -/
theorem drain_on_drop (hr : Reachable nSer s) (hd : s.dpc = .returned) :
    s.pending = [] ∧ s.cur = [] ∧ s.crashed = false ∧
    (s.applied.map Task.core).Perm (s.submitted.map Task.core) := by
  have h := reachable_allInv s hr
  obtain ⟨hp, hc, _, _⟩ := returned_facts h hd
  refine ⟨hp, hc, ?_, returned_applied h hd⟩
  -- a crashed state never reaches `returned`: `returned` needs cpc = done after which nothing crashes
  cases hcr : s.crashed with
  | false => rfl
  | true =>
    exfalso
    -- crashed is only ever set with dpc = running (submit) or with cpc = assert (never done afterwards)
    have : ∀ s, Reachable nSer s → s.crashed = true → s.dpc ≠ .returned := by
      apply reachable_step_induction
      · simp [init]
      · intro s ev s' hr' ih hst
        have hg := (reachable_allInv s hr').g
        cases hst <;> simp_all
        case cAssertCrash hc' hp hh =>
          intro hret
          have := hg.joinC (by simp [hret, DPc.commitJoined])
          rw [hp] at this
          cases this
    exact this s hr hcr hd

/-- "…if every created batch was submitted": then, after the drop, the store has applied exactly
the epochs `0 … counter-1` in this order. -/
theorem drain_on_drop_all (hr : Reachable nSer s) (hd : s.dpc = .returned)
    (hall : ∀ e, e < s.counter → e ∈ s.submitted.map Task.epoch) :
    s.applied.map Task.epoch = List.range s.counter :=
  returned_all (reachable_allInv s hr) hd hall

/-- "The store's final content therefore equals applying the batches one after another in creation
order."  At every moment the store equals the sequential application of the contents submitted under
epochs `0 … k-1`, `k` being the number of batches applied so far … -/
theorem final_content_prefix (hr : Reachable nSer s) :
    s.store = seqSpec s s.applied.length :=
  store_eq_seqSpec (reachable_allInv s hr)

/-- … and once the drop has returned with every created batch submitted, `k` is the number of
batches created: the store is the left fold of all batches in creation order. -/
theorem final_content (hr : Reachable nSer s) (hd : s.dpc = .returned)
    (hall : ∀ e, e < s.counter → e ∈ s.submitted.map Task.epoch) :
    s.store = seqSpec s s.counter := by
  have h := reachable_allInv s hr
  have h1 := returned_all h hd hall
  have hlen : s.applied.length = s.counter := by
    have := congrArg List.length h1
    simpa using this
  rw [store_eq_seqSpec h, hlen]

/-- Durability is stable ("reaches the backing store exactly once"): whatever the pipeline does
after a reachable state `s` — any further schedule `evs` of user, serializer, commit-worker and
shutdown events — the batches applied at `s` stay applied, at the same positions of the commit
order and with the same serialized contents; later commits are only appended; the submitted list
and the epoch counter only grow; and the later state is again a state of the pipeline, so every
theorem above holds there too. -/
theorem durable_is_stable {s' : State} {evs : List Event} (hr : Reachable nSer s)
    (h : run s evs = some s') :
    Reachable nSer s' ∧ s.log <+: s'.log ∧ s.applied <+: s'.applied ∧
    (∀ (i : Nat) (t : Task), s.applied[i]? = some t → s'.applied[i]? = some t) ∧
    s.submitted <+: s'.submitted ∧ s.counter ≤ s'.counter := by
  obtain ⟨hl, hs, hc⟩ := run_mono h
  have ha : s.applied <+: s'.applied := flatten_prefix hl
  refine ⟨run_reachable hr evs h, hl, ha, ?_, hs, hc⟩
  intro i t hi
  obtain ⟨r, hr'⟩ := ha
  rw [← hr']
  have hlt : i < s.applied.length := by
    rcases Nat.lt_or_ge i s.applied.length with h1 | h1
    · exact h1
    · rw [List.getElem?_eq_none h1] at hi; cases hi
  rw [List.getElem?_append_left hlt]
  exact hi

/-- The content prescribed for an epoch that is already durable can no longer change: along every
further schedule the sequential specification restricted to the first `k ≤ applied.length` epochs
is the same function of the LATER state's submission list, so the store at `s` is a prefix
evaluation of the specification of every later state (in particular of the state at shutdown, cf.
`final_content`): what has been made durable is exactly what the final sequential order prescribes
for those epochs, not merely what the history up to `s` prescribed. -/
theorem durable_content_is_final {s' : State} {evs : List Event} (hr : Reachable nSer s)
    (h : run s evs = some s') :
    (∀ k, k ≤ s.applied.length → seqSpec s' k = seqSpec s k) ∧
    s.store = seqSpec s' s.applied.length := by
  have hA := reachable_allInv s hr
  have hA' := reachable_allInv s' (run_reachable hr evs h)
  obtain ⟨r, hpre⟩ : s.applied <+: s'.applied := flatten_prefix (run_mono h).1
  have hc : ∀ e, e < s.applied.length → s'.contentOf e = s.contentOf e := by
    intro e he
    have hmem : s.applied[e] ∈ s.applied := List.getElem_mem he
    have hep : (s.applied[e]).epoch = e := by
      have h1 := applied_epochs hA
      have h2 : (s.applied.map Task.epoch)[e]? = (List.range s.applied.length)[e]? := by rw [h1]
      simp only [List.getElem?_map, List.getElem?_eq_getElem he, Option.map_some,
        List.getElem?_range he, Option.some.injEq] at h2
      exact h2
    have c1 := hA.inv.contentOf_eq (applied_sub_places s _ hmem)
    have hmem' : s.applied[e] ∈ s'.applied := by
      rw [← hpre]; exact List.mem_append_left _ hmem
    have c2 := hA'.inv.contentOf_eq (applied_sub_places s' _ hmem')
    rw [hep] at c1 c2
    rw [c1, c2]
  have hk : ∀ k, k ≤ s.applied.length → seqSpec s' k = seqSpec s k := by
    intro k hk
    unfold seqSpec
    have : ∀ (l : List Nat) (st : Store), (∀ e ∈ l, e < s.applied.length) →
        l.foldl (fun st e => applyOps st (s'.contentOf e)) st =
        l.foldl (fun st e => applyOps st (s.contentOf e)) st := by
      intro l
      induction l with
      | nil => intros; rfl
      | cons x xs ih =>
        intro st hx
        simp only [List.foldl_cons]
        rw [hc x (hx x List.mem_cons_self)]
        exact ih _ (fun e he => hx e (List.mem_cons_of_mem _ he))
    apply this
    intro e he
    exact Nat.lt_of_lt_of_le (List.mem_range.mp he) hk
  exact ⟨hk, by rw [hk _ (Nat.le_refl _)]; exact store_eq_seqSpec hA⟩

/-- A batch's content is fixed at submission: along every further schedule the content recorded
for an epoch that has been submitted stays what it was (a later `submit` can neither replace nor
shadow it), whether or not the batch is durable yet. -/
theorem submitted_content_is_fixed {s' : State} {evs : List Event} {e : Nat}
    (h : run s evs = some s') (he : e ∈ s.submitted.map Task.epoch) :
    s'.contentOf e = s.contentOf e := by
  obtain ⟨r, hpre⟩ := (run_mono h).2.1
  obtain ⟨t, ht, hte⟩ := List.mem_map.mp he
  unfold State.contentOf
  rw [← hpre, List.find?_append]
  cases hf : s.submitted.find? (fun t => t.epoch == e) with
  | some x => rfl
  | none =>
    have := List.find?_eq_none.mp hf t ht
    simp [hte] at this

/-- Writes of one logical batch touch pairwise distinct store keys (the batch is a set of hash maps),
so the hash-map iteration order inside a batch is irrelevant. -/
theorem within_batch_commutes {l₁ l₂ : List WOp} (hp : l₁.Perm l₂) (hn : (l₁.map WOp.key).Nodup)
    (st : Store) : applyOps st l₁ = applyOps st l₂ :=
  applyOps_perm hp hn st

/-- The stall rule.  When the pipeline has come to rest before shutdown (no serializer, commit or
after-commit step is enabled), with at least one serializer: everything below `expected` has been
consumed in order, the epoch `expected` was never submitted, and the hold-back heap holds exactly
the submitted epochs above it.  Hence batches are stuck iff some submitted epoch lies above a
created-but-unsubmitted one. -/
theorem stall_iff_gap (hr : Reachable nSer s) (hn : 0 < nSer) (hd : s.dpc = .running)
    (hc : s.crashed = false) (hq : Quiescent s) :
    s.pending = s.heap ∧
    s.expected ∉ s.submitted.map Task.epoch ∧
    (∀ e, e ∈ s.heap.map Task.epoch ↔ (e ∈ s.submitted.map Task.epoch ∧ s.expected < e)) ∧
    (∀ e, e ∈ s.consumed.map Task.epoch ↔ e < s.expected) ∧
    (s.heap ≠ [] ↔ ∃ e ∈ s.submitted.map Task.epoch, ∃ g, g < e ∧ g ∉ s.submitted.map Task.epoch) := by
  have h := reachable_allInv s hr
  obtain ⟨q1, q2, q3, _, _⟩ := quiescent_facts h hn hd hc hq
  obtain ⟨h1, h2, h3⟩ := quiescent_split h hn hd hc hq
  refine ⟨by simp [State.pending, q1, q2, q3], h1, h2, h3, ?_⟩
  constructor
  · intro hne
    obtain ⟨t, ht⟩ := List.exists_mem_of_ne_nil _ hne
    have := (h2 t.epoch).mp (List.mem_map.mpr ⟨t, ht, rfl⟩)
    exact ⟨t.epoch, this.1, s.expected, this.2, h1⟩
  · rintro ⟨e, he, g, hg, hgn⟩ hnil
    -- heap empty: every submitted epoch is below `expected`, and everything below `expected` is submitted
    have he' : e < s.expected := by
      rcases Nat.lt_or_ge e s.expected with hlt | hge
      · exact hlt
      · have hne : s.expected ≠ e := fun heq => h1 (heq ▸ he)
        have : e ∈ s.heap.map Task.epoch := (h2 e).mpr ⟨he, by omega⟩
        rw [hnil] at this; cases this
    have hgc : g ∈ s.consumed.map Task.epoch := (h3 g).mpr (by omega)
    have hgp : g ∈ s.places.map Task.epoch := by
      simp only [State.places, List.map_append, List.mem_append]
      exact .inr hgc
    exact hgn ((epochs_perm h.inv).mem_iff.mp hgp)

/-- The process aborts (panic while panicking) only if there is no serializer worker at all, or if
at shutdown some created batch was never submitted.  In particular: at least one serializer and
every created batch submitted ⇒ no abort. -/
theorem abort_only_on_gap (hr : Reachable nSer s) (hc : s.crashed = true) :
    nSer = 0 ∨ ∃ e, e < s.counter ∧ e ∉ s.submitted.map Task.epoch := by
  rcases reachable_crashInv s hr hc with h0 | hg
  · left
    have := (reachable_allInv s hr).a.len
    rw [h0] at this
    simpa using this.symm
  · exact .inr hg

/-- Shutdown terminates: every step other than the user's `create`/`submit` strictly decreases a
natural-number variant (so every run of the pipeline and of the drop is finite), and while the drop
is in progress and the process has not aborted some thread can always take a step (no deadlock in
the join sequence).  Together: once `drop` has begun, every maximal run ends with `returned` (or an
abort, see `abort_only_on_gap`). -/
theorem shutdown_terminates (hr : Reachable nSer s) :
    (∀ ev s', step s ev = some s' → ev.user = false → mu s' < mu s) ∧
    (s.crashed = false → s.dpc ≠ .running → s.dpc ≠ .returned →
      ∃ ev, ev.user = false ∧ (step s ev).isSome = true) := by
  have h := reachable_allInv s hr
  exact ⟨fun ev s' hst hu => mu_decreases h.d (step_sound hst) hu,
    fun hc h1 h2 => shutdown_no_deadlock h hc h1 h2⟩

/-- "shutting-down flag: skip cache notifications, still commit everything": every applied batch is
handed to the after-commit stage exactly once — its epoch is in exactly one of `notified` (caches
told), `deactivated` (skipped because of shutdown), the after-commit channel, or the rest of the
running after-commit loop — whatever the moment at which the flag flips; after the drop returned
each applied batch was either notified or deactivated, exactly once.  (None of the other theorems
depends on the flag: commits are unaffected by it.) -/
theorem after_commit_exactly_once (hr : Reachable nSer s) :
    (s.notified ++ s.deactivated ++ s.afterQ.map Task.epoch ++ s.cpc.notifyList.map Task.epoch).Perm
      (s.applied.map Task.epoch) ∧
    (s.dpc = .returned → (s.notified ++ s.deactivated).Perm (s.applied.map Task.epoch)) :=
  ⟨reachable_notifyInv s hr, fun hd => returned_notify hr hd⟩

/-! ## Non-vacuity -/

section Witness

private def k (n : Nat) : SKey := ⟨0, 1, n, 0⟩
private def b0 : List WOp := [⟨k 1, some 10⟩, ⟨k 2, some 20⟩]
private def b1 : List WOp := [⟨k 1, some 11⟩]
private def b2 : List WOp := [⟨k 2, none⟩, ⟨k 1, some 12⟩]

/-- Three batches created as 0,1,2, submitted as 2,0,1, serialized by two racing workers so that
they reach the commit worker as 2,1,0 (both 2 and 1 are held back); physical commits [0] and [1,2];
overlapping keys. -/
private def sched1 : List Event :=
  [.create, .create, .create,
   .submit 2 b2, .submit 0 b0, .submit 1 b1,
   .serTake 0, .serTake 1, .serSerialise 0 b2.reverse, .serSend 0,
   .serTake 0, .serSerialise 0 b1, .serSend 0,
   .serSerialise 1 b0.reverse, .serSend 1,
   .cRecv, .cBreak, .cRecv, .cBreak, .cRecv,
   .cPop, .cDecide false, .cCommit, .cNotify, .cNotify,
   .cPop, .cDecide true, .cPop, .cDecide true, .cBreak,
   .dSetFlag, .dClose, .serExit 0, .serExit 1, .dJoinSers,
   .cRecvClosed, .cBreak, .cCommit, .cNotify, .cNotify, .cNotify, .cAssert,
   .dJoinCommit, .aRecv, .aExit, .dJoinAfter]

/-- The hypotheses of `drain_on_drop_all` / `final_content` are satisfiable, with a schedule in
which arrival order is the reverse of creation order. -/
example : ∃ s, run (init 2) sched1 = some s ∧ s.dpc = .returned ∧
    (∀ e, e < s.counter → e ∈ s.submitted.map Task.epoch) ∧
    s.log.map (·.map Task.epoch) = [[0], [1, 2]] ∧ s.store (k 1) = some 12 ∧ s.store (k 2) = none :=
  ⟨_, rfl, rfl, by decide, rfl, rfl, rfl⟩

/-- `durable_is_stable` is not vacuous: cut `sched1` after the first physical commit; one batch is
applied at the cut, three at the end, and the first one is still the same batch. -/
example : ∃ s s', run (init 2) (sched1.take 23) = some s ∧ run s (sched1.drop 23) = some s' ∧
    s.applied.map Task.epoch = [0] ∧ s'.applied.map Task.epoch = [0, 1, 2] :=
  ⟨_, _, rfl, rfl, rfl, rfl⟩

/-- … and at that cut the store already holds what the FINAL specification prescribes for epoch 0
(key 1 ↦ 10, key 2 ↦ 20), although epochs 1 and 2 overwrite both keys later. -/
example : ∃ s s', run (init 2) (sched1.take 23) = some s ∧ run s (sched1.drop 23) = some s' ∧
    seqSpec s' 1 (k 1) = some 10 ∧ seqSpec s' 1 (k 2) = some 20 ∧ s'.store (k 1) = some 12 :=
  ⟨_, _, rfl, rfl, rfl, rfl, rfl⟩

example : ∃ s, Reachable 2 s ∧ s.dpc = .returned :=
  ⟨_, run_reachable .init sched1 rfl, rfl⟩

/-- Epoch 0 is created but never submitted; 1 and 2 are: the pipeline comes to rest with both held
back (hypotheses of `stall_iff_gap` satisfiable with a non-empty heap). -/
private def sched2 : List Event :=
  [.create, .create, .create, .submit 2 b2, .submit 1 b1,
   .serTake 0, .serSerialise 0 b2, .serSend 0, .serTake 0, .serSerialise 0 b1, .serSend 0,
   .cRecv, .cBreak, .cRecv, .cBreak]

example : ∃ s, run (init 1) sched2 = some s ∧ s.dpc = .running ∧ s.crashed = false ∧
    s.heap.map Task.epoch = [1, 2] ∧ s.expected = 0 ∧ s.cpc = .wait ∧ s.serQ = [] ∧ s.commitQ = [] :=
  ⟨_, rfl, rfl, rfl, rfl, rfl, rfl, rfl, rfl⟩

/-- …and shutting down in that state aborts (hypothesis of `abort_only_on_gap` satisfiable). -/
example : ∃ s, run (init 1) (sched2 ++ [.dSetFlag, .dClose, .serExit 0, .cRecvClosed, .cBreak, .cCommit,
    .cNotify, .cAssert]) = some s ∧ s.crashed = true :=
  ⟨_, rfl, rfl⟩

/-- With no serializer worker a submit aborts. -/
example : ∃ s, run (init 0) [.create, .submit 0 b0] = some s ∧ s.crashed = true := ⟨_, rfl, rfl⟩

/-- `within_batch_commutes` needs distinct keys: with a repeated key the order matters. -/
example : applyOps Store.empty [⟨k 1, some 1⟩, ⟨k 1, some 2⟩] (k 1)
    ≠ applyOps Store.empty [⟨k 1, some 2⟩, ⟨k 1, some 1⟩] (k 1) := by decide

/-- The commit worker never pops a held-back batch whose epoch is not the expected one: the event is
simply not enabled. -/
example : ∃ s, run (init 1) sched2 = some s ∧ step { s with cpc := .loop } .cPop = none :=
  ⟨_, rfl, rfl⟩

end Witness

end QbiceVerif.WB
