/-
C03 — only justified work is re-executed, for the core engine model (`Model/EngineCore.lean`).
The `log` field of the state records every executor invocation (`execute` appends its key).
-/
import QbiceVerif.Lemmas.EngineCoreEx
namespace Qbice.Core

/-- "an executor is re-run only if the key was never computed or one of the dependencies it read in
    its previous run now has a different value": every key appended to the log by a successful query
    either has no node in the start state, or its node recorded a dependency `(d, o)` whose
    from-scratch value on the committed inputs is no longer `o`. -/
theorem core_exec_justified {p : Program} (wf : WF p) {s : St} (inv : Inv p s) {k fuel : Nat}
    (hk : k < fuel) {v : Val} {s' : St} (h : query p fuel k s = .ok (v, s')) :
    ∃ new, s'.log = s.log ++ new ∧
      ∀ x, x ∈ new → s.nodes x = none ∨
        ∃ n d o, s.nodes x = some n ∧ (d, o) ∈ n.deps ∧ cur p s d ≠ some o := by
  obtain ⟨_, f, _⟩ := (query_spec wf fuel k hk s inv).ok h
  obtain ⟨new, h1, _, h3⟩ := f.log
  exact ⟨new, h1, fun x hx => (h3 x hx).1.2⟩

/-- "at most one execution per key between two input sessions": the keys executed by a query are
    pairwise distinct, none of them was verified in the current epoch before, and all of them are
    verified afterwards (so no later query of the same epoch executes them again). -/
theorem core_exec_once {p : Program} (wf : WF p) {s : St} (inv : Inv p s) {k fuel : Nat}
    (hk : k < fuel) {v : Val} {s' : St} (h : query p fuel k s = .ok (v, s')) :
    ∃ new, s'.log = s.log ++ new ∧ new.Nodup ∧
      ∀ x, x ∈ new → (¬ ∃ n, s.nodes x = some n ∧ n.lastVerified = s.epoch) ∧
        ∃ n', s'.nodes x = some n' ∧ n'.lastVerified = s'.epoch := by
  obtain ⟨_, f, _⟩ := (query_spec wf fuel k hk s inv).ok h
  obtain ⟨new, h1, h2, h3⟩ := f.log
  exact ⟨new, h1, h2, fun x hx => ⟨(h3 x hx).1.1, (h3 x hx).2⟩⟩

example : WF exP ∧ Inv exP exS ∧ 3 < fuelFor exP ∧ exS.log = [] ∧
    (query exP (fuelFor exP) 3 exS).toOption.map (·.2.log) = some [2, 3] :=
  ⟨exP_wf, exS_inv, by decide, by decide, by decide⟩

/-- the same over any number of rounds (tracked engines) run within one epoch: all executions are
    of distinct keys and each is justified with respect to the state before the first round. -/
theorem core_rounds_exec_once {p : Program} (wf : WF p) {s : St} (inv : Inv p s)
    {kss : List (List Key)} {outs : List (List Val)} {s' : St}
    (h : runRounds p kss s = .ok (outs, s')) :
    ∃ new, s'.log = s.log ++ new ∧ new.Nodup ∧
      ∀ x, x ∈ new → (¬ ∃ n, s.nodes x = some n ∧ n.lastVerified = s.epoch) ∧
        (s.nodes x = none ∨ ∃ n d o, s.nodes x = some n ∧ (d, o) ∈ n.deps ∧ cur p s d ≠ some o) := by
  obtain ⟨_, _, f⟩ := (runRounds_spec wf kss s inv).ok h
  obtain ⟨new, h1, h2, h3⟩ := f.log
  exact ⟨new, h1, h2, fun x hx => (h3 x hx).1⟩

example : Inv exP exS ∧
    (runRounds exP [[3, 2], [2, 3, 3]] exS).toOption.map (·.2.log) = some [2, 3] :=
  ⟨exS_inv, by decide⟩

/-- "re-querying a verified key executes nothing": the state (hence the log) is unchanged. -/
theorem core_requery_executes_nothing {p : Program} {s : St} {k : Key} {n : Node}
    (hn : s.nodes k = some n) (hv : n.lastVerified = s.epoch) {fuel : Nat} {v : Val} {s' : St}
    (h : query p fuel k s = .ok (v, s')) : s' = s ∧ v = n.value := by
  cases fuel with
  | zero => simp [query] at h
  | succ f =>
    simp only [query, hn, hv, if_true] at h
    cases h; exact ⟨rfl, rfl⟩

example : (exT.nodes 3).map (·.lastVerified) = some exT.epoch ∧
    (query exP (fuelFor exP) 3 exT).toOption.map (·.1) = some 30 := ⟨by decide, by decide⟩

/-- "a key all of whose recorded edges are clean is answered from its node without executing
    anything" (whatever its verification stamp). -/
theorem core_clean_query_executes_nothing {p : Program} {s : St} (inv : Inv p s) {k : Key} {n : Node}
    (hn : s.nodes k = some n) (hcl : ∀ d o, (d, o) ∈ n.deps → s.dirty k d = false)
    {fuel : Nat} {v : Val} {s' : St} (h : query p fuel k s = .ok (v, s')) :
    s'.log = s.log ∧ v = n.value :=
  query_clean_no_exec inv hn hcl h

/-- "after a session all of whose writes were `Unchanged`, a query of a key that was verified before
    the session executes nothing" and returns the stored value. -/
theorem core_noop_session_executes_nothing {p : Program} {s : St} (inv : Inv p s)
    {sets : List (Key × Val)} {rs : List SetRes} {s1 : St} (hs : session p sets s = .ok (rs, s1))
    (hall : ∀ r, r ∈ rs → r = SetRes.unchanged) {k : Key} {n : Node} (hn : s.nodes k = some n)
    (hv : n.lastVerified = s.epoch) {fuel : Nat} {v : Val} {s2 : St}
    (hq : query p fuel k s1 = .ok (v, s2)) : s2.log = s.log ∧ v = n.value :=
  noop_session_no_exec inv hs hall hn hv hq

example : Inv exP exT ∧ (exT.nodes 3).map (·.lastVerified) = some exT.epoch ∧
    (session exP [(1, 5), (0, 1)] exT).toOption.map (·.1) = some [.unchanged, .unchanged] ∧
    (match session exP [(1, 5), (0, 1)] exT with
      | .ok (_, s1) => (query exP (fuelFor exP) 3 s1).toOption.map (fun r => (r.1, r.2.log))
      | .error _ => none) = some (30, exT.log) :=
  ⟨exT_inv, by decide, by decide, by decide⟩

end Qbice.Core
