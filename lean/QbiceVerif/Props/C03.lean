import QbiceVerif.Model.EngineCore
namespace Qbice.Core

/-- placeholder obligation while the soundness proof is being built: the specification is a
    function of the committed inputs only (extensionality in the inputs it reads). -/
theorem evalProg_congr_c03 (r₁ r₂ : Key → Option Val) (h : ∀ k, r₁ k = r₂ k) (p : Prog) :
    evalProg r₁ p = evalProg r₂ p := by
  induction p with
  | ret v => rfl
  | ask d cont ih => simp [evalProg, h d, ih]

end Qbice.Core
