/-
C03 — only justified work is re-executed.

PART 1 (namespace `Qbice.CoreFw`): the extended core engine model (all five kinds, the repaired
design; `Model/EngineCore.lean`, second half).  The `log` field of the state records every executor
invocation.  Proved under `Shape p` (every projection that is read by a projection has a
value-independent read sequence; see `Props/C01.lean`); the
statement for all programs is `C03_exec_justified_full_statement`.  Since the repair of finding F13
(the `BackwardProjectionPropagation` caller repairs a projection like a pedantic query caller instead
of re-executing it unconditionally) there is no third reason for an execution: a projection, too, runs
only if never computed or if a dependency it read has a different value now.

PART 2 (namespace `Qbice.Core`): the same theorems for the firewall-free core model, unchanged.
-/
import QbiceVerif.Lemmas.EngineCoreFw13
import QbiceVerif.Lemmas.EngineCoreFwTotal
import QbiceVerif.Lemmas.EngineCoreFwExecs
import QbiceVerif.Lemmas.EngineCoreFwEx
import QbiceVerif.Lemmas.EngineCoreEx
namespace Qbice.CoreFw
open Qbice.Core (Prog Err Write SetRes Op OpOut Ref Sat)

/-- the statement for all five kinds: in a state reached by a history, every executor invocation of a
    user query is (1) a first computation, or (2) the node recorded a dependency whose from-scratch
    value is no longer the observed one — backward projection included -/
def C03_exec_justified_full_statement : Prop :=
  ∀ (p : Program), WF p → ∀ (ops : List Op) (outs : List OpOut) (s0 : St),
    runOps p ops {} = .ok (outs, s0) →
    ∀ (k fuel : Nat) (v : Val) (s' : St), k < fuel →
      query p fuel .user k { s0 with log := [] } = .ok (v, s') →
      ∀ x, x ∈ s'.log → s0.nodes x = none ∨
        ∃ n d o, s0.nodes x = some n ∧ (d, o) ∈ n.deps ∧ cur p s0 d ≠ some o

/-- "an executor is re-run only if the key was never computed or one of the dependencies it read in
    its previous run now has a different value": every key appended to the log by a successful query
    of the user either has no node in the start state, or its node recorded a dependency `(d, o)`
    whose from-scratch value on the committed inputs is no longer `o` — firewalls included (a firewall
    whose recomputation returns the stored value lets nothing above it run), projections re-run by
    backward projection included (finding F13 repaired).
    PARTIAL: `Shape p` = every projection that is read by a projection has a value-independent read sequence. -/
theorem core_exec_justified_partial {p : Program} (wf : WF p) (sh : Shape p) {s : St} (inv : Inv p s)
    {k fuel : Nat} (hk : k < fuel) {v : Val} {s' : St} (h : query p fuel .user k s = .ok (v, s')) :
    ∃ new, s'.log = s.log ++ new ∧
      ∀ x, x ∈ new → s.nodes x = none ∨
        ∃ n d o, s.nodes x = some n ∧ (d, o) ∈ n.deps ∧ cur p s d ≠ some o := by
  obtain ⟨_, f, _⟩ := (query_spec wf sh hk inv).ok h
  obtain ⟨new, h1, _, h3, _⟩ := f.log
  exact ⟨new, h1, fun x hx => (h3 x hx).1.2⟩

/-- non-vacuity, the shape of finding F13 (A → B → A with B never observed by the projection): the
    projection 3 of `exD` observed firewall 2 = 1; the firewall changes to 0 on behalf of a fresh root
    (key 4: no backward projection), then back to 1; the user's next query of key 4 performs the
    pending backward projection of the firewall: the projection is REPAIRED (its observation is
    current) and NOT re-executed — only the firewall and key 4 run; before the repair of F13 the
    executions of that round were `[2, 3, 4]` -/
example : WF exD ∧ Shape exD ∧ (runOps exD [.sess [.set 0 1, .set 1 5], .round [3], .sess [.set 0 0],
      .round [4], .sess [.set 0 1], .round [4], .round [3]] {}).toOption.map (·.1) =
    some [.sess [.fresh, .fresh], .round [10] [2, 3], .sess [.updated], .round [5] [2, 4],
      .sess [.updated], .round [6] [2, 4], .round [10] []] :=
  ⟨exD_wf, exD_pf.shape, by decide⟩

/-- class B (static projection chains), restated -/
theorem core_exec_justified_classB_partial {p : Program} (wf : WF p) (sp : StaticProj p) {s : St}
    (inv : Inv p s) {k fuel : Nat} (hk : k < fuel) {v : Val} {s' : St}
    (h : query p fuel .user k s = .ok (v, s')) :
    ∃ new, s'.log = s.log ++ new ∧
      ∀ x, x ∈ new → s.nodes x = none ∨
        ∃ n d o, s.nodes x = some n ∧ (d, o) ∈ n.deps ∧ cur p s d ≠ some o :=
  core_exec_justified_partial wf (sp.shape wf) inv hk h

/-- non-vacuity of class B: the chain of three projections `exS` after the firewall changed: every
    node of the chain is re-executed once -/
example : WF exS ∧ StaticProj exS ∧ Inv exS exSU ∧
    (query exS (fuelFor exS) .user 5 { exSU with log := [] }).toOption.map (·.2.log) = some [1, 2, 3, 4, 5] :=
  ⟨exS_wf, exS_static, exSU_inv, by decide⟩

/-- "at most one execution per key between two input sessions": the keys executed by a query are
    pairwise distinct, none of them was verified in the current epoch before, and all of them are
    verified afterwards.  PARTIAL: `Shape p` = every projection that is read by a projection has a value-independent read sequence. -/
theorem core_exec_once_partial {p : Program} (wf : WF p) (sh : Shape p) {s : St} (inv : Inv p s)
    {k fuel : Nat} (hk : k < fuel) {v : Val} {s' : St} (h : query p fuel .user k s = .ok (v, s')) :
    ∃ new, s'.log = s.log ++ new ∧ new.Nodup ∧
      ∀ x, x ∈ new → (¬ ∃ n, s.nodes x = some n ∧ n.lastVerified = s.epoch) ∧
        ∃ n', s'.nodes x = some n' ∧ n'.lastVerified = s'.epoch := by
  obtain ⟨_, f, _⟩ := (query_spec wf sh hk inv).ok h
  obtain ⟨new, h1, h2, h3, _⟩ := f.log
  exact ⟨new, h1, h2, fun x hx => ⟨(h3 x hx).1.1, (h3 x hx).2⟩⟩

/-- "an external-input executor runs on first demand and under `refresh`, never otherwise".
    PARTIAL (first half): `Shape p`. -/
theorem core_external_only_on_demand_or_refresh_partial {p : Program} (wf : WF p) (sh : Shape p)
    {s : St} (inv : Inv p s) :
    (∀ {k fuel : Nat}, k < fuel → ∀ {v : Val} {s' : St}, query p fuel .user k s = .ok (v, s') →
      ∃ new, s'.log = s.log ++ new ∧
        ∀ x d, x ∈ new → p[x]? = some d → d.kind = .external → s.nodes x = none) ∧
    (∀ {ws : List Write} {rs : List SetRes} {s' : St}, session p ws s = .ok (rs, s') →
      ∃ new, s'.log = s.log ++ new ∧
        ∀ x, x ∈ new → Write.refresh ∈ ws ∧ ∃ n, s.nodes x = some n ∧ n.kind = .external) := by
  refine ⟨?_, ?_⟩
  · intro k fuel hk v s' h
    obtain ⟨_, f, _⟩ := (query_spec wf sh hk inv).ok h
    obtain ⟨new, h1, _, h3, _⟩ := f.log
    refine ⟨new, h1, ?_⟩
    intro x d hx hp hd
    have noDeps : ∀ n dd o, s.nodes x = some n → (dd, o) ∈ n.deps → False := by
      intro n dd o hn hm
      obtain ⟨d', hp', hk', hleaf⟩ := inv.kind x n hn
      rw [hp] at hp'; cases hp'
      rw [(hleaf (Or.inr (by rw [← hk', hd]))).1] at hm
      cases hm
    rcases (h3 x hx).1.2 with h0 | ⟨n, dd, o, hn, hm, _⟩
    · exact h0
    · exact (noDeps n dd o hn hm).elim
  · intro ws rs s' h
    obtain ⟨_, _, _, _, _, _, hl⟩ := session_spec inv h
    exact hl

/-- "`refresh` re-runs the executor of every external key computed so far" -/
theorem core_refresh_reexecutes_all_externals {p : Program} {s : St} {rs : List SetRes} {s' : St}
    (h : session p [.refresh] s = .ok (rs, s')) :
    rs = [.refreshed] ∧ s'.log = s.log ++ (List.range p.length).filter (isExtNode s) := by
  simp only [session, applySets, refreshAll, List.nil_append, Except.ok.injEq, Prod.mk.injEq] at h
  obtain ⟨h1, h2⟩ := h
  subst h1; subst h2
  exact ⟨rfl, rfl⟩

/-- non-vacuity: the firewall diamond after a session that the firewall absorbs: only the firewall
    runs (justified by its changed input), nothing above it; after a session that changes it,
    everything above runs -/
example : WF exF ∧ Shape exF ∧ Inv exF exFS ∧ Inv exF exFU ∧
    (query exF (fuelFor exF) .user 5 { exFS with log := [] }).toOption.map (·.2.log) = some [2] ∧
    (query exF (fuelFor exF) .user 5 { exFU with log := [] }).toOption.map (·.2.log) = some [2, 3, 4, 5] :=
  ⟨exF_wf, exF_noProj.over.shape, exFS_inv, exFU_inv, by decide, by decide⟩

/-- the two statements above WITHOUT the premise "the request answered": in a state satisfying the
    invariant in which every input key has a value, a request by the user for a key of the program IS
    `.ok`, and its executions are pairwise distinct, each a first computation or justified by an observed
    dependency whose from-scratch value changed.  PARTIAL: `Shape p`. -/
theorem core_exec_justified_total_partial {p : Program} (wf : WF p) (sh : Shape p) {s : St} (inv : Inv p s)
    (hin : InputsSet p s) {k fuel : Nat} (hk : k < fuel) (hlen : k < p.length) :
    ∃ v s' new, query p fuel .user k s = .ok (v, s') ∧ s'.log = s.log ++ new ∧ new.Nodup ∧
      ∀ x, x ∈ new → s.nodes x = none ∨
        ∃ n d o, s.nodes x = some n ∧ (d, o) ∈ n.deps ∧ cur p s d ≠ some o := by
  obtain ⟨⟨v, s'⟩, h⟩ := query_total wf sh hk hlen inv hin
  obtain ⟨new, e, j⟩ := core_exec_justified_partial wf sh inv hk h
  obtain ⟨new', e', nd, _⟩ := core_exec_once_partial wf sh inv hk h
  have : new' = new := List.append_cancel_left (e'.symm.trans e)
  exact ⟨v, s', new, h, e, this ▸ nd, j⟩

/-- non-vacuity: `exDU` (the diamond with a firewall and a projection after the firewall's input
    changed) has both inputs set -/
example : WF exD ∧ Shape exD ∧ Inv exD exDU ∧ InputsSet exD exDU ∧ 5 < fuelFor exD ∧ 5 < exD.length := by
  refine ⟨exD_wf, exD_pf.shape, exDU_inv, ?_, by decide, by decide⟩
  intro k d hp hk
  match k, hp with
  | 0, _ => decide
  | 1, _ => decide
  | 2, hp | 3, hp | 4, hp | 5, hp => simp [exD] at hp; subst hp; simp at hk
  | n + 6, hp => simp [exD] at hp

/-- the same over any number of rounds run within one epoch: all executions are of distinct keys
    and each is justified with respect to the state before the first round.
    PARTIAL: `Shape p` = every projection that is read by a projection has a value-independent read sequence. -/
theorem core_rounds_exec_once_partial {p : Program} (wf : WF p) (sh : Shape p) {s : St} (inv : Inv p s)
    {kss : List (List Key)} {outs : List (List Val)} {s' : St}
    (h : runRounds p kss s = .ok (outs, s')) :
    ∃ new, s'.log = s.log ++ new ∧ new.Nodup ∧
      ∀ x, x ∈ new → (¬ ∃ n, s.nodes x = some n ∧ n.lastVerified = s.epoch) ∧
        (s.nodes x = none ∨ ∃ n d o, s.nodes x = some n ∧ (d, o) ∈ n.deps ∧ cur p s d ≠ some o) := by
  obtain ⟨_, _, f⟩ := (runRounds_spec wf sh kss s inv).ok h
  obtain ⟨new, h1, h2, h3, _⟩ := f.log
  exact ⟨new, h1, h2, fun x hx => (h3 x hx).1⟩

example : Inv exF exFU ∧
    (runRounds exF [[5, 4], [3, 5, 5]] { exFU with log := [] }).toOption.map (·.2.log) = some [2, 3, 4, 5] :=
  ⟨exFU_inv, by decide⟩

/-- C03 ALONG A WHOLE HISTORY: for a well-formed history (`HistOK`) the run from the initial state IS
    `.ok`, and (`ExecOK`, `Lemmas/EngineCoreFwExecs.lean`) in every round the reported executor invocations
    (`execs` of the `.round` output — what the correspondence check compares with the implementation) are
    each justified in the state in which the round began (`Just`: the key was not verified in this epoch,
    and it had never been computed or a recorded dependency of it has a different from-scratch value now,
    i.e. since the key's previous run), and all invocations between two sessions — over all rounds of the
    segment — are pairwise distinct (each key runs at most once per epoch).  PARTIAL: `Shape p`. -/
theorem core_history_exec_justified_partial {p : Program} (wf : WF p) (sh : Shape p) {ops : List Op}
    (hok : HistOK p ops) :
    ∃ outs s', runOps p ops {} = .ok (outs, s') ∧ ExecOK p ops outs {} [] := by
  obtain ⟨⟨outs, s'⟩, h⟩ := runOps_total wf sh ops {} (Inv.init p) hok.1 (Or.inr hok.2)
  exact ⟨outs, s', h, execOK_of_run wf sh ops {} [] outs s' (Inv.init p) List.nodup_nil
    (fun x hx => by cases hx) h⟩

/-- non-vacuity: `exDOps` (three sessions, three rounds on the diamond with a firewall and a projection)
    is well formed; the invocations its rounds report -/
example : WF exD ∧ Shape exD ∧ HistOK exD exDOps ∧
    (runOps exD exDOps {}).toOption.map (fun r => r.1.filterMap fun o =>
      match o with
      | .round _ execs => some execs
      | _ => none) = some [[2, 3, 4, 5], [2], [2, 3, 4, 5]] :=
  ⟨exD_wf, exD_pf.shape, exDOps_histOK, by decide +kernel⟩

/-- "re-querying a verified key executes nothing": the state (hence the log) is unchanged — for all
    five kinds, also for a firewall with a pending backward projection (the user does not perform it). -/
theorem core_requery_executes_nothing {p : Program} {s : St} {k : Key} {n : Node}
    (hn : s.nodes k = some n) (hv : n.lastVerified = s.epoch) {fuel : Nat} {v : Val} {s' : St}
    (h : query p fuel .user k s = .ok (v, s')) : s' = s ∧ v = n.value := by
  cases fuel with
  | zero => simp [query, queryU, repairTfc, queryQ, hn, hv] at h
  | succ f =>
    rw [query_verified hn hv f] at h
    cases h; exact ⟨rfl, rfl⟩

example : (exFT.nodes 5).map (·.lastVerified) = some exFT.epoch ∧
    (query exF (fuelFor exF) .user 5 exFT).toOption.map (·.1) = some 16 := ⟨by decide, by decide⟩

end Qbice.CoreFw

-- ====================================================================== PART 2: firewall-free model

namespace Qbice.Core

/-- "an executor is re-run only if the key was never computed or one of the dependencies it read in
    its previous run now has a different value": every key appended to the log by a successful query
    either has no node in the start state, or its node recorded a dependency `(d, o)` whose
    from-scratch value on the committed inputs is no longer `o`. -/
theorem core_exec_justified {p : Program} (wf : WF p) {s : St} (inv : Inv p s) {k fuel : Nat}
    (hk : k < fuel) {v : Val} {s' : St} (h : query p fuel k s = .ok (v, s')) :
    ∃ new, s'.log = s.log ++ new ∧
      ∀ x, x ∈ new → s.nodes x = none ∨
        ∃ n d o, s.nodes x = some n ∧ (d, o) ∈ n.deps ∧ cur p s d ≠ some o := by
  obtain ⟨_, f, _⟩ := (query_spec wf fuel k hk s inv).ok h
  obtain ⟨new, h1, _, h3, _⟩ := f.log
  exact ⟨new, h1, fun x hx => (h3 x hx).1.2⟩

/-- "at most one execution per key between two input sessions": the keys executed by a query are
    pairwise distinct, none of them was verified in the current epoch before, and all of them are
    verified afterwards (so no later query of the same epoch executes them again). -/
theorem core_exec_once {p : Program} (wf : WF p) {s : St} (inv : Inv p s) {k fuel : Nat}
    (hk : k < fuel) {v : Val} {s' : St} (h : query p fuel k s = .ok (v, s')) :
    ∃ new, s'.log = s.log ++ new ∧ new.Nodup ∧
      ∀ x, x ∈ new → (¬ ∃ n, s.nodes x = some n ∧ n.lastVerified = s.epoch) ∧
        ∃ n', s'.nodes x = some n' ∧ n'.lastVerified = s'.epoch := by
  obtain ⟨_, f, _⟩ := (query_spec wf fuel k hk s inv).ok h
  obtain ⟨new, h1, h2, h3, _⟩ := f.log
  exact ⟨new, h1, h2, fun x hx => ⟨(h3 x hx).1.1, (h3 x hx).2⟩⟩

/-- "an external-input executor runs on first demand and under `refresh`, never otherwise": an
    external key appears among the executions of a successful query only if it had no node in the
    start state (so a query never re-runs it, whatever its stamp and whatever the world has become);
    every execution logged by a session is that of an external key that had been computed before the
    session, and the session contains a `refresh` write (a session without one executes nothing). -/
theorem core_external_only_on_demand_or_refresh {p : Program} (wf : WF p) {s : St} (inv : Inv p s) :
    (∀ {k fuel : Nat}, k < fuel → ∀ {v : Val} {s' : St}, query p fuel k s = .ok (v, s') →
      ∃ new, s'.log = s.log ++ new ∧
        ∀ x d, x ∈ new → p[x]? = some d → d.kind = .external → s.nodes x = none) ∧
    (∀ {ws : List Write} {rs : List SetRes} {s' : St}, session p ws s = .ok (rs, s') →
      ∃ new, s'.log = s.log ++ new ∧
        ∀ x, x ∈ new → Write.refresh ∈ ws ∧ ∃ n, s.nodes x = some n ∧ n.kind = .external) := by
  refine ⟨?_, ?_⟩
  · intro k fuel hk v s' h
    obtain ⟨_, f, _⟩ := (query_spec wf fuel k hk s inv).ok h
    obtain ⟨new, h1, _, h3, _⟩ := f.log
    refine ⟨new, h1, ?_⟩
    intro x d hx hp hd
    rcases (h3 x hx).1.2 with h0 | ⟨n, dd, o, hn, hm, _⟩
    · exact h0
    · obtain ⟨d', hp', hk', hnd⟩ := inv.kind x n hn
      rw [hp] at hp'; cases hp'
      rw [hnd (by rw [← hk', hd]; decide)] at hm
      cases hm
  · intro ws rs s' h
    obtain ⟨_, _, _, _, _, _, hl⟩ := session_spec inv h
    exact hl

/-- "`refresh` re-runs the executor of every external key computed so far": a session that consists
    of one `refresh` logs exactly the external keys that have a node, in key order, each once. -/
theorem core_refresh_reexecutes_all_externals {p : Program} {s : St} {rs : List SetRes} {s' : St}
    (h : session p [.refresh] s = .ok (rs, s')) :
    rs = [.refreshed] ∧ s'.log = s.log ++ (List.range p.length).filter (isExtNode s) := by
  simp only [session, applySets, refreshAll, List.nil_append, Except.ok.injEq, Prod.mk.injEq] at h
  obtain ⟨h1, h2⟩ := h
  subst h1; subst h2
  exact ⟨rfl, rfl⟩

/-- in `exV` the external key 1 has a node from an earlier epoch and the world has changed since:
    querying it (or key 3 above it) executes nothing; the `refresh` session runs exactly key 1; a
    session with a world write only runs nothing -/
example : WF exQ ∧ Inv exQ exV ∧ (exV.nodes 1).map (·.lastVerified) ≠ some exV.epoch ∧
    (query exQ (fuelFor exQ) 1 exV).toOption.map (fun r => (r.1, r.2.log)) = some (7, []) ∧
    (query exQ (fuelFor exQ) 3 exV).toOption.map (fun r => (r.1, r.2.log)) = some (16, []) ∧
    (session exQ [.refresh] exV).toOption.map (·.2.log) = some [1] ∧
    (session exQ [.world 1 3] exV).toOption.map (·.2.log) = some [] :=
  ⟨exQ_wf, exV_inv, by decide, by decide, by decide, by decide, by decide⟩

example : WF exP ∧ Inv exP exS ∧ 3 < fuelFor exP ∧ exS.log = [] ∧
    (query exP (fuelFor exP) 3 exS).toOption.map (·.2.log) = some [2, 3] :=
  ⟨exP_wf, exS_inv, by decide, by decide, by decide⟩

/-- non-vacuity with an unordered group: in `exW` key 2 read keys 0 and 1 in one unordered group
    (recorded as the flat list `[(0, 1), (1, 7)]`); the external key 1 was refreshed to 9 since: key 2
    is re-executed (justified by the member `(1, 7)`), then key 3; the external key is not. -/
example : WF exQ ∧ Inv exQ exW ∧ (exW.nodes 2).map (·.deps) = some [(0, 1), (1, 7)] ∧
    cur exQ exW 1 = some 9 ∧
    (query exQ (fuelFor exQ) 3 { exW with log := [] }).toOption.map (fun r => (r.1, r.2.log)) =
      some (20, [2, 3]) :=
  ⟨exQ_wf, exW_inv, by decide, by decide, by decide⟩

/-- the same over any number of rounds (tracked engines) run within one epoch: all executions are
    of distinct keys and each is justified with respect to the state before the first round. -/
theorem core_rounds_exec_once {p : Program} (wf : WF p) {s : St} (inv : Inv p s)
    {kss : List (List Key)} {outs : List (List Val)} {s' : St}
    (h : runRounds p kss s = .ok (outs, s')) :
    ∃ new, s'.log = s.log ++ new ∧ new.Nodup ∧
      ∀ x, x ∈ new → (¬ ∃ n, s.nodes x = some n ∧ n.lastVerified = s.epoch) ∧
        (s.nodes x = none ∨ ∃ n d o, s.nodes x = some n ∧ (d, o) ∈ n.deps ∧ cur p s d ≠ some o) := by
  obtain ⟨_, _, f⟩ := (runRounds_spec wf kss s inv).ok h
  obtain ⟨new, h1, h2, h3, _⟩ := f.log
  exact ⟨new, h1, h2, fun x hx => (h3 x hx).1⟩

example : Inv exP exS ∧
    (runRounds exP [[3, 2], [2, 3, 3]] exS).toOption.map (·.2.log) = some [2, 3] :=
  ⟨exS_inv, by decide⟩

/-- "re-querying a verified key executes nothing": the state (hence the log) is unchanged. -/
theorem core_requery_executes_nothing {p : Program} {s : St} {k : Key} {n : Node}
    (hn : s.nodes k = some n) (hv : n.lastVerified = s.epoch) {fuel : Nat} {v : Val} {s' : St}
    (h : query p fuel k s = .ok (v, s')) : s' = s ∧ v = n.value := by
  cases fuel with
  | zero => simp [query] at h
  | succ f =>
    simp only [query, hn, hv, if_true] at h
    cases h; exact ⟨rfl, rfl⟩

example : (exT.nodes 3).map (·.lastVerified) = some exT.epoch ∧
    (query exP (fuelFor exP) 3 exT).toOption.map (·.1) = some 30 := ⟨by decide, by decide⟩

/-- "a key all of whose recorded edges are clean is answered from its node without executing
    anything" (whatever its verification stamp). -/
theorem core_clean_query_executes_nothing {p : Program} {s : St} (inv : Inv p s) {k : Key} {n : Node}
    (hn : s.nodes k = some n) (hcl : ∀ d o, (d, o) ∈ n.deps → s.dirty k d = false)
    {fuel : Nat} {v : Val} {s' : St} (h : query p fuel k s = .ok (v, s')) :
    s'.log = s.log ∧ v = n.value :=
  query_clean_no_exec inv hn hcl h

/-- "after a session all of whose writes were `Unchanged`, a query of a key that was verified before
    the session executes nothing" and returns the stored value — also when the session changed world
    cells (without a `refresh` the external values do not move). -/
theorem core_noop_session_executes_nothing {p : Program} {s : St} (inv : Inv p s)
    {ws : List Write} {rs : List SetRes} {s1 : St} (hs : session p ws s = .ok (rs, s1))
    (hall : ∀ r, r ∈ rs → r = SetRes.unchanged ∨ r = SetRes.world) {k : Key} {n : Node}
    (hn : s.nodes k = some n)
    (hv : n.lastVerified = s.epoch) {fuel : Nat} {v : Val} {s2 : St}
    (hq : query p fuel k s1 = .ok (v, s2)) : s2.log = s.log ∧ v = n.value :=
  noop_session_no_exec inv hs hall hn hv hq

example : Inv exP exT ∧ (exT.nodes 3).map (·.lastVerified) = some exT.epoch ∧
    (session exP [.set 1 5, .set 0 1] exT).toOption.map (·.1) = some [.unchanged, .unchanged] ∧
    (match session exP [.set 1 5, .set 0 1] exT with
      | .ok (_, s1) => (query exP (fuelFor exP) 3 s1).toOption.map (fun r => (r.1, r.2.log))
      | .error _ => none) = some (30, exT.log) :=
  ⟨exT_inv, by decide, by decide, by decide⟩

example : Inv exQ exU ∧ (exU.nodes 3).map (·.lastVerified) = some exU.epoch ∧
    (session exQ [.world 1 9, .set 0 1] exU).toOption.map (·.1) = some [.world, .unchanged] ∧
    (match session exQ [.world 1 9, .set 0 1] exU with
      | .ok (_, s1) => (query exQ (fuelFor exQ) 3 s1).toOption.map (fun r => (r.1, r.2.log))
      | .error _ => none) = some (16, exU.log) :=
  ⟨exU_inv, by decide, by decide, by decide⟩

end Qbice.Core
