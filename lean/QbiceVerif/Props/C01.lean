/-
C01 — incremental answers equal a from-scratch evaluation, for the core engine model
(`Model/EngineCore.lean`).  `cur p s k` is the from-scratch value of `k` on the inputs committed
in `s` (`evalSpec`, which never looks at cached nodes); `Inv` is the engine invariant
(`Lemmas/EngineCore.lean`); it holds initially and is preserved by every operation.
-/
import QbiceVerif.Lemmas.EngineCoreEx
namespace Qbice.Core

/-- "every value returned by a query equals the value a from-scratch evaluation on the currently
    committed inputs would produce": a successful query in a state satisfying the invariant returns
    `cur p s k`, keeps the invariant, and changes neither the committed inputs nor the epoch. -/
theorem core_query_sound {p : Program} (wf : WF p) {s : St} (inv : Inv p s) {k fuel : Nat}
    (hk : k < fuel) {v : Val} {s' : St} (h : query p fuel k s = .ok (v, s')) :
    cur p s k = some v ∧ Inv p s' ∧ inputsOf s' = inputsOf s ∧ s'.epoch = s.epoch := by
  obtain ⟨i, f, _, c, _⟩ := (query_spec wf fuel k hk s inv).ok h
  exact ⟨c, i, f.inputs, f.epoch⟩

example : WF exP ∧ Inv exP exS ∧ 3 < fuelFor exP ∧
    (query exP (fuelFor exP) 3 exS).toOption.map (·.1) = some 0 :=
  ⟨exP_wf, exS_inv, by decide, by decide⟩

/-- "an input session (epoch bump, writes, commit with dirty propagation) re-establishes the engine
    invariant; each write reports Fresh / Updated / Unchanged exactly by presence / equality of the
    previously committed value, and the committed inputs afterwards are the previous ones overridden
    by the writes in order". -/
theorem core_session_inv {p : Program} {s : St} (inv : Inv p s) {sets : List (Key × Val)}
    {rs : List SetRes} {s' : St} (h : session p sets s = .ok (rs, s')) :
    Inv p s' ∧ rs = writeResults sets (inputsOf s) ∧
      inputsOf s' = applyWrites sets (inputsOf s) ∧ s'.epoch = s.epoch + 1 := by
  obtain ⟨a, b, c, d, _⟩ := session_spec inv h
  exact ⟨a, b, c, d⟩

example : Inv exP exT ∧
    (session exP [(0, 0), (1, 5)] exT).toOption.map (·.1) = some [.updated, .unchanged] :=
  ⟨exT_inv, by decide⟩

/-- "for every history of sessions and rounds run from the initial state, every value returned by
    every round equals the from-scratch value on the inputs committed at that point (and every write
    result is the reference one)": `OutOK` compares the outputs with `evalSpec` / `writeResults` on
    the reference input map, starting from no inputs; the final state satisfies the invariant. -/
theorem core_history_sound {p : Program} (wf : WF p) {ops : List Op} {outs : List OpOut} {s' : St}
    (h : runOps p ops {} = .ok (outs, s')) : OutOK p ops outs (fun _ => none) ∧ Inv p s' := by
  have := (runOps_spec wf ops {} (Inv.init p)).ok h
  exact this

/-- termination is a conclusion, not an assumption: with fuel above the key (`fuelFor p` for every
    key of the program) a query in a state satisfying the invariant never runs out of fuel. -/
theorem core_query_no_out_of_fuel {p : Program} (wf : WF p) {s : St} (inv : Inv p s) {k fuel : Nat}
    (hk : k < fuel) : query p fuel k s ≠ .error .outOfFuel :=
  (query_spec wf fuel k hk s inv).not_oof

/-- … and no history run with `fuelFor p` ever runs out of fuel. -/
theorem core_history_no_out_of_fuel {p : Program} (wf : WF p) (ops : List Op) :
    runOps p ops {} ≠ .error .outOfFuel :=
  (runOps_spec wf ops {} (Inv.init p)).not_oof

/-- non-vacuity: a 4-key program (two inputs, a node with a conditional read, a node above it) is
    `WF`, and a 6-operation history runs to completion with the expected outputs: the conditional
    read disappears after input 0 changes (round 2) and reappears (round 3). -/
example : WF exP ∧ (runOps exP exOps {}).toOption.map (·.1) =
    some [.sess [.fresh, .fresh], .round [30, 15], .sess [.updated, .unchanged], .round [0],
      .sess [.updated], .round [30, 30]] :=
  ⟨exP_wf, by decide⟩

end Qbice.Core
