/-
C01 — incremental answers equal a from-scratch evaluation.

PART 1 (namespace `Qbice.CoreFw`): the extended core engine model (`Model/EngineCore.lean`, second
half): ALL FIVE kinds — input, normal, external, FIREWALL, PROJECTION — ordered reads and unordered
read groups, the engine logic of the REPAIRED design (`Model/Engine.lean` with `f1p`, `f1q`, `f14`,
`f1r`; validated line by line against that model and the from-scratch oracle).  `cur p s k` is the
from-scratch value of `k` on the inputs committed in `s` and the external values of `s` (`evalSpec`
never looks at cached values); `Inv` is the engine invariant (`Lemmas/EngineCoreFw1.lean`).

What is proved: every theorem below under `Shape p`: EVERY PROJECTION THAT IS READ BY A PROJECTION HAS A
VALUE-INDEPENDENT READ SEQUENCE (`ProgStatic`) — a projection reads firewalls and static projections
only; its own reads may depend on the values read: dynamic projections sit on top of projection chains
of any depth.  This contains (A) `NoProjOverProj` (no projection reads a projection) and (B)
`StaticProj` (every projection is static).  Firewalls, projections, transitive firewall sets, the trust
rule, the observation refresh, dirty propagation from a changed firewall / projection in the same
epoch, pending backward projections and their (recursive, pedantic) execution are all in.
Corollaries `…_classA` / `…_classB` restate the main theorem per class.  The statements for all five
kinds are `C01_full_statement` / `C01_termination_full_statement`; they are NOT proved, and for the
design without `f1r` they are FALSE (`repair_without_f1r_unsound_shape` documents the history; the
model with `f1r` answers it correctly).

PART 2 (namespace `Qbice.Core`): the same theorems for the firewall-free core model (the model of
C07 / C08), unchanged.
-/
import QbiceVerif.Lemmas.EngineCoreFwEx
import QbiceVerif.Lemmas.EngineCoreFwDet
import QbiceVerif.Lemmas.EngineCoreFwReads
import QbiceVerif.Lemmas.EngineCoreEx
namespace Qbice.CoreFw
open Qbice.Core (Prog Err Write SetRes Op OpOut Ref Sat applyWrites writeResults applyWorld)

/-- the full statement: for every ranked program of the five kinds, every value returned by every
    round of every history equals the from-scratch value on the inputs committed at that point, and
    every write result is the reference one -/
def C01_full_statement : Prop :=
  ∀ (p : Program), WF p → ∀ (ops : List Op) (outs : List OpOut) (s' : St),
    runOps p ops {} = .ok (outs, s') → OutOK p ops outs Ref.init

/-
STATUS OF `C01_full_statement` (and of `C01_termination_full_statement`,
`C03_exec_justified_full_statement`): NOT a theorem yet.  Proved: `Shape p` (every projection that is
read by a projection is static).  Open: DYNAMIC projections that are read by projections.  (Since the
F13 repair the backward projection is a pedantic repair and needs none of the clauses below for the
projection it repairs; they are still needed for the trust rule of NON-pedantic callers: a clean edge
into — or above — a projection is skipped when the recorded frontier is settled.)  No counterexample is known: 280 000 generated cases of the stress
family `--mode pjchain` (chains of 2–5 projections with conditional reads at every level) agree with
the from-scratch oracle, in this model, in `Model/Engine.lean` and in the fixed implementation.

What the proof needs beyond the present development (all clauses about a projection `z` with a
recorded callee `g`):
  L1  (have, `Inv.pjBroken`, value part)  value of `g` ≠ observed, or `g` a projection whose set ≠ the
      fingerprint seen by `z`  ⇒  `g` has a pending backward projection.
  L2  `g` a projection with a pending backward projection ⇒ some firewall of `tfc g` has one.
  L3  … ⇒ some firewall of `z.seen g` has one (this is what makes `Inv.proj_solid` go through: a
      projection whose set is settled has no pending callee, hence — L1 — current observations).
  Available building block: read-prefix determinism of executors, PROVED for the model's executors
  (`Lemmas/EngineCoreFwDet.lean`: `readKeys_prefix`, `runProg_readKeys`, `exec_rereads_first_changed`):
  the first recorded callee whose value changed is read again by the next run.  With it L2 is
  established whenever a pending flag is set (the cause is still a callee, it is pending by L1).
  MISSING LEMMA (the one that needs history):  L3 for an edge `(z, g)` whose observation is OLDER than
  `g`'s last change.  `z.seen g` is the set `g` had when `z` observed it; the pending firewall at the
  bottom of `g`'s "spine" (`d*(g)` = first callee of `g`, in read order, with a pending backward
  projection; `Spine g` = `d*(g)` if it is a firewall, else `Spine (d*(g))`) lies in that old set only
  because of what happened to `g` and to the nodes below it BETWEEN the observation and now — nodes
  that no longer exist in the state.  Candidate formulation (ghost state, erased by the executable
  model; not carried out): per node a version counter `ver` (bumped when value or set changes), the
  version `clearVer` at which its backward projection was last completed, and per version `w` the set
  `hist w` and the observed callees `histObs w : List (Key × version)`; per observation the version
  seen.  Ghost invariant, for a projection `c` with a pending backward projection and every version
  `w ∈ [clearVer c, ver c]`:
    (H1) `Spine c ∈ hist c w`;
    (H2) the read prefix of `histObs c w` up to `d*(c)` has the keys of the current one, every `(x, u)`
         in it has `u ≥ clearVer x`, and `hist c w` contains `x` (firewall) resp. `hist x u` (projection);
    (H3) every recorded edge `(z, c)` saw a version `≥ clearVer c`, and `z.seen c = hist c (that version)`.
  L3 is H1 + H3.  Preservation, case by case: `c` re-executed while pending — `exec_rereads_first_changed`
  keeps the prefix up to `d*(c)`, so `Spine c` does not move; `c` becomes pending — `clearVer c = ver c`
  before, the cause is an old callee, H1 for the single old version follows from H1/H3 of the cause;
  a callee `x` before `d*(c)` becomes pending — `Spine c` moves to `Spine x ∈ hist x u ⊆ hist c w` by H2;
  `done_backward_projection` of `k` — every pending projection whose spine ends in `k` has been
  re-verified by the (nested) loops of `backProject_spec`, `clearVer k := ver k`.  With H1–H3 preserved
  by `publish_spec`, `Inv.setSame`, `backProject_spec` and `session_spec`, `Inv.proj_solid` closes for
  all programs and every theorem below loses its `Shape p` hypothesis.  Nothing else in the development
  depends on `Shape p`.  Size estimate: an instrumented copy of the nine model functions with erasure
  lemmas, plus the preservation proofs: several thousand lines.
-/

/-- … and no history run with `fuelFor p` runs out of fuel -/
def C01_termination_full_statement : Prop :=
  ∀ (p : Program), WF p → ∀ ops : List Op, runOps p ops {} ≠ .error .outOfFuel

/-- "every value returned by a query equals the value a from-scratch evaluation on the currently
    committed inputs would produce": a successful query BY THE USER in a state satisfying the
    invariant returns `cur p s k`, keeps the invariant, and changes neither the committed inputs nor
    the epoch, nor the external values, nor the world.
    PARTIAL: `Shape p` = every projection that is read by a projection has a value-independent read sequence. -/
theorem core_query_sound_partial {p : Program} (wf : WF p) (sh : Shape p) {s : St} (inv : Inv p s)
    {k fuel : Nat} (hk : k < fuel) {v : Val} {s' : St} (h : query p fuel .user k s = .ok (v, s')) :
    cur p s k = some v ∧ Inv p s' ∧ inputsOf s' = inputsOf s ∧ s'.epoch = s.epoch ∧
      extOf p s' = extOf p s ∧ s'.world = s.world := by
  obtain ⟨i, f, c, _⟩ := (query_spec wf sh hk inv).ok h
  exact ⟨c, i, f.inputs, f.epoch, f.ext, f.world⟩

/-- class A: no projection reads a projection (projections with value-dependent reads of firewalls) -/
theorem core_query_sound_classA_partial {p : Program} (wf : WF p) (pa : NoProjOverProj p) {s : St}
    (inv : Inv p s) {k fuel : Nat} (hk : k < fuel) {v : Val} {s' : St}
    (h : query p fuel .user k s = .ok (v, s')) : cur p s k = some v ∧ Inv p s' :=
  let r := core_query_sound_partial wf pa.shape inv hk h; ⟨r.1, r.2.1⟩

/-- class B: every projection has a value-independent read sequence (chains of projections) -/
theorem core_query_sound_classB_partial {p : Program} (wf : WF p) (sp : StaticProj p) {s : St}
    (inv : Inv p s) {k fuel : Nat} (hk : k < fuel) {v : Val} {s' : St}
    (h : query p fuel .user k s = .ok (v, s')) : cur p s k = some v ∧ Inv p s' :=
  let r := core_query_sound_partial wf (sp.shape wf) inv hk h; ⟨r.1, r.2.1⟩

/-- non-vacuity of class B: `exS` is a chain of THREE projections over a firewall (2 reads the
    firewall, 3 reads 2, 4 reads 3 and the firewall); it is not in class A; after the firewall changed
    the user's query of key 5 repairs the firewall, runs the chain by (recursive) backward projection
    and returns the from-scratch value -/
example : WF exS ∧ StaticProj exS ∧ ¬ NoProjOverProj exS ∧ Inv exS exSU ∧ cur exS exSU 5 = some 8 ∧
    (query exS (fuelFor exS) .user 5 { exSU with log := [] }).toOption.map (fun r => (r.1, r.2.log)) =
      some (8, [1, 2, 3, 4, 5]) :=
  ⟨exS_wf, exS_static, exS_not_classA, exSU_inv, by decide, by decide⟩

/-- … and a whole history of it: change, absorbed session, change back -/
example : WF exS ∧ StaticProj exS ∧ (runOps exS exSOps {}).toOption.map (·.1) =
    some [.sess [.fresh], .round [5] [1, 2, 3, 4, 5], .sess [.updated], .round [8] [1, 2, 3, 4, 5],
      .sess [.unchanged], .round [8] [], .sess [.updated], .round [5, 4] [1, 2, 3, 4, 5]] :=
  ⟨exS_wf, exS_static, by decide⟩

/-- non-vacuity outside classes A and B: `exT` has the DYNAMIC projection 4 on top of the static chain
    2 ← 3 (it reads the firewall and then, depending on its value, projection 3 or projection 2) -/
example : WF exT ∧ Shape exT ∧ ¬ NoProjOverProj exT ∧ ¬ StaticProj exT ∧ Inv exT exTU ∧
    cur exT exTU 5 = some 3 ∧
    (query exT (fuelFor exT) .user 5 { exTU with log := [] }).toOption.map (fun r => (r.1, r.2.log)) =
      some (3, [1, 2, 3, 4, 5]) ∧
    (runOps exT exTOps {}).toOption.map (·.1) =
      some [.sess [.fresh], .round [4] [1, 2, 3, 4, 5], .sess [.updated], .round [3] [1, 2, 3, 4, 5],
        .sess [.unchanged], .round [3] [], .sess [.updated], .round [4, 4] [1, 2, 3, 4, 5]] :=
  ⟨exT_wf, exT_shape, exT_not_classA, exT_not_classB, exTU_inv, by decide, by decide, by decide⟩

/-- the inner statement: every value handed to an executor (or compared by `check_callee`) — the
    result of a request by a QUERY caller, pedantic or not — equals `cur`; likewise for the
    `RepairFirewall` caller.  PARTIAL: `Shape p` = every projection that is read by a projection has a value-independent read sequence. -/
theorem core_inner_query_sound_partial {p : Program} (wf : WF p) (sh : Shape p) {s : St} (inv : Inv p s)
    {k fuel : Nat} (hk : k < fuel) {v : Val} {s' : St} :
    (∀ c rv ped, query p fuel (.query c rv ped) k s = .ok (v, s') → cur p s k = some v ∧ Inv p s') ∧
    (query p fuel .repairFirewall k s = .ok (v, s') → cur p s k = some v ∧ Inv p s') := by
  refine ⟨fun c rv ped h => ?_, fun h => ?_⟩
  · obtain ⟨i, _, _, c, _⟩ := (queryQ_spec wf sh fuel ped k hk s inv).ok h
    exact ⟨c, i⟩
  · obtain ⟨i, _, c, _⟩ := (queryF_spec wf sh fuel k hk s inv).ok h
    exact ⟨c, i⟩

/-- non-vacuity: the firewall diamond `exF` after a session that changed the firewall's input (the
    firewall's value changes from 1 to 0): the user's query re-executes the firewall and everything
    above it and returns the from-scratch value -/
example : WF exF ∧ Shape exF ∧ Inv exF exFU ∧ 5 < fuelFor exF ∧ cur exF exFU 5 = some 5 ∧
    (query exF (fuelFor exF) .user 5 exFU).toOption.map (fun r => (r.1, r.2.log)) = some (5, [2, 3, 4, 5]) :=
  ⟨exF_wf, exF_noProj.over.shape, exFU_inv, by decide, by decide, by decide⟩

/-- non-vacuity WITH A PROJECTION: the diamond `exD` after the session that changes the firewall: the
    projection 3 is re-run by backward projection while the transitive firewall callees of key 5 are
    repaired, then keys 4 and 5 -/
example : WF exD ∧ Shape exD ∧ Inv exD exDU ∧ cur exD exDU 5 = some 5 ∧
    (query exD (fuelFor exD) .user 5 { exDU with log := [] }).toOption.map (fun r => (r.1, r.2.log)) =
      some (5, [2, 3, 4, 5]) :=
  ⟨exD_wf, exD_pf.shape, exDU_inv, by decide, by decide⟩

/-- non-vacuity: a session that the firewall ABSORBS (its input changes 1 → 2, its value stays 1):
    only the firewall is re-executed; the nodes above it are answered through clean, trusted edges -/
example : WF exF ∧ Shape exF ∧ Inv exF exFS ∧ cur exF exFS 5 = some 16 ∧
    (query exF (fuelFor exF) .user 5 exFS).toOption.map (fun r => (r.1, r.2.log)) = some (16, [2]) :=
  ⟨exF_wf, exF_noProj.over.shape, exFS_inv, by decide, by decide⟩

/-- non-vacuity with the shape of finding F1b: key 6 has firewall set `{3}`, its dependency 5 has
    switched to the equal-valued firewall 4 while only 5 was queried, and firewall 4's input has
    changed since: the clean edge `(6, 5)`… is dirty, the edge `(5, 4)` is clean but NOT trusted
    (firewall 4 is not verified in this epoch): it is repaired, and the answer is the from-scratch 8 -/
example : WF exA ∧ Shape exA ∧ Inv exA exAS ∧ (exAS.nodes 6).map (·.tfc) = some [3] ∧
    (exAS.nodes 5).map (·.tfc) = some [4] ∧ exAS.dirty 5 4 = false ∧ trusted exAS 4 = false ∧
    cur exA exAS 6 = some 8 ∧
    (query exA (fuelFor exA) .user 6 exAS).toOption.map (fun r => (r.1, r.2.log)) = some (8, [4, 5, 6]) :=
  ⟨exA_wf, exA_noProj.over.shape, exAS_inv, by decide, by decide, by decide, by decide, by decide, by decide⟩

/-- TOTALITY of a request: in a state satisfying the invariant in which every input key of the program
    has a value (`InputsSet`), a request by the user for a key of the program ANSWERS — no error of any
    kind (not `outOfFuel`, not `badKey`, not `inputNotSet`, not `badOp`) — and the answer is the
    from-scratch value.  PARTIAL: `Shape p`. -/
theorem core_query_total_partial {p : Program} (wf : WF p) (sh : Shape p) {s : St} (inv : Inv p s)
    (hin : InputsSet p s) {k fuel : Nat} (hk : k < fuel) (hlen : k < p.length) :
    ∃ v s', query p fuel .user k s = .ok (v, s') ∧ cur p s k = some v ∧ Inv p s' ∧ InputsSet p s' ∧
      inputsOf s' = inputsOf s ∧ s'.epoch = s.epoch := by
  obtain ⟨⟨v, s'⟩, h⟩ := query_total wf sh hk hlen inv hin
  obtain ⟨i, f, c, _⟩ := (query_spec wf sh hk inv).ok h
  exact ⟨v, s', h, c, i, hin.frame f, f.inputs, f.epoch⟩

/-- TOTALITY and soundness of histories, as an EQUATION: for every well-formed history (`HistOK`: the
    sessions write input keys of the program only, the rounds ask keys of the program only, and the
    first operation is a session that sets every input key) the run from the initial state IS `.ok`
    with outputs that are the from-scratch ones (`OutOK`: every value of every round, every write
    result); the final state satisfies the invariant.  PARTIAL: `Shape p`. -/
theorem core_history_total_partial {p : Program} (wf : WF p) (sh : Shape p) {ops : List Op}
    (hok : HistOK p ops) :
    ∃ outs s', runOps p ops {} = .ok (outs, s') ∧ OutOK p ops outs Ref.init ∧ Inv p s' := by
  obtain ⟨⟨outs, s'⟩, h⟩ := runOps_total wf sh ops {} (Inv.init p) hok.1 (Or.inr hok.2)
  obtain ⟨o, i⟩ := (runOps_spec wf sh ops {} (Inv.init p)).ok h
  exact ⟨outs, s', h, o, i⟩

/-- non-vacuity: `exDOps` is a well-formed history of the diamond with a firewall and a projection -/
example : WF exD ∧ Shape exD ∧ HistOK exD exDOps := by
  refine ⟨exD_wf, exD_pf.shape, ⟨⟨?_, ?_, ⟨?_, ?_, ?_, ?_, trivial⟩⟩, _, _, rfl, ?_⟩⟩
  · intro k v hm
    simp at hm
    rcases hm with ⟨rfl, _⟩ | ⟨rfl, _⟩ <;> exact ⟨_, rfl, rfl⟩
  · intro k hk; simp at hk; subst hk; decide
  · intro k v hm
    simp at hm
    obtain ⟨rfl, _⟩ := hm; exact ⟨_, rfl, rfl⟩
  · intro k hk; simp at hk; subst hk; decide
  · intro k v hm
    simp at hm
    obtain ⟨rfl, _⟩ := hm; exact ⟨_, rfl, rfl⟩
  · intro k hk; simp at hk; subst hk; decide
  · intro k d hp hk
    match k, hp with
    | 0, _ => exact ⟨1, by simp⟩
    | 1, _ => exact ⟨5, by simp⟩
    | 2, hp | 3, hp | 4, hp | 5, hp => simp [exD] at hp; subst hp; simp at hk
    | n + 6, hp => simp [exD] at hp

/-- what happens when an input key was never set: the model answers `.error (.inputNotSet k)` — it
    never invents a value.  (The implementation panics in that case: "Failed to find executor for
    query", `Model/Engine.lean`; the generated histories of the correspondence check always set every
    input in their first session, so this path is not compared with the implementation.) -/
example :
    errOf (runOps exF [.round [5]] {}) = some (.inputNotSet 0) ∧
    errOf (runOps exF [.sess [.set 0 1], .round [5]] {}) = some (.inputNotSet 1) :=
  ⟨by decide, by decide⟩

/-- RUN-LEVEL inner statement: during a request by the user started in a state satisfying the invariant,
    EVERY value handed to ANY executor that asks for a dependency — at any depth: inside the repair of a
    recorded callee, inside a re-execution, inside the repair of the transitive firewall callees, inside
    backward projection — is the from-scratch value of that dependency for the inputs committed in this
    epoch.  `readsU p fuel k s` is the list of these `(dependency, value)` pairs, a pure function of the
    (uninstrumented) model's recursion (`Lemmas/EngineCoreFwReads.lean`).  PARTIAL: `Shape p`. -/
theorem core_all_reads_sound_partial {p : Program} (wf : WF p) (sh : Shape p) {s : St} (inv : Inv p s)
    {k fuel : Nat} (hk : k < fuel) :
    ∀ d v, (d, v) ∈ readsU p fuel k s → cur p s d = some v :=
  fun d v h => readsU_ok wf sh hk inv (d, v) h

/-- … and for every round of every history from the initial state (`AllReadsOK`: for each round, every
    pair of `readsRound` is the from-scratch value for the inputs committed when the round began) -/
theorem core_history_all_reads_sound_partial {p : Program} (wf : WF p) (sh : Shape p) (ops : List Op) :
    AllReadsOK p ops {} :=
  allReads_ok wf sh ops {} (Inv.init p)

/-- non-vacuity: the reads of the user's request for key 5 of `exD` after the firewall changed: the
    firewall reads input 0, the projection (re-run by backward projection) reads the firewall, key 5
    reads 3 and 4, key 4 reads the firewall and input 1 — six reads, all from-scratch values -/
example : Inv exD exDU ∧ readsU exD (fuelFor exD) 5 { exDU with log := [] } =
    [(0, 0), (2, 0), (3, 0), (2, 0), (1, 5), (4, 5)] :=
  ⟨exDU_inv, by decide +kernel⟩

/-- "an input session (epoch bump, writes, commit with dirty propagation) re-establishes the engine
    invariant; each write reports Fresh / Updated / Unchanged exactly by presence / equality of the
    previously committed value, and the committed inputs afterwards are the previous ones overridden
    by the writes in order"; world and pinned external values as in the reference (`applyWorld`,
    `applyRefresh`).  (No hypothesis on the program beyond what `Inv` says about the nodes.) -/
theorem core_session_inv {p : Program} {s : St} (inv : Inv p s) {ws : List Write}
    {rs : List SetRes} {s' : St} (h : session p ws s = .ok (rs, s')) :
    Inv p s' ∧ rs = writeResults ws (inputsOf s) ∧
      inputsOf s' = applyWrites ws (inputsOf s) ∧ s'.epoch = s.epoch + 1 ∧
      s'.world = applyWorld ws s.world ∧
      pinsOf s' = applyRefresh p (applyWorld ws s.world) ws (pinsOf s) := by
  obtain ⟨a, b, c, d, e, f, _⟩ := session_spec inv h
  exact ⟨a, b, c, d, e, f⟩

example : Inv exF exFT ∧
    (session exF [.set 0 0, .set 1 5] exFT).toOption.map (·.1) = some [.updated, .unchanged] :=
  ⟨exFT_inv, by decide⟩

/-- "for every history of sessions and rounds run from the initial state, every value returned by
    every round equals the from-scratch value on the inputs committed at that point (and every write
    result is the reference one)"; the final state satisfies the invariant.
    PARTIAL: `Shape p` = every projection that is read by a projection has a value-independent read sequence (`C01_full_statement` is the statement for all). -/
theorem core_history_sound_partial {p : Program} (wf : WF p) (sh : Shape p) {ops : List Op}
    {outs : List OpOut} {s' : St} (h : runOps p ops {} = .ok (outs, s')) :
    OutOK p ops outs Ref.init ∧ Inv p s' :=
  (runOps_spec wf sh ops {} (Inv.init p)).ok h

/-- termination is a conclusion, not an assumption: with fuel above the key a query by the user in a
    state satisfying the invariant never runs out of fuel — this includes the recursion through
    `repair_transitive_firewall_callees`.  PARTIAL: `Shape p` = every projection that is read by a projection has a value-independent read sequence. -/
theorem core_query_no_out_of_fuel_partial {p : Program} (wf : WF p) (sh : Shape p) {s : St}
    (inv : Inv p s) {k fuel : Nat} (hk : k < fuel) : query p fuel .user k s ≠ .error .outOfFuel :=
  (query_spec wf sh hk inv).not_oof

/-- … and no history run with `fuelFor p` ever runs out of fuel.  PARTIAL: `Shape p`. -/
theorem core_history_no_out_of_fuel_partial {p : Program} (wf : WF p) (sh : Shape p) (ops : List Op) :
    runOps p ops {} ≠ .error .outOfFuel :=
  (runOps_spec wf sh ops {} (Inv.init p)).not_oof

/-- non-vacuity: the firewall diamond: session 2 is absorbed by the firewall (only key 2 runs),
    session 3 changes it (everything above runs) -/
example : WF exF ∧ Shape exF ∧ (runOps exF exDOps {}).toOption.map (·.1) =
    some [.sess [.fresh, .fresh], .round [16] [2, 3, 4, 5], .sess [.updated], .round [16] [2],
      .sess [.updated], .round [5] [2, 3, 4, 5]] :=
  ⟨exF_wf, exF_noProj.over.shape, by decide⟩

/-- non-vacuity, finding F1b's shape: a dependency switches between two equal-valued firewalls under
    a node that is not re-queried; then the second firewall changes: the answer is 8 (today's
    implementation answers 7) -/
example : WF exA ∧ Shape exA ∧ (runOps exA exAOps {}).toOption.map (·.1) =
    some [.sess [.fresh, .fresh, .fresh], .round [7] [3, 5, 6], .sess [.updated], .round [7] [4, 5],
      .sess [.updated], .round [8] [4, 5, 6]] :=
  ⟨exA_wf, exA_noProj.over.shape, by decide⟩

/-- the diamond with a firewall AND A PROJECTION (inside the proved fragment: the projection reads a
    firewall): session 2 is absorbed (only the firewall runs); session
    3 changes the firewall: the projection 3 is re-run by backward projection (before key 5 is
    repaired), then keys 4 and 5 -/
example : WF exD ∧ Shape exD ∧ (runOps exD exDOps {}).toOption.map (·.1) =
    some [.sess [.fresh, .fresh], .round [16] [2, 3, 4, 5], .sess [.updated], .round [16] [2],
      .sess [.updated], .round [5] [2, 3, 4, 5]] :=
  ⟨exD_wf, exD_pf.shape, by decide⟩

/-- the order inside the last round of the previous example: firewall, projection (by backward
    projection, while the transitive firewall callees of key 5 are repaired), then 4 and 5 -/
example : (match runOps exD (exDOps.take 5) {} with
    | .ok (_, s) => (query exD (fuelFor exD) .user 5 { s with log := [] }).toOption.map (fun r => (r.1, r.2.log))
    | .error _ => none) = some (5, [2, 3, 4, 5]) := by decide

/-- finding F1c (projection re-run with the same value but a larger firewall set), the history that
    the repair `f1p + f1q + f14` WITHOUT `f1r` answers with the stale 5 (so does today's
    implementation; replay `corpus/engine-acyclic/F1c.txt`): this model (`f1r`: a projection published
    with a changed set is treated like one whose value changed) answers 6, the from-scratch value -/
theorem repair_without_f1r_unsound_shape : WF exC ∧ Shape exC ∧ Inv exC exCS ∧
    cur exC exCS 6 = some 6 ∧ (runOps exC exCOps {}).toOption.map (·.1) =
    some [.sess [.fresh, .fresh], .round [5] [2, 4, 5, 6], .sess [.updated], .round [5] [2, 3, 4],
      .sess [.updated], .round [6] [3, 4, 5, 6]] :=
  ⟨exC_wf, exC_pf.shape, exCS_inv, by decide, by decide⟩

end Qbice.CoreFw

-- ====================================================================== PART 2: firewall-free model

namespace Qbice.Core

/-- "every value returned by a query equals the value a from-scratch evaluation on the currently
    committed inputs would produce": a successful query in a state satisfying the invariant returns
    `cur p s k`, keeps the invariant, and changes neither the committed inputs nor the epoch, nor
    the external values (an external key demanded for the first time is pinned at the value of its
    executor on the current world, which is what `extOf` said before), nor the world. -/
theorem core_query_sound {p : Program} (wf : WF p) {s : St} (inv : Inv p s) {k fuel : Nat}
    (hk : k < fuel) {v : Val} {s' : St} (h : query p fuel k s = .ok (v, s')) :
    cur p s k = some v ∧ Inv p s' ∧ inputsOf s' = inputsOf s ∧ s'.epoch = s.epoch ∧
      extOf p s' = extOf p s ∧ s'.world = s.world := by
  obtain ⟨i, f, _, c, _⟩ := (query_spec wf fuel k hk s inv).ok h
  exact ⟨c, i, f.inputs, f.epoch, f.ext, f.world⟩

example : WF exP ∧ Inv exP exS ∧ 3 < fuelFor exP ∧
    (query exP (fuelFor exP) 3 exS).toOption.map (·.1) = some 0 :=
  ⟨exP_wf, exS_inv, by decide, by decide⟩

/-- non-vacuity with an external key and an unordered group: in `exV` the external key 1 was
    computed when world cell 1 was 7; the cell is 9 now but no refresh happened: the from-scratch
    reference and the query both answer `2 * (1 + 7)`. -/
example : WF exQ ∧ Inv exQ exV ∧ 3 < fuelFor exQ ∧ exV.world 1 = 9 ∧ extOf exQ exV 1 = some 7 ∧
    cur exQ exV 3 = some 16 ∧ (query exQ (fuelFor exQ) 3 exV).toOption.map (·.1) = some 16 :=
  ⟨exQ_wf, exV_inv, by decide, by decide, by decide, by decide, by decide⟩

/-- "an input session (epoch bump, writes, commit with dirty propagation) re-establishes the engine
    invariant; each write reports Fresh / Updated / Unchanged exactly by presence / equality of the
    previously committed value, and the committed inputs afterwards are the previous ones overridden
    by the writes in order"; the world afterwards is the previous one overridden by the world writes
    of the session, and the pinned external values are the previous ones with, under a `refresh`,
    every pinned key re-evaluated on the new world (`applyRefresh`). -/
theorem core_session_inv {p : Program} {s : St} (inv : Inv p s) {ws : List Write}
    {rs : List SetRes} {s' : St} (h : session p ws s = .ok (rs, s')) :
    Inv p s' ∧ rs = writeResults ws (inputsOf s) ∧
      inputsOf s' = applyWrites ws (inputsOf s) ∧ s'.epoch = s.epoch + 1 ∧
      s'.world = applyWorld ws s.world ∧
      pinsOf s' = applyRefresh p (applyWorld ws s.world) ws (pinsOf s) := by
  obtain ⟨a, b, c, d, e, f, _⟩ := session_spec inv h
  exact ⟨a, b, c, d, e, f⟩

example : Inv exP exT ∧
    (session exP [.set 0 0, .set 1 5] exT).toOption.map (·.1) = some [.updated, .unchanged] :=
  ⟨exT_inv, by decide⟩

/-- a refresh that changes the value of an external key: pinned at 7, world cell now 9 -/
example : Inv exQ exV ∧ pinsOf exV 1 = some 7 ∧
    (session exQ [.refresh] exV).toOption.map (fun r => (r.1, pinsOf r.2 1, r.2.log)) =
      some ([.refreshed], some 9, [1]) :=
  ⟨exV_inv, by decide, by decide⟩

/-- "for every history of sessions and rounds run from the initial state, every value returned by
    every round equals the from-scratch value on the inputs committed at that point (and every write
    result is the reference one)": `OutOK` compares the outputs with `evalSpec` / `writeResults` on
    the reference state (input map, pinned external values, world), starting from no inputs, no
    pinned value and the all-zero world; the reference pins an external key at the world of the round
    in which its executor is reported to have run, and re-pins all of them at a `refresh`; the final
    state satisfies the invariant. -/
theorem core_history_sound {p : Program} (wf : WF p) {ops : List Op} {outs : List OpOut} {s' : St}
    (h : runOps p ops {} = .ok (outs, s')) : OutOK p ops outs Ref.init ∧ Inv p s' := by
  have := (runOps_spec wf ops {} (Inv.init p)).ok h
  exact this

/-- termination is a conclusion, not an assumption: with fuel above the key (`fuelFor p` for every
    key of the program) a query in a state satisfying the invariant never runs out of fuel. -/
theorem core_query_no_out_of_fuel {p : Program} (wf : WF p) {s : St} (inv : Inv p s) {k fuel : Nat}
    (hk : k < fuel) : query p fuel k s ≠ .error .outOfFuel :=
  (query_spec wf fuel k hk s inv).not_oof

/-- … and no history run with `fuelFor p` ever runs out of fuel. -/
theorem core_history_no_out_of_fuel {p : Program} (wf : WF p) (ops : List Op) :
    runOps p ops {} ≠ .error .outOfFuel :=
  (runOps_spec wf ops {} (Inv.init p)).not_oof

/-- non-vacuity: a 4-key program (two inputs, a node with a conditional read, a node above it) is
    `WF`, and a 6-operation history runs to completion with the expected outputs: the conditional
    read disappears after input 0 changes (round 2) and reappears (round 3). -/
example : WF exP ∧ (runOps exP exOps {}).toOption.map (·.1) =
    some [.sess [.fresh, .fresh], .round [30, 15] [2, 3], .sess [.updated, .unchanged], .round [0] [2, 3],
      .sess [.updated], .round [30, 30] [2, 3]] :=
  ⟨exP_wf, by decide⟩

/-- non-vacuity with an external key (1) read in an unordered group: first demand pins it at world
    cell 1 = 7; the cell changes to 9 without a refresh: nothing moves; a `refresh` re-runs its
    executor (not reported by a round), the dependants are re-executed: `2 * (1 + 9)`; a refresh that
    returns the same value re-executes nothing else. -/
example : WF exQ ∧ (runOps exQ exQOps {}).toOption.map (·.1) =
    some [.sess [.world, .fresh], .round [16] [1, 2, 3], .sess [.world], .round [16, 7] [],
      .sess [.refreshed], .round [20] [2, 3], .sess [.world, .refreshed], .round [20] []] :=
  ⟨exQ_wf, by decide⟩

end Qbice.Core
