/-
C01 — incremental answers equal a from-scratch evaluation, for the core engine model
(`Model/EngineCore.lean`: input, normal and external-input keys; ordered reads and unordered read
groups).  `cur p s k` is the from-scratch value of `k` on the inputs committed in `s` and the
external values of `s` (`evalSpec`, which never looks at cached values of normal keys); the external
value of a key is what its executor returned at its first demand / the last `refresh` (`pinsOf`),
and what it returns on the current world if it was never demanded (`extOf`); `Inv` is the engine
invariant (`Lemmas/EngineCore.lean`); it holds initially and is preserved by every operation.
-/
import QbiceVerif.Lemmas.EngineCoreEx
namespace Qbice.Core

/-- "every value returned by a query equals the value a from-scratch evaluation on the currently
    committed inputs would produce": a successful query in a state satisfying the invariant returns
    `cur p s k`, keeps the invariant, and changes neither the committed inputs nor the epoch, nor
    the external values (an external key demanded for the first time is pinned at the value of its
    executor on the current world, which is what `extOf` said before), nor the world. -/
theorem core_query_sound {p : Program} (wf : WF p) {s : St} (inv : Inv p s) {k fuel : Nat}
    (hk : k < fuel) {v : Val} {s' : St} (h : query p fuel k s = .ok (v, s')) :
    cur p s k = some v ∧ Inv p s' ∧ inputsOf s' = inputsOf s ∧ s'.epoch = s.epoch ∧
      extOf p s' = extOf p s ∧ s'.world = s.world := by
  obtain ⟨i, f, _, c, _⟩ := (query_spec wf fuel k hk s inv).ok h
  exact ⟨c, i, f.inputs, f.epoch, f.ext, f.world⟩

example : WF exP ∧ Inv exP exS ∧ 3 < fuelFor exP ∧
    (query exP (fuelFor exP) 3 exS).toOption.map (·.1) = some 0 :=
  ⟨exP_wf, exS_inv, by decide, by decide⟩

/-- non-vacuity with an external key and an unordered group: in `exV` the external key 1 was
    computed when world cell 1 was 7; the cell is 9 now but no refresh happened: the from-scratch
    reference and the query both answer `2 * (1 + 7)`. -/
example : WF exQ ∧ Inv exQ exV ∧ 3 < fuelFor exQ ∧ exV.world 1 = 9 ∧ extOf exQ exV 1 = some 7 ∧
    cur exQ exV 3 = some 16 ∧ (query exQ (fuelFor exQ) 3 exV).toOption.map (·.1) = some 16 :=
  ⟨exQ_wf, exV_inv, by decide, by decide, by decide, by decide, by decide⟩

/-- "an input session (epoch bump, writes, commit with dirty propagation) re-establishes the engine
    invariant; each write reports Fresh / Updated / Unchanged exactly by presence / equality of the
    previously committed value, and the committed inputs afterwards are the previous ones overridden
    by the writes in order"; the world afterwards is the previous one overridden by the world writes
    of the session, and the pinned external values are the previous ones with, under a `refresh`,
    every pinned key re-evaluated on the new world (`applyRefresh`). -/
theorem core_session_inv {p : Program} {s : St} (inv : Inv p s) {ws : List Write}
    {rs : List SetRes} {s' : St} (h : session p ws s = .ok (rs, s')) :
    Inv p s' ∧ rs = writeResults ws (inputsOf s) ∧
      inputsOf s' = applyWrites ws (inputsOf s) ∧ s'.epoch = s.epoch + 1 ∧
      s'.world = applyWorld ws s.world ∧
      pinsOf s' = applyRefresh p (applyWorld ws s.world) ws (pinsOf s) := by
  obtain ⟨a, b, c, d, e, f, _⟩ := session_spec inv h
  exact ⟨a, b, c, d, e, f⟩

example : Inv exP exT ∧
    (session exP [.set 0 0, .set 1 5] exT).toOption.map (·.1) = some [.updated, .unchanged] :=
  ⟨exT_inv, by decide⟩

/-- a refresh that changes the value of an external key: pinned at 7, world cell now 9 -/
example : Inv exQ exV ∧ pinsOf exV 1 = some 7 ∧
    (session exQ [.refresh] exV).toOption.map (fun r => (r.1, pinsOf r.2 1, r.2.log)) =
      some ([.refreshed], some 9, [1]) :=
  ⟨exV_inv, by decide, by decide⟩

/-- "for every history of sessions and rounds run from the initial state, every value returned by
    every round equals the from-scratch value on the inputs committed at that point (and every write
    result is the reference one)": `OutOK` compares the outputs with `evalSpec` / `writeResults` on
    the reference state (input map, pinned external values, world), starting from no inputs, no
    pinned value and the all-zero world; the reference pins an external key at the world of the round
    in which its executor is reported to have run, and re-pins all of them at a `refresh`; the final
    state satisfies the invariant. -/
theorem core_history_sound {p : Program} (wf : WF p) {ops : List Op} {outs : List OpOut} {s' : St}
    (h : runOps p ops {} = .ok (outs, s')) : OutOK p ops outs Ref.init ∧ Inv p s' := by
  have := (runOps_spec wf ops {} (Inv.init p)).ok h
  exact this

/-- termination is a conclusion, not an assumption: with fuel above the key (`fuelFor p` for every
    key of the program) a query in a state satisfying the invariant never runs out of fuel. -/
theorem core_query_no_out_of_fuel {p : Program} (wf : WF p) {s : St} (inv : Inv p s) {k fuel : Nat}
    (hk : k < fuel) : query p fuel k s ≠ .error .outOfFuel :=
  (query_spec wf fuel k hk s inv).not_oof

/-- … and no history run with `fuelFor p` ever runs out of fuel. -/
theorem core_history_no_out_of_fuel {p : Program} (wf : WF p) (ops : List Op) :
    runOps p ops {} ≠ .error .outOfFuel :=
  (runOps_spec wf ops {} (Inv.init p)).not_oof

/-- non-vacuity: a 4-key program (two inputs, a node with a conditional read, a node above it) is
    `WF`, and a 6-operation history runs to completion with the expected outputs: the conditional
    read disappears after input 0 changes (round 2) and reappears (round 3). -/
example : WF exP ∧ (runOps exP exOps {}).toOption.map (·.1) =
    some [.sess [.fresh, .fresh], .round [30, 15] [2, 3], .sess [.updated, .unchanged], .round [0] [2, 3],
      .sess [.updated], .round [30, 30] [2, 3]] :=
  ⟨exP_wf, by decide⟩

/-- non-vacuity with an external key (1) read in an unordered group: first demand pins it at world
    cell 1 = 7; the cell changes to 9 without a refresh: nothing moves; a `refresh` re-runs its
    executor (not reported by a round), the dependants are re-executed: `2 * (1 + 9)`; a refresh that
    returns the same value re-executes nothing else. -/
example : WF exQ ∧ (runOps exQ exQOps {}).toOption.map (·.1) =
    some [.sess [.world, .fresh], .round [16] [1, 2, 3], .sess [.world], .round [16, 7] [],
      .sess [.refreshed], .round [20] [2, 3], .sess [.world, .refreshed], .round [20] []] :=
  ⟨exQ_wf, by decide⟩

end Qbice.Core
