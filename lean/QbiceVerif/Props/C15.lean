/-
C15 — "Interning is canonical under concurrency and survives encoding".

All theorems are about `Model/Interner.lean`: the LTS of `Interner::{intern, intern_unsized,
get_from_hash}`, `Interned::{clone, drop}` and `vacuum_shard` with any number of tasks (`Ev.spawn`)
and every interleaving (`Reachable` = closure of `State.init` under every enabled event), and the
sequential encode/decode session functions `enc` / `dec`.
-/
import QbiceVerif.Lemmas.InternerRefine
import QbiceVerif.Lemmas.InternerSession

namespace QbiceVerif.C15
open QbiceVerif.Interner

/-- "At any moment all live handles obtained by interning equal values of one type through one
    interner refer to one shared allocation … whatever the interleaving of intern, lookup-by-hash,
    handle drops and vacuum runs on any number of threads": in every reachable state two allocations
    with a non-zero strong count whose contents have the same (type id, hash) are the same allocation. -/
theorem canonical {c : Cfg} {s : State} (hr : Reachable c s) {a b : Nat} {v w : Val}
    (ha : 0 < s.strong a) (hb : 0 < s.strong b)
    (hva : s.allocs[a]? = some v) (hvb : s.allocs[b]? = some w) (hk : c.slot v = c.slot w) : a = b := by
  have hI := inv_reachable hr
  obtain ⟨v', h1, h2⟩ := hI.canon a ((strong_pos_iff s a).1 ha)
  obtain ⟨w', h3, h4⟩ := hI.canon b ((strong_pos_iff s b).1 hb)
  rw [hva] at h1; cases h1
  rw [hvb] at h3; cases h3
  rw [hk, h4] at h2
  cases h2; rfl

/-- the invariant behind `canonical`: "every allocation other than the table's current one has strong count 0" -/
theorem other_allocations_dead {c : Cfg} {s : State} (hr : Reachable c s) {b : Nat} {w : Val}
    (hw : s.allocs[b]? = some w) (hne : s.table (c.slot w) ≠ some b) : s.strong b = 0 := by
  rw [strong_zero_iff]
  intro hl
  obtain ⟨w', h1, h2⟩ := (inv_reachable hr).canon b hl
  rw [hw] at h1; cases h1
  exact hne h2

/-- "the table's entry is replaced or removed only when its strong count is 0" -/
theorem entry_replaced_only_when_dead {c : Cfg} {s s' : State} {e : Ev} (hr : Reachable c s)
    (hs : step c s e = some s') {k : Slot} {a : Nat} (h1 : s.table k = some a) (h2 : s'.table k ≠ some a) :
    s.strong a = 0 :=
  (strong_zero_iff s a).2 (table_change (inv_reachable hr) hs h1 h2)

/-- "a dead count never rises" (for every step, hence along every schedule) -/
theorem dead_never_rises {c : Cfg} {s s' : State} {e : Ev} (hs : step c s e = some s') {a : Nat}
    (ha : a < s.allocs.length) (hd : s.strong a = 0) : s'.strong a = 0 :=
  (strong_zero_iff s' a).2 (dead_stays_step hs ha ((strong_zero_iff s a).1 hd))

theorem dead_never_rises_run {c : Cfg} {a : Nat} : ∀ (es : List Ev) {s s' : State}, run c s es = some s' →
    a < s.allocs.length → s.strong a = 0 → s'.strong a = 0
  | [], s, s', h, _, hd => by simp only [run, Option.some.injEq] at h; subst h; exact hd
  | e :: es, s, s', h, ha, hd => by
    simp only [run] at h
    split at h
    · rename_i s1 hs1
      have hlen : s.allocs.length ≤ s1.allocs.length := step_allocs_len hs1
      exact dead_never_rises_run es h (by omega) (dead_never_rises hs1 ha hd)
    · cases h

/-- "… whose content equals the interned value": whenever `intern v` (either path) is about to return
    allocation `x`, the content of `x` has `v`'s type id and `v`'s hash, `x` is alive, and — when the
    hash does not collide — the content *is* `v`. -/
theorem canonical_content {c : Cfg} {s : State} (hr : Reachable c s) {t : Nat} {tk : Task}
    (ht : s.tasks[t]? = some tk) {v : Val} {x : Nat}
    (hpc : tk.pc = .iRdHit v x ∨ tk.pc = .iWrHit v x ∨ tk.pc = .iWrNew v x) :
    ∃ w, s.allocs[x]? = some w ∧ w.ty = v.ty ∧ c.hash w.data = c.hash v.data ∧ 0 < s.strong x ∧
      ((∀ d d', c.hash d = c.hash d' → d = d') → w = v) := by
  have hI := inv_reachable hr
  have hok := hI.pcOk t tk ht
  have hlive : Live s x := ⟨t, tk, ht, by
    rcases hpc with h | h | h <;> simp [Task.handles, Pc.handles, h]⟩
  have : ∃ w, s.allocs[x]? = some w ∧ c.slot w = c.slot v := by
    rcases hpc with h | h | h <;> rw [h] at hok <;> exact hok
  obtain ⟨w, hw1, hw2⟩ := this
  have hty : w.ty = v.ty := congrArg Slot.ty hw2
  have hh : c.hash w.data = c.hash v.data := congrArg Slot.hash hw2
  refine ⟨w, hw1, hty, hh, (strong_pos_iff s x).2 hlive, fun hinj => ?_⟩
  cases w; cases v
  simp only at hty
  have := hinj _ _ hh
  simp only at this
  subst hty; subst this; rfl

/-- the return step hands exactly that allocation to the caller -/
theorem intern_returns {c : Cfg} {s s' : State} {t : Nat} {tk : Task} (ht : s.tasks[t]? = some tk)
    {v : Val} {x : Nat} (hpc : tk.pc = .iRdHit v x ∨ tk.pc = .iWrHit v x ∨ tk.pc = .iWrNew v x)
    {a : Act} (hs : step c s (.act t a) = some s') :
    ∃ tk', s'.tasks[t]? = some tk' ∧ tk'.pc = .idle ∧ tk'.ret = some x ∧ x ∈ tk'.held := by
  obtain ⟨tk0, tk', ht0, hact, hts⟩ := step_act_inv hs
  rw [ht] at ht0; cases ht0
  have hr := act_rel hact
  refine ⟨tk', by rw [hts, tasks_after ht]; simp, ?_⟩
  generalize s'.table = tb at hr
  generalize s'.allocs = al at hr
  cases hr <;> rcases hpc with h | h | h <;> simp_all

/-- "values of different types never share": slots of different type ids are disjoint — two live
    allocations whose contents have different type ids sit in different table slots (even when the
    content hashes are equal), and `intern v` only ever returns content of `v`'s type
    (`canonical_content`). -/
theorem types_never_share {c : Cfg} {s : State} (hr : Reachable c s) {a b : Nat} {v w : Val}
    (ha : 0 < s.strong a) (hb : 0 < s.strong b)
    (hva : s.allocs[a]? = some v) (hvb : s.allocs[b]? = some w) (hty : v.ty ≠ w.ty) :
    a ≠ b ∧ c.slot v ≠ c.slot w ∧ s.table (c.slot v) = some a ∧ s.table (c.slot w) = some b := by
  have hI := inv_reachable hr
  obtain ⟨v', h1, h2⟩ := hI.canon a ((strong_pos_iff s a).1 ha)
  obtain ⟨w', h3, h4⟩ := hI.canon b ((strong_pos_iff s b).1 hb)
  rw [hva] at h1; cases h1
  rw [hvb] at h3; cases h3
  refine ⟨?_, fun h => hty (congrArg Slot.ty h), h2, h4⟩
  intro h; subst h
  rw [hva] at hvb; cases hvb
  exact hty rfl

/-- "`getFromHash` returns a handle iff a live handle exists at its linearisation point": the probe
    under the read guard (one atomic `get` + `Weak::upgrade`) answers `some a` exactly when user code
    owns a handle (held, or already obtained by a call that has not returned yet) to an allocation of
    that (type id, hash) — vacuum's temporary does not count, and cannot be what is observed because
    vacuum holds the write guard — and that allocation is `a`. -/
theorem lookup_sound {c : Cfg} {s s' : State} (hr : Reachable c s) {t : Nat} {tk : Task}
    (ht : s.tasks[t]? = some tk) {k : Slot} (hpc : tk.pc = .gRdHeld k)
    (hs : step c s (.act t .probe) = some s') :
    ∃ tk' r, s'.tasks[t]? = some tk' ∧ tk'.pc = .gDone k r ∧
      (∀ a, r = some a ↔ UserLive s a ∧ ∃ w, s.allocs[a]? = some w ∧ c.slot w = k) ∧
      (r = none ↔ ¬ ∃ a w, UserLive s a ∧ s.allocs[a]? = some w ∧ c.slot w = k) := by
  have hI := inv_reachable hr
  obtain ⟨tk0, tk', ht0, hact, hts⟩ := step_act_inv hs
  rw [ht] at ht0; cases ht0
  have hsound := probe_sound hI ht (k := k) (by rw [hpc]; rfl)
  have hpc' : tk'.pc = .gDone k (s.probe k) := by
    simp only [act, hpc] at hact
    cases hp : s.probe k <;> rw [hp] at hact <;> simp only [Option.some.injEq, Prod.mk.injEq] at hact <;>
      rw [← hact.1]
  refine ⟨tk', s.probe k, by rw [hts, tasks_after ht]; simp, hpc', fun a => hsound a, ?_⟩
  constructor
  · rintro hnone ⟨a, w, hu, hw1, hw2⟩
    have := (hsound a).2 ⟨hu, w, hw1, hw2⟩
    rw [hnone] at this; cases this
  · intro hno
    cases hp : s.probe k with
    | none => rfl
    | some a =>
      obtain ⟨hu, w, hw1, hw2⟩ := (hsound a).1 hp
      exact absurd ⟨a, w, hu, hw1, hw2⟩ hno

/-- Linearisability: every event of every reachable state is invisible from outside (`abs` = who
    holds which handle + allocation contents) or is exactly one call of the atomic specification
    `aStep` — the specification the trace validator replays the implementation's call/return logs
    against — with the same answer: the probe / re-check / allocate+store event *is* `intern`'s
    linearisation point, the probe is `get_from_hash`'s. -/
theorem refines_atomic {c : Cfg} {s s' : State} {e : Ev} (hr : Reachable c s) (hs : step c s e = some s') :
    LinStep c s s' e :=
  refines_atomic_reachable hr hs

/-- hence every reachable state is, from outside, the result of a sequence of atomic calls -/
theorem reachable_is_atomic_run {c : Cfg} {s : State} (hr : Reachable c s) :
    ∃ os, aRun c AState.init os = some s.abs :=
  reachable_abs hr

/-- "Encoding then decoding structures that contain repeated interned handles reproduces the values
    and the sharing": for every list of handle graphs `ts` whose values (with everything already
    alive in the decoder's interner) have no (type id, hash) collision, decoding `encodeTop ts`
    (fresh session; first occurrence = full value, later occurrences = reference) with enough fuel
    * succeeds — in particular every reference resolves, the `expect` in `Decode for Interned` does not fire —
    * returns exactly `ts`,
    * produces one handle per token, in the order `prodList`, and any two produced handles live in the
      same allocation iff their values are equal (which, by `canonical`, is the sharing relation of
      the interned originals). -/
theorem interned_roundtrip {H : Tm → Nat} {U : Tm → Prop}
    (hU : ∀ ty label kids, U (.node ty label kids) → ∀ y, y ∈ kids → U y) (hN : NoCollision H U)
    (ts : List Tm) (hts : ∀ t, t ∈ ts → U t) (d0 : DState) (hd0 : DOk H U d0) (rest : List Tok)
    (fuel : Nat) (hf : 2 * Tm.sizeList ts + 1 ≤ fuel) :
    ∃ d', decList H fuel ts.length d0 (encodeTop H ts ++ rest) = .ok (ts, d', rest) ∧
      d'.log.map (·.2) = d0.log.map (·.2) ++ prodList H [] ts ∧
      ∀ a b x y, (a, x) ∈ d'.log → (b, y) ∈ d'.log → (a = b ↔ x = y) := by
  obtain ⟨d', h1, h2, _, _, h5⟩ :=
    dec_enc_list hU hN ts hts [] d0 [] rest fuel hd0 (fun k hk => by cases hk) (fun y hy => by cases hy) hf
  exact ⟨d', h1, h5, fun a b x y hx hy => log_sharing hN h2 hx hy⟩

/-! ### non-vacuity -/

def c0 : Cfg := ⟨fun d => d % 4, fun h => h % 2⟩

/-- two tasks intern hash-equal values of one type: one allocation, both hold it; a third value of
    another type with the same hash gets its own allocation -/
def demo : List Ev :=
  [.spawn, .spawn,
   .act 0 (.callIntern ⟨0, 1⟩), .act 1 (.callIntern ⟨0, 5⟩),
   .act 0 .rdLock, .act 1 .rdLock, .act 0 .probe, .act 1 .probe, .act 0 .rdUnlock, .act 1 .rdUnlock,
   .act 0 .wrLock, .act 0 .recheck, .act 0 .allocStore, .act 0 .wrUnlock,
   .act 1 .wrLock, .act 1 .recheck, .act 1 .wrUnlock,
   .act 1 (.callIntern ⟨1, 1⟩), .act 1 .rdLock, .act 1 .probe, .act 1 .rdUnlock, .act 1 .wrLock, .act 1 .recheck,
   .act 1 .allocStore, .act 1 .wrUnlock]

example : ((run c0 State.init demo).map (fun s => (s.tasks.map (·.held), s.allocs, s.strong 0, s.strong 1)))
    = some ([[0], [0, 1]], [⟨0, 1⟩, ⟨1, 1⟩], 2, 1) := by decide

/-- both lose the read probe, the second one's re-check under the write guard is what saves canonicity:
    dropping every handle and vacuuming removes the entry, a later lookup answers none -/
example : ((run c0 State.init (demo ++ [.act 0 (.drop 0), .act 1 (.drop 0), .spawn, .act 2 (.vacTry ⟨0, 1⟩),
      .act 2 (.vacUp ⟨0, 1⟩), .act 2 .vacUnlock, .act 0 (.callGet ⟨0, 1⟩), .act 0 .rdLock, .act 0 .probe, .act 0 .rdUnlock])).map
      (fun s => (s.tasks.map (·.ret), s.table ⟨0, 1⟩, s.table ⟨1, 1⟩, s.strong 0)))
    = some ([none, some 1, none], none, some 1, 0) := by decide

/-- a writer cannot start while a reader holds the guard (the lock is part of the model) -/
example : (run c0 State.init [.spawn, .spawn, .act 0 (.callGet ⟨0, 1⟩), .act 0 .rdLock, .act 1 (.vacTry ⟨0, 1⟩)]).isNone = true := by
  decide

/-- the hypotheses of `interned_roundtrip` are satisfiable and the statement is about a real run:
    `[x, y, x]` with `y` containing `x` twice encodes `x` once in full and three times by reference -/
def tx : Tm := .node 0 7 []
def ty' : Tm := .node 1 3 [tx, tx]
def hDemo : Tm → Nat
  | .node _ l ks => l + 10 * ks.length

example : encodeTop hDemo [tx, ty', tx] = [.src 0 7 0, .src 1 3 2, .ref 0 7, .ref 0 7, .ref 0 7] := by decide
example : (match decList hDemo 20 3 ⟨[], 0, []⟩ (encodeTop hDemo [tx, ty', tx]) with
    | .ok (out, d, rest) => (out.map Tm.size, d.log.map (·.1), rest.length)
    | .error _ => ([], [], 99)) = ([1, 3, 1], [0, 0, 0, 1, 0], 0) := by decide

end QbiceVerif.C15
