import QbiceVerif.Props.C04Fair
import QbiceVerif.Lemmas.PhaseFairLive

/-!
# C04 — a waiting writer IS granted (fair-queue LTS): bound + no deadlock, composed
-/

namespace QbiceVerif.PhaseFair

open QbiceVerif.Phase

/-- "… and every such mix eventually makes progress", for the writer, fair-queue LTS, any number of tasks, any
scripts, any schedule.

Let `s` be reachable from the initial state and `w` queued in `s`, and let `evs` be ANY schedule from `s` that does
not grant `w`.  Then (1) `evs` has at most `waitBound s w` events; (2) at its end the system is not stuck: some
event other than `w`'s grant is enabled, or `w`'s grant is; (3) if the others cannot move any more (`evs` is
maximal), or if `evs` has exhausted the bound, `w`'s grant is enabled.  So under any scheduler that eventually
takes an event that stays enabled, `w` is granted after at most `waitBound s w` steps of the other tasks. -/
theorem writer_eventually_granted {scripts : List (List Acq)} {pre evs : List Ev} {s s' : State} {w : Tid}
    (h0 : run false (init scripts) pre = some s) (hw : s.lock.want w ≠ none)
    (hr : run false s evs = some s') (hng : Ev.grant w ∉ evs) :
    evs.length ≤ waitBound s w ∧
    ((∃ ev, ev ≠ Ev.grant w ∧ (step false s' ev).isSome = true) ∨ (step false s' (.grant w)).isSome = true) ∧
    ((∀ ev, ev ≠ Ev.grant w → step false s' ev = none) → (step false s' (.grant w)).isSome = true) ∧
    (evs.length = waitBound s w → (step false s' (.grant w)).isSome = true) := by
  have hb := writer_granted_after_finitely_many_steps hw hr hng
  have hwf : WF s' := wf_run evs (wf_run pre (wf_init scripts) h0) hr
  have hw' : s'.lock.want w ≠ none := by rw [(fair_writer_bounded_overtaking hw hr hng).1]; exact hw
  have hns := waiting_not_stuck hwf hw'
  refine ⟨by omega, hns, ?_, ?_⟩
  · intro hstuck
    rcases hns with ⟨ev, hne, hen⟩ | h
    · rw [hstuck ev hne] at hen; simp at hen
    · exact h
  · intro hlen
    rcases hns with ⟨ev, hne, hen⟩ | h
    · cases hs : step false s' ev with
      | none => rw [hs] at hen; simp at hen
      | some s'' =>
        have := (step_wait hw' hs hne).2.2.2
        omega
    · exact h

/-- non-vacuity: the run `nvEvs` from `nvS` (Props/C04Fair) is reachable from an initial state, exhausts the
bound (7 = 7), and the writer's grant is enabled at its end -/
example : ∃ pre s', run false (init [[(true, 0)], [(false, 2)], [(true, 1)], [(false, 5), (false, 7)]]) pre = some nvS ∧
    run false nvS nvEvs = some s' ∧ nvEvs.length = waitBound nvS 0 ∧ (step false s' (.grant 0)).isSome = true := by
  have h : run false (init [[(true, 0)], [(false, 2)], [(true, 1)], [(false, 5), (false, 7)]])
      [.req 1, .grant 1, .req 2, .req 0] = some nvS := rfl
  cases hr : run false nvS nvEvs with
  | none => exact absurd hr (by decide)
  | some s' =>
    refine ⟨_, s', h, rfl, by decide, ?_⟩
    have : ((run false nvS nvEvs).bind (fun s => step false s (.grant 0))).isSome = true := by decide
    rw [hr] at this
    exact this

end QbiceVerif.PhaseFair
