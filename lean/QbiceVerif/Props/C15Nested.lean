/-
Property C15, nested interned handles — "Encoding then decoding structures that contain repeated interned
handles reproduces the values and the sharing", "values of different types never share" — for handles
nested inside the payloads of other handles to any depth (`Model/CodecNested`; allocations are modelled by
identities: the slot of the decoder-side interner a decoded handle points to).
-/
import QbiceVerif.Props.C12Nested

namespace QbiceVerif.Codec.C15Nested

open QbiceVerif.Codec QbiceVerif.Codec.Nested

/-- the sharing relation of any list of canonical handles in an interner with integrity -/
theorem sharing_of_canon {hash : Nat → NVal → Nat} {S : Nat → NVal → Prop}
    (hinj : ∀ tid p₁ p₂, S tid p₁ → S tid p₂ → hash tid p₁ = hash tid p₂ → p₁ = p₂)
    {I' : NInterner} (hok : IOkW hash S I') {L : List (Nat × Nat × DVal)} (hc : CanonH hash I' L) :
    ∀ x ∈ L, ∀ y ∈ L,
      (x.2.1 = y.2.1 ↔ (x.1 = y.1 ∧ x.2.2.erase = y.2.2.erase)) ∧ (x.2.1 = y.2.1 → x.2.2 = y.2.2) := by
  intro x hx y hy
  have fx := hc x hx
  have fy := hc y hy
  have key_of_slot : x.2.1 = y.2.1 → (x.1, hash x.1 x.2.2.erase) = (y.1, hash y.1 y.2.2.erase) := by
    intro e; rw [e] at fx; exact nfind_inj I' _ _ _ _ _ fx fy
  refine ⟨⟨?_, ?_⟩, ?_⟩
  · intro e
    have hk := key_of_slot e
    simp only [Prod.mk.injEq] at hk
    obtain ⟨hk1, hk2⟩ := hk
    refine ⟨hk1, hinj x.1 _ _ (hok _ _ _ fx).1 ?_ ?_⟩
    · have := (hok _ _ _ fy).1; rw [← hk1] at this; exact this
    · rw [hk2, hk1]
  · rintro ⟨e1, e2⟩
    rw [e1, e2, fy] at fx
    simp only [Option.some.injEq, Prod.mk.injEq] at fx
    exact fx.1.symm
  · intro e
    rw [key_of_slot e, fy] at fx
    simp only [Option.some.injEq, Prod.mk.injEq] at fx
    exact fx.2.symm

/-- *"… reproduces the values and the sharing"*: in the value `d` decoded from `encodeTop t v` (any nesting
depth, any DAG sharing, any good decoder-side interner, any trailing bytes), for ANY two handle occurrences
`x`, `y` — top level, inside a container, inside the payload of another handle at any depth, one inside and
one outside —
* `x` and `y` point to ONE allocation (same slot) iff they have the same type id and equal payloads; in
  particular handles of different types never share, even when the hashes of their payloads are equal;
* and then they carry the same decoded payload, identities included (the allocation is one object: the
  handles below it are shared too).
Same no-collision hypothesis as `interned_roundtrip_nested`. -/
theorem interned_sharing_nested {env : Nat → NTy} {hash : Nat → NVal → Nat} {S : Nat → NVal → Prop}
    (hinj : ∀ tid p₁ p₂, S tid p₁ → S tid p₂ → hash tid p₁ = hash tid p₂ → p₁ = p₂)
    (hbound : ∀ tid p, S tid p → hash tid p < 2 ^ 128)
    (t : NTy) (v : NVal) (hwt : wtN env t v = true) (hS : ∀ x ∈ v.handles, S x.1 x.2)
    (I : NInterner) (hI : IOk hash S I) (rest : Bytes) (fuel : Nat) (hfuel : v.need ≤ fuel) :
    ∃ d I', dec true env hash fuel t (encodeTop env hash t v ++ rest) I = .ok (d, rest, I') ∧ d.erase = v ∧
      ∀ x ∈ d.handles, ∀ y ∈ d.handles,
        (x.2.1 = y.2.1 ↔ (x.1 = y.1 ∧ x.2.2.erase = y.2.2.erase)) ∧ (x.2.1 = y.2.1 → x.2.2 = y.2.2) := by
  obtain ⟨d, I', h1, h2, _, hok, hc⟩ := C12Nested.interned_roundtrip_nested hinj hbound t v hwt hS I hI rest fuel hfuel
  exact ⟨d, I', h1, h2, sharing_of_canon hinj (fun k s p h => ⟨(hok k s p h).1, (hok k s p h).2.1⟩) hc⟩

/-- The same under the WEAK hypothesis `IOkW` on the decoder-side interner (repaired decoder, /repo 8f43b2a; live
values may hold `Interned::new_duplicating` handles): the sharing relation holds among all handles this decode
produced — `d.handlesAbove I.length`, every handle of `d` not inside an allocation that existed before the call.
What a non-canonical live value holds inside (its private copies) is, of course, not shared with anything. -/
theorem interned_sharing_nested_weak {env : Nat → NTy} {hash : Nat → NVal → Nat} {S : Nat → NVal → Prop}
    (hinj : ∀ tid p₁ p₂, S tid p₁ → S tid p₂ → hash tid p₁ = hash tid p₂ → p₁ = p₂)
    (hbound : ∀ tid p, S tid p → hash tid p < 2 ^ 128)
    (t : NTy) (v : NVal) (hwt : wtN env t v = true) (hS : ∀ x ∈ v.handles, S x.1 x.2)
    (I : NInterner) (hI : IOkW hash S I) (rest : Bytes) (fuel : Nat) (hfuel : v.need ≤ fuel) :
    ∃ d I', dec true env hash fuel t (encodeTop env hash t v ++ rest) I = .ok (d, rest, I') ∧ d.erase = v ∧
      ∀ x ∈ d.handlesAbove I.length, ∀ y ∈ d.handlesAbove I.length,
        (x.2.1 = y.2.1 ↔ (x.1 = y.1 ∧ x.2.2.erase = y.2.2.erase)) ∧ (x.2.1 = y.2.1 → x.2.2 = y.2.2) := by
  obtain ⟨d, I', h1, h2, _, hok, hc⟩ := C12Nested.interned_roundtrip_nested_weak hinj hbound t v hwt hS I hI rest fuel hfuel
  exact ⟨d, I', h1, h2, sharing_of_canon hinj hok hc⟩

/-- decoding through an interner in which an equal value is alive (the encoder's own interner, the
originals still held) yields handles to THAT allocation, at every depth -/
theorem interned_sharing_with_live {env : Nat → NTy} {hash : Nat → NVal → Nat} {S : Nat → NVal → Prop}
    (hinj : ∀ tid p₁ p₂, S tid p₁ → S tid p₂ → hash tid p₁ = hash tid p₂ → p₁ = p₂)
    (hbound : ∀ tid p, S tid p → hash tid p < 2 ^ 128)
    (t : NTy) (v : NVal) (hwt : wtN env t v = true) (hS : ∀ x ∈ v.handles, S x.1 x.2)
    (I : NInterner) (hI : IOk hash S I) (rest : Bytes) (fuel : Nat) (hfuel : v.need ≤ fuel) :
    ∃ d I', dec true env hash fuel t (encodeTop env hash t v ++ rest) I = .ok (d, rest, I') ∧
      ∀ x ∈ d.handles, ∀ s q, NInterner.find I (x.1, hash x.1 x.2.2.erase) = some (s, q) → x.2.1 = s ∧ x.2.2 = q := by
  obtain ⟨d, I', h1, _, hle, _, hc⟩ := C12Nested.interned_roundtrip_nested hinj hbound t v hwt hS I hI rest fuel hfuel
  refine ⟨d, I', h1, ?_⟩
  intro x hx s q hf
  have := hc x hx
  rw [hle _ _ _ hf] at this
  simp only [Option.some.injEq, Prod.mk.injEq] at this
  exact ⟨this.1.symm, this.2.symm⟩

/-! ### the encoder side: every distinct (type id, hash) is written in full once per session -/

/-- the first occurrence in a session: tag 0, then the payload written in the SAME session, with the
handle's own id already in the seen set -/
theorem first_occurrence_in_full (env : Nat → NTy) (hash : Nat → NVal → Nat) (t : NTy) (tid : Nat) (p : NVal)
    (seen : Seen) (h : (tid, hash tid p) ∉ seen) :
    enc env hash t (.handle tid p) seen =
      (0 :: (enc env hash (env tid) p ((tid, hash tid p) :: seen)).1, (enc env hash (env tid) p ((tid, hash tid p) :: seen)).2) := by
  simp [enc, h]

/-- writing anything never removes an id from the seen set (one set per top-level call, threaded through
containers and through handle payloads alike) -/
theorem seen_only_grows (env : Nat → NTy) (hash : Nat → NVal → Nat) (t : NTy) (v : NVal) (seen : Seen)
    (k : Nat × Nat) (hk : k ∈ seen) : k ∈ (enc env hash t v seen).2 :=
  enc_seen_mono env hash v t seen k hk

/-- *"equal sub-values are encoded once"*: once a handle has been written anywhere in a session (in full or
by reference, at top level or deep inside another handle's payload — `seen'` is any later state of the
session, `seen_only_grows`), every later occurrence of a handle with the same type id and hash, inside or
outside any payload, is the reference `1 ++ hash` and nothing else -/
theorem later_occurrence_is_reference (env : Nat → NTy) (hash : Nat → NVal → Nat) (t₀ t₁ : NTy) (tid : Nat) (p : NVal)
    (seen seen' : Seen) (hsub : ∀ k ∈ (enc env hash t₀ (.handle tid p) seen).2, k ∈ seen') :
    enc env hash t₁ (.handle tid p) seen' = (1 :: encHash (hash tid p), seen') := by
  have : (tid, hash tid p) ∈ seen' := hsub _ (enc_handle_seen env hash t₀ tid p seen)
  simp [enc, this]

/-- … while a handle of another type with the same payload hash is written in full: types never share -/
theorem other_type_not_a_reference (env : Nat → NTy) (hash : Nat → NVal → Nat) (t : NTy) (tid tid' : Nat) (p q : NVal)
    (hne : tid ≠ tid') :
    (enc env hash t (.handle tid' q) [(tid, hash tid p)]).1 =
      0 :: (enc env hash (env tid') q [(tid', hash tid' q), (tid, hash tid p)]).1 := by
  have : (tid', hash tid' q) ∉ [(tid, hash tid p)] := by
    simp only [List.mem_singleton, Prod.mk.injEq, not_and]
    intro h; exact absurd h.symm hne
  simp [enc, this]

/-! ### non-vacuity (the diamond DAG of `C12Nested`) -/

open C12Nested in
/-- the statement has content: in the decoded diamond there are pairs of occurrences that share (the leaf
inside `A` and the leaf at top level) and pairs that do not (`A` and `B`), and two handles of different types
with equal hashes get different allocations -/
example : (match dec true exEnv exHash 41 exTy (encodeTop exEnv exHash exTy exVal) [] with
    | .ok (d, _, _) => (d.handles.map (fun x => x.2.1)) | .error _ => []) =
    [4, 2, 0, 1, 3, 0, 0, 0, 1, 6, 5, 2, 0, 1, 0] := by decide

open C12Nested in
example : (match dec true exEnv (fun _ _ => 9) 20 (.tuple [.handle 1, .handle 3, .handle 1])
      (encodeTop exEnv (fun _ _ => 9) (.tuple [.handle 1, .handle 3, .handle 1])
        (.list [.handle 1 (.plain (.bytes [0x61])), .handle 3 (.tagged 0 (.list [])), .handle 1 (.plain (.bytes [0x61]))])) [] with
    | .ok (d, _, _) => d.handles.map (fun x => (x.1, x.2.1)) | .error _ => []) = [(1, 0), (3, 1), (1, 0)] := by decide

open C12Nested in
/-- decoding the diamond a second time through the interner the first decoding left behind (shared interner,
everything alive): no new allocation, the same identities -/
example : (match dec true exEnv exHash 41 exTy (encodeTop exEnv exHash exTy exVal) [] with
    | .ok (_, _, I1) => (match dec true exEnv exHash 41 exTy (encodeTop exEnv exHash exTy exVal) I1 with
        | .ok (d, _, I2) => (d.handles.map (fun x => x.2.1), I2.length) | .error _ => ([], 0))
    | .error _ => ([], 0)) = ([4, 2, 0, 1, 3, 0, 0, 0, 1, 6, 5, 2, 0, 1, 0], 7) := by decide

end QbiceVerif.Codec.C15Nested
