/-!
# `RI` — one iteration over the small tier of the backward-edge set, beside inserts and removes

`database.rs GuardedVecIterator`: an INDEX-based iterator over the small tier's `Vec` (`next()` returns
`vec[index]` and increments the index), while `remove_element` uses `Vec::swap_remove` (the LAST element is moved
into the hole) and `insert_element` pushes at the end.

Toggle `guarded`:
* `true`  — the code: the iterator owns `vec_lock.read()` for its whole life; no insert/remove happens between
  its first `next()` and its end (the writers wait for the lock).  This is the assumption behind `TS.iterBegin`
  ("an iteration is a snapshot taken when the guards are taken") and behind `WK.walkBegin` (`todo := content`).
* `false` — the lock is taken per `next()` (seeded change C02-small-set-walk-relock): inserts and removes interleave
  with the steps of the iteration.
-/

namespace QbiceVerif.Lts.RI

/-- `Vec::swap_remove(pos)` for the position of `x`: the last element takes the place of `x` -/
def swapRemove (l : List Nat) (x : Nat) : List Nat :=
  match l.idxOf? x with
  | none => l
  | some p => if p + 1 = l.length then l.dropLast else (l.set p (l.getLastD 0)).dropLast

structure State where
  guarded : Bool
  vec : List Nat
  /-- the iterator: `none` = not created yet; `some i` = its index -/
  idx : Option Nat
  finished : Bool
  /-- what `next()` has returned so far -/
  out : List Nat
  /-- ghost: the elements a `remove_element` was ever called for -/
  removed : List Nat
  /-- ghost: the content when `iter()` was called -/
  snap : List Nat
deriving DecidableEq, Repr

inductive Ev
  | iter            -- `iter()`: the iterator is created (guarded: the read guard is taken)
  | next            -- `next()`: `vec.get(index)`; `None` ends the iteration (guarded: the guard is dropped)
  | rem (x : Nat)   -- `remove_element(x)`
  | ins (x : Nat)   -- `insert_element(x)` below the threshold
deriving DecidableEq, Repr

/-- writers get the vector lock unless a guarded iterator is alive -/
def State.writable (s : State) : Bool := !(s.guarded && s.idx.isSome && !s.finished)

def step (s : State) : Ev → Option State
  | .iter => if s.idx = none then some { s with idx := some 0, snap := s.vec } else none
  | .next =>
    match s.idx with
    | none => none
    | some i =>
      if s.finished then none
      else match s.vec[i]? with
        | some x => some { s with idx := some (i + 1), out := s.out ++ [x] }
        | none => some { s with finished := true }
  | .rem x => if s.writable then some { s with vec := swapRemove s.vec x, removed := x :: s.removed } else none
  | .ins x => if s.writable then some { s with vec := if x ∈ s.vec then s.vec else s.vec ++ [x] } else none

def init (guarded : Bool) (c0 : List Nat) : State :=
  { guarded := guarded, vec := c0, idx := none, finished := false, out := [], removed := [], snap := [] }

inductive Reachable (g : Bool) (c0 : List Nat) : State → Prop
  | init : Reachable g c0 (init g c0)
  | step {s s' : State} (ev : Ev) : Reachable g c0 s → step s ev = some s' → Reachable g c0 s'

def run (s : State) : List Ev → Option State
  | [] => some s
  | ev :: rest => (step s ev).bind (run · rest)

end QbiceVerif.Lts.RI
