/-
Model of `/repo/crates/stable_hash/src/lib.rs` + `/repo/crates/stable_hash_derive/src/lib.rs`
(property C13).

What is modelled, function by function:

* `StableHasher::write_*`            → `le k n`          (`to_le_bytes`, fixed width, usize = 8 bytes)
* `write_f32` / `write_f64`          → `canonF32` / `canonF64` (every NaN becomes `f32::NAN`/`f64::NAN`)
* `write_length_prefix`, `write_str` → `le 8 len ++ bytes`
* `impl StableHash for …`            → `stream absorb finish t v st` — the bytes the value feeds to
                                        the hasher when the hasher is in state `st`
* `impl StableHash for Discriminant` → `le dw disc`: the raw bytes of `mem::Discriminant<T>` are the
                                        little-endian discriminant value at the width of the enum's
                                        discriminant type (isize = 8 bytes unless `#[repr(..)]`)
* derive(StableHash) struct / enum   → `Ty.tuple` / `Ty.enum`
* HashMap/HashSet/BinaryHeap/Dash*   → `le 8 len ++ le 16 (Σ finish(absorb st' entry-stream) mod 2^128)`,
                                        `sub_hash` copies the hasher (state = function of the bytes
                                        absorbed so far), feeds the entry and finishes
* `Sip128Hasher` (siphasher 1.0.1 `sip128::SipHasher`, keys 0/0) → `sip128`
* `SeededStableHasherBuilder`        → `hash128 seed t v`

The model is parameterised by an abstract hasher (`σ`, `absorb`, `finish`); the driver instantiates it
with the streaming SipHash state, the theorems hold for every hasher.

Imports nothing outside core.
-/

namespace QbiceVerif.Hash

abbrev Bytes := List UInt8

/-- `k` little-endian bytes of `n` — `n.to_le_bytes()` for a `k`-byte integer (`n` taken mod 256^k). -/
def le : Nat → Nat → Bytes
  | 0, _ => []
  | k + 1, n => UInt8.ofNat (n % 256) :: le k (n / 256)

/-! ## SipHash-2-4 with 128-bit output, as implemented by siphasher 1.0.1 `sip128::Hasher` -/

structure SipState where
  v0 : UInt64
  v1 : UInt64
  v2 : UInt64
  v3 : UInt64

@[inline] def rotl (x : UInt64) (r : UInt64) : UInt64 := (x <<< r) ||| (x >>> (64 - r))

/-- the `compress!` macro -/
def sipRound (s : SipState) : SipState :=
  let v0 := s.v0 + s.v1
  let v1 := rotl s.v1 13
  let v1 := v1 ^^^ v0
  let v0 := rotl v0 32
  let v2 := s.v2 + s.v3
  let v3 := rotl s.v3 16
  let v3 := v3 ^^^ v2
  let v0 := v0 + v3
  let v3 := rotl v3 21
  let v3 := v3 ^^^ v0
  let v2 := v2 + v1
  let v1 := rotl v1 17
  let v1 := v1 ^^^ v2
  let v2 := rotl v2 32
  ⟨v0, v1, v2, v3⟩

/-- little-endian word of at most 8 bytes (`u8to64_le` / `load_int_le!`) -/
def leWord : Bytes → UInt64
  | [] => 0
  | b :: bs => b.toUInt64 ||| (leWord bs <<< 8)

/-- one message word: `v3 ^= m; c_rounds (2); v0 ^= m` -/
def sipAbsorbWord (s : SipState) (m : UInt64) : SipState :=
  let s := { s with v3 := s.v3 ^^^ m }
  let s := sipRound (sipRound s)
  { s with v0 := s.v0 ^^^ m }

/-- absorb all full 8-byte words; returns the state and the unprocessed tail (< 8 bytes) -/
def sipAbsorb (s : SipState) : Bytes → SipState × Bytes
  | b0 :: b1 :: b2 :: b3 :: b4 :: b5 :: b6 :: b7 :: rest =>
      sipAbsorb (sipAbsorbWord s (leWord [b0, b1, b2, b3, b4, b5, b6, b7])) rest
  | tail => (s, tail)

def sipXor (s : SipState) : UInt64 := s.v0 ^^^ s.v1 ^^^ s.v2 ^^^ s.v3

/-! ## Type universe -/

inductive IntW | w8 | w16 | w32 | w64 | w128
  deriving DecidableEq, Repr

def IntW.bytes : IntW → Nat
  | .w8 => 1 | .w16 => 2 | .w32 => 4 | .w64 => 8 | .w128 => 16

mutual
/-- Types with a `StableHash` impl.  `usize`/`isize` are `int _ w64` (the harness asserts the target). -/
inductive Ty
  | int (signed : Bool) (w : IntW)
  | bool | char | f32 | f64
  | unit                    -- (), PhantomData, RangeFull, unit structs
  | str                     -- str, String, FlexStr, CStr/CString (length prefix + bytes)
  | option (t : Ty)
  | result (t e : Ty)
  | seq (t : Ty)            -- Vec, [T], VecDeque, LinkedList, BTreeSet, SmallVec, BitVec (= seq bool),
                            -- OsStr/Path (= seq u8); BTreeMap<K,V> = seq (tuple [K,V])
  | array (n : Nat) (t : Ty) -- [T; N]: coerced to a slice, so it carries a length prefix too
  | tuple (ts : TyList)     -- tuples, derived structs, Range/RangeInclusive (2), RangeFrom/To (1), Duration
  | wrapper (t : Ty)        -- &T, &mut T, Box, Rc, Arc, Cow, NonZero*, Atomic*
  | enum (dw : IntW) (vs : VarList) -- derive(StableHash) on an enum; `dw` = width of its discriminant type
  | uset (t : Ty)           -- HashSet, BinaryHeap, DashSet
  | umap (k v : Ty)         -- HashMap, DashMap, ReadOnlyView
inductive TyList
  | nil
  | cons (t : Ty) (ts : TyList)
/-- variants in declaration order: discriminant value (bit pattern at width `dw`) and field types -/
inductive VarList
  | nil
  | cons (disc : Nat) (fields : TyList) (rest : VarList)
end

mutual
inductive Val
  | int (i : Int)
  | bool (b : Bool)
  | char (c : Nat)
  | f32 (bits : Nat)
  | f64 (bits : Nat)
  | unit
  | str (bs : Bytes)
  | none
  | some (v : Val)
  | ok (v : Val)
  | err (v : Val)
  | list (vs : ValList)     -- seq / array / uset elements in iteration order; umap entries as 2-tuples
  | tuple (vs : ValList)
  | wrap (v : Val)
  | variant (idx : Nat) (fields : ValList)
inductive ValList
  | nil
  | cons (v : Val) (vs : ValList)
end

def ValList.length : ValList → Nat
  | .nil => 0
  | .cons _ vs => vs.length + 1

def ValList.toList : ValList → List Val
  | .nil => []
  | .cons v vs => v :: vs.toList

def ValList.ofList : List Val → ValList
  | [] => .nil
  | v :: vs => .cons v (ValList.ofList vs)

def TyList.ofList : List Ty → TyList
  | [] => .nil
  | t :: ts => .cons t (TyList.ofList ts)

def VarList.get? : VarList → Nat → Option (Nat × TyList)
  | .nil, _ => none
  | .cons d fs _, 0 => some (d, fs)
  | .cons _ _ rest, i + 1 => rest.get? i

def VarList.discs : VarList → List Nat
  | .nil => []
  | .cons d _ rest => d :: rest.discs

/-- the entry type of a map: key then value, hashed back to back in one sub-hasher -/
def Ty.pair (k v : Ty) : Ty := .tuple (.cons k (.cons v .nil))

/-! ## Float canonicalisation (`write_f32`, `write_f64`) -/

/-- `if f.is_nan() { f32::NAN } else { f }` on bit patterns; `f32::NAN.to_bits() = 0x7fc00000` -/
def canonF32 (b : Nat) : Nat := if b % 2 ^ 31 > 0x7f800000 then 0x7fc00000 else b

/-- `f64::NAN.to_bits() = 0x7ff8000000000000` -/
def canonF64 (b : Nat) : Nat := if b % 2 ^ 63 > 0x7ff0000000000000 then 0x7ff8000000000000 else b

/-! ## Typing -/

/-- 2^128: `u128::wrapping_add` -/
def M128 : Nat := 340282366920938463463374607431768211456

/-- lengths are `usize` -/
def M64 : Nat := 18446744073709551616

def intInRange (signed : Bool) (w : IntW) (i : Int) : Bool :=
  if signed then decide (-(2 : Int) ^ (8 * w.bytes - 1) ≤ i ∧ i < (2 : Int) ^ (8 * w.bytes - 1))
  else decide (0 ≤ i ∧ i < (2 : Int) ^ (8 * w.bytes))

mutual
def hasType : Ty → Val → Bool
  | .int s w, .int i => intInRange s w i
  | .bool, .bool _ => true
  | .char, .char c => decide (c < 0x110000) && !(decide (0xD800 ≤ c) && decide (c < 0xE000))
  | .f32, .f32 b => decide (b < 2 ^ 32)
  | .f64, .f64 b => decide (b < 2 ^ 64)
  | .unit, .unit => true
  | .str, .str bs => decide (bs.length < M64)
  | .option _, .none => true
  | .option t, .some v => hasType t v
  | .result t _, .ok v => hasType t v
  | .result _ e, .err v => hasType e v
  | .seq t, .list vs => decide (vs.length < M64) && allHaveType t vs
  | .array n t, .list vs => decide (vs.length = n) && decide (vs.length < M64) && allHaveType t vs
  | .tuple ts, .tuple vs => fieldsHaveType ts vs
  | .wrapper t, .wrap v => hasType t v
  | .enum _ vars, .variant idx fs =>
      match vars.get? idx with
      | some (_, fts) => fieldsHaveType fts fs
      | none => false
  | .uset t, .list vs => decide (vs.length < M64) && allHaveType t vs
  | .umap k v, .list vs => decide (vs.length < M64) && allHaveType (Ty.pair k v) vs
  | _, _ => false
def allHaveType : Ty → ValList → Bool
  | _, .nil => true
  | t, .cons v vs => hasType t v && allHaveType t vs
def fieldsHaveType : TyList → ValList → Bool
  | .nil, .nil => true
  | .cons t ts, .cons v vs => hasType t v && fieldsHaveType ts vs
  | _, _ => false
end

def distinctNats : List Nat → Bool
  | [] => true
  | d :: ds => !(ds.contains d) && distinctNats ds

def allBelow (b : Nat) : List Nat → Bool
  | [] => true
  | d :: ds => decide (d < b) && allBelow b ds

mutual
/-- declarations the compiler accepts: discriminants of one enum are pairwise distinct and fit -/
def Ty.wf : Ty → Bool
  | .option t => t.wf
  | .result t e => t.wf && e.wf
  | .seq t => t.wf
  | .array _ t => t.wf
  | .tuple ts => ts.wf
  | .wrapper t => t.wf
  | .enum dw vs => distinctNats vs.discs && allBelow (2 ^ (8 * dw.bytes)) vs.discs && vs.wf
  | .uset t => t.wf
  | .umap k v => k.wf && v.wf
  | _ => true
def TyList.wf : TyList → Bool
  | .nil => true
  | .cons t ts => t.wf && ts.wf
def VarList.wf : VarList → Bool
  | .nil => true
  | .cons _ fs rest => fs.wf && rest.wf
end

mutual
/-- the ordered fragment: no hash-ordered collection anywhere inside -/
def Ty.ordered : Ty → Bool
  | .option t => t.ordered
  | .result t e => t.ordered && e.ordered
  | .seq t => t.ordered
  | .array _ t => t.ordered
  | .tuple ts => ts.ordered
  | .wrapper t => t.ordered
  | .enum _ vs => vs.ordered
  | .uset _ => false
  | .umap _ _ => false
  | _ => true
def TyList.ordered : TyList → Bool
  | .nil => true
  | .cons t ts => t.ordered && ts.ordered
def VarList.ordered : VarList → Bool
  | .nil => true
  | .cons _ fs rest => fs.ordered && rest.ordered
end

/-! ## The write stream

The hasher is abstract: a state `σ`, `absorb` (= `StableHasher::write`) and `finish`.  `sub_hash` copies the
state, feeds the entry and finishes.  Two instances: `σ = Bytes`, `absorb = (· ++ ·)`, `finish = H` (the
state *is* the bytes absorbed so far), and the streaming SipHash state `SipStream` used by the driver. -/

section
variable {σ : Type} (absorb : σ → Bytes → σ) (finish : σ → Nat)

mutual
/-- Bytes that `v.stable_hash(state)` writes when the hasher is in state `st`.
    Ill-typed combinations give `[]`; the driver rejects them with `hasType` before calling this. -/
def stream : Ty → Val → σ → Bytes
  | .int _ w, .int i, _ => le w.bytes (i % (2 : Int) ^ (8 * w.bytes)).toNat
  | .bool, .bool b, _ => [if b then 1 else 0]
  | .char, .char c, _ => le 4 c
  | .f32, .f32 b, _ => le 4 (canonF32 b)
  | .f64, .f64 b, _ => le 8 (canonF64 b)
  | .unit, .unit, _ => []
  | .str, .str bs, _ => le 8 bs.length ++ bs
  | .option _, .none, _ => le 8 0
  | .option t, .some v, st => le 8 1 ++ stream t v (absorb st (le 8 1))
  | .result t _, .ok v, st => le 8 0 ++ stream t v (absorb st (le 8 0))
  | .result _ e, .err v, st => le 8 1 ++ stream e v (absorb st (le 8 1))
  | .seq t, .list vs, st => le 8 vs.length ++ streamAll t vs (absorb st (le 8 vs.length))
  | .array _ t, .list vs, st => le 8 vs.length ++ streamAll t vs (absorb st (le 8 vs.length))
  | .tuple ts, .tuple vs, st => streamFields ts vs st
  | .wrapper t, .wrap v, st => stream t v st
  | .enum dw vars, .variant idx fs, st =>
      match vars.get? idx with
      | some (d, fts) => le dw.bytes d ++ streamFields fts fs (absorb st (le dw.bytes d))
      | none => []
  | .uset t, .list vs, st =>
      le 8 vs.length ++ le 16 (sumSub t vs (absorb st (le 8 vs.length)) 0)
  | .umap k v, .list vs, st =>
      le 8 vs.length ++ le 16 (sumSub (Ty.pair k v) vs (absorb st (le 8 vs.length)) 0)
  | _, _, _ => []
/-- elements of a sequence, one after the other -/
def streamAll : Ty → ValList → σ → Bytes
  | _, .nil, _ => []
  | t, .cons v vs, st => stream t v st ++ streamAll t vs (absorb st (stream t v st))
/-- fields of a tuple / struct / enum variant in declaration order -/
def streamFields : TyList → ValList → σ → Bytes
  | .cons t ts, .cons v vs, st => stream t v st ++ streamFields ts vs (absorb st (stream t v st))
  | _, _, _ => []
/-- `combined = combined.wrapping_add(state.sub_hash(|sub| entry.stable_hash(sub)))` over the
    entries in iteration order; `st` is the state of `state` (the length already absorbed) -/
def sumSub : Ty → ValList → σ → Nat → Nat
  | _, .nil, _, acc => acc
  | t, .cons v vs, st, acc => sumSub t vs st ((acc + finish (absorb st (stream t v st))) % M128)
end

end

/-- streaming form of `sip128`: the `Hasher` struct (state, unprocessed tail, length) -/
structure SipStream where
  s : SipState
  tail : Bytes
  len : Nat

def SipStream.init : SipStream :=
  ⟨⟨0x736f6d6570736575, 0x646f72616e646f83, 0x6c7967656e657261, 0x7465646279746573⟩, [], 0⟩

def SipStream.absorb (h : SipStream) (bs : Bytes) : SipStream :=
  let (s, tail) := sipAbsorb h.s (h.tail ++ bs)
  ⟨s, tail, h.len + bs.length⟩

def SipStream.finish (h : SipStream) : Nat :=
  let b : UInt64 := ((UInt64.ofNat h.len &&& 0xff) <<< 56) ||| leWord h.tail
  let s := sipAbsorbWord h.s b
  let s := { s with v2 := s.v2 ^^^ 0xee }
  let s := sipRound (sipRound (sipRound (sipRound s)))
  let h1 := sipXor s
  let s := { s with v1 := s.v1 ^^^ 0xdd }
  let s := sipRound (sipRound (sipRound (sipRound s)))
  let h2 := sipXor s
  h1.toNat + 2 ^ 64 * h2.toNat

/-- `SeededStableHasherBuilder::new(seed).build_stable_hasher()`, `v.stable_hash(&mut h)`,
    `h.finish()` with `Sip128Hasher` -/
def seeded (seed : Nat) : SipStream := SipStream.init.absorb (le 8 seed)

def topStream (seed : Nat) (t : Ty) (v : Val) : Bytes :=
  stream SipStream.absorb SipStream.finish t v (seeded seed)

def hash128 (seed : Nat) (t : Ty) (v : Val) : Nat :=
  ((seeded seed).absorb (topStream seed t v)).finish

/-- `SipHasher::new()` (keys 0,0; the 128-bit variant's `v1 ^= 0xee` is folded into the constant),
    `write(msg)`, `finish128()`, `u128::from(Hash128)` -/
def sip128 (msg : Bytes) : Nat := (SipStream.init.absorb msg).finish

/-! ## NaN-canonical representative of a value -/

mutual
def Val.canon : Val → Val
  | .f32 b => .f32 (canonF32 b)
  | .f64 b => .f64 (canonF64 b)
  | .some v => .some v.canon
  | .ok v => .ok v.canon
  | .err v => .err v.canon
  | .list vs => .list vs.canon
  | .tuple vs => .tuple vs.canon
  | .wrap v => .wrap v.canon
  | .variant i fs => .variant i fs.canon
  | v => v
def ValList.canon : ValList → ValList
  | .nil => .nil
  | .cons v vs => .cons v.canon vs.canon
end

end QbiceVerif.Hash
